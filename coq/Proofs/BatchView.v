(** * BatchView: what observer callbacks see during the BATCH operations (relation-free tier).

    Property C09 ("observer callbacks see a consistent world at the documented time; the world is
    locked during removal and batch callbacks; for a batch operation all removal callbacks run before
    any entity of the batch is changed and all other callbacks after all of them are changed") for
    RemoveEntities, ExchangeBatch / AddBatch / RemoveBatch and NewBatch WITH observers registered, at
    the level of the callback log the model produces. Helper lemmas carry the prefix [bv_].

    What "reports" means. [run_callback oi e] appends the entry
      [100; oi; id e; gen e; IsLocked; Alive e; occurrences of e in a full query] ++ snapshot ++ view,
    snapshot = [n; c1; v1; tid1; tgen1; ...] ([snapshot_entity]: the components of [e] in ascending
    order with value and relation target), view = [world_view]: every row a full query lists, as
    entity + snapshot (so the entry shows whether the OTHER members of the batch are already
    changed). [bv_rep oi e snap] is the entry without the view, with locked = alive = count = 1;
    [bv_reports s (oi, e) entry] says [entry = bv_rep oi e snap ++ world_view s] where [snap] is the
    snapshot of [e] in state [s] ([bv_snapshot_content] reads it as the component/value list of
    [comps_of] / [val] under [v_targets_zero]): the callback saw the WHOLE world as it is in [s]
    (for removal entries the pre-state - structure creation does not change the view,
    [bv_collect_wv] -, for add / create entries the final state).

    Main theorems (hypotheses: [St s]; [tables_listed s] for "count = 1"; [bv_lock_ok (w_lock s) []]:
    the lock invariant of C07 with no bit held, i.e. unlocked and a free bit for the operation and one
    for the query inside a callback; [MInv0 s]: the observer-manager invariant of C08;
    [bv_passive s evt]: the observers registered for [evt] have [o_cb = 0], they only observe):
    - [remove_entities_view]: log = batch-callback entries [101; id; gen] (if [fn]) THEN the
      OnRemoveEntity entries (the order of Go: RemoveEntities runs the callback before the
      observers); every entry reports the PRE-state; exactly the pairs (matching observer, selected
      entity), each once; storage effect as [remove_entities_spec]; unlocked at the end;
    - [exchange_batch_view] (also [NoDup tabs]): log = OnRemoveComponents entries (PRE-state), then
      the batch-callback entries of all moved tables, then the OnAddComponents entries (FINAL state,
      including the values the callbacks stored); exactness of both pair lists; storage effect as
      [exchange_batch_spec]; unlocked at the end;
    - [new_batch_view]: log = batch-callback entries then OnCreateEntity entries reporting the FINAL
      state of the [n] new entities; exactness; storage effect as [new_batch_spec].
    Refuted without passivity: the exactness clauses ([remove_entities_view_active_refuted]: an observer
    that unregisters itself is called for the first entity only). What stays true for ARBITRARY
    callbacks, for every run that returns normally, without [MInv0]: [remove_entities_view_partial],
    [exchange_batch_view_partial], [new_batch_view_partial] (every logged entry reports locked = alive =
    count = 1 and the pre- resp. final content of a selected / new live entity; same order; same
    storage effect). Non-vacuity: [batch_view_nonvacuous] and the three computed logs. *)
From Ark Require Import Model.Base Model.Mask Model.Pool Model.Util Model.World Model.Run.
From Ark Require Import Proofs.TableProofs Proofs.MaskProofs Proofs.WF Proofs.StorageA Proofs.StorageBDefs.
From Ark Require Import Proofs.StorageB_sb1 Proofs.StorageB_sb2 Proofs.StorageB_sb3 Proofs.ViewProofs.
From Ark Require Import Proofs.ObsSpec Proofs.ObsProofs.
From Ark Require Import Proofs.ObsDoc Proofs.CacheProofs Proofs.QueryProofs Proofs.BatchProofs Proofs.StorageC Proofs.BatchOps.
From Ark Require Proofs.LockSpec Proofs.LockProofs.
From Ark Require Import Properties.Common.
From RecordUpdate Require Import RecordSet.
Import RecordSetNotations.
From Coq Require Import Lia.

(* ------------------------------------------------------------------ *)
(** ** The lock: a lock state reachable by balanced lock / unlock histories *)

(** [bv_lock_ok l held]: the invariant of LockProofs (C07) with the ghost list of held bits.
    [bv_lock_ok (w_lock s) []] is "the world is unlocked and its lock is well formed"; it holds for
    [lock_new] and is kept by every lock / unlock ([bv_lock_take], [bv_lock_give]). *)
Definition bv_lock_ok (l : lockst) (held : list nat) : Prop :=
  LockProofs.Inv' (ip (lk_pool l)) (inext (lk_pool l)) (iavail (lk_pool l)) (lk_mask l) held.

Lemma bv_lock_new : bv_lock_ok lock_new [].
Proof. exact LockProofs.Inv_init. Qed.

Lemma bv_lock_take : forall l held, bv_lock_ok l held -> length held < 64 ->
  exists b l', lock_lock l = Some (b, l') /\ ~ In b held /\ bv_lock_ok l' (b :: held).
Proof.
  intros [[ipl nx av] m] held H Hlt. unfold bv_lock_ok in H. cbn [ip lk_pool inext iavail lk_mask] in H.
  pose proof (LockProofs.lock_lock_spec _ _ _ _ _ H) as S.
  destruct (lock_lock {| lk_pool := {| ip := ipl; inext := nx; iavail := av |}; lk_mask := m |}) as [[b l']|]; [|lia].
  destruct S as (S1 & _ & _ & S4). exists b, l'. split; [reflexivity|]. split; [exact S1|exact S4].
Qed.

Lemma bv_lock_give : forall l held b, bv_lock_ok l held -> In b held ->
  exists l', lock_unlock l b = Some l' /\ bv_lock_ok l' (LockSpec.remove_nat b held).
Proof.
  intros [[ipl nx av] m] held b H Hin. unfold bv_lock_ok in H. cbn [ip lk_pool inext iavail lk_mask] in H.
  pose proof (LockProofs.lock_unlock_spec _ _ _ _ _ b H) as S.
  destruct (lock_unlock {| lk_pool := {| ip := ipl; inext := nx; iavail := av |}; lk_mask := m |} b) as [l'|]; [|contradiction].
  destruct S as (_ & S2). exists l'. split; [reflexivity|exact S2].
Qed.

Lemma bv_remove_head : forall b held, ~ In b held -> LockSpec.remove_nat b (b :: held) = held.
Proof.
  intros b held H. unfold LockSpec.remove_nat. cbn [filter]. rewrite Nat.eqb_refl. cbn [negb].
  exact (LockProofs.remove_nat_notin b held H).
Qed.

Lemma bv_lock_locked : forall l held, bv_lock_ok l held -> lock_is_locked l = negb (is_nil held).
Proof.
  intros l held (fl & _ & _ & _ & _ & _ & _ & _ & _ & Hm).
  unfold lock_is_locked, mk_is_zero. destruct held as [|b t]; cbn [is_nil negb].
  - apply negb_false_iff, N.eqb_eq. apply mk_eq_ext. intros j. rewrite sa_mk_get_0.
    destruct (mk_get (lk_mask l) j) eqn:E; [|reflexivity]. apply Hm in E. destruct E.
  - apply negb_true_iff, N.eqb_neq. intros E.
    assert (Hb : mk_get (lk_mask l) b = true) by (apply Hm; left; reflexivity).
    rewrite E, sa_mk_get_0 in Hb. discriminate.
Qed.

(** Taking one more bit and giving it back: the held bits are the same afterwards. *)
Lemma bv_lock_cycle : forall l held, bv_lock_ok l held -> length held < 64 ->
  exists b l' l'', lock_lock l = Some (b, l') /\ bv_lock_ok l' (b :: held) /\
                   lock_unlock l' b = Some l'' /\ bv_lock_ok l'' held.
Proof.
  intros l held H Hlt. destruct (bv_lock_take l held H Hlt) as (b & l' & LL & Hn & H').
  destruct (bv_lock_give l' (b :: held) b H' (or_introl eq_refl)) as (l'' & LU & H'').
  rewrite (bv_remove_head b held Hn) in H''. exists b, l', l''. auto.
Qed.

(* ------------------------------------------------------------------ *)
(** ** An event phase: callbacks only log (and cycle a lock bit) *)

Definition bv_mgr_same (s s' : W) : Prop :=
  w_obs s' = w_obs s /\ w_olists s' = w_olists s /\ w_oagg s' = w_oagg s /\
  w_opool s' = w_opool s /\ w_ototal s' = w_ototal s /\ w_omax s' = w_omax s.

(** [bv_ev held s s' L]: [s'] is [s] with the log extended by [L]; storage and observer manager
    untouched; the lock is again in a state where exactly [held] is held. *)
Definition bv_ev (held : list nat) (s s' : W) (L : list (list Z)) : Prop :=
  storage_same s s' /\ bv_mgr_same s s' /\ bv_lock_ok (w_lock s') held /\ w_log s' = w_log s ++ L.

Lemma bv_mgr_same_refl : forall s, bv_mgr_same s s.
Proof. intros s. unfold bv_mgr_same. repeat split. Qed.

Lemma bv_mgr_same_trans : forall a b c, bv_mgr_same a b -> bv_mgr_same b c -> bv_mgr_same a c.
Proof.
  intros a b c (A1 & A2 & A3 & A4 & A5 & A6) (B1 & B2 & B3 & B4 & B5 & B6).
  unfold bv_mgr_same. repeat split; congruence.
Qed.

Lemma bv_ev_refl : forall held s, bv_lock_ok (w_lock s) held -> bv_ev held s s [].
Proof.
  intros held s H. split; [apply sb3_storage_same_refl|]. split; [apply bv_mgr_same_refl|].
  split; [exact H|]. rewrite app_nil_r. reflexivity.
Qed.

Lemma bv_ev_trans : forall held a b c L1 L2, bv_ev held a b L1 -> bv_ev held b c L2 -> bv_ev held a c (L1 ++ L2).
Proof.
  intros held a b c L1 L2 (A1 & A2 & A3 & A4) (B1 & B2 & B3 & B4).
  split; [eapply sb3_storage_same_trans; eauto|]. split; [eapply bv_mgr_same_trans; eauto|].
  split; [exact B3|]. rewrite B4, A4, app_assoc. reflexivity.
Qed.

Lemma bv_is_locked : forall s held, bv_lock_ok (w_lock s) held -> is_locked s = negb (is_nil held).
Proof. intros s held H. unfold is_locked. apply bv_lock_locked. exact H. Qed.

(** The entry a callback logs depends on the storage and on whether the world is locked. *)
Lemma bv_entry_ext : forall oi e s1 s2, storage_same s1 s2 -> is_locked s2 = is_locked s1 ->
  v_cb_entry oi e s2 = v_cb_entry oi e s1.
Proof.
  intros oi e s1 s2 (E1 & E2 & E3 & E4 & E5 & E6 & E7 & _) EL.
  unfold v_cb_entry. rewrite EL. unfold alive, snapshot_entity, world_view.
  rewrite (v_count_in_world_ext s1 s2 e E6 E7), E3, E4, E6, E7. reflexivity.
Qed.

Lemma bv_entry_ev : forall oi e held s s' L, bv_lock_ok (w_lock s) held -> bv_ev held s s' L ->
  v_cb_entry oi e s' = v_cb_entry oi e s.
Proof.
  intros oi e held s s' L H (SS & _ & H' & _). apply bv_entry_ext; [exact SS|].
  rewrite (bv_is_locked s held H), (bv_is_locked s' held H'). reflexivity.
Qed.

(** A registered observer is PASSIVE if its callback only observes ([o_cb = 0]: it does not
    unregister observers while the operation runs). *)
Definition bv_passive (s : W) (evt : nat) : Prop :=
  forall oi, In oi (olist s evt) -> exists o, nth_error (w_obs s) oi = Some o /\ o_cb o = 0.

Lemma bv_passive_same : forall s s' evt, bv_mgr_same s s' -> bv_passive s evt -> bv_passive s' evt.
Proof.
  intros s s' evt (E1 & E2 & _) H oi Hin. unfold olist in Hin. rewrite E2 in Hin. rewrite E1. apply H. exact Hin.
Qed.

(** The snapshot of an entity the pool calls alive exists (true of every live entity). *)
Definition bv_snap_ok (s : W) (e : ent) : Prop := alive s e = true -> snapshot_entity s e <> None.

Lemma bv_snap_ok_same : forall s s' e, storage_same s s' -> bv_snap_ok s e -> bv_snap_ok s' e.
Proof.
  intros s s' e (E1 & E2 & E3 & E4 & E5 & E6 & E7 & _) H. unfold bv_snap_ok, alive, snapshot_entity in *.
  rewrite E3, E4, E7. exact H.
Qed.

(** One passive callback: exactly the entry [v_cb_entry] is appended. *)
Lemma bv_run_callback : forall oi e s o held,
  bv_lock_ok (w_lock s) held -> length held < 64 ->
  nth_error (w_obs s) oi = Some o -> o_cb o = 0 -> bv_snap_ok s e ->
  exists s', run_callback oi e s = Ok tt s' /\ bv_ev held s s' [v_cb_entry oi e s].
Proof.
  intros oi e s o held HL Hlt Ho Hcb Hsnap.
  destruct (bv_lock_cycle (w_lock s) held HL Hlt) as (b & l' & l'' & LL & _ & LU & HL'').
  unfold run_callback. unfold bind at 1. unfold get at 1. cbv zeta.
  rewrite (sa_bind_ok (v_lockM_ok s b l' LL)).
  unfold bind at 1. unfold get at 1.
  assert (C : count_in_world (s <| w_lock := l' |>) e = count_in_world s e) by reflexivity.
  rewrite C. clear C.
  assert (C : world_view (s <| w_lock := l' |>) = world_view s) by reflexivity.
  rewrite C. clear C.
  assert (LU' : lock_unlock (w_lock (s <| w_lock := l' |>)) b = Some l'') by exact LU.
  rewrite (sa_bind_ok (v_unlockM_ok (s <| w_lock := l' |>) b l'' LU')).
  set (s2 := s <| w_lock := l' |> <| w_lock := l'' |>).
  assert (T : forall snap,
     (x <- log ([100%Z; Zn oi] ++ Zent e ++ [Zb (is_locked s); Zb (alive s e); Zn (count_in_world s e)] ++ snap) ;;
      v_cb_action oi) s2 =
     Ok tt (s2 <| w_log ::= fun lg => lg ++ [[100%Z; Zn oi] ++ Zent e ++ [Zb (is_locked s); Zb (alive s e); Zn (count_in_world s e)] ++ snap] |>)).
  { intros snap. unfold bind at 1. unfold log, modify. unfold v_cb_action.
    set (s3 := s2 <| w_log ::= fun lg => lg ++ [[100%Z; Zn oi] ++ Zent e ++ [Zb (is_locked s); Zb (alive s e); Zn (count_in_world s e)] ++ snap] |>).
    assert (G : getO oi s3 = Ok o s3).
    { unfold getO, bind, get. change (w_obs s3) with (w_obs s). rewrite Ho. reflexivity. }
    rewrite (sa_bind_ok G). rewrite Hcb. reflexivity. }
  assert (F : forall snap, bv_ev held s
     (s2 <| w_log ::= fun lg => lg ++ [[100%Z; Zn oi] ++ Zent e ++ [Zb (is_locked s); Zb (alive s e); Zn (count_in_world s e)] ++ snap] |>)
     [[100%Z; Zn oi] ++ Zent e ++ [Zb (is_locked s); Zb (alive s e); Zn (count_in_world s e)] ++ snap]).
  { intros snap. split; [unfold storage_same; repeat split|]. split; [unfold bv_mgr_same; repeat split|].
    split; [exact HL''|reflexivity]. }
  unfold v_cb_entry. unfold bv_snap_ok in Hsnap. destruct (alive s e) eqn:Al.
  - destruct (snapshot_entity s e) as [snap|] eqn:Sn; [|exfalso; apply Hsnap; reflexivity].
    unfold of_opt. unfold bind at 1. unfold ret at 1. cbv beta iota.
    eexists. split; [apply (T (snap ++ world_view s))|apply (F (snap ++ world_view s))].
  - unfold bind at 1. unfold ret at 1. cbv beta iota.
    eexists. split; [apply (T ([] ++ world_view s))|apply (F ([] ++ world_view s))].
Qed.

Lemma bv_fired_same : forall s s' evt pred, bv_mgr_same s s' -> fired s' evt pred = fired s evt pred.
Proof. intros s s' evt pred (E1 & E2 & _). unfold fired, olist. rewrite E1, E2. reflexivity. Qed.

Lemma bv_get_agg_same : forall s s' evt, bv_mgr_same s s' -> get_agg s' evt = get_agg s evt.
Proof. intros s s' evt (_ & _ & E3 & _). unfold get_agg. rewrite E3. reflexivity. Qed.

Lemma bv_has_obs_same : forall s s' evt, bv_mgr_same s s' -> has_obs s' evt = has_obs s evt.
Proof. intros s s' evt H. unfold has_obs. rewrite (bv_get_agg_same s s' evt H). reflexivity. Qed.

(** The dispatch loop over passive observers. *)
Lemma bv_fire_loop : forall pred e l s found held,
  bv_lock_ok (w_lock s) held -> length held < 64 ->
  (forall oi, In oi l -> exists o, nth_error (w_obs s) oi = Some o /\ o_cb o = 0) ->
  bv_snap_ok s e ->
  exists s', fire_loop run_callback pred e l found s =
             Ok (found || negb (is_nil (filter (sel (w_obs s) pred) l)))%bool s' /\
    bv_ev held s s' (map (fun oi => v_cb_entry oi e s) (filter (sel (w_obs s) pred) l)).
Proof.
  intros pred e l. induction l as [|a l IH]; intros s found held HL Hlt Hp Hsnap.
  - exists s. split; [cbn; rewrite orb_false_r; reflexivity|apply bv_ev_refl; exact HL].
  - destruct (Hp a (or_introl eq_refl)) as (o & Ho & Hcb).
    cbn [fire_loop].
    assert (G : getO a s = Ok o s) by (unfold getO, bind, get; rewrite Ho; reflexivity).
    rewrite (sa_bind_ok G).
    assert (Esel : sel (w_obs s) pred a = pred o) by (unfold sel; rewrite Ho; reflexivity).
    cbn [filter]. rewrite Esel.
    assert (Hp' : forall oi, In oi l -> exists o0, nth_error (w_obs s) oi = Some o0 /\ o_cb o0 = 0)
      by (intros oi Hin; apply Hp; right; exact Hin).
    destruct (pred o).
    + destruct (bv_run_callback a e s o held HL Hlt Ho Hcb Hsnap) as (s1 & R & EV).
      rewrite (sa_bind_ok R).
      pose proof EV as (SS1 & MS1 & HL1 & LG1).
      assert (Eobs : w_obs s1 = w_obs s) by apply MS1.
      destruct (IH s1 true held HL1 Hlt) as (s' & R' & EV').
      { rewrite Eobs. exact Hp'. }
      { exact (bv_snap_ok_same s s1 e SS1 Hsnap). }
      rewrite Eobs in R', EV'. exists s'. split.
      { rewrite R'. cbn [is_nil negb orb]. rewrite orb_true_r. reflexivity. }
      cbn [map]. change (v_cb_entry a e s :: map (fun oi => v_cb_entry oi e s) (filter (sel (w_obs s) pred) l))
        with ([v_cb_entry a e s] ++ map (fun oi => v_cb_entry oi e s) (filter (sel (w_obs s) pred) l)).
      eapply bv_ev_trans; [exact EV|].
      rewrite (map_ext (fun oi => v_cb_entry oi e s) (fun oi => v_cb_entry oi e s1)); [exact EV'|].
      intros oi. symmetry. exact (bv_entry_ev oi e held s s1 _ HL EV).
    + apply IH; assumption.
Qed.

(** [fire] with passive observers whose aggregate early-out is sound: exactly the matching observers
    ([fired], ObsSpec) log one entry each, in registration order. *)
Lemma bv_fire : forall evt early pred e eo s held,
  bv_lock_ok (w_lock s) held -> length held < 64 -> bv_passive s evt -> bv_snap_ok s e ->
  (early (get_agg s evt) = true -> fired s evt pred = []) ->
  exists s', fire evt early pred e eo s = Ok (negb (is_nil (fired s evt pred))) s' /\
    bv_ev held s s' (map (fun oi => v_cb_entry oi e s) (fired s evt pred)).
Proof.
  intros evt early pred e eo s held HL Hlt Hp Hsnap He.
  unfold fire, fire_with. unfold bind at 1. unfold get at 1. cbv beta iota.
  destruct (eo && early (get_agg s evt))%bool eqn:Eb.
  - apply andb_true_iff in Eb. destruct Eb as [_ Eb]. rewrite (He Eb).
    exists s. split; [reflexivity|apply bv_ev_refl; exact HL].
  - destruct (bv_fire_loop pred e (olist s evt) s false held HL Hlt Hp Hsnap) as (s' & R & EV).
    exists s'. split; [exact R|exact EV].
Qed.

Lemma bv_flat_map_nil : forall A B (l : list A), flat_map (fun _ : A => @nil B) l = [].
Proof. induction l as [|a l IH]; [reflexivity|exact IH]. Qed.

(** The batch idiom [fire_rows] (early-out on the first row only; stop when the first row fired
    nothing): every row is reported to every matching observer. *)
Lemma bv_fire_rows : forall evt early pred es eo s held,
  bv_lock_ok (w_lock s) held -> length held < 64 -> bv_passive s evt ->
  (forall e, In e es -> bv_snap_ok s e) ->
  (early (get_agg s evt) = true -> fired s evt pred = []) ->
  exists s', fire_rows (fun e eo => fire evt early pred e eo) es eo s = Ok tt s' /\
    bv_ev held s s' (flat_map (fun e => map (fun oi => v_cb_entry oi e s) (fired s evt pred)) es).
Proof.
  intros evt early pred es. induction es as [|e es IH]; intros eo s held HL Hlt Hp Hsn He.
  - exists s. split; [reflexivity|apply bv_ev_refl; exact HL].
  - cbn [fire_rows flat_map].
    destruct (bv_fire evt early pred e eo s held HL Hlt Hp (Hsn e (or_introl eq_refl)) He) as (s1 & R & EV).
    rewrite (sa_bind_ok R).
    destruct (fired s evt pred) as [|oi0 rest] eqn:F.
    + cbn [is_nil negb map app]. exists s1. split; [reflexivity|].
      rewrite bv_flat_map_nil. exact EV.
    + cbn [is_nil negb]. rewrite <- F in *.
      pose proof EV as (SS1 & MS1 & HL1 & LG1).
      destruct (IH false s1 held HL1 Hlt) as (s' & R' & EV').
      { exact (bv_passive_same s s1 evt MS1 Hp). }
      { intros e' Hin. apply (bv_snap_ok_same s s1 e' SS1). apply Hsn. right. exact Hin. }
      { rewrite (bv_get_agg_same s s1 evt MS1), (bv_fired_same s s1 evt pred MS1). exact He. }
      exists s'. split; [exact R'|].
      eapply bv_ev_trans; [exact EV|].
      rewrite (bv_fired_same s s1 evt pred MS1) in EV'.
      rewrite (flat_map_ext (fun e0 => map (fun oi => v_cb_entry oi e0 s) (fired s evt pred))
                            (fun e0 => map (fun oi => v_cb_entry oi e0 s1) (fired s evt pred))); [exact EV'|].
      intros e0. apply map_ext. intros oi. symmetry. exact (bv_entry_ev oi e0 held s s1 _ HL EV).
Qed.

(* ------------------------------------------------------------------ *)
(** ** Reading a log entry *)

(** The entry format of [run_callback]: [100; observer; id; gen; locked; alive; count] followed by
    the snapshot [n; c1; v1; tid1; tgen1; ...; cn; vn; tidn; tgenn] ([snapshot_entity]).
    [bv_rep oi e snap]: the entry of observer [oi] about [e] that reports the world LOCKED, [e] ALIVE,
    [e] seen exactly ONCE in a full query, and the content [snap]. *)
Definition bv_rep (oi : nat) (e : ent) (snap : list Z) : list Z :=
  [100%Z; Zn oi; Zn (fst e); Z.of_N (snd e); 1%Z; 1%Z; 1%Z] ++ snap.

(** [bv_reports s (oi, e) entry]: [entry] is observer [oi]'s report about [e] with locked = alive =
    count = 1 whose snapshot is the content of [e] in state [s]. *)
Definition bv_reports (s : W) (p : nat * ent) (entry : list Z) : Prop :=
  exists snap, snapshot_entity s (snd p) = Some snap /\ entry = bv_rep (fst p) (snd p) snap ++ world_view s.

(** [e] is live and stored in a table that some archetype lists. *)
Definition bv_seen (s : W) (e : ent) : Prop :=
  live s e = true /\ exists tid r, loc s e = Some (tid, r) /\ In tid (v_listed s).

Lemma bv_seen_listed : forall s e, tables_listed s -> live s e = true -> bv_seen s e.
Proof.
  intros s e TL Hl. split; [exact Hl|].
  destruct (sb2_live_elim _ _ Hl) as (tid & r & t & L & T & R & _).
  exists tid, r. split; [exact L|]. destruct (TL tid t T ltac:(lia)) as (a & Ha & Hin).
  apply v_listed_in. exists (t_arch t), a. auto.
Qed.

Lemma bv_snapshot_live : forall s e, live s e = true -> exists snap, snapshot_entity s e = Some snap.
Proof.
  intros s e Hl. destruct (sb2_live_elim _ _ Hl) as (tid & r & t & L & T & _).
  unfold snapshot_entity. unfold loc in L.
  destruct (nth_error (w_index s) (fst e)) as [[[tid'|] r']|]; try discriminate.
  inversion L; subst. rewrite T. eauto.
Qed.

Lemma bv_snap_ok_live : forall s e, live s e = true -> bv_snap_ok s e.
Proof. intros s e Hl _. destruct (bv_snapshot_live s e Hl) as (snap & E). congruence. Qed.

Lemma bv_snapshot_same : forall s s' e, storage_same s s' -> snapshot_entity s' e = snapshot_entity s e.
Proof. intros s s' e (E1 & E2 & E3 & E4 & E5 & E6 & E7 & _). unfold snapshot_entity. rewrite E4, E7. reflexivity. Qed.

Lemma bv_world_view_ext : forall s s', w_archs s' = w_archs s -> w_tables s' = w_tables s -> world_view s' = world_view s.
Proof. intros s s' E6 E7. unfold world_view. rewrite E6, E7. reflexivity. Qed.

Lemma bv_world_view_same : forall s s', storage_same s s' -> world_view s' = world_view s.
Proof. intros s s' (E1 & E2 & E3 & E4 & E5 & E6 & E7 & _). exact (bv_world_view_ext s s' E6 E7). Qed.

(** [world_view] read table by table over the listed tables. *)
Definition bv_tview (s : W) (tid : nat) : list Z :=
  match nth_error (w_tables s) tid with
  | Some t => flat_map (fun row => Zent (nth row (t_ents t) zero_ent) ++ (Zn (length (t_ids t)) :: snapshot_row t row))
                       (seq 0 (t_len t))
  | None => []
  end.

Lemma bv_flat_map_flat_map : forall A B C (f : B -> list C) (g : A -> list B) l,
  flat_map f (flat_map g l) = flat_map (fun x => flat_map f (g x)) l.
Proof. induction l as [|a l IH]; [reflexivity|]. cbn [flat_map]. rewrite flat_map_app, IH. reflexivity. Qed.

Lemma bv_world_view_listed : forall s, world_view s = flat_map (bv_tview s) (v_listed s).
Proof. intros s. unfold world_view, v_listed. rewrite bv_flat_map_flat_map. reflexivity. Qed.

(** Structure creation: a table that did not exist before has no rows. *)
Lemma bv_new_table_empty : forall s s' tid t', WF s -> WF s' -> w_index s' = w_index s ->
  length (w_tables s) <= tid -> nth_error (w_tables s') tid = Some t' -> t_len t' = 0.
Proof.
  intros s s' tid t' HW HW' EI Hge Ht'. destruct (t_len t') as [|n] eqn:El; [reflexivity|exfalso].
  destruct (wf_rows _ HW' tid t' 0 Ht' ltac:(lia)) as (L & _). unfold loc in L. rewrite EI in L.
  destruct (nth_error (w_index s) (fst (row_ent t' 0))) as [[[tid0|] r0]|] eqn:EN; try discriminate.
  inversion L; subst tid0 r0.
  destruct (wf_index _ HW _ _ _ EN) as (t & Ht & _).
  assert (tid < length (w_tables s)) by (apply nth_error_Some; congruence). lia.
Qed.

Lemma bv_tview_rows : forall s s' tid, WF s -> WF s' -> same_rows s s' ->
  bv_tview s' tid = if Nat.ltb tid (length (w_tables s)) then bv_tview s tid else [].
Proof.
  intros s s' tid HW HW' SR. pose proof SR as (EI & _ & _ & _ & _ & _ & HT & _).
  destruct (Nat.ltb_spec tid (length (w_tables s))) as [Hlt|Hge].
  - unfold bv_tview. destruct (nth_error (w_tables s) tid) as [t|] eqn:Ht.
    2:{ apply nth_error_None in Ht. lia. }
    destruct (HT tid t Ht) as (t' & Ht' & (D1 & D2 & D3 & D4 & D5 & D6 & D7) & Htg). rewrite Ht'.
    rewrite D1. destruct (t_len t) as [|n] eqn:El; [reflexivity|].
    destruct (Htg ltac:(lia)) as (G1 & _). unfold snapshot_row. rewrite D3, D4, D5, G1. reflexivity.
  - unfold bv_tview. destruct (nth_error (w_tables s') tid) as [t'|] eqn:Ht'; [|reflexivity].
    rewrite (bv_new_table_empty s s' tid t' HW HW' EI Hge Ht'). reflexivity.
Qed.

(** The view is the same after structure creation if the listing grew by new tables only. *)
Lemma bv_world_view_grow : forall s s', WF s -> WF s' -> same_rows s s' ->
  (forall f : nat -> list Z, (forall tid, length (w_tables s) <= tid -> f tid = []) ->
     flat_map f (v_listed s') = flat_map f (v_listed s)) ->
  world_view s' = world_view s.
Proof.
  intros s s' HW HW' SR HL. rewrite !bv_world_view_listed.
  rewrite (flat_map_ext (bv_tview s') (fun tid => if Nat.ltb tid (length (w_tables s)) then bv_tview s tid else [])).
  2:{ intros tid. apply (bv_tview_rows s s' tid HW HW' SR). }
  rewrite HL.
  - apply flat_map_ext. intros tid. destruct (Nat.ltb_spec tid (length (w_tables s))) as [Hlt|Hge]; [reflexivity|].
    unfold bv_tview. apply nth_error_None in Hge. rewrite Hge. reflexivity.
  - intros tid Hge. destruct (Nat.ltb_spec tid (length (w_tables s))); [lia|reflexivity].
Qed.

Lemma bv_listed_snoc_arch : forall (s s' : W) a tid (f : nat -> list Z),
  w_archs s' = w_archs s ++ [a] -> a_tables a = [tid] -> f tid = [] ->
  flat_map f (v_listed s') = flat_map f (v_listed s).
Proof.
  intros s s' a tid f EA Ta Hf. unfold v_listed. rewrite EA, flat_map_app. cbn [flat_map]. rewrite Ta.
  rewrite flat_map_app. cbn [flat_map app]. rewrite Hf. rewrite !app_nil_r. reflexivity.
Qed.

Lemma bv_listed_updf_add : forall (l : list arch) aid tid (f : nat -> list Z), f tid = [] ->
  flat_map f (flat_map a_tables (updf aid (sa_arch_add tid) l)) = flat_map f (flat_map a_tables l).
Proof.
  intros l aid tid f Hf. unfold updf. destruct (nth_error l aid) as [a|] eqn:Ha; [|reflexivity].
  revert aid Ha. induction l as [|b l IH]; intros aid Ha; [destruct aid; discriminate|].
  destruct aid as [|aid]; cbn [nth_error] in Ha.
  - inversion Ha; subst b. cbn [upd flat_map]. rewrite !flat_map_app. f_equal.
    unfold sa_arch_add. cbn. rewrite flat_map_app. cbn [flat_map]. rewrite Hf. rewrite !app_nil_r. reflexivity.
  - cbn [upd flat_map]. rewrite !flat_map_app. f_equal. apply IH. exact Ha.
Qed.

(** An entry computed on a locked state [V] with the storage of [s], about an entity seen in [s]. *)
Lemma bv_entry_seen : forall oi e s V held, St s -> bv_seen s e -> storage_same s V ->
  bv_lock_ok (w_lock V) held -> held <> [] -> bv_reports s (oi, e) (v_cb_entry oi e V).
Proof.
  intros oi e s V held HS (Hl & tid & r & L & Hin) SS HL Hne.
  destruct (bv_snapshot_live s e Hl) as (snap & Sn). exists snap. split; [exact Sn|].
  pose proof SS as (E1 & E2 & E3 & E4 & E5 & E6 & E7 & _).
  unfold v_cb_entry. rewrite (bv_is_locked V held HL).
  assert (Al : alive V e = true).
  { unfold alive. rewrite E3. apply (live_alive s e (proj1 HS) Hl). }
  rewrite Al, (bv_snapshot_same s V e SS), Sn.
  rewrite (v_count_in_world_ext s V e E6 E7), (v_count_listed s e tid r HS Hl L).
  destruct (in_dec Nat.eq_dec tid (v_listed s)) as [_|Hout]; [|contradiction].
  rewrite (bv_world_view_same s V SS).
  destruct held; [congruence|]. unfold bv_rep. cbn [fst snd]. rewrite <- app_assoc. reflexivity.
Qed.

(** Reading the snapshot as content (needs the clause "relation targets are zero", see ViewProofs). *)
Lemma bv_snapshot_content : forall s e snap, St s -> v_targets_zero s -> live s e = true ->
  snapshot_entity s e = Some snap ->
  exists ids, comps_of s e = Some ids /\ snap = Zn (length ids) :: flat_map (fun c =>
     [Zn c; match val s e c with Some v => v | None => 0%Z end; 0%Z; 0%Z]) ids.
Proof. intros s e snap HS HZ Hl Sn. exact (snapshot_is_content_partial s e snap HS HZ Hl Sn). Qed.

(** Lists of (observer, entity) pairs and their entries. *)
Lemma bv_Forall2_map : forall A B (R : A -> B -> Prop) (f : A -> B) l, (forall x, In x l -> R x (f x)) ->
  Forall2 R l (map f l).
Proof.
  induction l as [|a l IH]; intros H; [constructor|]. cbn [map]. constructor; [apply H; left; reflexivity|].
  apply IH. intros x Hx. apply H. right. exact Hx.
Qed.

(* ------------------------------------------------------------------ *)
(** ** Structure creation lists the table it returns and keeps listed tables listed *)

Definition bv_lmono (s s' : W) : Prop := forall tid, In tid (v_listed s) -> In tid (v_listed s').

Lemma bv_lmono_refl : forall s, bv_lmono s s.
Proof. intros s tid H. exact H. Qed.
Lemma bv_lmono_trans : forall a b c, bv_lmono a b -> bv_lmono b c -> bv_lmono a c.
Proof. intros a b c H1 H2 tid H. apply H2, H1, H. Qed.
Lemma bv_lmono_archs : forall s s', w_archs s' = w_archs s -> bv_lmono s s'.
Proof. intros s s' E tid H. unfold v_listed in *. rewrite E. exact H. Qed.

Lemma bv_foca_mono : forall m s aid s1, St s -> (forall j, mk_get m j = true -> j < length (w_reg s)) ->
  find_or_create_arch m s = Ok aid s1 -> bv_lmono s s1.
Proof.
  intros m s aid s1 HS Hm H.
  destruct (find_or_create_arch_shape s m HS Hm) as (aid' & s1' & E & Sh).
  rewrite H in E. injection E as <- <-.
  destruct Sh as [[Es _]|(_ & _ & a & t & EA & _)]; [rewrite Es; apply bv_lmono_refl|].
  intros tid Hin. unfold v_listed in *. rewrite EA, flat_map_app. apply in_or_app. left. exact Hin.
Qed.

(** create_table for an archetype without tables (copy of [sa_create_table_nil], exposing the
    resulting archetype list). *)
Lemma bv_create_table_nil : forall s aid a,
  St s -> nth_error (w_archs s) aid = Some a -> a_tables a = [] ->
  exists s', create_table aid [] s = Ok (length (w_tables s)) s' /\
    w_archs s' = updf aid (sa_arch_add (length (w_tables s))) (w_archs s).
Proof.
  intros s aid a HS Ha Hta. pose proof HS as [HW HN]. pose proof HN as (N1 & N2 & N3 & N4).
  destruct (N3 aid a Ha) as (Hf & Hn & Hg & Hr).
  unfold create_table.
  rewrite (sa_bind_ok (sa_getA_eq _ _ _ Ha)). rewrite Hn. cbn [length Nat.ltb Nat.leb negb guard].
  rewrite (sa_bind_ok (m := ret tt) (s := s) eq_refl).
  cbn [rels_distinct guard]. rewrite (sa_bind_ok (m := ret tt) (s := s) eq_refl).
  cbn [place_targets of_opt]. rewrite (sa_bind_ok (m := ret _) (s := s) eq_refl).
  cbn [forM_]. rewrite (sa_bind_ok (m := ret tt) (s := s) eq_refl).
  unfold register_targets; cbn [forM_]. rewrite (sa_bind_ok (m := ret tt) (s := s) eq_refl).
  rewrite (sa_bind_ok (m := get) (s := s) eq_refl).
  rewrite Hf. cbn [rev].
  unfold arch_has_rels. rewrite Hn. cbn [Nat.eqb negb].
  set (t := new_table aid a (map (kind_of s) (a_comps a)) (cf_cap (w_cfg s)) (repeat zero_ent (length (a_comps a))) []).
  set (tid := length (w_tables s)).
  set (s1 := s <| w_tables ::= fun l => l ++ [t] |>).
  assert (E1 : (modify (fun s0 : wstate => s0 <| w_tables ::= fun l => l ++ [t] |>) ;;; ret tid) s = Ok tid s1) by reflexivity.
  rewrite (sa_bind_ok E1).
  assert (T1 : nth_error (w_tables s1) tid = Some t) by (unfold s1; cbn; apply sa_nth_error_snoc_new).
  rewrite (sa_bind_ok (sa_getT_eq _ _ _ T1)).
  set (s2 := s1 <| w_archs ::= updf aid (fun a0 => arch_add_table a0 tid t) |>).
  assert (E2 : modA aid (fun a0 => arch_add_table a0 tid t) s1 = Ok tt s2) by reflexivity.
  rewrite (sa_bind_ok E2).
  assert (EA : w_archs s2 = updf aid (sa_arch_add tid) (w_archs s)).
  { unfold s2, s1. cbn. unfold updf. rewrite Ha. f_equal. unfold arch_add_table, arch_has_rels. rewrite Hn. reflexivity. }
  destruct (sa_cache_add_table_spec tid t (a_mask a) s2) as (l' & E3 & RC).
  { reflexivity. }
  { intros addr Hin. apply (wf_cache _ HW addr Hin). }
  rewrite (sa_bind_ok E3). unfold ret.
  exists (s2 <| w_cheap := l' |>). split; [reflexivity|exact EA].
Qed.

Lemma bv_listed_add : forall (s s' : W) aid a tid, nth_error (w_archs s) aid = Some a ->
  w_archs s' = updf aid (sa_arch_add tid) (w_archs s) -> In tid (v_listed s') /\ bv_lmono s s'.
Proof.
  intros s s' aid a tid Ha E. split.
  - apply v_listed_in. exists aid, (sa_arch_add tid a). split.
    + rewrite E, nth_error_updf, Nat.eqb_refl, Ha. reflexivity.
    + unfold sa_arch_add. cbn. apply in_or_app. right. left. reflexivity.
  - intros x Hx. apply v_listed_in in Hx. destruct Hx as (i & b & Hb & Hin). apply v_listed_in.
    rewrite E. destruct (Nat.eq_dec aid i) as [<-|Hne].
    + exists aid, (sa_arch_add tid a). split; [rewrite nth_error_updf, Nat.eqb_refl, Ha; reflexivity|].
      rewrite Ha in Hb. inversion Hb; subst b. unfold sa_arch_add. cbn. apply in_or_app. left. exact Hin.
    + exists i, b. split; [|exact Hin]. rewrite nth_error_updf. destruct (Nat.eqb_spec i aid); [congruence|exact Hb].
Qed.

Lemma bv_goct_listed : forall s aid a tid s', St s -> nth_error (w_archs s) aid = Some a ->
  get_or_create_table aid [] s = Ok tid s' -> In tid (v_listed s') /\ bv_lmono s s'.
Proof.
  intros s aid a tid s' HS Ha H. pose proof HS as [HW HN]. pose proof HN as (N1 & N2 & N3 & N4).
  destruct (N3 aid a Ha) as (Hf & Hn & Hg & Hr).
  unfold get_or_create_table in H. rewrite (sa_bind_ok (sa_getA_eq _ _ _ Ha)) in H.
  unfold arch_get_table in H. destruct (a_tables a) as [|t0 tl] eqn:Hta.
  - rewrite (sa_bind_ok (m := ret None) (s := s) eq_refl) in H.
    destruct (bv_create_table_nil s aid a HS Ha Hta) as (s1 & E & EA). rewrite E in H. inversion H; subst.
    exact (bv_listed_add s s' aid a (length (w_tables s)) Ha EA).
  - unfold arch_has_rels in H. rewrite Hn in H. cbn [Nat.eqb negb] in H.
    rewrite (sa_bind_ok (m := ret (Some t0)) (s := s) eq_refl) in H. unfold ret in H. inversion H; subst.
    split; [|apply bv_lmono_refl]. apply v_listed_in. exists aid, a. split; [exact Ha|]. rewrite Hta. left. reflexivity.
Qed.

(** The common tail of the finders, with the listing facts. *)
Lemma bv_finder_tail : forall s old ot m,
  St s -> nth_error (w_tables s) old = Some ot -> (forall j, mk_get m j = true -> j < length (w_reg s)) ->
  forall aid s1 tid s2, find_or_create_arch m s = Ok aid s1 -> get_or_create_table aid [] s1 = Ok tid s2 ->
  In tid (v_listed s2) /\ bv_lmono s s2.
Proof.
  intros s old ot m HS Hot Hm aid s1 tid s2 E1 E4.
  destruct (find_or_create_arch_spec s m HS Hm) as (aid' & s1' & E1' & HS1 & _ & _ & _ & _ & a & Ha & _).
  rewrite E1 in E1'. inversion E1'; subst aid' s1'.
  destruct (bv_goct_listed s1 aid a tid s2 HS1 Ha E4) as (G1 & G2).
  split; [exact G1|]. eapply bv_lmono_trans; [exact (bv_foca_mono m s aid s1 HS Hm E1)|exact G2].
Qed.

Lemma bv_foct_listed : forall s old ot add rem m0 tid aid m rr s',
  St s -> nth_error (w_tables s) old = Some ot ->
  (forall j, mk_get m0 j = true -> j < length (w_reg s)) -> (forall c, In c add -> c < length (w_reg s)) ->
  find_or_create_table old add rem [] m0 s = Ok (tid, aid, m, rr) s' ->
  In tid (v_listed s') /\ bv_lmono s s'.
Proof.
  intros s old ot add rem m0 tid aid m rr s' HS Hot Hm0 Hadd H. unfold find_or_create_table in H.
  pose proof (sa_gf_remove_spec rem m0 s) as G.
  destruct (gf_remove rem m0 s) as [m1 s0|e s0] eqn:EG; [|rewrite (sa_bind_err EG) in H; discriminate].
  destruct G as (-> & Hm1 & NDr & Hfr). rewrite (sa_bind_ok EG) in H.
  pose proof (sa_gf_add_spec (Some m0) add m1 s) as G.
  destruct (gf_add (Some m0) add m1 s) as [m' s0|e s0] eqn:EG2; [|rewrite (sa_bind_err EG2) in H; discriminate].
  destruct G as (-> & Hm & NDa & Hfa & Hsa). rewrite (sa_bind_ok EG2) in H.
  assert (Hb : forall j, mk_get m' j = true -> j < length (w_reg s)).
  { intros j Hj. rewrite Hm, Hm1 in Hj. apply orb_true_iff in Hj. destruct Hj as [Hj|Hj].
    - apply andb_true_iff in Hj. destruct Hj as [Hj _]. auto.
    - apply Hadd, sa_memb_in; exact Hj. }
  destruct (sa_finder_tail s old ot m' HS Hot Hb) as (Hr & aid' & s1 & a & E1 & E2 & Ma & E3 & tid' & s2 & E4 & P).
  rewrite (sa_bind_ok E1), (sa_bind_ok E2), (sa_bind_ok E3) in H. rewrite Hr in H.
  assert (X : (match rem with
               | [] => (@nil rel, false)
               | _ :: _ => let '(sv, rm) := surviving_rels a [] in (sv ++ [], rm)
               end) = ([], false)) by (destruct rem; reflexivity).
  rewrite X in H. rewrite (sa_bind_ok E4) in H. unfold ret in H. inversion H; subst.
  eapply (bv_finder_tail s old ot _ HS Hot Hb); eassumption.
Qed.

Lemma bv_foct_add_listed : forall s old ot add m0 tid aid m s',
  St s -> nth_error (w_tables s) old = Some ot ->
  (forall j, mk_get m0 j = true -> j < length (w_reg s)) -> (forall c, In c add -> c < length (w_reg s)) ->
  find_or_create_table_add old add [] m0 s = Ok (tid, aid, m) s' ->
  In tid (v_listed s') /\ bv_lmono s s'.
Proof.
  intros s old ot add m0 tid aid m s' HS Hot Hm0 Hadd H. unfold find_or_create_table_add in H.
  pose proof (sa_gf_add_spec None add m0 s) as G.
  destruct (gf_add None add m0 s) as [m' s0|e s0] eqn:EG; [|rewrite (sa_bind_err EG) in H; discriminate].
  destruct G as (-> & Hm & ND & Hf & _). rewrite (sa_bind_ok EG) in H.
  assert (Hb : forall j, mk_get m' j = true -> j < length (w_reg s)).
  { intros j Hj. rewrite Hm in Hj. apply orb_true_iff in Hj. destruct Hj as [Hj|Hj]; [auto|apply Hadd, sa_memb_in; exact Hj]. }
  destruct (sa_finder_tail s old ot m' HS Hot Hb) as (Hr & aid' & s1 & a & E1 & E2 & Ma & E3 & tid' & s2 & E4 & P).
  rewrite (sa_bind_ok E1), (sa_bind_ok E3) in H. rewrite Hr in H. rewrite (sa_bind_ok E4) in H. unfold ret in H.
  inversion H; subst.
  eapply (bv_finder_tail s old ot _ HS Hot Hb); eassumption.
Qed.

(** Structure creation does not change what a full query lists ([world_view]). *)
Lemma bv_foca_wv : forall m s aid s1, St s -> (forall j, mk_get m j = true -> j < length (w_reg s)) ->
  find_or_create_arch m s = Ok aid s1 -> world_view s1 = world_view s.
Proof.
  intros m s aid s1 HS Hm H.
  destruct (find_or_create_arch_spec s m HS Hm) as (aid0 & s0 & E0 & HS1 & SR & _).
  rewrite H in E0. inversion E0; subst aid0 s0.
  destruct (find_or_create_arch_shape s m HS Hm) as (aid' & s1' & E & Sh).
  rewrite H in E. inversion E; subst aid' s1'.
  destruct Sh as [[Es _]|(_ & _ & a & t & EA & ET & _ & Ta & _)]; [rewrite Es; reflexivity|].
  apply (bv_world_view_grow s s1 (proj1 HS) (proj1 HS1) SR).
  intros f Hf. apply (bv_listed_snoc_arch s s1 a (length (w_tables s)) f EA Ta). apply Hf. lia.
Qed.

Lemma bv_goct_wv : forall s aid a tid s', St s -> nth_error (w_archs s) aid = Some a ->
  get_or_create_table aid [] s = Ok tid s' -> world_view s' = world_view s.
Proof.
  intros s aid a tid s' HS Ha H. pose proof HS as [HW HN]. pose proof HN as (N1 & N2 & N3 & N4).
  destruct (N3 aid a Ha) as (Hf & Hn & Hg & Hr).
  unfold get_or_create_table in H. rewrite (sa_bind_ok (sa_getA_eq _ _ _ Ha)) in H.
  unfold arch_get_table in H. destruct (a_tables a) as [|t0 tl] eqn:Hta.
  - rewrite (sa_bind_ok (m := ret None) (s := s) eq_refl) in H.
    destruct (sa_create_table_nil_full s aid a HS Ha Hta) as (s1 & t & E & HS1 & SR & _ & _ & _ & _ & EA).
    rewrite E in H. inversion H; subst.
    apply (bv_world_view_grow s s' HW (proj1 HS1) SR).
    intros f Hfz. unfold v_listed. rewrite EA. apply bv_listed_updf_add. apply Hfz. lia.
  - unfold arch_has_rels in H. rewrite Hn in H. cbn [Nat.eqb negb] in H.
    rewrite (sa_bind_ok (m := ret (Some t0)) (s := s) eq_refl) in H. unfold ret in H. inversion H; subst. reflexivity.
Qed.

Lemma bv_finder_tail_wv : forall s m,
  St s -> (forall j, mk_get m j = true -> j < length (w_reg s)) ->
  forall aid s1 tid s2, find_or_create_arch m s = Ok aid s1 -> get_or_create_table aid [] s1 = Ok tid s2 ->
  world_view s2 = world_view s.
Proof.
  intros s m HS Hm aid s1 tid s2 E1 E4.
  destruct (find_or_create_arch_spec s m HS Hm) as (aid' & s1' & E1' & HS1 & _ & _ & _ & _ & a & Ha & _).
  rewrite E1 in E1'. inversion E1'; subst aid' s1'.
  rewrite (bv_goct_wv s1 aid a tid s2 HS1 Ha E4). exact (bv_foca_wv m s aid s1 HS Hm E1).
Qed.

Lemma bv_foct_wv : forall s old ot add rem m0 tid aid m rr s',
  St s -> nth_error (w_tables s) old = Some ot ->
  (forall j, mk_get m0 j = true -> j < length (w_reg s)) -> (forall c, In c add -> c < length (w_reg s)) ->
  find_or_create_table old add rem [] m0 s = Ok (tid, aid, m, rr) s' ->
  world_view s' = world_view s.
Proof.
  intros s old ot add rem m0 tid aid m rr s' HS Hot Hm0 Hadd H. unfold find_or_create_table in H.
  pose proof (sa_gf_remove_spec rem m0 s) as G.
  destruct (gf_remove rem m0 s) as [m1 s0|e s0] eqn:EG; [|rewrite (sa_bind_err EG) in H; discriminate].
  destruct G as (-> & Hm1 & NDr & Hfr). rewrite (sa_bind_ok EG) in H.
  pose proof (sa_gf_add_spec (Some m0) add m1 s) as G.
  destruct (gf_add (Some m0) add m1 s) as [m' s0|e s0] eqn:EG2; [|rewrite (sa_bind_err EG2) in H; discriminate].
  destruct G as (-> & Hm & NDa & Hfa & Hsa). rewrite (sa_bind_ok EG2) in H.
  assert (Hb : forall j, mk_get m' j = true -> j < length (w_reg s)).
  { intros j Hj. rewrite Hm, Hm1 in Hj. apply orb_true_iff in Hj. destruct Hj as [Hj|Hj].
    - apply andb_true_iff in Hj. destruct Hj as [Hj _]. auto.
    - apply Hadd, sa_memb_in; exact Hj. }
  destruct (sa_finder_tail s old ot m' HS Hot Hb) as (Hr & aid' & s1 & a & E1 & E2 & Ma & E3 & tid' & s2 & E4 & P).
  rewrite (sa_bind_ok E1), (sa_bind_ok E2), (sa_bind_ok E3) in H. rewrite Hr in H.
  assert (X : (match rem with
               | [] => (@nil rel, false)
               | _ :: _ => let '(sv, rm) := surviving_rels a [] in (sv ++ [], rm)
               end) = ([], false)) by (destruct rem; reflexivity).
  rewrite X in H. rewrite (sa_bind_ok E4) in H. unfold ret in H. inversion H; subst.
  eapply (bv_finder_tail_wv s _ HS Hb); eassumption.
Qed.

(* ------------------------------------------------------------------ *)
(** ** Generic pieces of a batch event phase *)

Lemma bv_MInv0_same : forall s s', storage_same s s' -> bv_mgr_same s s' -> MInv0 s -> MInv0 s'.
Proof.
  intros s s' (_ & E2 & _) (M1 & M2 & M3 & _ & _ & M6) HI.
  apply (MInv0_ext s s' M1 M2 M3 E2); [|exact HI].
  intros e He. rewrite M6. apply (mi_max _ HI). unfold olist in *. rewrite <- M2. exact He.
Qed.

Lemma bv_has_obs_false : forall s evt pred, MInv0 s -> has_obs s evt = false -> fired s evt pred = [].
Proof.
  intros s evt pred HI H. unfold has_obs in H. rewrite (mi_has _ HI) in H. apply negb_false_iff in H.
  unfold fired. destruct (olist s evt); [reflexivity|discriminate].
Qed.

Lemma bv_fired_NoDup : forall s evt pred, MInv0 s -> NoDup (fired s evt pred).
Proof. intros s evt pred HI. unfold fired. apply NoDup_filter. apply (mi_nd _ HI). Qed.

(** [fire_rows] run on a state [s] that is an event-phase successor of the view state [V]:
    entries are the ones computed on [V]. *)
Lemma bv_fire_rows_view : forall evt early pred es eo V s held,
  bv_lock_ok (w_lock V) held -> storage_same V s -> bv_mgr_same V s -> bv_lock_ok (w_lock s) held ->
  length held < 64 -> bv_passive V evt -> (forall e, In e es -> bv_snap_ok V e) ->
  (early (get_agg V evt) = true -> fired V evt pred = []) ->
  exists s', fire_rows (fun e eo => fire evt early pred e eo) es eo s = Ok tt s' /\
    bv_ev held s s' (flat_map (fun e => map (fun oi => v_cb_entry oi e V) (fired V evt pred)) es).
Proof.
  intros evt early pred es eo V s held HLV SS MS HL Hlt Hp Hsn He.
  destruct (bv_fire_rows evt early pred es eo s held HL Hlt) as (s' & R & EV).
  { exact (bv_passive_same V s evt MS Hp). }
  { intros e Hin. exact (bv_snap_ok_same V s e SS (Hsn e Hin)). }
  { rewrite (bv_get_agg_same V s evt MS), (bv_fired_same V s evt pred MS). exact He. }
  exists s'. split; [exact R|].
  rewrite (bv_fired_same V s evt pred MS) in EV.
  rewrite (flat_map_ext (fun e => map (fun oi => v_cb_entry oi e V) (fired V evt pred))
                        (fun e => map (fun oi => v_cb_entry oi e s) (fired V evt pred))); [exact EV|].
  intros e. apply map_ext. intros oi. symmetry. apply bv_entry_ext; [exact SS|].
  rewrite (bv_is_locked V held HLV), (bv_is_locked s held HL). reflexivity.
Qed.

(** A loop of event phases. *)
Lemma bv_forM_ev : forall A (f : A -> MW unit) (G : A -> list (list Z)) held l V s,
  storage_same V s -> bv_mgr_same V s -> bv_lock_ok (w_lock s) held ->
  (forall x s1, In x l -> storage_same V s1 -> bv_mgr_same V s1 -> bv_lock_ok (w_lock s1) held ->
     exists s2, f x s1 = Ok tt s2 /\ bv_ev held s1 s2 (G x)) ->
  exists s', forM_ l f s = Ok tt s' /\ bv_ev held s s' (flat_map G l).
Proof.
  intros A f G held l V. induction l as [|x l IH]; intros s SS MS HL H.
  - exists s. split; [reflexivity|apply bv_ev_refl; exact HL].
  - cbn [forM_ flat_map]. destruct (H x s (or_introl eq_refl) SS MS HL) as (s1 & R & EV).
    rewrite (sa_bind_ok R). pose proof EV as (SS1 & MS1 & HL1 & _).
    destruct (IH s1) as (s' & R' & EV').
    { eapply sb3_storage_same_trans; eauto. }
    { eapply bv_mgr_same_trans; eauto. }
    { exact HL1. }
    { intros y s2 Hy. apply H. right. exact Hy. }
    exists s'. split; [exact R'|]. eapply bv_ev_trans; eauto.
Qed.

(** (observer, entity) pairs in log order: for every index [x] of the loop (a table, a batch), every
    entity of [R x], every observer of [F x]. *)
Definition bv_pairs {A} (F : A -> list nat) (R : A -> list ent) (l : list A) : list (nat * ent) :=
  flat_map (fun x => flat_map (fun e => map (fun oi => (oi, e)) (F x)) (R x)) l.

Definition bv_entries (V : W) (P : list (nat * ent)) : list (list Z) :=
  map (fun p => v_cb_entry (fst p) (snd p) V) P.

Lemma bv_map_flat_map : forall A B C (f : B -> C) (g : A -> list B) l,
  map f (flat_map g l) = flat_map (fun x => map f (g x)) l.
Proof. induction l as [|a l IH]; [reflexivity|]. cbn [flat_map]. rewrite map_app, IH. reflexivity. Qed.

Lemma bv_entries_pairs : forall A V (F : A -> list nat) (R : A -> list ent) l,
  flat_map (fun x => flat_map (fun e => map (fun oi => v_cb_entry oi e V) (F x)) (R x)) l =
  bv_entries V (bv_pairs F R l).
Proof.
  intros A V F R l. unfold bv_entries, bv_pairs. rewrite bv_map_flat_map. apply flat_map_ext. intros x.
  rewrite bv_map_flat_map. apply flat_map_ext. intros e. rewrite map_map. reflexivity.
Qed.

Lemma bv_pairs_in : forall A (F : A -> list nat) (R : A -> list ent) l oi e,
  In (oi, e) (bv_pairs F R l) <-> exists x, In x l /\ In e (R x) /\ In oi (F x).
Proof.
  intros A F R l oi e. unfold bv_pairs. rewrite in_flat_map. split.
  - intros (x & Hx & H). apply in_flat_map in H. destruct H as (e' & He' & H).
    apply in_map_iff in H. destruct H as (oi' & E & Hoi). inversion E; subst. eauto.
  - intros (x & Hx & He & Hoi). exists x. split; [exact Hx|]. apply in_flat_map. exists e. split; [exact He|].
    apply in_map_iff. exists oi. auto.
Qed.

Lemma bv_pairs_NoDup : forall A (F : A -> list nat) (R : A -> list ent) l, NoDup l ->
  (forall x, In x l -> NoDup (F x)) -> (forall x, In x l -> NoDup (R x)) ->
  (forall x y e, In x l -> In y l -> In e (R x) -> In e (R y) -> x = y) -> NoDup (bv_pairs F R l).
Proof.
  intros A F R l ND HF HR Hd. unfold bv_pairs. apply bo_NoDup_flat_map; [exact ND| |].
  - intros x Hx. apply bo_NoDup_flat_map; [apply HR; exact Hx| |].
    + intros e _. apply sa_NoDup_map_inj; [|apply HF; exact Hx]. intros a b _ _ E. inversion E. reflexivity.
    + intros e e' p _ _ H1 H2. apply in_map_iff in H1. apply in_map_iff in H2.
      destruct H1 as (o1 & E1 & _). destruct H2 as (o2 & E2 & _). subst p. inversion E2. reflexivity.
  - intros x y p Hx Hy H1 H2. destruct p as [oi e].
    assert (P1 : In (oi, e) (bv_pairs F R [x])) by (unfold bv_pairs; cbn [flat_map]; rewrite app_nil_r; exact H1).
    assert (P2 : In (oi, e) (bv_pairs F R [y])) by (unfold bv_pairs; cbn [flat_map]; rewrite app_nil_r; exact H2).
    apply bv_pairs_in in P1. apply bv_pairs_in in P2.
    destruct P1 as (x' & [<-|[]] & He1 & _). destruct P2 as (y' & [<-|[]] & He2 & _).
    exact (Hd x y e Hx Hy He1 He2).
Qed.

(** Masks of tables and entities. *)
Definition bv_tmask (s : W) (tid : nat) : mask :=
  match nth_error (w_tables s) tid with
  | Some t => match nth_error (w_archs s) (t_arch t) with Some a => a_mask a | None => 0%N end
  | None => 0%N
  end.
Definition bv_emask (s : W) (e : ent) : mask :=
  match loc s e with Some (tid, _) => bv_tmask s tid | None => 0%N end.

Lemma bv_tmask_ok : forall s tid t, WF s -> nth_error (w_tables s) tid = Some t ->
  arch_mask_of_table tid s = Ok (bv_tmask s tid) s.
Proof.
  intros s tid t HW Ht. destruct (wf_layout _ HW tid t Ht) as (a & Ha & _).
  unfold bv_tmask. rewrite Ht, Ha. exact (sb2_arch_mask_ok s tid t a Ht Ha).
Qed.

Lemma bv_tmask_same : forall s s' tid, storage_same s s' -> bv_tmask s' tid = bv_tmask s tid.
Proof. intros s s' tid (_ & _ & _ & _ & _ & E6 & E7 & _). unfold bv_tmask. rewrite E6, E7. reflexivity. Qed.

Lemma bv_rows_in : forall s tid e, WF s ->
  (In e (bo_rows_of s tid) <-> (live s e = true /\ exists r, loc s e = Some (tid, r))).
Proof.
  intros s tid e HW. unfold bo_rows_of. destruct (nth_error (w_tables s) tid) as [t|] eqn:Et.
  - apply (bo_table_rows s tid t HW Et).
  - split; [intros []|]. intros (Hl & r & Hloc).
    destruct (sb2_live_elim _ _ Hl) as (tid0 & r0 & t0 & L0 & T0 & _). rewrite Hloc in L0. inversion L0; subst. congruence.
Qed.

Lemma bv_rows_NoDup : forall s tid, WF s -> NoDup (bo_rows_of s tid).
Proof.
  intros s tid HW. unfold bo_rows_of. destruct (nth_error (w_tables s) tid) as [t|] eqn:Et; [|constructor].
  destruct (bo_table_rows s tid t HW Et) as (ND & _). apply (NoDup_map_inv fst). exact ND.
Qed.

Lemma bv_rows_same : forall s s' tid, storage_same s s' -> bo_rows_of s' tid = bo_rows_of s tid.
Proof. intros s s' tid (_ & _ & _ & _ & _ & _ & E7 & _). unfold bo_rows_of. rewrite E7. reflexivity. Qed.

(* ------------------------------------------------------------------ *)
(** * 1. RemoveEntities with OnRemoveEntity observers *)

(** The OnRemoveEntity phase of RemoveEntities over the selected tables. *)
Lemma bv_rm_ev_e_run : forall V tabs s held, St V -> MInv0 V -> bv_passive V EvRemoveEntity ->
  bv_lock_ok (w_lock V) held -> length held < 64 ->
  (forall tid, In tid tabs -> exists t, nth_error (w_tables V) tid = Some t) ->
  storage_same V s -> bv_mgr_same V s -> bv_lock_ok (w_lock s) held ->
  exists s', bo_rm_ev_e tabs s = Ok tt s' /\
    bv_ev held s s' (bv_entries V (bv_pairs (fun tid => fired V EvRemoveEntity (p_with (bv_tmask V tid)))
                                            (bo_rows_of V) tabs)).
Proof.
  intros V tabs s held HSt HI Hp HLV Hlt Hval SS MS HL. pose proof (proj1 HSt) as HW.
  rewrite <- bv_entries_pairs. unfold bo_rm_ev_e.
  apply (bv_forM_ev _ _ _ held tabs V s SS MS HL).
  intros tid s1 Hin SS1 MS1 HL1. destruct (Hval tid Hin) as (t & Ht).
  pose proof (storage_same_St V s1 SS1 HSt) as HSt1.
  assert (Ht1 : nth_error (w_tables s1) tid = Some t).
  { destruct SS1 as (_ & _ & _ & _ & _ & _ & E7 & _). rewrite E7. exact Ht. }
  rewrite (sa_bind_ok (bv_tmask_ok s1 tid t (proj1 HSt1) Ht1)), (bv_tmask_same V s1 tid SS1).
  rewrite (sa_bind_ok (sb2_getT _ _ _ Ht1)).
  assert (ER : bo_rows_of V tid = firstn (t_len t) (t_ents t)) by (unfold bo_rows_of; rewrite Ht; reflexivity).
  rewrite ER.
  apply (bv_fire_rows_view EvRemoveEntity (early_with (bv_tmask V tid)) (p_with (bv_tmask V tid))
           (firstn (t_len t) (t_ents t)) true V s1 held HLV SS1 MS1 HL1 Hlt Hp).
  - intros e He. apply bv_snap_ok_live. rewrite <- ER in He. apply (bv_rows_in V tid e HW) in He. apply He.
  - intros He. apply fired_nil. intros oi o Hoi Ho. exact (early_with_sound V _ _ oi o HI He Hoi Ho).
Qed.

(** The OnRemoveRelations phase does nothing in a relation-free world. *)
Lemma bv_rm_ev_r_skip : forall tabs s, NoRel s ->
  (forall tid, In tid tabs -> exists t, nth_error (w_tables s) tid = Some t) -> bo_rm_ev_r tabs s = Ok tt s.
Proof.
  induction tabs as [|tid rest IH]; intros s HN Hval; [reflexivity|].
  unfold bo_rm_ev_r. cbn [forM_]. fold (bo_rm_ev_r rest).
  destruct (Hval tid (or_introl eq_refl)) as (t & Ht).
  rewrite (sa_bind_ok (m := t0 <- getT tid ;; whenM (tbl_has_rels t0) _) (s := s) (a := tt) (s' := s)).
  - apply IH; [exact HN|]. intros x Hx. apply Hval. right. exact Hx.
  - rewrite (sa_bind_ok (sb2_getT _ _ _ Ht)). destruct HN as (_ & N2 & _). destruct (N2 tid t Ht) as (Hr & _).
    unfold tbl_has_rels. rewrite Hr. reflexivity.
Qed.

Lemma bv_pairs_ext : forall A (F F' : A -> list nat) (R R' : A -> list ent) l,
  (forall x, F x = F' x) -> (forall x, R x = R' x) -> bv_pairs F R l = bv_pairs F' R' l.
Proof.
  intros A F F' R R' l HF HR. unfold bv_pairs. apply flat_map_ext. intros x. rewrite HF, HR. reflexivity.
Qed.

Lemma bv_pairs_nil : forall A (F : A -> list nat) (R : A -> list ent) l, (forall x, F x = []) -> bv_pairs F R l = [].
Proof.
  intros A F R l HF. unfold bv_pairs. induction l as [|x l IH]; [reflexivity|]. cbn [flat_map]. rewrite IH, app_nil_r, HF.
  apply bv_flat_map_nil.
Qed.

(** The pairs reported by a per-table phase: read on the entities. *)
Lemma bv_table_pairs_in : forall s (F : mask -> list nat) tabs oi e, WF s ->
  (In (oi, e) (bv_pairs (fun tid => F (bv_tmask s tid)) (bo_rows_of s) tabs) <->
   (live s e = true /\ bo_in_tabs s tabs e /\ In oi (F (bv_emask s e)))).
Proof.
  intros s F tabs oi e HW. rewrite bv_pairs_in. split.
  - intros (tid & Hin & He & Hoi). apply (bv_rows_in s tid e HW) in He. destruct He as (Hl & r & L).
    split; [exact Hl|]. split; [exists tid, r; auto|]. unfold bv_emask. rewrite L. exact Hoi.
  - intros (Hl & (tid & r & Hin & L) & Hoi). exists tid. split; [exact Hin|]. split.
    + apply (bv_rows_in s tid e HW). eauto.
    + unfold bv_emask in Hoi. rewrite L in Hoi. exact Hoi.
Qed.

Lemma bv_table_pairs_NoDup : forall s (F : nat -> list nat) tabs, WF s -> NoDup tabs -> (forall tid, NoDup (F tid)) ->
  NoDup (bv_pairs F (bo_rows_of s) tabs).
Proof.
  intros s F tabs HW ND HF. apply bv_pairs_NoDup; [exact ND|intros; apply HF|intros; apply bv_rows_NoDup; exact HW|].
  intros x y e _ _ Hx Hy. apply (bv_rows_in s x e HW) in Hx. apply (bv_rows_in s y e HW) in Hy.
  destruct Hx as (_ & r & Lx). destruct Hy as (_ & r' & Ly). congruence.
Qed.

(** RemoveEntities over the tables [tabs] selected by filter [fi] in an unlocked relation-free world
    whose OnRemoveEntity observers are passive (any number of them, any filters).
    - The world is removed from exactly as [remove_entities_spec] says (observers do not change it),
      and is unlocked at the end.
    - The log grows by: first (if a callback [fn] was given) one entry [101; id; gen] per removed
      entity, THEN the observers' entries [L]. (In Go the batch callback of RemoveEntities runs
      before the observers; so does the model.)
    - [L] is, entry by entry, the list of reports of the pairs [P]; every entry reports LOCKED = 1,
      ALIVE = 1, COUNT = 1 and the content of its entity in the PRE-state [s] ([bv_reports s]): all
      removal callbacks ran before any entity was removed.
    - [P] holds exactly the pairs (observer, entity) with the entity live in a selected table and
      the observer among the registered OnRemoveEntity observers whose filter matches the entity's
      mask ([fired], ObsSpec; [p_with], World / ObsDoc), each pair once (if no table is selected twice). *)
Theorem remove_entities_view : forall s fi tabs fn,
  St s -> tables_listed s -> MInv0 s -> bv_lock_ok (w_lock s) [] -> bv_passive s EvRemoveEntity ->
  get_batch_tables fi [] s = Ok tabs s ->
  exists s' es P L,
    w_remove_entities fi [] fn s = Ok tt s' /\ St s' /\ is_locked s' = false /\
    (forall e, live s e = true -> bo_in_tabs s tabs e ->
       live s' e = false /\ alive s' e = false /\ forall c, val s' e c = None) /\
    (forall e, ~ (live s e = true /\ bo_in_tabs s tabs e) -> live s' e = live s e /\ forall c, val s' e c = val s e c) /\
    frame_user s s' /\ length (pe (w_pool s')) = length (pe (w_pool s)) /\
    w_log s' = w_log s ++ (if fn then map (fun e => [101%Z; Zn (fst e); Z.of_N (snd e)]) es else []) ++ L /\
    (forall e, In e es <-> (live s e = true /\ bo_in_tabs s tabs e)) /\ (NoDup tabs -> NoDup es) /\
    Forall2 (bv_reports s) P L /\
    (forall oi e, In (oi, e) P <->
       (live s e = true /\ bo_in_tabs s tabs e /\ In oi (fired s EvRemoveEntity (p_with (bv_emask s e))))) /\
    (NoDup tabs -> NoDup P).
Proof.
  intros s fi tabs fn HSt TL HI HL0 Hpas Hgbt. pose proof (proj1 HSt) as HW.
  assert (Hunl : is_locked s = false) by (rewrite (bv_is_locked s [] HL0); reflexivity).
  pose proof (bo_gbt_valid s fi tabs HSt Hgbt) as Hval.
  set (P := bv_pairs (fun tid => fired s EvRemoveEntity (p_with (bv_tmask s tid))) (bo_rows_of s) tabs).
  assert (HPin : forall oi e, In (oi, e) P <->
            (live s e = true /\ bo_in_tabs s tabs e /\ In oi (fired s EvRemoveEntity (p_with (bv_emask s e))))).
  { intros oi e. exact (bv_table_pairs_in s (fun m => fired s EvRemoveEntity (p_with m)) tabs oi e HW). }
  assert (HPnd : NoDup tabs -> NoDup P).
  { intros ND. apply (bv_table_pairs_NoDup s _ tabs HW ND). intros tid. apply bv_fired_NoDup. exact HI. }
  destruct (has_obs s EvRemoveEntity || has_obs s EvRemoveRelations || fn)%bool eqn:Esl.
  2:{ apply orb_false_iff in Esl. destruct Esl as (Esl & ->). apply orb_false_iff in Esl. destruct Esl as (Hoe & Hor).
      destruct (remove_entities_spec s fi tabs false HSt Hunl ltac:(discriminate) Hoe Hor Hgbt) as
        (s' & Hrun & HSt' & Hunl' & Hrm & Hot & (es & Lg & Ines & NDes) & Fr & Pl).
      assert (EP : P = []).
      { apply bv_pairs_nil. intros tid. apply bv_has_obs_false; assumption. }
      exists s', es, P, []. rewrite EP. repeat (split; [assumption|]).
      split; [constructor|]. rewrite <- EP. split; [exact HPin|exact HPnd]. }
  destruct (bv_lock_take (w_lock s) [] HL0 ltac:(cbn; lia)) as (lb & l' & LL & _ & HL1).
  set (s1 := s <| w_lock := l' |>).
  assert (SS1 : storage_same s s1) by (unfold storage_same; repeat split).
  set (es := flat_map (bo_rows_of s) tabs).
  destruct (bo_all_rows s tabs HW) as (Hes & Hesnd). fold es in Hes, Hesnd.
  rewrite bo_remove_entities_eq.
  rewrite (bo_bind_ok (sb1_check_locked_ok s Hunl)).
  unfold bind at 1. unfold get at 1. cbv beta iota zeta. rewrite Esl.
  rewrite (bo_bind_ok (v_lockM_ok s lb l' LL)). fold s1.
  rewrite (bo_bind_ok (bo_gbt_frame fi [] s s1 tabs SS1 Hgbt)).
  (* the batch callback *)
  assert (Hcb : exists sB, whenM fn (bo_rm_cb tabs) s1 = Ok tt sB /\ storage_same s sB /\ bv_mgr_same s sB /\
            w_lock sB = l' /\ w_log sB = w_log s ++ (if fn then map b_entry es else [])).
  { destruct fn; cbn [whenM].
    - exists (b_logged s1 (map b_entry es)). split.
      { apply (bo_rm_cb_run tabs s1). intros tid Hin. destruct (Hval tid Hin) as (t & Ht). exists t.
        split; [exact Ht|exact (sb2_table_ok _ _ _ HW Ht)]. }
      split; [unfold storage_same; repeat split|]. split; [unfold bv_mgr_same; repeat split|]. split; reflexivity.
    - exists s1. split; [reflexivity|]. split; [exact SS1|]. split; [unfold bv_mgr_same; repeat split|].
      split; [reflexivity|]. rewrite app_nil_r. reflexivity. }
  destruct Hcb as (sB & RunB & SSB & MSB & LkB & LgB). rewrite (bo_bind_ok RunB).
  pose proof (storage_same_St s sB SSB HSt) as HStB.
  assert (HLB : bv_lock_ok (w_lock sB) [lb]) by (rewrite LkB; exact HL1).
  assert (HvalB : forall tid, In tid tabs -> exists t, nth_error (w_tables sB) tid = Some t).
  { intros tid Hin. destruct SSB as (_ & _ & _ & _ & _ & _ & E7 & _). rewrite E7. apply Hval. exact Hin. }
  assert (EPB : bv_pairs (fun tid => fired sB EvRemoveEntity (p_with (bv_tmask sB tid))) (bo_rows_of sB) tabs = P).
  { apply bv_pairs_ext.
    - intros tid. rewrite (bv_fired_same s sB _ _ MSB), (bv_tmask_same s sB tid SSB). reflexivity.
    - intros tid. apply bv_rows_same. exact SSB. }
  (* the OnRemoveEntity phase *)
  assert (Hev : exists sC, whenM (has_obs s EvRemoveEntity) (bo_rm_ev_e tabs) sB = Ok tt sC /\
            bv_ev [lb] sB sC (bv_entries sB P)).
  { destruct (has_obs s EvRemoveEntity) eqn:Hoe; cbn [whenM].
    - rewrite <- EPB.
      apply (bv_rm_ev_e_run sB tabs sB [lb] HStB (bv_MInv0_same s sB SSB MSB HI) (bv_passive_same s sB _ MSB Hpas)
               HLB ltac:(cbn; lia) HvalB (sb3_storage_same_refl sB) (bv_mgr_same_refl sB) HLB).
    - exists sB. split; [reflexivity|].
      assert (EP : P = []) by (apply bv_pairs_nil; intros tid; apply bv_has_obs_false; assumption).
      rewrite EP. apply bv_ev_refl. exact HLB. }
  destruct Hev as (sC & RunC & (SSC & MSC & HLC & LgC)). rewrite (bo_bind_ok RunC).
  assert (SSsC : storage_same s sC) by (eapply sb3_storage_same_trans; eauto).
  pose proof (storage_same_St s sC SSsC HSt) as HStC.
  assert (HvalC : forall tid, In tid tabs -> exists t, nth_error (w_tables sC) tid = Some t).
  { intros tid Hin. destruct SSC as (_ & _ & _ & _ & _ & _ & E7 & _). rewrite E7. apply HvalB. exact Hin. }
  (* the OnRemoveRelations phase: nothing *)
  assert (Hevr : whenM (has_obs s EvRemoveRelations) (bo_rm_ev_r tabs) sC = Ok tt sC).
  { destruct (has_obs s EvRemoveRelations); cbn [whenM]; [|reflexivity].
    apply bv_rm_ev_r_skip; [apply HStC|exact HvalC]. }
  rewrite (bo_bind_ok Hevr).
  destruct (bo_remove_core sC tabs HStC HvalC) as (s3 & D & cl & Hrun & HM & HR & Hcl).
  rewrite (bo_bind_ok Hrun), (bo_bind_ok Hcl).
  set (s4 := s3 <| w_istarget := bo_untarget (w_istarget s3) cl |>).
  assert (Elk4 : w_lock s4 = w_lock sC).
  { change (w_lock s4) with (w_lock s3). destruct HR as (_ & _ & _ & _ & _ & _ & _ & _ & _ & _ & _ & -> & _). reflexivity. }
  destruct (bv_lock_give (w_lock sC) [lb] lb HLC (or_introl eq_refl)) as (l'' & LU & HL'').
  rewrite (bv_remove_head lb [] (fun F => F)) in HL''.
  assert (LU4 : lock_unlock (w_lock s4) lb = Some l'') by (rewrite Elk4; exact LU).
  cbn [whenM]. rewrite (v_unlockM_ok s4 lb l'' LU4).
  destruct (bo_remove_post s sC s3 D tabs (bo_untarget (w_istarget s3) cl) l'' HSt SSsC HM HR (bo_untarget_length _ _))
    as (P1 & P2 & P3 & P4 & P5 & P6).
  exists (s4 <| w_lock := l'' |>), es, P, (bv_entries sB P).
  split; [reflexivity|]. split; [exact P1|].
  split; [exact (bv_is_locked (s4 <| w_lock := l'' |>) [] HL'')|].
  split; [exact P2|]. split; [exact P3|]. split; [exact P4|]. split; [exact P5|].
  split; [transitivity (w_log sC); [exact P6|]; rewrite LgC, LgB, <- app_assoc; reflexivity|].
  split; [exact Hes|]. split; [exact Hesnd|].
  split; [|split; [exact HPin|exact HPnd]].
  unfold bv_entries. apply bv_Forall2_map. intros [oi e] Hin. cbn [fst snd].
  apply HPin in Hin. destruct Hin as (Hl & _ & _).
  apply (bv_entry_seen oi e s sB [lb] HSt (bv_seen_listed s e TL Hl) SSB HLB). discriminate.
Qed.

(* ------------------------------------------------------------------ *)
(** * 2. ExchangeBatch with OnRemoveComponents / OnAddComponents observers *)

(** ** Phase A (collecting the batches): destinations are listed, lengths are the source lengths *)

Lemma bv_collect_facts : forall add rem tabs s acc rr bs' rr' s',
  St s -> registered s add -> (forall tid, In tid tabs -> exists t, nth_error (w_tables s) tid = Some t) ->
  bo_collect add rem [] tabs acc rr s = Ok (bs', rr') s' ->
  bv_lmono s s' /\ same_rows s s' /\
  exists bs, bs' = acc ++ bs /\
    (forall b, In b bs -> In (bo_src b) tabs /\ In (bo_dst b) (v_listed s') /\
                          exists t, nth_error (w_tables s') (bo_src b) = Some t /\ snd b = t_len t) /\
    (NoDup tabs -> NoDup (map bo_src bs)).
Proof.
  intros add rem tabs. induction tabs as [|tid rest IH]; intros s acc rr bs' rr' s' HS Hreg Hval H.
  - cbn [bo_collect] in H. unfold ret in H. inversion H; subst. split; [apply bv_lmono_refl|]. split; [apply same_rows_refl|].
    exists []. rewrite app_nil_r. split; [reflexivity|]. split; [intros b []|intros _; constructor].
  - cbn [bo_collect] in H. destruct (Hval tid (or_introl eq_refl)) as (t & Ht).
    rewrite (bo_bind_ok (sa_getT_eq _ _ _ Ht)) in H.
    assert (Hval' : forall x, In x rest -> exists t0, nth_error (w_tables s) x = Some t0) by (intros; apply Hval; right; assumption).
    destruct (Nat.eqb_spec (t_len t) 0) as [Hz|Hnz].
    + destruct (IH s acc rr bs' rr' s' HS Hreg Hval' H) as (M & SR & bs & E & Hb & ND).
      split; [exact M|]. split; [exact SR|]. exists bs. split; [exact E|]. split.
      * intros b Hin. destruct (Hb b Hin) as (B1 & B2 & B3). split; [right; exact B1|]. split; assumption.
      * intros NDt. apply ND. inversion NDt; assumption.
    + pose proof (proj1 HS) as HW.
      destruct (wf_layout _ HW tid t Ht) as (a & Ha & _).
      rewrite (bo_bind_ok (sb2_arch_mask_ok _ _ _ _ Ht Ha)) in H.
      destruct (sb2_layout _ _ _ _ HW Ht Ha) as (_ & _ & Hlt).
      pose proof (find_or_create_table_spec s tid t add rem (a_mask a) HS Ht Hlt Hreg) as F.
      destruct (find_or_create_table tid add rem [] (a_mask a) s) as [[[[ntid aid] m] rmv] s1|er s1] eqn:EF.
      2:{ rewrite (bo_bind_err EF) in H. discriminate. }
      destruct F as ((HS1 & R1 & D1 & F1 & _) & _).
      destruct (bv_foct_listed s tid t add rem (a_mask a) ntid aid m rmv s1 HS Ht Hlt Hreg EF) as (L1 & M1).
      rewrite (bo_bind_ok EF) in H.
      assert (Hreg1 : registered s1 add).
      { intros c Hc. destruct F1 as (-> & _). apply Hreg; exact Hc. }
      assert (Hval1 : forall x, In x rest -> exists t0, nth_error (w_tables s1) x = Some t0).
      { intros x Hx. destruct (Hval' x Hx) as (t0 & Ht0). destruct (bo_rows_table _ _ _ _ R1 Ht0) as (t0' & H0 & _). eauto. }
      destruct (IH s1 _ _ bs' rr' s' HS1 Hreg1 Hval1 H) as (M & SR & bs & E & Hb & ND).
      split; [eapply bv_lmono_trans; eauto|]. split; [eapply same_rows_trans; eauto|].
      exists ((tid, ntid, t_len t) :: bs). split; [rewrite E, <- app_assoc; reflexivity|]. split.
      * intros b [<-|Hin].
        -- cbn [bo_src bo_dst fst snd]. split; [left; reflexivity|]. split; [apply M; exact L1|].
           destruct (bo_rows_table _ _ _ _ R1 Ht) as (t1 & Ht1 & Len1 & _).
           destruct (bo_rows_table _ _ _ _ SR Ht1) as (t2 & Ht2 & Len2 & _).
           exists t2. split; [exact Ht2|congruence].
        -- destruct (Hb b Hin) as (B1 & B2 & B3). split; [right; exact B1|]. split; assumption.
      * intros NDt. inversion NDt as [|? ? Hnin NDr]; subst. cbn [map bo_src fst]. constructor; [|apply ND; exact NDr].
        intros Hin. apply in_map_iff in Hin. destruct Hin as (b & Eb & Hin). destruct (Hb b Hin) as (B1 & _).
        apply Hnin. rewrite <- Eb. exact B1.
Qed.

Lemma bv_collect_wv : forall add rem tabs s acc rr bs' rr' s',
  St s -> registered s add -> (forall tid, In tid tabs -> exists t, nth_error (w_tables s) tid = Some t) ->
  bo_collect add rem [] tabs acc rr s = Ok (bs', rr') s' -> world_view s' = world_view s.
Proof.
  intros add rem tabs. induction tabs as [|tid rest IH]; intros s acc rr bs' rr' s' HS Hreg Hval H.
  - cbn [bo_collect] in H. unfold ret in H. inversion H; subst. reflexivity.
  - cbn [bo_collect] in H. destruct (Hval tid (or_introl eq_refl)) as (t & Ht).
    rewrite (bo_bind_ok (sa_getT_eq _ _ _ Ht)) in H.
    assert (Hval' : forall x, In x rest -> exists t0, nth_error (w_tables s) x = Some t0) by (intros; apply Hval; right; assumption).
    destruct (Nat.eqb_spec (t_len t) 0) as [Hz|Hnz].
    + exact (IH s acc rr bs' rr' s' HS Hreg Hval' H).
    + pose proof (proj1 HS) as HW.
      destruct (wf_layout _ HW tid t Ht) as (a & Ha & _).
      rewrite (bo_bind_ok (sb2_arch_mask_ok _ _ _ _ Ht Ha)) in H.
      destruct (sb2_layout _ _ _ _ HW Ht Ha) as (_ & _ & Hlt).
      pose proof (find_or_create_table_spec s tid t add rem (a_mask a) HS Ht Hlt Hreg) as F.
      destruct (find_or_create_table tid add rem [] (a_mask a) s) as [[[[ntid aid] m] rmv] s1|er s1] eqn:EF.
      2:{ rewrite (bo_bind_err EF) in H. discriminate. }
      destruct F as ((HS1 & R1 & D1 & F1 & _) & _).
      pose proof (bv_foct_wv s tid t add rem (a_mask a) ntid aid m rmv s1 HS Ht Hlt Hreg EF) as V1.
      rewrite (bo_bind_ok EF) in H.
      assert (Hreg1 : registered s1 add).
      { intros c Hc. destruct F1 as (-> & _). apply Hreg; exact Hc. }
      assert (Hval1 : forall x, In x rest -> exists t0, nth_error (w_tables s1) x = Some t0).
      { intros x Hx. destruct (Hval' x Hx) as (t0 & Ht0). destruct (bo_rows_table _ _ _ _ R1 Ht0) as (t0' & H0 & _). eauto. }
      rewrite (IH s1 _ _ bs' rr' s' HS1 Hreg1 Hval1 H). exact V1.
Qed.

(** ** The event phases of ExchangeBatch *)

Definition bv_rows_at (s : W) (tid start len : nat) : list ent :=
  match nth_error (w_tables s) tid with Some t => firstn len (skipn start (t_ents t)) | None => [] end.

Lemma bv_rows_of_ok : forall s tid t start len, nth_error (w_tables s) tid = Some t ->
  rows_of tid start len s = Ok (bv_rows_at s tid start len) s.
Proof. intros s tid t start len Ht. unfold rows_of, bv_rows_at. rewrite (bo_bind_ok (sb2_getT _ _ _ Ht)), Ht. reflexivity. Qed.

Lemma bv_rows_at_same : forall s s' tid start len, storage_same s s' -> bv_rows_at s' tid start len = bv_rows_at s tid start len.
Proof. intros s s' tid start len (_ & _ & _ & _ & _ & _ & E7 & _). unfold bv_rows_at. rewrite E7. reflexivity. Qed.

(** Rows [start, start+len) of a table are live entities located there. *)
Lemma bv_rows_at_live : forall s tid t start len e, WF s -> nth_error (w_tables s) tid = Some t -> start + len <= t_len t ->
  In e (bv_rows_at s tid start len) -> live s e = true /\ exists r, loc s e = Some (tid, r).
Proof.
  intros s tid t start len e HW Ht Hle Hin. unfold bv_rows_at in Hin. rewrite Ht in Hin.
  pose proof (tbl_ok_elim _ (sb2_table_ok _ _ _ HW Ht)) as (O1 & O2 & _).
  rewrite (b_firstn_skipn_seq _ (t_ents t) zero_ent len start) in Hin by lia.
  apply in_map_iff in Hin. destruct Hin as (r & Er & Hr). apply in_seq in Hr.
  assert (Rr : r < t_len t) by lia. destruct (wf_rows _ HW tid t r Ht Rr) as (L & _).
  change (row_ent t r = e) in Er. rewrite Er in L. split; [|eauto].
  exact (sb2_live_intro s e tid r t L Ht Rr Er).
Qed.

Definition bv_pre_F (V : W) (b : nat * nat * nat) : list nat :=
  fired V EvRemoveComponents (p_remove (bv_tmask V (bo_src b)) (bv_tmask V (bo_dst b))).
Definition bv_src_rows (V : W) (b : nat * nat * nat) : list ent := bo_rows_of V (bo_src b).

Lemma bv_pre_events_run : forall V rem bs s held, St V -> MInv0 V -> bv_passive V EvRemoveComponents ->
  bv_lock_ok (w_lock V) held -> length held < 64 ->
  (forall b, In b bs -> (exists t, nth_error (w_tables V) (bo_src b) = Some t /\ snd b = t_len t) /\
                        (exists t, nth_error (w_tables V) (bo_dst b) = Some t)) ->
  storage_same V s -> bv_mgr_same V s -> bv_lock_ok (w_lock s) held ->
  exists s', bo_pre_events rem bs false s = Ok tt s' /\
    bv_ev held s s' (if is_nil rem then [] else bv_entries V (bv_pairs (bv_pre_F V) (bv_src_rows V) bs)).
Proof.
  intros V rem bs s held HSt HI Hp HLV Hlt Hbs SS MS HL. pose proof (proj1 HSt) as HW.
  unfold bo_pre_events. destruct rem as [|c rem']; cbn [is_nil negb whenM].
  { exists s. split; [reflexivity|apply bv_ev_refl; exact HL]. }
  unfold bind at 1. unfold get at 1. cbv beta iota. rewrite (bv_has_obs_same V s _ MS).
  destruct (has_obs V EvRemoveComponents) eqn:Ho; cbn [whenM].
  - destruct (bv_forM_ev _
        (fun b : nat * nat * nat => let '(otid, ntid, len) := b in
           om <- arch_mask_of_table otid ;; nm <- arch_mask_of_table ntid ;;
           es <- rows_of otid 0 len ;;
           fire_rows (fun e eo => fire_remove EvRemoveComponents e om nm eo) es true)
        (fun b => flat_map (fun e => map (fun oi => v_cb_entry oi e V) (bv_pre_F V b)) (bv_src_rows V b))
        held bs V s SS MS HL) as (s' & R & EV).
    { intros b s1 Hin SS1 MS1 HL1. destruct (Hbs b Hin) as ((ot & Hot & Hlen) & (nt & Hnt)).
      destruct b as [[otid ntid] len]. cbn [bo_src bo_dst fst snd] in *.
      pose proof (storage_same_St V s1 SS1 HSt) as HSt1.
      pose proof SS1 as (_ & _ & _ & _ & _ & _ & E7 & _).
      assert (Hot1 : nth_error (w_tables s1) otid = Some ot) by (rewrite E7; exact Hot).
      assert (Hnt1 : nth_error (w_tables s1) ntid = Some nt) by (rewrite E7; exact Hnt).
      rewrite (sa_bind_ok (bv_tmask_ok s1 otid ot (proj1 HSt1) Hot1)), (bv_tmask_same V s1 otid SS1).
      rewrite (sa_bind_ok (bv_tmask_ok s1 ntid nt (proj1 HSt1) Hnt1)), (bv_tmask_same V s1 ntid SS1).
      rewrite (sa_bind_ok (bv_rows_of_ok s1 otid ot 0 len Hot1)), (bv_rows_at_same V s1 otid 0 len SS1).
      assert (ER : bv_rows_at V otid 0 len = bv_src_rows V (otid, ntid, len)).
      { unfold bv_rows_at, bv_src_rows, bo_rows_of. cbn [bo_src fst]. rewrite Hot, Hlen. reflexivity. }
      rewrite ER. unfold bv_pre_F. cbn [bo_src bo_dst fst snd].
      apply (bv_fire_rows_view EvRemoveComponents (early_remove (bv_tmask V otid) (bv_tmask V ntid))
               (p_remove (bv_tmask V otid) (bv_tmask V ntid)) _ true V s1 held HLV SS1 MS1 HL1 Hlt Hp).
      - intros e He. apply bv_snap_ok_live. unfold bv_src_rows in He. cbn [bo_src fst] in He.
        apply (bv_rows_in V otid e HW) in He. apply He.
      - intros He. apply fired_nil. intros oi o Hoi Hobj.
        exact (early_remove_sound V EvRemoveComponents _ _ oi o HI eq_refl He Hoi Hobj). }
    rewrite (sa_bind_ok R). unfold bind at 1. unfold get at 1. cbv beta iota. cbn [andb whenM].
    exists s'. split; [reflexivity|]. rewrite <- bv_entries_pairs. exact EV.
  - unfold bind at 1. unfold ret at 1. cbv beta iota. unfold bind at 1. unfold get at 1. cbv beta iota. cbn [andb whenM].
    exists s. split; [reflexivity|].
    rewrite (bv_pairs_nil _ (bv_pre_F V) (bv_src_rows V) bs) by (intros b; apply bv_has_obs_false; assumption).
    apply bv_ev_refl. exact HL.
Qed.

Definition bv_post_F (V : W) (r : nat * nat * nat * nat) : list nat :=
  let '(otid, ntid, _, _) := r in fired V EvAddComponents (p_add (bv_tmask V otid) (bv_tmask V ntid)).
Definition bv_post_rows (V : W) (r : nat * nat * nat * nat) : list ent :=
  let '(_, ntid, start, len) := r in bv_rows_at V ntid start len.

Lemma bv_post_events_run : forall V add mv s held, St V -> MInv0 V -> bv_passive V EvAddComponents ->
  bv_lock_ok (w_lock V) held -> length held < 64 ->
  (forall otid ntid start len, In (otid, ntid, start, len) mv ->
     (exists t, nth_error (w_tables V) otid = Some t) /\
     (exists t, nth_error (w_tables V) ntid = Some t /\ start + len <= t_len t)) ->
  storage_same V s -> bv_mgr_same V s -> bv_lock_ok (w_lock s) held ->
  exists s', bo_post_events add [] mv s = Ok tt s' /\
    bv_ev held s s' (if is_nil add then [] else bv_entries V (bv_pairs (bv_post_F V) (bv_post_rows V) mv)).
Proof.
  intros V add mv s held HSt HI Hp HLV Hlt Hmv SS MS HL. pose proof (proj1 HSt) as HW.
  unfold bo_post_events. destruct add as [|c add']; cbn [is_nil negb whenM].
  { exists s. split; [reflexivity|apply bv_ev_refl; exact HL]. }
  unfold bind at 1. unfold get at 1. cbv beta iota. rewrite (bv_has_obs_same V s _ MS).
  destruct (has_obs V EvAddComponents) eqn:Ho; cbn [whenM].
  - destruct (bv_forM_ev _
        (fun b : nat * nat * nat * nat => let '(otid, ntid, start, len) := b in
           om <- arch_mask_of_table otid ;; nm <- arch_mask_of_table ntid ;;
           es <- rows_of ntid start len ;;
           fire_rows (fun e eo => fire_add EvAddComponents e om nm eo) es true)
        (fun r => flat_map (fun e => map (fun oi => v_cb_entry oi e V) (bv_post_F V r)) (bv_post_rows V r))
        held mv V s SS MS HL) as (s' & R & EV).
    { intros r s1 Hin SS1 MS1 HL1. destruct r as [[[otid ntid] start] len].
      destruct (Hmv otid ntid start len Hin) as ((ot & Hot) & (nt & Hnt & Hle)).
      pose proof (storage_same_St V s1 SS1 HSt) as HSt1.
      pose proof SS1 as (_ & _ & _ & _ & _ & _ & E7 & _).
      assert (Hot1 : nth_error (w_tables s1) otid = Some ot) by (rewrite E7; exact Hot).
      assert (Hnt1 : nth_error (w_tables s1) ntid = Some nt) by (rewrite E7; exact Hnt).
      rewrite (sa_bind_ok (bv_tmask_ok s1 otid ot (proj1 HSt1) Hot1)), (bv_tmask_same V s1 otid SS1).
      rewrite (sa_bind_ok (bv_tmask_ok s1 ntid nt (proj1 HSt1) Hnt1)), (bv_tmask_same V s1 ntid SS1).
      rewrite (sa_bind_ok (bv_rows_of_ok s1 ntid nt start len Hnt1)), (bv_rows_at_same V s1 ntid start len SS1).
      unfold bv_post_F, bv_post_rows.
      apply (bv_fire_rows_view EvAddComponents (early_add (bv_tmask V otid) (bv_tmask V ntid))
               (p_add (bv_tmask V otid) (bv_tmask V ntid)) _ true V s1 held HLV SS1 MS1 HL1 Hlt Hp).
      - intros e He. apply bv_snap_ok_live. apply (bv_rows_at_live V ntid nt start len e HW Hnt Hle He).
      - intros He. apply fired_nil. intros oi o Hoi Hobj.
        exact (early_add_sound V EvAddComponents _ _ oi o HI eq_refl He Hoi Hobj). }
    rewrite (sa_bind_ok R). unfold bind at 1. unfold get at 1. cbv beta iota. cbn [is_nil negb andb whenM].
    exists s'. split; [reflexivity|]. rewrite <- bv_entries_pairs. exact EV.
  - unfold bind at 1. unfold ret at 1. cbv beta iota. unfold bind at 1. unfold get at 1. cbv beta iota. cbn [is_nil negb andb whenM].
    exists s. split; [reflexivity|].
    rewrite (bv_pairs_nil _ (bv_post_F V) (bv_post_rows V) mv).
    2:{ intros [[[otid ntid] start] len]. apply bv_has_obs_false; assumption. }
    apply bv_ev_refl. exact HL.
Qed.

(** ** Phase B (the moves): where the moved entities end up *)

(** One batch, at table level: the result is (source, destination, old destination length, source
    length); the destination keeps its old rows and gets the source rows appended in order; no
    other table changes (the source is emptied); archetypes are untouched. *)
Lemma bv_step_tables : forall s add rem vals b, St s -> (add <> [] \/ rem <> []) -> bo_batch_ok s add rem b ->
  registered s add -> (forall cv, In cv vals -> In (fst cv) add) ->
  forall r s2, bo_mbody vals b s = Ok r s2 ->
  exists ot nt T2, nth_error (w_tables s) (bo_src b) = Some ot /\ nth_error (w_tables s) (bo_dst b) = Some nt /\
    r = (bo_src b, bo_dst b, t_len nt, t_len ot) /\
    nth_error (w_tables s2) (bo_dst b) = Some T2 /\ t_len T2 = t_len nt + t_len ot /\
    (forall i, i < t_len nt -> row_ent T2 i = row_ent nt i) /\
    (forall i, i < t_len ot -> row_ent T2 (t_len nt + i) = row_ent ot i) /\
    (exists T1, nth_error (w_tables s2) (bo_src b) = Some T1) /\
    (forall tid, tid <> bo_src b -> tid <> bo_dst b -> nth_error (w_tables s2) tid = nth_error (w_tables s) tid) /\
    w_archs s2 = w_archs s.
Proof.
  intros s add rem vals b HSt Hnn Hb Hreg Hvals r s2 H.
  pose proof (bo_dst_not_src s add rem b b Hnn Hb Hb) as Hne0.
  destruct b as [[otid ntid] len0]. cbn [bo_src bo_dst fst snd] in *.
  assert (Hne : otid <> ntid) by congruence. clear Hne0.
  destruct Hb as (om & nm & (ot & oa & Hot & Hoa & Emo) & (nt & na & Hnt & Hna & Emn) & Hm & Hr & Ha).
  cbn [bo_src bo_dst fst snd] in *.
  pose proof (proj1 HSt) as HW.
  destruct (b_x_exec s otid ntid ot nt oa na HSt Hne Hot Hnt Hoa Hna) as (nt3 & Hrun & Fn).
  set (s1 := sb2_st s (b_xT' s otid ntid ot nt3) (b_xI' s ntid ot nt)) in *.
  pose proof (b_xp_St s otid ntid ot nt nt3 HSt Hne Hot Hnt Fn) as HSt1. fold s1 in HSt1.
  pose proof (b_xp_tab s otid ntid ot nt nt3 Hne Hot Hnt) as Etab1. fold s1 in Etab1.
  assert (Tab1 : nth_error (w_tables s1) ntid = Some nt3).
  { rewrite Etab1. destruct (Nat.eqb_spec otid ntid); [congruence|]. rewrite Nat.eqb_refl. reflexivity. }
  pose proof Fn as (On & Ln & Mn & Oldn & Newn & Celln).
  destruct Mn as (Mn1 & Mn2 & Mn3 & Mn4 & Mn5 & Mn6).
  destruct (wf_layout _ (proj1 HSt1) ntid nt3 Tab1) as (a' & _ & _ & Kinds & _).
  destruct (sb2_layout _ _ _ _ HW Hnt Hna) as (Hidn & _ & _).
  assert (Hvk : forall cv, In cv vals -> In (fst cv) (t_ids nt3)).
  { intros cv Hcv. rewrite Mn2, Hidn. apply mk_to_list_spec. pose proof (Hvals cv Hcv) as Hin.
    split; [apply Hreg; exact Hin|]. rewrite Emn, Hm. rewrite (proj2 (sb2_memb_In _ _) Hin). apply orb_true_r. }
  destruct (bo_cb_loop (kind_of s1) ntid vals (seq (t_len nt) (t_len ot)) s1 nt3 Tab1 On) as
    (T' & Hrun2 & Hok' & Hmeta' & Hlen' & Hents' & Hd1 & Hd2).
  { intros r0 Hr0. apply in_seq in Hr0. lia. }
  { apply seq_NoDup. }
  { exact Kinds. }
  { exact Hvk. }
  set (L := map (fun r0 => b_entry (row_ent nt3 r0)) (seq (t_len nt) (t_len ot))) in *.
  set (s2c := b_logged (sb2_setT s1 (upd ntid T' (w_tables s1))) L) in *.
  assert (Hrun3 : bo_mbody vals (otid, ntid, len0) s = Ok (otid, ntid, t_len nt, t_len ot) s2c).
  { unfold bo_mbody. rewrite (bo_bind_ok Hrun). cbv beta iota. rewrite (bo_bind_ok Hrun2). reflexivity. }
  rewrite Hrun3 in H. inversion H; subst r s2. clear H.
  assert (ET : w_tables s2c = upd ntid T' (w_tables s1)) by reflexivity.
  assert (Hrow : forall i, row_ent T' i = row_ent nt3 i) by (intros i; unfold row_ent; rewrite Hents'; reflexivity).
  exists ot, nt, T'. split; [exact Hot|]. split; [exact Hnt|]. split; [reflexivity|].
  split; [rewrite ET; eapply sb2_nth_error_upd_eq; exact Tab1|].
  split; [rewrite Hlen'; exact Ln|].
  split; [intros i Hi; rewrite Hrow; apply (Oldn i Hi)|].
  split; [intros i Hi; rewrite Hrow; apply (Newn i Hi)|].
  split.
  { exists (tbl_reset ot). rewrite ET, sb2_nth_error_upd_ne by congruence. rewrite Etab1, Nat.eqb_refl. reflexivity. }
  split; [|reflexivity].
  intros tid H1 H2. rewrite ET, sb2_nth_error_upd_ne by congruence. rewrite Etab1.
  destruct (Nat.eqb_spec otid tid); [congruence|]. destruct (Nat.eqb_spec ntid tid); [congruence|]. reflexivity.
Qed.

Definition bv_grows (T T' : table) : Prop :=
  t_len T <= t_len T' /\ forall i, i < t_len T -> row_ent T' i = row_ent T i.

Lemma bv_grows_refl : forall T, bv_grows T T.
Proof. intros T. split; auto. Qed.
Lemma bv_grows_trans : forall a b c, bv_grows a b -> bv_grows b c -> bv_grows a c.
Proof. intros a b c (A1 & A2) (B1 & B2). split; [lia|]. intros i Hi. rewrite B2 by lia. apply A2. exact Hi. Qed.

Lemma bv_Forall2_impl_in : forall A B (P Q : A -> B -> Prop) l l',
  (forall a b, In a l -> P a b -> Q a b) -> Forall2 P l l' -> Forall2 Q l l'.
Proof.
  intros A B P Q l l' H F. induction F as [|a b l l' Hab F IH]; [constructor|].
  constructor; [apply H; [left; reflexivity|exact Hab]|]. apply IH. intros a0 b0 Hin. apply H. right. exact Hin.
Qed.

(** All batches (no table is selected twice): for every batch the rows [start, start+len) of its
    destination in the FINAL state are the rows of its source in the state before the moves. *)
Lemma bv_move_tables : forall add rem vals bs s, St s -> (add <> [] \/ rem <> []) ->
  Forall (bo_batch_ok s add rem) bs -> registered s add -> (forall cv, In cv vals -> In (fst cv) add) ->
  NoDup (map bo_src bs) ->
  forall mv s', mapM bs (bo_mbody vals) s = Ok mv s' ->
  w_archs s' = w_archs s /\
  (forall tid T, nth_error (w_tables s) tid = Some T -> ~ In tid (map bo_src bs) ->
     exists T', nth_error (w_tables s') tid = Some T' /\ bv_grows T T') /\
  (forall tid T, nth_error (w_tables s) tid = Some T -> exists T', nth_error (w_tables s') tid = Some T') /\
  Forall2 (fun b r => exists ot T' start,
     nth_error (w_tables s) (bo_src b) = Some ot /\ r = (bo_src b, bo_dst b, start, t_len ot) /\
     nth_error (w_tables s') (bo_dst b) = Some T' /\ start + t_len ot <= t_len T' /\
     forall i, i < t_len ot -> row_ent T' (start + i) = row_ent ot i) bs mv.
Proof.
  intros add rem vals bs. induction bs as [|b rest IH]; intros s HSt Hnn HF Hreg Hvals ND mv s' H.
  - cbn [mapM] in H. unfold ret in H. inversion H; subst. split; [reflexivity|].
    split; [intros tid T HT _; exists T; split; [exact HT|apply bv_grows_refl]|]. split; [eauto|constructor].
  - inversion HF as [|? ? Hb HF']; subst. cbn [map] in ND. inversion ND as [|? ? Hnin ND']; subst.
    destruct (bo_step s add rem vals b HSt Hnn Hb Hreg Hvals) as
      (s2 & r & Hrun & HSt2 & K2 & _ & _ & _ & _ & _ & _ & Fr2).
    cbn [mapM] in H. rewrite (bo_bind_ok Hrun) in H.
    destruct (mapM rest (bo_mbody vals) s2) as [mv2 s3|er s3] eqn:E2; [|rewrite (bo_bind_err E2) in H; discriminate].
    rewrite (bo_bind_ok E2) in H. unfold ret in H. inversion H; subst mv s3. clear H.
    destruct (bv_step_tables s add rem vals b HSt Hnn Hb Hreg Hvals r s2 Hrun) as
      (ot & nt & T2 & Hot & Hnt & Er & HT2 & Len2 & Old2 & New2 & (T1 & HT1) & Oth2 & Ar2).
    assert (HF2 : Forall (bo_batch_ok s2 add rem) rest).
    { eapply Forall_impl; [|exact HF']. intros b' Hb'. eapply bo_batch_ok_keeps; eauto. }
    assert (Hreg2 : registered s2 add).
    { intros c Hc. destruct Fr2 as (-> & _). apply Hreg; exact Hc. }
    destruct (IH s2 HSt2 Hnn HF2 Hreg2 Hvals ND' mv2 s' E2) as (A3 & G3 & X3 & FA3).
    assert (Hds : forall b', In b' rest -> bo_dst b <> bo_src b').
    { intros b' Hb'. apply (bo_dst_not_src s add rem b b' Hnn Hb). rewrite Forall_forall in HF'. apply HF'. exact Hb'. }
    assert (Hdr : ~ In (bo_dst b) (map bo_src rest)).
    { intros Hin. apply in_map_iff in Hin. destruct Hin as (b' & E & Hb'). apply (Hds b' Hb'). congruence. }
    assert (Hsd : bo_src b <> bo_dst b).
    { intros E. apply (bo_dst_not_src s add rem b b Hnn Hb Hb). congruence. }
    destruct (G3 (bo_dst b) T2 HT2 Hdr) as (Td & HTd & Gd).
    split; [congruence|]. split; [|split].
    + intros tid T HT Hn. cbn [map] in Hn.
      assert (Hn1 : tid <> bo_src b) by (intros ->; apply Hn; left; reflexivity).
      assert (Hn2 : ~ In tid (map bo_src rest)) by (intros X; apply Hn; right; exact X).
      destruct (Nat.eq_dec tid (bo_dst b)) as [->|Hn3].
      * rewrite Hnt in HT. inversion HT; subst T. exists Td. split; [exact HTd|].
        eapply bv_grows_trans; [|exact Gd]. split; [lia|exact Old2].
      * apply (G3 tid T); [rewrite (Oth2 tid Hn1 Hn3); exact HT|exact Hn2].
    + intros tid T HT. destruct (Nat.eq_dec tid (bo_src b)) as [->|Hn1]; [apply (X3 _ T1 HT1)|].
      destruct (Nat.eq_dec tid (bo_dst b)) as [->|Hn3]; [apply (X3 _ T2 HT2)|].
      apply (X3 tid T). rewrite (Oth2 tid Hn1 Hn3). exact HT.
    + constructor.
      * exists ot, Td, (t_len nt). split; [exact Hot|]. split; [exact Er|]. split; [exact HTd|].
        destruct Gd as (Gd1 & Gd2). split; [lia|]. intros i Hi. rewrite Gd2 by lia. apply New2. exact Hi.
      * eapply bv_Forall2_impl_in; [|exact FA3]. cbv beta.
        intros b' r' Hin Q. destruct Q as (ot' & T' & start & Q1 & Q2 & Q3 & Q4 & Q5).
        exists ot', T', start. split; [|auto].
        rewrite <- (Oth2 (bo_src b')); [exact Q1| |].
        -- intros E. apply Hnin. rewrite <- E. apply in_map. exact Hin.
        -- intros E. apply (Hds b' Hin). congruence.
Qed.

(** ** Reading the pairs of the two event phases on the entities of the pre-state *)

Lemma bv_Forall2_in_r : forall A B (Q : A -> B -> Prop) l l' y, Forall2 Q l l' -> In y l' -> exists x, In x l /\ Q x y.
Proof.
  intros A B Q l l' y F. induction F as [|a b l l' Hab F IH]; intros Hin; [destruct Hin|].
  destruct Hin as [<-|Hin]; [exists a; split; [left; reflexivity|exact Hab]|].
  destruct (IH Hin) as (x & Hx & Hq). exists x. split; [right; exact Hx|exact Hq].
Qed.

Lemma bv_pairs_Forall2 : forall A B (Q : A -> B -> Prop) (F : A -> list nat) (R : A -> list ent)
  (F' : B -> list nat) (R' : B -> list ent) l l',
  Forall2 Q l l' -> (forall a b, Q a b -> F' b = F a /\ R' b = R a) -> bv_pairs F' R' l' = bv_pairs F R l.
Proof.
  intros A B Q F R F' R' l l' H HQ. induction H as [|a b l l' Hab H IH]; [reflexivity|].
  unfold bv_pairs in *. cbn [flat_map]. rewrite IH. destruct (HQ a b Hab) as (-> & ->). reflexivity.
Qed.

Lemma bv_NoDup_map_inj_in : forall A B (f : A -> B) l x y, NoDup (map f l) -> In x l -> In y l -> f x = f y -> x = y.
Proof.
  intros A B f l. induction l as [|a l IH]; intros x y ND Hx Hy E; [destruct Hx|].
  cbn [map] in ND. inversion ND as [|? ? Hn ND']; subst.
  destruct Hx as [<-|Hx]; destruct Hy as [<-|Hy]; [reflexivity| | |apply IH; assumption].
  - exfalso. apply Hn. rewrite E. apply in_map. exact Hy.
  - exfalso. apply Hn. rewrite <- E. apply in_map. exact Hx.
Qed.

Lemma bv_tmask_of : forall s tid m, bo_tmask s tid m -> bv_tmask s tid = m.
Proof. intros s tid m (t & a & Ht & Ha & Hm). unfold bv_tmask. rewrite Ht, Ha. exact Hm. Qed.

(** The mask after the exchange, bit by bit. *)
Definition bv_xmask (om : mask) (add rem : list nat) (nm : mask) : Prop :=
  forall j, mk_get nm j = ((mk_get om j && negb (memb j rem)) || memb j add)%bool.

Lemma bv_xmask_fun : forall om add rem nm nm', bv_xmask om add rem nm -> bv_xmask om add rem nm' -> nm = nm'.
Proof. intros om add rem nm nm' H H'. apply mk_eq_ext. intros j. rewrite H, H'. reflexivity. Qed.

(** Structure creation keeps the snapshot of a live entity. *)
Lemma bv_snapshot_rows : forall s s' e, same_rows s s' -> live s e = true -> snapshot_entity s' e = snapshot_entity s e.
Proof.
  intros s s' e (E1 & _ & _ & _ & _ & _ & A7 & _) Hl.
  destruct (sb2_live_elim _ _ Hl) as (tid & r & t & L & T & R & _).
  unfold snapshot_entity. rewrite E1. unfold loc in L.
  destruct (nth_error (w_index s) (fst e)) as [[[tid'|] r']|]; try discriminate. inversion L; subst tid' r'.
  destruct (A7 tid t T) as (t' & T' & (D1 & D2 & D3 & D4 & D5 & D6 & D7) & Htg). rewrite T, T'.
  destruct (Htg ltac:(lia)) as (G1 & _). unfold snapshot_row. rewrite D5, D4, G1. reflexivity.
Qed.

(** The pairs of a per-batch phase whose observer list depends on the two masks only. *)
Section bv_batch_pairs.
Variables (s s1 : W) (tabs : list nat) (add rem : list nat) (bs : list (nat * nat * nat)).
Variable Fm : mask -> mask -> list nat.
Hypothesis HW : WF s.
Hypothesis HW1 : WF s1.
Hypothesis Hl1 : forall e, live s1 e = live s e.
Hypothesis Hloc1 : forall e, loc s1 e = loc s e.
Hypothesis Hem1 : forall e, live s e = true -> bv_emask s1 e = bv_emask s e.
Hypothesis I1 : forall b, In b bs -> In (bo_src b) tabs.
Hypothesis I2 : forall tid t, In tid tabs -> nth_error (w_tables s) tid = Some t -> t_len t <> 0 -> In tid (map bo_src bs).
Hypothesis FA : Forall (bo_batch_ok s1 add rem) bs.

Let Pb := bv_pairs (fun b => Fm (bv_tmask s1 (bo_src b)) (bv_tmask s1 (bo_dst b))) (bv_src_rows s1) bs.

Lemma bv_batch_pairs_in : forall oi e, In (oi, e) Pb <->
  (live s e = true /\ bo_in_tabs s tabs e /\
   exists nm, bv_xmask (bv_emask s e) add rem nm /\ In oi (Fm (bv_emask s e) nm)).
Proof.
  intros oi e. unfold Pb. rewrite bv_pairs_in. rewrite Forall_forall in FA. split.
  - intros (b & Hb & He & Hoi). unfold bv_src_rows in He. apply (bv_rows_in s1 (bo_src b) e HW1) in He.
    destruct He as (Hl & r & L). rewrite Hl1 in Hl. rewrite Hloc1 in L.
    split; [exact Hl|]. split; [exists (bo_src b), r; split; [apply I1; exact Hb|exact L]|].
    destruct (FA b Hb) as (om & nm & T1 & T2 & Hm & _).
    assert (Eo : bv_emask s e = bv_tmask s1 (bo_src b)).
    { rewrite <- (Hem1 e Hl). unfold bv_emask. rewrite Hloc1, L. reflexivity. }
    exists (bv_tmask s1 (bo_dst b)). rewrite Eo. split; [|exact Hoi].
    rewrite (bv_tmask_of _ _ _ T1), (bv_tmask_of _ _ _ T2). exact Hm.
  - intros (Hl & (tid & r & Hin & L) & nm & Hx & Hoi).
    destruct (sb2_live_elim _ _ Hl) as (tid0 & r0 & t0 & L0 & T0 & R0 & _).
    rewrite L in L0. inversion L0; subst tid0 r0.
    assert (Hs : In tid (map bo_src bs)) by (apply (I2 tid t0 Hin T0); lia).
    apply in_map_iff in Hs. destruct Hs as (b & Eb & Hb). exists b. split; [exact Hb|]. split.
    + unfold bv_src_rows. apply (bv_rows_in s1 (bo_src b) e HW1). rewrite Hl1, Hloc1, Eb. eauto.
    + destruct (FA b Hb) as (om & nm' & T1 & T2 & Hm & _).
      assert (Eo : bv_emask s e = bv_tmask s1 (bo_src b)).
      { rewrite <- (Hem1 e Hl). unfold bv_emask. rewrite Hloc1, L, Eb. reflexivity. }
      rewrite <- Eo.
      assert (En : bv_tmask s1 (bo_dst b) = nm).
      { apply (bv_xmask_fun (bv_emask s e) add rem); [|exact Hx].
        rewrite Eo, (bv_tmask_of _ _ _ T1), (bv_tmask_of _ _ _ T2). exact Hm. }
      rewrite En. exact Hoi.
Qed.

Lemma bv_batch_pairs_NoDup : NoDup (map bo_src bs) -> (forall om nm, NoDup (Fm om nm)) -> NoDup Pb.
Proof.
  intros ND HF. unfold Pb. apply bv_pairs_NoDup.
  - exact (NoDup_map_inv bo_src bs ND).
  - intros b _. apply HF.
  - intros b _. unfold bv_src_rows. apply bv_rows_NoDup. exact HW1.
  - intros x y e Hx Hy Ex Ey. unfold bv_src_rows in Ex, Ey.
    apply (bv_rows_in s1 (bo_src x) e HW1) in Ex. apply (bv_rows_in s1 (bo_src y) e HW1) in Ey.
    destruct Ex as (_ & r & Lx). destruct Ey as (_ & r' & Ly).
    apply (bv_NoDup_map_inj_in _ _ bo_src bs x y ND Hx Hy). congruence.
Qed.
End bv_batch_pairs.

Lemma bv_keeps_same : forall s s', storage_same s s' -> bo_keeps s s'.
Proof.
  intros s s' (_ & _ & _ & _ & _ & E6 & E7 & _). split.
  - intros tid t H. exists t. rewrite E7. auto.
  - intros aid a H. exists a. rewrite E6. auto.
Qed.

Lemma bv_frame_same : forall s s', storage_same s s' -> frame_user s s'.
Proof.
  intros s s' (E1 & E2 & E3 & E4 & E5 & E6 & E7 & E8 & E9 & E10 & E11 & E12 & E13 & E14 & E15 & E16 & E17 & E18).
  unfold frame_user. repeat split; assumption.
Qed.

Lemma bv_tmask_keeps : forall s s' tid t, WF s -> bo_keeps s s' -> nth_error (w_tables s) tid = Some t ->
  bv_tmask s' tid = bv_tmask s tid.
Proof.
  intros s s' tid t HW (K1 & K2) Ht. destruct (wf_layout _ HW tid t Ht) as (a & Ha & _).
  destruct (K1 tid t Ht) as (t' & Ht' & Et). destruct (K2 _ a Ha) as (a' & Ha' & Ea).
  unfold bv_tmask. rewrite Ht, Ha, Ht', Et, Ha'. exact Ea.
Qed.

Lemma bv_batch_ok_tables : forall s add rem b, bo_batch_ok s add rem b ->
  (exists t, nth_error (w_tables s) (bo_src b) = Some t) /\ (exists t, nth_error (w_tables s) (bo_dst b) = Some t).
Proof. intros s add rem b (om & nm & (t & a & Ht & _) & (t' & a' & Ht' & _) & _). eauto. Qed.

(** ExchangeBatch (AddBatch: [rem = []], RemoveBatch: [add = []]) over the tables [tabs] selected by
    filter [fi] (no table selected twice) in an unlocked relation-free world whose OnRemoveComponents
    and OnAddComponents observers are passive.
    If every non-empty selected table is ready the call succeeds and
    - the storage ends exactly as [exchange_batch_spec] says (observers do not change it; the values
      stored by the batch callback included), the world is unlocked at the end;
    - the log grows by [Lr ++ (one [101; id; gen] per moved entity) ++ La]:
      [Lr] are the OnRemoveComponents entries: all of them precede the first batch-callback entry,
      i.e. every table move; each reports LOCKED = ALIVE = COUNT = 1 and the content of its entity in
      the PRE-state [s] ([bv_reports s]);
      [La] are the OnAddComponents entries: all of them come after ALL batch callbacks, i.e. after all
      tables were moved; each reports LOCKED = ALIVE = COUNT = 1 and the content of its entity in
      the FINAL state [s'] ([bv_reports s'], which [val s'] above describes);
    - [Pr] / [Pa] hold exactly the pairs (observer, entity) with the entity live in a selected table
      and the observer among those registered for the event whose predicate [p_remove] / [p_add]
      (ObsDoc) holds for the entity's old and new mask; each pair once.
    Otherwise the call fails before any callback ran: as in [exchange_batch_spec]. *)
Theorem exchange_batch_view : forall s fi tabs add rem vals,
  St s -> tables_listed s -> MInv0 s -> bv_lock_ok (w_lock s) [] ->
  bv_passive s EvRemoveComponents -> bv_passive s EvAddComponents ->
  (add <> [] \/ rem <> []) -> registered s add ->
  (forall cv, In cv vals -> In (fst cv) add) ->
  get_batch_tables fi [] s = Ok tabs s -> NoDup tabs ->
  match w_exchange_batch fi [] add rem [] vals s with
  | Ok _ s' =>
      (forall tid t, In tid tabs -> nth_error (w_tables s) tid = Some t -> t_len t <> 0 -> bo_ready add rem (t_ids t)) /\
      St s' /\ is_locked s' = false /\
      (forall e, live s e = true -> bo_in_tabs s tabs e ->
         live s' e = true /\
         forall c, val s' e c = if memb c add then Some (bo_cbval s vals c) else if memb c rem then None else val s e c) /\
      (forall e, live s e = true -> ~ bo_in_tabs s tabs e -> live s' e = true /\ forall c, val s' e c = val s e c) /\
      (forall e, live s e = false -> live s' e = false) /\
      w_pool s' = w_pool s /\ frame_user s s' /\
      exists es Pr Lr Pa La,
        w_log s' = w_log s ++ Lr ++ map (fun e => [101%Z; Zn (fst e); Z.of_N (snd e)]) es ++ La /\
        NoDup es /\ (forall e, In e es <-> (live s e = true /\ bo_in_tabs s tabs e)) /\
        Forall2 (bv_reports s) Pr Lr /\ Forall2 (bv_reports s') Pa La /\
        (forall oi e, In (oi, e) Pr <->
           (rem <> [] /\ live s e = true /\ bo_in_tabs s tabs e /\
            exists nm, bv_xmask (bv_emask s e) add rem nm /\
                       In oi (fired s EvRemoveComponents (p_remove (bv_emask s e) nm)))) /\
        (forall oi e, In (oi, e) Pa <->
           (add <> [] /\ live s e = true /\ bo_in_tabs s tabs e /\
            exists nm, bv_xmask (bv_emask s e) add rem nm /\
                       In oi (fired s EvAddComponents (p_add (bv_emask s e) nm)))) /\
        NoDup Pr /\ NoDup Pa
  | Err _ s' =>
      (exists tid t, In tid tabs /\ nth_error (w_tables s) tid = Some t /\ t_len t <> 0 /\ ~ bo_ready add rem (t_ids t)) /\
      St s' /\ content_same s s' /\ is_locked s' = false /\ w_log s' = w_log s /\ w_pool s' = w_pool s /\ frame_user s s' /\
      lk_mask (w_lock s') = lk_mask (w_lock s) /\
      (exists b l1, lock_lock (w_lock s) = Some (b, l1) /\ lock_unlock l1 b = Some (w_lock s'))
  end.
Proof.
  intros s fi tabs add rem vals HSt TL HI HL0 Hpr Hpa Hnn Hreg Hvals Hgbt NDt.
  pose proof (proj1 HSt) as HW.
  assert (Hunl : is_locked s = false) by (rewrite (bv_is_locked s [] HL0); reflexivity).
  destruct (bv_lock_take (w_lock s) [] HL0 ltac:(cbn; lia)) as (lb & l' & LL & _ & HL1).
  pose proof (bo_lock_cycle s lb l' Hunl LL) as LU.
  set (l'' := {| lk_pool := ipool_recycle (lk_pool l') lb; lk_mask := 0%N |}) in *.
  set (s0 := s <| w_lock := l' |>).
  assert (SS0 : storage_same s s0) by (unfold storage_same; repeat split).
  pose proof (storage_same_St s s0 SS0 HSt) as HSt0.
  assert (Hgbt0 : get_batch_tables fi [] s0 = Ok tabs s0) by (apply (bo_gbt_frame fi [] s s0 tabs SS0 Hgbt)).
  assert (Hval0 : forall tid, In tid tabs -> exists t, nth_error (w_tables s0) tid = Some t).
  { exact (bo_gbt_valid s fi tabs HSt Hgbt). }
  assert (Hreg0 : registered s0 add) by exact Hreg.
  pose proof (bo_collect_spec add rem tabs s0 [] false HSt0 Hreg0 Hval0) as HC.
  rewrite bo_exchange_batch_eq.
  rewrite (bo_bind_ok (sb1_check_locked_ok s Hunl)).
  assert (Hg : negb (is_nil add && is_nil rem) = true).
  { destruct add; [|reflexivity]. destruct rem; [|reflexivity]. destruct Hnn; congruence. }
  rewrite Hg. cbn [guard]. rewrite (bo_bind_ok (m := ret tt) (s := s) eq_refl).
  rewrite (bo_bind_ok (v_lockM_ok s lb l' LL)). fold s0.
  destruct (bo_collect add rem [] tabs [] false s0) as [[bs' rr'] s1|er s1] eqn:EC.
  - destruct HC as (bs & -> & -> & (HSt1 & R1 & D1 & F1) & FA & I1 & I2). cbn [app] in EC.
    destruct (bv_collect_facts add rem tabs s0 [] false bs false s1 HSt0 Hreg0 Hval0 EC) as (M01 & _ & bs2 & Ebs & Hbf & NDs).
    cbn [app] in Ebs. subst bs2. specialize (NDs NDt).
    pose proof (proj1 HSt1) as HW1.
    pose proof D1 as (D1a & D1b & D1c & D1d & D1e & D1f & D1g & D1h).
    pose proof F1 as (F1a & _).
    assert (MS1 : bv_mgr_same s s1) by (unfold bv_mgr_same; repeat split; assumption).
    assert (HI1 : MInv0 s1).
    { apply (MInv0_ext s s1 D1c D1d D1e F1a); [|exact HI].
      intros e He. rewrite D1h. apply (mi_max _ HI). unfold olist in *. rewrite D1d in He. exact He. }
    assert (HLs1 : bv_lock_ok (w_lock s1) [lb]) by (rewrite D1a; exact HL1).
    pose proof (same_rows_content s0 s1 (proj1 HSt0) R1) as C01.
    assert (Hl1 : forall e, live s1 e = live s e) by (intros e; apply (C01 e)).
    assert (Hv1 : forall e c, val s1 e c = val s e c) by (intros e c; apply (C01 e)).
    assert (Hloc1 : forall e, loc s1 e = loc s e) by (intros e; apply sa_loc_ext; apply R1).
    rewrite Forall_forall in FA.
    assert (Hbs1 : forall b, In b bs ->
              (exists t, nth_error (w_tables s1) (bo_src b) = Some t /\ snd b = t_len t) /\
              (exists t, nth_error (w_tables s1) (bo_dst b) = Some t)).
    { intros b Hb. destruct (Hbf b Hb) as (_ & _ & B3). split; [exact B3|]. apply (bv_batch_ok_tables s1 add rem b (FA b Hb)). }
    (* the OnRemoveComponents phase *)
    destruct (bv_pre_events_run s1 rem bs s1 [lb] HSt1 HI1 (bv_passive_same s s1 _ MS1 Hpr) HLs1 ltac:(cbn; lia) Hbs1
                (sb3_storage_same_refl s1) (bv_mgr_same_refl s1) HLs1) as (s1' & Rpre & (SSp & MSp & HLp & LGp)).
    pose proof (storage_same_St s1 s1' SSp HSt1) as HSt1'.
    assert (FA' : Forall (bo_batch_ok s1' add rem) bs).
    { apply Forall_forall. intros b Hb. apply (bo_batch_ok_keeps s1 s1' add rem b (bv_keeps_same s1 s1' SSp) (FA b Hb)). }
    pose proof SSp as (_ & Ep2 & Ep3 & Ep4 & _ & Ep6 & Ep7 & _).
    assert (Hreg1' : registered s1' add).
    { intros c Hc. rewrite Ep2, F1a. apply Hreg. exact Hc. }
    (* the moves *)
    destruct (bo_move_loop add rem vals bs s1' HSt1' Hnn FA' Hreg1' Hvals) as
      (s2 & mv & Hrun & HSt2 & K2 & Mv & Ot & Dd & (es & Lg & ND & Ines) & Sd & Pl & Fr).
    destruct (bv_move_tables add rem vals bs s1' HSt1' Hnn FA' Hreg1' Hvals NDs mv s2 Hrun) as (A2 & G2 & X2 & FA2).
    pose proof Sd as (Sd1 & Sd2 & Sd3 & Sd4 & Sd5 & Sd6 & Sd7).
    pose proof MSp as (Mp1 & Mp2 & Mp3 & Mp4 & Mp5 & Mp6).
    pose proof MS1 as (M11 & M12 & M13 & M14 & M15 & M16).
    assert (MS2 : bv_mgr_same s s2) by (unfold bv_mgr_same; repeat split; congruence).
    pose proof Fr as (Fr1 & _).
    assert (HI2 : MInv0 s2).
    { pose proof MS2 as (N1 & N2 & N3 & _ & _ & N6).
      apply (MInv0_ext s s2 N1 N2 N3); [rewrite Fr1, Ep2; exact F1a| |exact HI].
      intros e He. rewrite N6. apply (mi_max _ HI). unfold olist in *. rewrite N2 in He. exact He. }
    assert (HLs2 : bv_lock_ok (w_lock s2) [lb]) by (rewrite Sd1; exact HLp).
    assert (Hmvb : forall r, In r mv -> exists b ot T' start, In b bs /\
              nth_error (w_tables s1') (bo_src b) = Some ot /\ r = (bo_src b, bo_dst b, start, t_len ot) /\
              nth_error (w_tables s2) (bo_dst b) = Some T' /\ start + t_len ot <= t_len T' /\
              (forall i, i < t_len ot -> row_ent T' (start + i) = row_ent ot i)).
    { intros r Hr. destruct (bv_Forall2_in_r _ _ _ bs mv r FA2 Hr) as (b & Hb & ot & T' & start & Q).
      exists b, ot, T', start. split; [exact Hb|exact Q]. }
    assert (Hmv2 : forall otid ntid start len, In (otid, ntid, start, len) mv ->
              (exists t, nth_error (w_tables s2) otid = Some t) /\
              (exists t, nth_error (w_tables s2) ntid = Some t /\ start + len <= t_len t)).
    { intros otid ntid start len Hr. destruct (Hmvb _ Hr) as (b & ot & T' & st & Hb & Q1 & Q2 & Q3 & Q4 & Q5).
      inversion Q2; subst otid ntid start len. split; [exact (X2 _ ot Q1)|]. exists T'. auto. }
    (* the OnAddComponents phase *)
    destruct (bv_post_events_run s2 add mv s2 [lb] HSt2 HI2 (bv_passive_same s s2 _ MS2 Hpa) HLs2 ltac:(cbn; lia) Hmv2
                (sb3_storage_same_refl s2) (bv_mgr_same_refl s2) HLs2) as (s2' & Rpost & (SSq & MSq & HLq & LGq)).
    destruct (bv_lock_give (w_lock s2') [lb] lb HLq (or_introl eq_refl)) as (lz & LUz & HLz).
    rewrite (bv_remove_head lb [] (fun F => F)) in HLz.
    assert (Hbody : bo_xbody fi [] add rem vals s0 = Ok tt s2').
    { unfold bo_xbody. rewrite (bo_bind_ok Hgbt0), (bo_bind_ok EC). cbv beta iota.
      rewrite (bo_bind_ok Rpre), (bo_bind_ok Hrun). exact Rpost. }
    rewrite (bo_bind_ok (bo_deferred_ok _ lb _ _ _ _ Hbody)).
    rewrite (v_unlockM_ok s2' lb lz LUz).
    set (s3 := s2' <| w_lock := lz |>).
    assert (SS3 : storage_same s2 s3).
    { eapply sb3_storage_same_trans; [exact SSq|]. unfold storage_same; repeat split. }
    pose proof (sb3_storage_same_content s1 s1' SSp) as C11.
    pose proof (sb3_storage_same_content s2 s3 SS3) as C23.
    assert (Hl1' : forall e, live s1' e = live s e) by (intros e; rewrite (proj1 (C11 e)); apply Hl1).
    assert (Hv1' : forall e c, val s1' e c = val s e c) by (intros e c; rewrite (proj2 (C11 e)); apply Hv1).
    assert (Hloc1' : forall e, loc s1' e = loc s e) by (intros e; rewrite (sa_loc_ext s1 s1' Ep4 e); apply Hloc1).
    assert (Hsrc : forall e, live s e = true -> (bo_in_tabs s1' (map bo_src bs) e <-> bo_in_tabs s tabs e)).
    { intros e Hl. split.
      - intros (tid & r & Hin & Hloc). exists tid, r. rewrite <- Hloc1'. split; [|exact Hloc].
        apply in_map_iff in Hin. destruct Hin as (b & <- & Hb). apply I1. exact Hb.
      - intros (tid & r & Hin & Hloc). exists tid, r. rewrite Hloc1'. split; [|exact Hloc].
        destruct (sb2_live_elim _ _ Hl) as (tid0 & r0 & t0 & L0 & T0 & R0 & E0).
        rewrite Hloc in L0. inversion L0; subst tid0 r0.
        apply (I2 tid t0 Hin T0). lia. }
    assert (Ereg1' : w_reg s1' = w_reg s) by (rewrite Ep2; exact F1a).
    split.
    { intros tid t Hin Ht Hlen. apply (I2 tid t Hin Ht Hlen). }
    split; [apply (storage_same_St s2 s3 SS3 HSt2)|]. split; [exact (bv_is_locked s3 [] HLz)|].
    split.
    { intros e Hl Hin. rewrite <- Hl1' in Hl. destruct (Mv e Hl) as (L' & V').
      { apply Hsrc; [rewrite <- Hl1'; exact Hl|exact Hin]. }
      split; [rewrite (proj1 (C23 e)); exact L'|]. intros c. rewrite (proj2 (C23 e)), V'.
      unfold bo_newval, bo_cbval. rewrite Hv1'.
      rewrite (bo_wval_ext (kind_of s1') (kind_of s)); [reflexivity|].
      apply sa_kind_of_ext. exact Ereg1'. }
    split.
    { intros e Hl Hnot. pose proof Hl as Hl'. rewrite <- Hl1' in Hl. destruct (Ot e Hl) as (L' & V').
      { intros Hin. apply Hnot. apply Hsrc; assumption. }
      split; [rewrite (proj1 (C23 e)); exact L'|]. intros c. rewrite (proj2 (C23 e)), V'. apply Hv1'. }
    split.
    { intros e Hd. rewrite <- Hl1' in Hd. rewrite (proj1 (C23 e)). exact (Dd e Hd). }
    split.
    { destruct SS3 as (_ & _ & E3 & _). rewrite E3, Pl, Ep3. apply R1. }
    split.
    { apply (sa_frame_user_trans s s1 s3); [exact F1|]. apply (sa_frame_user_trans s1 s1' s3); [apply bv_frame_same; exact SSp|].
      apply (sa_frame_user_trans s1' s2 s3); [exact Fr|apply bv_frame_same; exact SS3]. }
    (* the log *)
    set (PrC := bv_pairs (fun b => fired s EvRemoveComponents (p_remove (bv_tmask s1 (bo_src b)) (bv_tmask s1 (bo_dst b))))
                         (bv_src_rows s1) bs).
    set (PaC := bv_pairs (fun b => fired s EvAddComponents (p_add (bv_tmask s1 (bo_src b)) (bv_tmask s1 (bo_dst b))))
                         (bv_src_rows s1) bs).
    assert (EPr : bv_pairs (bv_pre_F s1) (bv_src_rows s1) bs = PrC).
    { apply bv_pairs_ext; [|reflexivity]. intros b. unfold bv_pre_F. apply (bv_fired_same s s1 _ _ MS1). }
    assert (FA2' : Forall2 (fun b r => In b bs /\ exists ot T' start,
               nth_error (w_tables s1') (bo_src b) = Some ot /\ r = (bo_src b, bo_dst b, start, t_len ot) /\
               nth_error (w_tables s2) (bo_dst b) = Some T' /\ start + t_len ot <= t_len T' /\
               forall i, i < t_len ot -> row_ent T' (start + i) = row_ent ot i) bs mv).
    { eapply bv_Forall2_impl_in; [|exact FA2]. cbv beta. intros b r Hin Q. split; assumption. }
    assert (EPa : bv_pairs (bv_post_F s2) (bv_post_rows s2) mv = PaC).
    { unfold PaC. apply (bv_pairs_Forall2 _ _ _ _ _ _ _ bs mv FA2'). cbv beta.
      intros b r (Hb & ot & T' & start & Q1 & Q2 & Q3 & Q4 & Q5). subst r. unfold bv_post_F, bv_post_rows.
      rewrite Forall_forall in FA'.
      destruct (bv_batch_ok_tables s1' add rem b (FA' b Hb)) as ((t1 & Ht1) & (t2 & Ht2)).
      split.
      - rewrite (bv_fired_same s s2 _ _ MS2).
        rewrite (bv_tmask_keeps s1' s2 _ t1 (proj1 HSt1') K2 Ht1), (bv_tmask_keeps s1' s2 _ t2 (proj1 HSt1') K2 Ht2).
        rewrite !(bv_tmask_same s1 s1' _ SSp). reflexivity.
      - unfold bv_rows_at, bv_src_rows, bo_rows_of. rewrite Q3, <- Ep7, Q1.
        pose proof (tbl_ok_elim _ (sb2_table_ok _ _ _ (proj1 HSt2) Q3)) as (O1 & O2 & _).
        rewrite (b_firstn_skipn_seq _ (t_ents T') zero_ent (t_len ot) start) by lia.
        rewrite (bo_rows_eq ot (sb2_table_ok _ _ _ (proj1 HSt1') Q1)).
        rewrite (bo_seq_add (t_len ot) start), map_map. apply map_ext_in. intros i Hi. apply in_seq in Hi.
        apply (Q5 i). lia. }
    rewrite EPr in LGp. rewrite EPa in LGq.
    assert (Hem1 : forall e, live s e = true -> bv_emask s1 e = bv_emask s e).
    { intros e Hl. unfold bv_emask. rewrite Hloc1.
      destruct (sb2_live_elim _ _ Hl) as (tid & r & t & L & T & _). rewrite L.
      exact (bv_tmask_keeps s s1 tid t HW (bo_keeps_rows s0 s1 R1) T). }
    assert (I2' : forall tid t, In tid tabs -> nth_error (w_tables s) tid = Some t -> t_len t <> 0 -> In tid (map bo_src bs)).
    { intros tid t Hin Ht Hlen. apply (I2 tid t Hin Ht Hlen). }
    assert (FAf : Forall (bo_batch_ok s1 add rem) bs) by (apply Forall_forall; exact FA).
    pose proof (bv_batch_pairs_in s s1 tabs add rem bs (fun om nm => fired s EvRemoveComponents (p_remove om nm))
                  HW1 Hl1 Hloc1 Hem1 I1 I2' FAf) as HPr. fold PrC in HPr.
    pose proof (bv_batch_pairs_in s s1 tabs add rem bs (fun om nm => fired s EvAddComponents (p_add om nm))
                  HW1 Hl1 Hloc1 Hem1 I1 I2' FAf) as HPa. fold PaC in HPa.
    exists es, (if is_nil rem then [] else PrC), (if is_nil rem then [] else bv_entries s1 PrC),
           (if is_nil add then [] else PaC), (if is_nil add then [] else bv_entries s2 PaC).
    split.
    { change (w_log s3) with (w_log s2'). rewrite LGq, Lg, LGp, D1b. change (w_log s0) with (w_log s).
      rewrite <- !app_assoc. reflexivity. }
    split; [exact ND|].
    split.
    { intros e. rewrite Ines, Hl1'. split; intros (Hl & Hin); (split; [exact Hl|]); apply (Hsrc e Hl); exact Hin. }
    split.
    { destruct rem as [|c rem']; cbn [is_nil]; [constructor|].
      unfold bv_entries. apply bv_Forall2_map. intros [oi e] Hin. cbn [fst snd].
      destruct (proj1 (HPr oi e) Hin) as (Hl & _).
      destruct (bv_seen_listed s e TL Hl) as (_ & tid & r & L & Hli).
      assert (Hs1 : bv_seen s1 e).
      { split; [rewrite Hl1; exact Hl|]. exists tid, r. split; [rewrite Hloc1; exact L|apply M01; exact Hli]. }
      destruct (bv_entry_seen oi e s1 s1 [lb] HSt1 Hs1 (sb3_storage_same_refl s1) HLs1 ltac:(discriminate)) as (snap & Sn & En).
      cbn [fst snd] in Sn, En. exists snap. split; [|rewrite En; f_equal; exact (bv_collect_wv add (c :: rem') tabs s0 [] false bs false s1 HSt0 Hreg0 Hval0 EC)]. cbn [snd].
      transitivity (snapshot_entity s1 e); [symmetry; exact (bv_snapshot_rows s0 s1 e R1 Hl)|exact Sn]. }
    split.
    { destruct add as [|c add']; cbn [is_nil]; [constructor|].
      unfold bv_entries. apply bv_Forall2_map. intros [oi e] Hin. cbn [fst snd].
      rewrite <- EPa in Hin. apply bv_pairs_in in Hin. destruct Hin as (r & Hr & He & _).
      destruct (Hmvb r Hr) as (b & ot & T' & start & Hb & Q1 & Q2 & Q3 & Q4 & Q5). subst r.
      unfold bv_post_rows in He.
      destruct (bv_rows_at_live s2 (bo_dst b) T' start (t_len ot) e (proj1 HSt2) Q3 Q4 He) as (Hl2 & r2 & L2).
      assert (Hs2 : bv_seen s2 e).
      { split; [exact Hl2|]. exists (bo_dst b), r2. split; [exact L2|].
        destruct (Hbf b Hb) as (_ & B2 & _). unfold v_listed in *. rewrite A2, Ep6. exact B2. }
      destruct (bv_entry_seen oi e s2 s2 [lb] HSt2 Hs2 (sb3_storage_same_refl s2) HLs2 ltac:(discriminate)) as (snap & Sn & En).
      cbn [fst snd] in Sn, En. exists snap. split; [|rewrite En, (bv_world_view_same s2 s3 SS3); reflexivity]. cbn [snd].
      rewrite (bv_snapshot_same s2 s3 e SS3). exact Sn. }
    split.
    { intros oi e. destruct rem as [|c rem']; cbn [is_nil].
      - split; [intros []|intros (H & _); congruence].
      - split; [intros H; split; [discriminate|apply HPr; exact H]|intros (_ & H); apply HPr; exact H]. }
    split.
    { intros oi e. destruct add as [|c add']; cbn [is_nil].
      - split; [intros []|intros (H & _); congruence].
      - split; [intros H; split; [discriminate|apply HPa; exact H]|intros (_ & H); apply HPa; exact H]. }
    split.
    { destruct (is_nil rem); [constructor|].
      apply (bv_batch_pairs_NoDup s1 bs (fun om nm => fired s EvRemoveComponents (p_remove om nm)) HW1 NDs).
      intros om nm. apply bv_fired_NoDup. exact HI. }
    { destruct (is_nil add); [constructor|].
      apply (bv_batch_pairs_NoDup s1 bs (fun om nm => fired s EvAddComponents (p_add om nm)) HW1 NDs).
      intros om nm. apply bv_fired_NoDup. exact HI. }
  - destruct HC as ((HSt1 & R1 & D1 & F1) & tid & t & Hin & Ht & Hlen & Hnr).
    assert (Hbody : bo_xbody fi [] add rem vals s0 = Err er s1).
    { unfold bo_xbody. rewrite (bo_bind_ok Hgbt0). exact (bo_bind_err EC). }
    rewrite (bo_bind_err (bo_deferred_err _ lb _ _ _ _ Hbody)).
    assert (Elock1 : w_lock s1 = l') by (destruct D1 as (-> & _); reflexivity).
    assert (Erel : release_bit lb s1 = s1 <| w_lock := l'' |>).
    { unfold release_bit. rewrite Elock1, LU. reflexivity. }
    rewrite Erel. set (s1' := s1 <| w_lock := l'' |>).
    assert (SS1 : storage_same s1 s1') by (unfold storage_same; repeat split).
    split; [exists tid, t; auto|]. split; [exact (storage_same_St s1 s1' SS1 HSt1)|].
    split.
    { intros e. destruct (same_rows_content s0 s1 (proj1 HSt0) R1 e) as (L1 & V1). split; [exact L1|exact V1]. }
    split; [reflexivity|].
    split; [change (w_log s1') with (w_log s1); destruct D1 as (_ & -> & _); reflexivity|].
    split; [change (w_pool s1') with (w_pool s1); apply R1|].
    split; [exact F1|].
    split.
    { change (lk_mask (w_lock s1')) with 0%N. symmetry.
      unfold is_locked, lock_is_locked, mk_is_zero in Hunl. apply negb_false_iff in Hunl. apply N.eqb_eq in Hunl. exact Hunl. }
    exists lb, l'. split; [exact LL|exact LU].
Qed.

(* ------------------------------------------------------------------ *)
(** * 3. NewBatch with OnCreateEntity observers *)

(** Computations that leave the archetype list alone. *)
Definition bv_ap {A} (m : MW A) : Prop := forall s, w_archs (state_of (m s)) = w_archs s.

Lemma bv_ap_ret : forall A (a : A), bv_ap (ret a).
Proof. intros A a s. reflexivity. Qed.
Lemma bv_ap_get : bv_ap (@get W).
Proof. intros s. reflexivity. Qed.
Lemma bv_ap_of_opt : forall A (o : option A) e, bv_ap (@of_opt W A o e).
Proof. intros A o e s. destruct o; reflexivity. Qed.
Lemma bv_ap_bind : forall A B (m : MW A) (k : A -> MW B), bv_ap m -> (forall a, bv_ap (k a)) -> bv_ap (bind m k).
Proof.
  intros A B m k Hm Hk s. unfold bind. specialize (Hm s). destruct (m s) as [a s'|e s']; cbn [state_of] in Hm.
  - rewrite Hk. exact Hm.
  - exact Hm.
Qed.
Lemma bv_ap_modify : forall f : W -> W, (forall s, w_archs (f s) = w_archs s) -> bv_ap (modify f).
Proof. intros f H s. apply H. Qed.
Lemma bv_ap_forM : forall A (l : list A) (f : A -> MW unit), (forall a, bv_ap (f a)) -> bv_ap (forM_ l f).
Proof.
  intros A l f H. induction l as [|a l IH]; [apply bv_ap_ret|]. cbn [forM_]. apply bv_ap_bind; [apply H|intros _; exact IH].
Qed.
Lemma bv_ap_getT : forall i, bv_ap (getT i).
Proof. intros i. unfold getT. apply bv_ap_bind; [apply bv_ap_get|intros; apply bv_ap_of_opt]. Qed.
Lemma bv_ap_modT : forall i f, bv_ap (modT i f).
Proof. intros i f. apply bv_ap_modify. intros s. reflexivity. Qed.

Lemma bv_ap_create_entities : forall tid n, bv_ap (create_entities tid n).
Proof.
  intros tid n. rewrite b_create_entities_eq. apply bv_ap_bind; [apply bv_ap_getT|intros t].
  apply bv_ap_bind; [apply bv_ap_modT|intros _]. apply bv_ap_forM. intros index. unfold b_cbody.
  apply bv_ap_bind.
  - intros s0. unfold pool_getM, bind, get. destruct (pool_get (w_pool s0)) as [e p']. reflexivity.
  - intros e. apply bv_ap_bind; [apply bv_ap_modT|intros _].
    apply bv_ap_bind; [|intros _; apply bv_ap_modify; intros s0; reflexivity].
    unfold set_index. apply bv_ap_modify. intros s0. destruct (Nat.eqb (fst e) (length (w_index s0))); reflexivity.
Qed.

(** The table NewBatch fills is listed by its archetype. *)
Lemma bv_new_entities_listed : forall s n ids tid start s2, St s -> registered s ids ->
  new_entities n ids [] s = Ok (tid, start) s2 -> In tid (v_listed s2).
Proof.
  intros s n ids tid start s2 HSt Hreg H. pose proof (proj1 HSt) as HW.
  destruct (wf_arch0 _ HW) as (a0 & Ha0 & Hm0 & t0 & Ht0 & Hta0).
  assert (Hz : forall j, mk_get 0%N j = true -> j < length (w_reg s)).
  { intros j Hj. rewrite sb1_mk_get_0 in Hj. discriminate. }
  unfold new_entities in H. unfold bind at 1 in H.
  destruct (find_or_create_table_add 0 ids [] 0%N s) as [[[tid' aid] m] s1|er s1] eqn:EF; [|discriminate].
  destruct (bv_foct_add_listed s 0 t0 ids 0%N tid' aid m s1 HSt Ht0 Hz Hreg EF) as (L1 & _).
  unfold bind at 1 in H. destruct (getT tid' s1) as [t s1'|er s1'] eqn:EG; [|discriminate].
  assert (s1' = s1).
  { unfold getT, bind, get in EG. destruct (nth_error (w_tables s1) tid'); cbn in EG; inversion EG; reflexivity. }
  subst s1'. unfold bind at 1 in H. pose proof (bv_ap_create_entities tid' n s1) as A.
  destruct (create_entities tid' n s1) as [[] s1c|er s1c]; [|discriminate]. cbn [state_of] in A.
  unfold register_targets in H. cbn [forM_] in H. unfold bind, ret in H. inversion H; subst.
  unfold v_listed in *. rewrite A. exact L1.
Qed.

(** The batch-callback phase of NewBatch on the freshly filled rows [start, start+n) of table [tid]. *)
Lemma bv_new_batch_cb : forall s3 tid t' start n vals ids fn, St s3 -> nth_error (w_tables s3) tid = Some t' ->
  t_len t' = start + n -> (forall c, In c (t_ids t') <-> In c ids) -> (forall cv, In cv vals -> In (fst cv) ids) ->
  let es := map (row_ent t') (seq start n) in
  (forall e, In e es -> live s3 e = true /\ forall c, val s3 e c = if memb c ids then Some 0%Z else None) ->
  exists s4, whenM fn (forM_ (seq start n) (fun i => batch_callback tid vals i)) s3 = Ok tt s4 /\
    St s4 /\ w_archs s4 = w_archs s3 /\ w_lock s4 = w_lock s3 /\ bv_mgr_same s3 s4 /\ frame_user s3 s4 /\
    w_log s4 = w_log s3 ++ (if fn then map b_entry es else []) /\
    (forall x, live s4 x = live s3 x) /\ (forall x, loc s4 x = loc s3 x) /\
    (forall e, In e es -> forall c, val s4 e c =
        if memb c ids then Some (if fn then bo_wval (kind_of s3) c vals 0%Z else 0%Z) else None) /\
    (forall e, ~ In e es -> forall c, val s4 e c = val s3 e c) /\
    rows_of tid start n s4 = Ok es s4.
Proof.
  intros s3 tid t' start n vals ids fn HSt3 Ht3 Hl' Hids Hvals es Hnew.
  pose proof (proj1 HSt3) as HW3.
  pose proof (sb2_table_ok _ _ _ HW3 Ht3) as Hok'.
  pose proof (tbl_ok_elim _ Hok') as (O1 & O2 & _).
  assert (Hrows : firstn n (skipn start (t_ents t')) = es).
  { unfold es. apply (b_firstn_skipn_seq _ (t_ents t') zero_ent n start). lia. }
  destruct fn; cbn [whenM].
  2:{ exists s3. split; [reflexivity|]. split; [exact HSt3|]. split; [reflexivity|]. split; [reflexivity|].
      split; [apply bv_mgr_same_refl|]. split; [apply sa_frame_user_refl|]. split; [rewrite app_nil_r; reflexivity|].
      split; [reflexivity|]. split; [reflexivity|]. split; [intros e He c; apply (Hnew e He)|]. split; [reflexivity|].
      unfold rows_of. rewrite (bo_bind_ok (sb2_getT _ _ _ Ht3)). unfold ret. rewrite Hrows. reflexivity. }
  destruct (wf_layout _ HW3 tid t' Ht3) as (a' & _ & _ & Kinds & _).
  destruct (bo_cb_loop (kind_of s3) tid vals (seq start n) s3 t' Ht3 Hok') as
    (T' & Hrun2 & HokT & HmetaT & HlenT & HentsT & Hd1 & Hd2).
  { intros r Hr. apply in_seq in Hr. lia. }
  { apply seq_NoDup. }
  { exact Kinds. }
  { intros cv Hcv. apply Hids. apply Hvals. exact Hcv. }
  destruct (bo_setcells s3 tid t' T' HSt3 Ht3 HokT HmetaT HlenT HentsT) as (HSt4' & Hlv & Hvin & Hvout).
  set (s4' := sb2_setT s3 (upd tid T' (w_tables s3))) in *.
  set (L := map (fun r => b_entry (row_ent t' r)) (seq start n)) in *.
  set (s4 := b_logged s4' L).
  assert (SS4 : storage_same s4' s4) by (unfold storage_same; repeat split).
  assert (Ht4 : nth_error (w_tables s4) tid = Some T').
  { change (w_tables s4) with (upd tid T' (w_tables s3)). eapply sb2_nth_error_upd_eq; eauto. }
  assert (Hrowloc : forall i, i < n -> loc s3 (row_ent t' (start + i)) = Some (tid, start + i)).
  { intros i Hi. apply (wf_rows _ HW3 tid t' (start + i) Ht3). lia. }
  exists s4. split; [exact Hrun2|]. split; [exact (storage_same_St s4' s4 SS4 HSt4')|].
  split; [reflexivity|]. split; [reflexivity|]. split; [unfold bv_mgr_same; repeat split|].
  split; [unfold frame_user; repeat split|].
  split; [change (w_log s4) with (w_log s3 ++ L); unfold L, es; rewrite map_map; reflexivity|].
  split; [intros x; exact (Hlv x)|]. split; [reflexivity|].
  split.
  { intros e He c. change (val s4 e c) with (val s4' e c).
    destruct (Hnew e He) as (L2 & V2).
    unfold es in He. apply in_map_iff in He. destruct He as (r & Er & Hr). pose proof Hr as Hr'. apply in_seq in Hr.
    assert (Hloc : loc s3 e = Some (tid, r)).
    { rewrite <- Er. replace r with (start + (r - start)) by lia. apply Hrowloc. lia. }
    rewrite (Hvin e r Hloc L2 c).
    destruct (sb2_live_at _ _ _ _ _ Hloc Ht3) as (_ & Hva).
    specialize (V2 c). unfold val in V2. rewrite L2, Hva in V2.
    destruct (tbl_colidx t' c) as [ci|] eqn:Eci.
    - rewrite (Hd2 c ci r Eci Hr'). destruct (memb c ids); [|discriminate]. inversion V2 as [V2']. rewrite V2'. reflexivity.
    - destruct (memb c ids); [discriminate|reflexivity]. }
  split.
  { intros e He c. change (val s4 e c) with (val s4' e c). unfold val at 2.
    destruct (live s3 e) eqn:Hl2.
    - destruct (sb2_live_elim _ _ Hl2) as (tid0 & r & t0 & L0 & T0 & R0 & E0).
      destruct (Nat.eq_dec tid0 tid) as [->|Hne].
      + rewrite Ht3 in T0. inversion T0; subst t0.
        assert (Hr : ~ In r (seq start n)).
        { intros Hr. apply He. unfold es. apply in_map_iff. exists r. auto. }
        rewrite (Hvin e r L0 Hl2 c). destruct (sb2_live_at _ _ _ _ _ L0 Ht3) as (_ & Hva). rewrite Hva.
        destruct (tbl_colidx t' c) as [ci|]; [|reflexivity]. rewrite Hd1 by exact Hr. reflexivity.
      + rewrite Hvout; [unfold val; rewrite Hl2; reflexivity|]. intros r' Hr'. congruence.
    - unfold val. rewrite (Hlv e), Hl2. reflexivity. }
  unfold rows_of. rewrite (bo_bind_ok (sb2_getT _ _ _ Ht4)). unfold ret. rewrite HentsT, Hrows. reflexivity.
Qed.

(** NewBatch / NewBatchFn (no relations) in an unlocked relation-free world whose OnCreateEntity
    observers are passive: the storage effect is the one of [new_batch_spec]; the log grows by the
    batch-callback entries (if [fn]) followed by the observers' entries [L]; every observer entry
    comes after ALL [n] entities were created and initialised, and reports LOCKED = ALIVE = COUNT = 1
    and the content of its entity in the FINAL state [s'] (the initialised values, [val s'] above).
    The pairs [P] are exactly (observer, new entity) for every new entity and every registered
    OnCreateEntity observer whose filter matches the mapper's mask [mk_of_list ids], each once. *)
Theorem new_batch_view : forall s n ids vals fn,
  St s -> room_n s n -> MInv0 s -> bv_lock_ok (w_lock s) [] -> bv_passive s EvCreateEntity ->
  registered s ids -> NoDup ids -> (forall cv, In cv vals -> In (fst cv) ids) ->
  exists s' es P L,
    w_new_batch n ids [] vals fn s = Ok tt s' /\ St s' /\ is_locked s' = false /\
    length es = n /\ NoDup es /\
    (forall e, In e es -> live s e = false /\ live s' e = true /\ alive s' e = true /\
       forall c, val s' e c = if memb c ids then Some (if fn then bo_cbval s vals c else 0%Z) else None) /\
    (forall e, ~ In e es -> live s' e = live s e /\ forall c, val s' e c = val s e c) /\
    frame_user s s' /\
    w_log s' = w_log s ++ (if fn then map (fun e => [101%Z; Zn (fst e); Z.of_N (snd e)]) es else []) ++ L /\
    Forall2 (bv_reports s') P L /\
    (forall oi e, In (oi, e) P <-> (In e es /\ In oi (fired s EvCreateEntity (p_with (mk_of_list ids))))) /\
    NoDup P.
Proof.
  intros s n ids vals fn HSt Hroom HI HL0 Hpas Hreg Hnd Hvals.
  assert (Hunl : is_locked s = false) by (rewrite (bv_is_locked s [] HL0); reflexivity).
  destruct (bv_lock_take (w_lock s) [] HL0 ltac:(cbn; lia)) as (lb & l' & LL & _ & HL1).
  destruct (has_obs s EvCreateEntity) eqn:Ho.
  2:{ destruct (new_batch_spec s n ids vals fn HSt Hroom Hunl ltac:(intros _; rewrite LL; discriminate) Ho Hreg Hnd Hvals)
        as (s' & es & Hrun & HSt' & Hunl' & Hlen & Hnd' & Hin & Hout & Lg & Fr).
      exists s', es, [], []. repeat (split; [assumption|]).
      split; [rewrite app_nil_r; exact Lg|]. split; [constructor|]. split; [|constructor].
      intros oi e. rewrite (bv_has_obs_false s _ _ HI Ho). split; [intros []|intros (_ & [])]. }
  destruct (bo_new_entities_run s n ids HSt Hroom Hreg Hnd) as
    (tid & start & s2 & es & t' & Hrun & HSt2 & Hside & Hfr & Hlen & Hnd' & Hin & Hout & Ht' & Hl' & Hes & Hids).
  pose proof Hside as (Elock & Elog & Eobs & Eol & Eagg & Eop & Eot & Eom).
  pose proof Hfr as (Ereg2 & _).
  pose proof (proj1 HSt2) as HW2.
  pose proof (tbl_ok_elim _ (sb2_table_ok _ _ _ HW2 Ht')) as (O1 & O2 & _).
  assert (Ho2 : has_obs s2 EvCreateEntity = true).
  { unfold has_obs, get_agg in *. rewrite Eagg. exact Ho. }
  assert (Hes' : es = map (row_ent t') (seq start n)).
  { rewrite <- Hes. apply (b_firstn_skipn_seq _ (t_ents t') zero_ent n start). lia. }
  pose proof (bv_new_entities_listed s n ids tid start s2 HSt Hreg Hrun) as Hlisted.
  unfold w_new_batch.
  rewrite (bo_bind_ok (sb1_check_locked_ok s Hunl)).
  rewrite (bo_bind_ok (m := to_relations (mk_of_list ids) []) (s := s) (a := tt) (s' := s) eq_refl).
  rewrite (bo_bind_ok Hrun). cbv beta iota.
  unfold bind at 1. unfold get at 1. cbv beta iota zeta. rewrite Ho2. cbn [is_nil negb andb orb].
  assert (LL2 : lock_lock (w_lock s2) = Some (lb, l')) by (rewrite Elock; exact LL).
  rewrite (bo_bind_ok (v_lockM_ok s2 lb l' LL2)).
  set (s3 := s2 <| w_lock := l' |>).
  assert (SS3 : storage_same s2 s3) by (unfold storage_same; repeat split).
  pose proof (storage_same_St s2 s3 SS3 HSt2) as HSt3.
  assert (Ht3 : nth_error (w_tables s3) tid = Some t') by exact Ht'.
  assert (Hnew3 : forall e, In e (map (row_ent t') (seq start n)) ->
            live s3 e = true /\ forall c, val s3 e c = if memb c ids then Some 0%Z else None).
  { intros e He. rewrite <- Hes' in He. destruct (Hin e He) as (_ & L2 & _ & V2). split; [exact L2|exact V2]. }
  destruct (bv_new_batch_cb s3 tid t' start n vals ids fn HSt3 Ht3 Hl' Hids Hvals Hnew3) as
    (s4 & Rcb & HSt4 & A4 & Lk4 & MS4 & Fr4 & Lg4 & Hlv4 & Hloc4 & Vin4 & Vout4 & Rows4).
  rewrite <- Hes' in Lg4, Vin4, Vout4, Rows4.
  rewrite (bo_bind_ok Rcb), (bo_bind_ok Rows4). cbn [whenM].
  pose proof MS4 as (N1 & N2 & N3 & N4 & N5 & N6). pose proof Fr4 as (Ereg4 & _).
  assert (MS04 : bv_mgr_same s s4).
  { unfold bv_mgr_same. repeat split; [rewrite N1|rewrite N2|rewrite N3|rewrite N4|rewrite N5|rewrite N6]; assumption. }
  assert (Ereg04 : w_reg s4 = w_reg s) by (rewrite Ereg4; exact Ereg2).
  assert (HI4 : MInv0 s4).
  { pose proof MS04 as (Q1 & Q2 & Q3 & _ & _ & Q6). apply (MInv0_ext s s4 Q1 Q2 Q3 Ereg04); [|exact HI].
    intros e He. rewrite Q6. apply (mi_max _ HI). unfold olist in *. rewrite Q2 in He. exact He. }
  assert (HL4 : bv_lock_ok (w_lock s4) [lb]) by (rewrite Lk4; exact HL1).
  set (m := mk_of_list ids).
  assert (Hlive4 : forall e, In e es -> live s4 e = true).
  { intros e He. rewrite Hlv4. destruct (Hin e He) as (_ & L2 & _). exact L2. }
  destruct (bv_fire_rows_view EvCreateEntity (early_with m) (p_with m) es true s4 s4 [lb] HL4
              (sb3_storage_same_refl s4) (bv_mgr_same_refl s4) HL4 ltac:(cbn; lia) (bv_passive_same s s4 _ MS04 Hpas))
    as (s5 & R5 & (SS5 & MS5 & HL5 & Lg5)).
  { intros e He. apply bv_snap_ok_live. apply Hlive4. exact He. }
  { intros He. apply fired_nil. intros oi o Hoi Hobj. exact (early_with_sound s4 _ _ oi o HI4 He Hoi Hobj). }
  assert (R5' : fire_rows (fun e eo => fire_create_entity e m eo) es true s4 = Ok tt s5) by exact R5.
  rewrite (bo_bind_ok R5').
  rewrite (bo_bind_ok (m := ret tt) (s := s5) eq_refl).
  destruct (bv_lock_give (w_lock s5) [lb] lb HL5 (or_introl eq_refl)) as (lz & LUz & HLz).
  rewrite (bv_remove_head lb [] (fun F => F)) in HLz.
  rewrite (v_unlockM_ok s5 lb lz LUz).
  set (s6 := s5 <| w_lock := lz |>).
  assert (SS46 : storage_same s4 s6).
  { eapply sb3_storage_same_trans; [exact SS5|]. unfold storage_same; repeat split. }
  pose proof (sb3_storage_same_content s4 s6 SS46) as C46.
  set (Fo := fired s EvCreateEntity (p_with m)).
  set (P := flat_map (fun e => map (fun oi => (oi, e)) Fo) es).
  assert (HPin : forall oi e, In (oi, e) P <-> (In e es /\ In oi Fo)).
  { intros oi e. unfold P. rewrite in_flat_map. split.
    - intros (e' & He' & H). apply in_map_iff in H. destruct H as (oi' & E & Hoi). inversion E; subst. auto.
    - intros (He & Hoi). exists e. split; [exact He|]. apply in_map_iff. exists oi. auto. }
  exists s6, es, P, (map (fun p => v_cb_entry (fst p) (snd p) s4) P).
  split; [reflexivity|]. split; [exact (storage_same_St s4 s6 SS46 HSt4)|].
  split; [exact (bv_is_locked s6 [] HLz)|]. split; [exact Hlen|]. split; [exact Hnd'|].
  split.
  { intros e He. destruct (Hin e He) as (L1 & L2 & A2 & V2). split; [exact L1|].
    assert (L6 : live s6 e = true) by (rewrite (proj1 (C46 e)); apply Hlive4; exact He).
    split; [exact L6|]. split; [apply (live_alive s6 e (proj1 (storage_same_St s4 s6 SS46 HSt4)) L6)|].
    intros c. rewrite (proj2 (C46 e)), (Vin4 e He c). unfold bo_cbval.
    rewrite (bo_wval_ext (kind_of s3) (kind_of s)); [reflexivity|]. apply sa_kind_of_ext. exact Ereg2. }
  split.
  { intros e He. destruct (Hout e He) as (L1 & V1). split.
    - rewrite (proj1 (C46 e)), Hlv4. exact L1.
    - intros c. rewrite (proj2 (C46 e)), (Vout4 e He c). exact (V1 c). }
  split.
  { apply (sa_frame_user_trans s s2 s6); [exact Hfr|]. apply (sa_frame_user_trans s2 s3 s6); [unfold frame_user; repeat split|].
    apply (sa_frame_user_trans s3 s4 s6); [exact Fr4|apply bv_frame_same; exact SS46]. }
  split.
  { change (w_log s6) with (w_log s5). rewrite Lg5, Lg4. change (w_log s3) with (w_log s2). rewrite Elog, <- app_assoc.
    f_equal. f_equal. unfold P. rewrite bv_map_flat_map. apply flat_map_ext. intros e. rewrite map_map.
    unfold Fo. rewrite (bv_fired_same s s4 _ _ MS04). reflexivity. }
  split.
  { apply bv_Forall2_map. intros [oi e] Hp. cbn [fst snd]. apply HPin in Hp. destruct Hp as (He & _).
    assert (Hs4 : bv_seen s4 e).
    { split; [apply Hlive4; exact He|]. rewrite Hes' in He. apply in_map_iff in He. destruct He as (r & Er & Hr).
      apply in_seq in Hr. exists tid, r. split.
      - rewrite Hloc4, <- Er. apply (wf_rows _ HW2 tid t' r Ht'). lia.
      - unfold v_listed in *. rewrite A4. exact Hlisted. }
    destruct (bv_entry_seen oi e s4 s4 [lb] HSt4 Hs4 (sb3_storage_same_refl s4) HL4 ltac:(discriminate)) as (snap & Sn & En).
    cbn [fst snd] in Sn, En. exists snap. split; [|rewrite En, (bv_world_view_same s4 s6 SS46); reflexivity]. cbn [snd]. rewrite (bv_snapshot_same s4 s6 e SS46). exact Sn. }
  split; [exact HPin|].
  unfold P. apply bo_NoDup_flat_map; [exact Hnd'| |].
  - intros e _. apply sa_NoDup_map_inj; [|apply bv_fired_NoDup; exact HI]. intros a b _ _ E. inversion E. reflexivity.
  - intros e e' p _ _ H1 H2. apply in_map_iff in H1. apply in_map_iff in H2.
    destruct H1 as (o1 & E1 & _). destruct H2 as (o2 & E2 & _). subst p. inversion E2. reflexivity.
Qed.

(* ------------------------------------------------------------------ *)
(** * Non-vacuity: a reachable world with six passive observers satisfying all hypotheses *)

(** [bo_world] of BatchOps (three entities with components {0,1}, component 1 of the first = 7, one
    entity without components, the filter "with 0") plus the observers
    0: OnRemoveEntity;  1: OnRemoveEntity With(1);  2: OnRemoveComponents For(0);
    3: OnAddComponents For(2);  4: OnCreateEntity;  5: OnCreateEntity With(1), all registered. *)
Definition bv_obs_lines : list (list Z) :=
  [[25; 250; 0; 0; 0; 0; 0]; [25; 250; 0; 1; 1; 0; 0; 0]; [25; 252; 1; 0; 0; 0; 0; 0]; [25; 251; 1; 2; 0; 0; 0; 0];
   [25; 249; 0; 0; 0; 0; 0]; [25; 249; 0; 1; 1; 0; 0; 0]]%Z.
Definition bv_reg_lines : list (list Z) := [[26; 0]; [26; 1]; [26; 2]; [26; 3]; [26; 4]; [26; 5]]%Z.
Definition bv_world_pre : W := exec bo_cfg (bo_core_lines ++ [bo_filter_line] ++ bv_obs_lines).
Definition bv_world : W := exec bo_cfg (bo_core_lines ++ [bo_filter_line] ++ bv_obs_lines ++ bv_reg_lines).

Lemma bv_world_storage : storage_same bo_world bv_world.
Proof. (unfold storage_same; repeat match goal with |- _ /\ _ => split end; vm_compute; reflexivity). Qed.
Lemma bv_world_reach : bv_world = fold_left ostep [ORegister 0; ORegister 1; ORegister 2; ORegister 3; ORegister 4; ORegister 5] bv_world_pre.
Proof. (vm_compute; reflexivity). Qed.
Lemma bv_world_pre_init : obs_init bv_world_pre.
Proof.
  unfold obs_init. do 5 (split; [vm_compute; reflexivity|]).
  intros o Hin. vm_compute in Hin.
  repeat (destruct Hin as [<-|Hin];
    [repeat match goal with |- _ /\ _ => split end; try reflexivity; try (cbn; lia); try (intros H; discriminate H);
     intros c Hc; cbn in Hc; repeat (destruct Hc as [<-|Hc]; [vm_compute; lia|]); destruct Hc|]).
  destruct Hin.
Qed.
Lemma bv_world_St : St bv_world.
Proof. exact (storage_same_St bo_world bv_world bv_world_storage bo_world_St). Qed.
Lemma bv_world_MInv0 : MInv0 bv_world.
Proof. destruct (reach_inv [ORegister 0; ORegister 1; ORegister 2; ORegister 3; ORegister 4; ORegister 5] bv_world_pre (init_inv _ bv_world_pre_init)) as [HI _]. rewrite bv_world_reach. exact HI. Qed.

Definition bv_passive_b (s : W) (evt : nat) : bool :=
  forallb (fun oi => match nth_error (w_obs s) oi with Some o => Nat.eqb (o_cb o) 0 | None => false end) (olist s evt).
Lemma bv_passive_b_ok : forall s evt, bv_passive_b s evt = true -> bv_passive s evt.
Proof.
  intros s evt H oi Hin. unfold bv_passive_b in H. rewrite forallb_forall in H. specialize (H oi Hin).
  destruct (nth_error (w_obs s) oi) as [o|]; [|discriminate]. exists o. split; [reflexivity|]. apply Nat.eqb_eq. exact H.
Qed.
Lemma bv_world_passive : bv_passive bv_world EvRemoveEntity /\ bv_passive bv_world EvRemoveComponents /\
  bv_passive bv_world EvAddComponents /\ bv_passive bv_world EvCreateEntity.
Proof. repeat match goal with |- _ /\ _ => split end; apply bv_passive_b_ok; vm_compute; reflexivity. Qed.
Example batch_view_nonvacuous :
  St bv_world /\ tables_listed bv_world /\ MInv0 bv_world /\ bv_lock_ok (w_lock bv_world) [] /\
  bv_passive bv_world EvRemoveEntity /\ bv_passive bv_world EvRemoveComponents /\
  bv_passive bv_world EvAddComponents /\ bv_passive bv_world EvCreateEntity /\
  get_batch_tables 0 [] bv_world = Ok [1] bv_world /\ NoDup [1] /\
  ([2] <> [] \/ [0] <> []) /\ registered bv_world [2] /\ (forall cv, In cv [(2, 5%Z)] -> In (fst cv) [2]) /\
  room_n bv_world 2 /\ registered bv_world [0; 1] /\ NoDup [0; 1] /\ (forall cv, In cv [(1, 9%Z)] -> In (fst cv) [0; 1]) /\
  v_targets_zero bv_world.
Proof.
  assert (Elock : w_lock bv_world = lock_new) by (vm_compute; reflexivity).
  assert (Epool : length (pe (w_pool bv_world)) = 6) by (vm_compute; reflexivity).
  assert (Ereg : length (w_reg bv_world) = 3) by (vm_compute; reflexivity).
  split; [exact bv_world_St|]. split; [apply bo_listed_b_ok; vm_compute; reflexivity|].
  split; [exact bv_world_MInv0|]. split; [rewrite Elock; exact bv_lock_new|].
  split; [apply bv_world_passive|]. split; [apply bv_world_passive|]. split; [apply bv_world_passive|].
  split; [apply bv_world_passive|]. split; [vm_compute; reflexivity|]. split; [repeat constructor; intros []|].
  split; [left; discriminate|]. split; [intros c [<-|[]]; rewrite Ereg; lia|].
  split; [intros cv [<-|[]]; left; reflexivity|].
  split; [unfold room_n; rewrite Epool; pose proof bo_pow31; lia|].
  split; [intros c [<-|[<-|[]]]; rewrite Ereg; lia|]. split; [repeat constructor; [intros [H|[]]; discriminate|intros []]|].
  split; [intros cv [<-|[]]; right; left; reflexivity|].
  intros tid t Ht. assert (Hlt : tid < 2).
  { apply sa_nth_error_lt in Ht. assert (El : length (w_tables bv_world) = 2) by (vm_compute; reflexivity). rewrite El in Ht. exact Ht. }
  destruct tid as [|[|tid]]; [| |lia]; vm_compute in Ht; inversion Ht; subst t; cbn; repeat constructor.
Qed.

(** RemoveEntities with a batch callback and observers 0 (no filter) and 1 (With(1)): first the three
    batch-callback entries, then for each entity the two observers' entries: locked 1, alive 1,
    count 1, and the PRE-state content {0: 0, 1: 7 or 0}; the world is unlocked afterwards. *)
Example remove_entities_view_example :
  match w_remove_entities 0 [] true bv_world with
  | Ok _ s' => (w_log s', is_locked s', map (alive s') [(2, 0%N); (3, 0%N); (4, 0%N); (5, 0%N)])
  | Err _ _ => ([], true, [])
  end =
  (* every entry ends with the full view of the PRE-state: entity 5 (no components), 2, 3, 4 *)
  let wv := [5; 0; 0;  2; 0; 2; 0; 0; 0; 0; 1; 7; 0; 0;  3; 0; 2; 0; 0; 0; 0; 1; 0; 0; 0;  4; 0; 2; 0; 0; 0; 0; 1; 0; 0; 0]%Z in
  ([[101; 2; 0]; [101; 3; 0]; [101; 4; 0]]%Z ++ map (fun en => en ++ wv)
   [[100; 0; 2; 0; 1; 1; 1; 2; 0; 0; 0; 0; 1; 7; 0; 0];
    [100; 1; 2; 0; 1; 1; 1; 2; 0; 0; 0; 0; 1; 7; 0; 0];
    [100; 0; 3; 0; 1; 1; 1; 2; 0; 0; 0; 0; 1; 0; 0; 0];
    [100; 1; 3; 0; 1; 1; 1; 2; 0; 0; 0; 0; 1; 0; 0; 0];
    [100; 0; 4; 0; 1; 1; 1; 2; 0; 0; 0; 0; 1; 0; 0; 0];
    [100; 1; 4; 0; 1; 1; 1; 2; 0; 0; 0; 0; 1; 0; 0; 0]]%Z, false, [false; false; false; true]).
Proof. vm_compute. reflexivity. Qed.

(** ExchangeBatch (remove 0, add 2, the callback stores 5 into component 2) with observer 2
    (OnRemoveComponents For(0)) and observer 3 (OnAddComponents For(2)): the removal entries (content
    {0, 1}) precede the batch-callback entries; the add entries (content {1, 2: 5}) follow them. *)
Example exchange_batch_view_example :
  match w_exchange_batch 0 [] [2] [0] [] [(2, 5%Z)] bv_world with
  | Ok _ s' => (w_log s', is_locked s')
  | Err _ _ => ([], true)
  end =
  (* removal entries end with the view of the PRE-state (nobody moved yet), add entries with the view of the
     FINAL state (everybody moved, component 2 = 5 everywhere) *)
  let wv0 := [5; 0; 0;  2; 0; 2; 0; 0; 0; 0; 1; 7; 0; 0;  3; 0; 2; 0; 0; 0; 0; 1; 0; 0; 0;  4; 0; 2; 0; 0; 0; 0; 1; 0; 0; 0]%Z in
  let wv1 := [5; 0; 0;  2; 0; 2; 1; 7; 0; 0; 2; 5; 0; 0;  3; 0; 2; 1; 0; 0; 0; 2; 5; 0; 0;  4; 0; 2; 1; 0; 0; 0; 2; 5; 0; 0]%Z in
  (map (fun en => en ++ wv0)
   [[100; 2; 2; 0; 1; 1; 1; 2; 0; 0; 0; 0; 1; 7; 0; 0];
    [100; 2; 3; 0; 1; 1; 1; 2; 0; 0; 0; 0; 1; 0; 0; 0];
    [100; 2; 4; 0; 1; 1; 1; 2; 0; 0; 0; 0; 1; 0; 0; 0]]%Z ++
   [[101; 2; 0]; [101; 3; 0]; [101; 4; 0]]%Z ++ map (fun en => en ++ wv1)
   [[100; 3; 2; 0; 1; 1; 1; 2; 1; 7; 0; 0; 2; 5; 0; 0];
    [100; 3; 3; 0; 1; 1; 1; 2; 1; 0; 0; 0; 2; 5; 0; 0];
    [100; 3; 4; 0; 1; 1; 1; 2; 1; 0; 0; 0; 2; 5; 0; 0]]%Z, false).
Proof. vm_compute. reflexivity. Qed.

(** NewBatchFn of two entities with components {0, 1}, the callback storing 9 into component 1, with
    observers 4 (OnCreateEntity) and 5 (OnCreateEntity With(1)): the entries follow both batch-callback
    entries and show the initialised value 9. *)
Example new_batch_view_example :
  match w_new_batch 2 [0; 1] [] [(1, 9%Z)] true bv_world with
  | Ok _ s' => (w_log s', is_locked s')
  | Err _ _ => ([], true)
  end =
  (* every entry ends with the view of the FINAL state: both new entities 6 and 7 are there, initialised *)
  let wv := [5; 0; 0;  2; 0; 2; 0; 0; 0; 0; 1; 7; 0; 0;  3; 0; 2; 0; 0; 0; 0; 1; 0; 0; 0;  4; 0; 2; 0; 0; 0; 0; 1; 0; 0; 0;
             6; 0; 2; 0; 0; 0; 0; 1; 9; 0; 0;  7; 0; 2; 0; 0; 0; 0; 1; 9; 0; 0]%Z in
  ([[101; 6; 0]; [101; 7; 0]]%Z ++ map (fun en => en ++ wv)
   [[100; 4; 6; 0; 1; 1; 1; 2; 0; 0; 0; 0; 1; 9; 0; 0];
    [100; 5; 6; 0; 1; 1; 1; 2; 0; 0; 0; 0; 1; 9; 0; 0];
    [100; 4; 7; 0; 1; 1; 1; 2; 0; 0; 0; 0; 1; 9; 0; 0];
    [100; 5; 7; 0; 1; 1; 1; 2; 0; 0; 0; 0; 1; 9; 0; 0]]%Z, false).
Proof. vm_compute. reflexivity. Qed.

(** The hypotheses fit: the three theorems instantiated at [bv_world]. *)
Definition bv_world_remove_entities :=
  remove_entities_view bv_world 0 [1] true
    (proj1 batch_view_nonvacuous) (proj1 (proj2 batch_view_nonvacuous)) bv_world_MInv0
    (proj1 (proj2 (proj2 (proj2 batch_view_nonvacuous)))) (proj1 bv_world_passive)
    (proj1 (proj2 (proj2 (proj2 (proj2 (proj2 (proj2 (proj2 (proj2 batch_view_nonvacuous))))))))).

(* ------------------------------------------------------------------ *)
(** * Why the observers have to be passive for the exactness clauses

    (refuted) [remove_entities_view] without the hypothesis [bv_passive s EvRemoveEntity]:
    an observer whose callback unregisters itself ([o_cb = 1]) is called for the first entity only,
    so "every selected entity is reported to every matching observer registered in [s]" fails.
    Counterexample: [bv_world_act] = [bo_world] plus one such OnRemoveEntity observer; RemoveEntities
    logs ONE entry although three entities match ([remove_entities_active_example]). What stays true
    for arbitrary callbacks is proved in the next section ([*_view_partial]). *)
Definition bv_world_act_pre : W := exec bo_cfg (bo_core_lines ++ [bo_filter_line] ++ [[25; 250; 0; 0; 0; 0; 1]]%Z).
Definition bv_world_act : W := exec bo_cfg (bo_core_lines ++ [bo_filter_line] ++ [[25; 250; 0; 0; 0; 0; 1]; [26; 0]]%Z).

Lemma bv_world_act_St : St bv_world_act.
Proof.
  apply (storage_same_St bo_world bv_world_act); [|exact bo_world_St].
  unfold storage_same; repeat match goal with |- _ /\ _ => split end; vm_compute; reflexivity.
Qed.

Lemma bv_world_act_MInv0 : MInv0 bv_world_act.
Proof.
  assert (I : obs_init bv_world_act_pre).
  { unfold obs_init. do 5 (split; [vm_compute; reflexivity|]). intros o Hin. vm_compute in Hin.
    destruct Hin as [<-|[]]. repeat match goal with |- _ /\ _ => split end.
    all: try reflexivity.
    - cbn [o_event]; lia.
    - intros c Hc; cbn in Hc; destruct Hc.
    - intros H; cbn in H; discriminate H. }
  destruct (reach_inv [ORegister 0] bv_world_act_pre (init_inv _ I)) as [HI _].
  assert (E : bv_world_act = fold_left ostep [ORegister 0] bv_world_act_pre) by (vm_compute; reflexivity).
  rewrite E. exact HI.
Qed.

Lemma bv_Forall2_length : forall A B (R : A -> B -> Prop) l l', Forall2 R l l' -> length l = length l'.
Proof. intros A B R l l' H. induction H as [|a b l l' _ _ IH]; [reflexivity|]. cbn [length]. rewrite IH. reflexivity. Qed.

Lemma remove_entities_view_active_refuted :
  ~ (forall s fi tabs fn, St s -> tables_listed s -> MInv0 s -> bv_lock_ok (w_lock s) [] ->
       get_batch_tables fi [] s = Ok tabs s ->
       exists s' es P L, w_remove_entities fi [] fn s = Ok tt s' /\
         w_log s' = w_log s ++ (if fn then map (fun e => [101%Z; Zn (fst e); Z.of_N (snd e)]) es else []) ++ L /\
         Forall2 (bv_reports s) P L /\
         (forall oi e, In (oi, e) P <->
            (live s e = true /\ bo_in_tabs s tabs e /\ In oi (fired s EvRemoveEntity (p_with (bv_emask s e)))))).
Proof.
  intros H.
  assert (Elock : w_lock bv_world_act = lock_new) by (vm_compute; reflexivity).
  destruct (H bv_world_act 0 [1] false bv_world_act_St) as (s' & es & P & L & Hrun & Lg & F2 & HP).
  { apply bo_listed_b_ok. vm_compute. reflexivity. }
  { exact bv_world_act_MInv0. }
  { rewrite Elock. exact bv_lock_new. }
  { vm_compute. reflexivity. }
  assert (C : match w_remove_entities 0 [] false bv_world_act with Ok _ s1 => length (w_log s1) | Err _ _ => 0 end = 1)
    by (vm_compute; reflexivity).
  rewrite Hrun in C.
  assert (E0 : w_log bv_world_act = []) by (vm_compute; reflexivity).
  rewrite Lg, E0 in C. cbn [app] in C.
  pose proof (bv_Forall2_length _ _ _ _ _ F2) as LP. rewrite C in LP.
  assert (In2 : forall r g, live bv_world_act (g, 0%N) = true -> loc bv_world_act (g, 0%N) = Some (1, r) ->
            fired bv_world_act EvRemoveEntity (p_with (bv_emask bv_world_act (g, 0%N))) = [0] -> In (0, (g, 0%N)) P).
  { intros r g Hl Hloc Hf. apply HP. split; [exact Hl|]. split; [exists 1, r; split; [left; reflexivity|exact Hloc]|].
    rewrite Hf. left. reflexivity. }
  pose proof (In2 0 2 ltac:(vm_compute; reflexivity) ltac:(vm_compute; reflexivity) ltac:(vm_compute; reflexivity)) as A.
  pose proof (In2 1 3 ltac:(vm_compute; reflexivity) ltac:(vm_compute; reflexivity) ltac:(vm_compute; reflexivity)) as B.
  destruct P as [|p [|q P]]; try discriminate LP.
  destruct A as [A|[]]. destruct B as [B|[]]. rewrite A in B. discriminate B.
Qed.

Example remove_entities_active_example :
  match w_remove_entities 0 [] false bv_world_act with
  | Ok _ s' => (w_log s', is_locked s')
  | Err _ _ => ([], true)
  end = ([[100; 0; 2; 0; 1; 1; 1; 2; 0; 0; 0; 0; 1; 7; 0; 0] ++
          (* the view of the pre-state *)
          [5; 0; 0;  2; 0; 2; 0; 0; 0; 0; 1; 7; 0; 0;  3; 0; 2; 0; 0; 0; 0; 1; 0; 0; 0;  4; 0; 2; 0; 0; 0; 0; 1; 0; 0; 0]]%Z, false).
Proof. vm_compute. reflexivity. Qed.

(* ------------------------------------------------------------------ *)
(** * Arbitrary callbacks (observers that unregister observers while the operation runs)

    Without passivity the exactness clauses fail ([remove_entities_view_active_refuted] above); what
    every logged entry reports stays true. Proved here for all three operations, for every run that
    returns normally ([remove_entities_view_partial], [exchange_batch_view_partial],
    [new_batch_view_partial]); no hypothesis on the observer manager. *)

(** Computations that leave the lock alone. *)
Definition bv_lkp {A} (m : MW A) : Prop := forall s, w_lock (state_of (m s)) = w_lock s.

Lemma bv_lkp_ret : forall A (a : A), bv_lkp (ret a).
Proof. intros A a s. reflexivity. Qed.
Lemma bv_lkp_fail : forall A e, bv_lkp (@fail W A e).
Proof. intros A e s. reflexivity. Qed.
Lemma bv_lkp_get : bv_lkp (@get W).
Proof. intros s. reflexivity. Qed.
Lemma bv_lkp_guard : forall b e, bv_lkp (@guard W b e).
Proof. intros b e s. destruct b; reflexivity. Qed.
Lemma bv_lkp_of_opt : forall A (o : option A) e, bv_lkp (@of_opt W A o e).
Proof. intros A o e s. destruct o; reflexivity. Qed.
Lemma bv_lkp_bind : forall A B (m : MW A) (k : A -> MW B), bv_lkp m -> (forall a, bv_lkp (k a)) -> bv_lkp (bind m k).
Proof.
  intros A B m k Hm Hk s. unfold bind. specialize (Hm s). destruct (m s) as [a s'|e s']; cbn [state_of] in Hm.
  - rewrite Hk. exact Hm.
  - exact Hm.
Qed.
Lemma bv_lkp_modify : forall f : W -> W, (forall s, w_lock (f s) = w_lock s) -> bv_lkp (modify f).
Proof. intros f H s. apply H. Qed.
Lemma bv_lkp_whenM : forall b m, bv_lkp m -> bv_lkp (whenM b m).
Proof. intros b m H. destruct b; [exact H|apply bv_lkp_ret]. Qed.
Lemma bv_lkp_getO : forall oi, bv_lkp (getO oi).
Proof. intros oi. unfold getO. apply bv_lkp_bind; [apply bv_lkp_get|intros; apply bv_lkp_of_opt]. Qed.
Lemma bv_lkp_modO : forall oi f, bv_lkp (modO oi f).
Proof. intros oi f. apply bv_lkp_modify. intros s. reflexivity. Qed.
Lemma bv_lkp_mod_agg : forall evt f, bv_lkp (mod_agg evt f).
Proof. intros evt f. apply bv_lkp_modify. intros s. reflexivity. Qed.

Ltac bv_lkp_step :=
  lazymatch goal with
  | |- bv_lkp (ret _) => apply bv_lkp_ret
  | |- bv_lkp (fail _) => apply bv_lkp_fail
  | |- bv_lkp get => apply bv_lkp_get
  | |- bv_lkp (guard _ _) => apply bv_lkp_guard
  | |- bv_lkp (of_opt _ _) => apply bv_lkp_of_opt
  | |- bv_lkp (getO _) => apply bv_lkp_getO
  | |- bv_lkp (modO _ _) => apply bv_lkp_modO
  | |- bv_lkp (mod_agg _ _) => apply bv_lkp_mod_agg
  | |- bv_lkp (modify _) => apply bv_lkp_modify; intros ?; reflexivity
  | |- bv_lkp (whenM _ _) => apply bv_lkp_whenM
  | |- bv_lkp (bind _ _) => apply bv_lkp_bind; [|intros ?]
  | |- bv_lkp (match ?x with _ => _ end) => destruct x
  end.
Ltac bv_lkp_tac := repeat bv_lkp_step.

Lemma bv_lkp_remove_observer : forall oi, bv_lkp (remove_observer oi).
Proof. intros oi. unfold remove_observer. bv_lkp_tac. Qed.

Lemma bv_lkp_cb_action : forall oi, bv_lkp (v_cb_action oi).
Proof. intros oi. unfold v_cb_action. bv_lkp_tac; apply bv_lkp_remove_observer. Qed.

Lemma bv_lock_take_inv : forall l held b l', bv_lock_ok l held -> lock_lock l = Some (b, l') ->
  ~ In b held /\ bv_lock_ok l' (b :: held).
Proof.
  intros [[ipl nx av] m] held b l' H E. unfold bv_lock_ok in H. cbn [ip lk_pool inext iavail lk_mask] in H.
  pose proof (LockProofs.lock_lock_spec _ _ _ _ _ H) as S. rewrite E in S. destruct S as (S1 & _ & _ & S4). auto.
Qed.

(** Any callback that returns: storage untouched, the lock bit given back, exactly one entry. *)
Lemma bv_run_callback_gen : forall oi e s u s' held, bv_lock_ok (w_lock s) held ->
  run_callback oi e s = Ok u s' ->
  storage_same s s' /\ bv_lock_ok (w_lock s') held /\ w_log s' = w_log s ++ [v_cb_entry oi e s].
Proof.
  intros oi e s u s' held HL H.
  split; [pose proof (run_callback_storage oi e s) as SS; rewrite H in SS; exact SS|].
  split; [|exact (run_callback_log_entry oi e s u s' H)].
  unfold run_callback in H. unfold bind at 1 in H. unfold get at 1 in H.
  destruct (lock_lock (w_lock s)) as [[b l']|] eqn:LL.
  2:{ rewrite (sa_bind_err (v_lockM_err s LL)) in H. discriminate. }
  rewrite (sa_bind_ok (v_lockM_ok s b l' LL)) in H.
  unfold bind at 1 in H. unfold get at 1 in H.
  destruct (lock_unlock (w_lock (s <| w_lock := l' |>)) b) as [l''|] eqn:LU.
  2:{ rewrite (sa_bind_err (v_unlockM_err (s <| w_lock := l' |>) b LU)) in H. discriminate. }
  rewrite (sa_bind_ok (v_unlockM_ok (s <| w_lock := l' |>) b l'' LU)) in H.
  destruct (bv_lock_take_inv (w_lock s) held b l' HL LL) as (Hn & HL').
  destruct (bv_lock_give l' (b :: held) b HL' (or_introl eq_refl)) as (l2 & LU2 & HL2).
  rewrite (bv_remove_head b held Hn) in HL2.
  assert (l2 = l'') by (change (lock_unlock l' b = Some l'') in LU; congruence). subst l2.
  set (s2 := s <| w_lock := l' |> <| w_lock := l'' |>) in *.
  assert (T : forall (m : MW unit), bv_lkp m -> m s2 = Ok u s' -> bv_lock_ok (w_lock s') held).
  { intros m Hm Hr. pose proof (Hm s2) as P. rewrite Hr in P. cbn [state_of] in P. rewrite P. exact HL2. }
  eapply T; [|exact H]. apply bv_lkp_bind.
  - destruct (alive s e); [apply bv_lkp_of_opt|apply bv_lkp_ret].
  - intros snap. apply bv_lkp_bind; [unfold log; apply bv_lkp_modify; intros ?; reflexivity|intros _].
    exact (bv_lkp_cb_action oi).
Qed.

Lemma bv_getO_ro : forall oi s o s0, getO oi s = Ok o s0 -> s0 = s.
Proof.
  intros oi s o s0 H. unfold getO, bind, get, of_opt in H. destruct (nth_error (w_obs s) oi); cbn in H; inversion H; reflexivity.
Qed.

(** [bv_gev held s s' Q]: storage untouched, [held] held again, the log extended by entries all
    satisfying [Q] (the observer manager may have changed). *)
Definition bv_gev (held : list nat) (s s' : W) (Q : list Z -> Prop) : Prop :=
  storage_same s s' /\ bv_lock_ok (w_lock s') held /\ exists L, w_log s' = w_log s ++ L /\ Forall Q L.

Lemma bv_gev_refl : forall held s Q, bv_lock_ok (w_lock s) held -> bv_gev held s s Q.
Proof.
  intros held s Q H. split; [apply sb3_storage_same_refl|]. split; [exact H|]. exists []. split; [rewrite app_nil_r; reflexivity|constructor].
Qed.

Lemma bv_gev_trans : forall held a b c (Q1 Q2 Q : list Z -> Prop), (forall en, Q1 en -> Q en) -> (forall en, Q2 en -> Q en) ->
  bv_gev held a b Q1 -> bv_gev held b c Q2 -> bv_gev held a c Q.
Proof.
  intros held a b c Q1 Q2 Q H1 H2 (A1 & A2 & L1 & A3 & A4) (B1 & B2 & L2 & B3 & B4).
  split; [eapply sb3_storage_same_trans; eauto|]. split; [exact B2|]. exists (L1 ++ L2).
  split; [rewrite B3, A3, app_assoc; reflexivity|]. apply Forall_app. split; [eapply Forall_impl; [exact H1|exact A4]|eapply Forall_impl; [exact H2|exact B4]].
Qed.

Lemma bv_entry_view : forall oi e V s held, storage_same V s -> bv_lock_ok (w_lock V) held -> bv_lock_ok (w_lock s) held ->
  v_cb_entry oi e s = v_cb_entry oi e V.
Proof.
  intros oi e V s held SS HV HS. apply bv_entry_ext; [exact SS|].
  rewrite (bv_is_locked V held HV), (bv_is_locked s held HS). reflexivity.
Qed.

Lemma bv_fire_loop_gen : forall pred e l s found r s' held, bv_lock_ok (w_lock s) held ->
  fire_loop run_callback pred e l found s = Ok r s' ->
  bv_gev held s s' (fun en => exists oi, en = v_cb_entry oi e s).
Proof.
  intros pred e l. induction l as [|a l IH]; intros s found r s' held HL H.
  - cbn [fire_loop] in H. unfold ret in H. inversion H; subst. apply bv_gev_refl. exact HL.
  - cbn [fire_loop] in H. destruct (getO a s) as [o s0|er s0] eqn:G; [|rewrite (sa_bind_err G) in H; discriminate].
    pose proof (bv_getO_ro a s o s0 G). subst s0. rewrite (sa_bind_ok G) in H.
    destruct (pred o).
    + destruct (run_callback a e s) as [u s1|er s1] eqn:R; [|rewrite (sa_bind_err R) in H; discriminate].
      rewrite (sa_bind_ok R) in H.
      destruct (bv_run_callback_gen a e s u s1 held HL R) as (SS1 & HL1 & LG1).
      pose proof (IH s1 true r s' held HL1 H) as G2.
      apply (bv_gev_trans held s s1 s' (fun en => exists oi, en = v_cb_entry oi e s) (fun en => exists oi, en = v_cb_entry oi e s1));
        [auto| |split; [exact SS1|split; [exact HL1|exists [v_cb_entry a e s]; split; [exact LG1|repeat constructor; eauto]]]|exact G2].
      intros en (oi & ->). exists oi. exact (bv_entry_view oi e s s1 held SS1 HL HL1).
    + exact (IH s found r s' held HL H).
Qed.

Lemma bv_fire_gen : forall evt early pred e eo s r s' held, bv_lock_ok (w_lock s) held ->
  fire evt early pred e eo s = Ok r s' -> bv_gev held s s' (fun en => exists oi, en = v_cb_entry oi e s).
Proof.
  intros evt early pred e eo s r s' held HL H. unfold fire, fire_with in H. unfold bind at 1 in H. unfold get at 1 in H.
  cbv beta iota in H. destruct (eo && early (get_agg s evt))%bool.
  - unfold ret in H. inversion H; subst. apply bv_gev_refl. exact HL.
  - exact (bv_fire_loop_gen pred e _ s false r s' held HL H).
Qed.

Lemma bv_fire_rows_gen : forall evt early pred es eo V s s' held, bv_lock_ok (w_lock V) held -> storage_same V s ->
  bv_lock_ok (w_lock s) held ->
  fire_rows (fun e eo => fire evt early pred e eo) es eo s = Ok tt s' ->
  bv_gev held s s' (fun en => exists oi e, In e es /\ en = v_cb_entry oi e V).
Proof.
  intros evt early pred es. induction es as [|e es IH]; intros eo V s s' held HV SS HL H.
  - cbn [fire_rows] in H. unfold ret in H. inversion H; subst. apply bv_gev_refl. exact HL.
  - cbn [fire_rows] in H. destruct (fire evt early pred e eo s) as [found s1|er s1] eqn:R; [|rewrite (sa_bind_err R) in H; discriminate].
    rewrite (sa_bind_ok R) in H. pose proof (bv_fire_gen evt early pred e eo s found s1 held HL R) as G1.
    pose proof G1 as (SS1 & HL1 & _).
    assert (Q1 : forall en, (exists oi, en = v_cb_entry oi e s) -> exists oi e0, In e0 (e :: es) /\ en = v_cb_entry oi e0 V).
    { intros en (oi & ->). exists oi, e. split; [left; reflexivity|]. exact (bv_entry_view oi e V s held SS HV HL). }
    destruct found.
    + assert (SSV1 : storage_same V s1) by (eapply sb3_storage_same_trans; eauto).
      pose proof (IH false V s1 s' held HV SSV1 HL1 H) as G2.
      eapply (bv_gev_trans held s s1 s'); [exact Q1| |exact G1|exact G2]. cbv beta.
      intros en (oi & e0 & Hin & ->). exists oi, e0. split; [right; exact Hin|reflexivity].
    + unfold ret in H. inversion H; subst.
      destruct G1 as (A1 & A2 & L & A3 & A4). split; [exact A1|]. split; [exact A2|]. exists L. split; [exact A3|].
      eapply Forall_impl; [exact Q1|exact A4].
Qed.

Lemma bv_forM_gen : forall A (f : A -> MW unit) (Q : A -> list Z -> Prop) held l V s s',
  storage_same V s -> bv_lock_ok (w_lock s) held ->
  (forall x s1 s2, In x l -> storage_same V s1 -> bv_lock_ok (w_lock s1) held -> f x s1 = Ok tt s2 -> bv_gev held s1 s2 (Q x)) ->
  forM_ l f s = Ok tt s' -> bv_gev held s s' (fun en => exists x, In x l /\ Q x en).
Proof.
  intros A f Q held l V. induction l as [|x l IH]; intros s s' SS HL Hf H.
  - cbn [forM_] in H. unfold ret in H. inversion H; subst. apply bv_gev_refl. exact HL.
  - cbn [forM_] in H. destruct (f x s) as [[] s1|er s1] eqn:R; [|rewrite (sa_bind_err R) in H; discriminate].
    rewrite (sa_bind_ok R) in H. pose proof (Hf x s s1 (or_introl eq_refl) SS HL R) as G1. pose proof G1 as (SS1 & HL1 & _).
    assert (G2 : bv_gev held s1 s' (fun en => exists y, In y l /\ Q y en)).
    { apply IH; [eapply sb3_storage_same_trans; eauto|exact HL1| |exact H]. intros y a b Hy. apply Hf. right. exact Hy. }
    apply (bv_gev_trans held s s1 s' (Q x) (fun en => exists y, In y l /\ Q y en)); [| |exact G1|exact G2].
    + intros en Hq. exists x. split; [left; reflexivity|exact Hq].
    + intros en (y & Hy & Hq). exists y. split; [right; exact Hy|exact Hq].
Qed.

Lemma bv_rm_ev_e_gen : forall V tabs s s' held, St V -> bv_lock_ok (w_lock V) held ->
  (forall tid, In tid tabs -> exists t, nth_error (w_tables V) tid = Some t) ->
  storage_same V s -> bv_lock_ok (w_lock s) held -> bo_rm_ev_e tabs s = Ok tt s' ->
  bv_gev held s s' (fun en => exists tid, In tid tabs /\ exists oi e, In e (bo_rows_of V tid) /\ en = v_cb_entry oi e V).
Proof.
  intros V tabs s s' held HSt HV Hval SS HL H. unfold bo_rm_ev_e in H.
  eapply (bv_forM_gen _ _ (fun tid en => exists oi e, In e (bo_rows_of V tid) /\ en = v_cb_entry oi e V) held tabs V s s' SS HL); [|exact H].
  cbv beta.
  intros tid s1 s2 Hin SS1 HL1 R. destruct (Hval tid Hin) as (t & Ht).
  pose proof (storage_same_St V s1 SS1 HSt) as HSt1.
  assert (Ht1 : nth_error (w_tables s1) tid = Some t).
  { destruct SS1 as (_ & _ & _ & _ & _ & _ & E7 & _). rewrite E7. exact Ht. }
  rewrite (sa_bind_ok (bv_tmask_ok s1 tid t (proj1 HSt1) Ht1)) in R.
  rewrite (sa_bind_ok (sb2_getT _ _ _ Ht1)) in R.
  assert (ER : bo_rows_of V tid = firstn (t_len t) (t_ents t)) by (unfold bo_rows_of; rewrite Ht; reflexivity).
  rewrite ER.
  exact (bv_fire_rows_gen EvRemoveEntity (early_with (bv_tmask s1 tid)) (p_with (bv_tmask s1 tid)) _ true V s1 s2 held HV SS1 HL1 R).
Qed.

(** RemoveEntities with arbitrary OnRemoveEntity callbacks: if the call returns normally, the storage
    effect is the one of [remove_entities_spec], the world is unlocked, the batch-callback entries
    precede the observers' entries [L], and EVERY entry of [L] is the report of some observer about a
    live entity of a selected table with LOCKED = ALIVE = COUNT = 1 and the content of the PRE-state. *)
Theorem remove_entities_view_partial : forall s fi tabs fn s',
  St s -> tables_listed s -> bv_lock_ok (w_lock s) [] ->
  get_batch_tables fi [] s = Ok tabs s ->
  w_remove_entities fi [] fn s = Ok tt s' ->
  St s' /\ is_locked s' = false /\
  (forall e, live s e = true -> bo_in_tabs s tabs e ->
     live s' e = false /\ alive s' e = false /\ forall c, val s' e c = None) /\
  (forall e, ~ (live s e = true /\ bo_in_tabs s tabs e) -> live s' e = live s e /\ forall c, val s' e c = val s e c) /\
  frame_user s s' /\ length (pe (w_pool s')) = length (pe (w_pool s)) /\
  exists es L,
    w_log s' = w_log s ++ (if fn then map (fun e => [101%Z; Zn (fst e); Z.of_N (snd e)]) es else []) ++ L /\
    (forall e, In e es <-> (live s e = true /\ bo_in_tabs s tabs e)) /\ (NoDup tabs -> NoDup es) /\
    Forall (fun en => exists oi e, live s e = true /\ bo_in_tabs s tabs e /\ bv_reports s (oi, e) en) L.
Proof.
  intros s fi tabs fn s' HSt TL HL0 Hgbt H. pose proof (proj1 HSt) as HW.
  assert (Hunl : is_locked s = false) by (rewrite (bv_is_locked s [] HL0); reflexivity).
  pose proof (bo_gbt_valid s fi tabs HSt Hgbt) as Hval.
  destruct (has_obs s EvRemoveEntity || has_obs s EvRemoveRelations || fn)%bool eqn:Esl.
  2:{ apply orb_false_iff in Esl. destruct Esl as (Esl & ->). apply orb_false_iff in Esl. destruct Esl as (Hoe & Hor).
      destruct (remove_entities_spec s fi tabs false HSt Hunl ltac:(discriminate) Hoe Hor Hgbt) as
        (s'' & Hrun & HSt' & Hunl' & Hrm & Hot & (es & Lg & Ines & NDes) & Fr & Pl).
      rewrite Hrun in H. inversion H; subst s''. repeat (split; [assumption|]).
      exists es, []. split; [exact Lg|]. split; [exact Ines|]. split; [exact NDes|constructor]. }
  destruct (bv_lock_take (w_lock s) [] HL0 ltac:(cbn; lia)) as (lb & l' & LL & _ & HL1).
  set (s1 := s <| w_lock := l' |>).
  assert (SS1 : storage_same s s1) by (unfold storage_same; repeat split).
  set (es := flat_map (bo_rows_of s) tabs).
  destruct (bo_all_rows s tabs HW) as (Hes & Hesnd). fold es in Hes, Hesnd.
  rewrite bo_remove_entities_eq in H.
  rewrite (bo_bind_ok (sb1_check_locked_ok s Hunl)) in H.
  unfold bind at 1 in H. unfold get at 1 in H. cbv beta iota zeta in H. rewrite Esl in H.
  rewrite (bo_bind_ok (v_lockM_ok s lb l' LL)) in H. fold s1 in H.
  rewrite (bo_bind_ok (bo_gbt_frame fi [] s s1 tabs SS1 Hgbt)) in H.
  assert (Hcb : exists sB, whenM fn (bo_rm_cb tabs) s1 = Ok tt sB /\ storage_same s sB /\
            w_lock sB = l' /\ w_log sB = w_log s ++ (if fn then map b_entry es else [])).
  { destruct fn; cbn [whenM].
    - exists (b_logged s1 (map b_entry es)). split.
      { apply (bo_rm_cb_run tabs s1). intros tid Hin. destruct (Hval tid Hin) as (t & Ht). exists t.
        split; [exact Ht|exact (sb2_table_ok _ _ _ HW Ht)]. }
      split; [unfold storage_same; repeat split|]. split; reflexivity.
    - exists s1. split; [reflexivity|]. split; [exact SS1|]. split; [reflexivity|]. rewrite app_nil_r. reflexivity. }
  destruct Hcb as (sB & RunB & SSB & LkB & LgB). rewrite (bo_bind_ok RunB) in H.
  pose proof (storage_same_St s sB SSB HSt) as HStB.
  assert (HLB : bv_lock_ok (w_lock sB) [lb]) by (rewrite LkB; exact HL1).
  assert (HvalB : forall tid, In tid tabs -> exists t, nth_error (w_tables sB) tid = Some t).
  { intros tid Hin. destruct SSB as (_ & _ & _ & _ & _ & _ & E7 & _). rewrite E7. apply Hval. exact Hin. }
  set (Q := fun en : list Z => exists tid, In tid tabs /\ exists oi e, In e (bo_rows_of sB tid) /\ en = v_cb_entry oi e sB).
  assert (Hev : exists sC, whenM (has_obs s EvRemoveEntity) (bo_rm_ev_e tabs) sB = Ok tt sC /\ bv_gev [lb] sB sC Q).
  { destruct (has_obs s EvRemoveEntity) eqn:Hoe; cbn [whenM] in *.
    - destruct (bo_rm_ev_e tabs sB) as [[] sC|er sC] eqn:EvE; [|rewrite (bo_bind_err EvE) in H; discriminate].
      exists sC. split; [reflexivity|].
      exact (bv_rm_ev_e_gen sB tabs sB sC [lb] HStB HLB HvalB (sb3_storage_same_refl sB) HLB EvE).
    - exists sB. split; [reflexivity|apply bv_gev_refl; exact HLB]. }
  destruct Hev as (sC & RunC & (SSC & HLC & L & LgC & FQ)). rewrite (bo_bind_ok RunC) in H.
  assert (SSsC : storage_same s sC) by (eapply sb3_storage_same_trans; eauto).
  pose proof (storage_same_St s sC SSsC HSt) as HStC.
  assert (HvalC : forall tid, In tid tabs -> exists t, nth_error (w_tables sC) tid = Some t).
  { intros tid Hin. destruct SSC as (_ & _ & _ & _ & _ & _ & E7 & _). rewrite E7. apply HvalB. exact Hin. }
  assert (Hevr : whenM (has_obs s EvRemoveRelations) (bo_rm_ev_r tabs) sC = Ok tt sC).
  { destruct (has_obs s EvRemoveRelations); cbn [whenM]; [|reflexivity].
    apply bv_rm_ev_r_skip; [apply HStC|exact HvalC]. }
  rewrite (bo_bind_ok Hevr) in H.
  destruct (bo_remove_core sC tabs HStC HvalC) as (s3 & D & cl & Hrun & HM & HR & Hcl).
  rewrite (bo_bind_ok Hrun), (bo_bind_ok Hcl) in H.
  set (s4 := s3 <| w_istarget := bo_untarget (w_istarget s3) cl |>) in *.
  assert (Elk4 : w_lock s4 = w_lock sC).
  { change (w_lock s4) with (w_lock s3). destruct HR as (_ & _ & _ & _ & _ & _ & _ & _ & _ & _ & _ & -> & _). reflexivity. }
  destruct (bv_lock_give (w_lock sC) [lb] lb HLC (or_introl eq_refl)) as (l'' & LU & HL'').
  rewrite (bv_remove_head lb [] (fun F => F)) in HL''.
  assert (LU4 : lock_unlock (w_lock s4) lb = Some l'') by (rewrite Elk4; exact LU).
  cbn [whenM] in H. rewrite (v_unlockM_ok s4 lb l'' LU4) in H. inversion H; subst s'. clear H.
  destruct (bo_remove_post s sC s3 D tabs (bo_untarget (w_istarget s3) cl) l'' HSt SSsC HM HR (bo_untarget_length _ _))
    as (P1 & P2 & P3 & P4 & P5 & P6).
  split; [exact P1|]. split; [exact (bv_is_locked (s4 <| w_lock := l'' |>) [] HL'')|].
  split; [exact P2|]. split; [exact P3|]. split; [exact P4|]. split; [exact P5|].
  exists es, L. split; [transitivity (w_log sC); [exact P6|]; rewrite LgC, LgB, <- app_assoc; reflexivity|].
  split; [exact Hes|]. split; [exact Hesnd|].
  eapply Forall_impl; [|exact FQ]. intros en (tid & Hin & oi & e & He & ->).
  rewrite (bv_rows_same s sB tid SSB) in He. apply (bv_rows_in s tid e HW) in He. destruct He as (Hl & r & L0).
  exists oi, e. split; [exact Hl|]. split; [exists tid, r; auto|].
  apply (bv_entry_seen oi e s sB [lb] HSt (bv_seen_listed s e TL Hl) SSB HLB). discriminate.
Qed.

(** The two event phases of ExchangeBatch with arbitrary callbacks. *)
Lemma bv_pre_events_gen : forall V rem bs s s' held, St V -> bv_lock_ok (w_lock V) held ->
  (forall b, In b bs -> (exists t, nth_error (w_tables V) (bo_src b) = Some t /\ snd b = t_len t) /\
                        (exists t, nth_error (w_tables V) (bo_dst b) = Some t)) ->
  storage_same V s -> bv_lock_ok (w_lock s) held ->
  bo_pre_events rem bs false s = Ok tt s' ->
  bv_gev held s s' (fun en => exists b, In b bs /\ exists oi e, In e (bv_src_rows V b) /\ en = v_cb_entry oi e V).
Proof.
  intros V rem bs s s' held HSt HV Hbs SS HL H. unfold bo_pre_events in H.
  destruct rem as [|c rem']; cbn [is_nil negb whenM] in H.
  { unfold ret in H. inversion H; subst. apply bv_gev_refl. exact HL. }
  unfold bind at 1 in H. unfold get at 1 in H. cbv beta iota in H.
  destruct (has_obs s EvRemoveComponents); cbn [whenM] in H.
  2:{ unfold bind at 1 in H. unfold ret at 1 in H. cbv beta iota in H. unfold bind at 1 in H. unfold get at 1 in H.
      cbv beta iota in H. cbn [andb whenM] in H. unfold ret in H. inversion H; subst. apply bv_gev_refl. exact HL. }
  match type of H with bind (forM_ bs ?f) _ s = _ => set (F := f) in H end.
  destruct (forM_ bs F s) as [[] s1|er s1] eqn:R; [|rewrite (sa_bind_err R) in H; discriminate].
  rewrite (sa_bind_ok R) in H. unfold bind at 1 in H. unfold get at 1 in H. cbv beta iota in H. cbn [andb whenM] in H.
  unfold ret in H. inversion H; subst s1. clear H.
  eapply (bv_forM_gen _ F (fun b en => exists oi e, In e (bv_src_rows V b) /\ en = v_cb_entry oi e V) held bs V s s' SS HL); [|exact R].
  cbv beta. intros b s1 s2 Hin SS1 HL1 R1. destruct (Hbs b Hin) as ((ot & Hot & Hlen) & (nt & Hnt)).
  destruct b as [[otid ntid] len]. cbn [bo_src bo_dst fst snd] in *. unfold F in R1.
  pose proof (storage_same_St V s1 SS1 HSt) as HSt1.
  pose proof SS1 as (_ & _ & _ & _ & _ & _ & E7 & _).
  assert (Hot1 : nth_error (w_tables s1) otid = Some ot) by (rewrite E7; exact Hot).
  assert (Hnt1 : nth_error (w_tables s1) ntid = Some nt) by (rewrite E7; exact Hnt).
  rewrite (sa_bind_ok (bv_tmask_ok s1 otid ot (proj1 HSt1) Hot1)) in R1.
  rewrite (sa_bind_ok (bv_tmask_ok s1 ntid nt (proj1 HSt1) Hnt1)) in R1.
  rewrite (sa_bind_ok (bv_rows_of_ok s1 otid ot 0 len Hot1)), (bv_rows_at_same V s1 otid 0 len SS1) in R1.
  assert (ER : bv_rows_at V otid 0 len = bv_src_rows V (otid, ntid, len)).
  { unfold bv_rows_at, bv_src_rows, bo_rows_of. cbn [bo_src fst]. rewrite Hot, Hlen. reflexivity. }
  rewrite ER in R1.
  exact (bv_fire_rows_gen EvRemoveComponents (early_remove (bv_tmask s1 otid) (bv_tmask s1 ntid))
           (p_remove (bv_tmask s1 otid) (bv_tmask s1 ntid)) _ true V s1 s2 held HV SS1 HL1 R1).
Qed.

Lemma bv_post_events_gen : forall V add mv s s' held, St V -> bv_lock_ok (w_lock V) held ->
  (forall otid ntid start len, In (otid, ntid, start, len) mv ->
     (exists t, nth_error (w_tables V) otid = Some t) /\ (exists t, nth_error (w_tables V) ntid = Some t)) ->
  storage_same V s -> bv_lock_ok (w_lock s) held ->
  bo_post_events add [] mv s = Ok tt s' ->
  bv_gev held s s' (fun en => exists r, In r mv /\ exists oi e, In e (bv_post_rows V r) /\ en = v_cb_entry oi e V).
Proof.
  intros V add mv s s' held HSt HV Hmv SS HL H. unfold bo_post_events in H.
  destruct add as [|c add']; cbn [is_nil negb whenM] in H.
  { unfold ret in H. inversion H; subst. apply bv_gev_refl. exact HL. }
  unfold bind at 1 in H. unfold get at 1 in H. cbv beta iota in H.
  destruct (has_obs s EvAddComponents); cbn [whenM] in H.
  2:{ unfold bind at 1 in H. unfold ret at 1 in H. cbv beta iota in H. unfold bind at 1 in H. unfold get at 1 in H.
      cbv beta iota in H. cbn [is_nil negb andb whenM] in H. unfold ret in H. inversion H; subst. apply bv_gev_refl. exact HL. }
  match type of H with bind (forM_ mv ?f) _ s = _ => set (F := f) in H end.
  destruct (forM_ mv F s) as [[] s1|er s1] eqn:R; [|rewrite (sa_bind_err R) in H; discriminate].
  rewrite (sa_bind_ok R) in H. unfold bind at 1 in H. unfold get at 1 in H. cbv beta iota in H. cbn [is_nil negb andb whenM] in H.
  unfold ret in H. inversion H; subst s1. clear H.
  eapply (bv_forM_gen _ F (fun r en => exists oi e, In e (bv_post_rows V r) /\ en = v_cb_entry oi e V) held mv V s s' SS HL); [|exact R].
  cbv beta. intros r s1 s2 Hin SS1 HL1 R1. destruct r as [[[otid ntid] start] len].
  destruct (Hmv otid ntid start len Hin) as ((ot & Hot) & (nt & Hnt)). unfold F in R1.
  pose proof (storage_same_St V s1 SS1 HSt) as HSt1.
  pose proof SS1 as (_ & _ & _ & _ & _ & _ & E7 & _).
  assert (Hot1 : nth_error (w_tables s1) otid = Some ot) by (rewrite E7; exact Hot).
  assert (Hnt1 : nth_error (w_tables s1) ntid = Some nt) by (rewrite E7; exact Hnt).
  rewrite (sa_bind_ok (bv_tmask_ok s1 otid ot (proj1 HSt1) Hot1)) in R1.
  rewrite (sa_bind_ok (bv_tmask_ok s1 ntid nt (proj1 HSt1) Hnt1)) in R1.
  rewrite (sa_bind_ok (bv_rows_of_ok s1 ntid nt start len Hnt1)), (bv_rows_at_same V s1 ntid start len SS1) in R1.
  unfold bv_post_rows.
  exact (bv_fire_rows_gen EvAddComponents (early_add (bv_tmask s1 otid) (bv_tmask s1 ntid))
           (p_add (bv_tmask s1 otid) (bv_tmask s1 ntid)) _ true V s1 s2 held HV SS1 HL1 R1).
Qed.

(** ExchangeBatch with arbitrary OnRemoveComponents / OnAddComponents callbacks: if the call returns
    normally, the storage effect is the one of [exchange_batch_spec], the world is unlocked, and the
    log grows by [Lr ++ batch-callback entries ++ La] where EVERY entry of [Lr] reports
    LOCKED = ALIVE = COUNT = 1 and the PRE-state content of a selected live entity, and EVERY entry of
    [La] reports LOCKED = ALIVE = COUNT = 1 and the FINAL content of such an entity. *)
Theorem exchange_batch_view_partial : forall s fi tabs add rem vals s',
  St s -> tables_listed s -> bv_lock_ok (w_lock s) [] ->
  (add <> [] \/ rem <> []) -> registered s add -> (forall cv, In cv vals -> In (fst cv) add) ->
  get_batch_tables fi [] s = Ok tabs s -> NoDup tabs ->
  w_exchange_batch fi [] add rem [] vals s = Ok tt s' ->
  St s' /\ is_locked s' = false /\
  (forall e, live s e = true -> bo_in_tabs s tabs e ->
     live s' e = true /\
     forall c, val s' e c = if memb c add then Some (bo_cbval s vals c) else if memb c rem then None else val s e c) /\
  (forall e, live s e = true -> ~ bo_in_tabs s tabs e -> live s' e = true /\ forall c, val s' e c = val s e c) /\
  (forall e, live s e = false -> live s' e = false) /\
  w_pool s' = w_pool s /\ frame_user s s' /\
  exists es Lr La,
    w_log s' = w_log s ++ Lr ++ map (fun e => [101%Z; Zn (fst e); Z.of_N (snd e)]) es ++ La /\
    NoDup es /\ (forall e, In e es <-> (live s e = true /\ bo_in_tabs s tabs e)) /\
    Forall (fun en => exists oi e, live s e = true /\ bo_in_tabs s tabs e /\ bv_reports s (oi, e) en) Lr /\
    Forall (fun en => exists oi e, live s e = true /\ bo_in_tabs s tabs e /\ bv_reports s' (oi, e) en) La.
Proof.
  intros s fi tabs add rem vals s' HSt TL HL0 Hnn Hreg Hvals Hgbt NDt H.
  pose proof (proj1 HSt) as HW.
  assert (Hunl : is_locked s = false) by (rewrite (bv_is_locked s [] HL0); reflexivity).
  destruct (bv_lock_take (w_lock s) [] HL0 ltac:(cbn; lia)) as (lb & l' & LL & _ & HL1).
  set (s0 := s <| w_lock := l' |>).
  assert (SS0 : storage_same s s0) by (unfold storage_same; repeat split).
  pose proof (storage_same_St s s0 SS0 HSt) as HSt0.
  assert (Hgbt0 : get_batch_tables fi [] s0 = Ok tabs s0) by (apply (bo_gbt_frame fi [] s s0 tabs SS0 Hgbt)).
  assert (Hval0 : forall tid, In tid tabs -> exists t, nth_error (w_tables s0) tid = Some t).
  { exact (bo_gbt_valid s fi tabs HSt Hgbt). }
  assert (Hreg0 : registered s0 add) by exact Hreg.
  pose proof (bo_collect_spec add rem tabs s0 [] false HSt0 Hreg0 Hval0) as HC.
  rewrite bo_exchange_batch_eq in H.
  rewrite (bo_bind_ok (sb1_check_locked_ok s Hunl)) in H.
  assert (Hg : negb (is_nil add && is_nil rem) = true).
  { destruct add; [|reflexivity]. destruct rem; [|reflexivity]. destruct Hnn; congruence. }
  rewrite Hg in H. cbn [guard] in H. rewrite (bo_bind_ok (m := ret tt) (s := s) eq_refl) in H.
  rewrite (bo_bind_ok (v_lockM_ok s lb l' LL)) in H. fold s0 in H.
  destruct (bo_collect add rem [] tabs [] false s0) as [[bs' rr'] s1|er s1] eqn:EC.
  2:{ assert (Hbody : bo_xbody fi [] add rem vals s0 = Err er s1).
      { unfold bo_xbody. rewrite (bo_bind_ok Hgbt0). exact (bo_bind_err EC). }
      rewrite (bo_bind_err (bo_deferred_err _ lb _ _ _ _ Hbody)) in H. discriminate. }
  destruct HC as (bs & -> & -> & (HSt1 & R1 & D1 & F1) & FA & I1 & I2). cbn [app] in EC.
  destruct (bv_collect_facts add rem tabs s0 [] false bs false s1 HSt0 Hreg0 Hval0 EC) as (M01 & _ & bs2 & Ebs & Hbf & NDs).
  cbn [app] in Ebs. subst bs2. specialize (NDs NDt).
  pose proof (proj1 HSt1) as HW1.
  pose proof D1 as (D1a & D1b & _).
  pose proof F1 as (F1a & _).
  assert (HLs1 : bv_lock_ok (w_lock s1) [lb]) by (rewrite D1a; exact HL1).
  pose proof (same_rows_content s0 s1 (proj1 HSt0) R1) as C01.
  assert (Hl1 : forall e, live s1 e = live s e) by (intros e; apply (C01 e)).
  assert (Hv1 : forall e c, val s1 e c = val s e c) by (intros e c; apply (C01 e)).
  assert (Hloc1 : forall e, loc s1 e = loc s e) by (intros e; apply sa_loc_ext; apply R1).
  rewrite Forall_forall in FA.
  assert (Hbs1 : forall b, In b bs ->
            (exists t, nth_error (w_tables s1) (bo_src b) = Some t /\ snd b = t_len t) /\
            (exists t, nth_error (w_tables s1) (bo_dst b) = Some t)).
  { intros b Hb. destruct (Hbf b Hb) as (_ & _ & B3). split; [exact B3|]. apply (bv_batch_ok_tables s1 add rem b (FA b Hb)). }
  (* decompose the run *)
  destruct (bo_xbody fi [] add rem vals s0) as [[] sX|er sX] eqn:EX.
  2:{ rewrite (bo_bind_err (bo_deferred_err _ lb _ _ _ _ EX)) in H. discriminate. }
  rewrite (bo_bind_ok (bo_deferred_ok _ lb _ _ _ _ EX)) in H.
  unfold bo_xbody in EX. rewrite (bo_bind_ok Hgbt0), (bo_bind_ok EC) in EX. cbv beta iota in EX.
  destruct (bo_pre_events rem bs false s1) as [[] s1'|er s1'] eqn:Rpre; [|rewrite (bo_bind_err Rpre) in EX; discriminate].
  rewrite (bo_bind_ok Rpre) in EX.
  destruct (bv_pre_events_gen s1 rem bs s1 s1' [lb] HSt1 HLs1 Hbs1 (sb3_storage_same_refl s1) HLs1 Rpre)
    as (SSp & HLp & Lr & LGp & FQr).
  pose proof (storage_same_St s1 s1' SSp HSt1) as HSt1'.
  assert (FA' : Forall (bo_batch_ok s1' add rem) bs).
  { apply Forall_forall. intros b Hb. apply (bo_batch_ok_keeps s1 s1' add rem b (bv_keeps_same s1 s1' SSp) (FA b Hb)). }
  pose proof SSp as (_ & Ep2 & Ep3 & Ep4 & _ & Ep6 & Ep7 & _).
  assert (Hreg1' : registered s1' add).
  { intros c Hc. rewrite Ep2, F1a. apply Hreg. exact Hc. }
  destruct (bo_move_loop add rem vals bs s1' HSt1' Hnn FA' Hreg1' Hvals) as
    (s2 & mv & Hrun & HSt2 & K2 & Mv & Ot & Dd & (es & Lg & ND & Ines) & Sd & Pl & Fr).
  destruct (bv_move_tables add rem vals bs s1' HSt1' Hnn FA' Hreg1' Hvals NDs mv s2 Hrun) as (A2 & G2 & X2 & FA2).
  rewrite (bo_bind_ok Hrun) in EX.
  pose proof Sd as (Sd1 & _).
  assert (HLs2 : bv_lock_ok (w_lock s2) [lb]) by (rewrite Sd1; exact HLp).
  assert (Hmvb : forall r, In r mv -> exists b ot T' start, In b bs /\
            nth_error (w_tables s1') (bo_src b) = Some ot /\ r = (bo_src b, bo_dst b, start, t_len ot) /\
            nth_error (w_tables s2) (bo_dst b) = Some T' /\ start + t_len ot <= t_len T' /\
            (forall i, i < t_len ot -> row_ent T' (start + i) = row_ent ot i)).
  { intros r Hr. destruct (bv_Forall2_in_r _ _ _ bs mv r FA2 Hr) as (b & Hb & ot & T' & start & Q).
    exists b, ot, T', start. split; [exact Hb|exact Q]. }
  assert (Hmv2 : forall otid ntid start len, In (otid, ntid, start, len) mv ->
            (exists t, nth_error (w_tables s2) otid = Some t) /\ (exists t, nth_error (w_tables s2) ntid = Some t)).
  { intros otid ntid start len Hr. destruct (Hmvb _ Hr) as (b & ot & T' & st & Hb & Q1 & Q2 & Q3 & Q4 & Q5).
    inversion Q2; subst otid ntid start len. split; [exact (X2 _ ot Q1)|]. exists T'. exact Q3. }
  destruct (bv_post_events_gen s2 add mv s2 sX [lb] HSt2 HLs2 Hmv2 (sb3_storage_same_refl s2) HLs2 EX)
    as (SSq & HLq & La & LGq & FQa).
  destruct (bv_lock_give (w_lock sX) [lb] lb HLq (or_introl eq_refl)) as (lz & LUz & HLz).
  rewrite (bv_remove_head lb [] (fun F => F)) in HLz.
  rewrite (v_unlockM_ok sX lb lz LUz) in H. inversion H; subst s'. clear H.
  set (s3 := sX <| w_lock := lz |>).
  assert (SS3 : storage_same s2 s3).
  { eapply sb3_storage_same_trans; [exact SSq|]. unfold storage_same; repeat split. }
  pose proof (sb3_storage_same_content s1 s1' SSp) as C11.
  pose proof (sb3_storage_same_content s2 s3 SS3) as C23.
  assert (Hl1' : forall e, live s1' e = live s e) by (intros e; rewrite (proj1 (C11 e)); apply Hl1).
  assert (Hv1' : forall e c, val s1' e c = val s e c) by (intros e c; rewrite (proj2 (C11 e)); apply Hv1).
  assert (Hloc1' : forall e, loc s1' e = loc s e) by (intros e; rewrite (sa_loc_ext s1 s1' Ep4 e); apply Hloc1).
  assert (Hsrc : forall e, live s e = true -> (bo_in_tabs s1' (map bo_src bs) e <-> bo_in_tabs s tabs e)).
  { intros e Hl. split.
    - intros (tid & r & Hin & Hloc). exists tid, r. rewrite <- Hloc1'. split; [|exact Hloc].
      apply in_map_iff in Hin. destruct Hin as (b & <- & Hb). apply I1. exact Hb.
    - intros (tid & r & Hin & Hloc). exists tid, r. rewrite Hloc1'. split; [|exact Hloc].
      destruct (sb2_live_elim _ _ Hl) as (tid0 & r0 & t0 & L0 & T0 & R0 & E0).
      rewrite Hloc in L0. inversion L0; subst tid0 r0.
      apply (I2 tid t0 Hin T0). lia. }
  assert (Ereg1' : w_reg s1' = w_reg s) by (rewrite Ep2; exact F1a).
  (* an entity of a source table of [s1']: live in [s], in a selected table *)
  assert (Hrow : forall b e, In b bs -> In e (bo_rows_of s1' (bo_src b)) -> live s e = true /\ bo_in_tabs s tabs e).
  { intros b e Hb He. apply (bv_rows_in s1' (bo_src b) e (proj1 HSt1')) in He. destruct He as (Hl & r & L).
    rewrite Hl1' in Hl. rewrite Hloc1' in L. split; [exact Hl|]. exists (bo_src b), r. split; [apply I1; exact Hb|exact L]. }
  split; [apply (storage_same_St s2 s3 SS3 HSt2)|]. split; [exact (bv_is_locked s3 [] HLz)|].
  split.
  { intros e Hl Hin. rewrite <- Hl1' in Hl. destruct (Mv e Hl) as (L' & V').
    { apply Hsrc; [rewrite <- Hl1'; exact Hl|exact Hin]. }
    split; [rewrite (proj1 (C23 e)); exact L'|]. intros c. rewrite (proj2 (C23 e)), V'.
    unfold bo_newval, bo_cbval. rewrite Hv1'.
    rewrite (bo_wval_ext (kind_of s1') (kind_of s)); [reflexivity|].
    apply sa_kind_of_ext. exact Ereg1'. }
  split.
  { intros e Hl Hnot. pose proof Hl as Hl'. rewrite <- Hl1' in Hl. destruct (Ot e Hl) as (L' & V').
    { intros Hin. apply Hnot. apply Hsrc; assumption. }
    split; [rewrite (proj1 (C23 e)); exact L'|]. intros c. rewrite (proj2 (C23 e)), V'. apply Hv1'. }
  split.
  { intros e Hd. rewrite <- Hl1' in Hd. rewrite (proj1 (C23 e)). exact (Dd e Hd). }
  split.
  { destruct SS3 as (_ & _ & E3 & _). rewrite E3, Pl, Ep3. apply R1. }
  split.
  { apply (sa_frame_user_trans s s1 s3); [exact F1|]. apply (sa_frame_user_trans s1 s1' s3); [apply bv_frame_same; exact SSp|].
    apply (sa_frame_user_trans s1' s2 s3); [exact Fr|apply bv_frame_same; exact SS3]. }
  exists es, Lr, La.
  split.
  { change (w_log s3) with (w_log sX). rewrite LGq, Lg, LGp, D1b. change (w_log s0) with (w_log s).
    rewrite <- !app_assoc. reflexivity. }
  split; [exact ND|].
  split.
  { intros e. rewrite Ines, Hl1'. split; intros (Hl & Hin); (split; [exact Hl|]); apply (Hsrc e Hl); exact Hin. }
  split.
  { eapply Forall_impl; [|exact FQr]. cbv beta. intros en (b & Hb & oi & e & He & ->).
    unfold bv_src_rows in He. rewrite <- (bv_rows_same s1 s1' (bo_src b) SSp) in He.
    destruct (Hrow b e Hb He) as (Hl & Hin). exists oi, e. split; [exact Hl|]. split; [exact Hin|].
    destruct (bv_seen_listed s e TL Hl) as (_ & tid & r & L & Hli).
    assert (Hs1 : bv_seen s1 e).
    { split; [rewrite Hl1; exact Hl|]. exists tid, r. split; [rewrite Hloc1; exact L|apply M01; exact Hli]. }
    destruct (bv_entry_seen oi e s1 s1 [lb] HSt1 Hs1 (sb3_storage_same_refl s1) HLs1 ltac:(discriminate)) as (snap & Sn & En).
    cbn [fst snd] in Sn, En. exists snap. split; [|rewrite En; f_equal; exact (bv_collect_wv add rem tabs s0 [] false bs false s1 HSt0 Hreg0 Hval0 EC)]. cbn [snd].
    transitivity (snapshot_entity s1 e); [symmetry; exact (bv_snapshot_rows s0 s1 e R1 Hl)|exact Sn]. }
  { eapply Forall_impl; [|exact FQa]. cbv beta. intros en (r & Hr & oi & e & He & ->).
    destruct (Hmvb r Hr) as (b & ot & T' & start & Hb & Q1 & Q2 & Q3 & Q4 & Q5). subst r.
    unfold bv_post_rows in He.
    destruct (bv_rows_at_live s2 (bo_dst b) T' start (t_len ot) e (proj1 HSt2) Q3 Q4 He) as (Hl2 & r2 & L2).
    assert (Hes : In e (bo_rows_of s1' (bo_src b))).
    { unfold bv_rows_at in He. rewrite Q3 in He. unfold bo_rows_of. rewrite Q1.
      pose proof (tbl_ok_elim _ (sb2_table_ok _ _ _ (proj1 HSt2) Q3)) as (O1 & O2 & _).
      rewrite (b_firstn_skipn_seq _ (t_ents T') zero_ent (t_len ot) start) in He by lia.
      rewrite (bo_rows_eq ot (sb2_table_ok _ _ _ (proj1 HSt1') Q1)).
      apply in_map_iff in He. destruct He as (j & Ej & Hj). apply in_seq in Hj.
      apply in_map_iff. exists (j - start). split; [|apply in_seq; lia].
      rewrite <- (Q5 (j - start)) by lia. replace (start + (j - start)) with j by lia. exact Ej. }
    destruct (Hrow b e Hb Hes) as (Hl & Hin). exists oi, e. split; [exact Hl|]. split; [exact Hin|].
    assert (Hs2 : bv_seen s2 e).
    { split; [exact Hl2|]. exists (bo_dst b), r2. split; [exact L2|].
      destruct (Hbf b Hb) as (_ & B2 & _). unfold v_listed in *. rewrite A2, Ep6. exact B2. }
    destruct (bv_entry_seen oi e s2 s2 [lb] HSt2 Hs2 (sb3_storage_same_refl s2) HLs2 ltac:(discriminate)) as (snap & Sn & En).
    cbn [fst snd] in Sn, En. exists snap. split; [|rewrite En, (bv_world_view_same s2 s3 SS3); reflexivity]. cbn [snd].
    rewrite (bv_snapshot_same s2 s3 e SS3). exact Sn. }
Qed.

(** NewBatch with arbitrary OnCreateEntity callbacks: if the call returns normally, the storage
    effect is the one of [new_batch_spec], the world is unlocked, and every observer entry comes
    after all batch-callback entries and reports LOCKED = ALIVE = COUNT = 1 and the FINAL content
    (the initialised values) of one of the new entities. *)
Theorem new_batch_view_partial : forall s n ids vals fn s',
  St s -> room_n s n -> bv_lock_ok (w_lock s) [] ->
  registered s ids -> NoDup ids -> (forall cv, In cv vals -> In (fst cv) ids) ->
  w_new_batch n ids [] vals fn s = Ok tt s' ->
  St s' /\ is_locked s' = false /\
  exists es L, length es = n /\ NoDup es /\
    (forall e, In e es -> live s e = false /\ live s' e = true /\ alive s' e = true /\
       forall c, val s' e c = if memb c ids then Some (if fn then bo_cbval s vals c else 0%Z) else None) /\
    (forall e, ~ In e es -> live s' e = live s e /\ forall c, val s' e c = val s e c) /\
    frame_user s s' /\
    w_log s' = w_log s ++ (if fn then map (fun e => [101%Z; Zn (fst e); Z.of_N (snd e)]) es else []) ++ L /\
    Forall (fun en => exists oi e, In e es /\ bv_reports s' (oi, e) en) L.
Proof.
  intros s n ids vals fn s' HSt Hroom HL0 Hreg Hnd Hvals H.
  assert (Hunl : is_locked s = false) by (rewrite (bv_is_locked s [] HL0); reflexivity).
  destruct (bv_lock_take (w_lock s) [] HL0 ltac:(cbn; lia)) as (lb & l' & LL & _ & HL1).
  destruct (has_obs s EvCreateEntity) eqn:Ho.
  2:{ destruct (new_batch_spec s n ids vals fn HSt Hroom Hunl ltac:(intros _; rewrite LL; discriminate) Ho Hreg Hnd Hvals)
        as (s'' & es & Hrun & HSt' & Hunl' & Hlen & Hnd' & Hin & Hout & Lg & Fr).
      rewrite Hrun in H. inversion H; subst s''. split; [exact HSt'|]. split; [exact Hunl'|].
      exists es, []. repeat (split; [assumption|]). split; [rewrite app_nil_r; exact Lg|constructor]. }
  destruct (bo_new_entities_run s n ids HSt Hroom Hreg Hnd) as
    (tid & start & s2 & es & t' & Hrun & HSt2 & Hside & Hfr & Hlen & Hnd' & Hin & Hout & Ht' & Hl' & Hes & Hids).
  pose proof Hside as (Elock & Elog & Eobs & Eol & Eagg & Eop & Eot & Eom).
  pose proof Hfr as (Ereg2 & _).
  pose proof (proj1 HSt2) as HW2.
  pose proof (tbl_ok_elim _ (sb2_table_ok _ _ _ HW2 Ht')) as (O1 & O2 & _).
  assert (Ho2 : has_obs s2 EvCreateEntity = true).
  { unfold has_obs, get_agg in *. rewrite Eagg. exact Ho. }
  assert (Hes' : es = map (row_ent t') (seq start n)).
  { rewrite <- Hes. apply (b_firstn_skipn_seq _ (t_ents t') zero_ent n start). lia. }
  pose proof (bv_new_entities_listed s n ids tid start s2 HSt Hreg Hrun) as Hlisted.
  unfold w_new_batch in H.
  rewrite (bo_bind_ok (sb1_check_locked_ok s Hunl)) in H.
  rewrite (bo_bind_ok (m := to_relations (mk_of_list ids) []) (s := s) (a := tt) (s' := s) eq_refl) in H.
  rewrite (bo_bind_ok Hrun) in H. cbv beta iota in H.
  unfold bind at 1 in H. unfold get at 1 in H. cbv beta iota zeta in H. rewrite Ho2 in H. cbn [is_nil negb andb orb] in H.
  assert (LL2 : lock_lock (w_lock s2) = Some (lb, l')) by (rewrite Elock; exact LL).
  rewrite (bo_bind_ok (v_lockM_ok s2 lb l' LL2)) in H.
  set (s3 := s2 <| w_lock := l' |>) in *.
  assert (SS3 : storage_same s2 s3) by (unfold storage_same; repeat split).
  pose proof (storage_same_St s2 s3 SS3 HSt2) as HSt3.
  assert (Ht3 : nth_error (w_tables s3) tid = Some t') by exact Ht'.
  assert (Hnew3 : forall e, In e (map (row_ent t') (seq start n)) ->
            live s3 e = true /\ forall c, val s3 e c = if memb c ids then Some 0%Z else None).
  { intros e He. rewrite <- Hes' in He. destruct (Hin e He) as (_ & L2 & _ & V2). split; [exact L2|exact V2]. }
  destruct (bv_new_batch_cb s3 tid t' start n vals ids fn HSt3 Ht3 Hl' Hids Hvals Hnew3) as
    (s4 & Rcb & HSt4 & A4 & Lk4 & MS4 & Fr4 & Lg4 & Hlv4 & Hloc4 & Vin4 & Vout4 & Rows4).
  rewrite <- Hes' in Lg4, Vin4, Vout4, Rows4.
  rewrite (bo_bind_ok Rcb), (bo_bind_ok Rows4) in H. cbn [whenM] in H.
  assert (HL4 : bv_lock_ok (w_lock s4) [lb]) by (rewrite Lk4; exact HL1).
  set (m := mk_of_list ids) in *.
  assert (Hlive4 : forall e, In e es -> live s4 e = true).
  { intros e He. rewrite Hlv4. destruct (Hin e He) as (_ & L2 & _). exact L2. }
  destruct (fire_rows (fun e eo => fire_create_entity e m eo) es true s4) as [[] s5|er s5] eqn:R5;
    [|rewrite (bo_bind_err R5) in H; discriminate].
  rewrite (bo_bind_ok R5) in H.
  destruct (bv_fire_rows_gen EvCreateEntity (early_with m) (p_with m) es true s4 s4 s5 [lb] HL4 (sb3_storage_same_refl s4) HL4 R5)
    as (SS5 & HL5 & L & Lg5 & FQ).
  rewrite (bo_bind_ok (m := ret tt) (s := s5) eq_refl) in H.
  destruct (bv_lock_give (w_lock s5) [lb] lb HL5 (or_introl eq_refl)) as (lz & LUz & HLz).
  rewrite (bv_remove_head lb [] (fun F => F)) in HLz.
  rewrite (v_unlockM_ok s5 lb lz LUz) in H. inversion H; subst s'. clear H.
  set (s6 := s5 <| w_lock := lz |>).
  assert (SS46 : storage_same s4 s6).
  { eapply sb3_storage_same_trans; [exact SS5|]. unfold storage_same; repeat split. }
  pose proof (sb3_storage_same_content s4 s6 SS46) as C46.
  split; [exact (storage_same_St s4 s6 SS46 HSt4)|]. split; [exact (bv_is_locked s6 [] HLz)|].
  exists es, L. split; [exact Hlen|]. split; [exact Hnd'|].
  split.
  { intros e He. destruct (Hin e He) as (L1 & L2 & A2 & V2). split; [exact L1|].
    assert (L6 : live s6 e = true) by (rewrite (proj1 (C46 e)); apply Hlive4; exact He).
    split; [exact L6|]. split; [apply (live_alive s6 e (proj1 (storage_same_St s4 s6 SS46 HSt4)) L6)|].
    intros c. rewrite (proj2 (C46 e)), (Vin4 e He c). unfold bo_cbval.
    rewrite (bo_wval_ext (kind_of s3) (kind_of s)); [reflexivity|]. apply sa_kind_of_ext. exact Ereg2. }
  split.
  { intros e He. destruct (Hout e He) as (L1 & V1). split.
    - rewrite (proj1 (C46 e)), Hlv4. exact L1.
    - intros c. rewrite (proj2 (C46 e)), (Vout4 e He c). exact (V1 c). }
  split.
  { apply (sa_frame_user_trans s s2 s6); [exact Hfr|]. apply (sa_frame_user_trans s2 s3 s6); [unfold frame_user; repeat split|].
    apply (sa_frame_user_trans s3 s4 s6); [exact Fr4|apply bv_frame_same; exact SS46]. }
  split.
  { change (w_log s6) with (w_log s5). rewrite Lg5, Lg4. change (w_log s3) with (w_log s2). rewrite Elog, <- app_assoc. reflexivity. }
  eapply Forall_impl; [|exact FQ]. cbv beta. intros en (oi & e & He & ->). exists oi, e. split; [exact He|].
  assert (Hs4 : bv_seen s4 e).
  { split; [apply Hlive4; exact He|]. rewrite Hes' in He. apply in_map_iff in He. destruct He as (r & Er & Hr).
    apply in_seq in Hr. exists tid, r. split.
    - rewrite Hloc4, <- Er. apply (wf_rows _ HW2 tid t' r Ht'). lia.
    - unfold v_listed in *. rewrite A4. exact Hlisted. }
  destruct (bv_entry_seen oi e s4 s4 [lb] HSt4 Hs4 (sb3_storage_same_refl s4) HL4 ltac:(discriminate)) as (snap & Sn & En).
  cbn [fst snd] in Sn, En. exists snap. split; [|rewrite En, (bv_world_view_same s4 s6 SS46); reflexivity]. cbn [snd]. rewrite (bv_snapshot_same s4 s6 e SS46). exact Sn.
Qed.

(* ------------------------------------------------------------------ *)
(** The order of the phases inside the operations is definitional ([bo_remove_entities_eq]:
    callback, OnRemoveEntity, OnRemoveRelations, then the removal; [bo_exchange_batch_eq] with
    [bo_xbody]: selection, collection, [bo_pre_events], the moves with their callbacks,
    [bo_post_events]). *)
Definition bv_all := (remove_entities_view, exchange_batch_view, new_batch_view,
  remove_entities_view_partial, exchange_batch_view_partial, new_batch_view_partial, remove_entities_view_active_refuted, bv_entry_seen, bv_snapshot_content, bv_fire_rows, bv_run_callback,
  bv_lock_new, bv_lock_take, bv_lock_give, batch_view_nonvacuous, bv_world_remove_entities,
  remove_entities_view_example, exchange_batch_view_example, new_batch_view_example, remove_entities_active_example,
  bo_remove_entities_eq, bo_exchange_batch_eq).
Print Assumptions bv_all.
