(** * QueryExactR: the end-to-end query theorem (QueryExact.v) for histories that CONTAIN Reset (class of
    Rel2HistR: the class of Rel2HistQ plus OReset, foreign handles of earlier epochs in every role).
    Helper prefix [qxr_].

    Reset keeps the archetypes (only their tables are emptied / freed), so the component index stays exact; it
    clears the filter cache: [cache_reset] sets the cache id of the filter of EVERY ENTRY to "none", empties the entry
    list and restarts the id pool. The clause [qx_FL] survives because every registered filter object has its entry
    ([qx_has]: otherwise a filter object would keep a stale cache id that the restarted pool hands out again).
    [Inv2RF s n k := Inv2R s n k /\ r2k_cidx_ok s /\ qx_FL s] is an invariant ([step_inv2RF], [qxr_run_inv],
    [reachable_inv2RF]) and the query theorems hold in every state of such a history ([reachable_query_exact_R], ...). *)
From Ark Require Import Model.Base Model.Mask Model.Pool Model.Util Model.World Model.Run.
From Ark Require Import Proofs.TableProofs Proofs.MaskProofs Proofs.Hoare Proofs.WF Proofs.StorageA Proofs.StorageC
  Proofs.LockWorld Proofs.QueryProofs Proofs.Rel2Defs Proofs.Rel2Struct Proofs.Rel2Hist Proofs.Rel2Cache Proofs.Rel2HistQ
  Proofs.ObsErase Proofs.Rel2HistR Proofs.QueryExactIdx Proofs.QueryExact.
From Ark Require Properties.Common Proofs.Rel2Check Proofs.StorageD.
From RecordUpdate Require Import RecordSet.
Import RecordSetNotations.
From Coq Require Import Lia Permutation.
Close Scope Z_scope.

(* ================================================================================================ *)
(** * Part 1: Reset keeps the clauses *)

(** The loop of [cache_reset]: filter objects keep everything but their cache id, which is kept or cleared. *)
Definition qxr_lp (s s' : W) : Prop :=
  w_reg s' = w_reg s /\ w_compindex s' = w_compindex s /\ w_archs s' = w_archs s /\ w_cpool s' = w_cpool s /\
  w_centries s' = w_centries s /\ w_cheap s' = w_cheap s /\
  forall i f', nth_error (w_filters s') i = Some f' ->
    exists f, nth_error (w_filters s) i = Some f /\ f_ids f' = f_ids f /\ f_mask f' = f_mask f /\ f_rels f' = f_rels f /\
              (f_cache f' = f_cache f \/ f_cache f' = None).

Lemma qxr_lp_refl : forall s, qxr_lp s s.
Proof. intros s. repeat (split; [reflexivity|]). intros i f H. exists f. repeat split; auto. Qed.

Lemma qxr_lp_trans : forall s1 s2 s3, qxr_lp s1 s2 -> qxr_lp s2 s3 -> qxr_lp s1 s3.
Proof.
  intros s1 s2 s3 (A1 & A2 & A3 & A4 & A5 & A6 & A7) (B1 & B2 & B3 & B4 & B5 & B6 & B7).
  repeat (split; [congruence|]). intros i f3 H3. destruct (B7 i f3 H3) as (f2 & H2 & C1 & C2 & C3 & C4).
  destruct (A7 i f2 H2) as (f1 & H1 & D1 & D2 & D3 & D4). exists f1. split; [exact H1|]. repeat (split; [congruence|]).
  destruct C4 as [C4|C4]; [|right; exact C4]. destruct D4 as [D4|D4]; [left|right]; congruence.
Qed.

Definition qxr_body (addr : nat) : MW unit :=
  s <- get ;;
  match nth_error (w_cheap s) addr with
  | Some e => modify (fun s => s <| w_filters ::= updf (ce_filter e) (fun f => f <| f_cache := None |>) |>)
  | None => fail EIndex
  end.

Lemma qxr_body_lp : forall addr s, qxr_lp s (state_of (qxr_body addr s)).
Proof.
  intros addr s. unfold qxr_body, bind, get. destruct (nth_error (w_cheap s) addr) as [e|]; [|apply qxr_lp_refl].
  unfold modify. cbn [state_of]. repeat (split; [reflexivity|]). intros i f' H. cbn in H.
  destruct (qx_nth_updf_cache _ _ _ _ _ H) as (f & Hf & E1 & E2 & E3 & [(_ & E)|(_ & E)]); exists f; repeat split; auto.
Qed.

Lemma qxr_loop_lp : forall l s, qxr_lp s (state_of (forM_ l qxr_body s)).
Proof. intros l. apply (r2e_pres_forM qxr_lp qxr_lp_refl qxr_lp_trans). intros addr s. apply qxr_body_lp. Qed.

(** With valid entry addresses the loop succeeds and clears the cache id of the filter of every entry. *)
Lemma qxr_loop : forall l s, (forall addr, In addr l -> addr < length (w_cheap s)) ->
  exists s', forM_ l qxr_body s = Ok tt s' /\ qxr_lp s s' /\
    forall addr e f', In addr l -> nth_error (w_cheap s) addr = Some e ->
      nth_error (w_filters s') (ce_filter e) = Some f' -> f_cache f' = None.
Proof.
  intros l. induction l as [|addr l IH]; intros s Hv.
  - exists s. split; [reflexivity|]. split; [apply qxr_lp_refl|]. intros addr e f' [].
  - destruct (nth_error (w_cheap s) addr) as [e|] eqn:Ee.
    2:{ apply nth_error_None in Ee. specialize (Hv addr (or_introl eq_refl)). lia. }
    set (s1 := s <| w_filters ::= updf (ce_filter e) (fun f => f <| f_cache := None |>) |>).
    assert (E1 : qxr_body addr s = Ok tt s1) by (unfold qxr_body, bind, get; rewrite Ee; reflexivity).
    pose proof (qxr_body_lp addr s) as L1. rewrite E1 in L1. cbn [state_of] in L1.
    destruct (IH s1) as (s' & E2 & L2 & P2); [intros a Ha; apply Hv; right; exact Ha|].
    exists s'. split; [cbn [forM_]; rewrite (sa_bind_ok E1); exact E2|]. split; [apply (qxr_lp_trans s s1 s' L1 L2)|].
    intros a e0 f' [<-|Hin] He0 Hf'.
    + rewrite Ee in He0. injection He0 as <-. destruct L2 as (_ & _ & _ & _ & _ & _ & L2).
      destruct (L2 _ f' Hf') as (f1 & Hf1 & _ & _ & _ & Hc). cbn in Hf1.
      rewrite nth_error_updf, Nat.eqb_refl in Hf1. destruct (nth_error (w_filters s) (ce_filter e)) as [f0|]; [|discriminate].
      cbn in Hf1. injection Hf1 as <-. cbn in Hc. destruct Hc as [Hc|Hc]; exact Hc.
    + apply (P2 a e0 f' Hin He0 Hf').
Qed.

Lemma qxr_cache_reset_eq : forall s, cache_reset s =
  if is_nil (w_centries s) then Ok tt s
  else (forM_ (w_centries s) qxr_body ;;;
        modify (fun s => s <| w_centries := [] |> <| w_cpool := ipool_new |>)) s.
Proof. intros s. unfold cache_reset, bind at 1, get. destruct (is_nil (w_centries s)); reflexivity. Qed.

Lemma qxr_keep_cache_reset : qx_kpp cache_reset.
Proof.
  intros s. rewrite qxr_cache_reset_eq. destruct (is_nil (w_centries s)); [apply qx_keep_refl|]. split.
  - (* the index: registry, index and archetypes are not touched, whatever the outcome *)
    pose proof (qxr_loop_lp (w_centries s) s) as L. unfold bind.
    destruct (forM_ (w_centries s) qxr_body s) as [[] s1|er s1]; cbn [state_of] in L |- *;
      destruct L as (E1 & E2 & E3 & _); apply qx_CIw_same; cbn; try assumption; rewrite E3; reflexivity.
  - intros (HF0 & HX). destruct (qxr_loop (w_centries s) s (fl_valid s HF0)) as (s1 & E1 & L & P).
    rewrite (sa_bind_ok E1). unfold modify. cbn [state_of]. destruct L as (_ & _ & _ & Ep & Ec & Eh & Lf).
    assert (Hnone : forall i f', nth_error (w_filters s1) i = Some f' -> f_cache f' = None).
    { intros i f' Hf'. destruct (f_cache f') as [cid|] eqn:Ec'; [|reflexivity]. exfalso.
      destruct (Lf i f' Hf') as (f & Hf & _ & _ & _ & [Hc|Hc]); [|congruence].
      rewrite Ec' in Hc. destruct (HX i f cid Hf (eq_sym Hc)) as (addr & e & Hin & He & _ & Hfi).
      rewrite <- Hfi in Hf'. pose proof (P addr e f' Hin He Hf'). congruence. }
    split.
    + constructor; cbn; try (intros; contradiction); try reflexivity; try constructor.
      * intros i f' Hf'. destruct (Lf i f' Hf') as (f & Hf & E2 & E3 & _). rewrite E2, E3. apply (fl_built s HF0 i f Hf).
      * intros i f' cid Hf' Hc'. rewrite (Hnone i f' Hf') in Hc'. discriminate.
    + intros i f' cid Hf' Hc'. cbn in Hf'. rewrite (Hnone i f' Hf') in Hc'. discriminate.
Qed.

Lemma qxr_ckp_arch_reset : forall aid, qx_ckp (arch_reset aid).
Proof.
  intros aid. unfold arch_reset. qx_ck_tac. apply qx_ckp_modA. intros; reflexivity.
Qed.

(** Reset keeps the two clauses, in both outcomes. *)
Theorem qxr_keep_reset : qx_kpp w_reset.
Proof.
  unfold w_reset.
  apply qx_kpp_bind; [apply qx_kpp_ck, qx_ckp_ro, sc_ro_check_locked|]. intros _.
  apply qx_kpp_bind; [apply qx_kpp_ck; qx_same_mod|]. intros _.
  apply qx_kpp_bind; [apply qxr_keep_cache_reset|]. intros _.
  apply qx_kpp_ck. qx_ck_tac.
  all: first [qx_same_mod|apply qx_ckp_sp, oe_sp_reset_observers|apply qxr_ckp_arch_reset].
Qed.

(* ================================================================================================ *)
(** * Part 2: one step, all histories *)

Definition Inv2RF (s : W) (n k : nat) : Prop := Inv2R s n k /\ r2k_cidx_ok s /\ qx_FL s.

Lemma qxr_step_keep : forall debug wd s line o, decode_op line = Some o -> rel_r_op o = true -> qx_walk_ok s ->
  qx_keep s (fst (step debug wd s line)).
Proof.
  intros debug wd s line o Hd Hop Hwalk. unfold rel_r_op in Hop. destruct (rel_q_op o) eqn:Hq.
  - apply (qx_step_keep debug wd s line o Hd Hq Hwalk).
  - cbn [orb] in Hop. destruct o; try discriminate Hop.
    set (s0 := s <| w_log := [] |>).
    assert (H0 : qx_keep s s0) by (apply qx_keep_of_ck, qx_ck_same; reflexivity).
    apply (qx_keep_trans s s0 _ H0). rewrite (StorageD.sd_step_state_plain debug wd s line OReset Hd eq_refl eq_refl). fold s0.
    cbn [step_op]. rewrite r2q_state_bind_ret.
    pose proof (qxr_keep_reset s0) as H1. apply (qx_keep_ext s0 _ _ H1); reflexivity.
Qed.

Theorem step_inv2RF : forall debug wd s n k line o,
  Inv2RF s n k -> n + 4 < Nat.pow 2 31 -> decode_op line = Some o -> rel_r_op o = true ->
  (forall c, In c (rel_op_ids o) -> c < length (w_reg s)) -> rel_q_flt_ok (w_reg s) o ->
  (is_locked s = false -> r2r_foreign_ok k s o) ->
  let s' := fst (step debug wd s line) in
  Inv2RF s' (S n) (r2r_epoch k s o) /\ w_reg s' = w_reg s.
Proof.
  intros debug wd s n k line o (HI & HC & HF) Hn Hd Hop Hreg Hflt Hfor. cbv zeta.
  destruct (step_inv2R debug wd s n k line o HI Hn Hd Hop Hreg Hflt Hfor) as (S1 & S2 & _).
  split; [|exact S2]. split; [exact S1|].
  pose proof S1 as ((HW' & _) & _). pose proof HI as (HS & _ & _ & _ & HT & HFo & _). pose proof HS as (HW & _).
  destruct (qxr_step_keep debug wd s line o Hd Hop (qx_walk_ok_inv s HS HT HFo)) as (K1 & K2).
  split; [apply (qx_ok_of_CIw _ HW'), K1, (qx_CIw_of_ok s HW HC)|apply K2; exact HF].
Qed.

(** From ANY state satisfying the invariant every covered history keeps it. *)
Theorem qxr_run_inv : forall debug reg lines s n k,
  Inv2RF s n k -> w_reg s = reg -> rel_r_hist debug reg (s, k) lines -> n + length lines + 4 < Nat.pow 2 31 ->
  Inv2RF (fst (r2r_run_from debug (s, k) lines)) (n + length lines) (snd (r2r_run_from debug (s, k) lines)) /\
  w_reg (fst (r2r_run_from debug (s, k) lines)) = reg.
Proof.
  intros debug reg lines. induction lines as [|l lines IH]; intros s n k HI Hr HH Hb.
  - cbn. rewrite Nat.add_0_r. split; assumption.
  - cbn [rel_r_hist] in HH. destruct HH as ((o & Hd & Hop & Hids & Hflt & Hfor) & HH). cbn [length] in Hb.
    unfold r2r_run_from in *. cbn [fold_left]. cbn [fst snd] in Hfor.
    destruct (step_inv2RF debug false s n k l o HI) as (S1 & S2); auto; try lia.
    { rewrite Hr. exact Hids. }
    { rewrite Hr. exact Hflt. }
    unfold r2r_step in *. cbn [fst snd] in *. rewrite Hd in *.
    destruct (IH _ (S n) _ S1) as (A & B); [congruence|exact HH|lia|].
    cbn [length]. rewrite <- Nat.add_succ_comm. split; assumption.
Qed.

Theorem reachable_inv2RF : forall c lines,
  cfg_ok2 c -> rel_r_hist (sc_debug c) (sc_kinds c) (init_world c, 0) lines -> length lines + 4 < Nat.pow 2 31 ->
  Inv2RF (Properties.Common.exec c lines) (length lines) (r2r_epoch_of c lines).
Proof.
  intros c lines Hc HH Hb. rewrite <- r2r_run_exec. unfold r2r_epoch_of, r2r_run.
  destruct (qxr_run_inv (sc_debug c) (sc_kinds c) lines (init_world c) 0 0) as (A & _); auto.
  split; [apply r2r_Inv2R_of_Q; apply r2q_init; exact Hc|]. split; [apply r2k_cidx_init|apply qx_FL_init].
Qed.

(** ** The query theorems in every state of a history with Resets *)
Section qxr_reach.
Variable c : script_cfg.
Variable lines : list (list Z).
Hypothesis Hc : cfg_ok2 c.
Hypothesis Hl : rel_r_hist (sc_debug c) (sc_kinds c) (init_world c, 0) lines.
Hypothesis Hb : length lines + 4 < Nat.pow 2 31.
Let s := Properties.Common.exec c lines.

Theorem reachable_query_exact_R : forall fi f rels qi s1,
  nth_error (w_filters s) fi = Some f -> query_open fi rels s = Ok qi s1 ->
  let hd := match f_cache f with None => true | Some _ => false end in
  exists vis, qx_query_is s1 qi vis /\ NoDup vis /\
    (forall e, In e vis <-> qx_model hd s f (f_rels f ++ rels) e) /\
    Permutation vis (filter (qx_model_b hd s f (f_rels f ++ rels)) (qx_all_rows s)).
Proof.
  intros fi f rels qi s1 Hf Ho.
  destruct (reachable_inv2RF c lines Hc Hl Hb) as ((HS & _ & _ & _ & HT & _) & Hci & HFL).
  exact (qx_query_exact s fi f rels qi s1 HS HT Hci HFL Hf Ho).
Qed.

Theorem reachable_query_exact_typed_R : forall fi f rels qi s1,
  nth_error (w_filters s) fi = Some f -> f_unsafe f = false -> query_open fi rels s = Ok qi s1 ->
  exists vis, qx_query_is s1 qi vis /\ NoDup vis /\
    (forall e, In e vis <-> matches_spec s f (f_rels f ++ rels) e) /\
    Permutation vis (filter (matches_spec_b s f (f_rels f ++ rels)) (qx_all_rows s)).
Proof.
  intros fi f rels qi s1 Hf Hun Ho.
  destruct (reachable_inv2RF c lines Hc Hl Hb) as ((HS & _ & _ & _ & HT & HFo & _) & Hci & HFL).
  exact (qx_query_exact_typed s fi f rels qi s1 HS HT Hci HFL HFo Hf Hun Ho).
Qed.

Theorem reachable_query_exact_ok_R : forall fi f rels qi s1,
  nth_error (w_filters s) fi = Some f -> r2k_rels_ok s (f_mask f) rels -> query_open fi rels s = Ok qi s1 ->
  exists vis, qx_query_is s1 qi vis /\ NoDup vis /\ (forall e, In e vis <-> matches_spec s f (f_rels f ++ rels) e).
Proof.
  intros fi f rels qi s1 Hf Hok Ho.
  destruct (reachable_inv2RF c lines Hc Hl Hb) as ((HS & _ & _ & _ & HT & HFo & _) & Hci & HFL).
  exact (qx_query_exact_ok s fi f rels qi s1 HS HT Hci HFL HFo Hf Hok Ho).
Qed.
End qxr_reach.

(** Non-vacuity: the script of Rel2HistR (two Resets, a filter registered before a Reset, foreign handles). *)
Example qxr_script_inv :
  Inv2RF (Properties.Common.exec Rel2Check.r2_cfg r2r_script) (length r2r_script) (r2r_epoch_of Rel2Check.r2_cfg r2r_script).
Proof.
  apply reachable_inv2RF; [exact r2q_cfg_ok|apply rel_r_hist_b_sound; exact r2r_script_covered|].
  apply r2_N_small. vm_compute. reflexivity.
Qed.

(** ... and the state right after the first Reset (step 9): the filter registered before is unregistered again,
    the entry list is empty, the id pool restarted; the archetypes and the component index are still there. *)
Example qxr_after_reset :
  let s := Properties.Common.exec Rel2Check.r2_cfg (firstn 9 r2r_script) in
  let s0 := Properties.Common.exec Rel2Check.r2_cfg (firstn 8 r2r_script) in
  (exists k, Inv2RF s 9 k) /\ map f_cache (w_filters s0) = [Some 0] /\ map f_cache (w_filters s) = [None] /\
  w_centries s = [] /\ w_compindex s = w_compindex s0 /\ w_compindex s <> repeat [] (length (w_reg s)) /\ qx_all_rows s = [].
Proof.
  cbv zeta. split; [|vm_compute; repeat split; try reflexivity; discriminate].
  eexists. apply (reachable_inv2RF Rel2Check.r2_cfg (firstn 9 r2r_script)); [exact r2q_cfg_ok|apply r2r_script_hist|].
  apply r2_N_small. vm_compute. reflexivity.
Qed.

Definition qxr_all := (qxr_keep_reset, step_inv2RF, qxr_run_inv, reachable_inv2RF, reachable_query_exact_R,
  reachable_query_exact_typed_R, reachable_query_exact_ok_R, qxr_script_inv, qxr_after_reset).
Print Assumptions qxr_all.
