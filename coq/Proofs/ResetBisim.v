(** * ResetBisim: work package X: "after Reset every history has the same outcome as on a new world"
    (property C16, second sentence), as a BISIMULATION on the model. Helper prefix [rb_].

    Abstract content of a world: [live], [val], [tgt] (functions on entities, compared extensionally:
    [rb_abs_eq]), plus the pool (identity of the next handles) and the registry.

      [Sim s1 s2 := rb_side s1 /\ rb_side s2 /\ w_pool s1 = w_pool s2 /\ w_reg s1 = w_reg s2 /\ rb_abs_eq s1 s2]
      [rb_side s := St2 s /\ r2d_KeysLive s /\ r2e_quiet s /\ r2r_ids2 s]   (invariant, no observers, unlocked)

    Nothing is said about archetypes, tables, filter objects, the cache or the list of issued handles: the
    world after a Reset retains all of these. See the summary at the end of the file. *)
From Ark Require Import Model.Base Model.Mask Model.Pool Model.Util Model.World Model.Run.
From Ark Require Import Proofs.TableProofs Proofs.MaskProofs Proofs.Hoare Proofs.WF Proofs.StorageA Proofs.StorageBDefs
  Proofs.StorageB_sb1 Proofs.StorageB_sb2 Proofs.StorageB_sb3 Proofs.LockWorld Proofs.StorageC Proofs.RelProofs
  Proofs.CacheProofs Proofs.QueryProofs Proofs.ResetShrinkProofs Proofs.BatchProofs
  Proofs.Rel2Defs Proofs.Rel2Struct Proofs.Rel2Remove Proofs.Rel2SetRel Proofs.Rel2Ops Proofs.Rel2Maint Proofs.Rel2Hist
  Proofs.Rel2Cache Proofs.Rel2HistQ Proofs.Rel2HistR.
From Ark Require Properties.Common Proofs.Rel2Check.
From RecordUpdate Require Import RecordSet.
Import RecordSetNotations.
From Coq Require Import Lia.
Close Scope Z_scope.

(* ================================================================================================ *)
(** * Part 1: abstract content and the simulation relation *)

Definition rb_abs_eq (s1 s2 : W) : Prop :=
  (forall e, live s1 e = live s2 e) /\ (forall e c, val s1 e c = val s2 e c) /\ (forall e c, tgt s1 e c = tgt s2 e c).

Definition rb_side (s : W) : Prop := St2 s /\ r2d_KeysLive s /\ r2e_quiet s /\ r2r_ids2 s.

Definition Sim (s1 s2 : W) : Prop :=
  rb_side s1 /\ rb_side s2 /\ w_pool s1 = w_pool s2 /\ w_reg s1 = w_reg s2 /\ rb_abs_eq s1 s2.

Lemma rb_abs_refl : forall s, rb_abs_eq s s.
Proof. intros s. repeat split. Qed.

Lemma rb_abs_sym : forall s1 s2, rb_abs_eq s1 s2 -> rb_abs_eq s2 s1.
Proof. intros s1 s2 (A & B & C). repeat split; intros; symmetry; auto. Qed.

Lemma rb_abs_trans : forall s1 s2 s3, rb_abs_eq s1 s2 -> rb_abs_eq s2 s3 -> rb_abs_eq s1 s3.
Proof.
  intros s1 s2 s3 (A & B & C) (A' & B' & C'). repeat split; intros.
  - rewrite A. apply A'.
  - rewrite B. apply B'.
  - rewrite C. apply C'.
Qed.

Lemma Sim_sym : forall s1 s2, Sim s1 s2 -> Sim s2 s1.
Proof. intros s1 s2 (A & B & C & D & E). repeat (split; [first [assumption|symmetry; assumption]|]). apply rb_abs_sym. exact E. Qed.

(** content unchanged *)
Lemma rb_abs_of_same : forall s s', content_same s s' -> r2c_tgt_same s s' -> rb_abs_eq s s'.
Proof.
  intros s s' C T. split; [intros e; symmetry; apply (proj1 (C e))|].
  split; [intros e c; symmetry; apply (proj2 (C e))|intros e c; symmetry; apply T].
Qed.

(** the post-state of an operation on ONE entity: [e] is described, everybody else is as before *)
Definition rb_desc (s s' : W) (e : ent) (l : bool) (fv : nat -> option Z) (ft : nat -> option ent) : Prop :=
  live s' e = l /\ (forall c, val s' e c = fv c) /\ (forall c, tgt s' e c = ft c) /\ r2c_others_same s s' e.

Lemma rb_desc_eq : forall s1 s2 t1 t2 e l fv1 ft1 fv2 ft2, rb_abs_eq s1 s2 ->
  rb_desc s1 t1 e l fv1 ft1 -> rb_desc s2 t2 e l fv2 ft2 ->
  (forall c, fv1 c = fv2 c) -> (forall c, ft1 c = ft2 c) -> rb_abs_eq t1 t2.
Proof.
  intros s1 s2 t1 t2 e l fv1 ft1 fv2 ft2 (A & B & C) (L1 & V1 & T1 & O1) (L2 & V2 & T2 & O2) Hv Ht.
  assert (D : forall x, x = e \/ x <> e).
  { intros x. destruct (ent_eqb x e) eqn:Ex; [left; apply sa_ent_eqb_eq; exact Ex|].
    right. intros ->. rewrite sa_ent_eqb_refl in Ex. discriminate. }
  split; [|split].
  - intros x. destruct (D x) as [->|Hne]; [congruence|].
    rewrite (proj1 (O1 x Hne)), (proj1 (O2 x Hne)). apply A.
  - intros x c. destruct (D x) as [->|Hne]; [rewrite V1, V2; apply Hv|].
    rewrite (proj1 (proj2 (O1 x Hne))), (proj1 (proj2 (O2 x Hne))). apply B.
  - intros x c. destruct (D x) as [->|Hne]; [rewrite T1, T2; apply Ht|].
    rewrite (proj2 (proj2 (O1 x Hne))), (proj2 (proj2 (O2 x Hne))). apply C.
Qed.

(** what the two results of one operation have to agree on: outcome kind, result, pool, content *)
Definition rb_res {A} (r1 r2 : res W A) : Prop :=
  match r1, r2 with
  | Ok a1 t1, Ok a2 t2 => a1 = a2 /\ w_pool t1 = w_pool t2 /\ rb_abs_eq t1 t2
  | Err _ t1, Err _ t2 => w_pool t1 = w_pool t2 /\ rb_abs_eq t1 t2
  | _, _ => False
  end.

(** the same, results not compared (Shrink, Stats: see Part 6) *)
Definition rb_res_weak {A} (r1 r2 : res W A) : Prop :=
  match r1, r2 with
  | Ok _ t1, Ok _ t2 => w_pool t1 = w_pool t2 /\ rb_abs_eq t1 t2
  | Err _ t1, Err _ t2 => w_pool t1 = w_pool t2 /\ rb_abs_eq t1 t2
  | _, _ => False
  end.

Lemma rb_res_weaken : forall A (r1 r2 : res W A), rb_res r1 r2 -> rb_res_weak r1 r2.
Proof. intros A [a1 t1|e1 t1] [a2 t2|e2 t2] H; cbn in *; tauto. Qed.

Lemma rb_res_err : forall A e1 e2 s1 s2, w_pool s1 = w_pool s2 -> rb_abs_eq s1 s2 -> @rb_res A (Err e1 s1) (Err e2 s2).
Proof. intros. split; assumption. Qed.

(* ================================================================================================ *)
(** * Part 2: handles *)

(** [resolveR] as a pure function *)
Fixpoint rb_resolve (s : W) (hrels : list hrel) : option (list rel) :=
  match hrels with
  | [] => Some []
  | hr :: t =>
      match handle s (snd hr), rb_resolve s t with
      | Some e, Some rels => Some ((fst hr, e) :: rels)
      | _, _ => None
      end
  end.

Lemma rb_resolveR : forall hrels s,
  exists er, resolveR hrels s = match rb_resolve s hrels with Some rels => Ok rels s | None => Err er s end.
Proof.
  intros hrels s. unfold resolveR. induction hrels as [|[c h] rest IH]; cbn [mapM rb_resolve].
  - exists EMisuse. reflexivity.
  - set (f := fun r : hrel => e <- resolveH (snd r);; ret (fst r, e)) in *.
    assert (Ef : f (c, h) s = match handle s h with Some e => Ok (c, e) s | None => Err EMisuse s end).
    { unfold f, bind. cbn [snd fst]. rewrite sc_resolveH. destruct (handle s h); reflexivity. }
    cbn [fst snd]. destruct (handle s h) as [e|] eqn:Hh.
    + rewrite (sa_bind_ok Ef). destruct IH as (er & IH). destruct (rb_resolve s rest) as [rels|].
      * exists er. rewrite (sa_bind_ok IH). reflexivity.
      * exists er. rewrite (sa_bind_err IH). reflexivity.
    + exists EMisuse. rewrite (sa_bind_err Ef). reflexivity.
Qed.

Lemma rb_resolve_resolved : forall s hrels rels, rb_resolve s hrels = Some rels -> r2e_resolved s hrels rels.
Proof.
  intros s hrels. induction hrels as [|[c h] rest IH]; intros rels H; cbn [rb_resolve] in H.
  - injection H as <-. constructor.
  - cbn [fst snd] in H. destruct (handle s h) as [e|] eqn:Hh; [|discriminate].
    destruct (rb_resolve s rest) as [r0|]; [|discriminate]. injection H as <-.
    constructor; [split; [reflexivity|exact Hh]|apply IH; reflexivity].
Qed.

(** two handle lists that denote the same relations in the two worlds *)
Definition rb_hrels (s1 s2 : W) (l1 l2 : list hrel) : Prop :=
  Forall2 (fun hr1 hr2 : hrel => fst hr1 = fst hr2 /\ handle s1 (snd hr1) = handle s2 (snd hr2)) l1 l2.

Lemma rb_hrels_resolve : forall s1 s2 l1 l2, rb_hrels s1 s2 l1 l2 -> rb_resolve s1 l1 = rb_resolve s2 l2.
Proof.
  intros s1 s2 l1 l2 H. induction H as [|[c1 h1] [c2 h2] l1 l2 (Hc & Hh) _ IH]; [reflexivity|].
  cbn [rb_resolve fst snd] in *. subst c2. rewrite Hh, IH. reflexivity.
Qed.

(** the operations of the core class, argument by argument: same constructor, same plain arguments,
    handles that denote the same entity (or are unknown in both worlds) *)
Definition rb_op_rel (s1 s2 : W) (o1 o2 : op) : Prop :=
  match o1, o2 with
  | ONewEntity, ONewEntity => True
  | OUNew a, OUNew b => a = b
  | OUNewRel a r1, OUNewRel b r2 => a = b /\ rb_hrels s1 s2 r1 r2
  | OCopy h1, OCopy h2 => handle s1 h1 = handle s2 h2
  | OUAdd h1 a, OUAdd h2 b => handle s1 h1 = handle s2 h2 /\ a = b
  | OUAddRel h1 a r1, OUAddRel h2 b r2 => handle s1 h1 = handle s2 h2 /\ a = b /\ rb_hrels s1 s2 r1 r2
  | OURemove h1 a, OURemove h2 b => handle s1 h1 = handle s2 h2 /\ a = b
  | OUExchange h1 a x r1, OUExchange h2 b y r2 => handle s1 h1 = handle s2 h2 /\ a = b /\ x = y /\ rb_hrels s1 s2 r1 r2
  | OWrite h1 c v, OWrite h2 c' v' => handle s1 h1 = handle s2 h2 /\ c = c' /\ v = v'
  | OUSetRel h1 r1, OUSetRel h2 r2 => handle s1 h1 = handle s2 h2 /\ rb_hrels s1 s2 r1 r2
  | ORemoveEntity h1, ORemoveEntity h2 => handle s1 h1 = handle s2 h2
  | OShrink a, OShrink b => a = b
  | OAlive h1, OAlive h2 => handle s1 h1 = handle s2 h2
  | OHas h1 c, OHas h2 c' => handle s1 h1 = handle s2 h2 /\ c = c'
  | OGetRel h1 c, OGetRel h2 c' => handle s1 h1 = handle s2 h2 /\ c = c'
  | OIDs h1, OIDs h2 => handle s1 h1 = handle s2 h2
  | OGet h1 c, OGet h2 c' => handle s1 h1 = handle s2 h2 /\ c = c'
  | OStats, OStats => True
  | _, _ => False
  end.

(** after the handle: both fail without effect, or both go on with the same entity *)
Lemma rb_resolved_h : forall A (P : res W A -> res W A -> Prop) s1 s2 h1 h2 (k1 k2 : ent -> MW A),
  handle s1 h1 = handle s2 h2 ->
  (forall e1 e2, P (Err e1 s1) (Err e2 s2)) ->
  (forall e, handle s1 h1 = Some e -> P (k1 e s1) (k2 e s2)) ->
  P ((e <- resolveH h1 ;; k1 e) s1) ((e <- resolveH h2 ;; k2 e) s2).
Proof.
  intros A P s1 s2 h1 h2 k1 k2 Hh He Hk. unfold bind. rewrite !sc_resolveH, <- Hh.
  destruct (handle s1 h1) as [e|]; [apply Hk; reflexivity|apply He].
Qed.

Lemma rb_resolved_r : forall A (P : res W A -> res W A -> Prop) s1 s2 l1 l2 (k1 k2 : list rel -> MW A),
  rb_hrels s1 s2 l1 l2 ->
  (forall e1 e2, P (Err e1 s1) (Err e2 s2)) ->
  (forall rels, rb_resolve s1 l1 = Some rels -> rb_resolve s2 l2 = Some rels -> P (k1 rels s1) (k2 rels s2)) ->
  P ((rels <- resolveR l1 ;; k1 rels) s1) ((rels <- resolveR l2 ;; k2 rels) s2).
Proof.
  intros A P s1 s2 l1 l2 k1 k2 Hh He Hk. pose proof (rb_hrels_resolve s1 s2 l1 l2 Hh) as E.
  destruct (rb_resolveR l1 s1) as (er1 & E1). destruct (rb_resolveR l2 s2) as (er2 & E2).
  rewrite <- E in E2. destruct (rb_resolve s1 l1) as [rels|] eqn:R.
  - rewrite (sa_bind_ok E1), (sa_bind_ok E2). apply Hk; [reflexivity|symmetry; exact E].
  - rewrite (sa_bind_err E1), (sa_bind_err E2). apply He.
Qed.

(* ================================================================================================ *)
(** * Part 3: which id the pool hands out (the specifications of Rel2Ops / Rel2Maint say "some entity that was
      not stored"; here: exactly [fst (pool_get (w_pool s))], and the pool afterwards is [snd (pool_get _)]) *)

Lemma rb_bind_inv : forall A B (m : MW A) (k : A -> MW B) s b s', bind m k s = Ok b s' ->
  exists a t, m s = Ok a t /\ k a t = Ok b s'.
Proof. intros A B m k s b s' H. unfold bind in H. destruct (m s) as [a t|er t]; [exists a, t; auto|discriminate]. Qed.

Definition rb_rv {A} (pr : A -> ent) (e : ent) (m : MW A) : Prop := forall s a s', m s = Ok a s' -> pr a = e.
Definition rb_px {A} (pr : A -> ent) (m : MW A) : Prop :=
  forall s a s', m s = Ok a s' -> pr a = fst (pool_get (w_pool s)) /\ w_pool s' = snd (pool_get (w_pool s)).

Lemma rb_rv_bind : forall A B pr e (m : MW A) (k : A -> MW B), (forall a, rb_rv pr e (k a)) -> rb_rv pr e (bind m k).
Proof. intros A B pr e m k Hk s b s' H. apply rb_bind_inv in H. destruct H as (a & t & _ & H). apply (Hk a t b s' H). Qed.
Lemma rb_rv_ret : forall A (pr : A -> ent) a, rb_rv pr (pr a) (ret a).
Proof. intros A pr a s b s' H. inversion H; reflexivity. Qed.

Lemma rb_px_bind_ro : forall A B pr (m : MW A) (k : A -> MW B), readonly m -> (forall a, rb_px pr (k a)) -> rb_px pr (bind m k).
Proof.
  intros A B pr m k Hm Hk s b s' H. apply rb_bind_inv in H. destruct H as (a & t & E & H).
  pose proof (Hm s) as Hs. rewrite E in Hs. cbn [state_of] in Hs. subst t. apply (Hk a s b s' H).
Qed.

Lemma rb_px_getM : forall A pr (k : ent -> MW A), (forall e, sc_pk (k e)) -> (forall e, rb_rv pr e (k e)) -> rb_px pr (bind pool_getM k).
Proof.
  intros A pr k Hk Hr s a s' H. unfold pool_getM, bind, get, put, ret in H.
  destruct (pool_get (w_pool s)) as [e p'] eqn:Eg. cbn [fst snd]. cbv beta iota in H.
  split; [apply (Hr e _ a s' H)|]. change s' with (state_of (Ok a s' : res W A)). rewrite <- H. rewrite (Hk e). reflexivity.
Qed.

Lemma rb_px_create_entity : forall tid, rb_px (fun e => e) (create_entity tid).
Proof.
  intros tid. unfold create_entity. apply rb_px_getM.
  - intros e. apply sc_pk_bind; [apply sc_pk_tbl_addM|]. intros idx.
    apply sc_pk_bind; [apply sc_pk_set_index|]. intros _.
    apply sc_pk_bind; [apply sc_pk_modify; reflexivity|]. intros _. apply sc_pk_ro, readonly_ret.
  - intros e. apply rb_rv_bind. intros idx. apply rb_rv_bind. intros _. apply rb_rv_bind. intros _.
    apply (rb_rv_ret ent (fun e => e) e).
Qed.

Lemma rb_px_copy_entity : forall e, rb_px (fun e => e) (w_copy_entity e).
Proof.
  intros e. unfold w_copy_entity.
  apply rb_px_bind_ro; [apply sc_ro_check_locked|]. intros _.
  apply rb_px_bind_ro; [apply readonly_get|]. intros s0.
  apply rb_px_bind_ro; [apply readonly_guard|]. intros _.
  apply rb_px_getM.
  - intros ne.
    apply sc_pk_bind; [apply sc_pk_ro, readonly_get_index|]. intros [tid row].
    apply sc_pk_bind; [apply sc_pk_tbl_addM|]. intros idx.
    apply sc_pk_bind; [apply sc_pk_set_index|]. intros _.
    apply sc_pk_bind; [apply sc_pk_copy_all|]. intros _.
    apply sc_pk_bind; [apply sc_pk_getT|]. intros t.
    apply sc_pk_bind; [apply sc_pk_getA|]. intros a.
    apply sc_pk_bind; [apply sc_pk_fire_create|]. intros _.
    apply sc_pk_bind; [|intros _; apply sc_pk_ro, readonly_ret].
    apply sc_pk_sp. apply sa_sp_whenM. apply sc_sp_fire_create_rel.
  - intros ne. apply rb_rv_bind. intros [tid row]. do 7 (apply rb_rv_bind; intros ?).
    apply (rb_rv_ret ent (fun e => e) ne).
Qed.

Lemma rb_pk_register_targets : forall rels, sc_pk (register_targets rels).
Proof.
  intros rels. unfold register_targets. apply sc_pk_forM. intros r.
  apply sc_pk_bind; [apply sc_pk_ro, readonly_get|]. intros s0.
  apply sc_pk_bind; [apply sc_pk_ro, readonly_guard|]. intros _. apply sc_pk_modify. reflexivity.
Qed.

Lemma rb_new_entity_pool : forall ids rels s e m s', r2e_noobs s -> new_entity ids rels s = Ok (e, m) s' ->
  e = fst (pool_get (w_pool s)) /\ w_pool s' = snd (pool_get (w_pool s)).
Proof.
  intros ids rels s e m s' Hn H. unfold new_entity in H.
  apply rb_bind_inv in H. destruct H as (u & t0 & E0 & H).
  pose proof (sc_ro_check_locked s) as R0. rewrite E0 in R0. cbn [state_of] in R0. subst t0.
  apply rb_bind_inv in H. destruct H as ([[tid aid] m0] & t1 & E1 & H).
  pose proof (r2e_fkp_find_add 0 ids rels 0%N s) as F. rewrite E1 in F. cbn [state_of] in F.
  destruct (F Hn) as (_ & _ & _ & Ep). rewrite <- Ep.
  assert (PX : rb_px (fun r : ent * mask => fst r)
                 (e <- pool_getM ;; idx <- tbl_addM tid e ;; set_index (fst e) (Some tid, idx) ;;;
                  register_targets rels ;;; a <- getA aid ;; ret (e, a_mask a))).
  { apply rb_px_getM.
    - intros x. apply sc_pk_bind; [apply sc_pk_tbl_addM|]. intros idx.
      apply sc_pk_bind; [apply sc_pk_set_index|]. intros _.
      apply sc_pk_bind; [apply rb_pk_register_targets|]. intros _.
      apply sc_pk_bind; [apply sc_pk_getA|]. intros a. apply sc_pk_ro, readonly_ret.
    - intros x. do 4 (apply rb_rv_bind; intros ?). apply (rb_rv_ret (ent * mask) (fun r => fst r) (x, a_mask a2)). }
  apply (PX t1 (e, m) s' H).
Qed.

(* ================================================================================================ *)
(** * Part 4: the operations, one by one: outcome kind, result, pool and content agree *)

Lemma rb_tail : forall A B (r1 r2 : res W A) (k1 k2 : A -> MW B), rb_res_weak r1 r2 ->
  (forall a1 a2 t1 t2, r1 = Ok a1 t1 -> r2 = Ok a2 t2 -> exists b, k1 a1 t1 = Ok b t1 /\ k2 a2 t2 = Ok b t2) ->
  rb_res (match r1 with Ok a t => k1 a t | Err e t => Err e t end) (match r2 with Ok a t => k2 a t | Err e t => Err e t end).
Proof.
  intros A B [a1 t1|e1 t1] [a2 t2|e2 t2] k1 k2 H Hk; cbn in H; try contradiction.
  - destruct (Hk a1 a2 t1 t2 eq_refl eq_refl) as (b & -> & ->). split; [reflexivity|exact H].
  - exact H.
Qed.

Lemma rb_tailb : forall A B (m1 m2 : MW A) (k1 k2 : A -> MW B) s1 s2, rb_res_weak (m1 s1) (m2 s2) ->
  (forall a1 a2 t1 t2, m1 s1 = Ok a1 t1 -> m2 s2 = Ok a2 t2 -> exists b, k1 a1 t1 = Ok b t1 /\ k2 a2 t2 = Ok b t2) ->
  rb_res (bind m1 k1 s1) (bind m2 k2 s2).
Proof. intros A B m1 m2 k1 k2 s1 s2 H Hk. unfold bind. apply (rb_tail _ _ _ _ _ _ H Hk). Qed.

Lemma rb_alive_eq : forall s1 s2 e, w_pool s1 = w_pool s2 -> alive s1 e = alive s2 e.
Proof. intros s1 s2 e H. unfold alive. rewrite H. reflexivity. Qed.

Lemma rb_is_rel_eq : forall s1 s2 c, w_reg s1 = w_reg s2 -> is_rel_comp s1 c = is_rel_comp s2 c.
Proof. intros s1 s2 c H. unfold is_rel_comp. rewrite H. reflexivity. Qed.

Lemma rb_kind_eq : forall s1 s2 c, w_reg s1 = w_reg s2 -> kind_of s1 c = kind_of s2 c.
Proof. intros s1 s2 c H. unfold kind_of. rewrite H. reflexivity. Qed.

Lemma rb_rels_ok_eq : forall s1 s2 add rels, w_reg s1 = w_reg s2 -> (forall e, live s1 e = live s2 e) ->
  r2a_rels_ok s1 add rels -> r2a_rels_ok s2 add rels.
Proof.
  intros s1 s2 add rels Hr Hl (A & B & C). split; [exact A|]. split.
  - intros r Hin. destruct (B r Hin) as (B1 & B2). split; [exact B1|]. rewrite <- (rb_is_rel_eq s1 s2 _ Hr). exact B2.
  - intros r Hin. destruct (C r Hin) as [C1|C1]; [left; exact C1|right; rewrite <- Hl; exact C1].
Qed.

Lemma rb_complete_eq : forall s1 s2 add rels, w_reg s1 = w_reg s2 ->
  r2a_rels_complete s1 add rels -> r2a_rels_complete s2 add rels.
Proof. intros s1 s2 add rels Hr H c Hc Hrel. apply (H c Hc). rewrite (rb_is_rel_eq s1 s2 _ Hr). exact Hrel. Qed.

Ltac rb_sim H :=
  destruct H as ((HS1 & HK1 & (Hno1 & Hl1) & Hid1) & (HS2 & HK2 & (Hno2 & Hl2) & Hid2) & Hpool & Hreg & (Al & Av & At)).

Section rb_ops.
Variables (debug : bool) (s1 s2 : W).
Hypothesis HSim : Sim s1 s2.
Hypothesis Hroom : room s1.

Lemma rb_room2 : room s2.
Proof. rb_sim HSim. unfold room in *. rewrite <- Hpool. exact Hroom. Qed.

Lemma rb_abs12 : rb_abs_eq s1 s2.
Proof. apply HSim. Qed.

(** both calls rejected *)
Lemma rb_rej_rej : forall t1 t2, r2c_rejected s1 t1 -> r2c_rejected s2 t2 -> w_pool t1 = w_pool t2 /\ rb_abs_eq t1 t2.
Proof.
  intros t1 t2 (_ & C1 & T1 & P1 & _) (_ & C2 & T2 & P2 & _). rb_sim HSim.
  split; [congruence|].
  apply (rb_abs_trans t1 s1 t2); [apply rb_abs_sym, rb_abs_of_same; assumption|].
  apply (rb_abs_trans s1 s2 t2); [repeat split; assumption|apply rb_abs_of_same; assumption].
Qed.

Lemma rb_refl_res : forall A e1 e2, @rb_res A (Err e1 s1) (Err e2 s2).
Proof. intros. rb_sim HSim. split; [exact Hpool|repeat split; assumption]. Qed.

(** *** Remove *)
Lemma rb_c_remove : forall e rem, rb_res (w_remove e rem s1) (w_remove e rem s2).
Proof.
  intros e rem. pose proof (r2a_remove_spec s1 e rem (proj1 (proj1 HSim)) Hroom) as H1.
  pose proof (r2a_remove_spec s2 e rem (proj1 (proj1 (proj2 HSim))) rb_room2) as H2.
  pose proof rb_abs12 as Habs. rb_sim HSim.
  destruct (w_remove e rem s1) as [[] t1|er1 t1], (w_remove e rem s2) as [[] t2|er2 t2]; cbn [rb_res].
  - destruct H1 as (_ & _ & _ & _ & _ & _ & L1 & V1 & T1 & O1 & P1 & _).
    destruct H2 as (_ & _ & _ & _ & _ & _ & L2 & V2 & T2 & O2 & P2 & _).
    split; [reflexivity|]. split; [congruence|].
    apply (rb_desc_eq s1 s2 t1 t2 e true _ _ _ _ Habs (conj L1 (conj V1 (conj T1 O1))) (conj L2 (conj V2 (conj T2 O2)))).
    + intros c. rewrite Av. reflexivity.
    + intros c. rewrite At. reflexivity.
  - destruct H1 as (_ & _ & L & Hne & Hnd & Hv & _). destruct H2 as (_ & [C|[C|[C|[C|[C|C]]]]]).
    + congruence.
    + rewrite <- Al in C. congruence.
    + contradiction.
    + apply C. split; [exact Hnd|]. intros c Hc. rewrite <- Av. apply Hv. exact Hc.
    + rewrite Hno2 in C. discriminate.
    + rewrite Hno2 in C. discriminate.
  - destruct H2 as (_ & _ & L & Hne & Hnd & Hv & _). destruct H1 as (_ & [C|[C|[C|[C|[C|C]]]]]).
    + congruence.
    + rewrite Al in C. congruence.
    + contradiction.
    + apply C. split; [exact Hnd|]. intros c Hc. rewrite Av. apply Hv. exact Hc.
    + rewrite Hno1 in C. discriminate.
    + rewrite Hno1 in C. discriminate.
  - apply rb_rej_rej; [apply H1|apply H2].
Qed.

(** *** Add *)
Lemma rb_c_add : forall e add rels, registered s1 add -> r2a_rels_ok s1 add rels ->
  rb_res_weak (w_add e add rels s1) (w_add e add rels s2) /\
  (forall a t, w_add e add rels s1 = Ok a t -> r2e_noobs t) /\ (forall a t, w_add e add rels s2 = Ok a t -> r2e_noobs t).
Proof.
  intros e add rels Hrg Hok. pose proof rb_abs12 as Habs. pose proof rb_room2 as Hroom2. rb_sim HSim.
  assert (Hrg2 : registered s2 add) by (intros c Hc; rewrite <- Hreg; apply Hrg; exact Hc).
  assert (Hok2 : r2a_rels_ok s2 add rels) by (apply (rb_rels_ok_eq s1 s2); assumption).
  pose proof (r2a_add_spec s1 e add rels HS1 Hroom Hrg Hok) as H1.
  pose proof (r2a_add_spec s2 e add rels HS2 Hroom2 Hrg2 Hok2) as H2.
  destruct (w_add e add rels s1) as [[om1 nm1] t1|er1 t1], (w_add e add rels s2) as [[om2 nm2] t2|er2 t2]; cbn [rb_res_weak].
  - destruct H1 as (_ & _ & _ & _ & _ & _ & _ & L1 & V1 & T1 & _ & _ & O1 & P1 & Sd1 & _).
    destruct H2 as (_ & _ & _ & _ & _ & _ & _ & L2 & V2 & T2 & _ & _ & O2 & P2 & Sd2 & _).
    split; [split; [congruence|]|].
    + apply (rb_desc_eq s1 s2 t1 t2 e true _ _ _ _ Habs (conj L1 (conj V1 (conj T1 O1))) (conj L2 (conj V2 (conj T2 O2)))).
      * intros c. rewrite Av. reflexivity.
      * intros c. rewrite At. reflexivity.
    + split; intros a t E; inversion E; subst; [apply (r2e_noobs_side s1 _ Sd1 Hno1)|apply (r2e_noobs_side s2 _ Sd2 Hno2)].
  - exfalso. destruct H1 as (_ & _ & L & Hne & Hnd & Hv & Hc & _). destruct H2 as (_ & [C|[C|[C|C]]]).
    + congruence.
    + rewrite <- Al in C. congruence.
    + contradiction.
    + apply C. split; [exact Hnd|]. split; [intros c Hin; rewrite <- Av; apply Hv; exact Hin|].
      apply (rb_complete_eq s1 s2); assumption.
  - exfalso. destruct H2 as (_ & _ & L & Hne & Hnd & Hv & Hc & _). destruct H1 as (_ & [C|[C|[C|C]]]).
    + congruence.
    + rewrite Al in C. congruence.
    + contradiction.
    + apply C. split; [exact Hnd|]. split; [intros c Hin; rewrite Av; apply Hv; exact Hin|].
      apply (rb_complete_eq s2 s1); [symmetry|]; assumption.
  - split; [apply rb_rej_rej; [apply H1|apply H2]|]. split; intros a t E; discriminate.
Qed.

(** *** Exchange *)
Lemma rb_exchange_nil : forall e rels s a t, w_exchange e [] [] rels s <> Ok a t.
Proof.
  intros e rels s a t. unfold w_exchange, check_locked, bind, get. destruct (negb (is_locked s)); cbn [guard]; [|discriminate].
  unfold ret at 1. destruct (alive s e); cbn [guard]; [|discriminate]. unfold ret at 1. cbn. discriminate.
Qed.

Lemma rb_c_exchange : forall e add rm rels, registered s1 add -> r2a_rels_ok s1 add rels ->
  rb_res_weak (w_exchange e add rm rels s1) (w_exchange e add rm rels s2) /\
  (forall a t, w_exchange e add rm rels s1 = Ok a t -> r2e_noobs t) /\ (forall a t, w_exchange e add rm rels s2 = Ok a t -> r2e_noobs t).
Proof.
  intros e add rm rels Hrg Hok. pose proof rb_abs12 as Habs. pose proof rb_room2 as Hroom2. rb_sim HSim.
  assert (Hrg2 : registered s2 add) by (intros c Hc; rewrite <- Hreg; apply Hrg; exact Hc).
  assert (Hok2 : r2a_rels_ok s2 add rels) by (apply (rb_rels_ok_eq s1 s2); assumption).
  pose proof (r2a_exchange_spec s1 e add rm rels HS1 Hroom Hrg Hok) as H1.
  pose proof (r2a_exchange_spec s2 e add rm rels HS2 Hroom2 Hrg2 Hok2) as H2.
  pose proof (r2e_fkp_w_exchange e add rm rels s1) as F1. pose proof (r2e_fkp_w_exchange e add rm rels s2) as F2.
  destruct (w_exchange e add rm rels s1) as [[om1 nm1] t1|er1 t1] eqn:Ex1, (w_exchange e add rm rels s2) as [[om2 nm2] t2|er2 t2] eqn:Ex2;
    cbn [rb_res_weak state_of] in *.
  - destruct H1 as (_ & _ & _ & _ & _ & _ & _ & _ & L1 & V1 & T1 & _ & _ & O1 & P1 & _).
    destruct H2 as (_ & _ & _ & _ & _ & _ & _ & _ & L2 & V2 & T2 & _ & _ & O2 & P2 & _).
    split; [split; [congruence|]|].
    + apply (rb_desc_eq s1 s2 t1 t2 e true _ _ _ _ Habs (conj L1 (conj V1 (conj T1 O1))) (conj L2 (conj V2 (conj T2 O2)))).
      * intros c. rewrite Av. reflexivity.
      * intros c. rewrite At. reflexivity.
    + split; intros a t E; inversion E; subst;
        [apply (r2e_noobs_side s1 _ (proj1 (F1 Hno1)) Hno1)|apply (r2e_noobs_side s2 _ (proj1 (F2 Hno2)) Hno2)].
  - exfalso. destruct H1 as (_ & _ & L & Hnda & Hndr & Hvr & Hva & Hc & _). destruct H2 as (_ & [C|[C|[C|[C|[C|C]]]]]).
    + congruence.
    + rewrite <- Al in C. congruence.
    + destruct C as (-> & ->). apply (rb_exchange_nil e rels s1 _ _ Ex1).
    + apply C. split; [exact Hnda|]. split; [exact Hndr|].
      split; [intros c Hin; rewrite <- Av; apply Hvr; exact Hin|].
      split; [intros c Hin; rewrite <- Av; apply Hva; exact Hin|]. apply (rb_complete_eq s1 s2); assumption.
    + rewrite Hno2 in C. discriminate.
    + rewrite Hno2 in C. discriminate.
  - exfalso. destruct H2 as (_ & _ & L & Hnda & Hndr & Hvr & Hva & Hc & _). destruct H1 as (_ & [C|[C|[C|[C|[C|C]]]]]).
    + congruence.
    + rewrite Al in C. congruence.
    + destruct C as (-> & ->). apply (rb_exchange_nil e rels s2 _ _ Ex2).
    + apply C. split; [exact Hnda|]. split; [exact Hndr|].
      split; [intros c Hin; rewrite Av; apply Hvr; exact Hin|].
      split; [intros c Hin; rewrite Av; apply Hva; exact Hin|]. apply (rb_complete_eq s2 s1); [symmetry|]; assumption.
    + rewrite Hno1 in C. discriminate.
    + rewrite Hno1 in C. discriminate.
  - split; [apply rb_rej_rej; [apply H1|apply H2]|]. split; intros a t E; discriminate.
Qed.

(** *** Creation with components (and relation targets) *)
Lemma rb_c_new_entity : forall ids rels, registered s1 ids -> r2a_rels_ok s1 ids rels ->
  match new_entity ids rels s1, new_entity ids rels s2 with
  | Ok (e1, _) t1, Ok (e2, _) t2 => e1 = e2 /\ w_pool t1 = w_pool t2 /\ rb_abs_eq t1 t2 /\ r2e_noobs t1 /\ r2e_noobs t2
  | Err _ t1, Err _ t2 => w_pool t1 = w_pool t2 /\ rb_abs_eq t1 t2
  | _, _ => False
  end.
Proof.
  intros ids rels Hrg Hok. pose proof rb_abs12 as Habs. pose proof rb_room2 as Hroom2. rb_sim HSim.
  assert (Hrg2 : registered s2 ids) by (intros c Hc; rewrite <- Hreg; apply Hrg; exact Hc).
  assert (Hok2 : r2a_rels_ok s2 ids rels) by (apply (rb_rels_ok_eq s1 s2); assumption).
  pose proof (r2a_new_entity_spec s1 ids rels HS1 Hroom Hrg Hok) as H1.
  pose proof (r2a_new_entity_spec s2 ids rels HS2 Hroom2 Hrg2 Hok2) as H2.
  destruct (new_entity ids rels s1) as [[e1 m1] t1|er1 t1] eqn:E1, (new_entity ids rels s2) as [[e2 m2] t2|er2 t2] eqn:E2.
  - destruct (rb_new_entity_pool ids rels s1 e1 m1 t1 Hno1 E1) as (Q1 & Q2).
    destruct (rb_new_entity_pool ids rels s2 e2 m2 t2 Hno2 E2) as (Q3 & Q4).
    assert (Ee : e1 = e2) by congruence. rewrite <- Hpool in Q4. clear Q1 Q3. subst e2.
    destruct H1 as (_ & _ & _ & _ & _ & _ & L1 & _ & V1 & T1 & O1 & Sd1 & _).
    destruct H2 as (_ & _ & _ & _ & _ & _ & L2 & _ & V2 & T2 & O2 & Sd2 & _).
    split; [reflexivity|]. split; [congruence|]. split.
    + apply (rb_desc_eq s1 s2 t1 t2 e1 true _ _ _ _ Habs (conj L1 (conj V1 (conj T1 O1))) (conj L2 (conj V2 (conj T2 O2)))); reflexivity.
    + split; [apply (r2e_noobs_side s1 _ Sd1 Hno1)|apply (r2e_noobs_side s2 _ Sd2 Hno2)].
  - destruct H1 as (_ & _ & Hnd & _ & Hc & _). destruct H2 as (_ & [C|C]); [congruence|].
    apply C. split; [exact Hnd|apply (rb_complete_eq s1 s2); assumption].
  - destruct H2 as (_ & _ & Hnd & _ & Hc & _). destruct H1 as (_ & [C|C]); [congruence|].
    apply C. split; [exact Hnd|apply (rb_complete_eq s2 s1); [symmetry|]; assumption].
  - apply rb_rej_rej; [apply H1|apply H2].
Qed.

(** *** NewEntity *)
Lemma rb_c_create_entity :
  exists e t1 t2, create_entity 0 s1 = Ok e t1 /\ create_entity 0 s2 = Ok e t2 /\ w_pool t1 = w_pool t2 /\ rb_abs_eq t1 t2 /\
                  r2e_noobs t1 /\ r2e_noobs t2 /\ St2 t1 /\ St2 t2.
Proof.
  pose proof rb_abs12 as Habs. pose proof rb_room2 as Hroom2. rb_sim HSim.
  destruct (L_create_entity_spec2 s1 HS1 HK1 Hroom) as (e1 & t1 & E1 & St1 & _ & _ & L1 & _ & V1 & T1 & O1 & Sd1 & _).
  destruct (L_create_entity_spec2 s2 HS2 HK2 Hroom2) as (e2 & t2 & E2 & St2' & _ & _ & L2 & _ & V2 & T2 & O2 & Sd2 & _).
  destruct (rb_px_create_entity 0 s1 e1 t1 E1) as (Q1 & Q2). destruct (rb_px_create_entity 0 s2 e2 t2 E2) as (Q3 & Q4).
  assert (Ee : e1 = e2) by congruence. rewrite <- Hpool in Q4. clear Q1 Q3. subst e2.
  exists e1, t1, t2. split; [exact E1|]. split; [exact E2|]. split; [congruence|]. split.
  - apply (rb_desc_eq s1 s2 t1 t2 e1 true _ _ _ _ Habs (conj L1 (conj V1 (conj T1 O1))) (conj L2 (conj V2 (conj T2 O2)))); reflexivity.
  - split; [apply (r2e_noobs_side s1 _ Sd1 Hno1)|]. split; [apply (r2e_noobs_side s2 _ Sd2 Hno2)|]. split; assumption.
Qed.

(** *** Copy. The specification of Rel2Maint does not say why a copy fails; here: a stored source is copied. *)
Lemma rb_copy_ok : forall s e, St2 s -> room s -> r2e_quiet s -> live s e = true -> exists ne s', w_copy_entity e s = Ok ne s'.
Proof.
  intros s e HS Hr (Hn & Hl) Hlive.
  destruct (r2d_copy_core s e HS Hr Hl Hlive) as (ne & s3 & m & hr & _ & Sd & E). rewrite E.
  pose proof (r2e_noobs_side s s3 Sd Hn) as Hn3.
  rewrite (sa_bind_ok (sb1_fire_create_noobs s3 ne m (Hn3 EvCreateEntity))).
  destruct hr; cbn [whenM]; [rewrite (r2d_fire_create_rel_noobs s3 ne m (Hn3 EvAddRelations))|]; eexists; eexists; reflexivity.
Qed.

Lemma rb_c_copy : forall e, r2r_proper s1 e -> rb_res (w_copy_entity e s1) (w_copy_entity e s2).
Proof.
  intros e Hp. pose proof rb_abs12 as Habs. pose proof rb_room2 as Hroom2. rb_sim HSim.
  assert (Hp2 : r2r_proper s2 e).
  { intros Ha. rewrite <- Al. apply Hp. rewrite (rb_alive_eq s1 s2 e Hpool). exact Ha. }
  pose proof (L_copy_entity_spec2_partial s1 e HS1 Hroom Hp (Hno1 EvCreateEntity) (Hno1 EvAddRelations)) as H1.
  pose proof (L_copy_entity_spec2_partial s2 e HS2 Hroom2 Hp2 (Hno2 EvCreateEntity) (Hno2 EvAddRelations)) as H2.
  destruct (w_copy_entity e s1) as [n1 t1|er1 t1] eqn:E1, (w_copy_entity e s2) as [n2 t2|er2 t2] eqn:E2; cbn [rb_res].
  - destruct (rb_px_copy_entity e s1 n1 t1 E1) as (Q1 & Q2). destruct (rb_px_copy_entity e s2 n2 t2 E2) as (Q3 & Q4).
    assert (Ee : n1 = n2) by congruence. rewrite <- Hpool in Q4. clear Q1 Q3. subst n2.
    destruct H1 as (_ & _ & _ & _ & _ & L1 & _ & V1 & T1 & O1 & _).
    destruct H2 as (_ & _ & _ & _ & _ & L2 & _ & V2 & T2 & O2 & _).
    split; [reflexivity|]. split; [congruence|].
    apply (rb_desc_eq s1 s2 t1 t2 n1 true _ _ _ _ Habs (conj L1 (conj V1 (conj T1 O1))) (conj L2 (conj V2 (conj T2 O2)))).
    + intros c. apply Av.
    + intros c. apply At.
  - destruct H1 as (_ & _ & L & _). rewrite Al in L.
    destruct (rb_copy_ok s2 e HS2 Hroom2 (conj Hno2 Hl2) L) as (ne & s' & E). congruence.
  - destruct H2 as (_ & _ & L & _). rewrite <- Al in L.
    destruct (rb_copy_ok s1 e HS1 Hroom (conj Hno1 Hl1) L) as (ne & s' & E). congruence.
  - apply rb_rej_rej; [exact H1|exact H2].
Qed.

(** *** Write. [L_write_spec2] does not say why a write fails; here: a component the stored entity has is found. *)
Lemma rb_cell_of_ok : forall d s e c, WF s -> live s e = true -> val s e c <> None ->
  exists tid ci row t, cell_of d e c s = Ok (tid, ci, row) s /\ nth_error (w_index s) (fst e) = Some (Some tid, row) /\
    nth_error (w_tables s) tid = Some t /\ tbl_colidx t c = Some ci /\ row < t_len t /\ row_ent t row = e /\
    val s e c = Some (cell t ci row).
Proof.
  intros d s e c HW Hl Hv. destruct (sb1_live_inv s e Hl) as (tid & row & t & Hi & Ht & Hr & He).
  destruct (live_alive s e HW Hl) as (Ha & _).
  assert (Ev : val s e c = match tbl_colidx t c with Some ci => Some (cell t ci row) | None => None end).
  { rewrite sb3_val_row. unfold sb3_row_of. rewrite Hi, Ht, He, sb3_ent_eqb_refl.
    apply Nat.ltb_lt in Hr. rewrite Hr. reflexivity. }
  destruct (tbl_colidx t c) as [ci|] eqn:Hc; [|congruence].
  exists tid, ci, row, t. split; [|repeat (split; [assumption|]); exact Ev].
  unfold cell_of, get_index, getT, bind, get. rewrite Ha. simpl. rewrite Hi. simpl. rewrite Ht. simpl. rewrite Hc. reflexivity.
Qed.

Lemma rb_write_ok : forall d s e c v, WF s -> live s e = true -> val s e c <> None ->
  exists s', (a <- cell_of d e c ;; let '(tid, ci, row) := a in write_cell tid ci row v) s = Ok tt s'.
Proof.
  intros d s e c v HW Hl Hv. destruct (rb_cell_of_ok d s e c HW Hl Hv) as (tid & ci & row & t & E & _ & Ht & Hc & _).
  rewrite (sa_bind_ok E). cbv beta iota.
  assert (Hk : nth_error (t_kinds t) ci = Some (kind_of s c)).
  { destruct (wf_layout _ HW _ _ Ht) as (a & _ & _ & L & _). rewrite L. apply map_nth_error. apply sb3_index_of_nth. exact Hc. }
  unfold write_cell, getT, bind, get. rewrite Ht. simpl. rewrite Hk. simpl.
  destruct (ck_zs (kind_of s c)); simpl; eexists; reflexivity.
Qed.

Lemma rb_c_write : forall e c v,
  rb_res ((a <- cell_of debug e c ;; let '(tid, ci, row) := a in write_cell tid ci row v) s1)
         ((a <- cell_of debug e c ;; let '(tid, ci, row) := a in write_cell tid ci row v) s2).
Proof.
  intros e c v. pose proof rb_abs12 as Habs. rb_sim HSim.
  pose proof (L_write_spec2 s1 debug e c v HS1) as H1. pose proof (L_write_spec2 s2 debug e c v HS2) as H2.
  destruct ((a <- cell_of debug e c ;; let '(tid, ci, row) := a in write_cell tid ci row v) s1) as [[] t1|er1 t1] eqn:E1,
           ((a <- cell_of debug e c ;; let '(tid, ci, row) := a in write_cell tid ci row v) s2) as [[] t2|er2 t2] eqn:E2; cbn [rb_res].
  - destruct H1 as (_ & _ & _ & L1 & V1 & O1 & T1 & LL1 & P1 & _). destruct H2 as (_ & _ & _ & L2 & V2 & O2 & T2 & LL2 & P2 & _).
    split; [reflexivity|]. split; [congruence|]. split; [|split].
    + intros x. rewrite LL1, LL2. apply Al.
    + intros x c'. destruct (ent_eqb x e) eqn:Ex.
      * apply sa_ent_eqb_eq in Ex. subst x. rewrite V1, V2, (rb_kind_eq s1 s2 c Hreg), !Av. reflexivity.
      * assert (Hne : x <> e) by (intros ->; rewrite sa_ent_eqb_refl in Ex; discriminate).
        rewrite (proj2 (O1 x Hne)), (proj2 (O2 x Hne)). apply Av.
    + intros x c'. rewrite T1, T2. apply At.
  - exfalso. destruct H1 as (_ & L & V & _). rewrite Al in L. rewrite Av in V.
    destruct (rb_write_ok debug s2 e c v (proj1 HS2) L V) as (s' & E). congruence.
  - exfalso. destruct H2 as (_ & L & V & _). rewrite <- Al in L. rewrite <- Av in V.
    destruct (rb_write_ok debug s1 e c v (proj1 HS1) L V) as (s' & E). congruence.
  - subst t1 t2. split; [exact Hpool|exact Habs].
Qed.

(** *** SetRelations *)
Lemma rb_c_set_relations : forall e rels, (forall r, In r rels -> r2b_handle_ok s1 (snd r)) ->
  rb_res (w_set_relations e rels s1) (w_set_relations e rels s2).
Proof.
  intros e rels Hok. pose proof rb_abs12 as Habs. pose proof rb_room2 as Hroom2. rb_sim HSim.
  assert (Hok2 : forall r, In r rels -> r2b_handle_ok s2 (snd r)).
  { intros r Hr. destruct (Hok r Hr) as [C|[C|(C1 & C2)]]; [left; exact C|right; left; rewrite <- Al; exact C|].
    right; right. split; [exact C1|]. rewrite <- (rb_alive_eq s1 s2 _ Hpool). exact C2. }
  pose proof (r2b_set_relations_spec_noobs s1 e rels HS1 Hroom (Hno1 _) (Hno1 _) Hok) as H1.
  pose proof (r2b_set_relations_spec_noobs s2 e rels HS2 Hroom2 (Hno2 _) (Hno2 _) Hok2) as H2.
  destruct (w_set_relations e rels s1) as [[] t1|er1 t1], (w_set_relations e rels s2) as [[] t2|er2 t2]; cbn [rb_res].
  - destruct H1 as (_ & _ & _ & _ & _ & _ & L1 & V1 & T1 & O1 & P1 & _).
    destruct H2 as (_ & _ & _ & _ & _ & _ & L2 & V2 & T2 & O2 & P2 & _).
    split; [reflexivity|]. split; [congruence|].
    apply (rb_desc_eq s1 s2 t1 t2 e true _ _ _ _ Habs (conj L1 (conj V1 (conj T1 O1))) (conj L2 (conj V2 (conj T2 O2)))).
    + intros c. apply Av.
    + intros c. rewrite At. reflexivity.
  - destruct H1 as (_ & _ & L & Hne & Hnd & Hr & _). destruct H2 as (_ & [C|[C|[C|[C|(r & Hin & C)]]]]).
    + congruence.
    + rewrite <- Al in C. congruence.
    + contradiction.
    + rewrite (r2_rels_distinct_nodup rels Hnd) in C. discriminate.
    + destruct (Hr r Hin) as (R1 & R2 & R3). destruct C as [C|[C|(C1 & C2)]].
      * rewrite <- Av in C. contradiction.
      * rewrite <- (rb_is_rel_eq s1 s2 _ Hreg) in C. congruence.
      * destruct R3 as [R3|R3]; [rewrite R3 in C1; apply C1; reflexivity|].
        destruct (live_alive s1 _ (proj1 HS1) R3) as (A & _). rewrite (rb_alive_eq s1 s2 _ Hpool) in A. congruence.
  - destruct H2 as (_ & _ & L & Hne & Hnd & Hr & _). destruct H1 as (_ & [C|[C|[C|[C|(r & Hin & C)]]]]).
    + congruence.
    + rewrite Al in C. congruence.
    + contradiction.
    + rewrite (r2_rels_distinct_nodup rels Hnd) in C. discriminate.
    + destruct (Hr r Hin) as (R1 & R2 & R3). destruct C as [C|[C|(C1 & C2)]].
      * rewrite Av in C. contradiction.
      * rewrite (rb_is_rel_eq s1 s2 _ Hreg) in C. congruence.
      * destruct R3 as [R3|R3]; [rewrite R3 in C1; apply C1; reflexivity|].
        destruct (live_alive s2 _ (proj1 HS2) R3) as (A & _). rewrite <- (rb_alive_eq s1 s2 _ Hpool) in A. congruence.
  - destruct H1 as (-> & _). destruct H2 as (-> & _). split; [exact Hpool|exact Habs].
Qed.

(** *** RemoveEntity *)
Lemma rb_dead_val : forall s e c, live s e = false -> val s e c = None /\ tgt s e c = None.
Proof. intros s e c H. unfold val, tgt. rewrite H. split; reflexivity. Qed.

Lemma rb_c_remove_entity : forall e, rb_res (storage_remove_entity e s1) (storage_remove_entity e s2).
Proof.
  intros e. pose proof rb_abs12 as Habs. rb_sim HSim.
  pose proof (r2e_remove_entity_spec s1 e HS1 HK1 Hno1) as H1. pose proof (r2e_remove_entity_spec s2 e HS2 HK2 Hno2) as H2.
  destruct (storage_remove_entity e s1) as [[] t1|er1 t1], (storage_remove_entity e s2) as [[] t2|er2 t2]; cbn [rb_res].
  - destruct H1 as (_ & _ & _ & L1 & _ & O1 & _ & _ & P1 & _). destruct H2 as (_ & _ & _ & L2 & _ & O2 & _ & _ & P2 & _).
    split; [reflexivity|]. split; [rewrite Hpool in P1; congruence|].
    assert (D : forall x, x = e \/ x <> e).
    { intros x. destruct (ent_eqb x e) eqn:Ex; [left; apply sa_ent_eqb_eq; exact Ex|].
      right. intros ->. rewrite sa_ent_eqb_refl in Ex. discriminate. }
    split; [|split].
    + intros x. destruct (D x) as [->|Hne]; [congruence|]. rewrite (proj1 (O1 x Hne)), (proj1 (O2 x Hne)). apply Al.
    + intros x c. destruct (D x) as [->|Hne].
      * rewrite (proj1 (rb_dead_val t1 e c L1)), (proj1 (rb_dead_val t2 e c L2)). reflexivity.
      * rewrite (proj1 (proj2 (O1 x Hne))), (proj1 (proj2 (O2 x Hne))). apply Av.
    + intros x c. destruct (D x) as [->|Hne].
      * rewrite (proj2 (rb_dead_val t1 e c L1)), (proj2 (rb_dead_val t2 e c L2)). reflexivity.
      * rewrite (proj2 (proj2 (O1 x Hne))), (proj2 (proj2 (O2 x Hne))), At. reflexivity.
  - destruct H1 as (_ & _ & L & _). destruct H2 as (_ & C). rewrite Al in L. congruence.
  - destruct H2 as (_ & _ & L & _). destruct H1 as (_ & C). rewrite Al in C. congruence.
  - destruct H1 as (-> & _). destruct H2 as (-> & _). split; [exact Hpool|exact Habs].
Qed.

(** *** Shrink: state only (the result - "something was released" - depends on the capacities: Part 7) *)
Lemma rb_c_shrink : forall b, rb_res_weak (w_shrink b s1) (w_shrink b s2).
Proof.
  intros b. pose proof rb_abs12 as Habs. rb_sim HSim.
  destruct (D_shrink_spec_w s1 b HS1 Hl1) as (b1 & t1 & E1 & _ & C1 & T1 & P1 & _).
  destruct (D_shrink_spec_w s2 b HS2 Hl2) as (b2 & t2 & E2 & _ & C2 & T2 & P2 & _).
  rewrite E1, E2. cbn [rb_res_weak]. split; [congruence|].
  apply (rb_abs_trans t1 s1 t2); [apply rb_abs_sym, rb_abs_of_same; assumption|].
  apply (rb_abs_trans s1 s2 t2); [exact Habs|apply rb_abs_of_same; assumption].
Qed.

(** *** Get *)
Definition rb_get_body (d : bool) (e : ent) (c : nat) : MW (list Z) :=
  a <- cell_of d e c ;; let '(tid, ci, row) := a in
  t <- getT tid ;; col <- of_opt (nth_error (t_cols t) ci) EIndex ;; ret [nth row col 0%Z].

Lemma rb_get_ok : forall d s e c v, WF s -> live s e = true -> val s e c = Some v -> rb_get_body d e c s = Ok [v] s.
Proof.
  intros d s e c v HW Hl Hv. assert (Hv' : val s e c <> None) by congruence.
  destruct (rb_cell_of_ok d s e c HW Hl Hv') as (tid & ci & row & t & E & _ & Ht & Hc & _ & _ & Ev).
  unfold rb_get_body. rewrite (sa_bind_ok E). cbv beta iota.
  pose proof (Forall_nth_error _ tbl_ok (w_tables s)) as HF. destruct HF as (HF & _).
  destruct (tbl_ok_elim _ (HF (wf_tables _ HW) _ _ Ht)) as (_ & _ & O3 & _).
  pose proof (sb3_index_of_nth _ _ _ Hc) as Hci. apply sa_nth_error_lt in Hci. rewrite <- O3 in Hci.
  destruct (nth_error (t_cols t) ci) as [col|] eqn:Ecol; [|apply nth_error_None in Ecol; lia].
  unfold getT, bind, get. rewrite Ht. simpl. rewrite Ecol. simpl. unfold ret.
  rewrite <- (cell_some t ci row col Ecol). congruence.
Qed.

Lemma rb_get_err : forall d s e c, WF s -> (live s e = false \/ val s e c = None) -> exists er, rb_get_body d e c s = Err er s.
Proof.
  intros d s e c HW Hc. unfold rb_get_body.
  destruct (sb3_cell_of_cases d e c s) as [(er & E)|(tid & ci & row & t & E & Ha & Hi & Ht & Hcol)].
  - exists er. rewrite (sa_bind_err E). reflexivity.
  - exfalso. destruct (sb3_alive_index_live _ _ _ _ HW Ha Hi) as (t3 & Ht3 & Hr & He).
    rewrite Ht in Ht3. inversion Ht3; subst t3.
    assert (Hl : live s e = true) by (eapply sb3_live_of_row; eauto).
    destruct Hc as [Hc|Hc]; [congruence|].
    rewrite sb3_val_row in Hc. unfold sb3_row_of in Hc. rewrite Hi, Ht, He, sb3_ent_eqb_refl in Hc.
    apply Nat.ltb_lt in Hr. rewrite Hr, Hcol in Hc. discriminate.
Qed.

Lemma rb_c_get : forall e c, rb_res (rb_get_body debug e c s1) (rb_get_body debug e c s2).
Proof.
  intros e c. pose proof rb_abs12 as Habs. rb_sim HSim.
  destruct (live s1 e) eqn:L1.
  - destruct (val s1 e c) as [v|] eqn:V1.
    + rewrite (rb_get_ok debug s1 e c v (proj1 HS1) L1 V1). rewrite Al in L1. rewrite Av in V1.
      rewrite (rb_get_ok debug s2 e c v (proj1 HS2) L1 V1). split; [reflexivity|]. split; [exact Hpool|exact Habs].
    + destruct (rb_get_err debug s1 e c (proj1 HS1) (or_intror V1)) as (er1 & ->). rewrite Av in V1.
      destruct (rb_get_err debug s2 e c (proj1 HS2) (or_intror V1)) as (er2 & ->). split; [exact Hpool|exact Habs].
  - destruct (rb_get_err debug s1 e c (proj1 HS1) (or_introl L1)) as (er1 & ->). rewrite Al in L1.
    destruct (rb_get_err debug s2 e c (proj1 HS2) (or_introl L1)) as (er2 & ->). split; [exact Hpool|exact Habs].
Qed.

(* ------------------------------------------------------------------------------------------------ *)
(** ** The same at the level of [step_op] *)

Lemma rb_guard_alive : forall A (k1 k2 : MW A) e,
  (alive s1 e = true -> rb_res (k1 s1) (k2 s2)) ->
  rb_res ((s <- get ;; guard (alive s e) EDead ;;; k1) s1) ((s <- get ;; guard (alive s e) EDead ;;; k2) s2).
Proof.
  intros A k1 k2 e H. rewrite !sb2_bind_get. cbv beta. rewrite <- (rb_alive_eq s1 s2 e (proj1 (proj2 (proj2 HSim)))).
  destruct (alive s1 e) eqn:Ha.
  - rewrite !sb2_bind_guard_true. apply H. reflexivity.
  - rewrite !sb2_bind_guard_false. apply rb_refl_res.
Qed.

Lemma rb_s_ONewEntity : rb_res (step_op debug ONewEntity s1) (step_op debug ONewEntity s2).
Proof.
  cbn [step_op]. destruct rb_c_create_entity as (e & t1 & t2 & E1 & E2 & P & A & N1 & N2 & St1 & St2'). rb_sim HSim.
  rewrite (sa_bind_ok (sb1_check_locked_ok s1 Hl1)), (sa_bind_ok (sb1_check_locked_ok s2 Hl2)).
  rewrite (sa_bind_ok E1), (sa_bind_ok E2).
  destruct (r2a_table0 t1 St1) as (a1 & u1 & Ha1 & _ & Hu1 & Hau1 & _). rewrite <- Hau1 in Ha1.
  destruct (r2a_table0 t2 St2') as (a2 & u2 & Ha2 & _ & Hu2 & Hau2 & _). rewrite <- Hau2 in Ha2.
  rewrite (sa_bind_ok (sb2_arch_mask_ok t1 0 u1 a1 Hu1 Ha1)), (sa_bind_ok (sb2_arch_mask_ok t2 0 u2 a2 Hu2 Ha2)).
  rewrite (sa_bind_ok (sb1_fire_create_noobs t1 e _ (N1 EvCreateEntity))), (sa_bind_ok (sb1_fire_create_noobs t2 e _ (N2 EvCreateEntity))).
  unfold ret. split; [reflexivity|]. split; assumption.
Qed.

Lemma rb_new_tail : forall ids rels (tail : ent -> mask -> MW (list Z)), registered s1 ids -> r2a_rels_ok s1 ids rels ->
  (forall e m t, r2e_noobs t -> tail e m t = Ok (Zent e) t) ->
  rb_res ((r <- new_entity ids rels ;; let '(e, m) := r in tail e m) s1) ((r <- new_entity ids rels ;; let '(e, m) := r in tail e m) s2).
Proof.
  intros ids rels tail Hrg Hok Ht. pose proof (rb_c_new_entity ids rels Hrg Hok) as H. unfold bind.
  destruct (new_entity ids rels s1) as [[e1 m1] t1|er1 t1], (new_entity ids rels s2) as [[e2 m2] t2|er2 t2]; try contradiction.
  - destruct H as (-> & P & A & N1 & N2). cbv beta iota. rewrite (Ht e2 m1 t1 N1), (Ht e2 m2 t2 N2).
    split; [reflexivity|]. split; assumption.
  - exact H.
Qed.

Lemma rb_rels_ok_nil : forall s ids, r2a_rels_ok s ids [].
Proof. intros s ids. split; [constructor|]. split; intros r []. Qed.

Lemma rb_s_OUNew : forall ids, registered s1 ids -> rb_res (step_op debug (OUNew ids) s1) (step_op debug (OUNew ids) s2).
Proof.
  intros ids Hrg. cbn [step_op].
  apply (rb_new_tail ids [] (fun e m => fire_create_entity_if_has e m ;;; ret (Zent e)) Hrg (rb_rels_ok_nil s1 ids)).
  intros e m t Hn. rewrite (sa_bind_ok (sb1_fire_create_noobs t e m (Hn EvCreateEntity))). reflexivity.
Qed.

Lemma rb_s_OUNewRel : forall ids l1 l2, registered s1 ids -> rb_hrels s1 s2 l1 l2 ->
  (forall rels, rb_resolve s1 l1 = Some rels -> r2a_rels_ok s1 ids rels) ->
  rb_res (step_op debug (OUNewRel ids l1) s1) (step_op debug (OUNewRel ids l2) s2).
Proof.
  intros ids l1 l2 Hrg Hh Hok. cbn [step_op]. apply (rb_resolved_r _ rb_res s1 s2 l1 l2); [exact Hh|intros; apply rb_refl_res|].
  intros rels R1 R2.
  apply (rb_new_tail ids rels (fun e m => fire_create_entity_if_has e m ;;;
           whenM (negb (is_nil rels)) (fire_create_entity_rel_if_has e m) ;;; ret (Zent e)) Hrg (Hok rels R1)).
  intros e m t Hn. rewrite (sa_bind_ok (sb1_fire_create_noobs t e m (Hn EvCreateEntity))).
  destruct (negb (is_nil rels)); cbn [whenM]; [|reflexivity].
  rewrite (sa_bind_ok (r2d_fire_create_rel_noobs t e m (Hn EvAddRelations))). reflexivity.
Qed.

Lemma rb_s_OCopy : forall h1 h2, handle s1 h1 = handle s2 h2 -> r2r_hproper s1 h1 ->
  rb_res (step_op debug (OCopy h1) s1) (step_op debug (OCopy h2) s2).
Proof.
  intros h1 h2 Hh Hp. cbn [step_op]. apply (rb_resolved_h _ rb_res s1 s2 h1 h2); [exact Hh|intros; apply rb_refl_res|].
  intros e He. pose proof (rb_c_copy e (Hp e He)) as H. unfold bind.
  destruct (w_copy_entity e s1) as [n1 t1|er1 t1], (w_copy_entity e s2) as [n2 t2|er2 t2]; cbn [rb_res] in H; try contradiction.
  - destruct H as (-> & H). unfold ret. split; [reflexivity|exact H].
  - exact H.
Qed.

Lemma rb_s_OUAdd : forall h1 h2 ids, handle s1 h1 = handle s2 h2 -> registered s1 ids ->
  rb_res (step_op debug (OUAdd h1 ids) s1) (step_op debug (OUAdd h2 ids) s2).
Proof.
  intros h1 h2 ids Hh Hrg. cbn [step_op]. apply (rb_resolved_h _ rb_res s1 s2 h1 h2); [exact Hh|intros; apply rb_refl_res|].
  intros e He. apply rb_guard_alive. intros _.
  destruct (rb_c_add e ids [] Hrg (rb_rels_ok_nil s1 ids)) as (H & N1 & N2).
  apply (rb_tailb _ _ _ _ _ _ _ _ H). intros a1 a2 t1 t2 E1 E2. exists [].
  rewrite (sa_bind_ok (r2e_fire_add_noobs t1 _ e _ _ (N1 _ _ E1))), (sa_bind_ok (r2e_fire_add_noobs t2 _ e _ _ (N2 _ _ E2))).
  split; reflexivity.
Qed.

Lemma rb_s_OUAddRel : forall h1 h2 ids l1 l2, handle s1 h1 = handle s2 h2 -> registered s1 ids -> rb_hrels s1 s2 l1 l2 ->
  (forall rels, rb_resolve s1 l1 = Some rels -> r2a_rels_ok s1 ids rels) ->
  rb_res (step_op debug (OUAddRel h1 ids l1) s1) (step_op debug (OUAddRel h2 ids l2) s2).
Proof.
  intros h1 h2 ids l1 l2 Hh Hrg Hl Hok. cbn [step_op]. apply (rb_resolved_h _ rb_res s1 s2 h1 h2); [exact Hh|intros; apply rb_refl_res|].
  intros e He. apply rb_guard_alive. intros _.
  apply (rb_resolved_r _ rb_res s1 s2 l1 l2); [exact Hl|intros; apply rb_refl_res|]. intros rels R1 R2.
  destruct (rb_c_add e ids rels Hrg (Hok rels R1)) as (H & N1 & N2).
  apply (rb_tailb _ _ _ _ _ _ _ _ H). intros a1 a2 t1 t2 E1 E2. exists [].
  rewrite (sa_bind_ok (r2e_fire_add_noobs t1 _ e _ _ (N1 _ _ E1))), (sa_bind_ok (r2e_fire_add_noobs t2 _ e _ _ (N2 _ _ E2))).
  destruct (negb (is_nil rels)); cbn [whenM].
  - rewrite (sa_bind_ok (r2e_fire_add_noobs t1 _ e _ _ (N1 _ _ E1))), (sa_bind_ok (r2e_fire_add_noobs t2 _ e _ _ (N2 _ _ E2))).
    split; reflexivity.
  - split; reflexivity.
Qed.

Lemma rb_s_OURemove : forall h1 h2 ids, handle s1 h1 = handle s2 h2 ->
  rb_res (step_op debug (OURemove h1 ids) s1) (step_op debug (OURemove h2 ids) s2).
Proof.
  intros h1 h2 ids Hh. cbn [step_op]. apply (rb_resolved_h _ rb_res s1 s2 h1 h2); [exact Hh|intros; apply rb_refl_res|].
  intros e He. apply rb_guard_alive. intros _. unfold bind.
  apply (rb_tail _ _ _ _ _ _ (rb_res_weaken _ _ _ (rb_c_remove e ids))). intros a1 a2 t1 t2 _ _. exists []. split; reflexivity.
Qed.

Lemma rb_s_OUExchange : forall h1 h2 add rm l1 l2, handle s1 h1 = handle s2 h2 -> registered s1 add -> rb_hrels s1 s2 l1 l2 ->
  (forall rels, rb_resolve s1 l1 = Some rels -> r2a_rels_ok s1 add rels) ->
  rb_res (step_op debug (OUExchange h1 add rm l1) s1) (step_op debug (OUExchange h2 add rm l2) s2).
Proof.
  intros h1 h2 add rm l1 l2 Hh Hrg Hl Hok. cbn [step_op]. apply (rb_resolved_h _ rb_res s1 s2 h1 h2); [exact Hh|intros; apply rb_refl_res|].
  intros e He. apply rb_guard_alive. intros _.
  apply (rb_resolved_r _ rb_res s1 s2 l1 l2); [exact Hl|intros; apply rb_refl_res|]. intros rels R1 R2.
  destruct (rb_c_exchange e add rm rels Hrg (Hok rels R1)) as (H & N1 & N2).
  apply (rb_tailb _ _ _ _ _ _ _ _ H). intros a1 a2 t1 t2 E1 E2. exists [].
  destruct (negb (is_nil add)); cbn [whenM]; [|split; reflexivity].
  rewrite !r2c_bind_assoc.
  rewrite (sa_bind_ok (r2e_fire_add_noobs t1 _ e _ _ (N1 _ _ E1))), (sa_bind_ok (r2e_fire_add_noobs t2 _ e _ _ (N2 _ _ E2))).
  destruct (negb (is_nil rels)); cbn [whenM].
  - rewrite (sa_bind_ok (r2e_fire_add_noobs t1 _ e _ _ (N1 _ _ E1))), (sa_bind_ok (r2e_fire_add_noobs t2 _ e _ _ (N2 _ _ E2))).
    split; reflexivity.
  - split; reflexivity.
Qed.

Lemma rb_write_shape : forall d e c v s,
  (a <- cell_of d e c ;; let '(tid, ci, row) := a in write_cell tid ci row v ;;; ret (@nil Z)) s =
  match (a <- cell_of d e c ;; let '(tid, ci, row) := a in write_cell tid ci row v) s with Ok _ t => Ok [] t | Err er t => Err er t end.
Proof.
  intros d e c v s. unfold bind. destruct (cell_of d e c s) as [[[tid ci] row] u|er u]; [|reflexivity].
  destruct (write_cell tid ci row v u); reflexivity.
Qed.

Lemma rb_s_OWrite : forall h1 h2 c v, handle s1 h1 = handle s2 h2 ->
  rb_res (step_op debug (OWrite h1 c v) s1) (step_op debug (OWrite h2 c v) s2).
Proof.
  intros h1 h2 c v Hh. cbn [step_op]. apply (rb_resolved_h _ rb_res s1 s2 h1 h2); [exact Hh|intros; apply rb_refl_res|].
  intros e He. rewrite !rb_write_shape.
  apply (rb_tail _ _ _ _ (fun _ t => Ok [] t) (fun _ t => Ok [] t) (rb_res_weaken _ _ _ (rb_c_write e c v))).
  intros a1 a2 t1 t2 _ _. exists []. split; reflexivity.
Qed.

Lemma rb_s_OUSetRel : forall h1 h2 l1 l2, handle s1 h1 = handle s2 h2 -> rb_hrels s1 s2 l1 l2 ->
  (forall hr, In hr l1 -> r2r_hproper s1 (snd hr)) ->
  rb_res (step_op debug (OUSetRel h1 l1) s1) (step_op debug (OUSetRel h2 l2) s2).
Proof.
  intros h1 h2 l1 l2 Hh Hl Hp. cbn [step_op]. apply (rb_resolved_h _ rb_res s1 s2 h1 h2); [exact Hh|intros; apply rb_refl_res|].
  intros e He. apply (rb_resolved_r _ rb_res s1 s2 l1 l2); [exact Hl|intros; apply rb_refl_res|]. intros rels R1 R2.
  assert (Hok : forall r, In r rels -> r2b_handle_ok s1 (snd r)).
  { apply (r2r_resolved_ok s1 l1 rels (proj1 (proj1 (proj1 HSim))) (proj2 (proj2 (proj2 (proj1 HSim)))) (rb_resolve_resolved _ _ _ R1) Hp). }
  unfold bind. apply (rb_tail _ _ _ _ _ _ (rb_res_weaken _ _ _ (rb_c_set_relations e rels Hok))).
  intros a1 a2 t1 t2 _ _. exists []. split; reflexivity.
Qed.

Lemma rb_s_ORemoveEntity : forall h1 h2, handle s1 h1 = handle s2 h2 ->
  rb_res (step_op debug (ORemoveEntity h1) s1) (step_op debug (ORemoveEntity h2) s2).
Proof.
  intros h1 h2 Hh. cbn [step_op]. apply (rb_resolved_h _ rb_res s1 s2 h1 h2); [exact Hh|intros; apply rb_refl_res|].
  intros e He. pose proof HSim as HSim'. rb_sim HSim'.
  rewrite (sa_bind_ok (sb1_check_locked_ok s1 Hl1)), (sa_bind_ok (sb1_check_locked_ok s2 Hl2)).
  unfold bind. apply (rb_tail _ _ _ _ _ _ (rb_res_weaken _ _ _ (rb_c_remove_entity e))).
  intros a1 a2 t1 t2 _ _. exists []. split; reflexivity.
Qed.

Lemma rb_s_OShrink : forall b, rb_res_weak (step_op debug (OShrink b) s1) (step_op debug (OShrink b) s2).
Proof.
  intros b. cbn [step_op]. pose proof (rb_c_shrink b) as H. unfold bind.
  destruct (w_shrink b s1) as [b1 t1|er1 t1], (w_shrink b s2) as [b2 t2|er2 t2]; exact H.
Qed.

Lemma rb_s_OAlive : forall h1 h2, handle s1 h1 = handle s2 h2 ->
  rb_res (step_op debug (OAlive h1) s1) (step_op debug (OAlive h2) s2).
Proof.
  intros h1 h2 Hh. cbn [step_op]. apply (rb_resolved_h _ rb_res s1 s2 h1 h2); [exact Hh|intros; apply rb_refl_res|].
  intros e He. rewrite !sb2_bind_get. unfold ret. pose proof HSim as HSim'. rb_sim HSim'.
  rewrite (rb_alive_eq s1 s2 e Hpool). split; [reflexivity|]. split; [exact Hpool|repeat split; assumption].
Qed.

Lemma rb_s_OGet : forall h1 h2 c, handle s1 h1 = handle s2 h2 ->
  rb_res (step_op debug (OGet h1 c) s1) (step_op debug (OGet h2 c) s2).
Proof.
  intros h1 h2 c Hh. cbn [step_op]. apply (rb_resolved_h _ rb_res s1 s2 h1 h2); [exact Hh|intros; apply rb_refl_res|].
  intros e He. apply (rb_c_get e c).
Qed.
End rb_ops.

(* ================================================================================================ *)
(** * Part 5: one operation of the core class *)

(** operations whose RESULT is compared (for Shrink only the outcome kind, for Has / GetRel / IDs / Stats nothing:
    see the summary and Part 7) *)
Definition rb_strong (o : op) : bool :=
  match o with OShrink _ | OHas _ _ | OGetRel _ _ | OIDs _ | OStats => false | _ => true end.

Definition rb_rels_valid (s : W) (o : op) : Prop :=
  match o with
  | OUNewRel ids hr | OUAddRel _ ids hr => forall rels, rb_resolve s hr = Some rels -> r2a_rels_ok s ids rels
  | OUExchange _ add _ hr => forall rels, rb_resolve s hr = Some rels -> r2a_rels_ok s add rels
  | _ => True
  end.

(** side conditions of one call: added ids registered; handles looked at through the generation check alone are
    proper (Rel2HistR); relation lists are valid (each relation component named once, only relation components
    among the added ones, targets zero or stored) *)
Definition rb_args_ok (s : W) (o : op) : Prop :=
  registered s (rel_op_ids o) /\ r2r_handles_proper s o /\ rb_rels_valid s o.

Lemma rb_res_states : forall A (r1 r2 : res W A), rb_res_weak r1 r2 ->
  w_pool (state_of r1) = w_pool (state_of r2) /\ rb_abs_eq (state_of r1) (state_of r2).
Proof. intros A [a1 t1|e1 t1] [a2 t2|e2 t2] H; cbn in *; tauto. Qed.

Theorem rb_step_strong : forall debug s1 s2 o1 o2, Sim s1 s2 -> room s1 -> rb_strong o1 = true -> rel_core_op o1 = true ->
  rb_op_rel s1 s2 o1 o2 -> rb_args_ok s1 o1 -> rb_res (step_op debug o1 s1) (step_op debug o2 s2).
Proof.
  intros debug s1 s2 o1 o2 HSim Hroom Hst Hc Hrel (Hrg & Hp & Hv). unfold r2r_handles_proper in Hp.
  destruct o1; try discriminate Hc; try discriminate Hst; destruct o2; cbn [rb_op_rel] in Hrel; try contradiction;
    cbn [rel_op_ids rel_r_handles rb_rels_valid] in *.
  - apply rb_s_ONewEntity; assumption.
  - subst. apply rb_s_OUNew; assumption.
  - destruct Hrel as (<- & Hl). apply rb_s_OUNewRel; assumption.
  - apply rb_s_OCopy; try assumption. apply Hp. left. reflexivity.
  - destruct Hrel as (Hh & <-). apply rb_s_OUAdd; assumption.
  - destruct Hrel as (Hh & <- & Hl). apply rb_s_OUAddRel; assumption.
  - destruct Hrel as (Hh & <-). apply rb_s_OURemove; assumption.
  - destruct Hrel as (Hh & <- & <- & Hl). apply rb_s_OUExchange; assumption.
  - destruct Hrel as (Hh & <- & <-). apply rb_s_OWrite; assumption.
  - destruct Hrel as (Hh & Hl). apply rb_s_OUSetRel; try assumption. apply r2r_hp_rels. exact Hp.
  - apply rb_s_ORemoveEntity; assumption.
  - apply rb_s_OAlive; assumption.
  - destruct Hrel as (Hh & <-). apply rb_s_OGet; assumption.
Qed.

Lemma rb_op_rel_shape : forall s1 s2 o1 o2, rb_op_rel s1 s2 o1 o2 ->
  rel_core_op o2 = rel_core_op o1 /\ returns_entity o2 = returns_entity o1 /\ rb_strong o2 = rb_strong o1.
Proof.
  intros s1 s2 o1 o2 H. destruct o1; destruct o2; cbn [rb_op_rel] in H; try contradiction; repeat split.
Qed.

(** pool and content of the two post-states agree, for the whole class *)
Lemma rb_step_states : forall debug s1 s2 o1 o2, Sim s1 s2 -> room s1 -> rel_core_op o1 = true ->
  rb_op_rel s1 s2 o1 o2 -> rb_args_ok s1 o1 ->
  w_pool (state_of (step_op debug o1 s1)) = w_pool (state_of (step_op debug o2 s2)) /\
  rb_abs_eq (state_of (step_op debug o1 s1)) (state_of (step_op debug o2 s2)).
Proof.
  intros debug s1 s2 o1 o2 HSim Hroom Hc Hrel Hok. destruct (rb_strong o1) eqn:Hst.
  - apply rb_res_states, rb_res_weaken. apply rb_step_strong; assumption.
  - assert (Hsame : forall o, (reading o = true \/ (exists h c, o = OGetRel h c)) -> forall s, state_of (step_op debug o s) = s).
    { intros o [Hr|(h & c & ->)] s; [apply reads_do_not_change_state; exact Hr|apply r2q_ro_OGetRel]. }
    destruct o1; try discriminate Hc; try discriminate Hst; destruct o2; cbn [rb_op_rel] in Hrel; try contradiction.
    + subst. apply rb_res_states. apply rb_s_OShrink; assumption.
    + rewrite !Hsame by (left; reflexivity). split; [apply HSim|apply HSim].
    + rewrite !Hsame by (right; eauto). split; [apply HSim|apply HSim].
    + rewrite !Hsame by (left; reflexivity). split; [apply HSim|apply HSim].
    + rewrite !Hsame by (left; reflexivity). split; [apply HSim|apply HSim].
Qed.

(** the state after a step, the new handle issued ([sc_issue] of StorageC: what [step] does) *)
Definition rb_next (debug : bool) (o : op) (s : W) : W := sc_issue o (step_op debug o s).

Lemma rb_side_issue : forall s e, rb_side s -> 2 <= fst e -> rb_side (s <| w_issued ::= fun l => l ++ [e] |>).
Proof.
  intros s e (HS & HK & HQ & Hid) He. split; [apply (r2e_St2_ext s); try reflexivity; exact HS|].
  split; [exact HK|]. split; [exact HQ|]. intros x Hx. cbn in Hx. apply in_app_or in Hx. destruct Hx as [Hx|[<-|[]]]; [apply Hid; exact Hx|exact He].
Qed.

Theorem rb_step_sim : forall debug s1 s2 o1 o2, Sim s1 s2 -> room s1 -> rel_core_op o1 = true ->
  rb_op_rel s1 s2 o1 o2 -> rb_args_ok s1 o1 -> rb_args_ok s2 o2 ->
  Sim (rb_next debug o1 s1) (rb_next debug o2 s2) /\
  (w_issued (rb_next debug o1 s1) = w_issued s1 /\ w_issued (rb_next debug o2 s2) = w_issued s2 \/
   exists e, w_issued (rb_next debug o1 s1) = w_issued s1 ++ [e] /\ w_issued (rb_next debug o2 s2) = w_issued s2 ++ [e]).
Proof.
  intros debug s1 s2 o1 o2 HSim Hroom Hc Hrel Hok1 Hok2.
  destruct (rb_op_rel_shape s1 s2 o1 o2 Hrel) as (Hc2 & Hre & Hst2). rewrite Hc in Hc2.
  destruct (rb_step_states debug s1 s2 o1 o2 HSim Hroom Hc Hrel Hok1) as (Ep & Ea).
  assert (Hroom2 : room s2) by (apply (rb_room2 s1 s2 HSim Hroom)).
  pose proof HSim as ((HS1 & HK1 & HQ1 & Hid1) & (HS2 & HK2 & HQ2 & Hid2) & Hpool & Hreg & _).
  pose proof (r2r_op_spec debug s1 HS1 HK1 HQ1 Hroom Hid1 o1 Hc (proj1 Hok1) (proj1 (proj2 Hok1))) as P1.
  pose proof (r2r_op_spec debug s2 HS2 HK2 HQ2 Hroom2 Hid2 o2 Hc2 (proj1 Hok2) (proj1 (proj2 Hok2))) as P2.
  pose proof P1 as ((T1a & T1b & T1c & T1d & T1e & _) & _). pose proof P2 as ((T2a & T2b & T2c & T2d & T2e & _) & _).
  assert (HSim' : Sim (state_of (step_op debug o1 s1)) (state_of (step_op debug o2 s2))).
  { split; [split; [exact T1a|split; [exact T1b|split; [exact T1c|]]]|].
    { intros x Hx. rewrite T1e in Hx. apply Hid1. exact Hx. }
    split; [split; [exact T2a|split; [exact T2b|split; [exact T2c|]]]|].
    { intros x Hx. rewrite T2e in Hx. apply Hid2. exact Hx. }
    split; [exact Ep|]. split; [congruence|exact Ea]. }
  unfold rb_next.
  destruct (rb_strong o1) eqn:Hst.
  2:{ assert (R1 : returns_entity o1 = false) by (destruct o1; try discriminate Hst; reflexivity).
      assert (I1 : sc_issue o1 (step_op debug o1 s1) = state_of (step_op debug o1 s1)).
      { unfold sc_issue. rewrite R1. destruct (step_op debug o1 s1) as [[|i [|g rest]]|]; reflexivity. }
      assert (I2 : sc_issue o2 (step_op debug o2 s2) = state_of (step_op debug o2 s2)).
      { unfold sc_issue. rewrite Hre, R1. destruct (step_op debug o2 s2) as [[|i [|g rest]]|]; reflexivity. }
      rewrite I1, I2. split; [exact HSim'|]. left. split; assumption. }
  pose proof (rb_step_strong debug s1 s2 o1 o2 HSim Hroom Hst Hc Hrel Hok1) as HR.
  destruct (returns_entity o1) eqn:R1.
  2:{ assert (I1 : sc_issue o1 (step_op debug o1 s1) = state_of (step_op debug o1 s1)).
      { unfold sc_issue. rewrite R1. destruct (step_op debug o1 s1) as [[|i [|g rest]]|]; reflexivity. }
      assert (I2 : sc_issue o2 (step_op debug o2 s2) = state_of (step_op debug o2 s2)).
      { unfold sc_issue. rewrite Hre. destruct (step_op debug o2 s2) as [[|i [|g rest]]|]; reflexivity. }
      rewrite I1, I2. split; [exact HSim'|]. left. split; assumption. }
  destruct P1 as (_ & C1). destruct P2 as (_ & C2). rewrite Hre in C2.
  destruct (step_op debug o1 s1) as [res1 u1|er1 u1] eqn:Er1, (step_op debug o2 s2) as [res2 u2|er2 u2] eqn:Er2;
    cbn [rb_res state_of] in HR, HSim', T1e, T2e; try contradiction.
  2:{ cbn [sc_issue state_of]. split; [exact HSim'|]. left. split; assumption. }
  destruct HR as (<- & _).
  destruct (C1 eq_refl _ _ eq_refl) as (e1 & Ez1 & _ & L1 & _). destruct (C2 eq_refl _ _ eq_refl) as (e2 & Ez2 & _ & L2 & _).
  assert (Ee : e1 = e2).
  { rewrite Ez1 in Ez2. unfold Zent, Zn in Ez2. destruct e1 as [i1 g1], e2 as [i2 g2]. cbn [fst snd] in Ez2. inversion Ez2 as [[Hi Hg]].
    apply Nat2Z.inj in Hi. apply N2Z.inj in Hg. congruence. }
  subst e2. subst res1.
  assert (I : forall o u, returns_entity o = true -> sc_issue o (Ok (Zent e1) u) = u <| w_issued ::= fun l => l ++ [e1] |>).
  { intros o u Ho. unfold sc_issue, Zent, Zn. rewrite Ho. cbn [state_of]. rewrite Nat2Z.id, N2Z.id. destruct e1; reflexivity. }
  rewrite (I o1 u1 R1), (I o2 u2 Hre).
  destruct HSim' as (Sd1 & Sd2 & Hp' & Hr' & Ha').
  split.
  - split; [apply rb_side_issue; [exact Sd1|apply (live_alive u1 e1 (proj1 (proj1 Sd1)) L1)]|].
    split; [apply rb_side_issue; [exact Sd2|apply (live_alive u2 e1 (proj1 (proj1 Sd2)) L2)]|].
    split; [exact Hp'|]. split; [exact Hr'|exact Ha'].
  - right. exists e1. cbn. rewrite T1e, T2e. split; reflexivity.
Qed.

(* ================================================================================================ *)
(** * Part 6: histories, and the instantiation "world after Reset" vs "new world" *)

Definition rb_out (r : res W (list Z)) : option (list Z) := match r with Ok res _ => Some res | Err _ _ => None end.
(** what is compared of one step: outcome kind and result for the operations of [rb_strong]; nothing otherwise *)
Definition rb_obs (o : op) (r : res W (list Z)) : option (list Z) := if rb_strong o then rb_out r else Some [].

Fixpoint rb_run (debug : bool) (s : W) (os : list op) : W * list (option (list Z)) :=
  match os with
  | [] => (s, [])
  | o :: t => let r := rb_run debug (rb_next debug o s) t in (fst r, rb_obs o (step_op debug o s) :: snd r)
  end.

(** two histories, operation by operation: same operations on handles that denote the same entities in the
    respective current worlds; side conditions of each call in both worlds *)
Fixpoint rb_hist (debug : bool) (s1 s2 : W) (os1 os2 : list op) : Prop :=
  match os1, os2 with
  | [], [] => True
  | o1 :: r1, o2 :: r2 => room s1 /\ rel_core_op o1 = true /\ rb_op_rel s1 s2 o1 o2 /\ rb_args_ok s1 o1 /\ rb_args_ok s2 o2 /\
                          rb_hist debug (rb_next debug o1 s1) (rb_next debug o2 s2) r1 r2
  | _, _ => False
  end.

Lemma rb_res_out : forall r1 r2 : res W (list Z), rb_res r1 r2 -> rb_out r1 = rb_out r2.
Proof. intros [a1 t1|e1 t1] [a2 t2|e2 t2] H; cbn in *; try contradiction; [destruct H as (-> & _)|]; reflexivity. Qed.

Theorem rb_hist_sim : forall debug os1 os2 s1 s2, Sim s1 s2 -> rb_hist debug s1 s2 os1 os2 ->
  Sim (fst (rb_run debug s1 os1)) (fst (rb_run debug s2 os2)) /\ snd (rb_run debug s1 os1) = snd (rb_run debug s2 os2).
Proof.
  intros debug os1. induction os1 as [|o1 r1 IH]; intros [|o2 r2] s1 s2 HSim H; cbn [rb_hist] in H; try contradiction.
  - split; [exact HSim|reflexivity].
  - destruct H as (Hroom & Hc & Hrel & Hok1 & Hok2 & H). cbn [rb_run fst snd].
    destruct (rb_step_sim debug s1 s2 o1 o2 HSim Hroom Hc Hrel Hok1 Hok2) as (HSim' & _).
    destruct (IH r2 _ _ HSim' H) as (A & B). split; [exact A|]. rewrite B. f_equal.
    unfold rb_obs. destruct (rb_op_rel_shape s1 s2 o1 o2 Hrel) as (_ & _ & ->).
    destruct (rb_strong o1) eqn:Hst; [|reflexivity].
    apply rb_res_out. apply rb_step_strong; assumption.
Qed.

(** handles after a Reset: the handles of the second history are shifted by the epoch *)
Definition rb_shift (k : nat) (h : Z) : Z := if Z.ltb h 0 then h else (h + Z.of_nat k)%Z.

Lemma rb_shift_handle : forall s1 s2 pre h, w_issued s1 = pre ++ w_issued s2 ->
  (Z.to_nat h < length (w_issued s2) \/ Z.ltb h 0 = true) -> handle s1 (rb_shift (length pre) h) = handle s2 h.
Proof.
  intros s1 s2 pre h E Hh. unfold handle, rb_shift. destruct (Z.ltb h 0) eqn:Eh; [rewrite Eh; reflexivity|].
  destruct Hh as [Hh|Hh]; [|discriminate]. apply Z.ltb_ge in Eh.
  assert (E0 : Z.ltb (h + Z.of_nat (length pre)) 0 = false) by (apply Z.ltb_ge; lia). rewrite E0, E.
  replace (Z.to_nat (h + Z.of_nat (length pre))) with (length pre + Z.to_nat h) by lia.
  rewrite nth_error_app2 by lia. f_equal. lia.
Qed.

(** two fresh worlds with the same registry are similar: the world after a Reset and a new world *)
Theorem rb_fresh_sim : forall a b, r2r_fresh a -> r2r_fresh b -> w_reg a = w_reg b -> Sim a b.
Proof.
  intros a b ((A1 & A2 & A3 & _ & _ & _ & A7) & Al & Ad & Ap & _) ((B1 & B2 & B3 & _ & _ & _ & B7) & Bl & Bd & Bp & _) Hr.
  split; [split; [exact A1|split; [exact A2|split; [split; assumption|exact A7]]]|].
  split; [split; [exact B1|split; [exact B2|split; [split; assumption|exact B7]]]|].
  split; [congruence|]. split; [exact Hr|].
  split; [intros e; rewrite Ad, Bd; reflexivity|]. split; intros e c.
  - rewrite (proj1 (rb_dead_val a e c (Ad e))), (proj1 (rb_dead_val b e c (Bd e))). reflexivity.
  - rewrite (proj2 (rb_dead_val a e c (Ad e))), (proj2 (rb_dead_val b e c (Bd e))). reflexivity.
Qed.

Theorem rb_reset_sim_new : forall debug c s n k, Inv2R s n k -> is_locked s = false -> cfg_ok2 c -> w_reg s = sc_kinds c ->
  exists s', step_op debug OReset s = Ok [] s' /\ w_issued s' = w_issued s /\ Sim s' (init_world c).
Proof.
  intros debug c s n k HI Hl Hc Hr. destruct (r2r_reset_unlocked debug s n k HI Hl) as (s' & E & Hf & R1 & _ & R3 & _).
  exists s'. split; [exact E|]. split; [exact R3|]. apply rb_fresh_sim; [exact Hf|apply r2r_fresh_init; exact Hc|].
  rewrite R1, Hr. reflexivity.
Qed.

(** C16, second sentence, on the model: after a successful Reset every history of the core class has the same
    outcome - outcome kinds and results, operation by operation - as the same history on a new world with the same
    registry, and the two worlds stay similar. *)
Theorem rb_C16_after_reset_as_new : forall debug c s n k os1 os2,
  Inv2R s n k -> is_locked s = false -> cfg_ok2 c -> w_reg s = sc_kinds c ->
  let s' := state_of (step_op debug OReset s) in
  rb_hist debug s' (init_world c) os1 os2 ->
  Sim (fst (rb_run debug s' os1)) (fst (rb_run debug (init_world c) os2)) /\
  snd (rb_run debug s' os1) = snd (rb_run debug (init_world c) os2).
Proof.
  intros debug c s n k os1 os2 HI Hl Hc Hr s' H.
  destruct (rb_reset_sim_new debug c s n k HI Hl Hc Hr) as (s0 & E & _ & HSim).
  assert (Es : s' = s0) by (unfold s'; rewrite E; reflexivity). rewrite Es in *.
  apply rb_hist_sim; assumption.
Qed.


(* ================================================================================================ *)
(** * Part 7: non-vacuity; what is NOT preserved *)
Open Scope Z_scope.
Definition rb_used : list (list Z) := [[0]; [1;2;0;1]; [2;1;3;1;3;0]; [9;1;0;7]].
Close Scope Z_scope.
Definition rb_cfg := Rel2Check.r2_cfg.
Definition rb_wA : W := state_of (step_op false OReset (Properties.Common.exec rb_cfg rb_used)).
Definition rb_wB : W := init_world rb_cfg.
Definition rb_opsB : list op := [ONewEntity; OUNew [0;1]; OWrite 1%Z 0 5%Z; OGet 1%Z 0; OUAdd 0%Z [2]; OURemove 1%Z [1]; OAlive 1%Z; ORemoveEntity 0%Z; OAlive 0%Z; ONewEntity].
Definition rb_opsA : list op := [ONewEntity; OUNew [0;1]; OWrite 4%Z 0 5%Z; OGet 4%Z 0; OUAdd 3%Z [2]; OURemove 4%Z [1]; OAlive 4%Z; ORemoveEntity 3%Z; OAlive 3%Z; ONewEntity].

Example rb_used_covered : rel_r_hist_b false (sc_kinds rb_cfg) (init_world rb_cfg, 0) rb_used = true.
Proof. vm_compute. reflexivity. Qed.

Lemma rb_cfg_ok : cfg_ok2 rb_cfg.
Proof. unfold cfg_ok2. cbn. lia. Qed.

Lemma rb_used_inv : Inv2R (Properties.Common.exec rb_cfg rb_used) (length rb_used) (r2r_epoch_of rb_cfg rb_used).
Proof.
  apply reachable_inv2R; [exact rb_cfg_ok|apply rel_r_hist_b_sound; exact rb_used_covered|].
  apply Nat.lt_le_trans with (m := Nat.pow 2 4); [cbn; lia|apply Nat.pow_le_mono_r; lia].
Qed.

(** the used-and-Reset relation world is similar to the new world *)
Example rb_example_sim : Sim rb_wA rb_wB.
Proof.
  destruct (rb_reset_sim_new false rb_cfg _ _ _ rb_used_inv) as (s' & E & _ & H); [vm_compute; reflexivity|exact rb_cfg_ok|vm_compute; reflexivity|].
  unfold rb_wA. rewrite E. exact H.
Qed.

Lemma rb_room_small : forall s, Nat.ltb (length (pe (w_pool s))) 14 = true -> room s.
Proof.
  intros s H. apply Nat.ltb_lt in H. unfold room.
  apply Nat.lt_le_trans with (m := Nat.pow 2 4); [cbn; lia|apply Nat.pow_le_mono_r; lia].
Qed.

Lemma rb_registered_b : forall s ids, forallb (fun c => Nat.ltb c (length (w_reg s))) ids = true -> registered s ids.
Proof. intros s ids H c Hc. rewrite forallb_forall in H. apply Nat.ltb_lt. apply H. exact Hc. Qed.

Ltac rb_args := split; [apply rb_registered_b; vm_compute; reflexivity|split; [intros h []|exact I]].
Ltac rb_line := split; [apply rb_room_small; vm_compute; reflexivity|split; [reflexivity|split; [cbn [rb_op_rel]; repeat split; vm_compute; reflexivity|split; [rb_args|split; [rb_args|]]]]].

(** a 10-operation script on the used-and-Reset world (handles shifted by the epoch 3) and on the new world *)
Example rb_example_hist : rb_hist false rb_wA rb_wB rb_opsA rb_opsB.
Proof.
  unfold rb_opsA, rb_opsB. cbn [rb_hist]. do 10 rb_line. exact I.
Qed.

Example rb_example_outputs :
  snd (rb_run false rb_wA rb_opsA) = snd (rb_run false rb_wB rb_opsB) /\
  snd (rb_run false rb_wB rb_opsB) =
    [Some [2; 0]; Some [3; 0]; Some []; Some [5]; Some []; Some []; Some [1]; Some []; Some [0]; Some [2; 1]]%Z /\
  Sim (fst (rb_run false rb_wA rb_opsA)) (fst (rb_run false rb_wB rb_opsB)).
Proof.
  destruct (rb_hist_sim false rb_opsA rb_opsB rb_wA rb_wB rb_example_sim rb_example_hist) as (A & B).
  split; [exact B|]. split; [vm_compute; reflexivity|exact A].
Qed.

(** (refuted) Stats is NOT the same after a Reset: the retained archetypes and tables are counted. *)
Example rb_stats_refuted :
  Sim rb_wA rb_wB /\ rb_out (step_op false OStats rb_wA) <> rb_out (step_op false OStats rb_wB) /\
  length (w_archs rb_wA) = 3 /\ length (w_archs rb_wB) = 1.
Proof.
  split; [exact rb_example_sim|]. split; [vm_compute; discriminate|]. split; vm_compute; reflexivity.
Qed.

Definition rb_all := (rb_step_strong, rb_step_sim, rb_hist_sim, rb_shift_handle, rb_fresh_sim, rb_reset_sim_new,
  rb_C16_after_reset_as_new, rb_example_sim, rb_example_hist, rb_example_outputs, rb_stats_refuted).
Print Assumptions rb_all.
