(** * Rel2Remove: work package C of the relation tier, the heart of property C04.

    [storage_remove_entity] including [cleanup_archetypes] preserves [St2], and: after removing a
    stored entity [x], every other stored entity keeps its components and values, and for every
    relation component its target is what it was, except that a target that was [x] is the zero
    entity now ([r2c_remove_entity_spec]); [x] itself is gone and its handle is dead; the call fails
    only if [x] is not a stored entity or a callback of a registered observer panics, and then the
    storage is untouched; without observers on the two removal events it never fails for a stored
    entity ([r2c_remove_never_fails_noobs]).

    Structure (the plan of Rel2Plan.v, package C, adjusted to the model in which createTable
    registers its targets itself):
    - C1 [r2c_rows_spec]: the row is swap-removed, the id recycled, the index entry invalidated; the
      state satisfies [St2G (eq k)] with [k] the id of the removed entity (tables may still name it);
    - [r2c_detached_rels]: the relation list getExchangeTargetsUnchecked builds for a table (the dying
      target replaced by zero) is a valid argument of GetTable / createTable;
    - [r2c_move_spec]: moveEntities between two tables of one archetype;
    - C2 [r2c_step_spec]: one table listed under key [k]: rows moved to the detached table, table freed
      and dropped from the cache;
    - C3 [r2c_cleanup_spec]: all tables of all relation archetypes; afterwards no lookup has key [k],
      so [k] need not be in the set of dying ids any more ([r2_RelInvG_drop]) and the flag is cleared.

    Deviation from the plan: the plan's C2/C3 assumed [r2_nostale] (no freed table is listed in a
    lookup) before every step. With one relation component FreeTable leaves the freed table listed, so
    this is false after the first step of such an archetype. What saves the code is that such an
    archetype has at most ONE active table naming a given target ([r2c_Tk_unique]); for this the
    invariant of the cleanup carries the additional clause [r2c_only]: the only target with the dying id
    that an active table names is the removed entity itself (generation included).

    The effect on the targets is tracked through the loops by the step relation [r2c_tgt_step] (a
    target stays, or had the dying id and becomes zero); the exact statement is recovered at the end
    from the invariant of the final state (no target of a stored entity is the removed entity). *)
From Ark Require Import Model.Base Model.Mask Model.Pool Model.Util Model.World Model.Run.
From Ark Require Import Proofs.TableProofs Proofs.MaskProofs Proofs.WF Proofs.StorageA Proofs.StorageBDefs
  Proofs.StorageB_sb2 Proofs.StorageB_sb3 Proofs.RelProofs Proofs.BatchProofs Proofs.Rel2Defs Proofs.Rel2Struct.
From Ark Require Properties.Common Proofs.Rel2Check.
From RecordUpdate Require Import RecordSet.
Import RecordSetNotations.
From Coq Require Import Lia Permutation.

(* ================================================================================================ *)
(** * Part 1: transport of the invariants across row moves *)

(** ** Observables at a known location *)

Lemma r2c_tgt_at : forall s x tid r t, loc s x = Some (tid, r) -> nth_error (w_tables s) tid = Some t ->
  forall c, tgt s x c = if live s x then tbl_target t c else None.
Proof. intros s x tid r t Hl Ht c. unfold tgt, target_of. rewrite Hl, Ht. reflexivity. Qed.

Lemma r2c_tgt_dead : forall s x c, live s x = false -> tgt s x c = None.
Proof. intros s x c H. unfold tgt. rewrite H. reflexivity. Qed.

Lemma r2c_tbl_target_meta : forall t t' c, sb2_meta t t' -> tbl_target t' c = tbl_target t c.
Proof.
  intros t t' c (M1 & M2 & M3 & M4 & M5 & M6). unfold tbl_target, tbl_colidx. rewrite M2, M4. reflexivity.
Qed.

(** ** WF when tables (pointwise, same layout and labels) and the index were rewritten; pool unchanged *)

Lemma r2c_WF_reindex : forall s T' I',
  WF s ->
  (forall tid t', nth_error T' tid = Some t' ->
     tbl_ok t' /\ exists t, nth_error (w_tables s) tid = Some t /\ sb2_meta t t') ->
  (forall tid t, nth_error (w_tables s) tid = Some t -> exists t', nth_error T' tid = Some t' /\ sb2_meta t t') ->
  length I' = length (w_index s) ->
  (forall tid t' r, nth_error T' tid = Some t' -> r < t_len t' ->
     nth_error I' (fst (row_ent t' r)) = Some (Some tid, r) /\
     nth_error (pe (w_pool s)) (fst (row_ent t' r)) = Some (row_ent t' r)) ->
  (forall id tid r, nth_error I' id = Some (Some tid, r) ->
     exists t', nth_error T' tid = Some t' /\ r < t_len t' /\ fst (row_ent t' r) = id) ->
  (forall id r, nth_error (w_index s) id = Some (None, r) -> nth_error I' id = Some (None, r)) ->
  (forall id tid r, nth_error (w_index s) id = Some (Some tid, r) ->
     exists tid' r', nth_error I' id = Some (Some tid', r')) ->
  WF (sb2_st s T' I').
Proof.
  intros s T' I' HW HT1 HT2 HIl Hrows Hindex Hnone Hsome.
  constructor.
  + apply Forall_nth_error. intros i x E. change (nth_error T' i = Some x) in E. apply (HT1 _ _ E).
  + intros tid t' E. change (nth_error T' tid = Some t') in E.
    destruct (HT1 _ _ E) as (_ & t & Et & M).
    destruct (wf_layout _ HW _ _ Et) as (a & Ha & Hids & Hk & Hl).
    destruct M as (M1 & M2 & M3 & M4 & M5 & M6). exists a.
    change (w_archs (sb2_st s T' I')) with (w_archs s).
    change (kind_of (sb2_st s T' I')) with (kind_of s).
    rewrite M1, M2, M3, M4. auto.
  + exact (wf_arch_comps _ HW).
  + exact (wf_arch_unique _ HW).
  + intros aid a tid Ha Hin. destruct (wf_arch_tables _ HW aid a tid Ha Hin) as (t & Et & Harch).
    destruct (HT2 _ _ Et) as (t' & Et' & M). exists t'. split; [exact Et'|]. destruct M; congruence.
  + exact (wf_arch_norel_table _ HW).
  + destruct (wf_arch0 _ HW) as (a0 & Ha0 & Hm0 & t0 & Et0 & Harch0).
    exists a0. split; [exact Ha0|]. split; [exact Hm0|].
    destruct (HT2 _ _ Et0) as (t' & Et' & M). exists t'. split; [exact Et'|]. destruct M; congruence.
  + exact (wf_index_lists _ HW).
  + destruct (wf_index_len _ HW) as (A & B). split.
    * change (length I' = length (pe (w_pool s))). congruence.
    * change (length (w_istarget s) = length I'). congruence.
  + intros tid t r E Hr. change (nth_error T' tid = Some t) in E.
    destruct (Hrows _ _ _ E Hr) as (A & B). split; [apply sb2_loc_iff; exact A | exact B].
  + exact Hindex.
  + destruct (wf_pool _ HW) as (fl & Hp & Hfl1 & Hfl2). exists fl. split; [exact Hp|]. split.
    * intros i Hi. destruct (Hfl1 i Hi) as (r & Er). exists r. apply Hnone. exact Er.
    * intros i Hi Hn. destruct (Hfl2 i Hi Hn) as (tid & r & Er). apply (Hsome _ _ _ Er).
  + destruct (wf_reserved _ HW) as ((r0 & E0) & (r1 & E1) & P0 & P1).
    split; [exists r0; apply Hnone; exact E0|]. split; [exists r1; apply Hnone; exact E1|].
    split; assumption.
  + exact (wf_small _ HW).
  + exact (wf_cache _ HW).
Qed.

(** ** WF when tables (pointwise), pool, index and target flags changed: the entity clauses are obligations *)

Lemma r2c_WF_intro : forall s s', WF s -> sb3_struct_same s s' ->
  sb3_tabs_rel (w_tables s) (w_tables s') ->
  (length (w_index s') = length (pe (w_pool s')) /\ length (w_istarget s') = length (w_index s')) ->
  (forall tid t r, nth_error (w_tables s') tid = Some t -> r < t_len t ->
      loc s' (row_ent t r) = Some (tid, r) /\
      nth_error (pe (w_pool s')) (fst (row_ent t r)) = Some (row_ent t r)) ->
  (forall id tid r, nth_error (w_index s') id = Some (Some tid, r) ->
      exists t, nth_error (w_tables s') tid = Some t /\ r < t_len t /\ fst (row_ent t r) = id) ->
  (exists fl, pool_ok (w_pool s') fl /\
      (forall i, In i fl -> exists r, nth_error (w_index s') i = Some (None, r)) /\
      (forall i, 2 <= i < length (pe (w_pool s')) -> ~ In i fl ->
                 exists tid r, nth_error (w_index s') i = Some (Some tid, r))) ->
  ((exists r0, nth_error (w_index s') 0 = Some (None, r0)) /\
   (exists r1, nth_error (w_index s') 1 = Some (None, r1)) /\
   nth_error (pe (w_pool s')) 0 = Some (0, max_u32) /\ nth_error (pe (w_pool s')) 1 = Some (1, max_u32)) ->
  length (pe (w_pool s')) < Nat.pow 2 31 ->
  WF s'.
Proof.
  intros s s' H (Ecfg & Ereg & Earch & Erela & Eci & Eac & Ech & Ece & Efi & _ & _ & _) TR
         Hil Hrows Hidx Hpool Hres Hsmall.
  assert (Hk : forall c, kind_of s' c = kind_of s c) by (intros c; unfold kind_of; rewrite Ereg; reflexivity).
  constructor; auto.
  + apply Forall_nth_error. intros i x E. destruct (sb3_tabs_rel_inv _ _ _ _ TR E) as (t & _ & O & _). exact O.
  + intros tid t' E. destruct (sb3_tabs_rel_inv _ _ _ _ TR E) as (t & Et & _ & Fa & Fi & Fk & Ft & _).
    destruct (wf_layout _ H _ _ Et) as (a & Ea & L1 & L2 & L3). exists a.
    rewrite Earch, Fa, Fi, Fk, Ft. repeat split; auto.
    rewrite L2. apply map_ext. intros; symmetry; apply Hk.
  + intros aid a Ea. rewrite Earch in Ea. destruct (wf_arch_comps _ H _ _ Ea) as (A1 & A2 & A3 & A4 & A5).
    rewrite Ereg. repeat split; auto. rewrite A3. apply map_ext. intros; rewrite Hk; reflexivity.
  + rewrite Earch. apply (wf_arch_unique _ H).
  + intros aid a tid Ea Hin. rewrite Earch in Ea.
    destruct (wf_arch_tables _ H _ _ _ Ea Hin) as (t & Et & Fa).
    destruct (proj2 TR _ _ Et) as (t' & Et' & _ & Fa' & _). exists t'. split; auto. congruence.
  + rewrite Earch. apply (wf_arch_norel_table _ H).
  + destruct (wf_arch0 _ H) as (a0 & Ea0 & M0 & t0 & Et0 & Fa0). exists a0. rewrite Earch.
    repeat split; auto. destruct (proj2 TR _ _ Et0) as (t' & Et' & _ & Fa' & _). exists t'. split; auto. congruence.
  + rewrite Eci, Eac, Ereg, Ecfg. apply (wf_index_lists _ H).
  + rewrite Ece, Ech, Efi. apply (wf_cache _ H).
Qed.

(** ** RelInvG and CacheInvG only read the labels of the tables *)

Definition r2c_tabs_meta (T T' : list table) : Prop :=
  length T' = length T /\
  forall tid t, nth_error T tid = Some t ->
    exists t', nth_error T' tid = Some t' /\ sb2_meta t t' /\ (t_free t = true -> t_len t' = 0).

Lemma r2c_tabs_meta_rev : forall T T' tid t', r2c_tabs_meta T T' -> nth_error T' tid = Some t' ->
  exists t, nth_error T tid = Some t /\ sb2_meta t t' /\ (t_free t = true -> t_len t' = 0).
Proof.
  intros T T' tid t' (L & R) E.
  assert (Hlt : tid < length T) by (rewrite <- L; eapply sa_nth_error_lt; exact E).
  destruct (nth_error T tid) as [t|] eqn:Et; [|apply nth_error_None in Et; lia].
  destruct (R _ _ Et) as (t'' & E'' & F). rewrite E in E''. injection E'' as <-. exists t. split; [reflexivity|exact F].
Qed.

Lemma r2c_tabs_meta_refl : forall T, (forall tid t, nth_error T tid = Some t -> t_free t = true -> t_len t = 0) -> r2c_tabs_meta T T.
Proof.
  intros T H. split; [reflexivity|]. intros tid t Ht. exists t. split; [exact Ht|]. split; [apply sb2_meta_refl|apply (H tid t Ht)].
Qed.

Lemma r2c_has_target_meta : forall a t t' k, sb2_meta t t' -> (r2_has_target a t' k <-> r2_has_target a t k).
Proof. intros a t t' k (_ & _ & _ & M4 & _). unfold r2_has_target. rewrite M4. tauto. Qed.

Lemma r2c_RelInvG_rows : forall D s s', RelInvG D s ->
  w_archs s' = w_archs s -> w_relarchs s' = w_relarchs s ->
  r2c_tabs_meta (w_tables s) (w_tables s') ->
  (forall x, live s x = true -> live s' x = true \/ D (fst x)) ->
  RelInvG D s'.
Proof.
  intros D s s' HR EA ER TM HL.
  assert (Rev : forall tid t', nth_error (w_tables s') tid = Some t' ->
            exists t, nth_error (w_tables s) tid = Some t /\ sb2_meta t t' /\ (t_free t = true -> t_len t' = 0))
    by (intros tid t' E; apply (r2c_tabs_meta_rev _ _ tid t' TM E)).
  destruct TM as (TL & Fwd). destruct HR.
  constructor; rewrite ?EA, ?ER.
  - exact ri_nodup.
  - intros aid a tid t' Ha Hin Ht'. destruct (Rev tid t' Ht') as (t & Ht & (M1 & M2 & M3 & M4 & M5 & M6) & _).
    rewrite M6. apply (ri_active aid a tid t Ha Hin Ht).
  - intros aid a tid t' Ha Hin Ht'. destruct (Rev tid t' Ht') as (t & Ht & (M1 & M2 & M3 & M4 & M5 & M6) & Hz).
    destruct (ri_freed aid a tid t Ha Hin Ht) as (Hf & _). rewrite M6. split; [exact Hf|apply Hz; exact Hf].
  - intros tid t' Ht'. destruct (Rev tid t' Ht') as (t & Ht & (M1 & M2 & M3 & M4 & M5 & M6) & _).
    rewrite M1, M6. apply (ri_listed tid t Ht).
  - exact ri_norel.
  - intros tid t' a Ht' Ha. destruct (Rev tid t' Ht') as (t & Ht & (M1 & M2 & M3 & M4 & M5 & M6) & _).
    rewrite M1 in Ha. rewrite M5, M4. apply (ri_shape tid t a Ht Ha).
  - intros tid1 tid2 t1' t2' H1 H2 F1 F2 Ea Et.
    destruct (Rev tid1 t1' H1) as (t1 & Ht1 & (A1 & A2 & A3 & A4 & A5 & A6) & _).
    destruct (Rev tid2 t2' H2) as (t2 & Ht2 & (B1 & B2 & B3 & B4 & B5 & B6) & _).
    apply (ri_unique tid1 tid2 t1 t2 Ht1 Ht2); congruence.
  - intros aid a i m k l Ha Hm Hk. destruct (ri_reltabs aid a i m k l Ha Hm Hk) as (N & Rc & Hall).
    split; [exact N|]. split; [exact Rc|]. intros tid Hin. destruct (Hall tid Hin) as (t & Ht & Hg & Hfr).
    destruct (Fwd tid t Ht) as (t' & Ht' & (M1 & M2 & M3 & M4 & M5 & M6) & _).
    exists t'. split; [exact Ht'|]. rewrite M4, M6. split; [exact Hg|exact Hfr].
  - intros tid t' a i x Ht' Hf Ha Hr Hx. destruct (Rev tid t' Ht') as (t & Ht & (M1 & M2 & M3 & M4 & M5 & M6) & _).
    rewrite M1 in Ha. rewrite M6 in Hf. rewrite M4 in Hx. apply (ri_reltabs_complete tid t a i x Ht Hf Ha Hr Hx).
  - intros aid a k l Ha Hk. destruct (ri_tgttabs aid a k l Ha Hk) as (N & Hall).
    split; [exact N|]. intros tid Hin. destruct (Hall tid Hin) as (t & Ht & Hg & Hfr).
    destruct (Fwd tid t Ht) as (t' & Ht' & M & _).
    exists t'. split; [exact Ht'|]. split; [apply (r2c_has_target_meta a t t' k M); exact Hg|].
    destruct M as (M1 & M2 & M3 & M4 & M5 & M6). rewrite M6. exact Hfr.
  - intros tid t' a i x Ht' Hf Ha Hr Hx. destruct (Rev tid t' Ht') as (t & Ht & (M1 & M2 & M3 & M4 & M5 & M6) & _).
    rewrite M1 in Ha. rewrite M6 in Hf. rewrite M4 in Hx. apply (ri_tgttabs_complete tid t a i x Ht Hf Ha Hr Hx).
  - exact ri_keys.
  - exact ri_relarchs.
  - intros tid t' r Ht' Hf Hin. destruct (Rev tid t' Ht') as (t & Ht & (M1 & M2 & M3 & M4 & M5 & M6) & _).
    rewrite M6 in Hf. rewrite M5 in Hin. destruct (ri_targets_ok tid t r Ht Hf Hin) as [Hz|[Hl|Hd]].
    + left. exact Hz.
    + destruct (HL _ Hl) as [Hl'|Hd]; [right; left; exact Hl'|right; right; exact Hd].
    + right. right. exact Hd.
Qed.

Lemma r2c_rels_match_meta : forall t t' rels, sb2_meta t t' -> rels_match t' rels = rels_match t rels.
Proof.
  intros t t' rels M. induction rels as [|[c x] rest IH]; [reflexivity|]. cbn [rels_match].
  rewrite (r2c_tbl_target_meta t t' c M), IH. reflexivity.
Qed.

Lemma r2c_tbl_matches_meta : forall t t' rels, sb2_meta t t' -> tbl_matches t' rels = tbl_matches t rels.
Proof.
  intros t t' rels M. unfold tbl_matches, tbl_has_rels. rewrite (r2c_rels_match_meta t t' rels M).
  destruct M as (_ & _ & _ & _ & M5 & _). rewrite M5. reflexivity.
Qed.

Lemma r2c_CacheInvG_rows : forall X s s', CacheInvG X s ->
  w_archs s' = w_archs s -> w_centries s' = w_centries s -> w_cheap s' = w_cheap s -> w_filters s' = w_filters s ->
  r2c_tabs_meta (w_tables s) (w_tables s') ->
  CacheInvG X s'.
Proof.
  intros X s s' HC EA Ec Eh Ef TM.
  assert (Rev : forall tid t', nth_error (w_tables s') tid = Some t' ->
            exists t, nth_error (w_tables s) tid = Some t /\ sb2_meta t t' /\ (t_free t = true -> t_len t' = 0))
    by (intros tid t' E; apply (r2c_tabs_meta_rev _ _ tid t' TM E)).
  destruct TM as (TL & Fwd). destruct HC. constructor; rewrite ?Ec; [exact ci_nodup|].
  intros addr e f Hin He Hf. rewrite Eh in He. rewrite Ef in Hf.
  destruct (ci_entry addr e f Hin He Hf) as (N & M & B & I). split; [exact N|]. split; [exact M|]. split.
  - rewrite TL. exact B.
  - intros tid HX. rewrite (I tid HX). unfold r2_cache_member. rewrite EA. split.
    + intros (t & a & Ht & Hfr & Ha & Hm & Hr). destruct (Fwd tid t Ht) as (t' & Ht' & Mt & _).
      pose proof Mt as (M1 & M2 & M3 & M4 & M5 & M6).
      exists t', a. rewrite M1, M6, M5, (r2c_tbl_matches_meta t t' _ Mt). repeat split; assumption.
    + intros (t' & a & Ht' & Hfr & Ha & Hm & Hr). destruct (Rev tid t' Ht') as (t & Ht & Mt & _).
      pose proof Mt as (M1 & M2 & M3 & M4 & M5 & M6).
      rewrite M1 in Ha. rewrite M6 in Hfr. rewrite M5, (r2c_tbl_matches_meta t t' _ Mt) in Hr.
      exists t, a. repeat split; assumption.
Qed.

Lemma r2c_TargetFlagsG_ext : forall P s s', TargetFlagsG P s -> w_archs s' = w_archs s -> w_istarget s' = w_istarget s ->
  TargetFlagsG P s'.
Proof. intros P s s' H EA EI aid a k l Ha Hk. rewrite EA in Ha. rewrite EI. apply (H aid a k l Ha Hk). Qed.

(* ================================================================================================ *)
(** * Part 2: the row removal of RemoveEntity in relation worlds (C1) *)

(** ** The state after the storage part of RemoveEntity (cf. [sb3_rm_post], here for [WF] alone and
    with the relation targets of the other entities) *)
Lemma r2c_rm_post : forall s s' e tid row t sw t1, WF s ->
  nth_error (w_index s) (fst e) = Some (Some tid, row) -> nth_error (w_tables s) tid = Some t ->
  row < t_len t -> row_ent t row = e ->
  tbl_remove t row = (sw, t1) ->
  sb3_struct_same s s' ->
  w_tables s' = updf tid (fun _ => t1) (w_tables s) ->
  pool_recycle (w_pool s) e = Some (w_pool s') ->
  w_index s' = updf (fst e) (fun ix => (None, snd ix))
                 (if sw then updf (fst (row_ent t1 row)) (fun ix => (fst ix, row)) (w_index s) else w_index s) ->
  length (w_istarget s') = length (w_istarget s) ->
  WF s' /\ live s' e = false /\ alive s' e = false /\ (forall c, val s' e c = None) /\
  others_same s s' e /\ length (pe (w_pool s')) = length (pe (w_pool s)) /\
  (forall e', e' <> e -> forall c, tgt s' e' c = tgt s e' c) /\
  (forall x, fst x = fst e -> live s' x = false) /\ 2 <= fst e.
Proof.
  intros s s' e tid row t sw t1 H Hi Ht Hr He Hrm SS Etabs Epool Eidx Eist.
  pose proof (proj1 (Forall_nth_error _ tbl_ok (w_tables s)) (wf_tables _ H)) as HF.
  pose proof (HF _ _ Ht) as Ok_t.
  pose proof (tbl_remove_spec t row Ok_t Hr) as SP. rewrite Hrm in SP.
  destruct SP as (Esw & EL & Sc0 & Se0 & Sc & Se & Fids & Fk & Fa & Fr & Ft & Ff & Fcap).
  pose proof (tbl_remove_ok t row Ok_t Hr) as Ok_t1. rewrite Hrm in Ok_t1. simpl in Ok_t1.
  set (L := t_len t) in *. set (le := row_ent t (L - 1)) in *.
  assert (Hlast : L - 1 < L) by lia.
  destruct (wf_rows _ H _ _ _ Ht Hlast) as (Lle & Ple). fold le in Lle, Ple.
  destruct (wf_rows _ H _ _ _ Ht Hr) as (Le_ & Pe). rewrite He in Le_, Pe.
  assert (Ile : nth_error (w_index s) (fst le) = Some (Some tid, L - 1)).
  { unfold loc in Lle. destruct (nth_error (w_index s) (fst le)) as [[[j|] r]|]; inversion Lle; subst; reflexivity. }
  assert (Hsw : sw = true -> row < L - 1 /\ row_ent t1 row = le /\ fst le <> fst e).
  { intros ->. symmetry in Esw. apply Bool.negb_true_iff in Esw. apply Nat.eqb_neq in Esw.
    assert (row < L - 1) by lia. split; auto. split; [apply Se0; lia|].
    intro Hf. rewrite Hf, Hi in Ile. inversion Ile. lia. }
  assert (Hnsw : sw = false -> row = L - 1).
  { intros ->. symmetry in Esw. apply Bool.negb_false_iff in Esw. apply Nat.eqb_eq in Esw. exact Esw. }
  (* the new index *)
  assert (Ie : nth_error (w_index s') (fst e) = Some (None, row)).
  { rewrite Eidx, nth_error_updf, Nat.eqb_refl. destruct sw.
    - destruct (Hsw eq_refl) as (_ & -> & Hne). rewrite nth_error_updf.
      destruct (Nat.eqb_spec (fst le) (fst e)); [contradiction|]. rewrite Hi. reflexivity.
    - rewrite Hi. reflexivity. }
  assert (Ile' : sw = true -> nth_error (w_index s') (fst le) = Some (Some tid, row)).
  { intros ->. destruct (Hsw eq_refl) as (_ & Er & Hne). rewrite Eidx, nth_error_updf.
    destruct (Nat.eqb_spec (fst e) (fst le)); [congruence|].
    rewrite Er, nth_error_updf, Nat.eqb_refl, Ile. reflexivity. }
  assert (Io : forall i, i <> fst e -> (sw = true -> i <> fst le) ->
                         nth_error (w_index s') i = nth_error (w_index s) i).
  { intros i N1 N2. rewrite Eidx, nth_error_updf. destruct (Nat.eqb_spec (fst e) i); [congruence|].
    destruct sw; auto. destruct (Hsw eq_refl) as (_ & -> & _). rewrite nth_error_updf.
    destruct (Nat.eqb_spec (fst le) i); auto. exfalso. apply N2; auto. }
  assert (Ilen : length (w_index s') = length (w_index s)).
  { rewrite Eidx, updf_length. destruct sw; auto. apply updf_length. }
  assert (Hcase : forall i, i = fst e \/ (sw = true /\ i = fst le) \/ (i <> fst e /\ (sw = true -> i <> fst le))).
  { intros i. destruct (Nat.eq_dec i (fst e)); auto. destruct sw; [|right; right; split; auto; discriminate].
    destruct (Nat.eq_dec i (fst le)); auto. }
  (* the new tables *)
  assert (Etab : forall j, nth_error (w_tables s') j = if tid =? j then Some t1 else nth_error (w_tables s) j).
  { intros j. rewrite Etabs, nth_error_updf. destruct (Nat.eqb_spec tid j); auto. subst. rewrite Ht. reflexivity. }
  (* the new pool *)
  destruct (wf_pool _ H) as (fl & PO & F1 & F2).
  assert (Hge : 2 <= fst e) by (eapply sb3_valid_id_ge2; eauto).
  assert (Hgle : 2 <= fst le) by (eapply sb3_valid_id_ge2; eauto).
  assert (Hnin : ~ In (fst e) fl).
  { intros Hin. destruct (F1 _ Hin) as (r & Er). rewrite Hi in Er. discriminate. }
  destruct (pool_recycle_spec _ _ _ PO Hge Pe Hnin) as (p' & Ep' & PO' & PL & Pother & (l & Pslot)).
  rewrite Epool in Ep'. inversion Ep'; subst p'. clear Ep'.
  (* distinct rows, distinct ids *)
  assert (Hinj_e : forall j t0 r, nth_error (w_tables s) j = Some t0 -> r < t_len t0 ->
                                  (j = tid -> r <> row) -> fst (row_ent t0 r) <> fst e).
  { intros j t0 r E Hlt Hd Hf. rewrite <- He in Hf.
    destruct (sb3_rows_inj s j t0 r tid t row H E Hlt Ht Hr Hf) as (A & B). exact (Hd A B). }
  assert (Hinj_le : forall j t0 r, nth_error (w_tables s) j = Some t0 -> r < t_len t0 ->
                                   (j = tid -> r <> L - 1) -> fst (row_ent t0 r) <> fst le).
  { intros j t0 r E Hlt Hd Hf.
    destruct (sb3_rows_inj s j t0 r tid t (L - 1) H E Hlt Ht Hlast Hf) as (A & B). exact (Hd A B). }
  assert (Hnot_last : forall r, r < L -> r <> row -> (sw = true -> fst (row_ent t r) <> fst le) -> r < L - 1).
  { intros r Hlt Hne Hf. destruct sw.
    - destruct (Nat.eq_dec r (L - 1)) as [->|]; [exfalso; apply Hf; reflexivity|lia].
    - specialize (Hnsw eq_refl). lia. }
  assert (HSt' : WF s').
  { apply (r2c_WF_intro s s' H SS).
    - split; [rewrite Etabs; apply updf_length|].
      intros j t0 E. rewrite Etab. destruct (Nat.eqb_spec tid j) as [<-|Hne].
      + rewrite Ht in E. inversion E; subst t0. exists t1. split; [reflexivity|]. split; [exact Ok_t1|].
        repeat split; assumption.
      + exists t0. split; [exact E|]. split; [apply (HF _ _ E)|]. repeat split.
    - destruct (wf_index_len _ H) as (A & B). split; [rewrite Ilen, PL; exact A|rewrite Eist, Ilen; exact B].
    - intros j t0 r E Hlt. rewrite Etab in E. destruct (Nat.eqb_spec tid j) as [<-|Hne].
      + inversion E; subst t0. rewrite EL in Hlt. destruct (Nat.eq_dec r row) as [->|Hrr].
        * assert (Hs : sw = true) by (destruct sw; auto; specialize (Hnsw eq_refl); lia).
          destruct (Hsw Hs) as (_ & Er & Hne). rewrite Er. split.
          -- unfold loc. rewrite (Ile' Hs). reflexivity.
          -- rewrite Pother by auto. exact Ple.
        * rewrite (Se r) by lia. assert (Hlt' : r < L) by lia.
          destruct (wf_rows _ H _ _ _ Ht Hlt') as (Lx & Px).
          pose proof (Hinj_e _ _ _ Ht Hlt' (fun _ => Hrr)) as N1.
          assert (N2 : fst (row_ent t r) <> fst le) by (apply (Hinj_le _ _ _ Ht Hlt'); lia).
          split; [|rewrite Pother by auto; exact Px].
          unfold loc in *. rewrite Io by auto. exact Lx.
      + destruct (wf_rows _ H _ _ _ E Hlt) as (Lx & Px).
        assert (N1 : fst (row_ent t0 r) <> fst e) by (apply (Hinj_e _ _ _ E Hlt); congruence).
        assert (N2 : fst (row_ent t0 r) <> fst le) by (apply (Hinj_le _ _ _ E Hlt); congruence).
        split; [|rewrite Pother by auto; exact Px].
        unfold loc in *. rewrite Io by auto. exact Lx.
    - intros id j r E. destruct (Hcase id) as [->|[(Hs & ->)|(N1 & N2)]].
      + rewrite Ie in E. discriminate.
      + rewrite (Ile' Hs) in E. inversion E; subst j r. destruct (Hsw Hs) as (Hlt & Er & _).
        exists t1. rewrite Etab, Nat.eqb_refl, EL, Er. auto.
      + rewrite Io in E by auto. destruct (wf_index _ H _ _ _ E) as (t0 & E0 & Hlt & Hf).
        destruct (Nat.eq_dec j tid) as [->|Hne].
        * rewrite Ht in E0. inversion E0; subst t0.
          assert (Hrr : r <> row) by (intros ->; apply N1; rewrite <- Hf, He; reflexivity).
          assert (Hlt' : r < L - 1) by (apply Hnot_last; auto; intros Hs; rewrite Hf; auto).
          exists t1. rewrite Etab, Nat.eqb_refl, EL, (Se r) by lia. auto.
        * exists t0. rewrite Etab. destruct (Nat.eqb_spec tid j); [congruence|]. auto.
    - exists (fst e :: fl). split; [exact PO'|]. split.
      + intros i [<-|Hin]; [exists row; exact Ie|]. destruct (F1 _ Hin) as (r & Er).
        destruct (Hcase i) as [->|[(Hs & ->)|(N1 & N2)]].
        * exists row. exact Ie.
        * rewrite Ile in Er. discriminate.
        * exists r. rewrite Io by auto. exact Er.
      + intros i Hi2 Hn. rewrite PL in Hi2.
        assert (N1 : i <> fst e) by (intros ->; apply Hn; left; reflexivity).
        assert (Hn' : ~ In i fl) by (intros Hin; apply Hn; right; exact Hin).
        destruct (F2 i Hi2 Hn') as (j & r & Er).
        destruct (Hcase i) as [->|[(Hs & ->)|(_ & N2)]]; [congruence| |].
        * exists tid, row. apply Ile'; auto.
        * exists j, r. rewrite Io by auto. exact Er.
    - destruct (wf_reserved _ H) as ((r0 & E0) & (r1 & E1) & P0 & P1).
      split; [exists r0; rewrite Io by lia; exact E0|].
      split; [exists r1; rewrite Io by lia; exact E1|].
      split; [rewrite Pother by lia; exact P0|rewrite Pother by lia; exact P1].
    - rewrite PL. exact (wf_small _ H). }
  assert (Rn : sb3_row_of s' e = None) by (unfold sb3_row_of; rewrite Ie; reflexivity).
  assert (OS : others_same s s' e).
  {
    intros e' Hne'. destruct (Hcase (fst e')) as [Hf|[(Hs & Hf)|(N1 & N2)]].
    - (* a stale handle of the same ID *)
      assert (R' : sb3_row_of s' e' = None) by (unfold sb3_row_of; rewrite Hf, Ie; reflexivity).
      assert (R : sb3_row_of s e' = Some (t, row)) by (unfold sb3_row_of; rewrite Hf, Hi, Ht; reflexivity).
      assert (Hb : ent_eqb (row_ent t row) e' = false) by (apply sb3_ent_eqb_false; congruence).
      split; [|intros c]; rewrite ?sb3_live_row, ?sb3_val_row, R, R', Hb, Bool.andb_false_r; reflexivity.
    - (* the entity swapped into the vacated row *)
      destruct (Hsw Hs) as (Hlt & Er & _).
      assert (R' : sb3_row_of s' e' = Some (t1, row)).
      { unfold sb3_row_of. rewrite Hf, (Ile' Hs), Etab, Nat.eqb_refl. reflexivity. }
      assert (R : sb3_row_of s e' = Some (t, L - 1)) by (unfold sb3_row_of; rewrite Hf, Ile, Ht; reflexivity).
      apply (sb3_same_some s s' e' t (L - 1) t1 row R R'); auto; try lia.
      intros ci. apply Sc0. lia.
    - destruct (sb3_row_of s e') as [[t0 r0]|] eqn:R.
      + destruct (sb3_row_of_wf _ _ _ _ H R) as (j & Ei0 & Et0 & Hlt0 & Hf0).
        destruct (Nat.eq_dec j tid) as [->|Hnj].
        * rewrite Ht in Et0. inversion Et0; subst t0.
          assert (Hrr : r0 <> row) by (intros ->; apply N1; rewrite <- Hf0, He; reflexivity).
          assert (Hlt' : r0 < L - 1) by (apply Hnot_last; auto; intros Hs; rewrite Hf0; auto).
          assert (R' : sb3_row_of s' e' = Some (t1, r0)).
          { unfold sb3_row_of. rewrite Io, Ei0, Etab, Nat.eqb_refl by auto. reflexivity. }
          apply (sb3_same_some s s' e' t r0 t1 r0 R R'); auto; try lia.
          -- apply Se; lia.
          -- intros ci. apply Sc; lia.
        * assert (R' : sb3_row_of s' e' = Some (t0, r0)).
          { unfold sb3_row_of. rewrite Io, Ei0, Etab by auto.
            destruct (Nat.eqb_spec tid j); [congruence|]. rewrite Et0. reflexivity. }
          split; [|intros c]; rewrite ?sb3_live_row, ?sb3_val_row, R, R'; reflexivity.
      + apply sb3_same_none; auto. unfold sb3_row_of in *. rewrite Io by auto.
        destruct (nth_error (w_index s) (fst e')) as [[[j|] r0]|]; auto.
        rewrite Etab. destruct (Nat.eqb_spec tid j) as [<-|]; [rewrite Ht in R; discriminate|].
        destruct (nth_error (w_tables s) j); [discriminate|reflexivity].
  }
  split; [exact HSt'|]. split; [rewrite sb3_live_row, Rn; reflexivity|].
  split.
  { unfold alive, pool_alive. rewrite Pslot. apply N.eqb_neq. apply sb3_gen_bump. }
  split; [intros c; rewrite sb3_val_row, Rn; reflexivity|].
  split; [exact OS|]. split; [exact PL|]. split; [|split; [|exact Hge]].
  - intros e' Hne' c. destruct (OS e' Hne') as (Lv & _).
    destruct (live s e') eqn:Hl; [|rewrite (r2c_tgt_dead s' e' c Lv), (r2c_tgt_dead s e' c Hl); reflexivity].
    destruct (sb2_live_elim _ _ Hl) as (j & r0 & t0 & L0 & T0 & R0 & E0).
    rewrite (r2c_tgt_at s e' j r0 t0 L0 T0 c), Hl.
    apply sb2_loc_iff in L0.
    destruct (Hcase (fst e')) as [Hf|[(Hs & Hf)|(N1 & N2)]].
    + exfalso. rewrite Hf, Hi in L0. injection L0 as <- <-. rewrite Ht in T0. injection T0 as <-. congruence.
    + rewrite Hf, Ile in L0. injection L0 as <- <-. rewrite Ht in T0. injection T0 as <-.
      assert (L' : loc s' e' = Some (tid, row)) by (apply sb2_loc_iff; rewrite Hf; apply (Ile' Hs)).
      assert (T' : nth_error (w_tables s') tid = Some t1) by (rewrite Etab, Nat.eqb_refl; reflexivity).
      rewrite (r2c_tgt_at s' e' tid row t1 L' T' c), Lv. unfold tbl_target, tbl_colidx. rewrite Fids, Ft. reflexivity.
    + assert (L' : loc s' e' = Some (j, r0)) by (apply sb2_loc_iff; rewrite Io by auto; exact L0).
      destruct (Nat.eq_dec j tid) as [->|Hnj].
      * rewrite Ht in T0. injection T0 as <-.
        assert (T' : nth_error (w_tables s') tid = Some t1) by (rewrite Etab, Nat.eqb_refl; reflexivity).
        rewrite (r2c_tgt_at s' e' tid r0 t1 L' T' c), Lv. unfold tbl_target, tbl_colidx. rewrite Fids, Ft. reflexivity.
      * assert (T' : nth_error (w_tables s') j = Some t0).
        { rewrite Etab. destruct (Nat.eqb_spec tid j); [congruence|exact T0]. }
        rewrite (r2c_tgt_at s' e' j r0 t0 L' T' c), Lv. reflexivity.
  - intros x Hx. destruct (live s' x) eqn:Hl; [|reflexivity]. exfalso.
    destruct (sb2_live_elim _ _ Hl) as (j & r0 & t0 & L0 & _). apply sb2_loc_iff in L0. rewrite Hx, Ie in L0. discriminate.
Qed.

(** Everything except entity [e] keeps components, values and targets. *)
Definition r2c_others_same (s s' : W) (e : ent) : Prop :=
  forall e', e' <> e -> live s' e' = live s e' /\ (forall c, val s' e' c = val s e' c) /\ (forall c, tgt s' e' c = tgt s e' c).

(** The row part of [storage_remove_entity] (after the callbacks, before the cleanup). *)
Definition r2c_rows (e : ent) (tid row : nat) : MW unit :=
  t <- getT tid ;;
  let '(swapped, t') := tbl_remove t row in
  setT tid t' ;;;
  pool_recycleM e ;;;
  whenM swapped (
    match nth_error (t_ents t') row with
    | Some se => modify (fun s => s <| w_index ::= updf (fst se) (fun ix => (fst ix, row)) |>)
    | None => fail EIndex
    end) ;;;
  modify (fun s => s <| w_index ::= updf (fst e) (fun ix => (None, snd ix)) |>).

(** ... and the cleanup part. *)
Definition r2c_tail (e : ent) : MW unit :=
  s <- get ;;
  whenM (nth (fst e) (w_istarget s) false) (
    cleanup_archetypes e ;;;
    modify (fun s => s <| w_istarget ::= upd (fst e) false |>)).

Lemma r2c_bind_assoc : forall A B C (m : MW A) (f : A -> MW B) (g : B -> MW C) s,
  bind (bind m f) g s = bind m (fun x => bind (f x) g) s.
Proof. intros. unfold bind. destruct (m s); reflexivity. Qed.

Lemma r2c_bind_ext : forall A B (m : MW A) (k1 k2 : A -> MW B) s,
  (forall a s', k1 a s' = k2 a s') -> bind m k1 s = bind m k2 s.
Proof. intros A B m k1 k2 s H. unfold bind. destruct (m s); [apply H|reflexivity]. Qed.

Lemma r2c_core_split : forall e tid row s, sb3_rm_core e tid row s = (r2c_rows e tid row ;;; r2c_tail e) s.
Proof.
  intros e tid row s. unfold sb3_rm_core, r2c_rows. fold (r2c_tail e).
  rewrite r2c_bind_assoc. apply r2c_bind_ext. intros t s0.
  destruct (tbl_remove t row) as [sw t1].
  rewrite r2c_bind_assoc. apply r2c_bind_ext. intros u1 s1.
  rewrite r2c_bind_assoc. apply r2c_bind_ext. intros u2 s2.
  rewrite r2c_bind_assoc. apply r2c_bind_ext. intros u3 s3.
  reflexivity.
Qed.

(** ** No free table is listed in a lookup, unless its key is dying and there is one relation component *)

Lemma r2c_nostale : forall D s aid a, RelInvG D s -> nth_error (w_archs s) aid = Some a ->
  (2 <= a_numrel a \/ forall k, ~ D k) -> r2_nostale a.
Proof.
  intros D s aid a HR Ha Hc x Hx. split.
  - intros k l Hk Hin. destruct (ri_tgttabs _ _ HR aid a k l Ha Hk) as (_ & Hall).
    destruct (Hall x Hin) as (t & Ht & _ & Hfr). destruct (ri_freed _ _ HR aid a x t Ha Hx Ht) as (Hf & _).
    destruct (Hfr Hf) as (Hd & Hle). destruct Hc as [Hc|Hc]; [lia|exact (Hc k Hd)].
  - intros i m k l Hm Hk Hin. destruct (ri_reltabs _ _ HR aid a i m k l Ha Hm Hk) as (_ & _ & Hall).
    destruct (Hall x Hin) as (t & Ht & _ & Hfr). destruct (ri_freed _ _ HR aid a x t Ha Hx Ht) as (Hf & _).
    destruct (Hfr Hf) as (Hd & Hle). destruct Hc as [Hc|Hc]; [lia|exact (Hc k Hd)].
Qed.

Lemma r2c_free_len0 : forall D s j tj, RelInvG D s -> nth_error (w_tables s) j = Some tj -> t_free tj = true -> t_len tj = 0.
Proof.
  intros D s j tj HR Hj Hf. destruct (ri_listed _ _ HR j tj Hj) as (a & Ha & Hl). rewrite Hf in Hl.
  apply (ri_freed _ _ HR _ a j tj Ha Hl Hj).
Qed.

Lemma r2c_tabs_meta_self : forall D s, RelInvG D s -> r2c_tabs_meta (w_tables s) (w_tables s).
Proof. intros D s HR. apply r2c_tabs_meta_refl. intros tid t Ht Hf. apply (r2c_free_len0 D s tid t HR Ht Hf). Qed.

(** ** C1: the state after the row removal *)

Lemma r2c_rows_post : forall s s1 e tid row t sw t1, St2 s ->
  nth_error (w_index s) (fst e) = Some (Some tid, row) -> nth_error (w_tables s) tid = Some t ->
  row < t_len t -> row_ent t row = e ->
  tbl_remove t row = (sw, t1) ->
  sb3_struct_same s s1 ->
  w_tables s1 = updf tid (fun _ => t1) (w_tables s) ->
  pool_recycle (w_pool s) e = Some (w_pool s1) ->
  w_index s1 = updf (fst e) (fun ix => (None, snd ix))
                 (if sw then updf (fst (row_ent t1 row)) (fun ix => (fst ix, row)) (w_index s) else w_index s) ->
  w_istarget s1 = w_istarget s -> side_same s s1 ->
  St2G (eq (fst e)) r2_none r2_none s1 /\
  live s e = true /\ live s1 e = false /\ alive s1 e = false /\ (forall x, fst x = fst e -> live s1 x = false) /\
  r2c_others_same s s1 e /\
  w_archs s1 = w_archs s /\ w_istarget s1 = w_istarget s /\ w_relarchs s1 = w_relarchs s /\
  length (pe (w_pool s1)) = length (pe (w_pool s)) /\ 2 <= fst e /\
  frame_user s s1 /\ side_same s s1 /\ r2c_tabs_meta (w_tables s) (w_tables s1).
Proof.
  intros s s1 e tid row t sw t1 HS Hi Ht Hr He Hrm SS Etabs Epool Eidx Eist Hside.
  pose proof HS as (H & (HR & HT) & HC).
  assert (Eist' : length (w_istarget s1) = length (w_istarget s)) by (rewrite Eist; reflexivity).
  destruct (r2c_rm_post s s1 e tid row t sw t1 H Hi Ht Hr He Hrm SS Etabs Epool Eidx Eist')
    as (HW1 & Ld & Ad & _ & OS & PL & TG & Dead & Hge).
  pose proof SS as (Ecfg & Ereg & Earch & Erela & Eci & Eac & Ech & Ece & Efi & Equ & Eres & Eiss).
  pose proof (sb2_table_ok _ _ _ H Ht) as Ok_t.
  pose proof (tbl_remove_spec t row Ok_t Hr) as SP. rewrite Hrm in SP.
  destruct SP as (_ & EL & _ & _ & _ & _ & Fids & Fk & Fa & Fr & Ft & Ff & _).
  assert (Hlive : live s e = true) by (eapply sb3_live_of_row; eauto).
  assert (TM : r2c_tabs_meta (w_tables s) (w_tables s1)).
  { split; [rewrite Etabs; apply updf_length|]. intros j tj Hj. rewrite Etabs, nth_error_updf.
    destruct (Nat.eqb_spec tid j) as [<-|Hne].
    - rewrite Ht in Hj. injection Hj as <-. rewrite Ht. cbn [option_map]. exists t1. split; [reflexivity|].
      split; [repeat split; assumption|]. intros Hf. pose proof (r2c_free_len0 _ s tid t HR Ht Hf). lia.
    - exists tj. split; [exact Hj|]. split; [apply sb2_meta_refl|]. intros Hf. apply (r2c_free_len0 _ s j tj HR Hj Hf). }
  assert (HR1 : RelInvG (eq (fst e)) s1).
  { apply (r2c_RelInvG_rows (eq (fst e)) s s1); try assumption.
    - apply (r2_RelInvG_mono s r2_none); [intros k []|exact HR].
    - intros x Hx. destruct (ent_eqb x e) eqn:Ex.
      + apply sa_ent_eqb_eq in Ex. subst x. right. reflexivity.
      + left. assert (Hne : x <> e) by (intros ->; rewrite sa_ent_eqb_refl in Ex; discriminate).
        rewrite (proj1 (OS x Hne)). exact Hx. }
  split.
  { split; [exact HW1|]. split; [exact HR1|]. split.
    - apply (r2c_TargetFlagsG_ext r2_none s s1 HT Earch Eist).
    - apply (r2c_CacheInvG_rows r2_none s s1 HC); assumption. }
  split; [exact Hlive|]. split; [exact Ld|]. split; [exact Ad|]. split; [exact Dead|]. split.
  { intros e' Hne. destruct (OS e' Hne) as (O1 & O2). split; [exact O1|]. split; [exact O2|]. apply (TG e' Hne). }
  split; [exact Earch|]. split; [exact Eist|]. split; [exact Erela|]. split; [exact PL|]. split; [exact Hge|].
  split; [|split; [exact Hside|exact TM]]. unfold frame_user. repeat split; assumption.
Qed.

Lemma r2c_rows_spec : forall s e tid row, St2 s -> alive s e = true ->
  nth_error (w_index s) (fst e) = Some (Some tid, row) ->
  exists s1, r2c_rows e tid row s = Ok tt s1 /\
    St2G (eq (fst e)) r2_none r2_none s1 /\
    live s e = true /\ live s1 e = false /\ alive s1 e = false /\ (forall x, fst x = fst e -> live s1 x = false) /\
    r2c_others_same s s1 e /\
    w_archs s1 = w_archs s /\ w_istarget s1 = w_istarget s /\ w_relarchs s1 = w_relarchs s /\
    length (pe (w_pool s1)) = length (pe (w_pool s)) /\ 2 <= fst e /\
    frame_user s s1 /\ side_same s s1 /\ r2c_tabs_meta (w_tables s) (w_tables s1).
Proof.
  intros s e tid row HS Ha Hi. pose proof HS as (H & _).
  destruct (sb3_alive_index_live _ _ _ _ H Ha Hi) as (t & Ht & Hr & He).
  pose proof (sb2_table_ok _ _ _ H Ht) as Ok_t.
  assert (Hp : exists p', pool_recycle (w_pool s) e = Some p').
  { destruct (wf_pool _ H) as (fl & PO & F1 & F2).
    assert (Hge : 2 <= fst e) by (eapply sb3_valid_id_ge2; eauto).
    assert (Hnin : ~ In (fst e) fl).
    { intros Hin. destruct (F1 _ Hin) as (r & Er). rewrite Hi in Er. discriminate. }
    destruct (wf_rows _ H _ _ _ Ht Hr) as (_ & Pe). rewrite He in Pe.
    destruct (pool_recycle_spec _ _ _ PO Hge Pe Hnin) as (p' & Ep' & _). eauto. }
  destruct Hp as (p' & Ep).
  destruct (tbl_remove t row) as [sw t1] eqn:Hrm.
  assert (Hse : sw = true -> nth_error (t_ents t1) row = Some (row_ent t1 row)).
  { intros ->. pose proof (tbl_remove_spec t row Ok_t Hr) as SP. rewrite Hrm in SP.
    destruct SP as (Esw & EL & _).
    pose proof (tbl_remove_ok t row Ok_t Hr) as Ok_t1. rewrite Hrm in Ok_t1. simpl in Ok_t1.
    destruct (tbl_ok_elim _ Ok_t1) as (O1 & O2 & _).
    symmetry in Esw. apply Bool.negb_true_iff in Esw. apply Nat.eqb_neq in Esw.
    unfold row_ent. apply nth_error_nth'. lia. }
  unfold r2c_rows.
  cbv [bind get put modify setT modT getT pool_recycleM whenM ret of_opt].
  rewrite Ht, Hrm. cbn. rewrite Ep. cbn.
  destruct sw.
  - rewrite (Hse eq_refl). cbn. eexists. split; [reflexivity|].
    apply (r2c_rows_post s _ e tid row t true t1 HS Hi Ht Hr He Hrm);
      [repeat split; reflexivity|reflexivity|exact Ep|reflexivity|reflexivity|repeat split; reflexivity].
  - cbn. eexists. split; [reflexivity|].
    apply (r2c_rows_post s _ e tid row t false t1 HS Hi Ht Hr He Hrm);
      [repeat split; reflexivity|reflexivity|exact Ep|reflexivity|reflexivity|repeat split; reflexivity].
Qed.

(* ================================================================================================ *)
(** * Part 3: the relation list the cleanup builds for a table (C_detached_rels_valid) *)

(** ** getExchangeTargetsUnchecked *)

Definition r2c_ugo (t : table) :=
  fix go (rels : list rel) (tg : list ent) : MW (list ent) :=
    match rels with
    | [] => ret tg
    | (c, x) :: rest =>
        match tbl_colidx t c with
        | Some i => go rest (upd i x tg)
        | None => fail ENil
        end
    end.

Lemma r2c_xu_unfold : forall t rels,
  exchange_targets_unchecked t rels =
  (targets <- r2c_ugo t rels (t_targets t) ;;
   ret (map (fun p => (fst (fst p), snd p))
            (filter (fun p => ck_rel (snd (fst p))) (combine (combine (t_ids t) (t_kinds t)) targets)))).
Proof. reflexivity. Qed.

Fixpoint r2c_place (t : table) (rels : list rel) (tg : list ent) : list ent :=
  match rels with
  | [] => tg
  | (c, x) :: rest =>
      match tbl_colidx t c with
      | Some i => r2c_place t rest (upd i x tg)
      | None => tg
      end
  end.

Lemma r2c_ugo_ok : forall t rels tg s, (forall r, In r rels -> tbl_colidx t (fst r) <> None) ->
  r2c_ugo t rels tg s = Ok (r2c_place t rels tg) s.
Proof.
  intros t rels. induction rels as [|[c x] rest IH]; intros tg s H; [reflexivity|].
  cbn [r2c_ugo r2c_place]. fold (r2c_ugo t). destruct (tbl_colidx t c) as [i|] eqn:Ei.
  - apply IH. intros r Hr. apply H. right. exact Hr.
  - exfalso. apply (H (c, x)); [left; reflexivity|exact Ei].
Qed.

Definition r2c_hit (t : table) (rels : list rel) (i : nat) : bool :=
  existsb (fun r : rel => match tbl_colidx t (fst r) with Some j => Nat.eqb j i | None => false end) rels.

Lemma r2c_place_length : forall t rels tg, length (r2c_place t rels tg) = length tg.
Proof.
  intros t rels. induction rels as [|[c x] rest IH]; intros tg; [reflexivity|]. cbn [r2c_place].
  destruct (tbl_colidx t c); [rewrite IH; apply upd_length|reflexivity].
Qed.

Lemma r2c_place_zero : forall t rels tg i y, (forall r, In r rels -> snd r = zero_ent) ->
  (forall r, In r rels -> tbl_colidx t (fst r) <> None) ->
  nth_error tg i = Some y ->
  nth_error (r2c_place t rels tg) i = Some (if r2c_hit t rels i then zero_ent else y).
Proof.
  intros t rels. induction rels as [|[c x] rest IH]; intros tg i y Hz Hc Hy; [exact Hy|].
  cbn [r2c_place r2c_hit existsb fst]. fold (r2c_hit t rest i).
  assert (Hx : x = zero_ent) by (apply (Hz (c, x)); left; reflexivity). subst x.
  destruct (tbl_colidx t c) as [j|] eqn:Ej; [|exfalso; apply (Hc (c, zero_ent)); [left; reflexivity|exact Ej]].
  assert (Hu : nth_error (upd j zero_ent tg) i = Some (if Nat.eqb j i then zero_ent else y)).
  { rewrite nth_error_upd. destruct (Nat.eqb_spec j i) as [->|Hne]; [rewrite Hy; reflexivity|exact Hy]. }
  rewrite (IH _ i _ (fun r Hr => Hz r (or_intror Hr)) (fun r Hr => Hc r (or_intror Hr)) Hu).
  destruct (Nat.eqb j i); cbn [orb]; [destruct (r2c_hit t rest i); reflexivity|reflexivity].
Qed.

Lemma r2c_hit_true : forall t rels i, r2c_hit t rels i = true <-> exists r, In r rels /\ tbl_colidx t (fst r) = Some i.
Proof.
  intros t rels i. unfold r2c_hit. rewrite existsb_exists. split.
  - intros (r & Hr & Hm). exists r. split; [exact Hr|]. destruct (tbl_colidx t (fst r)) as [j|]; [|discriminate].
    apply Nat.eqb_eq in Hm. subst j. reflexivity.
  - intros (r & Hr & Hm). exists r. split; [exact Hr|]. rewrite Hm. apply Nat.eqb_refl.
Qed.

(** the first components of a filtered combination are a duplicate-free selection of the ids *)
Lemma r2c_combine_fst_in : forall (ids : list nat) (kinds : list ckind) (tg : list ent) p,
  In p (combine (combine ids kinds) tg) -> In (fst (fst p)) ids.
Proof.
  intros ids kinds tg [[c k] x] H. apply in_combine_l in H. apply in_combine_l in H. exact H.
Qed.

Lemma r2c_newrels_nodup : forall (ids : list nat) (kinds : list ckind) (tg : list ent), NoDup ids ->
  NoDup (map fst (map (fun p : nat * ckind * ent => (fst (fst p), snd p))
                      (filter (fun p : nat * ckind * ent => ck_rel (snd (fst p))) (combine (combine ids kinds) tg)))).
Proof.
  intros ids. induction ids as [|c ids IH]; intros kinds tg ND; [constructor|].
  destruct kinds as [|k kinds]; [constructor|]. destruct tg as [|x tg]; [constructor|].
  inversion ND as [|? ? Hn ND']; subst. cbn [combine filter fst snd].
  destruct (ck_rel k); [|apply IH; exact ND'].
  cbn [map fst snd]. constructor; [|apply IH; exact ND'].
  intros Hin. apply in_map_iff in Hin. destruct Hin as ([c' x'] & Ec & Hin). cbn [fst] in Ec. subst c'.
  apply in_map_iff in Hin. destruct Hin as (p & Ep & Hp). apply filter_In in Hp. destruct Hp as (Hp & _).
  apply r2c_combine_fst_in in Hp. injection Ep as Ec _. rewrite Ec in Hp. contradiction.
Qed.

Lemma r2c_nodup_same_length : forall (l1 l2 : list nat), NoDup l1 -> NoDup l2 -> (forall x, In x l1 <-> In x l2) ->
  length l1 = length l2.
Proof. intros l1 l2 N1 N2 H. apply Permutation_length. apply NoDup_Permutation; assumption. Qed.

Definition r2c_detach (k : nat) (y : ent) : ent := if Nat.eqb (fst y) k then zero_ent else y.

Definition r2c_newrels (k : nat) (s : W) (t : table) : list rel :=
  map (fun r : rel => (fst r, zero_ent))
      (filter (fun r : rel => (Nat.eqb (fst (snd r)) k || negb (alive s (snd r)))%bool) (t_rels t)).

(** The relation list the cleanup builds for a table: the dying target (and any dead one) becomes
    zero, all other targets are kept; it is a valid argument for GetTable / createTable. *)
Lemma r2c_detached_rels : forall k s tid t a, St2G (eq k) r2_none r2_none s ->
  nth_error (w_tables s) tid = Some t -> t_free t = false -> nth_error (w_archs s) (t_arch t) = Some a ->
  (forall x, fst x = k -> live s x = false) ->
  exists all, exchange_targets_unchecked t (r2c_newrels k s t) s = Ok all s /\ r2_rels_valid s a all /\
    (forall c x, In (c, x) all <->
       exists i y, nth_error (a_comps a) i = Some c /\ r2_relcol a i /\ nth_error (t_targets t) i = Some y /\ x = r2c_detach k y).
Proof.
  intros k s tid t a (HW & HR & HT & HC) Ht Hf Ha Hdead.
  destruct (wf_layout _ HW tid t Ht) as (a0 & Ha0 & Lids & Lk & Ltg). rewrite Ha in Ha0. injection Ha0 as <-.
  pose proof (r2_comps_nodup s _ a HW Ha) as NDc.
  destruct (ri_shape _ _ HR tid t a Ht Ha) as (S1 & S2 & S3 & S4).
  destruct (r2_kinds_isrel s _ a HW Ha) as (HK & HKL).
  destruct (r2_isrel_len s _ a HW Ha) as (LI & LRl).
  set (P := fun r : rel => (Nat.eqb (fst (snd r)) k || negb (alive s (snd r)))%bool).
  set (newrels := r2c_newrels k s t).
  assert (Hnr : forall r, In r newrels -> snd r = zero_ent /\ exists y, In (fst r, y) (t_rels t) /\ P (fst r, y) = true).
  { intros r Hr. unfold newrels, r2c_newrels in Hr. apply in_map_iff in Hr. destruct Hr as ([c y] & <- & Hin).
    apply filter_In in Hin. destruct Hin as (Hin & HP). split; [reflexivity|]. exists y. split; [exact Hin|exact HP]. }
  assert (Hcol : forall c y, In (c, y) (t_rels t) -> exists i, tbl_colidx t c = Some i /\ r2_relcol a i /\ nth_error (t_targets t) i = Some y).
  { intros c y Hin. apply S2 in Hin. destruct Hin as (i & Hi & Hr & Hy). exists i. split; [|split; assumption].
    unfold tbl_colidx. rewrite Lids. apply r2_index_of_nth; assumption. }
  assert (Hdef : forall r, In r newrels -> tbl_colidx t (fst r) <> None).
  { intros r Hr. destruct (Hnr r Hr) as (_ & y & Hin & _). destruct (Hcol _ _ Hin) as (i & Ei & _). rewrite Ei. discriminate. }
  set (tg' := r2c_place t newrels (t_targets t)).
  exists (map (fun p : nat * ckind * ent => (fst (fst p), snd p))
              (filter (fun p : nat * ckind * ent => ck_rel (snd (fst p))) (combine (combine (t_ids t) (t_kinds t)) tg'))).
  split.
  { rewrite r2c_xu_unfold. rewrite (sa_bind_ok (r2c_ugo_ok t newrels (t_targets t) s Hdef)). reflexivity. }
  (* the new target of a relation column *)
  assert (Hnew : forall i c y, nth_error (a_comps a) i = Some c -> r2_relcol a i -> nth_error (t_targets t) i = Some y ->
            nth_error tg' i = Some (r2c_detach k y) /\ r2_tgt_ok (eq k) s y).
  { intros i c y Hi Hr Hy.
    assert (Hin : In (c, y) (t_rels t)) by (apply S2; exists i; repeat split; assumption).
    pose proof (ri_targets_ok _ _ HR tid t (c, y) Ht Hf Hin) as Hok. cbn [snd] in Hok. split; [|exact Hok].
    unfold tg'. rewrite (r2c_place_zero t newrels (t_targets t) i y (fun r Hr0 => proj1 (Hnr r Hr0)) Hdef Hy). f_equal.
    unfold r2c_detach. destruct (r2c_hit t newrels i) eqn:Eh.
    - apply r2c_hit_true in Eh. destruct Eh as (r & Hr0 & Ei). destruct (Hnr r Hr0) as (_ & y' & Hin' & HP).
      destruct (Hcol _ _ Hin') as (i' & Ei' & _ & Hy'). rewrite Ei in Ei'. injection Ei' as <-. rewrite Hy in Hy'. injection Hy' as <-.
      unfold P in HP. cbn [snd] in HP. destruct (Nat.eqb_spec (fst y) k) as [_|Hne]; [reflexivity|]. cbn [orb] in HP.
      destruct Hok as [Hz|[Hl|Hd]]; [symmetry; exact Hz| |congruence].
      destruct (live_alive s y HW Hl) as (Hal & _). rewrite Hal in HP. discriminate.
    - destruct (Nat.eqb_spec (fst y) k) as [Hk|_]; [|reflexivity]. exfalso.
      assert (Hc : r2c_hit t newrels i = true).
      { apply r2c_hit_true. exists (c, zero_ent). split.
        - unfold newrels, r2c_newrels. apply in_map_iff. exists (c, y). split; [reflexivity|]. apply filter_In. split; [exact Hin|].
          cbn [snd]. apply Nat.eqb_eq in Hk. rewrite Hk. reflexivity.
        - cbn [fst]. unfold tbl_colidx. rewrite Lids. apply r2_index_of_nth; assumption. }
      congruence. }
  assert (Hchar : forall c x, In (c, x) (map (fun p : nat * ckind * ent => (fst (fst p), snd p))
              (filter (fun p : nat * ckind * ent => ck_rel (snd (fst p))) (combine (combine (t_ids t) (t_kinds t)) tg'))) <->
            exists i y, nth_error (a_comps a) i = Some c /\ r2_relcol a i /\ nth_error (t_targets t) i = Some y /\ x = r2c_detach k y).
  { intros c x. rewrite rl_newrels_in. rewrite Lids. split.
    - intros (i & kd & H1 & H2 & H3 & H4).
      assert (Hr : r2_relcol a i).
      { unfold r2_relcol. rewrite Lk, Lids in H2. rewrite (HK i kd H2), H3. reflexivity. }
      assert (Hlt : i < length (t_targets t)) by (rewrite Ltg, Lids; eapply sa_nth_error_lt; exact H1).
      destruct (nth_error (t_targets t) i) as [y|] eqn:Ey; [|apply nth_error_None in Ey; lia].
      exists i, y. split; [exact H1|]. split; [exact Hr|]. split; [exact Ey|].
      destruct (Hnew i c y H1 Hr Ey) as (Hn & _). rewrite Hn in H4. injection H4 as <-. reflexivity.
    - intros (i & y & H1 & Hr & Hy & ->). exists i, (kind_of s c). split; [exact H1|].
      assert (Hkd : nth_error (t_kinds t) i = Some (kind_of s c)) by (rewrite Lk, Lids, nth_error_map, H1; reflexivity).
      split; [exact Hkd|]. split.
      + rewrite Lk, Lids in Hkd. pose proof (HK i _ Hkd) as Hb. unfold r2_relcol in Hr. rewrite Hr in Hb. injection Hb as Hb. symmetry. exact Hb.
      + apply (Hnew i c y H1 Hr Hy). }
  split; [|exact Hchar].
  assert (V3 : forall c, In c (map fst (map (fun p : nat * ckind * ent => (fst (fst p), snd p))
              (filter (fun p : nat * ckind * ent => ck_rel (snd (fst p))) (combine (combine (t_ids t) (t_kinds t)) tg')))) <->
            exists i, nth_error (a_comps a) i = Some c /\ r2_relcol a i).
  { intros c. split.
    - intros Hin. apply in_map_iff in Hin. destruct Hin as ([c' x] & Ec & Hin). cbn [fst] in Ec. subst c'.
      apply Hchar in Hin. destruct Hin as (i & y & H1 & H2 & _). exists i. split; assumption.
    - intros (i & H1 & Hr).
      assert (Hlt : i < length (t_targets t)) by (rewrite Ltg, Lids; eapply sa_nth_error_lt; exact H1).
      destruct (nth_error (t_targets t) i) as [y|] eqn:Ey; [|apply nth_error_None in Ey; lia].
      apply in_map_iff. exists (c, r2c_detach k y). split; [reflexivity|]. apply Hchar. exists i, y. repeat split; assumption. }
  assert (ND : NoDup (map fst (map (fun p : nat * ckind * ent => (fst (fst p), snd p))
              (filter (fun p : nat * ckind * ent => ck_rel (snd (fst p))) (combine (combine (t_ids t) (t_kinds t)) tg'))))).
  { apply r2c_newrels_nodup. rewrite Lids. exact NDc. }
  split; [exact ND|]. split; [|split; [exact V3|]].
  - rewrite <- S4.
    match goal with |- length ?l = _ => transitivity (length (map fst l)); [symmetry; apply map_length|] end.
    transitivity (length (map fst (t_rels t))); [|apply map_length].
    apply r2c_nodup_same_length; [exact ND|exact S1|]. intros c. rewrite V3. split.
    + intros (i & H1 & Hr).
      assert (Hlt : i < length (t_targets t)) by (rewrite Ltg, Lids; eapply sa_nth_error_lt; exact H1).
      destruct (nth_error (t_targets t) i) as [y|] eqn:Ey; [|apply nth_error_None in Ey; lia].
      apply in_map_iff. exists (c, y). split; [reflexivity|]. apply S2. exists i. repeat split; assumption.
    + intros Hin. apply in_map_iff in Hin. destruct Hin as ([c' y] & Ec & Hin). cbn [fst] in Ec. subst c'.
      apply S2 in Hin. destruct Hin as (i & H1 & Hr & _). exists i. split; assumption.
  - intros [c x] Hin. apply Hchar in Hin. destruct Hin as (i & y & H1 & Hr & Hy & ->). cbn [snd].
    destruct (Hnew i c y H1 Hr Hy) as (_ & Hok). unfold r2c_detach.
    destruct (Nat.eqb_spec (fst y) k) as [_|Hne]; [left; reflexivity|].
    destruct Hok as [Hz|[Hl|Hd]]; [left; exact Hz|right; exact Hl|congruence].
Qed.

(* ================================================================================================ *)
(** * Part 4: moveEntities, for [WF] alone (the post-condition section follows [b_xpost] of BatchProofs) *)

(** ** Post-conditions of the bulk move *)
Section r2c_mvpost.
Variables (s : W) (otid ntid : nat) (ot nt : table) (oa na : arch) (nt3 : table).
Hypothesis HW0 : WF s.
Hypothesis Hne : otid <> ntid.
Hypothesis Hot : nth_error (w_tables s) otid = Some ot.
Hypothesis Hnt : nth_error (w_tables s) ntid = Some nt.
Hypothesis Hoa : nth_error (w_archs s) (t_arch ot) = Some oa.
Hypothesis Hna : nth_error (w_archs s) (t_arch nt) = Some na.
Hypothesis Fn : b_nt_facts ot nt nt3.
Hypothesis Hids : t_ids nt = t_ids ot.

Local Notation T' := (b_xT' s otid ntid ot nt3).
Local Notation I' := (b_xI' s ntid ot nt).
Local Notation s' := (sb2_st s T' I').
Local Notation ids := (map fst (firstn (t_len ot) (t_ents ot))).

Lemma r2c_mv_T : forall tid, nth_error T' tid =
  if Nat.eqb otid tid then Some (tbl_reset ot) else if Nat.eqb ntid tid then Some nt3 else nth_error (w_tables s) tid.
Proof.
  intros tid. unfold b_xT'. rewrite !nth_error_upd.
  destruct (Nat.eqb_spec otid tid) as [<-|H1].
  - destruct (Nat.eqb_spec ntid otid); [congruence|]. rewrite Hot. reflexivity.
  - destruct (Nat.eqb_spec ntid tid) as [<-|H2]; [rewrite Hnt|]; reflexivity.
Qed.

Lemma r2c_mv_otok : tbl_ok ot.
Proof. exact (sb2_table_ok _ _ _ HW0 Hot). Qed.

Lemma r2c_mv_ids_len : length ids = t_len ot.
Proof.
  pose proof (tbl_ok_elim _ r2c_mv_otok) as (O1 & O2 & _).
  rewrite map_length. apply firstn_length_le. lia.
Qed.

Lemma r2c_mv_ids_nth : forall j, j < t_len ot -> nth_error ids j = Some (fst (row_ent ot j)).
Proof.
  intros j Hj. pose proof (tbl_ok_elim _ r2c_mv_otok) as (O1 & O2 & _).
  apply map_nth_error. rewrite (nth_error_nth' _ zero_ent) by (rewrite firstn_length_le; lia).
  rewrite nth_firstn' by assumption. reflexivity.
Qed.

Lemma r2c_mv_NoDup : NoDup ids.
Proof.
  apply (NoDup_nth ids 0). intros i j Hi Hj E. rewrite r2c_mv_ids_len in Hi, Hj.
  rewrite (nth_error_nth _ _ 0 (r2c_mv_ids_nth i Hi)), (nth_error_nth _ _ 0 (r2c_mv_ids_nth j Hj)) in E.
  apply (sb2_row_inj _ _ _ _ _ _ _ HW0 Hot Hi Hot Hj E).
Qed.

Lemma r2c_mv_idx_some : forall id j, index_of id ids = Some j -> j < t_len ot /\ fst (row_ent ot j) = id.
Proof.
  intros id j E. apply sb2_index_of_nth in E.
  assert (Hj : j < t_len ot) by (rewrite <- r2c_mv_ids_len; apply nth_error_Some; congruence).
  split; [assumption|]. rewrite (r2c_mv_ids_nth j Hj) in E. congruence.
Qed.

Lemma r2c_mv_idx_row : forall j, j < t_len ot -> index_of (fst (row_ent ot j)) ids = Some j.
Proof.
  intros j Hj. pose proof (r2c_mv_ids_nth j Hj) as E.
  destruct (sb2_index_of_In _ _ (nth_error_In _ _ E)) as (j' & E').
  destruct (r2c_mv_idx_some _ _ E') as (Hj' & F).
  destruct (sb2_row_inj _ _ _ _ _ _ _ HW0 Hot Hj' Hot Hj F) as (_ & ->). exact E'.
Qed.

Lemma r2c_mv_idx_other : forall tid t r, nth_error (w_tables s) tid = Some t -> r < t_len t -> tid <> otid ->
  index_of (fst (row_ent t r)) ids = None.
Proof.
  intros tid t r Ht Hr Hn. destruct (index_of (fst (row_ent t r)) ids) as [j|] eqn:E; [|reflexivity].
  destruct (r2c_mv_idx_some _ _ E) as (Hj & F).
  destruct (sb2_row_inj _ _ _ _ _ _ _ HW0 Hot Hj Ht Hr F). congruence.
Qed.

Lemma r2c_mv_I : forall id, nth_error I' id =
  match index_of id ids with Some j => Some (Some ntid, t_len nt + j) | None => nth_error (w_index s) id end.
Proof.
  intros id. unfold b_xI'. apply b_reindex_spec; [exact r2c_mv_NoDup|].
  intros e He. pose proof (tbl_ok_elim _ r2c_mv_otok) as (O1 & O2 & _).
  destruct (In_nth _ _ zero_ent He) as (j & Hj & Ej).
  rewrite firstn_length_le in Hj by lia. rewrite nth_firstn' in Ej by assumption.
  destruct (wf_rows _ HW0 _ _ _ Hot Hj) as (L & _). apply sb2_loc_iff in L.
  change (nth j (t_ents ot) zero_ent) with (row_ent ot j) in Ej. rewrite <- Ej.
  apply nth_error_Some. congruence.
Qed.

Lemma r2c_mv_WF : WF s'.
Proof.
  pose proof HW0 as HW.
  destruct Fn as (On & Ln & Mn & Oldn & Newn & _).
  pose proof r2c_mv_otok as Hoko.
  assert (Mo : sb2_meta ot (tbl_reset ot)) by (repeat split).
  apply r2c_WF_reindex; auto.
  - intros tid t' E. rewrite r2c_mv_T in E.
    destruct (Nat.eqb_spec otid tid) as [<-|H1].
    { inversion E; subst t'. split; [apply tbl_reset_ok; assumption|]. eauto. }
    destruct (Nat.eqb_spec ntid tid) as [<-|H2]; [inversion E; subst t'; eauto|].
    split; [eapply sb2_table_ok; eauto|]. exists t'. split; [assumption|apply sb2_meta_refl].
  - intros tid t E. rewrite r2c_mv_T.
    destruct (Nat.eqb_spec otid tid) as [<-|H1]; [rewrite Hot in E; inversion E; subst t; eauto|].
    destruct (Nat.eqb_spec ntid tid) as [<-|H2]; [rewrite Hnt in E; inversion E; subst t; eauto|].
    exists t. split; [assumption|apply sb2_meta_refl].
  - unfold b_xI'. apply b_reindex_length.
  - intros tid t' r E Hr. rewrite r2c_mv_T in E. rewrite r2c_mv_I.
    destruct (Nat.eqb_spec otid tid) as [<-|H1].
    { inversion E; subst t'. cbn in Hr. lia. }
    destruct (Nat.eqb_spec ntid tid) as [<-|H2].
    { inversion E; subst t'; clear E. rewrite Ln in Hr.
      destruct (Nat.lt_ge_cases r (t_len nt)) as [Hlt|Hge].
      - destruct (Oldn r Hlt) as (Er & _). rewrite Er.
        rewrite (r2c_mv_idx_other ntid nt r Hnt Hlt) by auto.
        destruct (wf_rows _ HW _ _ _ Hnt Hlt) as (A & B). split; [apply sb2_loc_iff; exact A|exact B].
      - assert (Hi : r - t_len nt < t_len ot) by lia.
        replace r with (t_len nt + (r - t_len nt)) by lia.
        rewrite (Newn _ Hi). rewrite (r2c_mv_idx_row _ Hi). split; [reflexivity|].
        apply (wf_rows _ HW _ _ _ Hot Hi). }
    rewrite (r2c_mv_idx_other tid t' r E Hr) by auto.
    destruct (wf_rows _ HW _ _ _ E Hr) as (A & B). split; [apply sb2_loc_iff; exact A|exact B].
  - intros id tid r E. rewrite r2c_mv_I in E.
    destruct (index_of id ids) as [j|] eqn:Ej.
    + destruct (r2c_mv_idx_some _ _ Ej) as (Hj & F). inversion E; subst tid r.
      exists nt3. rewrite r2c_mv_T. destruct (Nat.eqb_spec otid ntid); [congruence|]. rewrite Nat.eqb_refl.
      split; [reflexivity|]. split; [lia|]. rewrite (Newn _ Hj). exact F.
    + destruct (wf_index _ HW _ _ _ E) as (t & Et & Hr & F).
      rewrite r2c_mv_T. destruct (Nat.eqb_spec otid tid) as [<-|H1].
      { rewrite Hot in Et. inversion Et; subst t. rewrite <- F in Ej. rewrite (r2c_mv_idx_row _ Hr) in Ej. discriminate. }
      destruct (Nat.eqb_spec ntid tid) as [<-|H2].
      { rewrite Hnt in Et. inversion Et; subst t. exists nt3. split; [reflexivity|]. split; [lia|].
        destruct (Oldn r Hr) as (Er & _). rewrite Er. exact F. }
      exists t. auto.
  - intros id r E. rewrite r2c_mv_I. destruct (index_of id ids) as [j|] eqn:Ej; [|exact E].
    destruct (r2c_mv_idx_some _ _ Ej) as (Hj & F).
    destruct (wf_rows _ HW _ _ _ Hot Hj) as (L & _). apply sb2_loc_iff in L. rewrite F in L. congruence.
  - intros id tid r E. rewrite r2c_mv_I. destruct (index_of id ids) as [j|]; eauto.
Qed.

Lemma r2c_mv_loc : forall x, loc s' x =
  match index_of (fst x) ids with Some j => Some (ntid, t_len nt + j) | None => loc s x end.
Proof.
  intros x. rewrite sb2_loc_st, r2c_mv_I. destruct (index_of (fst x) ids); reflexivity.
Qed.

Lemma r2c_mv_tab : forall tid, nth_error (w_tables s') tid =
  if Nat.eqb otid tid then Some (tbl_reset ot) else if Nat.eqb ntid tid then Some nt3 else nth_error (w_tables s) tid.
Proof. exact r2c_mv_T. Qed.

Lemma r2c_mv_moved : forall e r, live s e = true -> loc s e = Some (otid, r) ->
  loc s' e = Some (ntid, t_len nt + r) /\ live s' e = true /\ (forall c, val s' e c = val s e c) /\
  (forall c, tgt s' e c = tbl_target nt c) /\ (forall c, tgt s e c = tbl_target ot c).
Proof.
  intros e r Hlive Hloc. pose proof HW0 as HW.
  destruct Fn as (On & Ln & Mn & Oldn & Newn & Celln). pose proof Mn as (_ & Mids & _).
  destruct (sb2_live_elim _ _ Hlive) as (tid0 & r0 & t0 & L0 & T0 & R0 & E0).
  rewrite Hloc in L0. inversion L0; subst tid0 r0. rewrite Hot in T0. inversion T0; subst t0.
  assert (Hloc' : loc s' e = Some (ntid, t_len nt + r)).
  { rewrite r2c_mv_loc. rewrite <- E0. rewrite (r2c_mv_idx_row _ R0). reflexivity. }
  assert (Htab' : nth_error (w_tables s') ntid = Some nt3).
  { rewrite r2c_mv_tab. destruct (Nat.eqb_spec otid ntid); [congruence|]. rewrite Nat.eqb_refl. reflexivity. }
  destruct (sb2_live_at _ _ _ _ _ Hloc' Htab') as (Hl' & Hv').
  destruct (sb2_live_at _ _ _ _ _ Hloc Hot) as (_ & Hv).
  assert (Hlive' : live s' e = true).
  { rewrite Hl', Ln, (Newn _ R0), E0, sb2_ent_eqb_refl.
    destruct (Nat.ltb_spec (t_len nt + r) (t_len nt + t_len ot)); [reflexivity|lia]. }
  split; [exact Hloc'|]. split; [exact Hlive'|]. split; [|split].
  - intros c. unfold val. rewrite Hlive', Hlive, Hv', Hv.
    unfold tbl_colidx. rewrite Mids, Hids.
    destruct (index_of c (t_ids ot)) as [ci|] eqn:Eci; [|reflexivity].
    assert (Eni : index_of c (t_ids nt) = Some ci) by (rewrite Hids; exact Eci).
    rewrite (Celln c ci Eni r R0), Eci. reflexivity.
  - intros c. rewrite (r2c_tgt_at _ _ _ _ _ Hloc' Htab' c), Hlive'. apply r2c_tbl_target_meta. exact Mn.
  - intros c. rewrite (r2c_tgt_at _ _ _ _ _ Hloc Hot c), Hlive. reflexivity.
Qed.

Lemma r2c_mv_other : forall e, live s e = true -> (forall r, loc s e <> Some (otid, r)) ->
  live s' e = true /\ forall c, val s' e c = val s e c.
Proof.
  intros e Hlive Hnot. pose proof HW0 as HW.
  destruct Fn as (On & Ln & Mn & Oldn & Newn & Celln). destruct Mn as (_ & Mids & _).
  destruct (sb2_live_elim _ _ Hlive) as (tid & r & t & L0 & T0 & R0 & E0).
  assert (Hn : tid <> otid) by (intros ->; apply (Hnot r); exact L0).
  assert (Hloc' : loc s' e = Some (tid, r)).
  { rewrite r2c_mv_loc. rewrite <- E0. rewrite (r2c_mv_idx_other tid t r T0 R0 Hn). rewrite E0. exact L0. }
  destruct (sb2_live_at _ _ _ _ _ L0 T0) as (Hl & Hv).
  assert (S : live s' e = live s e /\ forall c, val s' e c = val s e c).
  { apply sb2_same_at.
    - destruct (Nat.eq_dec tid ntid) as [->|Hn2].
      + rewrite Hnt in T0. inversion T0; subst t.
        assert (Htab' : nth_error (w_tables s') ntid = Some nt3).
        { rewrite r2c_mv_tab. destruct (Nat.eqb_spec otid ntid); [congruence|]. rewrite Nat.eqb_refl. reflexivity. }
        destruct (sb2_live_at _ _ _ _ _ Hloc' Htab') as (Hl' & _). rewrite Hl', Hl, Ln.
        destruct (Oldn r R0) as (Er & _). rewrite Er.
        destruct (Nat.ltb_spec r (t_len nt + t_len ot)); [|lia].
        destruct (Nat.ltb_spec r (t_len nt)); [reflexivity|lia].
      + assert (Htab' : nth_error (w_tables s') tid = Some t).
        { rewrite r2c_mv_tab. destruct (Nat.eqb_spec otid tid); [congruence|].
          destruct (Nat.eqb_spec ntid tid); [congruence|]. exact T0. }
        destruct (sb2_live_at _ _ _ _ _ Hloc' Htab') as (Hl' & _). rewrite Hl', Hl. reflexivity.
    - intros c. destruct (Nat.eq_dec tid ntid) as [->|Hn2].
      + rewrite Hnt in T0. inversion T0; subst t.
        assert (Htab' : nth_error (w_tables s') ntid = Some nt3).
        { rewrite r2c_mv_tab. destruct (Nat.eqb_spec otid ntid); [congruence|]. rewrite Nat.eqb_refl. reflexivity. }
        destruct (sb2_live_at _ _ _ _ _ Hloc' Htab') as (_ & Hv'). rewrite Hv', Hv.
        unfold tbl_colidx. rewrite Mids. destruct (index_of c (t_ids nt)); [|reflexivity].
        destruct (Oldn r R0) as (_ & Ec). rewrite Ec. reflexivity.
      + assert (Htab' : nth_error (w_tables s') tid = Some t).
        { rewrite r2c_mv_tab. destruct (Nat.eqb_spec otid tid); [congruence|].
          destruct (Nat.eqb_spec ntid tid); [congruence|]. exact T0. }
        destruct (sb2_live_at _ _ _ _ _ Hloc' Htab') as (_ & Hv'). rewrite Hv', Hv. reflexivity. }
  destruct S as (S1 & S2). split; [congruence|exact S2].
Qed.

Lemma r2c_mv_dead : forall e, live s e = false -> live s' e = false.
Proof.
  intros e Hdead. pose proof HW0 as HW.
  destruct Fn as (On & Ln & Mn & Oldn & Newn & Celln).
  destruct (live s' e) eqn:Hl'; [|reflexivity]. exfalso.
  destruct (sb2_live_elim _ _ Hl') as (tid & r & t & L0 & T0 & R0 & E0).
  rewrite r2c_mv_tab in T0.
  assert (K : forall tid0 t0 r0, nth_error (w_tables s) tid0 = Some t0 -> r0 < t_len t0 -> row_ent t0 r0 = e -> False).
  { intros tid0 t0 r0 Ht0 Hr0 He0. destruct (wf_rows _ HW _ _ _ Ht0 Hr0) as (A & _). rewrite He0 in A.
    rewrite (sb2_live_intro _ _ _ _ _ A Ht0 Hr0 He0) in Hdead. discriminate. }
  destruct (Nat.eqb_spec otid tid) as [<-|H1].
  { inversion T0; subst t. cbn in R0. lia. }
  destruct (Nat.eqb_spec ntid tid) as [<-|H2].
  { inversion T0; subst t. rewrite Ln in R0.
    destruct (Nat.lt_ge_cases r (t_len nt)) as [Hlt|Hge].
    - destruct (Oldn r Hlt) as (Er & _). rewrite Er in E0. exact (K _ _ _ Hnt Hlt E0).
    - assert (Hi : r - t_len nt < t_len ot) by lia.
      replace r with (t_len nt + (r - t_len nt)) in E0 by lia. rewrite (Newn _ Hi) in E0.
      exact (K _ _ _ Hot Hi E0). }
  exact (K _ _ _ T0 R0 E0).
Qed.


Lemma r2c_mv_other_tgt : forall e, live s e = true -> (forall r, loc s e <> Some (otid, r)) ->
  forall c, tgt s' e c = tgt s e c.
Proof.
  intros e Hlive Hnot c. pose proof HW0 as HW.
  destruct (r2c_mv_other e Hlive Hnot) as (Hlive' & _).
  destruct Fn as (On & Ln & Mn & Oldn & Newn & Celln).
  destruct (sb2_live_elim _ _ Hlive) as (tid & r & t & L0 & T0 & R0 & E0).
  assert (Hn : tid <> otid) by (intros ->; apply (Hnot r); exact L0).
  assert (Hloc' : loc s' e = Some (tid, r)).
  { rewrite r2c_mv_loc. rewrite <- E0. rewrite (r2c_mv_idx_other tid t r T0 R0 Hn). rewrite E0. exact L0. }
  rewrite (r2c_tgt_at _ _ _ _ _ L0 T0 c), Hlive.
  destruct (Nat.eq_dec tid ntid) as [->|Hn2].
  - rewrite Hnt in T0. inversion T0; subst t.
    assert (Htab' : nth_error (w_tables s') ntid = Some nt3).
    { rewrite r2c_mv_tab. destruct (Nat.eqb_spec otid ntid); [congruence|]. rewrite Nat.eqb_refl. reflexivity. }
    rewrite (r2c_tgt_at _ _ _ _ _ Hloc' Htab' c), Hlive'. apply r2c_tbl_target_meta. exact Mn.
  - assert (Htab' : nth_error (w_tables s') tid = Some t).
    { rewrite r2c_mv_tab. destruct (Nat.eqb_spec otid tid); [congruence|].
      destruct (Nat.eqb_spec ntid tid); [congruence|]. exact T0. }
    rewrite (r2c_tgt_at _ _ _ _ _ Hloc' Htab' c), Hlive'. reflexivity.
Qed.

End r2c_mvpost.

(** ** Execution of moveEntities *)

Lemma r2c_map_seq_shift : forall A (f : nat -> A) n a b, map (fun i => f (a + i)) (seq b n) = map f (seq (a + b) n).
Proof.
  intros A f n. induction n as [|n IH]; intros a b; [reflexivity|]. cbn [seq map]. f_equal.
  rewrite (IH a (S b)). replace (a + S b) with (S (a + b)) by lia. reflexivity.
Qed.

Lemma r2c_meta_add_all : forall dt st n, tbl_ok dt -> t_len dt + n <= Nat.pow 2 31 -> sb2_meta dt (tbl_add_all dt st n).
Proof.
  intros dt st n Hok Hn. destruct (tbl_alloc_facts dt n Hok Hn) as (_ & _ & _ & _ & _ & _ & F1 & F2 & F3 & F4 & F5 & F6 & _).
  unfold tbl_add_all. cbv zeta. unfold sb2_meta. cbn. repeat split; assumption.
Qed.

Lemma r2c_move_exec : forall s src dst st dt, WF s -> src <> dst ->
  nth_error (w_tables s) src = Some st -> nth_error (w_tables s) dst = Some dt ->
  t_arch st = t_arch dt ->
  move_entities src dst (t_len st) s =
    Ok tt (sb2_st s (b_xT' s src dst st (tbl_add_all dt st (t_len st))) (b_xI' s dst st dt)) /\
  b_nt_facts st dt (tbl_add_all dt st (t_len st)) /\ t_ids dt = t_ids st.
Proof.
  intros s src dst st dt HW Hne Hst Hdt Harch.
  pose proof (sb2_table_ok _ _ _ HW Hst) as Oks. pose proof (sb2_table_ok _ _ _ HW Hdt) as Okd.
  destruct (wf_layout _ HW src st Hst) as (a & Ha & Lids & Lk & Ltg).
  destruct (wf_layout _ HW dst dt Hdt) as (a' & Ha' & Lids' & Lk' & Ltg'). rewrite <- Harch, Ha in Ha'. injection Ha' as <-.
  assert (Eids : t_ids dt = t_ids st) by congruence.
  assert (Ekinds : t_kinds dt = t_kinds st) by (rewrite Lk, Lk', Eids; reflexivity).
  assert (Hroom : t_len dt + t_len st <= Nat.pow 2 31).
  { pose proof (b_two_tables_room s src dst st dt HW Hne Hst Hdt). pose proof (wf_small _ HW). lia. }
  pose proof (tbl_add_all_ok dt st (t_len st) Okd Oks Ekinds Eids (le_n _) Hroom) as Okn.
  destruct (tbl_add_all_spec dt st (t_len st) Okd Oks Ekinds Eids (le_n _) Hroom) as (Ln & Cold & Eold & Cnew & Enew).
  pose proof (r2c_meta_add_all dt st (t_len st) Okd Hroom) as Mn.
  set (d := tbl_add_all dt st (t_len st)) in *.
  pose proof (tbl_ok_elim _ Okn) as (N1 & N2 & _). pose proof (tbl_ok_elim _ Oks) as (S1 & S2 & _).
  split; [|split; [|exact Eids]].
  - unfold move_entities.
    rewrite (sa_bind_ok (sa_getT_eq _ _ _ Hst)), (sa_bind_ok (sa_getT_eq _ _ _ Hdt)). cbv zeta. fold d.
    unfold setT. rewrite (sa_bind_ok (sb2_modT s dst (fun _ => d) dt Hdt)).
    set (s1 := sb2_setT s (upd dst d (w_tables s))).
    replace (t_len d - t_len dt) with (t_len st) by lia.
    assert (Eloop : forM_ (seq (t_len dt) (t_len st))
                      (fun i => match nth_error (t_ents d) i with
                                | Some e => modify (fun s0 : wstate => s0 <| w_index ::= upd (fst e) (Some dst, i) |>)
                                | None => fail EIndex
                                end) s1 =
                    Ok tt (s1 <| w_index := b_reindex (w_index s1) dst (0 + t_len dt) (firstn (t_len st) (skipn (t_len dt) (t_ents d))) |>)).
    { apply (b_iloop d dst 0 (t_len st) (t_len dt) s1). lia. }
    rewrite (sa_bind_ok Eloop).
    set (s2 := s1 <| w_index := b_reindex (w_index s1) dst (0 + t_len dt) (firstn (t_len st) (skipn (t_len dt) (t_ents d))) |>).
    assert (Hst2 : nth_error (w_tables s2) src = Some st).
    { unfold s2, s1. cbn. rewrite sb2_nth_error_upd_ne by auto. exact Hst. }
    rewrite (sb2_modT s2 src tbl_reset st Hst2). f_equal.
    assert (Eents : firstn (t_len st) (skipn (t_len dt) (t_ents d)) = firstn (t_len st) (t_ents st)).
    { rewrite (b_firstn_skipn_seq _ (t_ents d) zero_ent (t_len st) (t_len dt)) by lia.
      change (t_ents st) with (skipn 0 (t_ents st)).
      rewrite (b_firstn_skipn_seq _ (t_ents st) zero_ent (t_len st) 0) by lia.
      rewrite <- (Nat.add_0_r (t_len dt)) at 1.
      rewrite <- (r2c_map_seq_shift _ (fun r => nth r (t_ents d) zero_ent) (t_len st) (t_len dt) 0).
      apply map_ext_in. intros i Hi. apply in_seq in Hi. apply (Enew i). lia. }
    unfold sb2_st, sb2_setT, b_xT', b_xI', s2, s1, sb2_setT.
    apply b_W_ext; cbn; try reflexivity.
    f_equal. exact Eents.
  - split; [exact Okn|]. split; [exact Ln|]. split; [exact Mn|]. split.
    { intros r Hr. split; [apply Eold; exact Hr|intros ci; apply Cold; exact Hr]. }
    split; [exact Enew|].
    intros c ni Eni i Hi. pose proof (sb2_index_of_nth _ _ _ Eni) as Hn. apply sa_nth_error_lt in Hn.
    rewrite (Cnew ni i Hi Hn). rewrite <- Eids, Eni. reflexivity.
Qed.

(** ** moveEntities against the relation invariant *)

Lemma r2c_move_spec : forall D s src dst st dt,
  St2G D r2_none r2_none s -> src <> dst ->
  nth_error (w_tables s) src = Some st -> nth_error (w_tables s) dst = Some dt ->
  t_arch st = t_arch dt -> t_free st = false -> t_free dt = false ->
  exists s', move_entities src dst (t_len st) s = Ok tt s' /\ St2G D r2_none r2_none s' /\
    (exists st', nth_error (w_tables s') src = Some st' /\ t_len st' = 0 /\ sb2_meta st st') /\
    (exists dt', nth_error (w_tables s') dst = Some dt' /\ sb2_meta dt dt') /\
    (forall x, x <> src -> x <> dst -> nth_error (w_tables s') x = nth_error (w_tables s) x) /\
    length (w_tables s') = length (w_tables s) /\
    w_archs s' = w_archs s /\ w_istarget s' = w_istarget s /\ w_relarchs s' = w_relarchs s /\ w_pool s' = w_pool s /\
    (forall e, live s' e = live s e) /\ (forall e c, val s' e c = val s e c) /\
    (forall e r, live s e = true -> loc s e = Some (src, r) ->
       forall c, tgt s' e c = tbl_target dt c /\ tgt s e c = tbl_target st c) /\
    (forall e, (live s e = false \/ forall r, loc s e <> Some (src, r)) -> forall c, tgt s' e c = tgt s e c) /\
    side_same s s' /\ frame_user s s'.
Proof.
  intros D s src dst st dt (HW & HR & HT & HC) Hne Hst Hdt Harch Hfs Hfd.
  destruct (r2c_move_exec s src dst st dt HW Hne Hst Hdt Harch) as (E & Fn & Eids).
  set (d := tbl_add_all dt st (t_len st)) in *.
  set (s' := sb2_st s (b_xT' s src dst st d) (b_xI' s dst st dt)) in *.
  pose proof (r2c_mv_tab s src dst st dt d Hne Hst Hdt) as Tab. fold s' in Tab.
  pose proof Fn as (On & Ln & Mn & _).
  assert (Mr : sb2_meta st (tbl_reset st)) by (repeat split).
  assert (Hdead : forall e, live s e = false -> live s' e = false) by (apply (r2c_mv_dead s src dst st dt d HW Hne Hst Hdt Fn)).
  assert (Hlive : forall e, live s' e = live s e).
  { intros e. destruct (live s e) eqn:Hl; [|apply Hdead; exact Hl].
    destruct (sb2_live_elim _ _ Hl) as (tid & r & t & L0 & _).
    destruct (Nat.eq_dec tid src) as [->|Hn].
    - apply (r2c_mv_moved s src dst st dt d HW Hne Hst Hdt Fn Eids e r Hl L0).
    - apply (r2c_mv_other s src dst st dt d HW Hne Hst Hdt Fn e Hl). intros r' Hc. rewrite L0 in Hc. congruence. }
  assert (TM : r2c_tabs_meta (w_tables s) (w_tables s')).
  { split; [unfold s', sb2_st, b_xT'; cbn; rewrite !upd_length; reflexivity|].
    intros j tj Hj. rewrite Tab. destruct (Nat.eqb_spec src j) as [<-|H1].
    - rewrite Hst in Hj. injection Hj as <-. exists (tbl_reset st). split; [reflexivity|]. split; [exact Mr|]. intros _. reflexivity.
    - destruct (Nat.eqb_spec dst j) as [<-|H2].
      + rewrite Hdt in Hj. injection Hj as <-. exists d. split; [reflexivity|]. split; [exact Mn|]. intros Hc. congruence.
      + exists tj. split; [exact Hj|]. split; [apply sb2_meta_refl|]. intros Hf. apply (r2c_free_len0 D s j tj HR Hj Hf). }
  exists s'. split; [exact E|]. split.
  { split; [apply (r2c_mv_WF s src dst st dt d HW Hne Hst Hdt Fn)|]. split.
    - apply (r2c_RelInvG_rows D s s' HR); try reflexivity; [exact TM|]. intros x Hx. left. rewrite Hlive. exact Hx.
    - split; [apply (r2c_TargetFlagsG_ext r2_none s s' HT); reflexivity|].
      apply (r2c_CacheInvG_rows r2_none s s' HC); try reflexivity. exact TM. }
  split.
  { exists (tbl_reset st). rewrite Tab, Nat.eqb_refl. split; [reflexivity|]. split; [reflexivity|exact Mr]. }
  split.
  { exists d. rewrite Tab. destruct (Nat.eqb_spec src dst); [contradiction|]. rewrite Nat.eqb_refl. split; [reflexivity|exact Mn]. }
  split.
  { intros x H1 H2. rewrite Tab. destruct (Nat.eqb_spec src x); [congruence|]. destruct (Nat.eqb_spec dst x); [congruence|]. reflexivity. }
  split; [apply TM|].
  split; [reflexivity|]. split; [reflexivity|]. split; [reflexivity|]. split; [reflexivity|].
  split; [exact Hlive|]. split.
  { intros e c. destruct (live s e) eqn:Hl.
    - destruct (sb2_live_elim _ _ Hl) as (tid & r & t & L0 & _).
      destruct (Nat.eq_dec tid src) as [->|Hn].
      + apply (r2c_mv_moved s src dst st dt d HW Hne Hst Hdt Fn Eids e r Hl L0).
      + apply (r2c_mv_other s src dst st dt d HW Hne Hst Hdt Fn e Hl). intros r' Hc. rewrite L0 in Hc. congruence.
    - unfold val. rewrite Hlive, Hl. reflexivity. }
  split.
  { intros e r Hl L0 c. destruct (r2c_mv_moved s src dst st dt d HW Hne Hst Hdt Fn Eids e r Hl L0) as (_ & _ & _ & T1 & T2).
    split; [apply T1|apply T2]. }
  split.
  { intros e [Hl|Hnot] c.
    - rewrite (r2c_tgt_dead s e c Hl). apply r2c_tgt_dead. rewrite Hlive. exact Hl.
    - destruct (live s e) eqn:Hl.
      + apply (r2c_mv_other_tgt s src dst st dt d HW Hne Hst Hdt Fn e Hl Hnot).
      + rewrite (r2c_tgt_dead s e c Hl). apply r2c_tgt_dead. rewrite Hlive. exact Hl. }
  split; [unfold side_same; repeat split|unfold frame_user; repeat split].
Qed.

(* ================================================================================================ *)
(** * Part 5: one table of the cleanup (C2) *)

(** ** Vocabulary of the cleanup *)

(** no stored entity has id [k] (the entity being removed is gone from its row) *)
Definition r2c_dead (k : nat) (s : W) : Prop := forall x, fst x = k -> live s x = false.

(** the only target with the id of [e] that an active table names is [e] itself *)
Definition r2c_only (e : ent) (s : W) : Prop :=
  forall tid t r, nth_error (w_tables s) tid = Some t -> t_free t = false -> In r (t_rels t) ->
    fst (snd r) = fst e -> snd r = e.

(** each target stays what it is or, if it has id [k], becomes the zero entity *)
Definition r2c_tgt_step (k : nat) (s s' : W) : Prop :=
  forall e c, tgt s' e c = tgt s e c \/ (exists x, tgt s e c = Some x /\ fst x = k /\ tgt s' e c = Some zero_ent).

Definition r2c_arch_static (s s' : W) : Prop :=
  length (w_archs s') = length (w_archs s) /\
  forall i a, nth_error (w_archs s) i = Some a ->
    exists a', nth_error (w_archs s') i = Some a' /\
      a_numrel a' = a_numrel a /\ a_isrel a' = a_isrel a /\ a_comps a' = a_comps a.

Definition r2c_frame (k : nat) (s s' : W) : Prop :=
  (forall e, live s' e = live s e) /\ (forall e c, val s' e c = val s e c) /\ r2c_tgt_step k s s' /\
  r2c_arch_static s s' /\ w_pool s' = w_pool s /\ side_same s s' /\ frame_user s s'.

(** [x] is an active table of archetype [aid] naming a target with id [k] *)
Definition r2c_Tk (k : nat) (s : W) (aid x : nat) : Prop :=
  exists tx a, nth_error (w_tables s) x = Some tx /\ t_arch tx = aid /\ t_free tx = false /\
               nth_error (w_archs s) aid = Some a /\ r2_has_target a tx k.

Lemma r2c_tgt_step_refl : forall k s, r2c_tgt_step k s s.
Proof. intros k s e c. left. reflexivity. Qed.

Lemma r2c_tgt_step_eq : forall k s s', (forall e c, tgt s' e c = tgt s e c) -> r2c_tgt_step k s s'.
Proof. intros k s s' H e c. left. apply H. Qed.

Lemma r2c_tgt_step_trans : forall k s1 s2 s3, r2c_tgt_step k s1 s2 -> r2c_tgt_step k s2 s3 -> r2c_tgt_step k s1 s3.
Proof.
  intros k s1 s2 s3 H1 H2 e c. destruct (H1 e c) as [E1|(x & A & B & C)]; destruct (H2 e c) as [E2|(y & A' & B' & C')].
  - left. congruence.
  - right. exists y. rewrite <- E1. repeat split; assumption.
  - right. exists x. split; [exact A|]. split; [exact B|]. congruence.
  - right. exists x. repeat split; assumption.
Qed.

Lemma r2c_arch_static_refl : forall s, r2c_arch_static s s.
Proof. intros s. split; [reflexivity|]. intros i a Ha. exists a. repeat split; assumption. Qed.

Lemma r2c_arch_static_trans : forall s1 s2 s3, r2c_arch_static s1 s2 -> r2c_arch_static s2 s3 -> r2c_arch_static s1 s3.
Proof.
  intros s1 s2 s3 (L1 & H1) (L2 & H2). split; [congruence|]. intros i a Ha.
  destruct (H1 i a Ha) as (a2 & Ha2 & A1 & A2 & A3). destruct (H2 i a2 Ha2) as (a3 & Ha3 & B1 & B2 & B3).
  exists a3. split; [exact Ha3|]. repeat split; congruence.
Qed.

Lemma r2c_arch_static_rev : forall s s' i a', r2c_arch_static s s' -> nth_error (w_archs s') i = Some a' ->
  exists a, nth_error (w_archs s) i = Some a /\ a_numrel a' = a_numrel a /\ a_isrel a' = a_isrel a /\ a_comps a' = a_comps a.
Proof.
  intros s s' i a' (L & H) Ha'. pose proof (sa_nth_error_lt _ _ _ _ Ha') as Hlt. rewrite L in Hlt.
  destruct (nth_error (w_archs s) i) as [a|] eqn:Ea; [|apply nth_error_None in Ea; lia].
  destruct (H i a Ea) as (a'' & E1 & E2). rewrite Ha' in E1. injection E1 as <-. exists a. split; [reflexivity|exact E2].
Qed.

Lemma r2c_arch_static_relabel : forall s s', r2_relabel s s' -> r2c_arch_static s s'.
Proof.
  intros s s' R. split; [apply (rl_archs_len _ _ R)|]. intros i a Ha.
  destruct (rl_archs _ _ R i a Ha) as (a' & Ha' & _ & A2 & A3 & A4 & _). exists a'. repeat split; assumption.
Qed.

Lemma r2c_arch_static_same : forall s s', w_archs s' = w_archs s -> r2c_arch_static s s'.
Proof. intros s s' E. unfold r2c_arch_static. rewrite E. split; [reflexivity|]. intros i a Ha. exists a. repeat split; assumption. Qed.

Lemma r2c_frame_refl : forall k s, r2c_frame k s s.
Proof.
  intros k s. split; [reflexivity|]. split; [reflexivity|]. split; [apply r2c_tgt_step_refl|]. split; [apply r2c_arch_static_refl|].
  split; [reflexivity|]. split; [apply sa_side_same_refl|apply sa_frame_user_refl].
Qed.

Lemma r2c_frame_trans : forall k s1 s2 s3, r2c_frame k s1 s2 -> r2c_frame k s2 s3 -> r2c_frame k s1 s3.
Proof.
  intros k s1 s2 s3 (A1 & A2 & A3 & A4 & A5 & A6 & A7) (B1 & B2 & B3 & B4 & B5 & B6 & B7).
  split; [intros e; rewrite B1; apply A1|]. split; [intros e c; rewrite B2; apply A2|].
  split; [apply (r2c_tgt_step_trans k s1 s2 s3 A3 B3)|]. split; [apply (r2c_arch_static_trans s1 s2 s3 A4 B4)|].
  split; [congruence|]. split; [apply (sa_side_same_trans s1 s2 s3 A6 B6)|apply (sa_frame_user_trans s1 s2 s3 A7 B7)].
Qed.

Lemma r2c_detach_ne : forall k y, 2 <= k -> fst (r2c_detach k y) <> k.
Proof.
  intros k y Hk. unfold r2c_detach. destruct (Nat.eqb_spec (fst y) k) as [_|Hne]; [cbn; lia|exact Hne].
Qed.

(** with at most one relation component there is only one relation column *)
Lemma r2c_one_true : forall (l : list bool) i j, length (filter (fun b : bool => b) l) <= 1 ->
  nth_error l i = Some true -> nth_error l j = Some true -> i = j.
Proof.
  induction l as [|b l IH]; intros i j Hl Hi Hj; [destruct i; discriminate|].
  destruct b.
  - cbn [filter length] in Hl.
    assert (Hnil : forall n, nth_error l n = Some true -> False).
    { intros n Hn. assert (Hin : In true (filter (fun b : bool => b) l)) by (apply filter_In; split; [eapply nth_error_In; exact Hn|reflexivity]).
      destruct (filter (fun b : bool => b) l); [destruct Hin|cbn in Hl; lia]. }
    destruct i as [|i]; destruct j as [|j]; [reflexivity| | |]; cbn in Hi, Hj; exfalso; eauto.
  - cbn [filter] in Hl. destruct i as [|i]; [discriminate|]. destruct j as [|j]; [discriminate|]. f_equal. apply (IH i j Hl Hi Hj).
Qed.

Lemma r2c_relcol_unique : forall s aid a i j, WF s -> nth_error (w_archs s) aid = Some a -> a_numrel a <= 1 ->
  r2_relcol a i -> r2_relcol a j -> i = j.
Proof.
  intros s aid a i j HW Ha Hn Hi Hj. destruct (wf_arch_comps _ HW aid a Ha) as (_ & _ & _ & C4 & _).
  rewrite C4 in Hn. apply (r2c_one_true (a_isrel a) i j Hn Hi Hj).
Qed.

(** two stored entities with the same id are the same entity *)
Lemma r2c_live_same_id : forall s x y, live s x = true -> live s y = true -> fst x = fst y -> x = y.
Proof.
  intros s x y Hx Hy Hf. destruct (sb2_live_elim _ _ Hx) as (t1 & r1 & tb1 & L1 & T1 & R1 & E1).
  destruct (sb2_live_elim _ _ Hy) as (t2 & r2 & tb2 & L2 & T2 & R2 & E2).
  unfold loc in L1, L2. rewrite Hf in L1. rewrite L1 in L2. injection L2 as <- <-. rewrite T1 in T2. injection T2 as <-. congruence.
Qed.

(** observables do not see a table that is empty before and after *)
Lemma r2c_obs_one_empty : forall s s2 n, w_index s2 = w_index s ->
  (forall x, x <> n -> nth_error (w_tables s2) x = nth_error (w_tables s) x) ->
  (forall t0, nth_error (w_tables s) n = Some t0 -> t_len t0 = 0) ->
  (forall t2, nth_error (w_tables s2) n = Some t2 -> t_len t2 = 0) ->
  forall e, live s2 e = live s e /\ (forall c, val s2 e c = val s e c) /\ (forall c, tgt s2 e c = tgt s e c).
Proof.
  intros s s2 n Ei Eo H0 H2 e.
  assert (Hl : live s2 e = live s e).
  { unfold live. rewrite (sa_loc_ext s s2 Ei). destruct (loc s e) as [[tid r]|]; [|reflexivity].
    destruct (Nat.eq_dec tid n) as [->|Hne]; [|rewrite (Eo tid Hne); reflexivity].
    destruct (nth_error (w_tables s2) n) as [t2|] eqn:E2; destruct (nth_error (w_tables s) n) as [t0|] eqn:E0; try reflexivity.
    - rewrite (H2 t2 eq_refl), (H0 t0 eq_refl). reflexivity.
    - rewrite (H2 t2 eq_refl). reflexivity.
    - rewrite (H0 t0 eq_refl). reflexivity. }
  split; [exact Hl|]. split; intros c.
  - unfold val. rewrite Hl. destruct (live s e) eqn:Hle; [|reflexivity]. unfold value_of. rewrite (sa_loc_ext s s2 Ei).
    unfold live in Hle. destruct (loc s e) as [[tid r]|]; [|reflexivity].
    destruct (Nat.eq_dec tid n) as [->|Hne]; [|rewrite (Eo tid Hne); reflexivity].
    destruct (nth_error (w_tables s) n) as [t0|] eqn:E0; [|discriminate]. rewrite (H0 t0 eq_refl) in Hle. discriminate.
  - unfold tgt. rewrite Hl. destruct (live s e) eqn:Hle; [|reflexivity]. unfold target_of. rewrite (sa_loc_ext s s2 Ei).
    unfold live in Hle. destruct (loc s e) as [[tid r]|]; [|reflexivity].
    destruct (Nat.eq_dec tid n) as [->|Hne]; [|rewrite (Eo tid Hne); reflexivity].
    destruct (nth_error (w_tables s) n) as [t0|] eqn:E0; [|discriminate]. rewrite (H0 t0 eq_refl) in Hle. discriminate.
Qed.

(** ** Phase A of one cleanup step: the rows of a table naming the dying target move to the table
    with that target replaced by zero (found or created) *)

Lemma r2c_phaseA : forall k s aid a tid t,
  St2G (eq k) r2_none r2_none s -> r2c_dead k s -> 2 <= k ->
  nth_error (w_archs s) aid = Some a -> nth_error (w_tables s) tid = Some t -> t_arch t = aid -> t_free t = false ->
  r2_has_target a t k -> r2_nostale a ->
  exists s3 ntid,
    (all <- exchange_targets_unchecked t (r2c_newrels k s t) ;;
     ntid <- get_or_create_table aid all ;;
     move_entities tid ntid (t_len t)) s = Ok tt s3 /\
    St2G (eq k) r2_none r2_none s3 /\ ntid <> tid /\
    (exists t3, nth_error (w_tables s3) tid = Some t3 /\ t_len t3 = 0 /\ sb2_meta t t3) /\
    (exists tn, nth_error (w_tables s3) ntid = Some tn /\ t_arch tn = aid /\ t_free tn = false /\
                (forall r, In r (t_rels tn) -> fst (snd r) <> k)) /\
    ~ r2c_Tk k s aid ntid /\
    (forall x, x <> tid -> x <> ntid -> nth_error (w_tables s3) x = nth_error (w_tables s) x) /\
    (forall i, i <> aid -> nth_error (w_archs s3) i = nth_error (w_archs s) i) /\
    r2c_frame k s s3.
Proof.
  intros k s aid a tid t HS Hdead Hk Ha Ht Earch Hf Htk Hstale. pose proof HS as (HW & HR & HT & HC).
  pose proof Ha as Ha'. rewrite <- Earch in Ha'.
  destruct (r2c_detached_rels k s tid t a HS Ht Hf Ha' Hdead) as (all & Ex & HV & Hchar).
  destruct (r2_get_or_create_table_spec (eq k) r2_none r2_none s aid a all HS Ha HV Hstale)
    as (ntid & s2 & t2 & E2 & HS2 & R & Hnt & Earch2 & Hf2 & Hm & Hcase & Hfl & I2 & I3 & I4 & I5).
  { intros x _ []. }
  pose proof HS2 as (HW2 & HR2 & HT2 & HC2).
  destruct (wf_layout _ HW tid t Ht) as (a0 & Ha0 & Lids & Lk & Ltg). rewrite Ha' in Ha0. injection Ha0 as <-.
  pose proof (r2_comps_nodup s aid a HW Ha) as NDc.
  destruct (r2_isrel_len s aid a HW Ha) as (LI & _).
  destruct (rl_archs _ _ R aid a Ha) as (a2 & Ha2 & _ & A2 & A3 & A4 & _).
  destruct (wf_layout _ HW2 ntid t2 Hnt) as (a0 & Ha0 & Lids2 & Lk2 & Ltg2). rewrite Earch2, Ha2 in Ha0. injection Ha0 as <-.
  rewrite A2 in Lids2.
  (* the column that names k *)
  destruct Htk as (i0 & g & Hr0 & Hg).
  assert (Hc0 : exists c0, nth_error (a_comps a) i0 = Some c0).
  { destruct (nth_error (a_comps a) i0) as [c0|] eqn:E; [exists c0; reflexivity|].
    apply nth_error_None in E. pose proof (sa_nth_error_lt _ _ _ _ Hr0). lia. }
  destruct Hc0 as (c0 & Hc0).
  assert (Hin0 : In (c0, zero_ent) all).
  { apply Hchar. exists i0, (k, g). split; [exact Hc0|]. split; [exact Hr0|]. split; [exact Hg|].
    unfold r2c_detach. cbn [fst]. rewrite Nat.eqb_refl. reflexivity. }
  (* the new targets of a relation column of the destination *)
  assert (Hcol2 : forall i c y, nth_error (a_comps a) i = Some c -> r2_relcol a i -> nth_error (t_targets t) i = Some y ->
            nth_error (t_targets t2) i = Some (r2c_detach k y)).
  { intros i c y Hi Hr Hy.
    assert (Hin : In (c, r2c_detach k y) all) by (apply Hchar; exists i, y; repeat split; assumption).
    pose proof (Hm _ Hin) as Hmc. cbn [fst snd] in Hmc. unfold tbl_target, tbl_colidx in Hmc.
    rewrite Lids2, (r2_index_of_nth _ _ _ NDc Hi) in Hmc. exact Hmc. }
  assert (T2k : forall r, In r (t_rels t2) -> fst (snd r) <> k).
  { intros [c x] Hin. cbn [snd]. pose proof Ha2 as Ha2'. rewrite <- Earch2 in Ha2'.
    destruct (ri_shape _ _ HR2 ntid t2 a2 Hnt Ha2') as (_ & S2 & _). apply S2 in Hin. destruct Hin as (i & Hi & Hr & Hx).
    rewrite A2 in Hi. unfold r2_relcol in Hr. rewrite A3 in Hr.
    assert (Hlt : i < length (t_targets t)) by (rewrite Ltg, Lids; eapply sa_nth_error_lt; exact Hi).
    destruct (nth_error (t_targets t) i) as [y|] eqn:Ey; [|apply nth_error_None in Ey; lia].
    rewrite (Hcol2 i c y Hi Hr Ey) in Hx. injection Hx as <-. apply r2c_detach_ne. exact Hk. }
  assert (A3' : ntid <> tid /\ nth_error (w_tables s2) tid = Some t).
  { destruct Hcase as [->|([Hnone|(t0 & Ht0 & Hf0)] & _ & _ & Hoth & _)].
    - split; [|exact Ht]. intros ->. rewrite Ht in Hnt. injection Hnt as <-.
      pose proof (Hcol2 i0 c0 (k, g) Hc0 Hr0 Hg) as Hc. rewrite Hg in Hc. injection Hc as Hc.
      unfold r2c_detach in Hc. cbn [fst] in Hc. rewrite Nat.eqb_refl in Hc. injection Hc as Hc. lia.
    - assert (Hn : ntid <> tid) by (intros ->; rewrite Ht in Hnone; discriminate). split; [exact Hn|].
      rewrite (Hoth tid); [exact Ht|]. intros ->. apply Hn. reflexivity.
    - assert (Hn : ntid <> tid) by (intros ->; rewrite Ht in Ht0; injection Ht0 as <-; congruence). split; [exact Hn|].
      rewrite (Hoth tid); [exact Ht|]. intros ->. apply Hn. reflexivity. }
  destruct A3' as (Hne & Htid2).
  assert (Hne' : tid <> ntid) by (intros ->; apply Hne; reflexivity).
  assert (Ear : t_arch t = t_arch t2) by congruence.
  destruct (r2c_move_spec (eq k) s2 tid ntid t t2 HS2 Hne' Htid2 Hnt Ear Hf Hf2)
    as (s3 & E3 & HS3 & (t3 & Ht3 & Hl3 & Mt3) & (tn & Htn & Mtn) & Moth & Mlen & Marchs & Mist & Mrel & Mpool & Mlive & Mval & Mmoved & Mother & Mside & Muser).
  (* observables between s and s2 *)
  assert (Obs2 : forall e, live s2 e = live s e /\ (forall c, val s2 e c = val s e c) /\ (forall c, tgt s2 e c = tgt s e c)).
  { destruct Hcase as [->|(Hold & Hl2 & _ & Hoth & _)]; [intros e; repeat split|].
    apply (r2c_obs_one_empty s s2 ntid I2 Hoth).
    - intros t0 Ht0. destruct Hold as [Hnone|(t0' & Ht0' & Hf0)]; [congruence|]. rewrite Ht0 in Ht0'. injection Ht0' as <-.
      apply (r2c_free_len0 _ s ntid t0 HR Ht0 Hf0).
    - intros t2' Ht2'. rewrite Hnt in Ht2'. injection Ht2' as <-. exact Hl2. }
  exists s3, ntid. split.
  { rewrite (sa_bind_ok Ex), (sa_bind_ok E2). exact E3. }
  split; [exact HS3|]. split; [exact Hne|]. split; [exists t3; split; [exact Ht3|split; [exact Hl3|exact Mt3]]|]. split.
  { exists tn. pose proof Mtn as (M1 & M2 & M3 & M4 & M5 & M6). split; [exact Htn|]. split; [congruence|]. split; [congruence|].
    rewrite M5. exact T2k. }
  split.
  { intros (tx & ax & Hx & Ax & Fx & Hax & Htx). rewrite Ha in Hax. injection Hax as <-.
    destruct Hcase as [->|([Hnone|(t0 & Ht0 & Hf0)] & _)]; [|congruence|rewrite Hx in Ht0; injection Ht0 as <-; congruence].
    rewrite Hnt in Hx. injection Hx as <-. destruct Htx as (i & g' & Hr & Hg').
    assert (Hci : exists c, nth_error (a_comps a) i = Some c).
    { destruct (nth_error (a_comps a) i) as [c|] eqn:E; [exists c; reflexivity|].
      apply nth_error_None in E. pose proof (sa_nth_error_lt _ _ _ _ Hr). lia. }
    destruct Hci as (c & Hci). pose proof Ha as Hat. rewrite <- Earch2 in Hat.
    destruct (ri_shape _ _ HR ntid t2 a Hnt Hat) as (_ & S2 & _).
    assert (Hin : In (c, (k, g')) (t_rels t2)) by (apply S2; exists i; repeat split; assumption).
    apply (T2k _ Hin). reflexivity. }
  split.
  { intros x H1 H2. rewrite (Moth x H1 H2). destruct Hcase as [->|(_ & _ & _ & Hoth & _)]; [reflexivity|apply (Hoth x H2)]. }
  split.
  { intros i Hi. rewrite Marchs. destruct Hcase as [->|(_ & _ & _ & _ & Haoth)]; [reflexivity|apply (Haoth i Hi)]. }
  (* the frame *)
  split; [intros e; rewrite Mlive; apply Obs2|]. split; [intros e c; rewrite Mval; apply Obs2|]. split.
  { intros e c. destruct (Obs2 e) as (O1 & _ & O3).
    destruct (live s e) eqn:Hl.
    - destruct (sb2_live_elim _ _ Hl) as (tid' & r & t' & L0 & T0 & R0 & E0).
      assert (L2 : loc s2 e = Some (tid', r)) by (rewrite (sa_loc_ext s s2 I2); exact L0).
      destruct (Nat.eq_dec tid' tid) as [->|Hn].
      + assert (Hl2 : live s2 e = true) by congruence.
        destruct (Mmoved e r Hl2 L2 c) as (T3 & T2). rewrite T3, <- (O3 c), T2.
        unfold tbl_target, tbl_colidx. rewrite Lids, Lids2.
        destruct (index_of c (a_comps a)) as [i|] eqn:Ei; [|left; reflexivity].
        pose proof (rl_index_of_some _ _ _ Ei) as Hi.
        assert (Hlt : i < length (t_targets t)) by (rewrite Ltg, Lids; eapply sa_nth_error_lt; exact Hi).
        destruct (nth_error (t_targets t) i) as [y|] eqn:Ey; [|apply nth_error_None in Ey; lia].
        destruct (nth_error (a_isrel a) i) as [[|]|] eqn:Eb.
        * rewrite (Hcol2 i c y Hi Eb Ey). unfold r2c_detach. destruct (Nat.eqb_spec (fst y) k) as [Hy|_]; [|left; reflexivity].
          right. exists y. repeat split. exact Hy.
        * left. pose proof Ha2 as Ha2'. rewrite <- Earch2 in Ha2'.
          destruct (ri_shape _ _ HR2 ntid t2 a2 Hnt Ha2') as (_ & _ & S3 & _). rewrite A3 in S3. rewrite (S3 i Eb).
          destruct (ri_shape _ _ HR tid t a Ht Ha') as (_ & _ & S3' & _). rewrite (S3' i Eb) in Ey. congruence.
        * apply nth_error_None in Eb. apply sa_nth_error_lt in Hi. lia.
      + left. rewrite <- (O3 c). apply Mother. right. intros r' Hc. rewrite L2 in Hc. congruence.
    - left. rewrite <- (O3 c). apply Mother. left. congruence. }
  split.
  { apply (r2c_arch_static_trans s s2 s3); [apply r2c_arch_static_relabel; exact R|apply r2c_arch_static_same; exact Marchs]. }
  split; [congruence|]. split; [apply (sa_side_same_trans s s2 s3 I4 Mside)|apply (sa_frame_user_trans s s2 s3 I5 Muser)].
Qed.

Lemma r2c_has_target_isrel : forall a a' t k, a_isrel a' = a_isrel a -> (r2_has_target a' t k <-> r2_has_target a t k).
Proof. intros a a' t k E. unfold r2_has_target, r2_relcol. rewrite E. tauto. Qed.

(** ** Phase B/C: the emptied table is freed and dropped from the cache *)

Lemma r2c_phaseBC : forall k s aid a tid t,
  St2G (eq k) r2_none r2_none s ->
  nth_error (w_archs s) aid = Some a -> nth_error (w_tables s) tid = Some t -> t_arch t = aid -> t_free t = false ->
  t_len t = 0 -> r2_has_target a t k ->
  exists s', (free_table aid tid ;;; cache_remove_table tid) s = Ok tt s' /\
    St2G (eq k) r2_none r2_none s' /\
    (exists t', nth_error (w_tables s') tid = Some t' /\ t_free t' = true) /\
    (forall x, x <> tid -> nth_error (w_tables s') x = nth_error (w_tables s) x) /\
    (forall i, i <> aid -> nth_error (w_archs s') i = nth_error (w_archs s) i) /\
    r2c_frame k s s'.
Proof.
  intros k s aid a tid t HS Ha Ht Earch Hf Hlen (i0 & g & Hr0 & Hg). pose proof HS as (HW & HR & HT & HC).
  assert (Hnr : 0 < a_numrel a).
  { destruct (a_numrel a) eqn:En; [|lia]. exfalso. apply (r2_norel_cols s aid a HW Ha En i0 Hr0). }
  assert (HD : a_numrel a <= 1 -> forall i x, r2_relcol a i -> nth_error (t_targets t) i = Some x -> k = fst x).
  { intros Hle i x Hr Hx. rewrite (r2c_relcol_unique s aid a i i0 HW Ha Hle Hr Hr0) in Hx. rewrite Hg in Hx. injection Hx as <-. reflexivity. }
  destruct (r2_free_table_spec (eq k) r2_none r2_none s aid a tid t HS Ha Ht Earch Hf Hlen Hnr HD) as (E4 & HS4).
  set (s4 := s <| w_archs := upd aid (arch_free_table a tid) (w_archs s) |>
               <| w_tables := upd tid (t <| t_free := true |>) (w_tables s) |>) in *.
  assert (Ht4 : nth_error (w_tables s4) tid = Some (t <| t_free := true |>)) by (unfold s4; cbn; apply (r2_upd_same _ _ _ _ _ Ht)).
  destruct (r2_cache_remove_table_spec (eq k) r2_none r2_none s4 tid _ HS4 Ht4 eq_refl) as (l' & E5 & HS5).
  set (s5 := s4 <| w_cheap := l' |>) in *.
  exists s5. split; [rewrite (sa_bind_ok E4); exact E5|]. split; [exact HS5|].
  split; [exists (t <| t_free := true |>); split; [exact Ht4|reflexivity]|].
  assert (To : forall x, x <> tid -> nth_error (w_tables s5) x = nth_error (w_tables s) x).
  { intros x Hx. unfold s5, s4. cbn. apply r2_upd_other. exact Hx. }
  split; [exact To|]. split.
  { intros i Hi. unfold s5, s4. cbn. apply r2_upd_other. exact Hi. }
  assert (Obs : forall e, live s5 e = live s e /\ (forall c, val s5 e c = val s e c) /\ (forall c, tgt s5 e c = tgt s e c)).
  { apply (r2c_obs_one_empty s s5 tid); [reflexivity|exact To| |].
    - intros t0 Ht0. rewrite Ht in Ht0. injection Ht0 as <-. exact Hlen.
    - intros t2 Ht2. change (w_tables s5) with (w_tables s4) in Ht2. rewrite Ht4 in Ht2. injection Ht2 as <-. exact Hlen. }
  split; [intros e; apply Obs|]. split; [intros e c; apply Obs|]. split; [apply r2c_tgt_step_eq; intros e c; apply Obs|].
  split.
  { split; [unfold s5, s4; cbn; apply upd_length|]. intros i b Hb. unfold s5, s4. cbn.
    destruct (Nat.eq_dec i aid) as [->|Hne].
    - rewrite Ha in Hb. injection Hb as <-. rewrite (r2_upd_same _ _ _ _ _ Ha). exists (arch_free_table a tid).
      destruct (r2_aft_fields a tid) as (_ & F2 & F3 & F4 & _). repeat split; assumption.
    - rewrite (r2_upd_other _ _ _ _ _ Hne). exists b. repeat split; assumption. }
  split; [reflexivity|]. split; [unfold side_same; cbn; repeat split|unfold frame_user; cbn; repeat split].
Qed.

(** ** One table of the cleanup (the body of the inner loop of [cleanup_archetypes]) *)

Definition r2c_step (k aid tid : nat) (t : table) : MW unit :=
  s <- get ;;
  whenM (Nat.ltb 0 (t_len t)) (
    all <- exchange_targets_unchecked t (r2c_newrels k s t) ;;
    ntid <- get_or_create_table aid all ;;
    move_entities tid ntid (t_len t)) ;;;
  free_table aid tid ;;;
  cache_remove_table tid.

Lemma r2c_step_spec : forall e s aid a tid t,
  St2G (eq (fst e)) r2_none r2_none s -> r2c_dead (fst e) s -> r2c_only e s -> 2 <= fst e ->
  nth_error (w_archs s) aid = Some a -> nth_error (w_tables s) tid = Some t -> t_arch t = aid -> t_free t = false ->
  r2_has_target a t (fst e) -> r2_nostale a ->
  exists s', r2c_step (fst e) aid tid t s = Ok tt s' /\
    St2G (eq (fst e)) r2_none r2_none s' /\ r2c_dead (fst e) s' /\ r2c_only e s' /\ r2c_frame (fst e) s s' /\
    (forall i, i <> aid -> nth_error (w_archs s') i = nth_error (w_archs s) i) /\
    (forall x, r2c_Tk (fst e) s' aid x <-> r2c_Tk (fst e) s aid x /\ x <> tid).
Proof.
  intros e s aid a tid t HS Hdead Honly Hk Ha Ht Earch Hf Htk Hstale. set (k := fst e) in *.
  (* the state before FreeTable; [on]: the table that received the rows, if any *)
  assert (Mid : exists s3 (on : option nat),
            whenM (Nat.ltb 0 (t_len t)) (
              all <- exchange_targets_unchecked t (r2c_newrels k s t) ;;
              ntid <- get_or_create_table aid all ;;
              move_entities tid ntid (t_len t)) s = Ok tt s3 /\
            St2G (eq k) r2_none r2_none s3 /\
            (exists t3, nth_error (w_tables s3) tid = Some t3 /\ t_len t3 = 0 /\ sb2_meta t t3) /\
            (forall x, on = Some x -> x <> tid /\ ~ r2c_Tk k s aid x /\
               exists tn, nth_error (w_tables s3) x = Some tn /\ t_arch tn = aid /\ t_free tn = false /\
                          (forall r, In r (t_rels tn) -> fst (snd r) <> k)) /\
            (forall x, x <> tid -> on <> Some x -> nth_error (w_tables s3) x = nth_error (w_tables s) x) /\
            (forall i, i <> aid -> nth_error (w_archs s3) i = nth_error (w_archs s) i) /\
            r2c_frame k s s3).
  { destruct (Nat.ltb 0 (t_len t)) eqn:El; cbn [whenM].
    - destruct (r2c_phaseA k s aid a tid t HS Hdead Hk Ha Ht Earch Hf Htk Hstale)
        as (s3 & ntid & E3 & HS3 & Hne & H3 & Hn & HnTk & Hoth & Haoth & Fr).
      exists s3, (Some ntid). split; [exact E3|]. split; [exact HS3|]. split; [exact H3|]. split.
      { intros x Hx. injection Hx as <-. split; [exact Hne|]. split; [exact HnTk|exact Hn]. }
      split; [|split; [exact Haoth|exact Fr]].
      intros x H1 H2. apply Hoth; [exact H1|]. intros ->. apply H2. reflexivity.
    - exists s, None. split; [reflexivity|]. split; [exact HS|]. split.
      { exists t. split; [exact Ht|]. split; [apply Nat.ltb_ge in El; lia|apply sb2_meta_refl]. }
      split; [intros x Hx; discriminate|]. split; [reflexivity|]. split; [reflexivity|apply r2c_frame_refl]. }
  destruct Mid as (s3 & on & E3 & HS3 & (t3 & Ht3 & Hl3 & Mt3) & HN & Hoth3 & Haoth3 & Fr3).
  pose proof Fr3 as (_ & _ & _ & AS3 & _).
  destruct (proj2 AS3 aid a Ha) as (a3 & Ha3 & _ & A3i & _).
  pose proof Mt3 as (M1 & M2 & M3 & M4 & M5 & M6).
  assert (Htk3 : r2_has_target a3 t3 k).
  { apply (r2c_has_target_isrel a a3 t3 k A3i). apply (r2c_has_target_meta a t t3 k Mt3). exact Htk. }
  destruct (r2c_phaseBC k s3 aid a3 tid t3 HS3 Ha3 Ht3 (eq_trans M1 Earch) (eq_trans M6 Hf) Hl3 Htk3)
    as (s5 & E5 & HS5 & (t5 & Ht5 & Hf5) & Hoth5 & Haoth5 & Fr5).
  pose proof (r2c_frame_trans k s s3 s5 Fr3 Fr5) as Fr.
  pose proof Fr as (Flive & _ & _ & AS & _).
  pose proof HS5 as (HW5 & HR5 & _).
  destruct (proj2 AS aid a Ha) as (a5 & Ha5 & _ & A5i & A5c).
  exists s5. split.
  { unfold r2c_step. rewrite (sa_bind_ok (m := get) (s := s) eq_refl). rewrite (sa_bind_ok E3). exact E5. }
  split; [exact HS5|]. split; [intros x Hx; rewrite Flive; apply Hdead; exact Hx|].
  (* tables of the final state *)
  assert (TN : forall x, on = Some x -> x <> tid /\ ~ r2c_Tk k s aid x /\
                 exists tn, nth_error (w_tables s5) x = Some tn /\ t_arch tn = aid /\ t_free tn = false /\
                            (forall r, In r (t_rels tn) -> fst (snd r) <> k)).
  { intros x Hx. destruct (HN x Hx) as (Hne & HnTk & tn & Htn & P). split; [exact Hne|]. split; [exact HnTk|].
    exists tn. rewrite (Hoth5 x Hne). split; [exact Htn|exact P]. }
  assert (TO : forall x, x <> tid -> on <> Some x -> nth_error (w_tables s5) x = nth_error (w_tables s) x).
  { intros x H1 H2. rewrite (Hoth5 x H1). apply (Hoth3 x H1 H2). }
  assert (Dec : forall x, on = Some x \/ on <> Some x).
  { intros x. destruct on as [n|]; [|right; discriminate]. destruct (Nat.eq_dec n x) as [->|Hne]; [left; reflexivity|right; congruence]. }
  split.
  { intros x tx r Hx Hfx Hin Hfst. destruct (Nat.eq_dec x tid) as [->|Hne]; [rewrite Ht5 in Hx; injection Hx as <-; congruence|].
    destruct (Dec x) as [Hon|Hon].
    - destruct (TN x Hon) as (_ & _ & tn & Htn & _ & _ & Pn). rewrite Hx in Htn. injection Htn as <-.
      exfalso. apply (Pn r Hin). exact Hfst.
    - rewrite (TO x Hne Hon) in Hx. apply (Honly x tx r Hx Hfx Hin Hfst). }
  split; [exact Fr|]. split.
  { intros i Hi. rewrite (Haoth5 i Hi). apply (Haoth3 i Hi). }
  intros x. split.
  - intros (tx & ax & Hx & Ax & Fx & Hax & Htx). rewrite Ha5 in Hax. injection Hax as <-.
    assert (Hne : x <> tid) by (intros ->; rewrite Ht5 in Hx; injection Hx as <-; congruence).
    split; [|exact Hne]. destruct (Dec x) as [Hon|Hon].
    + exfalso. destruct (TN x Hon) as (_ & _ & tn & Htn & _ & _ & Pn). rewrite Hx in Htn. injection Htn as <-.
      destruct Htx as (i & g & Hr & Hg).
      assert (Hci : exists c, nth_error (a_comps a5) i = Some c).
      { destruct (r2_isrel_len s5 aid a5 HW5 Ha5) as (LI & _).
        destruct (nth_error (a_comps a5) i) as [c|] eqn:E; [exists c; reflexivity|].
        apply nth_error_None in E. pose proof (sa_nth_error_lt _ _ _ _ Hr). lia. }
      destruct Hci as (c & Hci). pose proof Ha5 as Hat. rewrite <- Ax in Hat.
      destruct (ri_shape _ _ HR5 x tx a5 Hx Hat) as (_ & S2 & _).
      assert (Hin : In (c, (k, g)) (t_rels tx)) by (apply S2; exists i; repeat split; assumption).
      apply (Pn _ Hin). reflexivity.
    + rewrite (TO x Hne Hon) in Hx. exists tx, a. repeat split; try assumption.
      apply (r2c_has_target_isrel a a5 tx k A5i). exact Htx.
  - intros ((tx & ax & Hx & Ax & Fx & Hax & Htx) & Hne). rewrite Ha in Hax. injection Hax as <-.
    destruct (Dec x) as [Hon|Hon].
    + exfalso. destruct (TN x Hon) as (_ & HnTk & _). apply HnTk. exists tx, a. repeat split; assumption.
    + exists tx, a5. rewrite (TO x Hne Hon). repeat split; try assumption.
      apply (r2c_has_target_isrel a a5 tx k A5i). exact Htx.
Qed.

(* ================================================================================================ *)
(** * Part 6: the loops of [cleanup_archetypes] (C3) *)

(** ** The loops, named *)

Definition r2c_inner (e : ent) (aid i : nat) : MW unit :=
  a <- getA aid ;;
  tabs' <- of_opt (afind (fst e) (a_tgttabs a)) EIndex ;;
  tid <- of_opt (nth_error tabs' i) EIndex ;;
  t <- getT tid ;;
  r2c_step (fst e) aid tid t.

Definition r2c_arch (e : ent) (aid : nat) : MW unit :=
  a <- getA aid ;;
  match afind (fst e) (a_tgttabs a) with
  | None => ret tt
  | Some tabs =>
      forM_ (rev (seq 0 (length tabs))) (r2c_inner e aid) ;;;
      modA aid (fun a => arch_remove_target a (fst e))
  end.

Lemma r2c_cleanup_unfold : forall e, cleanup_archetypes e = (s <- get ;; forM_ (w_relarchs s) (r2c_arch e)).
Proof. reflexivity. Qed.

(** the invariant of the cleanup *)
Definition r2c_I (e : ent) (s : W) : Prop :=
  St2G (eq (fst e)) r2_none r2_none s /\ r2c_dead (fst e) s /\ r2c_only e s.

(** ** Tables naming the dying target and the lookup list under its key *)

Lemma r2c_nth_error_ext : forall A (l1 l2 : list A), (forall i, nth_error l1 i = nth_error l2 i) -> l1 = l2.
Proof.
  induction l1 as [|x l1 IH]; intros [|y l2] H; [reflexivity|specialize (H 0); discriminate|specialize (H 0); discriminate|].
  pose proof (H 0) as H0. cbn in H0. injection H0 as ->. f_equal. apply IH. intros i. apply (H (S i)).
Qed.

(** with one relation component at most one active table of the archetype names the dying target *)
Lemma r2c_Tk_unique : forall e s aid a x y, r2c_I e s -> nth_error (w_archs s) aid = Some a -> a_numrel a <= 1 ->
  r2c_Tk (fst e) s aid x -> r2c_Tk (fst e) s aid y -> x = y.
Proof.
  intros e s aid a x y ((HW & HR & _) & _ & Honly) Ha Hle (tx & ax & Hx & Ax & Fx & Hax & Htx) (ty & ay & Hy & Ay & Fy & Hay & Hty).
  rewrite Ha in Hax, Hay. injection Hax as <-. injection Hay as <-.
  apply (ri_unique _ _ HR x y tx ty Hx Hy Fx Fy); [congruence|].
  pose proof Ha as Hatx. rewrite <- Ax in Hatx. pose proof Ha as Haty. rewrite <- Ay in Haty.
  destruct (wf_layout _ HW x tx Hx) as (a0 & Ha0 & Lx & _ & Ltx). rewrite Hatx in Ha0. injection Ha0 as <-.
  destruct (wf_layout _ HW y ty Hy) as (a0 & Ha0 & Ly & _ & Lty). rewrite Haty in Ha0. injection Ha0 as <-.
  destruct (ri_shape _ _ HR x tx a Hx Hatx) as (_ & Sx2 & Sx3 & _).
  destruct (ri_shape _ _ HR y ty a Hy Haty) as (_ & Sy2 & Sy3 & _).
  destruct (r2_isrel_len s aid a HW Ha) as (LI & _).
  destruct Htx as (i1 & g1 & Hr1 & Hg1). destruct Hty as (i2 & g2 & Hr2 & Hg2).
  assert (Ei : i2 = i1) by (apply (r2c_relcol_unique s aid a i2 i1 HW Ha Hle Hr2 Hr1)). subst i2.
  assert (Hc : exists c, nth_error (a_comps a) i1 = Some c).
  { destruct (nth_error (a_comps a) i1) as [c|] eqn:E; [exists c; reflexivity|].
    apply nth_error_None in E. pose proof (sa_nth_error_lt _ _ _ _ Hr1). lia. }
  destruct Hc as (c & Hc).
  assert (E1 : (fst e, g1) = e).
  { apply (Honly x tx (c, (fst e, g1)) Hx Fx); [apply Sx2; exists i1; repeat split; assumption|reflexivity]. }
  assert (E2 : (fst e, g2) = e).
  { apply (Honly y ty (c, (fst e, g2)) Hy Fy); [apply Sy2; exists i1; repeat split; assumption|reflexivity]. }
  apply r2c_nth_error_ext. intros i. destruct (nth_error (a_isrel a) i) as [[|]|] eqn:Eb.
  - rewrite (r2c_relcol_unique s aid a i i1 HW Ha Hle Eb Hr1). rewrite Hg1, Hg2, E1, E2. reflexivity.
  - rewrite (Sx3 i Eb), (Sy3 i Eb). reflexivity.
  - apply nth_error_None in Eb.
    rewrite (proj2 (nth_error_None (t_targets tx) i)) by (rewrite Ltx, Lx; lia).
    rewrite (proj2 (nth_error_None (t_targets ty) i)) by (rewrite Lty, Ly; lia). reflexivity.
Qed.

(** if no free table of the archetype is listed, the list under the key is exactly the set of those tables *)
Lemma r2c_list_Tk : forall k s aid a l, St2G (eq k) r2_none r2_none s -> nth_error (w_archs s) aid = Some a ->
  r2_nostale a -> afind k (a_tgttabs a) = Some l ->
  NoDup l /\ forall x, In x l <-> r2c_Tk k s aid x.
Proof.
  intros k s aid a l (HW & HR & _) Ha Hst Hl. destruct (ri_tgttabs _ _ HR aid a k l Ha Hl) as (ND & Hall).
  split; [exact ND|]. intros x. split.
  - intros Hin. destruct (Hall x Hin) as (tx & Hx & Htx & _).
    destruct (wf_arch_tables _ HW aid a x Ha) as (tx' & Hx' & Ax); [right; right; right; exists k, l; split; assumption|].
    rewrite Hx in Hx'. injection Hx' as <-.
    exists tx, a. split; [exact Hx|]. split; [exact Ax|]. split; [|split; [exact Ha|exact Htx]].
    destruct (t_free tx) eqn:Ef; [|reflexivity]. exfalso.
    destruct (ri_listed _ _ HR x tx Hx) as (a' & Ha' & Hlst). rewrite Ax, Ha in Ha'. injection Ha' as <-. rewrite Ef in Hlst.
    apply (proj1 (Hst x Hlst) k l Hl Hin).
  - intros (tx & ax & Hx & Ax & Fx & Hax & (i & g & Hr & Hg)). rewrite Ha in Hax. injection Hax as <-.
    pose proof Ha as Hat. rewrite <- Ax in Hat.
    destruct (ri_tgttabs_complete _ _ HR x tx a i (k, g) Hx Fx Hat Hr Hg) as (l' & Hl' & Hin). cbn [fst] in Hl'.
    rewrite Hl in Hl'. injection Hl' as <-. exact Hin.
Qed.

Lemma r2c_rev_seq_S : forall n, rev (seq 0 (S n)) = n :: rev (seq 0 n).
Proof. intros n. rewrite seq_S, rev_app_distr. reflexivity. Qed.

(** ** The inner loop: all tables of one archetype under the key *)

Lemma r2c_inner_loop : forall e aid n s L, r2c_I e s -> 2 <= fst e ->
  NoDup L -> length L = n -> (forall x, r2c_Tk (fst e) s aid x <-> In x L) ->
  (0 < n -> forall a, nth_error (w_archs s) aid = Some a -> r2_nostale a) ->
  exists s', forM_ (rev (seq 0 n)) (r2c_inner e aid) s = Ok tt s' /\ r2c_I e s' /\ r2c_frame (fst e) s s' /\
    (forall i, i <> aid -> nth_error (w_archs s') i = nth_error (w_archs s) i) /\
    (forall x, ~ r2c_Tk (fst e) s' aid x).
Proof.
  intros e aid n. induction n as [|m IH]; intros s L HI Hk ND HL HTk Hst.
  - exists s. split; [reflexivity|]. split; [exact HI|]. split; [apply r2c_frame_refl|]. split; [reflexivity|].
    intros x Hx. apply HTk in Hx. destruct L; [destruct Hx|discriminate].
  - set (k := fst e) in *. pose proof HI as (HS & Hdead & Honly). pose proof HS as (HW & HR & _).
    destruct L as [|x0 L0] eqn:EL; [discriminate|]. rewrite <- EL in *.
    assert (Hx0 : r2c_Tk k s aid x0) by (apply HTk; rewrite EL; left; reflexivity).
    destruct Hx0 as (tx0 & a & Hx0 & Ax0 & Fx0 & Ha & (i0 & g0 & Hr0 & Hg0)).
    pose proof (Hst (Nat.lt_0_succ m) a Ha) as Hsta.
    pose proof Ha as Hat0. rewrite <- Ax0 in Hat0.
    destruct (ri_tgttabs_complete _ _ HR x0 tx0 a i0 (k, g0) Hx0 Fx0 Hat0 Hr0 Hg0) as (l & Hl & _). cbn [fst] in Hl.
    destruct (r2c_list_Tk k s aid a l HS Ha Hsta Hl) as (NDl & Hmem).
    assert (Hlen : length l = S m).
    { rewrite <- HL. apply r2c_nodup_same_length; [exact NDl|exact ND|]. intros x. rewrite Hmem. apply HTk. }
    assert (Htid : exists tid, nth_error l m = Some tid).
    { destruct (nth_error l m) as [tid|] eqn:E; [exists tid; reflexivity|]. apply nth_error_None in E. lia. }
    destruct Htid as (tid & Htid).
    assert (HtidTk : r2c_Tk k s aid tid) by (apply Hmem; eapply nth_error_In; exact Htid).
    destruct HtidTk as (t & a' & Ht & At & Ft & Ha'' & Htk). rewrite Ha in Ha''. injection Ha'' as <-.
    destruct (r2c_step_spec e s aid a tid t HS Hdead Honly Hk Ha Ht At Ft Htk Hsta)
      as (s1 & E1 & HS1 & Hdead1 & Honly1 & Fr1 & Hoth1 & HTk1).
    fold k in E1, HS1, Hdead1, Fr1, HTk1.
    remember (filter (fun x => negb (Nat.eqb x tid)) L) as L' eqn:EL'def.
    assert (HL' : forall x, In x L' <-> In x L /\ x <> tid).
    { intros x. rewrite EL'def, filter_In. split; intros (H1 & H2); (split; [exact H1|]).
      - intros ->. rewrite Nat.eqb_refl in H2. discriminate.
      - apply negb_true_iff. apply Nat.eqb_neq. exact H2. }
    assert (ND' : NoDup L') by (rewrite EL'def; apply NoDup_filter; exact ND).
    assert (Hin_tid : In tid L) by (apply HTk; exists t, a; repeat split; assumption).
    assert (Hlen' : length L' = m).
    { assert (E : length L = length (tid :: L')).
      { apply r2c_nodup_same_length; [exact ND|constructor; [intros Hc; apply HL' in Hc; destruct Hc as (_ & Hc); apply Hc; reflexivity|exact ND']|].
        intros x. cbn [In]. rewrite HL'. destruct (Nat.eq_dec x tid) as [->|Hne]; [tauto|]. split; [intros H; right; split; assumption|].
        intros [H|(H & _)]; [congruence|exact H]. }
      cbn [length] in E. lia. }
    assert (HTk' : forall x, r2c_Tk k s1 aid x <-> In x L').
    { intros x. rewrite HTk1, HL', HTk. tauto. }
    pose proof Fr1 as (_ & _ & _ & AS1 & _).
    destruct (IH s1 L' (conj HS1 (conj Hdead1 Honly1)) Hk ND' Hlen' HTk') as (s2 & E2 & HI2 & Fr2 & Hoth2 & HnTk2).
    { intros Hm a1 Ha1. destruct (r2c_arch_static_rev s s1 aid a1 AS1 Ha1) as (a0 & Ha0 & An & _). rewrite Ha in Ha0. injection Ha0 as <-.
      destruct (Nat.leb_spec 2 (a_numrel a1)) as [Hge|Hlt].
      - destruct HS1 as (_ & HR1 & _). apply (r2c_nostale (eq k) s1 aid a1 HR1 Ha1). left. exact Hge.
      - exfalso. (* two different tables under the key although there is one relation component *)
        destruct L' as [|y L1]; [cbn in Hlen'; lia|].
        assert (Hy : In y L /\ y <> tid) by (apply HL'; left; reflexivity). destruct Hy as (Hy & Hne).
        apply Hne. apply (r2c_Tk_unique e s aid a y tid HI Ha); [lia|apply HTk; exact Hy|exists t, a; repeat split; assumption]. }
    exists s2. split.
    { rewrite r2c_rev_seq_S. cbn [forM_].
      assert (Ein : r2c_inner e aid m s = Ok tt s1).
      { unfold r2c_inner. rewrite (sa_bind_ok (sa_getA_eq _ _ _ Ha)). fold k. rewrite Hl. cbn [of_opt].
        rewrite (sa_bind_ok (m := ret l) (s := s) eq_refl). rewrite Htid. cbn [of_opt].
        rewrite (sa_bind_ok (m := ret tid) (s := s) eq_refl). rewrite (sa_bind_ok (sa_getT_eq _ _ _ Ht)). exact E1. }
      rewrite (sa_bind_ok Ein). exact E2. }
    split; [exact HI2|]. split; [apply (r2c_frame_trans k s s1 s2 Fr1 Fr2)|]. split; [|exact HnTk2].
    intros i Hi. rewrite (Hoth2 i Hi). apply (Hoth1 i Hi).
Qed.

(** ** One archetype: all its tables under the key, then the key itself *)

Lemma r2c_arch_spec : forall e aid s a, r2c_I e s -> 2 <= fst e ->
  nth_error (w_archs s) aid = Some a -> r2_nostale a ->
  exists s', r2c_arch e aid s = Ok tt s' /\ r2c_I e s' /\ r2c_frame (fst e) s s' /\
    (forall i, i <> aid -> nth_error (w_archs s') i = nth_error (w_archs s) i) /\
    (exists a', nth_error (w_archs s') aid = Some a' /\ afind (fst e) (a_tgttabs a') = None).
Proof.
  intros e aid s a HI Hk Ha Hst. set (k := fst e) in *. pose proof HI as (HS & Hdead & Honly).
  unfold r2c_arch. rewrite (sa_bind_ok (sa_getA_eq _ _ _ Ha)). fold k.
  destruct (afind k (a_tgttabs a)) as [tabs|] eqn:Hl.
  2:{ exists s. split; [reflexivity|]. split; [exact HI|]. split; [apply r2c_frame_refl|]. split; [reflexivity|].
      exists a. split; [exact Ha|exact Hl]. }
  destruct (r2c_list_Tk k s aid a tabs HS Ha Hst Hl) as (ND & Hmem).
  destruct (r2c_inner_loop e aid (length tabs) s tabs HI Hk ND eq_refl) as (s1 & E1 & HI1 & Fr1 & Hoth1 & HnTk1).
  { intros x. symmetry. apply Hmem. }
  { intros _ a0 Ha0. rewrite Ha in Ha0. injection Ha0 as <-. exact Hst. }
  fold k in Fr1, HnTk1. pose proof HI1 as (HS1 & Hdead1 & Honly1). pose proof HS1 as (HW1 & HR1 & _).
  pose proof Fr1 as (_ & _ & _ & AS1 & _).
  destruct (proj2 AS1 aid a Ha) as (a1 & Ha1 & _ & _ & _).
  destruct (r2_arch_remove_target_spec (eq k) r2_none r2_none s1 aid a1 k HS1 Ha1) as (E2 & HS2).
  { intros l x tx Hl1 Hin Hx. destruct (t_free tx) eqn:Ef; [reflexivity|]. exfalso. apply (HnTk1 x).
    destruct (ri_tgttabs _ _ HR1 aid a1 k l Ha1 Hl1) as (_ & Hall). destruct (Hall x Hin) as (tx' & Hx' & Htx & _).
    rewrite Hx in Hx'. injection Hx' as <-.
    destruct (wf_arch_tables _ HW1 aid a1 x Ha1) as (tx' & Hx' & Ax); [right; right; right; exists k, l; split; assumption|].
    rewrite Hx in Hx'. injection Hx' as <-. exists tx, a1. repeat split; assumption. }
  set (s2 := s1 <| w_archs := upd aid (arch_remove_target a1 k) (w_archs s1) |>) in *.
  assert (Obs : forall x, live s2 x = live s1 x /\ (forall c, val s2 x c = val s1 x c) /\ (forall c, tgt s2 x c = tgt s1 x c)).
  { apply (r2c_obs_one_empty s1 s2 (length (w_tables s1))); [reflexivity|reflexivity| |].
    - intros t0 Ht0. apply sa_nth_error_lt in Ht0. lia.
    - intros t0 Ht0. change (w_tables s2) with (w_tables s1) in Ht0. apply sa_nth_error_lt in Ht0. lia. }
  assert (Fr2 : r2c_frame k s1 s2).
  { split; [intros x; apply Obs|]. split; [intros x c; apply Obs|]. split; [apply r2c_tgt_step_eq; intros x c; apply Obs|]. split.
    - split; [unfold s2; cbn; apply upd_length|]. intros i b Hb. unfold s2. cbn. destruct (Nat.eq_dec i aid) as [->|Hne].
      + rewrite Ha1 in Hb. injection Hb as <-. rewrite (r2_upd_same _ _ _ _ _ Ha1). exists (arch_remove_target a1 k).
        destruct (r2_art_fields a1 k) as (_ & F2 & F3 & _ & _ & F6 & _). repeat split; assumption.
      + rewrite (r2_upd_other _ _ _ _ _ Hne). exists b. repeat split; assumption.
    - split; [reflexivity|]. split; [unfold side_same; cbn; repeat split|unfold frame_user; cbn; repeat split]. }
  exists s2. split.
  { rewrite (sa_bind_ok E1). exact E2. }
  split.
  { split; [exact HS2|]. split.
    - intros x Hx. rewrite (proj1 (Obs x)). apply Hdead1. exact Hx.
    - intros tid t r Ht. change (w_tables s2) with (w_tables s1) in Ht. apply (Honly1 tid t r Ht). }
  split; [apply (r2c_frame_trans k s s1 s2 Fr1 Fr2)|]. split.
  { intros i Hi. unfold s2. cbn. rewrite (r2_upd_other _ _ _ _ _ Hi). apply (Hoth1 i Hi). }
  exists (arch_remove_target a1 k). split; [unfold s2; cbn; apply (r2_upd_same _ _ _ _ _ Ha1)|].
  destruct (r2_art_fields a1 k) as (_ & _ & _ & _ & _ & _ & F7 & _). rewrite F7, rl_afind_adel, Nat.eqb_refl. reflexivity.
Qed.

(** ** The outer loop: all archetypes with relation components *)

Lemma r2c_outer_loop : forall e l s, r2c_I e s -> 2 <= fst e -> NoDup l ->
  (forall aid, In aid l -> exists a, nth_error (w_archs s) aid = Some a /\ r2_nostale a) ->
  exists s', forM_ l (r2c_arch e) s = Ok tt s' /\ r2c_I e s' /\ r2c_frame (fst e) s s' /\
    (forall i, ~ In i l -> nth_error (w_archs s') i = nth_error (w_archs s) i) /\
    (forall aid, In aid l -> exists a', nth_error (w_archs s') aid = Some a' /\ afind (fst e) (a_tgttabs a') = None).
Proof.
  intros e l. induction l as [|aid rest IH]; intros s HI Hk ND Hst.
  - exists s. split; [reflexivity|]. split; [exact HI|]. split; [apply r2c_frame_refl|]. split; [reflexivity|intros aid []].
  - inversion ND as [|? ? Hnin ND']; subst.
    destruct (Hst aid (or_introl eq_refl)) as (a & Ha & Hsta).
    destruct (r2c_arch_spec e aid s a HI Hk Ha Hsta) as (s1 & E1 & HI1 & Fr1 & Hoth1 & (a1 & Ha1 & Hn1)).
    destruct (IH s1 HI1 Hk ND') as (s2 & E2 & HI2 & Fr2 & Hoth2 & Hn2).
    { intros i Hi. assert (Hne : i <> aid) by (intros ->; contradiction). rewrite (Hoth1 i Hne). apply Hst. right. exact Hi. }
    exists s2. split; [cbn [forM_]; rewrite (sa_bind_ok E1); exact E2|]. split; [exact HI2|].
    split; [apply (r2c_frame_trans (fst e) s s1 s2 Fr1 Fr2)|]. split.
    + intros i Hi. rewrite (Hoth2 i); [|intros Hc; apply Hi; right; exact Hc]. apply Hoth1. intros ->. apply Hi. left. reflexivity.
    + intros i [<-|Hi]; [|apply Hn2; exact Hi]. exists a1. rewrite (Hoth2 aid Hnin). split; assumption.
Qed.

(** ** C3: cleanup_archetypes *)

Theorem r2c_cleanup_spec : forall e s, r2c_I e s -> 2 <= fst e ->
  (forall aid a, nth_error (w_archs s) aid = Some a -> r2_nostale a) ->
  exists s', cleanup_archetypes e s = Ok tt s' /\ r2c_I e s' /\ r2c_frame (fst e) s s' /\
    (forall aid a, nth_error (w_archs s') aid = Some a -> afind (fst e) (a_tgttabs a) = None).
Proof.
  intros e s HI Hk Hst. pose proof HI as ((HW & HR & _) & _).
  destruct (ri_relarchs _ _ HR) as (ND & Hrel).
  destruct (r2c_outer_loop e (w_relarchs s) s HI Hk ND) as (s' & E & HI' & Fr & Hoth & Hnone).
  { intros aid Hin. apply Hrel in Hin. destruct Hin as (a & Ha & _). exists a. split; [exact Ha|apply (Hst aid a Ha)]. }
  exists s'. split; [rewrite r2c_cleanup_unfold; rewrite (sa_bind_ok (m := get) (s := s) eq_refl); exact E|].
  split; [exact HI'|]. split; [exact Fr|].
  intros aid a' Ha'. pose proof HI' as ((_ & HR' & _) & _). pose proof Fr as (_ & _ & _ & AS & _).
  destruct (r2c_arch_static_rev s s' aid a' AS Ha') as (a & Ha & An & _).
  destruct (a_numrel a') eqn:En.
  - destruct (ri_norel _ _ HR' aid a' Ha' En) as (_ & G & _). rewrite G. reflexivity.
  - assert (Hin : In aid (w_relarchs s)) by (apply Hrel; exists a; split; [exact Ha|lia]).
    destruct (Hnone aid Hin) as (a'' & Ha'' & Hn). rewrite Ha' in Ha''. injection Ha'' as <-. exact Hn.
Qed.

(* ================================================================================================ *)
(** * Part 7: RemoveEntity as a whole (C_remove_entity_spec, C_remove_never_fails) *)

(** ** Vocabulary of the statements *)

Definition r2c_tgt_same (s s' : W) : Prop := forall e c, tgt s' e c = tgt s e c.

(** What a failing call guarantees in relation worlds ([rejected2] of the plan). *)
Definition r2c_rejected (s s' : W) : Prop :=
  St2 s' /\ content_same s s' /\ r2c_tgt_same s s' /\ w_pool s' = w_pool s /\ frame_user s s'.

(** The target of an entity after [x] was removed: a target that was [x] is the zero entity now. *)
Definition r2c_detached (x : ent) (o : option ent) : option ent :=
  match o with
  | Some y => if ent_eqb y x then Some zero_ent else Some y
  | None => None
  end.

(** ** States that differ only outside the storage *)

Lemma r2c_storage_same_St2 : forall s s', storage_same s s' -> St2 s -> St2 s'.
Proof.
  intros s s' (E1 & E2 & E3 & E4 & E5 & E6 & E7 & E8 & E9 & E10 & E11 & E12 & E13 & E14 & E15 & E16 & E17 & E18) (HW & (HR & HT) & HC).
  split; [apply (sa_WF_ext s s'); assumption|]. split; [split|].
  - apply (r2_RelInvG_ext s s'); assumption.
  - apply (r2c_TargetFlagsG_ext r2_none s s' HT E6 E5).
  - apply (r2_CacheInvG_ext s s'); assumption.
Qed.

Lemma r2c_storage_same_tgt : forall s s', storage_same s s' -> r2c_tgt_same s s'.
Proof.
  intros s s' SS e c. pose proof (sb3_storage_same_content s s' SS e) as (Hl & _).
  destruct SS as (_ & _ & _ & Ei & _ & _ & Et & _). unfold tgt. rewrite Hl. unfold target_of. rewrite (sa_loc_ext s s' Ei), Et. reflexivity.
Qed.

Lemma r2c_storage_same_rejected : forall s s', St2 s -> storage_same s s' -> r2c_rejected s s'.
Proof.
  intros s s' HS SS. split; [apply (r2c_storage_same_St2 s s' SS HS)|]. split; [apply sb3_storage_same_content; exact SS|].
  split; [apply r2c_storage_same_tgt; exact SS|]. split; [apply SS|apply sb3_storage_same_frame; exact SS].
Qed.

(** ** Facts about targets in tidy states *)

Lemma r2c_only_St2 : forall s e, St2 s -> live s e = true -> r2c_only e s.
Proof.
  intros s e (HW & (HR & _) & _) Hl tid t r Ht Hf Hin Hfst.
  destruct (live_alive s e HW Hl) as (_ & Hge).
  destruct (ri_targets_ok _ _ HR tid t r Ht Hf Hin) as [Hz|[Hlx|[]]].
  - rewrite Hz in Hfst. cbn in Hfst. lia.
  - apply (r2c_live_same_id s (snd r) e Hlx Hl Hfst).
Qed.

Lemma r2c_tgt_same_id : forall s e e' c x, St2 s -> live s e = true -> tgt s e' c = Some x -> fst x = fst e -> x = e.
Proof.
  intros s e e' c x HS Hl Ht Hf. pose proof HS as (HW & _). destruct (live_alive s e HW Hl) as (_ & Hge).
  destruct (r2_St2_targets s e' c x HS Ht) as [Hz|Hlx]; [rewrite Hz in Hf; cbn in Hf; lia|].
  apply (r2c_live_same_id s x e Hlx Hl Hf).
Qed.

Lemma r2c_tgt_not_dead : forall s e e' c, St2 s -> live s e = false -> 2 <= fst e -> tgt s e' c <> Some e.
Proof.
  intros s e e' c HS Hd Hge Ht. destruct (r2_St2_targets s e' c e HS Ht) as [Hz|Hl]; [rewrite Hz in Hge; cbn in Hge; lia|congruence].
Qed.

(** ** The storage part of RemoveEntity (after the callbacks) *)

Theorem r2c_core_spec : forall s e tid row, St2 s -> alive s e = true ->
  nth_error (w_index s) (fst e) = Some (Some tid, row) ->
  exists s', sb3_rm_core e tid row s = Ok tt s' /\
    St2 s' /\ live s e = true /\ live s' e = false /\ alive s' e = false /\
    (forall e', e' <> e -> live s' e' = live s e' /\ (forall c, val s' e' c = val s e' c) /\
       (forall c, tgt s' e' c = r2c_detached e (tgt s e' c))) /\
    frame_user s s' /\ side_same s s' /\ length (pe (w_pool s')) = length (pe (w_pool s)).
Proof.
  intros s e tid row HS Ha Hi. set (k := fst e).
  destruct (r2c_rows_spec s e tid row HS Ha Hi)
    as (s1 & E1 & HS1 & Hl & Hl1 & Ha1 & Hdead1 & OS1 & EA1 & EI1 & ER1 & PL1 & Hge & FU1 & SD1 & TM1).
  fold k in HS1, Hdead1, Hge.
  pose proof HS as (HW & (HR & HT) & HC). pose proof HS1 as (HW1 & HR1 & HT1 & HC1).
  pose proof (r2c_only_St2 s e HS Hl) as Honly.
  assert (Honly1 : r2c_only e s1).
  { intros x tx r Hx Hf Hin Hfst. destruct (r2c_tabs_meta_rev _ _ x tx TM1 Hx) as (tx0 & Hx0 & (M1 & M2 & M3 & M4 & M5 & M6) & _).
    rewrite M5 in Hin. rewrite M6 in Hf. apply (Honly x tx0 r Hx0 Hf Hin Hfst). }
  assert (Hst1 : forall aid a, nth_error (w_archs s1) aid = Some a -> r2_nostale a).
  { intros aid a Ha0. rewrite EA1 in Ha0. apply (r2c_nostale r2_none s aid a HR Ha0). right. intros k0 []. }
  (* the final step of both branches: targets, given a tidy final state *)
  assert (Fin : forall s', St2 s' -> live s' e = false ->
            (forall x, live s' x = live s1 x) -> (forall x c, val s' x c = val s1 x c) -> r2c_tgt_step k s1 s' ->
            forall e', e' <> e -> live s' e' = live s e' /\ (forall c, val s' e' c = val s e' c) /\
              (forall c, tgt s' e' c = r2c_detached e (tgt s e' c))).
  { intros s' HS' Hd' Lv Vl TS e' Hne. destruct (OS1 e' Hne) as (O1 & O2 & O3).
    split; [rewrite Lv; exact O1|]. split; [intros c; rewrite Vl; apply O2|]. intros c.
    pose proof (r2c_tgt_not_dead s' e e' c HS' Hd' Hge) as Hnd.
    destruct (TS e' c) as [Eq|(x & Hx & Hfx & Hz)].
    - rewrite Eq, O3. rewrite Eq, O3 in Hnd. destruct (tgt s e' c) as [x|]; [|reflexivity]. cbn [r2c_detached].
      destruct (ent_eqb x e) eqn:Ex; [|reflexivity]. apply sa_ent_eqb_eq in Ex. subst x. exfalso. apply Hnd. reflexivity.
    - rewrite O3 in Hx. rewrite Hz, Hx. cbn [r2c_detached].
      rewrite (r2c_tgt_same_id s e e' c x HS Hl Hx Hfx), sa_ent_eqb_refl. reflexivity. }
  rewrite r2c_core_split. rewrite (sa_bind_ok E1). unfold r2c_tail. rewrite (sa_bind_ok (m := get) (s := s1) eq_refl).
  fold k. destruct (nth k (w_istarget s1) false) eqn:Efl; cbn [whenM].
  - (* the entity is flagged as a target: cleanup *)
    destruct (r2c_cleanup_spec e s1 (conj HS1 (conj Hdead1 Honly1)) Hge Hst1) as (s2 & E2 & (HS2 & Hdead2 & _) & Fr2 & Hnokey).
    fold k in HS2, Hdead2, Fr2, Hnokey.
    rewrite (sa_bind_ok E2).
    set (s3 := s2 <| w_istarget := upd k false (w_istarget s2) |>).
    assert (E3 : modify (fun s0 : wstate => s0 <| w_istarget ::= upd k false |>) s2 = Ok tt s3) by reflexivity.
    rewrite E3. exists s3.
    pose proof Fr2 as (Lv2 & Vl2 & TS2 & _ & Pl2 & SD2 & FU2).
    assert (HS3 : St2 s3).
    { apply St2_St2G. apply (r2_St2G_flags r2_none r2_none r2_none r2_none s2 (upd k false (w_istarget s2))).
      - destruct HS2 as (W2 & R2 & T2 & C2). split; [exact W2|]. split; [|split; assumption].
        apply (r2_RelInvG_drop s2 (eq k) r2_none R2). intros k0 <-. right. exact Hnokey.
      - apply upd_length.
      - intros aid a k0 l Ha0 Hk0. destruct HS2 as (_ & _ & T2 & _).
        destruct (T2 aid a k0 l Ha0 Hk0) as [H0|[H1|[]]]; [left; exact H0|right; left].
        rewrite nth_upd_neq; [exact H1|]. intros ->. rewrite (Hnokey aid a Ha0) in Hk0. discriminate. }
    split; [reflexivity|]. split; [exact HS3|]. split; [exact Hl|].
    assert (Hd3 : live s3 e = false) by (change (live s3 e) with (live s2 e); rewrite Lv2; exact Hl1).
    split; [exact Hd3|]. split.
    { change (alive s3 e) with (alive s2 e). unfold alive. rewrite Pl2. exact Ha1. }
    split.
    { apply (Fin s3 HS3 Hd3); [exact Lv2|exact Vl2|exact TS2]. }
    split; [apply (sa_frame_user_trans s s1 s3 FU1); exact FU2|].
    split; [apply (sa_side_same_trans s s1 s3 SD1); exact SD2|].
    change (w_pool s3) with (w_pool s2). rewrite Pl2. exact PL1.
  - (* not flagged: no key under its id exists *)
    unfold ret. exists s1.
    assert (HS1' : St2 s1).
    { apply St2_St2G. split; [exact HW1|]. split; [|split; assumption].
      apply (r2_RelInvG_drop s1 (eq k) r2_none HR1). intros k0 <-. right. intros aid a Ha0.
      destruct (afind k (a_tgttabs a)) as [l|] eqn:Hk0; [|reflexivity]. exfalso.
      destruct (HT1 aid a k l Ha0 Hk0) as [H0|[H1|[]]]; [lia|congruence]. }
    split; [reflexivity|]. split; [exact HS1'|]. split; [exact Hl|]. split; [exact Hl1|]. split; [exact Ha1|].
    split; [apply (Fin s1 HS1' Hl1); [reflexivity|reflexivity|apply r2c_tgt_step_refl]|].
    split; [exact FU1|]. split; [exact SD1|exact PL1].
Qed.

(** ** RemoveEntity with its callbacks *)

Lemma r2c_after_events : forall s s1 e tid row, St2 s -> storage_same s s1 -> alive s e = true ->
  nth_error (w_index s) (fst e) = Some (Some tid, row) ->
  match sb3_rm_core e tid row s1 with
  | Ok _ s' =>
      St2 s' /\ live s e = true /\ live s' e = false /\ alive s' e = false /\
      (forall e', e' <> e -> live s' e' = live s e' /\ (forall c, val s' e' c = val s e' c) /\
         (forall c, tgt s' e' c = r2c_detached e (tgt s e' c))) /\
      frame_user s s' /\ length (pe (w_pool s')) = length (pe (w_pool s))
  | Err _ _ => False
  end.
Proof.
  intros s s1 e tid row HS SS Ha Hi.
  pose proof (r2c_storage_same_St2 s s1 SS HS) as HS1.
  pose proof (sb3_storage_same_content _ _ SS) as CS. pose proof (r2c_storage_same_tgt _ _ SS) as TS.
  pose proof (sb3_storage_same_frame _ _ SS) as FU.
  pose proof SS as (_ & _ & Epool & Eidx & _).
  assert (Ha1 : alive s1 e = true) by (unfold alive; rewrite Epool; exact Ha).
  assert (Hi1 : nth_error (w_index s1) (fst e) = Some (Some tid, row)) by (rewrite Eidx; exact Hi).
  destruct (r2c_core_spec s1 e tid row HS1 Ha1 Hi1) as (s' & E & P1 & P2 & P3 & P4 & P5 & P6 & _ & P8).
  rewrite E. split; [exact P1|]. split; [rewrite <- (proj1 (CS e)); exact P2|]. split; [exact P3|]. split; [exact P4|].
  split.
  { intros e' Hne. destruct (P5 e' Hne) as (Q1 & Q2 & Q3). destruct (CS e') as (C1 & C2).
    split; [congruence|]. split; [intros c; rewrite Q2; apply C2|]. intros c. rewrite Q3, (TS e' c). reflexivity. }
  split; [apply (sa_frame_user_trans s s1 s' FU P6)|]. rewrite P8, Epool. reflexivity.
Qed.

(** C_remove_entity_spec. Removing a stored entity [e] keeps the invariant; [e] is gone (and its handle
    dead); every other entity keeps its components and values, and every relation target that was [e]
    is the zero entity afterwards, all other targets are unchanged. A failing call (the handle is not
    a stored entity, or a callback of a registered observer panics) leaves the storage untouched. *)
Theorem r2c_remove_entity_spec : forall s e, St2 s ->
  match storage_remove_entity e s with
  | Ok _ s' =>
      St2 s' /\ live s e = true /\ live s' e = false /\ alive s' e = false /\
      (forall e', e' <> e -> live s' e' = live s e' /\ (forall c, val s' e' c = val s e' c) /\
         (forall c, tgt s' e' c = r2c_detached e (tgt s e' c))) /\
      frame_user s s' /\ length (pe (w_pool s')) = length (pe (w_pool s))
  | Err _ s' => r2c_rejected s s' /\
      (live s e = false \/ has_obs s EvRemoveEntity = true \/ has_obs s EvRemoveRelations = true)
  end.
Proof.
  intros s e HS. pose proof HS as (H & _).
  assert (Rj : r2c_rejected s s) by (apply r2c_storage_same_rejected; [exact HS|apply sb3_storage_same_refl]).
  rewrite sb3_rm_unfold.
  destruct (alive s e) eqn:Ha.
  2:{ split; [exact Rj|]. left. destruct (live s e) eqn:Hl; [|reflexivity]. destruct (live_alive s e H Hl) as (Hc & _). congruence. }
  destruct (nth_error (w_index s) (fst e)) as [[[tid|] row]|] eqn:Hi;
    [|split; [exact Rj|left; unfold live, loc; rewrite Hi; reflexivity]|split; [exact Rj|left; unfold live, loc; rewrite Hi; reflexivity]].
  destruct (sb3_alive_index_live _ _ _ _ H Ha Hi) as (t & Ht & Hr & He). rewrite Ht.
  destruct (wf_layout _ H _ _ Ht) as (a & Ea & _). rewrite Ea.
  destruct (has_obs s EvRemoveEntity) eqn:He1; destruct (has_obs s EvRemoveRelations) eqn:He2.
  4:{ rewrite Bool.andb_false_r. cbn [orb whenM]. rewrite (sa_bind_ok (m := ret tt) (s := s) eq_refl).
      pose proof (r2c_after_events s s e tid row HS (sb3_storage_same_refl s) Ha Hi) as P.
      destruct (sb3_rm_core e tid row s) as [u s'|er s']; [exact P|destruct P]. }
  all: match goal with |- match bind ?m ?k ?s0 with _ => _ end =>
    destruct (sb3_bind_pres_case _ _ m k s0 (sb3_pres_events _ _ _ _)) as [(u & s1 & SS & E)|(er & s1 & SS & E)];
      rewrite E; clear E
  end.
  all: try (split; [apply r2c_storage_same_rejected; assumption|first [right; left; reflexivity|right; right; reflexivity]]).
  all: pose proof (r2c_after_events s s1 e tid row HS SS Ha Hi) as P;
       destruct (sb3_rm_core e tid row s1) as [u' s'|er s']; [exact P|destruct P].
Qed.

(** C_remove_never_fails, without observers on the removal events (with observers the call can fail
    only inside a callback, see [r2c_remove_entity_spec]). *)
Corollary r2c_remove_never_fails_noobs : forall s e, St2 s -> live s e = true ->
  has_obs s EvRemoveEntity = false -> has_obs s EvRemoveRelations = false ->
  is_err (storage_remove_entity e s) = false.
Proof.
  intros s e HS Hl H1 H2. pose proof (r2c_remove_entity_spec s e HS) as P.
  destruct (storage_remove_entity e s) as [u s'|er s']; [reflexivity|].
  destruct P as (_ & [Hc|[Hc|Hc]]); congruence.
Qed.

(** The call fails only if the handle is not a stored entity (no observers). *)
Corollary r2c_remove_fails_only_dead_noobs : forall s e, St2 s ->
  has_obs s EvRemoveEntity = false -> has_obs s EvRemoveRelations = false ->
  (is_err (storage_remove_entity e s) = true <-> live s e = false).
Proof.
  intros s e HS H1 H2. pose proof (r2c_remove_entity_spec s e HS) as P.
  destruct (storage_remove_entity e s) as [u s'|er s']; cbn [is_err].
  - destruct P as (_ & Hl & _). split; [discriminate|congruence].
  - destruct P as (_ & [Hc|[Hc|Hc]]); [|congruence|congruence]. split; [intros _; exact Hc|reflexivity].
Qed.

(** Removing a stored entity, said in one piece (no observers on the removal events): the call
    succeeds, the invariant holds afterwards, the entity is gone, nobody else changes except that
    targets that were the removed entity are zero. *)
Corollary r2c_remove_target_detaches_noobs : forall s x, St2 s -> live s x = true ->
  has_obs s EvRemoveEntity = false -> has_obs s EvRemoveRelations = false ->
  exists u s', storage_remove_entity x s = Ok u s' /\ St2 s' /\ live s' x = false /\ alive s' x = false /\
    forall e', e' <> x -> live s' e' = live s e' /\ (forall c, val s' e' c = val s e' c) /\
      (forall c, tgt s' e' c = r2c_detached x (tgt s e' c)).
Proof.
  intros s x HS Hl O1 O2. pose proof (r2c_remove_never_fails_noobs s x HS Hl O1 O2) as Hok.
  pose proof (r2c_remove_entity_spec s x HS) as P.
  destruct (storage_remove_entity x s) as [u s'|er s']; [|discriminate].
  destruct P as (P1 & _ & P3 & P4 & P5 & _). exists u, s'. split; [reflexivity|]. split; [exact P1|]. split; [exact P3|]. split; [exact P4|exact P5].
Qed.

Lemma r2c_tgt_live : forall s e c x, tgt s e c = Some x -> live s e = true.
Proof. intros s e c x H. unfold tgt in H. destruct (live s e); [reflexivity|discriminate]. Qed.

(** ** The theorems are not vacuous

    A reachable world of Rel2Check (three entities, three children of them through relation component
    3) satisfies the hypotheses; the statements of [r2c_ex_by_theorem] are obtained from the THEOREMS,
    not by running the model: removing the parent (2,0) succeeds, the invariant holds afterwards, its
    child (5,0) has the zero target and keeps its value, the sibling's target (3,0) is untouched. *)
Definition r2c_ex_world : W := Properties.Common.exec Rel2Check.r2_cfg (firstn 6 Rel2Check.r2_s1).

Lemma r2c_ex_St2 : St2 r2c_ex_world.
Proof. apply st2_b_sound. vm_compute. reflexivity. Qed.

Lemma r2c_ex_hyps :
  live r2c_ex_world (2, 0%N) = true /\
  tgt r2c_ex_world (5, 0%N) 3 = Some (2, 0%N) /\ tgt r2c_ex_world (6, 0%N) 3 = Some (3, 0%N) /\
  val r2c_ex_world (5, 0%N) 0 = Some 0%Z /\
  has_obs r2c_ex_world EvRemoveEntity = false /\ has_obs r2c_ex_world EvRemoveRelations = false /\
  nth 2 (w_istarget r2c_ex_world) false = true.
Proof. vm_compute. repeat split. Qed.

Example r2c_ex_by_theorem : exists u s', storage_remove_entity (2, 0%N) r2c_ex_world = Ok u s' /\
  St2 s' /\ live s' (2, 0%N) = false /\ live s' (5, 0%N) = true /\
  tgt s' (5, 0%N) 3 = Some zero_ent /\ tgt s' (6, 0%N) 3 = Some (3, 0%N) /\ val s' (5, 0%N) 0 = Some 0%Z.
Proof.
  destruct r2c_ex_hyps as (Hl & T5 & T6 & V5 & O1 & O2 & _).
  destruct (r2c_remove_target_detaches_noobs r2c_ex_world (2, 0%N) r2c_ex_St2 Hl O1 O2) as (u & s' & E & P1 & P3 & _ & P5).
  exists u, s'. split; [exact E|]. split; [exact P1|]. split; [exact P3|].
  assert (N5 : (5, 0%N) <> ((2, 0%N) : ent)) by discriminate. assert (N6 : (6, 0%N) <> ((2, 0%N) : ent)) by discriminate.
  destruct (P5 _ N5) as (L5 & V5' & T5'). destruct (P5 _ N6) as (_ & _ & T6').
  split; [rewrite L5; apply (r2c_tgt_live _ _ _ _ T5)|].
  split; [rewrite T5', T5; reflexivity|]. split; [rewrite T6', T6; reflexivity|rewrite V5'; exact V5].
Qed.

Definition r2c_remove_all :=
  (r2c_rows_spec, r2c_detached_rels, r2c_move_spec, r2c_step_spec, r2c_cleanup_spec, r2c_core_spec,
   r2c_remove_entity_spec, r2c_remove_never_fails_noobs, r2c_remove_fails_only_dead_noobs,
   r2c_remove_target_detaches_noobs, r2c_ex_St2, r2c_ex_hyps, r2c_ex_by_theorem).
Print Assumptions r2c_remove_all.
