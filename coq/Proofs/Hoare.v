(** * Hoare: a small Hoare logic for the state-and-error monad of the model.

    [hoare P m Q E]: from any state satisfying [P], [m] either returns [a] in a state satisfying
    [Q a], or fails (a Go panic) in a state satisfying [E]. The error postcondition is what makes
    "rejected, not absorbed" (C10) statable: the state at the point of failure is constrained. *)
From Ark Require Import Model.Base.

Set Implicit Arguments.

Definition hoare {S A} (P : S -> Prop) (m : M S A) (Q : A -> S -> Prop) (E : S -> Prop) : Prop :=
  forall s, P s -> match m s with Ok a s' => Q a s' | Err _ s' => E s' end.

Lemma hoare_ret {S A} (P : S -> Prop) (a : A) (Q : A -> S -> Prop) E :
  (forall s, P s -> Q a s) -> hoare P (ret a) Q E.
Proof. intros H s Hs; cbn; auto. Qed.

Lemma hoare_fail {S A} (P : S -> Prop) e (Q : A -> S -> Prop) (E : S -> Prop) :
  (forall s, P s -> E s) -> hoare P (fail e) Q E.
Proof. intros H s Hs; cbn; auto. Qed.

Lemma hoare_bind {S A B} (P : S -> Prop) (m : M S A) (k : A -> M S B) (R : A -> S -> Prop) Q E :
  hoare P m R E -> (forall a, hoare (R a) (k a) Q E) -> hoare P (bind m k) Q E.
Proof.
  intros Hm Hk s Hs. unfold bind. specialize (Hm s Hs).
  destruct (m s) as [a s'|e s']; [apply Hk; exact Hm | exact Hm].
Qed.

Lemma hoare_conseq {S A} (P P' : S -> Prop) (m : M S A) (Q Q' : A -> S -> Prop) (E E' : S -> Prop) :
  hoare P' m Q' E' -> (forall s, P s -> P' s) -> (forall a s, Q' a s -> Q a s) -> (forall s, E' s -> E s) ->
  hoare P m Q E.
Proof.
  intros H HP HQ HE s Hs. specialize (H s (HP s Hs)).
  destruct (m s); [apply HQ | apply HE]; exact H.
Qed.

Lemma hoare_get {S} (P : S -> Prop) (Q : S -> S -> Prop) E :
  (forall s, P s -> Q s s) -> hoare P get Q E.
Proof. intros H s Hs; cbn; auto. Qed.

Lemma hoare_put {S} (P : S -> Prop) (s' : S) (Q : unit -> S -> Prop) E :
  (forall s, P s -> Q tt s') -> hoare P (put s') Q E.
Proof. intros H s Hs; cbn; eauto. Qed.

Lemma hoare_modify {S} (P : S -> Prop) (f : S -> S) (Q : unit -> S -> Prop) E :
  (forall s, P s -> Q tt (f s)) -> hoare P (modify f) Q E.
Proof. intros H s Hs; cbn; auto. Qed.

Lemma hoare_guard {S} (P : S -> Prop) (b : bool) e (Q : unit -> S -> Prop) (E : S -> Prop) :
  (forall s, P s -> b = true -> Q tt s) -> (forall s, P s -> b = false -> E s) -> hoare P (guard b e) Q E.
Proof. intros H1 H2 s Hs; destruct b; cbn; [apply (H1 s Hs eq_refl) | apply (H2 s Hs eq_refl)]. Qed.

Lemma hoare_of_opt {S A} (P : S -> Prop) (o : option A) e (Q : A -> S -> Prop) (E : S -> Prop) :
  (forall s a, P s -> o = Some a -> Q a s) -> (forall s, P s -> o = None -> E s) -> hoare P (of_opt o e) Q E.
Proof. intros H1 H2 s Hs; destruct o as [a|]; cbn; [apply (H1 s a Hs eq_refl) | apply (H2 s Hs eq_refl)]. Qed.

(** Loops: an invariant that every iteration re-establishes. *)
Lemma hoare_forM {S A} (I : S -> Prop) (l : list A) (f : A -> M S unit) (E : S -> Prop) :
  (forall x, In x l -> hoare I (f x) (fun _ => I) E) -> hoare I (forM_ l f) (fun _ => I) E.
Proof.
  induction l as [|x l IH]; intros H; cbn [forM_]; [apply hoare_ret; auto|].
  eapply hoare_bind; [apply H; left; reflexivity|]. intros u. apply IH. intros y Hy; apply H; right; exact Hy.
Qed.

Lemma hoare_mapM {S A B} (I : S -> Prop) (l : list A) (f : A -> M S B) (E : S -> Prop) :
  (forall x, In x l -> hoare I (f x) (fun _ => I) E) -> hoare I (mapM l f) (fun _ => I) E.
Proof.
  induction l as [|x l IH]; intros H; cbn [mapM]; [apply hoare_ret; auto|].
  eapply hoare_bind; [apply H; left; reflexivity|]. intros y.
  eapply hoare_bind; [apply IH; intros z Hz; apply H; right; exact Hz|]. intros ys. apply hoare_ret; auto.
Qed.

(** Case analysis on the precondition state (to name the initial state). *)
Lemma hoare_pre_state {S A} (P : S -> Prop) (m : M S A) Q E :
  (forall s0, P s0 -> hoare (fun s => s = s0) m Q E) -> hoare P m Q E.
Proof. intros H s Hs. exact (H s Hs s eq_refl). Qed.
