(** * Rel2Hist: work package E of the relation tier: the relation invariant over HISTORIES
    (worlds WITH relation components). Helper prefix [r2e_].

    Invariant. [Inv2 s n := St2 s /\ r2d_KeysLive s /\ r2e_quiet s /\ issued_ok s n] where [r2e_quiet] says
    that no observer is registered and the world is not locked (facts of every state of a covered history:
    the class contains neither observer registration nor queries; they are part of the invariant and of the
    restriction [rel_core_op], not hidden hypotheses).

    Covered class [rel_core_op]: ONewEntity, OUNew, OUNewRel, OCopy, OUAdd, OUAddRel, OURemove, OUExchange,
    OWrite, OUSetRel, ORemoveEntity, OShrink, OAlive, OHas, OGetRel, OIDs, OGet, OStats. The only requirement
    on a line is that the component ids it ADDS are registered ([rel_op_ids]); handles may be stale, -1 or
    unknown, relation lists may be arbitrary (duplicates, non-relation components, components not
    added, dead targets).

    Main results.
    - [r2e_init]: the initial world of any configuration (any kinds, capacities >= 1) satisfies [Inv2 _ 0];
    - [step_inv2]: one covered step keeps [Inv2] in BOTH outcomes (the state at a recovered panic included),
      keeps the registry, and issues at most one handle, which was not stored before; [creation_fresh2];
    - [reachable_inv2]; C04 over histories: [targets_always_zero_or_alive], [remove_target_detaches(_step)],
      [target_is_last_assigned_setrel] (any list), [target_is_last_assigned_new] / [_add] (valid lists);
      [stale_handle_rejected2].
    - Per operation, for every state satisfying [St2] (not only reachable ones):
      [r2e_goc_any] / [r2e_find_add] / [r2e_find_exchange] (GetTable-or-create and the finders with ARBITRARY
      relation lists whose targets are proper handles), [r2e_new_entity_any], [r2e_add_any], [r2e_exchange_any]
      (the invariant is kept whether the call fails or -- as happens for some malformed lists -- succeeds);
      [r2e_remove_entity_spec] ([r2c_remove_entity_spec] plus: [r2d_KeysLive] is kept, no lookup key with the
      removed id remains, the pool is the recycled one; the cleanup loops are redone with the keys:
      [r2e_step_KL], [r2e_inner_loop], [r2e_arch_spec], [r2e_outer_loop], [r2e_cleanup_spec]).
    - [r2d_KeysLive] for packages A and B follows from a purely syntactic frame ([r2e_E]: no operation but
      FreeTable / Shrink ever leaves an EMPTY list under a lookup key, [r2e_fkp_*]) and the invariant of the
      final state ([r2e_KeysLive_E]); the same calculus gives side state, user fields and pool.

    Findings.
    - (refuted) Reset cannot be part of the class: see Part 8 ([r2e_reset_refuted_handles]: handles issued before
      a Reset alias later entities -- the documented contract of Reset).
    - (defect found here, REPAIRED in /repo) a relation call rejected by createTable AFTER its archetype was
      created (e.g. a relation named for a plain component) left an archetype without table, and a later Reset
      panicked half-way and corrupted the world (confirmed on the Go code: Unsafe.NewEntityRel([A], A->zero)
      panicked, NewEntity(B), Reset() panicked "index out of range [0] with length 0", and afterwards a query over
      B yielded the stale row and the new entity). createArchetype now creates the table of an archetype without
      relation components together with the archetype; [r2e_reset_refuted_table] is the regression example, and
      Part 9 proves the clause [archs_tabled_norel] over all covered histories ([Inv2T], [step_inv2T],
      [reachable_inv2T]) and that Reset succeeds in every state of such a history ([r2e_reset_step],
      [reachable_reset_succeeds]; [r2e_reset_step_partial] is the statement for arbitrary [Inv2] states). *)
From Ark Require Import Model.Base Model.Mask Model.Pool Model.Util Model.World Model.Run.
From Ark Require Import Proofs.TableProofs Proofs.MaskProofs Proofs.Hoare Proofs.WF Proofs.StorageA Proofs.StorageBDefs
  Proofs.StorageB_sb1 Proofs.StorageB_sb2 Proofs.StorageB_sb3 Proofs.LockWorld Proofs.StorageC Proofs.RelProofs Proofs.BatchProofs
  Proofs.Rel2Defs Proofs.Rel2Struct Proofs.Rel2Remove Proofs.Rel2SetRel Proofs.Rel2Ops Proofs.Rel2Maint.
From Ark Require Properties.Common Proofs.Rel2Check.
From RecordUpdate Require Import RecordSet.
Import RecordSetNotations.
From Coq Require Import Lia.

(* ================================================================================================ *)
(** * Part 1: a small frame calculus for computations *)

Section r2e_pres.
Variable R : W -> W -> Prop.
Hypothesis Rrefl : forall s, R s s.
Hypothesis Rtrans : forall s1 s2 s3, R s1 s2 -> R s2 s3 -> R s1 s3.

Definition r2e_pres {A} (m : MW A) : Prop := forall s, R s (state_of (m s)).

Lemma r2e_pres_ro : forall A (m : MW A), readonly m -> r2e_pres m.
Proof. intros A m H s. rewrite (H s). apply Rrefl. Qed.

Lemma r2e_pres_bind : forall A B (m : MW A) (k : A -> MW B), r2e_pres m -> (forall a, r2e_pres (k a)) -> r2e_pres (bind m k).
Proof.
  intros A B m k Hm Hk s. unfold bind. specialize (Hm s). destruct (m s) as [a s1|er s1]; cbn [state_of] in Hm.
  - apply (Rtrans s s1 _ Hm). apply Hk.
  - exact Hm.
Qed.

Lemma r2e_pres_getbind : forall A (k : W -> MW A), (forall s, R s (state_of (k s s))) -> r2e_pres (bind get k).
Proof. intros A k H s. unfold bind, get. apply H. Qed.

Lemma r2e_pres_modify : forall f : W -> W, (forall s, R s (f s)) -> r2e_pres (modify f).
Proof. intros f H s. apply H. Qed.

Lemma r2e_pres_forM : forall A (l : list A) (f : A -> MW unit), (forall a, r2e_pres (f a)) -> r2e_pres (forM_ l f).
Proof.
  intros A l f H. induction l as [|x l IH]; cbn [forM_]; [apply r2e_pres_ro, readonly_ret|].
  apply r2e_pres_bind; [apply H|intros _; exact IH].
Qed.

Lemma r2e_pres_whenM : forall b m, r2e_pres m -> r2e_pres (whenM b m).
Proof. intros b m H. destruct b; [exact H|apply r2e_pres_ro, readonly_ret]. Qed.
End r2e_pres.

(** ** The relations tracked *)

Definition r2e_noobs (s : W) : Prop := forall ev, has_obs s ev = false.

(** a lookup key with an EMPTY table list was one before (no operation but FreeTable / Shrink empties a list) *)
Definition r2e_E (s s' : W) : Prop :=
  forall aid a' k, nth_error (w_archs s') aid = Some a' -> afind k (a_tgttabs a') = Some [] ->
    exists a, nth_error (w_archs s) aid = Some a /\ afind k (a_tgttabs a) = Some [].

(** every lookup key was one before *)
Definition r2e_Ksub (s s' : W) : Prop :=
  forall aid a' k l', nth_error (w_archs s') aid = Some a' -> afind k (a_tgttabs a') = Some l' ->
    exists a l, nth_error (w_archs s) aid = Some a /\ afind k (a_tgttabs a) = Some l.

Lemma r2e_E_same : forall s s', w_archs s' = w_archs s -> r2e_E s s'.
Proof. intros s s' E aid a' k Ha Hk. rewrite E in Ha. exists a'. split; assumption. Qed.
Lemma r2e_E_refl : forall s, r2e_E s s.
Proof. intros s. apply r2e_E_same. reflexivity. Qed.
Lemma r2e_E_trans : forall s1 s2 s3, r2e_E s1 s2 -> r2e_E s2 s3 -> r2e_E s1 s3.
Proof. intros s1 s2 s3 H1 H2 aid a' k Ha Hk. destruct (H2 aid a' k Ha Hk) as (a2 & Ha2 & Hk2). apply (H1 aid a2 k Ha2 Hk2). Qed.

Lemma r2e_Ksub_same : forall s s', w_archs s' = w_archs s -> r2e_Ksub s s'.
Proof. intros s s' E aid a' k l' Ha Hk. rewrite E in Ha. exists a', l'. split; assumption. Qed.
Lemma r2e_Ksub_refl : forall s, r2e_Ksub s s.
Proof. intros s. apply r2e_Ksub_same. reflexivity. Qed.
Lemma r2e_Ksub_trans : forall s1 s2 s3, r2e_Ksub s1 s2 -> r2e_Ksub s2 s3 -> r2e_Ksub s1 s3.
Proof. intros s1 s2 s3 H1 H2 aid a' k l' Ha Hk. destruct (H2 aid a' k l' Ha Hk) as (a2 & l2 & Ha2 & Hk2). apply (H1 aid a2 k l2 Ha2 Hk2). Qed.

(** The frame of the pool-keeping parts of every covered operation, in a world without observers:
    lock / log / observer manager, the user-side fields, the pool, and the lookup keys. *)
Definition r2e_fk (s s' : W) : Prop :=
  r2e_noobs s -> side_same s s' /\ frame_user s s' /\ r2e_E s s' /\ w_pool s' = w_pool s.

Lemma r2e_noobs_side : forall s s', side_same s s' -> r2e_noobs s -> r2e_noobs s'.
Proof. intros s s' H Hn ev. rewrite (r2b_has_obs_side s s' ev H). apply Hn. Qed.

Lemma r2e_fk_refl : forall s, r2e_fk s s.
Proof.
  intros s _. split; [apply sa_side_same_refl|]. split; [apply sa_frame_user_refl|]. split; [apply r2e_E_refl|reflexivity].
Qed.

Lemma r2e_fk_trans : forall s1 s2 s3, r2e_fk s1 s2 -> r2e_fk s2 s3 -> r2e_fk s1 s3.
Proof.
  intros s1 s2 s3 H1 H2 Hn. destruct (H1 Hn) as (A1 & A2 & A3 & A4).
  destruct (H2 (r2e_noobs_side s1 s2 A1 Hn)) as (B1 & B2 & B3 & B4).
  split; [eapply sa_side_same_trans; eassumption|]. split; [eapply sa_frame_user_trans; eassumption|].
  split; [eapply r2e_E_trans; eassumption|congruence].
Qed.

Definition r2e_fkp {A} (m : MW A) : Prop := r2e_pres r2e_fk m.

Lemma r2e_fk_intro : forall s s', side_same s s' -> frame_user s s' -> w_archs s' = w_archs s -> w_pool s' = w_pool s -> r2e_fk s s'.
Proof. intros s s' H1 H2 H3 H4 _. split; [exact H1|]. split; [exact H2|]. split; [apply r2e_E_same; exact H3|exact H4]. Qed.

Lemma r2e_fkp_ro : forall A (m : MW A), readonly m -> r2e_fkp m.
Proof. intros A m H. apply (r2e_pres_ro r2e_fk r2e_fk_refl). exact H. Qed.
Lemma r2e_fkp_bind : forall A B (m : MW A) (k : A -> MW B), r2e_fkp m -> (forall a, r2e_fkp (k a)) -> r2e_fkp (bind m k).
Proof. intros A B m k. apply (r2e_pres_bind r2e_fk r2e_fk_trans). Qed.
Lemma r2e_fkp_forM : forall A (l : list A) (f : A -> MW unit), (forall a, r2e_fkp (f a)) -> r2e_fkp (forM_ l f).
Proof. intros A l f. apply (r2e_pres_forM r2e_fk r2e_fk_refl r2e_fk_trans). Qed.
Lemma r2e_fkp_whenM : forall b m, r2e_fkp m -> r2e_fkp (whenM b m).
Proof. intros b m. apply (r2e_pres_whenM r2e_fk r2e_fk_refl). Qed.
Lemma r2e_fkp_getbind : forall A (k : W -> MW A), (forall s, r2e_fk s (state_of (k s s))) -> r2e_fkp (bind get k).
Proof. intros A k. apply (r2e_pres_getbind r2e_fk). Qed.

(** a [modify] that touches neither side state, user fields, archetypes nor pool *)
Ltac r2e_fk_mod :=
  apply r2e_fk_intro; [unfold side_same; cbn; repeat split|unfold frame_user; cbn; repeat split|reflexivity|reflexivity].

Lemma r2e_fkp_modT : forall i f, r2e_fkp (modT i f).
Proof. intros i f s. unfold modT, modify. cbn [state_of]. r2e_fk_mod. Qed.
Lemma r2e_fkp_setT : forall i t, r2e_fkp (setT i t).
Proof. intros. apply r2e_fkp_modT. Qed.
Lemma r2e_fkp_getT : forall i, r2e_fkp (getT i).
Proof. intros. apply r2e_fkp_ro, readonly_getT. Qed.
Lemma r2e_ro_getA : forall i, readonly (getA i).
Proof. intros. unfold getA. ro. Qed.
Lemma r2e_fkp_getA : forall i, r2e_fkp (getA i).
Proof. intros. apply r2e_fkp_ro, r2e_ro_getA. Qed.

Ltac r2e_fk_step :=
  match goal with
  | |- r2e_fkp (ret _) => apply r2e_fkp_ro, readonly_ret
  | |- r2e_fkp (fail _) => apply r2e_fkp_ro, readonly_fail
  | |- r2e_fkp get => apply r2e_fkp_ro, readonly_get
  | |- r2e_fkp (guard _ _) => apply r2e_fkp_ro, readonly_guard
  | |- r2e_fkp (of_opt _ _) => apply r2e_fkp_ro, readonly_of_opt
  | |- r2e_fkp (getT _) => apply r2e_fkp_getT
  | |- r2e_fkp (getA _) => apply r2e_fkp_getA
  | |- r2e_fkp (modT _ _) => apply r2e_fkp_modT
  | |- r2e_fkp (setT _ _) => apply r2e_fkp_setT
  | |- r2e_fkp (get_index _) => apply r2e_fkp_ro, readonly_get_index
  | |- r2e_fkp check_locked => apply r2e_fkp_ro, sc_ro_check_locked
  | |- r2e_fkp (whenM _ _) => apply r2e_fkp_whenM
  | |- r2e_fkp (forM_ _ _) => apply r2e_fkp_forM; intros ?
  | |- r2e_fkp (bind _ _) => apply r2e_fkp_bind; [|intros ?]
  | |- r2e_fkp (let '(_, _) := ?x in _) => destruct x
  | |- r2e_fkp (match ?x with _ => _ end) => destruct x
  | |- r2e_fkp (if ?x then _ else _) => destruct x
  end.
Ltac r2e_fk_tac := repeat r2e_fk_step.

Lemma r2e_fkp_tbl_addM : forall tid e, r2e_fkp (tbl_addM tid e).
Proof. intros. unfold tbl_addM. r2e_fk_tac. Qed.

Lemma r2e_fkp_set_index : forall id v, r2e_fkp (set_index id v).
Proof.
  intros id v s. unfold set_index, modify. cbn [state_of]. destruct (Nat.eqb id (length (w_index s))); r2e_fk_mod.
Qed.

Lemma r2e_fkp_set_index_direct : forall e tid row, r2e_fkp (set_index_direct e tid row).
Proof. intros e tid row s. unfold set_index_direct, modify. cbn [state_of]. r2e_fk_mod. Qed.

Lemma r2e_fkp_copy_row : forall old new m row nidx, r2e_fkp (copy_row old new m row nidx).
Proof. intros. unfold copy_row. r2e_fk_tac. Qed.

Lemma r2e_fkp_copy_all : forall src dst row nidx, r2e_fkp (copy_all src dst row nidx).
Proof. intros. unfold copy_all. r2e_fk_tac. Qed.

Lemma r2e_fkp_remove_row : forall tid row, r2e_fkp (remove_row tid row).
Proof.
  intros. unfold remove_row. r2e_fk_tac.
  all: try (intros s0; unfold modify; cbn [state_of]; r2e_fk_mod).
Qed.

Lemma r2e_fkp_register_targets : forall rels, r2e_fkp (register_targets rels).
Proof.
  intros. unfold register_targets. r2e_fk_tac. intros s0. unfold modify. cbn [state_of]. r2e_fk_mod.
Qed.

(** ** Archetype and table creation *)

Lemma r2e_fkp_cache_add_table : forall tid t am, r2e_fkp (cache_add_table tid t am).
Proof.
  intros. unfold cache_add_table. r2e_fk_tac.
  intros s0. unfold modify. cbn [state_of]. r2e_fk_mod.
Qed.

Lemma r2e_fkp_create_archetype_bare : forall m, r2e_fkp (create_archetype_bare m).
Proof.
  intros m. unfold create_archetype_bare. apply r2e_fkp_getbind. intros s _.
  unfold bind, put, ret. cbn [state_of].
  split; [unfold side_same; cbn; repeat split|]. split; [unfold frame_user; cbn; repeat split|]. split; [|reflexivity].
  intros aid a' k Ha Hk. cbn in Ha.
  apply sa_nth_error_snoc in Ha. destruct Ha as [[_ Ha]|[_ ->]].
  - exists a'. split; assumption.
  - cbn in Hk. discriminate.
Qed.

(** AddTable never leaves or creates an empty list under a key it touches *)
Lemma r2e_fold_aappend_new_E : forall tid ks (m : list (nat * list nat)) k,
  afind k (fold_left (fun m0 k0 => aappend_new k0 tid m0) ks m) = Some [] -> afind k m = Some [].
Proof.
  intros tid ks. induction ks as [|k0 ks IH]; intros m k H; [exact H|]. cbn [fold_left] in H.
  apply IH in H. rewrite r2_afind_aappend_new in H. destruct (Nat.eqb k k0); [|exact H]. exfalso.
  injection H as H. destruct (memb tid (r2_look k0 m)) eqn:Em.
  - rewrite H in Em. discriminate.
  - destruct (r2_look k0 m); discriminate.
Qed.

Lemma r2e_arch_add_table_E : forall a tid t k,
  afind k (a_tgttabs (arch_add_table a tid t)) = Some [] -> afind k (a_tgttabs a) = Some [].
Proof.
  intros a tid t k H. unfold arch_add_table in H. destruct (negb (arch_has_rels a)); [exact H|].
  rewrite r2_atc_tgttabs in H. apply r2e_fold_aappend_new_E in H. exact H.
Qed.

Lemma r2e_fk_modA : forall aid g, (forall a k, afind k (a_tgttabs (g a)) = Some [] -> afind k (a_tgttabs a) = Some []) ->
  r2e_fkp (modA aid g).
Proof.
  intros aid g Hg s _. unfold modA, modify. cbn [state_of].
  split; [unfold side_same; cbn; repeat split|]. split; [unfold frame_user; cbn; repeat split|]. split; [|reflexivity].
  intros i a' k Ha Hk. cbn in Ha. rewrite nth_error_updf in Ha. destruct (Nat.eqb_spec aid i) as [<-|Hne].
  - destruct (nth_error (w_archs s) aid) as [a|] eqn:Ea; [|discriminate]. cbn in Ha. injection Ha as <-.
    exists a. split; [reflexivity|apply Hg; exact Hk].
  - exists a'. split; assumption.
Qed.

Lemma r2e_fkp_create_table : forall aid rels, r2e_fkp (create_table aid rels).
Proof.
  intros aid rels. unfold create_table. r2e_fk_tac.
  all: try apply r2e_fkp_register_targets; try apply r2e_fkp_cache_add_table.
  all: try solve [apply r2e_fkp_ro; unfold check_rel; ro].
  all: try (apply r2e_fk_modA; intros ? ? Hk; first [exact Hk|apply (r2e_arch_add_table_E _ _ _ _ Hk)]).
  all: try (intros s0; unfold modify; cbn [state_of]; r2e_fk_mod).
Qed.

(* createArchetype (as repaired): the archetype record, then the table of a relation-free archetype *)
Lemma r2e_fkp_create_archetype : forall m, r2e_fkp (create_archetype m).
Proof.
  intros m. unfold create_archetype. r2e_fk_tac.
  all: first [apply r2e_fkp_create_archetype_bare|apply r2e_fkp_create_table].
Qed.

Lemma r2e_fkp_find_or_create_arch : forall m, r2e_fkp (find_or_create_arch m).
Proof.
  intros m. unfold find_or_create_arch. apply r2e_fkp_getbind. intros s.
  destruct (find_arch s m); [apply r2e_fk_refl|apply r2e_fkp_create_archetype].
Qed.

Lemma r2e_ro_find_exact : forall tabs rels, readonly (fun s => find_exact s tabs rels).
Proof.
  intros tabs rels s. induction tabs as [|t rest IH]; cbn [find_exact]; [reflexivity|].
  destruct (nth_error (w_tables s) t); [|reflexivity]. destruct (tbl_matches_exact _ _); [reflexivity|exact IH|reflexivity].
Qed.

Lemma r2e_ro_arch_get_table : forall a rels, readonly (arch_get_table a rels).
Proof.
  intros a rels. unfold arch_get_table. destruct (a_tables a); [apply readonly_ret|].
  destruct (negb (arch_has_rels a)); [apply readonly_ret|]. ro. destruct rels as [|[c tg] rest]; ro.
  destruct (afind _ _); [apply r2e_ro_find_exact|apply readonly_ret].
Qed.

Lemma r2e_fkp_goc : forall aid rels, r2e_fkp (get_or_create_table aid rels).
Proof.
  intros. unfold get_or_create_table. r2e_fk_tac; [apply r2e_fkp_ro, r2e_ro_arch_get_table|apply r2e_fkp_create_table].
Qed.

Lemma r2e_ro_gf_add : forall st ids m, readonly (gf_add st ids m).
Proof.
  intros st ids. induction ids as [|c t IH]; intros m; cbn [gf_add]; [apply readonly_ret|].
  destruct (mk_get m c); [apply readonly_fail|]. destruct (match st with Some st0 => mk_get st0 c | None => false end); [apply readonly_fail|apply IH].
Qed.
Lemma r2e_ro_gf_remove : forall ids m, readonly (gf_remove ids m).
Proof.
  intros ids. induction ids as [|c t IH]; intros m; cbn [gf_remove]; [apply readonly_ret|].
  destruct (mk_get m c); [apply IH|apply readonly_fail].
Qed.

Lemma r2e_fkp_find_add : forall old add rels m0, r2e_fkp (find_or_create_table_add old add rels m0).
Proof.
  intros. unfold find_or_create_table_add. r2e_fk_tac; try apply r2e_fkp_goc; try apply r2e_fkp_find_or_create_arch.
  all: apply r2e_fkp_ro, r2e_ro_gf_add.
Qed.
Lemma r2e_fkp_find_remove : forall old rem m0, r2e_fkp (find_or_create_table_remove old rem m0).
Proof.
  intros. unfold find_or_create_table_remove. r2e_fk_tac; try apply r2e_fkp_goc; try apply r2e_fkp_find_or_create_arch.
  all: apply r2e_fkp_ro, r2e_ro_gf_remove.
Qed.
Lemma r2e_fkp_find_exchange : forall old add rem rels m0, r2e_fkp (find_or_create_table old add rem rels m0).
Proof.
  intros. unfold find_or_create_table. r2e_fk_tac; try apply r2e_fkp_goc; try apply r2e_fkp_find_or_create_arch.
  all: first [apply r2e_fkp_ro, r2e_ro_gf_add|apply r2e_fkp_ro, r2e_ro_gf_remove].
Qed.

(** ** Event dispatch without observers *)

Lemma r2e_fkp_fire_create : forall e m, r2e_fkp (fire_create_entity_if_has e m).
Proof.
  intros e m. unfold fire_create_entity_if_has. apply r2e_fkp_getbind. intros s Hn. rewrite (Hn EvCreateEntity).
  apply r2e_fk_refl. exact Hn.
Qed.
Lemma r2e_fkp_fire_create_rel : forall e m, r2e_fkp (fire_create_entity_rel_if_has e m).
Proof.
  intros e m. unfold fire_create_entity_rel_if_has. apply r2e_fkp_getbind. intros s Hn. rewrite (Hn EvAddRelations).
  apply r2e_fk_refl. exact Hn.
Qed.
Lemma r2e_fkp_fire_add : forall evt e o n, r2e_fkp (fire_add_if_has evt e o n).
Proof.
  intros evt e o n. unfold fire_add_if_has. apply r2e_fkp_getbind. intros s Hn. rewrite (Hn evt).
  apply r2e_fk_refl. exact Hn.
Qed.
Lemma r2e_fkp_fire_remove_events : forall e o n rr, r2e_fkp (fire_remove_events e o n rr).
Proof.
  intros e o n rr. unfold fire_remove_events. apply r2e_fkp_getbind. intros s Hn.
  rewrite (Hn EvRemoveComponents), (Hn EvRemoveRelations), andb_false_r. cbn [orb whenM].
  apply r2e_fk_refl. exact Hn.
Qed.

(** ** The pool-keeping operations *)

Lemma r2e_fkp_arch_mask : forall tid, r2e_fkp (arch_mask_of_table tid).
Proof. intros. apply r2e_fkp_ro, sc_ro_arch_mask. Qed.

Lemma r2e_fkp_w_add : forall e add rels, r2e_fkp (w_add e add rels).
Proof.
  intros. unfold w_add. r2e_fk_tac.
  all: first [apply r2e_fkp_find_add|apply r2e_fkp_tbl_addM|apply r2e_fkp_copy_row|apply r2e_fkp_remove_row
             |apply r2e_fkp_set_index_direct|apply r2e_fkp_register_targets|apply r2e_fkp_arch_mask].
Qed.

Lemma r2e_fkp_w_remove : forall e rem, r2e_fkp (w_remove e rem).
Proof.
  intros. unfold w_remove. r2e_fk_tac.
  all: first [apply r2e_fkp_find_remove|apply r2e_fkp_tbl_addM|apply r2e_fkp_copy_row|apply r2e_fkp_remove_row
             |apply r2e_fkp_set_index_direct|apply r2e_fkp_fire_remove_events|apply r2e_fkp_arch_mask].
Qed.

Lemma r2e_fkp_w_exchange : forall e add rem rels, r2e_fkp (w_exchange e add rem rels).
Proof.
  intros. unfold w_exchange. r2e_fk_tac.
  all: first [apply r2e_fkp_find_exchange|apply r2e_fkp_tbl_addM|apply r2e_fkp_copy_row|apply r2e_fkp_remove_row
             |apply r2e_fkp_set_index_direct|apply r2e_fkp_register_targets|apply r2e_fkp_fire_remove_events|apply r2e_fkp_arch_mask].
Qed.

Lemma r2e_ro_xgo : forall t rels tg cm ch, readonly (rl_xgo t rels tg cm ch).
Proof.
  intros t rels. induction rels as [|[c x] rest IH]; intros tg cm ch; cbn [rl_xgo]; [apply readonly_ret|]. fold (rl_xgo t).
  destruct (tbl_colidx t c); [|apply readonly_fail]. destruct (negb _); [apply readonly_fail|].
  destruct (nth_error tg n); [|apply readonly_fail]. destruct (ent_eqb x e); apply IH.
Qed.

Lemma r2e_ro_exchange_targets : forall t rels, readonly (exchange_targets t rels).
Proof.
  intros t rels. rewrite rl_exchange_targets_unfold. ro; [apply r2e_ro_xgo|]. destruct a0 as [[tg cm] ch]. destruct (negb ch); apply readonly_ret.
Qed.

Lemma r2e_fkp_w_set_relations : forall e rels, r2e_fkp (w_set_relations e rels).
Proof.
  intros e rels. unfold w_set_relations.
  apply r2e_fkp_bind; [apply r2e_fkp_ro, sc_ro_check_locked|]. intros _.
  apply r2e_fkp_bind; [apply r2e_fkp_ro, readonly_get|]. intros s0.
  apply r2e_fkp_bind; [apply r2e_fkp_ro, readonly_guard|]. intros _.
  apply r2e_fkp_bind; [apply r2e_fkp_ro, readonly_guard|]. intros _.
  apply r2e_fkp_bind; [apply r2e_fkp_ro, readonly_get_index|]. intros [otid row].
  apply r2e_fkp_bind; [apply r2e_fkp_getT|]. intros ot.
  apply r2e_fkp_bind; [apply r2e_fkp_ro, r2e_ro_exchange_targets|]. intros [[newrels cm]|]; [|apply r2e_fkp_ro, readonly_ret].
  apply r2e_fkp_bind; [apply r2e_fkp_goc|]. intros ntid.
  apply r2e_fkp_bind; [apply r2e_fkp_arch_mask|]. intros nm.
  apply r2e_fkp_getbind. intros s Hn. rewrite (Hn EvRemoveRelations). cbn [whenM].
  rewrite (sa_bind_ok (m := ret tt) (s := s) eq_refl).
  revert s Hn. change (r2e_fkp (nidx <- tbl_addM ntid e;; copy_all otid ntid row nidx;;; remove_row otid row;;;
      set_index_direct e ntid nidx;;; register_targets rels;;; s1 <- get;;
      whenM (has_obs s1 EvAddRelations) (_ <- fire_set EvAddRelations e cm nm true;; ret tt))).
  apply r2e_fkp_bind; [apply r2e_fkp_tbl_addM|]. intros nidx.
  apply r2e_fkp_bind; [apply r2e_fkp_copy_all|]. intros _.
  apply r2e_fkp_bind; [apply r2e_fkp_remove_row|]. intros _.
  apply r2e_fkp_bind; [apply r2e_fkp_set_index_direct|]. intros _.
  apply r2e_fkp_bind; [apply r2e_fkp_register_targets|]. intros _.
  apply r2e_fkp_getbind. intros s Hn. rewrite (Hn EvAddRelations). cbn [whenM]. apply r2e_fk_refl. exact Hn.
Qed.

(** ** Operations that take an id from the pool *)

Definition r2e_fc (s s' : W) : Prop :=
  r2e_noobs s -> side_same s s' /\ frame_user s s' /\ r2e_E s s' /\ sc_pcreate (w_pool s) (w_pool s').

Lemma r2e_fc_of_fk : forall s s', r2e_fk s s' -> r2e_fc s s'.
Proof. intros s s' H Hn. destruct (H Hn) as (A & B & C & D). repeat (split; [assumption|]). rewrite D. apply sc_pcreate_refl. Qed.

Lemma r2e_fk_fc_trans : forall s1 s2 s3, r2e_fk s1 s2 -> r2e_fc s2 s3 -> r2e_fc s1 s3.
Proof.
  intros s1 s2 s3 H1 H2 Hn. destruct (H1 Hn) as (A1 & A2 & A3 & A4).
  destruct (H2 (r2e_noobs_side s1 s2 A1 Hn)) as (B1 & B2 & B3 & B4).
  split; [eapply sa_side_same_trans; eassumption|]. split; [eapply sa_frame_user_trans; eassumption|].
  split; [eapply r2e_E_trans; eassumption|]. rewrite <- A4. exact B4.
Qed.

Lemma r2e_fc_bind_l : forall A B (m : MW A) (k : A -> MW B), r2e_fkp m ->
  (forall a s1, r2e_fc s1 (state_of (k a s1))) -> forall s, r2e_fc s (state_of (bind m k s)).
Proof.
  intros A B m k Hm Hk s. unfold bind. specialize (Hm s). destruct (m s) as [a s1|er s1]; cbn [state_of] in Hm.
  - apply (r2e_fk_fc_trans s s1 _ Hm). apply Hk.
  - apply r2e_fc_of_fk. exact Hm.
Qed.

Lemma r2e_fc_getM : forall A (k : ent -> MW A), (forall e, r2e_fkp (k e)) -> forall s, r2e_fc s (state_of (bind pool_getM k s)).
Proof.
  intros A k Hk s Hn. unfold pool_getM, bind, get, put, ret.
  pose proof (sc_pcreate_get (w_pool s)) as Hp. destruct (pool_get (w_pool s)) as [e p']. cbn [snd] in Hp.
  set (s1 := s <| w_pool := p' |>).
  assert (Hn1 : r2e_noobs s1) by (intros ev; apply Hn).
  destruct (Hk e s1 Hn1) as (A1 & A2 & A3 & A4).
  split; [eapply sa_side_same_trans; [|exact A1]; unfold side_same; cbn; repeat split|].
  split; [eapply sa_frame_user_trans; [|exact A2]; unfold frame_user; cbn; repeat split|].
  split; [eapply r2e_E_trans; [|exact A3]; apply r2e_E_same; reflexivity|].
  rewrite A4. exact Hp.
Qed.

Lemma r2e_fc_new_entity : forall ids rels s, r2e_fc s (state_of (new_entity ids rels s)).
Proof.
  intros ids rels. unfold new_entity.
  apply r2e_fc_bind_l; [apply r2e_fkp_ro, sc_ro_check_locked|]. intros _.
  apply r2e_fc_bind_l; [apply r2e_fkp_find_add|]. intros [[tid aid] m].
  apply r2e_fc_getM. intros e. r2e_fk_tac.
  all: first [apply r2e_fkp_tbl_addM|apply r2e_fkp_set_index|apply r2e_fkp_register_targets].
Qed.

Lemma r2e_fc_create_entity : forall tid s, r2e_fc s (state_of (create_entity tid s)).
Proof.
  intros tid. unfold create_entity. apply r2e_fc_getM. intros e. r2e_fk_tac.
  all: first [apply r2e_fkp_tbl_addM|apply r2e_fkp_set_index|idtac].
  intros s0. unfold modify. cbn [state_of]. r2e_fk_mod.
Qed.

Lemma r2e_fc_copy_entity : forall e s, r2e_fc s (state_of (w_copy_entity e s)).
Proof.
  intros e. unfold w_copy_entity.
  apply r2e_fc_bind_l; [apply r2e_fkp_ro, sc_ro_check_locked|]. intros _.
  apply r2e_fc_bind_l; [apply r2e_fkp_ro, readonly_get|]. intros s0.
  apply r2e_fc_bind_l; [apply r2e_fkp_ro, readonly_guard|]. intros _.
  apply r2e_fc_getM. intros ne. r2e_fk_tac.
  all: first [apply r2e_fkp_tbl_addM|apply r2e_fkp_set_index|apply r2e_fkp_copy_all|apply r2e_fkp_fire_create|apply r2e_fkp_fire_create_rel].
Qed.

(* ================================================================================================ *)
(** * Part 2: the invariant over histories *)

(** No observer is registered and the world is not locked (no query is open): the covered class
    contains neither observer registration nor queries, so both are facts of every reachable state. *)
Definition r2e_quiet (s : W) : Prop := r2e_noobs s /\ is_locked s = false.

Definition Inv2 (s : W) (n : nat) : Prop := St2 s /\ r2d_KeysLive s /\ r2e_quiet s /\ issued_ok s n.

Lemma r2e_quiet_side : forall s s', side_same s s' -> r2e_quiet s -> r2e_quiet s'.
Proof.
  intros s s' H (Hn & Hl). split; [apply (r2e_noobs_side s s' H Hn)|].
  destruct H as (E & _). unfold is_locked. rewrite E. exact Hl.
Qed.

(** [r2d_KeysLive] across an operation that empties no lookup list and removes nobody *)
Lemma r2e_KeysLive_E : forall s s', St2 s' -> r2d_KeysLive s -> r2e_E s s' ->
  (forall x, live s x = true -> live s' x = true) -> r2d_KeysLive s'.
Proof.
  intros s s' (HW & (HR & _) & _) HK HE HL aid a' k l Ha Hk. destruct l as [|tid l0].
  - destruct (HE aid a' k Ha Hk) as (a & Ha0 & Hk0). destruct (HK aid a k [] Ha0 Hk0) as [H0|(g & Hg)]; [left; exact H0|].
    right. exists g. apply HL. exact Hg.
  - destruct (ri_tgttabs _ _ HR aid a' k _ Ha Hk) as (_ & Hall).
    destruct (Hall tid (or_introl eq_refl)) as (t & Ht & (i & g & Hrc & Hg) & Hfr).
    assert (Hf : t_free t = false) by (destruct (t_free t); [destruct (Hfr eq_refl) as ([] & _)|reflexivity]).
    destruct (wf_arch_tables _ HW aid a' tid Ha) as (t' & Ht' & Earch).
    { right. right. right. exists k, (tid :: l0). split; [exact Hk|left; reflexivity]. }
    rewrite Ht in Ht'. injection Ht' as <-.
    pose proof Ha as Hat. rewrite <- Earch in Hat.
    destruct (r2_isrel_len s' aid a' HW Ha) as (LI & _).
    assert (Hci : exists c, nth_error (a_comps a') i = Some c).
    { destruct (nth_error (a_comps a') i) as [c|] eqn:E; [exists c; reflexivity|].
      apply nth_error_None in E. pose proof (sa_nth_error_lt _ _ _ _ Hrc). lia. }
    destruct Hci as (c & Hci).
    destruct (ri_shape _ _ HR tid t a' Ht Hat) as (_ & S2 & _).
    assert (Hin : In (c, (k, g)) (t_rels t)) by (apply S2; exists i; repeat split; assumption).
    destruct (ri_targets_ok _ _ HR tid t (c, (k, g)) Ht Hf Hin) as [Hz|[Hl|[]]].
    + left. cbn [snd] in Hz. injection Hz as -> _. reflexivity.
    + right. exists g. exact Hl.
Qed.

(** ** Handles *)

Lemma r2e_handle_alive_live : forall s n h e, WF s -> issued_ok s n -> handle s h = Some e -> alive s e = true -> live s e = true.
Proof.
  intros s n h e HW (I1 & _) Hh Ha. unfold handle in Hh. destruct (Z.ltb h 0).
  - inversion Hh; subst. rewrite (sc_zero_dead s HW) in Ha. discriminate.
  - apply nth_error_In in Hh. destruct (I1 e Hh) as (_ & [L|(l & g & E & Hg)]); [exact L|].
    destruct (sc_alive_slot s e Ha) as (l' & E'). rewrite E in E'. inversion E'; subst. lia.
Qed.

Lemma r2e_handle_ok : forall s n h x, WF s -> issued_ok s n -> handle s h = Some x -> r2b_handle_ok s x.
Proof.
  intros s n h x HW HI Hh. destruct (Nat.eq_dec (fst x) 0) as [H0|H0].
  - left. unfold handle in Hh. destruct (Z.ltb h 0); [injection Hh as <-; reflexivity|].
    apply nth_error_In in Hh. destruct HI as (I1 & _). destruct (I1 x Hh) as (R & _). lia.
  - destruct (alive s x) eqn:Ha.
    + right. left. apply (r2e_handle_alive_live s n h x HW HI Hh Ha).
    + right. right. split; assumption.
Qed.

Lemma r2e_handle_range : forall s n h x, WF s -> issued_ok s n -> handle s h = Some x -> fst x < length (w_istarget s).
Proof.
  intros s n h x HW (I1 & _) Hh. destruct (wf_index_len _ HW) as (L1 & L2). rewrite L2, L1.
  unfold handle in Hh. destruct (Z.ltb h 0).
  - injection Hh as <-. cbn. destruct (wf_pool _ HW) as (fl & (Hp & _) & _). lia.
  - apply nth_error_In in Hh. destruct (I1 x Hh) as (R & _). lia.
Qed.

Definition r2e_resolved (s : W) (hrels : list hrel) (rels : list rel) : Prop :=
  Forall2 (fun (hr : hrel) (r : rel) => fst r = fst hr /\ handle s (snd hr) = Some (snd r)) hrels rels.

Lemma r2e_resolveR : forall hrels s,
  (exists rels, resolveR hrels s = Ok rels s /\ r2e_resolved s hrels rels) \/ (exists er, resolveR hrels s = Err er s).
Proof.
  intros hrels s. unfold resolveR. induction hrels as [|[c h] rest IH]; cbn [mapM].
  - left. exists []. split; [reflexivity|constructor].
  - set (f := fun r : hrel => e <- resolveH (snd r);; ret (fst r, e)) in *.
    assert (Ef : f (c, h) s = match handle s h with Some e => Ok (c, e) s | None => Err EMisuse s end).
    { unfold f, bind. cbn [snd fst]. rewrite sc_resolveH. destruct (handle s h); reflexivity. }
    destruct (handle s h) as [e|] eqn:Hh.
    + rewrite (sa_bind_ok Ef). destruct IH as [(rels & E & HR)|(er & E)].
      * left. exists ((c, e) :: rels). rewrite (sa_bind_ok E). split; [reflexivity|].
        constructor; [split; [reflexivity|exact Hh]|exact HR].
      * right. exists er. rewrite (sa_bind_err E). reflexivity.
    + right. exists EMisuse. rewrite (sa_bind_err Ef). reflexivity.
Qed.

Lemma r2e_resolved_ok : forall s n hrels rels, WF s -> issued_ok s n -> r2e_resolved s hrels rels ->
  forall r, In r rels -> r2b_handle_ok s (snd r) /\ fst (snd r) < length (w_istarget s).
Proof.
  intros s n hrels rels HW HI HR. induction HR as [|hr r0 hrest rrest (_ & Hh) _ IH]; intros r Hr; [destruct Hr|].
  destruct Hr as [<-|Hin]; [|apply IH; exact Hin].
  split; [apply (r2e_handle_ok s n _ _ HW HI Hh)|apply (r2e_handle_range s n _ _ HW HI Hh)].
Qed.

(** ** What one operation may do, as far as the invariant is concerned *)

Definition r2e_trans (s s' : W) : Prop :=
  St2 s' /\ r2d_KeysLive s' /\ r2e_quiet s' /\ w_reg s' = w_reg s /\ w_issued s' = w_issued s /\
  ((sc_pcreate (w_pool s) (w_pool s') /\ forall x, live s x = true -> live s' x = true) \/
   (exists e, pool_recycle (w_pool s) e = Some (w_pool s') /\ live s e = true /\
              forall x, x <> e -> live s x = true -> live s' x = true)).

Lemma r2e_trans_refl : forall s n, Inv2 s n -> r2e_trans s s.
Proof.
  intros s n (H1 & H2 & H3 & _). repeat (split; [first [assumption|reflexivity]|]).
  left. split; [apply sc_pcreate_refl|auto].
Qed.

Lemma r2e_trans_fc : forall s s' n, Inv2 s n -> St2 s' -> r2e_fc s s' -> (forall x, live s x = true -> live s' x = true) ->
  r2e_trans s s'.
Proof.
  intros s s' n (H1 & H2 & H3 & _) HS HF HL. destruct (HF (proj1 H3)) as (A & (B1 & _ & _ & _ & B5 & _) & C & D).
  split; [exact HS|]. split; [apply (r2e_KeysLive_E s s' HS H2 C HL)|]. split; [apply (r2e_quiet_side s s' A H3)|].
  split; [exact B1|]. split; [exact B5|]. left. split; assumption.
Qed.

Lemma r2e_trans_fk : forall s s' n, Inv2 s n -> St2 s' -> r2e_fk s s' -> (forall x, live s x = true -> live s' x = true) ->
  r2e_trans s s'.
Proof. intros s s' n HI HS HF HL. apply (r2e_trans_fc s s' n HI HS); [apply r2e_fc_of_fk; exact HF|exact HL]. Qed.

(** the handles issued so far stay well-accounted-for (after [sc_trans_issued] of StorageC) *)
Lemma r2e_trans_issued : forall s s' n, WF s -> issued_ok s n -> n + 4 < Nat.pow 2 31 -> r2e_trans s s' -> issued_ok s' (S n).
Proof.
  intros s s' n HW (I1 & I2 & I3) Hn (T1 & _ & _ & T2 & T3 & T4).
  destruct T4 as [((G1 & G2 & G3) & L)|(e & P & Le & L)].
  - pose proof (sc_gens_kept_len _ _ G1) as Hlen.
    split; [|split].
    + intros x Hx. rewrite T3 in Hx. destruct (I1 x Hx) as (R & D). split; [sc_lia|].
      destruct D as [D|(l & g & E & Hg)]; [left; auto|]. right.
      destruct (G1 _ _ _ E) as (l' & E'). exists l', g. auto.
    + intros i l g E Hi. destruct (nth_error (pe (w_pool s)) i) as [[l0 g0]|] eqn:E0.
      * destruct (G1 _ _ _ E0) as (l' & E'). rewrite E in E'. inversion E'; subst.
        pose proof (I2 _ _ _ E0 Hi). lia.
      * apply nth_error_None in E0. rewrite (G2 _ _ _ E0 E). lia.
    + sc_lia.
  - destruct (live_alive s e HW Le) as (Ha & He2).
    apply live_present in Le. destruct Le as (tid & r & t & Lc & Tt & Rr & Er).
    destruct (wf_rows _ HW tid t r Tt Rr) as (_ & Pe). rewrite Er in Pe.
    destruct (sc_recycle_shape _ _ _ P) as (l0 & g0 & E0 & Epe). rewrite Pe in E0.
    assert (g0 = snd e /\ l0 = fst e) as (-> & ->) by (destruct e; inversion E0; auto).
    assert (Hge : (snd e <= N.of_nat n)%N) by (apply (I2 (fst e) (fst e) (snd e)); [destruct e; exact Pe|exact He2]).
    pose proof (sc_pow_bound n Hn) as Hb.
    assert (Hmod : ((snd e + 1) mod 4294967296 = snd e + 1)%N) by (apply N.mod_small; lia).
    rewrite Hmod in Epe.
    assert (Hlt : fst e < length (pe (w_pool s))) by (eapply sa_nth_error_lt; eauto).
    assert (Hnew : nth_error (pe (w_pool s')) (fst e) = Some (pnext (w_pool s), (snd e + 1)%N))
      by (rewrite Epe; apply sa_nth_error_upd_eq; exact Hlt).
    assert (Hoth : forall i, i <> fst e -> nth_error (pe (w_pool s')) i = nth_error (pe (w_pool s)) i)
      by (intros i Hi; rewrite Epe; apply sa_nth_error_upd_ne; congruence).
    assert (Hlen : length (pe (w_pool s')) = length (pe (w_pool s))) by (rewrite Epe; apply upd_length).
    split; [|split].
    + intros x Hx. rewrite T3 in Hx. destruct (I1 x Hx) as (R & D). split; [sc_lia|].
      destruct D as [D|(l & g & E & Hg)].
      * destruct (ent_eqb x e) eqn:Exe.
        -- apply sa_ent_eqb_eq in Exe. subst x. right. eexists _, _. split; [exact Hnew|lia].
        -- left. apply L; [|exact D]. intros ->. rewrite sa_ent_eqb_refl in Exe. discriminate.
      * right. destruct (Nat.eq_dec (fst x) (fst e)) as [Eq|Ne].
        -- rewrite Eq in E. rewrite Pe in E. destruct e as [ei eg]. inversion E; subst.
           rewrite Eq. eexists _, _. split; [exact Hnew|]. cbn [snd]. lia.
        -- exists l, g. rewrite Hoth by exact Ne. auto.
    + intros i l g E Hi. destruct (Nat.eq_dec i (fst e)) as [->|Ne].
      * rewrite Hnew in E. inversion E; subst. lia.
      * rewrite Hoth in E by exact Ne. pose proof (I2 _ _ _ E Hi). lia.
    + sc_lia.
Qed.

(* ================================================================================================ *)
(** * Part 3: per-operation descriptions *)

Definition r2e_post (ret_e : bool) (s : W) (r : res W (list Z)) : Prop :=
  r2e_trans s (state_of r) /\
  (ret_e = true -> forall res s', r = Ok res s' -> exists e, res = Zent e /\ live s e = false /\ live s' e = true /\ alive s' e = true).

Lemma r2e_post_err : forall b s er s', r2e_trans s s' -> r2e_post b s (Err er s').
Proof. intros b s er s' H. split; [exact H|]. intros _ res s0 E. discriminate. Qed.
Lemma r2e_post_false : forall s r, r2e_trans s (state_of r) -> r2e_post false s r.
Proof. intros s r H. split; [exact H|]. intros E. discriminate. Qed.

Section r2e_ops.
Variables (debug : bool) (s : W) (n : nat).
Hypothesis HI : Inv2 s n.
Hypothesis Hn : n + 4 < Nat.pow 2 31.
Let HS : St2 s := proj1 HI.
Let HW : WF s := proj1 HS.
Let HK : r2d_KeysLive s := proj1 (proj2 HI).
Let HQ : r2e_quiet s := proj1 (proj2 (proj2 HI)).
Let Hno : r2e_noobs s := proj1 HQ.
Let Hlk : is_locked s = false := proj2 HQ.
Let Hiss : issued_ok s n := proj2 (proj2 (proj2 HI)).

Lemma r2e_room : room s.
Proof. destruct Hiss as (_ & _ & I3). unfold room. sc_lia. Qed.

Lemma r2e_refl_post : forall b er, r2e_post b s (Err er s).
Proof. intros. apply r2e_post_err. apply (r2e_trans_refl s n HI). Qed.

Lemma r2e_post_ro : forall (m : MW (list Z)), readonly m -> r2e_post false s (m s).
Proof. intros m Hm. apply r2e_post_false. rewrite (Hm s). apply (r2e_trans_refl s n HI). Qed.

(** the common prefix [resolveH h ;; ...] *)
Lemma r2e_resolved_h : forall b h (k : ent -> MW (list Z)),
  (forall e, handle s h = Some e -> r2e_post b s (k e s)) -> r2e_post b s ((e <- resolveH h ;; k e) s).
Proof.
  intros b h k H. unfold bind at 1. rewrite sc_resolveH. destruct (handle s h) as [e|] eqn:Hh; [|apply r2e_refl_post].
  apply H. reflexivity.
Qed.

Lemma r2e_op_ONewEntity : r2e_post true s (step_op debug ONewEntity s).
Proof.
  cbn [step_op]. rewrite (sa_bind_ok (sb1_check_locked_ok s Hlk)).
  destruct (L_create_entity_spec2 s HS HK r2e_room) as (e & s1 & E & C1 & C2 & C3 & C4 & C5 & _ & _ & C8 & C9 & C10).
  rewrite (sa_bind_ok E).
  pose proof (sc_pc_create_entity 0 s) as Hp. rewrite E in Hp. cbn [state_of] in Hp.
  assert (HT : r2e_trans s s1).
  { split; [exact C1|]. split; [exact C2|]. split; [apply (r2e_quiet_side s s1 C9 HQ)|].
    destruct C10 as (F1 & _ & _ & _ & F5 & _). split; [exact F1|]. split; [exact F5|]. left. split; [exact Hp|].
    intros x Hx. assert (Hne : x <> e) by (intros ->; congruence). rewrite (proj1 (C8 x Hne)). exact Hx. }
  destruct (sc_ro_cases _ (arch_mask_of_table 0) (sc_ro_arch_mask 0) s1) as [(m & Em)|(er & Em)].
  2:{ rewrite (sa_bind_err Em). apply r2e_post_err. exact HT. }
  rewrite (sa_bind_ok Em).
  rewrite (sa_bind_ok (sb1_fire_create_noobs s1 e m (proj1 (r2e_quiet_side s s1 C9 HQ) EvCreateEntity))).
  unfold ret. split; [exact HT|]. intros _ res s' H. inversion H; subst. exists e. split; [reflexivity|]. split; [assumption|]. split; assumption.
Qed.

Lemma r2e_op_OCopy : forall h, r2e_post true s (step_op debug (OCopy h) s).
Proof.
  intros h. cbn [step_op]. apply r2e_resolved_h. intros e Hh.
  pose proof (L_copy_entity_spec2_partial s e HS r2e_room (r2e_handle_alive_live s n h e HW Hiss Hh)
                (Hno EvCreateEntity) (Hno EvAddRelations)) as Hs.
  pose proof (r2e_fc_copy_entity e s) as Hf.
  unfold bind. destruct (w_copy_entity e s) as [ne s1|er s1]; cbn [state_of] in Hf.
  - destruct Hs as (C1 & _ & _ & _ & C5 & C6 & C7 & _ & _ & C10 & _).
    assert (HT : r2e_trans s s1).
    { apply (r2e_trans_fc s s1 n HI C1 Hf). intros x Hx. assert (Hne : x <> ne) by (intros ->; congruence).
      rewrite (proj1 (C10 x Hne)). exact Hx. }
    unfold ret. split; [exact HT|]. intros _ res s' H. inversion H; subst. exists ne. split; [reflexivity|]. split; [assumption|]. split; assumption.
  - apply r2e_post_err. destruct Hs as (C1 & C2 & _). apply (r2e_trans_fc s s1 n HI C1 Hf).
    intros x Hx. rewrite (proj1 (C2 x)). exact Hx.
Qed.

Lemma r2e_op_OWrite : forall h c v, r2e_post false s (step_op debug (OWrite h c v) s).
Proof.
  intros h c v. cbn [step_op]. apply r2e_resolved_h. intros e Hh.
  pose proof (L_write_spec2 s debug e c v HS) as Hs.
  unfold bind at 1 in Hs. unfold bind at 1.
  destruct (cell_of debug e c s) as [[[tid ci] row] s1|er s1].
  - cbv beta iota in Hs |- *. unfold bind. destruct (write_cell tid ci row v s1) as [u s2|er s2].
    + destruct Hs as (A1 & _ & _ & _ & _ & _ & _ & A8 & A9 & A10 & A11 & A12).
      apply r2e_post_false. cbn [state_of ret]. apply (r2e_trans_fk s s2 n HI A1).
      * apply r2e_fk_intro; assumption.
      * intros x Hx. rewrite A8. exact Hx.
    + subst s2. apply r2e_refl_post.
  - subst s1. apply r2e_refl_post.
Qed.

Lemma r2e_op_OShrink : forall b0, r2e_post false s (step_op debug (OShrink b0) s).
Proof.
  intros b0. cbn [step_op].
  pose proof (proj2 HQ) as EL.
  destruct (D_shrink_spec_w s b0 HS EL) as (b & s1 & E & D1 & D2 & _ & D4 & _ & _ & D7 & D8 & _ & _ & _ & D13).
  rewrite (sa_bind_ok E). unfold ret. apply r2e_post_false. cbn [state_of].
  split; [exact D1|]. split; [apply D13; exact HK|]. split; [apply (r2e_quiet_side s s1 D7 HQ)|].
  destruct D8 as (F1 & _ & _ & _ & F5 & _). split; [exact F1|]. split; [exact F5|]. left. split; [rewrite D4; apply sc_pcreate_refl|].
  intros x Hx. rewrite (proj1 (D2 x)). exact Hx.
Qed.

Lemma r2e_op_OGetRel : forall h c, r2e_post false s (step_op debug (OGetRel h c) s).
Proof.
  intros. apply r2e_post_ro. cbn [step_op].
  apply readonly_bind; [apply readonly_resolveH|]. intros e.
  apply readonly_bind; [apply sc_ro_cell_of|]. intros [[tid ci] row].
  apply readonly_bind; [apply readonly_getT|]. intros t. ro.
Qed.

Lemma r2e_op_OGet : forall h c, r2e_post false s (step_op debug (OGet h c) s).
Proof.
  intros. apply r2e_post_ro. cbn [step_op].
  apply readonly_bind; [apply readonly_resolveH|]. intros e.
  apply readonly_bind; [apply sc_ro_cell_of|]. intros [[tid ci] row].
  apply readonly_bind; [apply readonly_getT|]. intros t. ro.
Qed.

Lemma r2e_op_reading : forall o, reading o = true -> r2e_post false s (step_op debug o s).
Proof.
  intros o Hr. apply r2e_post_false. rewrite (reads_do_not_change_state debug o s Hr). apply (r2e_trans_refl s n HI).
Qed.

(** the relation lists of a script line, resolved *)
Lemma r2e_resolved_r : forall b hrels (k : list rel -> MW (list Z)),
  (forall rels, r2e_resolved s hrels rels -> r2e_post b s (k rels s)) -> r2e_post b s ((rels <- resolveR hrels ;; k rels) s).
Proof.
  intros b hrels k H. destruct (r2e_resolveR hrels s) as [(rels & E & HR)|(er & E)].
  - rewrite (sa_bind_ok E). apply H. exact HR.
  - rewrite (sa_bind_err E). apply r2e_refl_post.
Qed.

Lemma r2e_op_OUSetRel : forall h hrels, r2e_post false s (step_op debug (OUSetRel h hrels) s).
Proof.
  intros h hrels. cbn [step_op]. apply r2e_resolved_h. intros e Hh. apply r2e_resolved_r. intros rels HR.
  pose proof (r2b_set_relations_spec_noobs s e rels HS r2e_room (Hno EvRemoveRelations) (Hno EvAddRelations)
                (fun r Hr => proj1 (r2e_resolved_ok s n hrels rels HW Hiss HR r Hr))) as Hs.
  pose proof (r2e_fkp_w_set_relations e rels s) as Hf.
  unfold bind. destruct (w_set_relations e rels s) as [u s1|er s1]; cbn [state_of] in Hf.
  - destruct Hs as (B1 & _ & _ & _ & _ & _ & B7 & _ & _ & B10 & _).
    apply r2e_post_false. cbn [state_of ret]. apply (r2e_trans_fk s s1 n HI B1 Hf).
    intros x Hx. destruct (sa_ent_eqb_eq x e) as [_ Hq]. destruct (ent_eqb x e) eqn:Ex.
    + apply sa_ent_eqb_eq in Ex. subst x. exact B7.
    + assert (Hne : x <> e) by (intros ->; rewrite sa_ent_eqb_refl in Ex; discriminate).
      rewrite (proj1 (B10 x Hne)). exact Hx.
  - destruct Hs as (-> & _). apply r2e_refl_post.
Qed.
End r2e_ops.

(* ================================================================================================ *)
(** * Part 4: RemoveEntity: the lookup keys through the cleanup, the pool *)

Definition r2e_ksp {A} (m : MW A) : Prop := r2e_pres r2e_Ksub m.

Lemma r2e_ksp_same : forall A (m : MW A), (forall s, w_archs (state_of (m s)) = w_archs s) -> r2e_ksp m.
Proof. intros A m H s. apply r2e_Ksub_same. apply H. Qed.
Lemma r2e_ksp_bind : forall A B (m : MW A) (k : A -> MW B), r2e_ksp m -> (forall a, r2e_ksp (k a)) -> r2e_ksp (bind m k).
Proof. intros A B m k. apply (r2e_pres_bind r2e_Ksub r2e_Ksub_trans). Qed.
Lemma r2e_ksp_ro : forall A (m : MW A), readonly m -> r2e_ksp m.
Proof. intros A m H. apply (r2e_pres_ro r2e_Ksub r2e_Ksub_refl). exact H. Qed.
Lemma r2e_ksp_forM : forall A (l : list A) (f : A -> MW unit), (forall a, r2e_ksp (f a)) -> r2e_ksp (forM_ l f).
Proof. intros A l f. apply (r2e_pres_forM r2e_Ksub r2e_Ksub_refl r2e_Ksub_trans). Qed.

Lemma r2e_ksp_modT : forall i f, r2e_ksp (modT i f).
Proof. intros i f. apply r2e_ksp_same. reflexivity. Qed.

Lemma r2e_ksp_modA : forall aid g, (forall a k l', afind k (a_tgttabs (g a)) = Some l' -> exists l, afind k (a_tgttabs a) = Some l) ->
  r2e_ksp (modA aid g).
Proof.
  intros aid g Hg s. unfold modA, modify. cbn [state_of]. intros i a' k l' Ha Hk. cbn in Ha.
  rewrite nth_error_updf in Ha. destruct (Nat.eqb_spec aid i) as [<-|Hne].
  - destruct (nth_error (w_archs s) aid) as [a|] eqn:Ea; [|discriminate]. cbn in Ha. injection Ha as <-.
    destruct (Hg a k l' Hk) as (l & Hl). exists a, l. split; [reflexivity|exact Hl].
  - exists a', l'. split; assumption.
Qed.

Lemma r2e_ksp_move_entities : forall src dst n, r2e_ksp (move_entities src dst n).
Proof.
  intros. unfold move_entities.
  apply r2e_ksp_bind; [apply r2e_ksp_ro, readonly_getT|]. intros st.
  apply r2e_ksp_bind; [apply r2e_ksp_ro, readonly_getT|]. intros dt.
  apply r2e_ksp_bind; [apply r2e_ksp_modT|]. intros _.
  apply r2e_ksp_bind; [|intros _; apply r2e_ksp_modT].
  apply r2e_ksp_forM. intros i. destruct (nth_error _ i); [apply r2e_ksp_same; reflexivity|apply r2e_ksp_ro, readonly_fail].
Qed.

Lemma r2e_ksp_free_table : forall aid tid, r2e_ksp (free_table aid tid).
Proof.
  intros. unfold free_table. apply r2e_ksp_bind; [|intros _; apply r2e_ksp_modT].
  apply r2e_ksp_modA. intros a k l' H. destruct (r2_aft_fields a tid) as (_ & _ & _ & _ & _ & _ & _ & F). rewrite F in H.
  destruct (Nat.leb (a_numrel a) 1).
  - exists l'. exact H.
  - rewrite rl_afind_amap_vals in H. destruct (afind k (a_tgttabs a)) as [l|]; [exists l; reflexivity|discriminate].
Qed.

Lemma r2e_ksp_cache_remove_table : forall tid, r2e_ksp (cache_remove_table tid).
Proof.
  intros. unfold cache_remove_table. apply r2e_ksp_bind; [apply r2e_ksp_ro, readonly_get|]. intros s0.
  apply r2e_ksp_forM. intros addr. apply r2e_ksp_same. reflexivity.
Qed.

(** the lookup keys during the cleanup for the dying id [k]: zero, [k] itself, or ids of stored entities *)
Definition r2e_KL (k : nat) (s : W) : Prop :=
  forall aid a k' l, nth_error (w_archs s) aid = Some a -> afind k' (a_tgttabs a) = Some l ->
    k' = 0 \/ k' = k \/ exists g, live s (k', g) = true.

Lemma r2e_live_relabel_rev : forall s s', r2_relabel s s' -> forall e, live s' e = true -> live s e = true.
Proof.
  intros s s' R e H. unfold live in *. rewrite (sa_loc_ext s s' (rl_index _ _ R)) in H.
  destruct (loc s e) as [[tid r]|]; [|discriminate]. destruct (nth_error (w_tables s') tid) as [t'|] eqn:Et'; [|discriminate].
  destruct (nth_error (w_tables s) tid) as [t|] eqn:Et.
  - destruct (rl_tables_old _ _ R tid t Et) as (t2 & Et2 & (S1 & S2 & S3 & _) & _). rewrite Et' in Et2. injection Et2 as <-.
    unfold row_ent in *. rewrite S1, S3 in H. exact H.
  - destruct (rl_tables_new _ _ R tid t' Et' Et) as (_ & L0 & _). rewrite L0 in H. cbn in H. discriminate.
Qed.

(** a key with a non-empty list names a stored entity (or zero, or the dying id) *)
Lemma r2e_key_nonempty : forall k s aid a k' tid l, St2G (eq k) r2_none r2_none s ->
  nth_error (w_archs s) aid = Some a -> afind k' (a_tgttabs a) = Some (tid :: l) ->
  k' = 0 \/ k' = k \/ exists g, live s (k', g) = true.
Proof.
  intros k s aid a k' tid l (HW & HR & _) Ha Hk.
  destruct (Nat.eq_dec k' k) as [->|Hne]; [right; left; reflexivity|].
  destruct (ri_tgttabs _ _ HR aid a k' _ Ha Hk) as (_ & Hall).
  destruct (Hall tid (or_introl eq_refl)) as (t & Ht & (i & g & Hrc & Hg) & Hfr).
  assert (Hf : t_free t = false) by (destruct (t_free t); [destruct (Hfr eq_refl) as (Hc & _); congruence|reflexivity]).
  destruct (wf_arch_tables _ HW aid a tid Ha) as (t' & Ht' & Earch).
  { right. right. right. exists k', (tid :: l). split; [exact Hk|left; reflexivity]. }
  rewrite Ht in Ht'. injection Ht' as <-.
  pose proof Ha as Hat. rewrite <- Earch in Hat.
  destruct (r2_isrel_len s aid a HW Ha) as (LI & _).
  assert (Hci : exists c, nth_error (a_comps a) i = Some c).
  { destruct (nth_error (a_comps a) i) as [c|] eqn:E; [exists c; reflexivity|].
    apply nth_error_None in E. pose proof (sa_nth_error_lt _ _ _ _ Hrc). lia. }
  destruct Hci as (c & Hci).
  destruct (ri_shape _ _ HR tid t a Ht Hat) as (_ & S2 & _).
  assert (Hin : In (c, (k', g)) (t_rels t)) by (apply S2; exists i; repeat split; assumption).
  destruct (ri_targets_ok _ _ HR tid t (c, (k', g)) Ht Hf Hin) as [Hz|[Hl|Hd]].
  - left. cbn [snd] in Hz. injection Hz as -> _. reflexivity.
  - right. right. exists g. exact Hl.
  - cbn in Hd. congruence.
Qed.

(** one cleanup step keeps the description of the keys *)
Lemma r2e_step_KL : forall (e : ent) s aid a tid t s',
  St2G (eq (fst e)) r2_none r2_none s -> r2c_dead (fst e) s ->
  nth_error (w_archs s) aid = Some a -> nth_error (w_tables s) tid = Some t -> t_arch t = aid -> t_free t = false ->
  r2_nostale a -> r2e_noobs s -> r2e_KL (fst e) s ->
  r2c_step (fst e) aid tid t s = Ok tt s' -> (forall x, live s' x = live s x) -> r2e_KL (fst e) s'.
Proof.
  intros e s aid a tid t s' HS Hdead Ha Ht Earch Hf Hstale Hno HKL Hrun Hlive. set (k := fst e) in *.
  (* the part after the (optional) move only drops keys *)
  assert (Tail : forall s2, (forall aid0 a0 k' l, nth_error (w_archs s2) aid0 = Some a0 -> afind k' (a_tgttabs a0) = Some l ->
                               k' = 0 \/ k' = k \/ exists g, live s (k', g) = true) ->
                 forall s3, (free_table aid tid ;;; cache_remove_table tid) s2 = Ok tt s3 ->
                 forall aid0 a0 k' l, nth_error (w_archs s3) aid0 = Some a0 -> afind k' (a_tgttabs a0) = Some l ->
                               k' = 0 \/ k' = k \/ exists g, live s (k', g) = true).
  { intros s2 H2 s3 E3 aid0 a0 k' l Ha0 Hk0.
    assert (KS : r2e_ksp (free_table aid tid ;;; cache_remove_table tid)).
    { apply r2e_ksp_bind; [apply r2e_ksp_free_table|intros _; apply r2e_ksp_cache_remove_table]. }
    specialize (KS s2). rewrite E3 in KS. cbn [state_of] in KS.
    destruct (KS aid0 a0 k' l Ha0 Hk0) as (a2 & l2 & Ha2 & Hk2). apply (H2 aid0 a2 k' l2 Ha2 Hk2). }
  assert (Fin : forall aid0 a0 k' l, nth_error (w_archs s') aid0 = Some a0 -> afind k' (a_tgttabs a0) = Some l ->
                  k' = 0 \/ k' = k \/ exists g, live s (k', g) = true).
  { unfold r2c_step in Hrun. rewrite sb2_bind_get in Hrun. destruct (Nat.ltb 0 (t_len t)); cbn [whenM] in Hrun.
    - pose proof Ha as Ha'. rewrite <- Earch in Ha'.
      destruct (r2c_detached_rels k s tid t a HS Ht Hf Ha' Hdead) as (all & Ex & HV & _).
      destruct (r2_get_or_create_table_spec (eq k) r2_none r2_none s aid a all HS Ha HV Hstale)
        as (ntid & s2 & t2 & E2 & HS2 & R & _).
      { intros x _ []. }
      rewrite r2c_bind_assoc, (sa_bind_ok Ex), r2c_bind_assoc, (sa_bind_ok E2) in Hrun.
      destruct (r2e_fkp_goc aid all s Hno) as (_ & _ & HE & _). rewrite E2 in HE. cbn [state_of] in HE.
      assert (H2 : forall aid0 a0 k' l, nth_error (w_archs s2) aid0 = Some a0 -> afind k' (a_tgttabs a0) = Some l ->
                     k' = 0 \/ k' = k \/ exists g, live s (k', g) = true).
      { intros aid0 a0 k' l Ha0 Hk0. destruct l as [|x l0].
        - destruct (HE aid0 a0 k' Ha0 Hk0) as (a1 & Ha1 & Hk1). apply (HKL aid0 a1 k' [] Ha1 Hk1).
        - destruct (r2e_key_nonempty k s2 aid0 a0 k' x l0 HS2 Ha0 Hk0) as [H0|[H1|(g & Hg)]]; [left; exact H0|right; left; exact H1|].
          right. right. exists g. apply (r2e_live_relabel_rev s s2 R). exact Hg. }
      (* the move *)
      assert (KM : r2e_ksp (move_entities tid ntid (t_len t))) by apply r2e_ksp_move_entities.
      specialize (KM s2). destruct (move_entities tid ntid (t_len t) s2) as [[] s3|er s3] eqn:E3; cbn [state_of] in KM.
      + rewrite (sa_bind_ok E3) in Hrun. apply (Tail s3); [|exact Hrun].
        intros aid0 a0 k' l Ha0 Hk0. destruct (KM aid0 a0 k' l Ha0 Hk0) as (a1 & l1 & Ha1 & Hk1). apply (H2 aid0 a1 k' l1 Ha1 Hk1).
      + rewrite (sa_bind_err E3) in Hrun. discriminate.
    - rewrite (sa_bind_ok (m := ret tt) (s := s) eq_refl) in Hrun. apply (Tail s); [|exact Hrun]. exact HKL. }
  intros aid0 a0 k' l Ha0 Hk0. destruct (Fin aid0 a0 k' l Ha0 Hk0) as [H0|[H1|(g & Hg)]]; [left; exact H0|right; left; exact H1|].
  right. right. exists g. rewrite Hlive. exact Hg.
Qed.

(** ** The loops of [cleanup_archetypes] once more, with the keys (after Rel2Remove, Part 6) *)

Definition r2e_I (e : ent) (s : W) : Prop := r2c_I e s /\ r2e_noobs s /\ r2e_KL (fst e) s.

Lemma r2e_frame_noobs : forall k s s', r2c_frame k s s' -> r2e_noobs s -> r2e_noobs s'.
Proof. intros k s s' (_ & _ & _ & _ & _ & SD & _) H. apply (r2e_noobs_side s s' SD H). Qed.

Lemma r2e_inner_loop : forall e aid n s L, r2e_I e s -> 2 <= fst e ->
  NoDup L -> length L = n -> (forall x, r2c_Tk (fst e) s aid x <-> In x L) ->
  (0 < n -> forall a, nth_error (w_archs s) aid = Some a -> r2_nostale a) ->
  exists s', forM_ (rev (seq 0 n)) (r2c_inner e aid) s = Ok tt s' /\ r2e_I e s' /\ r2c_frame (fst e) s s' /\
    (forall i, i <> aid -> nth_error (w_archs s') i = nth_error (w_archs s) i) /\
    (forall x, ~ r2c_Tk (fst e) s' aid x).
Proof.
  intros e aid n. induction n as [|m IH]; intros s L HI2 Hk ND HL HTk Hst.
  - exists s. split; [reflexivity|]. split; [exact HI2|]. split; [apply r2c_frame_refl|]. split; [reflexivity|].
    intros x Hx. apply HTk in Hx. destruct L; [destruct Hx|discriminate].
  - set (k := fst e) in *. pose proof HI2 as (HI & Hno & HKL). pose proof HI as (HS & Hdead & Honly). pose proof HS as (HW & HR & _).
    destruct L as [|x0 L0] eqn:EL; [discriminate|]. rewrite <- EL in *.
    assert (Hx0 : r2c_Tk k s aid x0) by (apply HTk; rewrite EL; left; reflexivity).
    destruct Hx0 as (tx0 & a & Hx0 & Ax0 & Fx0 & Ha & (i0 & g0 & Hr0 & Hg0)).
    pose proof (Hst (Nat.lt_0_succ m) a Ha) as Hsta.
    pose proof Ha as Hat0. rewrite <- Ax0 in Hat0.
    destruct (ri_tgttabs_complete _ _ HR x0 tx0 a i0 (k, g0) Hx0 Fx0 Hat0 Hr0 Hg0) as (l & Hl & _). cbn [fst] in Hl.
    destruct (r2c_list_Tk k s aid a l HS Ha Hsta Hl) as (NDl & Hmem).
    assert (Hlen : length l = S m).
    { rewrite <- HL. apply r2c_nodup_same_length; [exact NDl|exact ND|]. intros x. rewrite Hmem. apply HTk. }
    assert (Htid : exists tid, nth_error l m = Some tid).
    { destruct (nth_error l m) as [tid|] eqn:E; [exists tid; reflexivity|]. apply nth_error_None in E. lia. }
    destruct Htid as (tid & Htid).
    assert (HtidTk : r2c_Tk k s aid tid) by (apply Hmem; eapply nth_error_In; exact Htid).
    destruct HtidTk as (t & a' & Ht & At & Ft & Ha'' & Htk). rewrite Ha in Ha''. injection Ha'' as <-.
    destruct (r2c_step_spec e s aid a tid t HS Hdead Honly Hk Ha Ht At Ft Htk Hsta)
      as (s1 & E1 & HS1 & Hdead1 & Honly1 & Fr1 & Hoth1 & HTk1).
    fold k in E1, HS1, Hdead1, Fr1, HTk1.
    assert (HKL1 : r2e_KL k s1).
    { apply (r2e_step_KL e s aid a tid t s1 HS Hdead Ha Ht At Ft Hsta Hno HKL E1). apply Fr1. }
    pose proof (r2e_frame_noobs k s s1 Fr1 Hno) as Hno1.
    remember (filter (fun x => negb (Nat.eqb x tid)) L) as L' eqn:EL'def.
    assert (HL' : forall x, In x L' <-> In x L /\ x <> tid).
    { intros x. rewrite EL'def, filter_In. split; intros (H1 & H2); (split; [exact H1|]).
      - intros ->. rewrite Nat.eqb_refl in H2. discriminate.
      - apply negb_true_iff. apply Nat.eqb_neq. exact H2. }
    assert (ND' : NoDup L') by (rewrite EL'def; apply NoDup_filter; exact ND).
    assert (Hin_tid : In tid L) by (apply HTk; exists t, a; repeat split; assumption).
    assert (Hlen' : length L' = m).
    { assert (E : length L = length (tid :: L')).
      { apply r2c_nodup_same_length; [exact ND|constructor; [intros Hc; apply HL' in Hc; destruct Hc as (_ & Hc); apply Hc; reflexivity|exact ND']|].
        intros x. cbn [In]. rewrite HL'. destruct (Nat.eq_dec x tid) as [->|Hne]; [tauto|]. split; [intros H; right; split; assumption|].
        intros [H|(H & _)]; [congruence|exact H]. }
      cbn [length] in E. lia. }
    assert (HTk' : forall x, r2c_Tk k s1 aid x <-> In x L').
    { intros x. rewrite HTk1, HL', HTk. tauto. }
    pose proof Fr1 as (_ & _ & _ & AS1 & _).
    destruct (IH s1 L' (conj (conj HS1 (conj Hdead1 Honly1)) (conj Hno1 HKL1)) Hk ND' Hlen' HTk') as (s2 & E2 & HI2' & Fr2 & Hoth2 & HnTk2).
    { intros Hm a1 Ha1. destruct (r2c_arch_static_rev s s1 aid a1 AS1 Ha1) as (a0 & Ha0 & An & _). rewrite Ha in Ha0. injection Ha0 as <-.
      destruct (Nat.leb_spec 2 (a_numrel a1)) as [Hge|Hlt].
      - destruct HS1 as (_ & HR1 & _). apply (r2c_nostale (eq k) s1 aid a1 HR1 Ha1). left. exact Hge.
      - exfalso.
        destruct L' as [|y L1]; [cbn in Hlen'; lia|].
        assert (Hy : In y L /\ y <> tid) by (apply HL'; left; reflexivity). destruct Hy as (Hy & Hne).
        apply Hne. apply (r2c_Tk_unique e s aid a y tid HI Ha); [lia|apply HTk; exact Hy|exists t, a; repeat split; assumption]. }
    exists s2. split.
    { rewrite r2c_rev_seq_S. cbn [forM_].
      assert (Ein : r2c_inner e aid m s = Ok tt s1).
      { unfold r2c_inner. rewrite (sa_bind_ok (sa_getA_eq _ _ _ Ha)). fold k. rewrite Hl. cbn [of_opt].
        rewrite (sa_bind_ok (m := ret l) (s := s) eq_refl). rewrite Htid. cbn [of_opt].
        rewrite (sa_bind_ok (m := ret tid) (s := s) eq_refl). rewrite (sa_bind_ok (sa_getT_eq _ _ _ Ht)). exact E1. }
      rewrite (sa_bind_ok Ein). exact E2. }
    split; [exact HI2'|]. split; [apply (r2c_frame_trans k s s1 s2 Fr1 Fr2)|]. split; [|exact HnTk2].
    intros i Hi. rewrite (Hoth2 i Hi). apply (Hoth1 i Hi).
Qed.

Lemma r2e_arch_spec : forall e aid s a, r2e_I e s -> 2 <= fst e ->
  nth_error (w_archs s) aid = Some a -> r2_nostale a ->
  exists s', r2c_arch e aid s = Ok tt s' /\ r2e_I e s' /\ r2c_frame (fst e) s s' /\
    (forall i, i <> aid -> nth_error (w_archs s') i = nth_error (w_archs s) i) /\
    (exists a', nth_error (w_archs s') aid = Some a' /\ afind (fst e) (a_tgttabs a') = None).
Proof.
  intros e aid s a HI2 Hk Ha Hst. set (k := fst e) in *. pose proof HI2 as (HI & Hno & HKL). pose proof HI as (HS & Hdead & Honly).
  unfold r2c_arch. rewrite (sa_bind_ok (sa_getA_eq _ _ _ Ha)). fold k.
  destruct (afind k (a_tgttabs a)) as [tabs|] eqn:Hl.
  2:{ exists s. split; [reflexivity|]. split; [exact HI2|]. split; [apply r2c_frame_refl|]. split; [reflexivity|].
      exists a. split; [exact Ha|exact Hl]. }
  destruct (r2c_list_Tk k s aid a tabs HS Ha Hst Hl) as (ND & Hmem).
  destruct (r2e_inner_loop e aid (length tabs) s tabs HI2 Hk ND eq_refl) as (s1 & E1 & HI1' & Fr1 & Hoth1 & HnTk1).
  { intros x. symmetry. apply Hmem. }
  { intros _ a0 Ha0. rewrite Ha in Ha0. injection Ha0 as <-. exact Hst. }
  fold k in Fr1, HnTk1. pose proof HI1' as (HI1 & Hno1 & HKL1). pose proof HI1 as (HS1 & Hdead1 & Honly1). pose proof HS1 as (HW1 & HR1 & _).
  pose proof Fr1 as (_ & _ & _ & AS1 & _).
  destruct (proj2 AS1 aid a Ha) as (a1 & Ha1 & _ & _ & _).
  destruct (r2_arch_remove_target_spec (eq k) r2_none r2_none s1 aid a1 k HS1 Ha1) as (E2 & HS2).
  { intros l x tx Hl1 Hin Hx. destruct (t_free tx) eqn:Ef; [reflexivity|]. exfalso. apply (HnTk1 x).
    destruct (ri_tgttabs _ _ HR1 aid a1 k l Ha1 Hl1) as (_ & Hall). destruct (Hall x Hin) as (tx' & Hx' & Htx & _).
    rewrite Hx in Hx'. injection Hx' as <-.
    destruct (wf_arch_tables _ HW1 aid a1 x Ha1) as (tx' & Hx' & Ax); [right; right; right; exists k, l; split; assumption|].
    rewrite Hx in Hx'. injection Hx' as <-. exists tx, a1. repeat split; assumption. }
  set (s2 := s1 <| w_archs := upd aid (arch_remove_target a1 k) (w_archs s1) |>) in *.
  assert (Obs : forall x, live s2 x = live s1 x /\ (forall c, val s2 x c = val s1 x c) /\ (forall c, tgt s2 x c = tgt s1 x c)).
  { apply (r2c_obs_one_empty s1 s2 (length (w_tables s1))); [reflexivity|reflexivity| |].
    - intros t0 Ht0. apply sa_nth_error_lt in Ht0. lia.
    - intros t0 Ht0. change (w_tables s2) with (w_tables s1) in Ht0. apply sa_nth_error_lt in Ht0. lia. }
  assert (Fr2 : r2c_frame k s1 s2).
  { split; [intros x; apply Obs|]. split; [intros x c; apply Obs|]. split; [apply r2c_tgt_step_eq; intros x c; apply Obs|]. split.
    - split; [unfold s2; cbn; apply upd_length|]. intros i b Hb. unfold s2. cbn. destruct (Nat.eq_dec i aid) as [->|Hne].
      + rewrite Ha1 in Hb. injection Hb as <-. rewrite (r2_upd_same _ _ _ _ _ Ha1). exists (arch_remove_target a1 k).
        destruct (r2_art_fields a1 k) as (_ & F2 & F3 & _ & _ & F6 & _). repeat split; assumption.
      + rewrite (r2_upd_other _ _ _ _ _ Hne). exists b. repeat split; assumption.
    - split; [reflexivity|]. split; [unfold side_same; cbn; repeat split|unfold frame_user; cbn; repeat split]. }
  exists s2. split.
  { rewrite (sa_bind_ok E1). exact E2. }
  split.
  { split; [|split].
    - split; [exact HS2|]. split.
      + intros x Hx. rewrite (proj1 (Obs x)). apply Hdead1. exact Hx.
      + intros tid t r Ht. change (w_tables s2) with (w_tables s1) in Ht. apply (Honly1 tid t r Ht).
    - apply (r2e_frame_noobs k s1 s2 Fr2 Hno1).
    - intros i b k' l Hb Hk'. unfold s2 in Hb. cbn in Hb.
      assert (Hold : exists b1 l1, nth_error (w_archs s1) i = Some b1 /\ afind k' (a_tgttabs b1) = Some l1).
      { destruct (Nat.eq_dec i aid) as [->|Hne].
        - rewrite (r2_upd_same _ _ _ _ _ Ha1) in Hb. injection Hb as <-.
          destruct (r2_art_fields a1 k) as (_ & _ & _ & _ & _ & _ & F7 & _). rewrite F7, rl_afind_adel in Hk'.
          destruct (Nat.eqb k' k); [discriminate|]. exists a1, l. split; assumption.
        - rewrite (r2_upd_other _ _ _ _ _ Hne) in Hb. exists b, l. split; assumption. }
      destruct Hold as (b1 & l1 & Hb1 & Hl1). destruct (HKL1 i b1 k' l1 Hb1 Hl1) as [H0|[H1|(g & Hg)]]; [left; exact H0|right; left; exact H1|].
      right. right. exists g. rewrite (proj1 (Obs (k', g))). exact Hg. }
  split; [apply (r2c_frame_trans k s s1 s2 Fr1 Fr2)|]. split.
  { intros i Hi. unfold s2. cbn. rewrite (r2_upd_other _ _ _ _ _ Hi). apply (Hoth1 i Hi). }
  exists (arch_remove_target a1 k). split; [unfold s2; cbn; apply (r2_upd_same _ _ _ _ _ Ha1)|].
  destruct (r2_art_fields a1 k) as (_ & _ & _ & _ & _ & _ & F7 & _). rewrite F7, rl_afind_adel, Nat.eqb_refl. reflexivity.
Qed.

Lemma r2e_outer_loop : forall e l s, r2e_I e s -> 2 <= fst e -> NoDup l ->
  (forall aid, In aid l -> exists a, nth_error (w_archs s) aid = Some a /\ r2_nostale a) ->
  exists s', forM_ l (r2c_arch e) s = Ok tt s' /\ r2e_I e s' /\ r2c_frame (fst e) s s' /\
    (forall i, ~ In i l -> nth_error (w_archs s') i = nth_error (w_archs s) i) /\
    (forall aid, In aid l -> exists a', nth_error (w_archs s') aid = Some a' /\ afind (fst e) (a_tgttabs a') = None).
Proof.
  intros e l. induction l as [|aid rest IH]; intros s HI Hk ND Hst.
  - exists s. split; [reflexivity|]. split; [exact HI|]. split; [apply r2c_frame_refl|]. split; [reflexivity|intros aid []].
  - inversion ND as [|? ? Hnin ND']; subst.
    destruct (Hst aid (or_introl eq_refl)) as (a & Ha & Hsta).
    destruct (r2e_arch_spec e aid s a HI Hk Ha Hsta) as (s1 & E1 & HI1 & Fr1 & Hoth1 & (a1 & Ha1 & Hn1)).
    destruct (IH s1 HI1 Hk ND') as (s2 & E2 & HI2 & Fr2 & Hoth2 & Hn2).
    { intros i Hi. assert (Hne : i <> aid) by (intros ->; contradiction). rewrite (Hoth1 i Hne). apply Hst. right. exact Hi. }
    exists s2. split; [cbn [forM_]; rewrite (sa_bind_ok E1); exact E2|]. split; [exact HI2|].
    split; [apply (r2c_frame_trans (fst e) s s1 s2 Fr1 Fr2)|]. split.
    + intros i Hi. rewrite (Hoth2 i); [|intros Hc; apply Hi; right; exact Hc]. apply Hoth1. intros ->. apply Hi. left. reflexivity.
    + intros i [<-|Hi]; [|apply Hn2; exact Hi]. exists a1. rewrite (Hoth2 aid Hnin). split; assumption.
Qed.

Theorem r2e_cleanup_spec : forall e s, r2e_I e s -> 2 <= fst e ->
  (forall aid a, nth_error (w_archs s) aid = Some a -> r2_nostale a) ->
  exists s', cleanup_archetypes e s = Ok tt s' /\ r2e_I e s' /\ r2c_frame (fst e) s s' /\
    (forall aid a, nth_error (w_archs s') aid = Some a -> afind (fst e) (a_tgttabs a) = None).
Proof.
  intros e s HI2 Hk Hst. pose proof HI2 as (HI & _). pose proof HI as ((HW & HR & _) & _).
  destruct (ri_relarchs _ _ HR) as (ND & Hrel).
  destruct (r2e_outer_loop e (w_relarchs s) s HI2 Hk ND) as (s' & E & HI' & Fr & Hoth & Hnone).
  { intros aid Hin. apply Hrel in Hin. destruct Hin as (a & Ha & _). exists a. split; [exact Ha|apply (Hst aid a Ha)]. }
  exists s'. split; [rewrite r2c_cleanup_unfold; rewrite (sa_bind_ok (m := get) (s := s) eq_refl); exact E|].
  split; [exact HI'|]. split; [exact Fr|].
  intros aid a' Ha'. pose proof HI' as (((_ & HR' & _) & _) & _). pose proof Fr as (_ & _ & _ & AS & _).
  destruct (r2c_arch_static_rev s s' aid a' AS Ha') as (a & Ha & An & _).
  destruct (a_numrel a') eqn:En.
  - destruct (ri_norel _ _ HR' aid a' Ha' En) as (_ & G & _). rewrite G. reflexivity.
  - assert (Hin : In aid (w_relarchs s)) by (apply Hrel; exists a; split; [exact Ha|lia]).
    destruct (Hnone aid Hin) as (a'' & Ha'' & Hn). rewrite Ha' in Ha''. injection Ha'' as <-. exact Hn.
Qed.

(** ** The storage part of RemoveEntity with the two additional facts *)

Lemma r2e_rows_pool : forall e tid row s s1, r2c_rows e tid row s = Ok tt s1 -> pool_recycle (w_pool s) e = Some (w_pool s1).
Proof.
  intros e tid row s s1. unfold r2c_rows.
  cbv [bind get put modify setT modT getT pool_recycleM whenM ret of_opt fail].
  destruct (nth_error (w_tables s) tid) as [t|]; [|discriminate].
  destruct (tbl_remove t row) as [sw t1]. cbn.
  destruct (pool_recycle (w_pool s) e) as [p'|]; [|discriminate]. cbn.
  destruct sw.
  - destruct (nth_error (t_ents t1) row) as [se|]; [|discriminate]. cbn. intros H; inversion H; reflexivity.
  - cbn. intros H; inversion H; reflexivity.
Qed.

Lemma r2e_KL_of_KeysLive : forall k s s1, r2d_KeysLive s -> w_archs s1 = w_archs s ->
  (forall x, fst x <> k -> live s x = true -> live s1 x = true) -> r2e_KL k s1.
Proof.
  intros k s s1 HK EA HL aid a k' l Ha Hk'. rewrite EA in Ha. destruct (HK aid a k' l Ha Hk') as [H0|(g & Hg)]; [left; exact H0|].
  destruct (Nat.eq_dec k' k) as [->|Hne]; [right; left; reflexivity|]. right. right. exists g. apply HL; [exact Hne|exact Hg].
Qed.

Theorem r2e_core_spec : forall s e tid row, St2 s -> r2d_KeysLive s -> r2e_noobs s -> alive s e = true ->
  nth_error (w_index s) (fst e) = Some (Some tid, row) ->
  exists s', sb3_rm_core e tid row s = Ok tt s' /\
    St2 s' /\ r2d_KeysLive s' /\ live s e = true /\ live s' e = false /\ alive s' e = false /\
    (forall e', e' <> e -> live s' e' = live s e' /\ (forall c, val s' e' c = val s e' c) /\
       (forall c, tgt s' e' c = r2c_detached e (tgt s e' c))) /\
    frame_user s s' /\ side_same s s' /\ pool_recycle (w_pool s) e = Some (w_pool s') /\
    (forall aid a, nth_error (w_archs s') aid = Some a -> afind (fst e) (a_tgttabs a) = None).
Proof.
  intros s e tid row HS HK Hno Ha Hi. set (k := fst e).
  destruct (r2c_rows_spec s e tid row HS Ha Hi)
    as (s1 & E1 & HS1 & Hl & Hl1 & Ha1 & Hdead1 & OS1 & EA1 & EI1 & ER1 & PL1 & Hge & FU1 & SD1 & TM1).
  fold k in HS1, Hdead1, Hge.
  pose proof (r2e_rows_pool e tid row s s1 E1) as Hpool1.
  pose proof HS as (HW & (HR & HT) & HC). pose proof HS1 as (HW1 & HR1 & HT1 & HC1).
  pose proof (r2c_only_St2 s e HS Hl) as Honly.
  assert (Honly1 : r2c_only e s1).
  { intros x tx r Hx Hf Hin Hfst. destruct (r2c_tabs_meta_rev _ _ x tx TM1 Hx) as (tx0 & Hx0 & (M1 & M2 & M3 & M4 & M5 & M6) & _).
    rewrite M5 in Hin. rewrite M6 in Hf. apply (Honly x tx0 r Hx0 Hf Hin Hfst). }
  assert (Hst1 : forall aid a, nth_error (w_archs s1) aid = Some a -> r2_nostale a).
  { intros aid a Ha0. rewrite EA1 in Ha0. apply (r2c_nostale r2_none s aid a HR Ha0). right. intros k0 []. }
  assert (HKL1 : r2e_KL k s1).
  { apply (r2e_KL_of_KeysLive k s s1 HK EA1). intros x Hx Hlx. assert (Hne : x <> e) by (intros ->; apply Hx; reflexivity).
    rewrite (proj1 (OS1 x Hne)). exact Hlx. }
  pose proof (r2e_noobs_side s s1 SD1 Hno) as Hno1.
  assert (Fin : forall s', St2 s' -> live s' e = false ->
            (forall x, live s' x = live s1 x) -> (forall x c, val s' x c = val s1 x c) -> r2c_tgt_step k s1 s' ->
            forall e', e' <> e -> live s' e' = live s e' /\ (forall c, val s' e' c = val s e' c) /\
              (forall c, tgt s' e' c = r2c_detached e (tgt s e' c))).
  { intros s' HS' Hd' Lv Vl TS e' Hne. destruct (OS1 e' Hne) as (O1 & O2 & O3).
    split; [rewrite Lv; exact O1|]. split; [intros c; rewrite Vl; apply O2|]. intros c.
    pose proof (r2c_tgt_not_dead s' e e' c HS' Hd' Hge) as Hnd.
    destruct (TS e' c) as [Eq|(x & Hx & Hfx & Hz)].
    - rewrite Eq, O3. rewrite Eq, O3 in Hnd. destruct (tgt s e' c) as [x|]; [|reflexivity]. cbn [r2c_detached].
      destruct (ent_eqb x e) eqn:Ex; [|reflexivity]. apply sa_ent_eqb_eq in Ex. subst x. exfalso. apply Hnd. reflexivity.
    - rewrite O3 in Hx. rewrite Hz, Hx. cbn [r2c_detached].
      rewrite (r2c_tgt_same_id s e e' c x HS Hl Hx Hfx), sa_ent_eqb_refl. reflexivity. }
  (* from the cleanup's description of the keys to [r2d_KeysLive], once no key [k] is left *)
  assert (KLfin : forall s', r2e_KL k s' -> (forall aid a, nth_error (w_archs s') aid = Some a -> afind k (a_tgttabs a) = None) ->
            r2d_KeysLive s').
  { intros s' HKL' Hnk aid a k' l Ha' Hk'. destruct (HKL' aid a k' l Ha' Hk') as [H0|[H1|Hg]]; [left; exact H0| |right; exact Hg].
    subst k'. rewrite (Hnk aid a Ha') in Hk'. discriminate. }
  rewrite r2c_core_split. rewrite (sa_bind_ok E1). unfold r2c_tail. rewrite (sa_bind_ok (m := get) (s := s1) eq_refl).
  fold k. destruct (nth k (w_istarget s1) false) eqn:Efl; cbn [whenM].
  - destruct (r2e_cleanup_spec e s1 (conj (conj HS1 (conj Hdead1 Honly1)) (conj Hno1 HKL1)) Hge Hst1)
      as (s2 & E2 & ((HS2 & Hdead2 & _) & _ & HKL2) & Fr2 & Hnokey).
    fold k in HS2, Hdead2, Fr2, Hnokey, HKL2.
    rewrite (sa_bind_ok E2).
    set (s3 := s2 <| w_istarget := upd k false (w_istarget s2) |>).
    assert (E3 : modify (fun s0 : wstate => s0 <| w_istarget ::= upd k false |>) s2 = Ok tt s3) by reflexivity.
    rewrite E3. exists s3.
    pose proof Fr2 as (Lv2 & Vl2 & TS2 & _ & Pl2 & SD2 & FU2).
    assert (HS3 : St2 s3).
    { apply St2_St2G. apply (r2_St2G_flags r2_none r2_none r2_none r2_none s2 (upd k false (w_istarget s2))).
      - destruct HS2 as (W2 & R2 & T2 & C2). split; [exact W2|]. split; [|split; assumption].
        apply (r2_RelInvG_drop s2 (eq k) r2_none R2). intros k0 <-. right. exact Hnokey.
      - apply upd_length.
      - intros aid a k0 l Ha0 Hk0. destruct HS2 as (_ & _ & T2 & _).
        destruct (T2 aid a k0 l Ha0 Hk0) as [H0|[H1|[]]]; [left; exact H0|right; left].
        rewrite nth_upd_neq; [exact H1|]. intros ->. rewrite (Hnokey aid a Ha0) in Hk0. discriminate. }
    split; [reflexivity|]. split; [exact HS3|].
    split; [apply (KLfin s3); [exact HKL2|exact Hnokey]|]. split; [exact Hl|].
    assert (Hd3 : live s3 e = false) by (change (live s3 e) with (live s2 e); rewrite Lv2; exact Hl1).
    split; [exact Hd3|]. split.
    { change (alive s3 e) with (alive s2 e). unfold alive. rewrite Pl2. exact Ha1. }
    split.
    { apply (Fin s3 HS3 Hd3); [exact Lv2|exact Vl2|exact TS2]. }
    split; [apply (sa_frame_user_trans s s1 s3 FU1); exact FU2|].
    split; [apply (sa_side_same_trans s s1 s3 SD1); exact SD2|].
    split; [change (w_pool s3) with (w_pool s2); rewrite Pl2; exact Hpool1|exact Hnokey].
  - unfold ret. exists s1.
    assert (Hnokey : forall aid a, nth_error (w_archs s1) aid = Some a -> afind k (a_tgttabs a) = None).
    { intros aid a Ha0. destruct (afind k (a_tgttabs a)) as [l|] eqn:Hk0; [|reflexivity]. exfalso.
      destruct (HT1 aid a k l Ha0 Hk0) as [H0|[H1|[]]]; [lia|congruence]. }
    assert (HS1' : St2 s1).
    { apply St2_St2G. split; [exact HW1|]. split; [|split; assumption].
      apply (r2_RelInvG_drop s1 (eq k) r2_none HR1). intros k0 <-. right. exact Hnokey. }
    split; [reflexivity|]. split; [exact HS1'|]. split; [apply (KLfin s1 HKL1 Hnokey)|].
    split; [exact Hl|]. split; [exact Hl1|]. split; [exact Ha1|].
    split; [apply (Fin s1 HS1' Hl1); [reflexivity|reflexivity|apply r2c_tgt_step_refl]|].
    split; [exact FU1|]. split; [exact SD1|]. split; [exact Hpool1|exact Hnokey].
Qed.

(** RemoveEntity in a world without observers: exact description of both outcomes. *)
Theorem r2e_remove_entity_spec : forall s e, St2 s -> r2d_KeysLive s -> r2e_noobs s ->
  match storage_remove_entity e s with
  | Ok _ s' =>
      St2 s' /\ r2d_KeysLive s' /\ live s e = true /\ live s' e = false /\ alive s' e = false /\
      (forall e', e' <> e -> live s' e' = live s e' /\ (forall c, val s' e' c = val s e' c) /\
         (forall c, tgt s' e' c = r2c_detached e (tgt s e' c))) /\
      frame_user s s' /\ side_same s s' /\ pool_recycle (w_pool s) e = Some (w_pool s') /\
      (forall aid a, nth_error (w_archs s') aid = Some a -> afind (fst e) (a_tgttabs a) = None)
  | Err _ s' => s' = s /\ live s e = false
  end.
Proof.
  intros s e HS HK Hno. pose proof HS as (H & _).
  rewrite sb3_rm_unfold.
  destruct (alive s e) eqn:Ha.
  2:{ split; [reflexivity|]. destruct (live s e) eqn:Hl; [|reflexivity]. destruct (live_alive s e H Hl) as (Hc & _). congruence. }
  destruct (nth_error (w_index s) (fst e)) as [[[tid|] row]|] eqn:Hi;
    [|split; [reflexivity|unfold live, loc; rewrite Hi; reflexivity]|split; [reflexivity|unfold live, loc; rewrite Hi; reflexivity]].
  destruct (sb3_alive_index_live _ _ _ _ H Ha Hi) as (t & Ht & Hr & He). rewrite Ht.
  destruct (wf_layout _ H _ _ Ht) as (a & Ea & _). rewrite Ea.
  rewrite (Hno EvRemoveEntity), (Hno EvRemoveRelations), andb_false_r. cbn [orb whenM].
  rewrite (sa_bind_ok (m := ret tt) (s := s) eq_refl).
  destruct (r2e_core_spec s e tid row HS HK Hno Ha Hi) as (s' & E & P). rewrite E. exact P.
Qed.

Section r2e_ops2.
Variables (debug : bool) (s : W) (n : nat).
Hypothesis HI : Inv2 s n.
Hypothesis Hn : n + 4 < Nat.pow 2 31.
Let HS : St2 s := proj1 HI.
Let HW : WF s := proj1 HS.
Let HK : r2d_KeysLive s := proj1 (proj2 HI).
Let HQ : r2e_quiet s := proj1 (proj2 (proj2 HI)).
Let Hno : r2e_noobs s := proj1 HQ.
Let Hlk : is_locked s = false := proj2 HQ.
Let Hiss : issued_ok s n := proj2 (proj2 (proj2 HI)).

Lemma r2e_op_ORemoveEntity : forall h, r2e_post false s (step_op debug (ORemoveEntity h) s).
Proof.
  intros h. cbn [step_op]. apply (r2e_resolved_h s n HI). intros e Hh.
  rewrite (sa_bind_ok (sb1_check_locked_ok s Hlk)).
  pose proof (r2e_remove_entity_spec s e HS HK Hno) as Hs.
  unfold bind. destruct (storage_remove_entity e s) as [u s1|er s1].
  - destruct Hs as (R1 & R2 & R3 & R4 & _ & R6 & (F1 & _ & _ & _ & F5 & _) & R8 & R9 & _).
    apply r2e_post_false. cbn [state_of ret].
    split; [exact R1|]. split; [exact R2|]. split; [apply (r2e_quiet_side s s1 R8 HQ)|]. split; [exact F1|]. split; [exact F5|].
    right. exists e. split; [exact R9|]. split; [exact R3|]. intros x Hne Hx. rewrite (proj1 (R6 x Hne)). exact Hx.
  - destruct Hs as (-> & _). apply (r2e_refl_post s n HI).
Qed.
End r2e_ops2.

(* ================================================================================================ *)
(** * Part 5: creation / Add / Exchange with ARBITRARY relation lists (targets: proper handles)

    The theorems of Rel2Ops assume [r2a_rels_ok]. A script may pass anything: a component twice, a
    component that is not a relation, one that is not added, a dead target. Such a call either
    fails (GetTable's or createTable's checks; state unchanged except possibly a new archetype
    without table) or, when GetTable finds a table without looking at the list (archetype
    without relation components) or skips an entry (component not in the archetype), proceeds
    exactly like a call without the offending entries: the invariant is kept in both cases. *)

Lemma r2e_create_table_nodistinct : forall s aid a rels, nth_error (w_archs s) aid = Some a ->
  rels_distinct rels = false -> exists er, create_table aid rels s = Err er s.
Proof.
  intros s aid a rels Ha Hd. unfold create_table. rewrite (sa_bind_ok (sa_getA_eq _ _ _ Ha)). cbv beta.
  destruct (negb (Nat.ltb (length rels) (a_numrel a))); cbn [guard]; [|exists ERelUnspec; reflexivity].
  rewrite (sa_bind_ok (m := ret tt) (s := s) eq_refl). rewrite Hd. exists ERelUnspec. reflexivity.
Qed.

(** GetTable returns an active table of the archetype *)
Lemma r2e_agt_some : forall s aid a all t s', St2 s -> nth_error (w_archs s) aid = Some a ->
  arch_get_table a all s = Ok (Some t) s' ->
  s' = s /\ exists tb, nth_error (w_tables s) t = Some tb /\ t_arch tb = aid /\ t_free tb = false.
Proof.
  intros s aid a all t s' (HW & (HR & _) & _) Ha E.
  assert (Es : s' = s).
  { pose proof (r2e_ro_arch_get_table a all s) as Hro. rewrite E in Hro. exact Hro. }
  split; [exact Es|]. subst s'.
  destruct (Nat.eq_dec (a_numrel a) 0) as [Hz|Hnz].
  - unfold arch_get_table, arch_has_rels in E. destruct (a_tables a) as [|t0 tr] eqn:Et; [discriminate|].
    rewrite Hz in E. cbn in E. injection E as <-.
    assert (Hin : In t0 (a_tables a)) by (rewrite Et; left; reflexivity).
    destruct (wf_arch_tables _ HW aid a t0 Ha (or_introl Hin)) as (tb & Htb & Earch).
    exists tb. split; [exact Htb|]. split; [exact Earch|apply (ri_active _ _ HR aid a t0 tb Ha Hin Htb)].
  - destruct (r2b_arch_get_table_cases a all s Hnz) as [(er & E')|[E'|(t' & tb & j & m & k & tabs & E' & Hm & Hk & Hint & Htb & _)]];
      rewrite E' in E; try discriminate. injection E as <-.
    destruct (wf_arch_tables _ HW aid a t' Ha) as (tb' & Htb' & Earch); [right; right; left; exists j, m, k, tabs; repeat split; assumption|].
    rewrite Htb in Htb'. injection Htb' as <-.
    destruct (ri_reltabs _ _ HR aid a j m k tabs Ha Hm Hk) as (_ & _ & Hall). destruct (Hall t' Hint) as (tb' & Htb' & _ & Hfr).
    rewrite Htb in Htb'. injection Htb' as <-.
    exists tb. split; [exact Htb|]. split; [exact Earch|]. destruct (t_free tb); [destruct (Hfr eq_refl) as ([] & _)|reflexivity].
Qed.

Lemma r2e_keeps_relabel : forall s s' tid, r2_relabel s s' -> w_index s' = w_index s -> w_pool s' = w_pool s ->
  side_same s s' -> frame_user s s' ->
  (s' = s \/ ((nth_error (w_tables s) tid = None \/ (exists t0, nth_error (w_tables s) tid = Some t0 /\ t_free t0 = true)) /\
              (forall x, x <> tid -> nth_error (w_tables s') x = nth_error (w_tables s) x))) ->
  r2a_keeps s s'.
Proof.
  intros s s' tid R I2 P2 D2 F2 Hcase. split; [exact I2|]. split; [exact P2|]. split; [|split; [|split; assumption]].
  - intros x tx Hx Hfx. destruct Hcase as [->|(Hnew & Hoth)]; [exact Hx|].
    rewrite Hoth; [exact Hx|]. intros ->. destruct Hnew as [Hn|(t0 & Ht0 & Hf0)]; congruence.
  - intros i b Hb. destruct (rl_archs _ _ R i b Hb) as (b' & Hb' & Mb' & _). exists b'. split; assumption.
Qed.

(** GetTable-or-create when createTable would reject the list: GetTable may still find a table *)
Lemma r2e_goc_rejected : forall s aid a (all : list rel), St2 s -> nth_error (w_archs s) aid = Some a ->
  (exists er, create_table aid all s = Err er s) ->
  match get_or_create_table aid all s with
  | Ok tid s' => St2 s' /\ r2a_keeps s s' /\
      exists t a', nth_error (w_tables s') tid = Some t /\ t_arch t = aid /\ t_free t = false /\
                   nth_error (w_archs s') aid = Some a' /\ a_mask a' = a_mask a
  | Err _ s' => s' = s
  end.
Proof.
  intros s aid a all HS Ha (er & Erej). unfold get_or_create_table. rewrite (sa_bind_ok (sa_getA_eq _ _ _ Ha)).
  destruct (arch_get_table a all s) as [[t|] s1|er1 s1] eqn:Eg.
  - destruct (r2e_agt_some s aid a all t s1 HS Ha Eg) as (-> & tb & Htb & Earch & Hf).
    rewrite (sa_bind_ok Eg). unfold ret. split; [exact HS|]. split; [apply r2a_keeps_refl|].
    exists tb, a. repeat (split; [assumption|]). reflexivity.
  - pose proof (r2e_ro_arch_get_table a all s) as Hro. rewrite Eg in Hro. cbn [state_of] in Hro. subst s1.
    rewrite (sa_bind_ok Eg), Erej. reflexivity.
  - pose proof (r2e_ro_arch_get_table a all s) as Hro. rewrite Eg in Hro. cbn [state_of] in Hro. subst s1.
    rewrite (sa_bind_err Eg). reflexivity.
Qed.

(** GetTable-or-create with an arbitrary relation list *)
Lemma r2e_goc_any : forall s aid a (all : list rel), St2 s -> nth_error (w_archs s) aid = Some a ->
  (forall r, In r all -> r2b_handle_ok s (snd r)) ->
  match get_or_create_table aid all s with
  | Ok tid s' => St2 s' /\ r2a_keeps s s' /\
      exists t a', nth_error (w_tables s') tid = Some t /\ t_arch t = aid /\ t_free t = false /\
                   nth_error (w_archs s') aid = Some a' /\ a_mask a' = a_mask a
  | Err _ s' => s' = s
  end.
Proof.
  intros s aid a all HS Ha Hhok. pose proof HS as HS0. apply St2_St2G in HS0. pose proof HS0 as (HW & HR & _ & _).
  destruct (Nat.ltb (length all) (a_numrel a)) eqn:B1.
  { apply (r2e_goc_rejected s aid a all HS Ha). apply Nat.ltb_lt in B1. apply (create_table_rejects_invalid s aid a all Ha). left. exact B1. }
  destruct (rels_distinct all) eqn:B5.
  2:{ apply (r2e_goc_rejected s aid a all HS Ha). apply (r2e_create_table_nodistinct s aid a all Ha B5). }
  destruct (existsb (fun r : rel => match index_of (fst r) (a_comps a) with None => true | Some _ => false end) all) eqn:B2.
  { apply (r2e_goc_rejected s aid a all HS Ha).
    apply existsb_exists in B2. destruct B2 as (r & Hr & Hb). apply (create_table_rejects_invalid s aid a all Ha). right. left.
    exists r. split; [exact Hr|]. cbv beta in Hb. destruct (index_of (fst r) (a_comps a)) eqn:Ei; [discriminate Hb|exact Ei]. }
  destruct (existsb (fun r : rel => negb (is_rel_comp s (fst r))) all) eqn:B3.
  { apply (r2e_goc_rejected s aid a all HS Ha).
    apply existsb_exists in B3. destruct B3 as (r & Hr & Hb). apply (create_table_rejects_invalid s aid a all Ha). right. right. left.
    exists r. split; [exact Hr|]. cbv beta in Hb. apply negb_true_iff in Hb. exact Hb. }
  destruct (existsb (r2b_deadb s) all) eqn:B4.
  { apply (r2e_goc_rejected s aid a all HS Ha).
    apply existsb_exists in B4. destruct B4 as (r & Hr & Hb). apply (create_table_rejects_invalid s aid a all Ha). right. right. right.
    exists r. split; [exact Hr|]. unfold r2b_deadb in Hb. apply andb_true_iff in Hb. destruct Hb as (Hb1 & Hb2).
    apply negb_true_iff in Hb1, Hb2. apply Nat.eqb_neq in Hb1. split; assumption. }
  (* accepted: the list is valid *)
  apply Nat.ltb_ge in B1.
  assert (HV : r2_rels_valid s a all).
  { apply (r2a_valid_of_checks s aid a all HW Ha); [apply rl_rels_distinct_nodup; exact B5|exact B1| |].
    - intros r Hr. apply (r2a_relcol_iff s aid a (fst r) HW Ha). split.
      + destruct (index_of (fst r) (a_comps a)) as [i|] eqn:Ei.
        * apply rl_index_of_some in Ei. apply nth_error_In in Ei. destruct (wf_arch_comps _ HW aid a Ha) as (C1 & _).
          rewrite C1 in Ei. apply mk_to_list_spec in Ei. apply Ei.
        * exfalso. assert (Hc : existsb (fun r : rel => match index_of (fst r) (a_comps a) with None => true | Some _ => false end) all = true).
          { apply existsb_exists. exists r. split; [exact Hr|]. rewrite Ei. reflexivity. }
          congruence.
      + destruct (is_rel_comp s (fst r)) eqn:Er; [reflexivity|]. exfalso.
        assert (Hc : existsb (fun r : rel => negb (is_rel_comp s (fst r))) all = true).
        { apply existsb_exists. exists r. split; [exact Hr|]. rewrite Er. reflexivity. }
        congruence.
    - intros r Hr. destruct (Hhok r Hr) as [Hz|[Hl|(H1 & H2)]]; [left; exact Hz|right; exact Hl|]. exfalso.
      assert (Hc : existsb (r2b_deadb s) all = true).
      { apply existsb_exists. exists r. split; [exact Hr|]. unfold r2b_deadb. rewrite H2. apply Nat.eqb_neq in H1. rewrite H1. reflexivity. }
      congruence. }
  destruct (r2_get_or_create_table_spec r2_none r2_none r2_none s aid a all HS0 Ha HV)
    as (tid & s2 & t' & E2 & HS2 & R2 & Ht' & Earch & Hfree & _ & Hcase & _ & I2 & P2 & D2 & F2).
  { apply (r2c_nostale r2_none s aid a HR Ha). right. intros k []. }
  { intros x _ []. }
  rewrite E2. split; [apply St2_St2G; exact HS2|]. split.
  { apply (r2e_keeps_relabel s s2 tid R2 I2 P2 D2 F2). destruct Hcase as [->|(Hnew & _ & _ & Hoth & _)]; [left; reflexivity|right; split; assumption]. }
  destruct (rl_archs _ _ R2 aid a Ha) as (a' & Ha' & Ma' & _).
  exists t', a'. repeat (split; [assumption|]). exact Ma'.
Qed.

Lemma r2e_handle_ok_keeps : forall s s1 x, WF s -> RelInvG r2_none s -> r2a_keeps s s1 -> r2b_handle_ok s x -> r2b_handle_ok s1 x.
Proof.
  intros s s1 x HW HR K [Hz|[Hl|(H1 & H2)]]; [left; exact Hz| |].
  - right. left. destruct (r2a_keeps_obs r2_none s s1 HW HR K) as (C & _). rewrite (proj1 (C x)). exact Hl.
  - right. right. split; [exact H1|]. destruct K as (_ & K2 & _). unfold alive. rewrite K2. exact H2.
Qed.

(** what a finder returns, whatever the relation list was *)
Definition r2e_found (s : W) (m : mask) (tid aid : nat) (s' : W) : Prop :=
  St2 s' /\ r2a_keeps s s' /\
  exists t a, nth_error (w_tables s') tid = Some t /\ t_arch t = aid /\ t_free t = false /\
              nth_error (w_archs s') aid = Some a /\ a_mask a = m.

Lemma r2e_finder_tail : forall s old ot m (all : list rel), St2 s ->
  nth_error (w_tables s) old = Some ot -> t_free ot = false ->
  (forall j, mk_get m j = true -> j < length (w_reg s)) ->
  (forall r, In r all -> r2b_handle_ok s (snd r)) ->
  exists aid s1 a, find_or_create_arch m s = Ok aid s1 /\ getA aid s1 = Ok a s1 /\ a_mask a = m /\
    getT old s1 = Ok ot s1 /\ St2 s1 /\ r2a_keeps s s1 /\
    match get_or_create_table aid all s1 with
    | Ok tid s2 => r2e_found s m tid aid s2
    | Err _ s2 => s2 = s1
    end.
Proof.
  intros s old ot m all HS Hot Hfo Hm Hhok. pose proof HS as HS0. apply St2_St2G in HS0.
  pose proof HS0 as (HW & HR & HT & HC).
  destruct (r2a_find_arch r2_none r2_none r2_none s m HS0 Hm) as (aid & s1 & E1 & HS1 & X1 & D1 & F1 & a & Ha & Ma).
  pose proof (r2a_arch_ext_keeps s s1 X1 D1 F1) as K1.
  assert (HS1' : St2 s1) by (apply St2_St2G; exact HS1).
  exists aid, s1, a. split; [exact E1|]. split; [apply sa_getA_eq; exact Ha|]. split; [exact Ma|].
  split; [apply sa_getT_eq; destruct K1 as (_ & _ & K3 & _); apply K3; assumption|].
  split; [exact HS1'|]. split; [exact K1|].
  pose proof (r2e_goc_any s1 aid a all HS1' Ha (fun r Hr => r2e_handle_ok_keeps s s1 (snd r) HW HR K1 (Hhok r Hr))) as G.
  destruct (get_or_create_table aid all s1) as [tid s2|er s2]; [|exact G].
  destruct G as (HS2 & K2 & t & a' & Ht & Hta & Hft & Ha' & Ma'). split; [exact HS2|]. split; [eapply r2a_keeps_trans; eassumption|].
  exists t, a'. repeat (split; [assumption|]). congruence.
Qed.

Lemma r2e_old_rels_ok : forall s old ot, St2 s -> nth_error (w_tables s) old = Some ot -> t_free ot = false ->
  forall r, In r (t_rels ot) -> r2b_handle_ok s (snd r).
Proof.
  intros s old ot (_ & (HR & _) & _) Hot Hfo r Hr.
  destruct (ri_targets_ok _ _ HR old ot r Hot Hfo Hr) as [Hz|[Hl|[]]]; [left; exact Hz|right; left; exact Hl].
Qed.

Lemma r2e_mask_reg : forall s aid oa add m, WF s -> nth_error (w_archs s) aid = Some oa -> registered s add ->
  (forall c, mk_get m c = true -> mk_get (a_mask oa) c = true \/ In c add) ->
  forall j, mk_get m j = true -> j < length (w_reg s).
Proof.
  intros s aid oa add m HW Hoa Hreg Hm1 j Hj. destruct (Hm1 j Hj) as [H0|Ha]; [|apply Hreg; exact Ha].
  destruct (wf_arch_comps _ HW _ oa Hoa) as (_ & C2 & _). apply C2. exact H0.
Qed.

Lemma r2e_find_add : forall s old ot oa add (rels : list rel), St2 s ->
  nth_error (w_tables s) old = Some ot -> t_free ot = false -> nth_error (w_archs s) (t_arch ot) = Some oa ->
  registered s add -> (forall r, In r rels -> r2b_handle_ok s (snd r)) ->
  match find_or_create_table_add old add rels (a_mask oa) s with
  | Ok (tid, aid, m) s' =>
      r2e_found s m tid aid s' /\
      (forall j, mk_get m j = (mk_get (a_mask oa) j || memb j add)%bool) /\ NoDup add /\
      (forall c, In c add -> mk_get (a_mask oa) c = false)
  | Err _ s' => St2 s' /\ r2a_keeps s s'
  end.
Proof.
  intros s old ot oa add rels HS Hot Hfo Hoa Hreg Hhok. pose proof HS as (HW & _). unfold find_or_create_table_add.
  pose proof (sa_gf_add_spec None add (a_mask oa) s) as G.
  destruct (gf_add None add (a_mask oa) s) as [m s0|e s0] eqn:EG.
  - destruct G as (-> & Hm & ND & Hf & _). rewrite (sa_bind_ok EG).
    assert (Hm1 : forall c, mk_get m c = true -> mk_get (a_mask oa) c = true \/ In c add).
    { intros c Hc. rewrite Hm in Hc. apply orb_true_iff in Hc. destruct Hc as [Hc|Hc]; [left; exact Hc|right; apply sa_memb_in; exact Hc]. }
    set (all := match rels with [] => t_rels ot | _ :: _ => t_rels ot ++ rels end).
    assert (Hall : forall r, In r all -> r2b_handle_ok s (snd r)).
    { intros r Hr. unfold all in Hr. rewrite r2a_match_app in Hr. apply in_app_iff in Hr. destruct Hr as [Hr|Hr]; [|apply Hhok; exact Hr].
      apply (r2e_old_rels_ok s old ot HS Hot Hfo r Hr). }
    destruct (r2e_finder_tail s old ot m all HS Hot Hfo (r2e_mask_reg s _ oa add m HW Hoa Hreg Hm1) Hall)
      as (aid & s1 & a & E1 & E2 & Ma & E3 & HS1 & K1 & Hres).
    rewrite (sa_bind_ok E1), (sa_bind_ok E3). fold all.
    destruct (get_or_create_table aid all s1) as [tid s2|er s2] eqn:E4.
    + rewrite (sa_bind_ok E4). unfold ret. split; [exact Hres|]. split; [exact Hm|]. split; assumption.
    + rewrite (sa_bind_err E4). subst s2. split; assumption.
  - destruct G as (-> & _). rewrite (sa_bind_err EG). split; [exact HS|apply r2a_keeps_refl].
Qed.

Lemma r2e_find_exchange : forall s old ot oa add rem (rels : list rel), St2 s ->
  nth_error (w_tables s) old = Some ot -> t_free ot = false -> nth_error (w_archs s) (t_arch ot) = Some oa ->
  registered s add -> (forall r, In r rels -> r2b_handle_ok s (snd r)) ->
  match find_or_create_table old add rem rels (a_mask oa) s with
  | Ok (tid, aid, m, removed) s' =>
      r2e_found s m tid aid s' /\
      (forall j, mk_get m j = ((mk_get (a_mask oa) j && negb (memb j rem)) || memb j add)%bool) /\
      NoDup add /\ NoDup rem /\ (forall c, In c rem -> mk_get (a_mask oa) c = true) /\
      (forall c, In c add -> mk_get (a_mask oa) c = false)
  | Err _ s' => St2 s' /\ r2a_keeps s s'
  end.
Proof.
  intros s old ot oa add rem rels HS Hot Hfo Hoa Hreg Hhok. pose proof HS as (HW & _). unfold find_or_create_table.
  pose proof (sa_gf_remove_spec rem (a_mask oa) s) as G.
  destruct (gf_remove rem (a_mask oa) s) as [m1 s0|e s0] eqn:EG.
  2:{ destruct G as (-> & _). rewrite (sa_bind_err EG). split; [exact HS|apply r2a_keeps_refl]. }
  destruct G as (-> & Hm1' & NDr & Hfr). rewrite (sa_bind_ok EG).
  pose proof (sa_gf_add_spec (Some (a_mask oa)) add m1 s) as G.
  destruct (gf_add (Some (a_mask oa)) add m1 s) as [m s0|e s0] eqn:EG2.
  2:{ destruct G as (-> & _). rewrite (sa_bind_err EG2). split; [exact HS|apply r2a_keeps_refl]. }
  destruct G as (-> & Hm & NDa & Hfa & Hsa). rewrite (sa_bind_ok EG2).
  assert (Hdis : forall c, In c add -> mk_get (a_mask oa) c = false) by (intros c Hc; apply (Hsa _ eq_refl c Hc)).
  assert (Hmask : forall j, mk_get m j = ((mk_get (a_mask oa) j && negb (memb j rem)) || memb j add)%bool).
  { intros j. rewrite Hm, Hm1'. reflexivity. }
  assert (Hm1 : forall c, mk_get m c = true -> mk_get (a_mask oa) c = true \/ In c add).
  { intros c Hc. rewrite Hmask in Hc. apply orb_true_iff in Hc. destruct Hc as [Hc|Hc]; [left|right; apply sa_memb_in; exact Hc].
    apply andb_true_iff in Hc. apply Hc. }
  set (all := filter (fun r : rel => mk_get m (fst r)) (t_rels ot) ++ rels).
  assert (Hall : forall r, In r all -> r2b_handle_ok s (snd r)).
  { intros r Hr. unfold all in Hr. apply in_app_iff in Hr. destruct Hr as [Hr|Hr]; [|apply Hhok; exact Hr].
    apply filter_In in Hr. apply (r2e_old_rels_ok s old ot HS Hot Hfo r (proj1 Hr)). }
  destruct (r2e_finder_tail s old ot m all HS Hot Hfo (r2e_mask_reg s _ oa add m HW Hoa Hreg Hm1) Hall)
    as (aid & s1 & a & E1 & E2 & Ma & E3 & HS1 & K1 & Hres).
  rewrite (sa_bind_ok E1), (sa_bind_ok E2), (sa_bind_ok E3).
  assert (Eall : (match rem with
                  | [] => (match rels with [] => t_rels ot | _ :: _ => t_rels ot ++ rels end, false)
                  | _ :: _ => let '(sv, rm) := surviving_rels a (t_rels ot) in (sv ++ rels, rm)
                  end) = (all, match rem with [] => false | _ :: _ => snd (surviving_rels a (t_rels ot)) end)).
  { unfold all. destruct rem as [|c0 rem'].
    - rewrite r2a_match_app. rewrite (r2a_filter_all _ (fun r : rel => mk_get m (fst r)) (t_rels ot)); [reflexivity|].
      intros r Hr. rewrite Hmask. rewrite (r2a_rels_in_mask s old ot oa HS Hot Hoa r Hr). reflexivity.
    - unfold surviving_rels. rewrite Ma. reflexivity. }
  rewrite Eall.
  destruct (get_or_create_table aid all s1) as [tid s2|er s2] eqn:E4.
  - rewrite (sa_bind_ok E4). unfold ret. split; [exact Hres|]. split; [exact Hmask|]. repeat split; assumption.
  - rewrite (sa_bind_err E4). subst s2. split; assumption.
Qed.

(** the common prefix of Add / Exchange: guards, index lookup, old mask *)
Lemma r2e_prefix : forall (P : W -> Prop) A (G : bool) (k : nat -> nat -> mask -> MW A) s e, WF s -> P s ->
  (forall otid row ot oa, G = true -> is_locked s = false -> live s e = true -> loc s e = Some (otid, row) ->
     nth_error (w_tables s) otid = Some ot -> nth_error (w_archs s) (t_arch ot) = Some oa ->
     P (state_of (k otid row (a_mask oa) s))) ->
  P (state_of ((check_locked ;;; s0 <- get ;; guard (alive s0 e) EDead ;;; guard G ENoComps ;;;
                ix <- get_index e ;; let '(otid, row) := ix in om <- arch_mask_of_table otid ;; k otid row om) s)).
Proof.
  intros P A G k s e HW HP Hk.
  destruct (is_locked s) eqn:Hlk.
  { rewrite (sa_bind_err (sb2_check_locked_err s Hlk)). exact HP. }
  rewrite (sa_bind_ok (sb2_check_locked_ok s Hlk)). rewrite sb2_bind_get.
  destruct (alive s e) eqn:Hal; [|rewrite sb2_bind_guard_false; exact HP].
  rewrite sb2_bind_guard_true. destruct G eqn:HG; [|rewrite sb2_bind_guard_false; exact HP].
  rewrite sb2_bind_guard_true.
  destruct (nth_error (w_index s) (fst e)) as [[[otid|] row]|] eqn:Ei.
  2:{ rewrite (sa_bind_err (sb2_get_index_err s e ltac:(intros t r Hc; rewrite Ei in Hc; discriminate))). exact HP. }
  2:{ rewrite (sa_bind_err (sb2_get_index_err s e ltac:(intros t r Hc; rewrite Ei in Hc; discriminate))). exact HP. }
  rewrite (sa_bind_ok (sb2_get_index_ok s e otid row Ei)). cbv beta iota.
  assert (Hlive : live s e = true) by (eapply sb2_alive_index_live; eauto).
  assert (Hloc : loc s e = Some (otid, row)) by (apply sb2_loc_iff; exact Ei).
  destruct (wf_index _ HW _ _ _ Ei) as (ot & Hot & _ & _).
  destruct (wf_layout _ HW _ _ Hot) as (oa & Hoa & _).
  rewrite (sa_bind_ok (sb2_arch_mask_ok s otid ot oa Hot Hoa)).
  apply (Hk otid row ot oa); auto.
Qed.

Definition r2e_same (s s' : W) : Prop := St2 s' /\ forall x, live s' x = live s x.

Lemma r2e_same_refl : forall s, St2 s -> r2e_same s s.
Proof. intros s H. split; [exact H|reflexivity]. Qed.

Lemma r2e_same_keeps : forall s s', St2 s -> St2 s' -> r2a_keeps s s' -> r2e_same s s'.
Proof.
  intros s s' HS HS' K. split; [exact HS'|]. pose proof HS as HS0. apply St2_St2G in HS0. destruct HS0 as (HW & HR & _).
  destruct (r2a_keeps_obs r2_none s s' HW HR K) as (C & _). intros x. apply C.
Qed.

(** the tail shared by Add and Exchange after the finder (and the removal events): the move of the row and
    the registration of the named targets *)
Lemma r2e_move_tail : forall s s1 e otid row ot oa ntid naid m (rels : list rel), St2 s -> St2 s1 -> r2a_keeps s s1 -> room s ->
  live s e = true -> loc s e = Some (otid, row) -> nth_error (w_tables s) otid = Some ot ->
  nth_error (w_archs s) (t_arch ot) = Some oa ->
  (exists t a, nth_error (w_tables s1) ntid = Some t /\ t_arch t = naid /\ t_free t = false /\
               nth_error (w_archs s1) naid = Some a /\ a_mask a = m) ->
  m <> a_mask oa ->
  (forall r, In r rels -> fst (snd r) < length (w_istarget s)) ->
  forall (om : mask),
  r2e_same s (state_of ((nidx <- tbl_addM ntid e ;; copy_row otid ntid m row nidx ;;; remove_row otid row ;;;
                         set_index_direct e ntid nidx ;;; register_targets rels ;;; na <- getA naid ;; ret (om, a_mask na)) s1)).
Proof.
  intros s s1 e otid row ot oa ntid naid m rels HS HS1 K Hroom Hlive Hloc Hot Hoa (nt & na & Hnt & Hnaid & Hfn & Hna & Hma) Hmne Hrange om.
  pose proof HS as HS0. apply St2_St2G in HS0. destruct HS0 as (HW & HR & _ & _).
  destruct (r2a_after_finder s s1 e otid row ot oa HS HS1 K Hroom Hlive Hloc Hot Hoa)
    as (_ & Hlive1 & Hloc1 & Hot1 & (oa1 & Hoa1 & Hmask1) & Hroom1 & Hcs & _ & Hil).
  subst naid m.
  assert (Hmne' : a_mask oa1 <> a_mask na) by (rewrite Hmask1; intros Heq; apply Hmne; symmetry; exact Heq).
  pose proof HS1 as HS1g. apply St2_St2G in HS1g.
  destruct (r2a_move_spec r2_none r2_none r2_none s1 e otid row ntid ot nt oa1 na HS1g Hroom1 Hlive1 Hloc1 Hot1 Hnt Hoa1 Hna Hmne' Hfn)
    as (s2 & Hrun & HS2 & Hlive2 & _ & _ & Hoth2 & _ & Hist2 & Harchs2 & _ & _).
  rewrite Hrun. apply St2_St2G in HS2.
  destruct (r2a_register_tail s2 rels HS2) as (l' & Ereg & HS3 & _).
  { intros r Hr. rewrite Hist2, Hil. apply Hrange. exact Hr. }
  rewrite (sa_bind_ok Ereg).
  destruct (r2a_flags_obs s2 l') as (L3 & _ & _ & _ & A3 & _ & _).
  rewrite (sa_bind_ok (sb2_getA _ _ _ ltac:(rewrite A3, Harchs2; exact Hna))). unfold ret. cbn [state_of].
  split; [exact HS3|]. intros x. rewrite L3. destruct (ent_eqb x e) eqn:Ex.
  - apply sa_ent_eqb_eq in Ex. subst x. rewrite Hlive2, Hlive. reflexivity.
  - assert (Hne : x <> e) by (intros ->; rewrite sa_ent_eqb_refl in Ex; discriminate).
    rewrite (proj1 (Hoth2 x Hne)). apply Hcs.
Qed.

(** Add with an arbitrary relation list *)
Theorem r2e_add_any : forall s e add (rels : list rel), St2 s -> room s -> registered s add ->
  (forall r, In r rels -> r2b_handle_ok s (snd r) /\ fst (snd r) < length (w_istarget s)) ->
  r2e_same s (state_of (w_add e add rels s)).
Proof.
  intros s e add rels HS Hroom Hreg Hrels. pose proof HS as (HW & _). unfold w_add.
  apply (r2e_prefix (r2e_same s) _ (negb (is_nil add))
           (fun otid row om => r <- find_or_create_table_add otid add rels om ;;
              let '(ntid, naid, m) := r in
              nidx <- tbl_addM ntid e ;; copy_row otid ntid m row nidx ;;; remove_row otid row ;;;
              set_index_direct e ntid nidx ;;; register_targets rels ;;; na <- getA naid ;; ret (om, a_mask na)) s e HW (r2e_same_refl s HS)).
  intros otid row ot oa HG Hlk Hlive Hloc Hot Hoa.
  destruct (r2a_after_finder s s e otid row ot oa HS HS (r2a_keeps_refl s) Hroom Hlive Hloc Hot Hoa) as (Hfo & _).
  pose proof (r2e_find_add s otid ot oa add rels HS Hot Hfo Hoa Hreg (fun r Hr => proj1 (Hrels r Hr))) as Hf.
  destruct (find_or_create_table_add otid add rels (a_mask oa) s) as [[[ntid naid] m] s1|er s1] eqn:Ef.
  2:{ rewrite (sa_bind_err Ef). cbn [state_of]. destruct Hf as (F1 & F2). apply (r2e_same_keeps s s1 HS F1 F2). }
  rewrite (sa_bind_ok Ef). cbv beta iota.
  destruct Hf as ((HS1 & K & Hex) & Hmk & Hnd & Hdis).
  apply (r2e_move_tail s s1 e otid row ot oa ntid naid m rels HS HS1 K Hroom Hlive Hloc Hot Hoa Hex).
  - intros Heq. assert (Hadd : add <> []) by (apply sb2_nil_not; exact HG). destruct add as [|c add']; [congruence|].
    specialize (Hmk c). rewrite Heq, (Hdis c (or_introl eq_refl)), sb2_memb_cons, Nat.eqb_refl in Hmk. discriminate.
  - intros r Hr. apply (Hrels r Hr).
Qed.

Lemma r2e_fire_remove_noobs : forall s e om m rr, r2e_noobs s -> fire_remove_events e om m rr s = Ok tt s.
Proof.
  intros s e om m rr Hn. unfold fire_remove_events. rewrite sb2_bind_get.
  rewrite (Hn EvRemoveComponents), (Hn EvRemoveRelations), andb_false_r. reflexivity.
Qed.

(** Exchange with an arbitrary relation list (no observers) *)
Theorem r2e_exchange_any : forall s e add rem (rels : list rel), St2 s -> room s -> r2e_noobs s -> registered s add ->
  (forall r, In r rels -> r2b_handle_ok s (snd r) /\ fst (snd r) < length (w_istarget s)) ->
  r2e_same s (state_of (w_exchange e add rem rels s)).
Proof.
  intros s e add rem rels HS Hroom Hno Hreg Hrels. pose proof HS as (HW & _). unfold w_exchange.
  apply (r2e_prefix (r2e_same s) _ (negb (is_nil add && is_nil rem))
           (fun otid row om => r <- find_or_create_table otid add rem rels om ;;
              let '(ntid, naid, m, rel_removed) := r in
              whenM (negb (is_nil rem)) (fire_remove_events e om m rel_removed) ;;;
              nidx <- tbl_addM ntid e ;; copy_row otid ntid m row nidx ;;; remove_row otid row ;;;
              set_index_direct e ntid nidx ;;; register_targets rels ;;; na <- getA naid ;; ret (om, a_mask na)) s e HW (r2e_same_refl s HS)).
  intros otid row ot oa HG Hlk Hlive Hloc Hot Hoa.
  destruct (r2a_after_finder s s e otid row ot oa HS HS (r2a_keeps_refl s) Hroom Hlive Hloc Hot Hoa) as (Hfo & _).
  pose proof (r2e_find_exchange s otid ot oa add rem rels HS Hot Hfo Hoa Hreg (fun r Hr => proj1 (Hrels r Hr))) as Hf.
  destruct (find_or_create_table otid add rem rels (a_mask oa) s) as [[[[ntid naid] m] rr] s1|er s1] eqn:Ef.
  2:{ rewrite (sa_bind_err Ef). cbn [state_of]. destruct Hf as (F1 & F2). apply (r2e_same_keeps s s1 HS F1 F2). }
  rewrite (sa_bind_ok Ef). cbv beta iota.
  destruct Hf as ((HS1 & K & Hex) & Hmk & Hnda & Hndr & Hsub & Hdis).
  assert (Hno1 : r2e_noobs s1) by (destruct K as (_ & _ & _ & _ & K5 & _); apply (r2e_noobs_side s s1 K5 Hno)).
  assert (Efire : whenM (negb (is_nil rem)) (fire_remove_events e (a_mask oa) m rr) s1 = Ok tt s1).
  { destruct (negb (is_nil rem)); cbn [whenM]; [apply (r2e_fire_remove_noobs s1 e _ m rr Hno1)|reflexivity]. }
  rewrite (sa_bind_ok Efire).
  apply (r2e_move_tail s s1 e otid row ot oa ntid naid m rels HS HS1 K Hroom Hlive Hloc Hot Hoa Hex).
  - intros Heq. destruct add as [|c add'].
    + destruct rem as [|c rem']; [discriminate HG|].
      specialize (Hmk c). rewrite Heq, (Hsub c (or_introl eq_refl)), sb2_memb_cons, Nat.eqb_refl in Hmk. discriminate.
    + specialize (Hmk c). rewrite Heq, (Hdis c (or_introl eq_refl)), sb2_memb_cons, Nat.eqb_refl in Hmk. discriminate.
  - intros r Hr. apply (Hrels r Hr).
Qed.

(** creation with an arbitrary relation list *)
Theorem r2e_new_entity_any : forall s ids (rels : list rel), St2 s -> room s -> registered s ids ->
  (forall r, In r rels -> r2b_handle_ok s (snd r) /\ fst (snd r) < length (w_istarget s)) ->
  match new_entity ids rels s with
  | Ok (e, m) s' => St2 s' /\ live s e = false /\ live s' e = true /\ alive s' e = true /\
                    (forall x, x <> e -> live s' x = live s x)
  | Err _ s' => r2e_same s s'
  end.
Proof.
  intros s ids rels HS Hroom Hreg Hrels. pose proof HS as HS0. apply St2_St2G in HS0. destruct HS0 as (HW & HR & _ & _).
  unfold new_entity.
  destruct (is_locked s) eqn:El.
  { rewrite (sa_bind_err (sb1_check_locked_err s El)). apply (r2e_same_refl s HS). }
  rewrite (sa_bind_ok (sb1_check_locked_ok s El)).
  destruct (r2a_table0 s HS) as (a0 & t0 & Ha0 & Hm0 & Ht0 & Hta0 & Hft0).
  assert (Ha0' : nth_error (w_archs s) (t_arch t0) = Some a0) by (rewrite Hta0; exact Ha0).
  pose proof (r2e_find_add s 0 t0 a0 ids rels HS Ht0 Hft0 Ha0' Hreg (fun r Hr => proj1 (Hrels r Hr))) as Hf. rewrite Hm0 in Hf.
  destruct (find_or_create_table_add 0 ids rels 0%N s) as [[[tid aid] m] s1 | er s1] eqn:Ef.
  2:{ rewrite (sa_bind_err Ef). destruct Hf as (F1 & F2). apply (r2e_same_keeps s s1 HS F1 F2). }
  rewrite (sa_bind_ok Ef). cbv beta iota.
  destruct Hf as ((HS1 & K & nt & na & Hnt & Hnaid & Hfn & Hna & Hma) & _).
  pose proof HS1 as HS1g. apply St2_St2G in HS1g. destruct HS1g as (HW1 & HR1 & _ & _).
  destruct (r2a_keeps_obs r2_none s s1 HW HR K) as (Hcs & _).
  assert (Hroom1 : room s1) by (apply (r2a_keeps_room s s1 K Hroom)).
  pose proof (r2a_keeps_istarget_len s s1 HW HW1 K) as Hil.
  destruct (pool_get (w_pool s1)) as [e p'] eqn:Hg.
  rewrite (sb1_place_run _ s1 tid nt e p'
             (fun e _ => register_targets rels ;;; a <- getA aid ;; ret (e, a_mask a)) Hnt Hg).
  pose proof (r2a_place_new s1 tid nt e p' HS1 Hnt Hfn Hroom1 Hg) as H. cbv zeta in H.
  set (s2 := sb1_st2 s1 p' (upd tid (snd (tbl_add nt e)) (w_tables s1)) (sb1_idx s1 e (Some tid, t_len nt)) (sb1_ist s1 e)) in *.
  destruct H as (HS2 & H2 & H3 & H4 & _ & _ & H6 & _ & _ & _ & H10 & H11).
  destruct (r2a_register_tail s2 rels HS2) as (l' & Ereg & HS3 & _).
  { intros r Hr. pose proof (proj2 (Hrels r Hr)). lia. }
  rewrite (sa_bind_ok Ereg).
  destruct (r2a_flags_obs s2 l') as (L3 & _ & _ & _ & A3 & _ & _).
  rewrite (sa_bind_ok (sb1_getA_eq _ _ _ ltac:(rewrite A3, H10; exact Hna))). unfold ret.
  split; [exact HS3|]. split; [rewrite <- (proj1 (Hcs e)); exact H2|]. split; [rewrite L3; exact H3|]. split; [exact H4|].
  intros x Hx. rewrite L3, (proj1 (H6 x Hx)). apply Hcs.
Qed.

Lemma r2e_fire_add_noobs : forall s evt e o n, r2e_noobs s -> fire_add_if_has evt e o n s = Ok tt s.
Proof. intros s evt e o n Hn. unfold fire_add_if_has. rewrite sb2_bind_get, (Hn evt). reflexivity. Qed.

Section r2e_ops3.
Variables (debug : bool) (s : W) (n : nat).
Hypothesis HI : Inv2 s n.
Hypothesis Hn : n + 4 < Nat.pow 2 31.
Let HS : St2 s := proj1 HI.
Let HW : WF s := proj1 HS.
Let HK : r2d_KeysLive s := proj1 (proj2 HI).
Let HQ : r2e_quiet s := proj1 (proj2 (proj2 HI)).
Let Hno : r2e_noobs s := proj1 HQ.
Let Hlk : is_locked s = false := proj2 HQ.
Let Hiss : issued_ok s n := proj2 (proj2 (proj2 HI)).
Let Hroom : room s := r2e_room s n HI Hn.

Lemma r2e_rels_hyp : forall hrels rels, r2e_resolved s hrels rels ->
  forall r, In r rels -> r2b_handle_ok s (snd r) /\ fst (snd r) < length (w_istarget s).
Proof. intros hrels rels HR. apply (r2e_resolved_ok s n hrels rels HW Hiss HR). Qed.

(** creation through [new_entity], followed by the (vacuous) dispatch of the creation events *)
Lemma r2e_new_post : forall ids (rels : list rel) (tail : ent -> mask -> MW (list Z)), registered s ids ->
  (forall r, In r rels -> r2b_handle_ok s (snd r) /\ fst (snd r) < length (w_istarget s)) ->
  (forall e m s1, r2e_noobs s1 -> tail e m s1 = Ok (Zent e) s1) ->
  r2e_post true s ((r <- new_entity ids rels ;; let '(e, m) := r in tail e m) s).
Proof.
  intros ids rels tail Hreg Hrels Htail.
  pose proof (r2e_new_entity_any s ids rels HS Hroom Hreg Hrels) as Hs.
  pose proof (r2e_fc_new_entity ids rels s) as Hf.
  unfold bind at 1. destruct (new_entity ids rels s) as [[e m] s1|er s1]; cbn [state_of] in Hf.
  - destruct Hs as (C1 & C2 & C3 & C4 & C5). cbv beta iota.
    assert (HT : r2e_trans s s1).
    { apply (r2e_trans_fc s s1 n HI C1 Hf). intros x Hx. assert (Hne : x <> e) by (intros ->; congruence).
      rewrite (C5 x Hne). exact Hx. }
    rewrite (Htail e m s1 (proj1 (proj1 (proj2 (proj2 HT))))).
    split; [exact HT|]. intros _ res s' H. inversion H; subst. exists e. split; [reflexivity|]. split; [assumption|]. split; assumption.
  - apply r2e_post_err. destruct Hs as (C1 & C2). apply (r2e_trans_fc s s1 n HI C1 Hf). intros x Hx. rewrite C2. exact Hx.
Qed.

Lemma r2e_op_OUNew : forall ids, registered s ids -> r2e_post true s (step_op debug (OUNew ids) s).
Proof.
  intros ids Hreg. cbn [step_op].
  apply (r2e_new_post ids [] (fun e m => fire_create_entity_if_has e m ;;; ret (Zent e)) Hreg).
  - intros r [].
  - intros e m s1 Hn1. rewrite (sa_bind_ok (sb1_fire_create_noobs s1 e m (Hn1 EvCreateEntity))). reflexivity.
Qed.

Lemma r2e_op_OUNewRel : forall ids hrels, registered s ids -> r2e_post true s (step_op debug (OUNewRel ids hrels) s).
Proof.
  intros ids hrels Hreg. cbn [step_op]. apply (r2e_resolved_r s n HI). intros rels HR.
  apply (r2e_new_post ids rels (fun e m => fire_create_entity_if_has e m ;;;
           whenM (negb (is_nil rels)) (fire_create_entity_rel_if_has e m) ;;; ret (Zent e)) Hreg).
  - apply (r2e_rels_hyp hrels rels HR).
  - intros e m s1 Hn1. rewrite (sa_bind_ok (sb1_fire_create_noobs s1 e m (Hn1 EvCreateEntity))).
    destruct (negb (is_nil rels)); cbn [whenM]; [|reflexivity].
    rewrite (sa_bind_ok (r2d_fire_create_rel_noobs s1 e m (Hn1 EvAddRelations))). reflexivity.
Qed.

(** the common prefix [resolveH h ;; get ;; guard alive] *)
Lemma r2e_guarded : forall h (k : ent -> MW (list Z)),
  (forall e, handle s h = Some e -> alive s e = true -> r2e_post false s (k e s)) ->
  r2e_post false s ((e <- resolveH h ;; s0 <- get ;; guard (alive s0 e) EDead ;;; k e) s).
Proof.
  intros h k H. apply (r2e_resolved_h s n HI). intros e Hh.
  rewrite sb2_bind_get. cbv beta. destruct (alive s e) eqn:Ha.
  - rewrite sb2_bind_guard_true. apply H; auto.
  - rewrite sb2_bind_guard_false. apply (r2e_refl_post s n HI).
Qed.

(** a pool-keeping operation on stored entities followed by (vacuous) event dispatch *)
Lemma r2e_same_post : forall A (m : MW A) (tail : A -> MW (list Z)), r2e_fkp m -> r2e_same s (state_of (m s)) ->
  (forall a s1, r2e_noobs s1 -> exists res, tail a s1 = Ok res s1) ->
  r2e_post false s ((a <- m ;; tail a) s).
Proof.
  intros A m tail Hfk (Hs1 & Hs2) Htail. specialize (Hfk s).
  assert (HT : r2e_trans s (state_of (m s))).
  { apply (r2e_trans_fk s _ n HI Hs1 Hfk). intros x Hx. rewrite Hs2. exact Hx. }
  apply r2e_post_false. unfold bind. destruct (m s) as [a s1|er s1]; cbn [state_of] in *; [|exact HT].
  destruct (Htail a s1 (proj1 (proj1 (proj2 (proj2 HT))))) as (res & ->). exact HT.
Qed.

Lemma r2e_op_OUAdd : forall h ids, registered s ids -> r2e_post false s (step_op debug (OUAdd h ids) s).
Proof.
  intros h ids Hreg. cbn [step_op].
  apply (r2e_guarded h (fun e => r <- w_add e ids [] ;; fire_add_if_has EvAddComponents e (fst r) (snd r) ;;; ret [])).
  intros e Hh Ha. apply r2e_same_post; [apply r2e_fkp_w_add| |].
  - apply (r2e_add_any s e ids [] HS Hroom Hreg). intros r [].
  - intros r s1 Hn1. rewrite (sa_bind_ok (r2e_fire_add_noobs s1 _ e _ _ Hn1)). eexists. reflexivity.
Qed.

Lemma r2e_op_OUAddRel : forall h ids hrels, registered s ids -> r2e_post false s (step_op debug (OUAddRel h ids hrels) s).
Proof.
  intros h ids hrels Hreg. cbn [step_op].
  apply (r2e_guarded h (fun e => rels <- resolveR hrels ;; r <- w_add e ids rels ;;
           fire_add_if_has EvAddComponents e (fst r) (snd r) ;;;
           whenM (negb (is_nil rels)) (fire_add_if_has EvAddRelations e (fst r) (snd r)) ;;; ret [])).
  intros e Hh Ha. apply (r2e_resolved_r s n HI). intros rels HR.
  apply r2e_same_post; [apply r2e_fkp_w_add| |].
  - apply (r2e_add_any s e ids rels HS Hroom Hreg). apply (r2e_rels_hyp hrels rels HR).
  - intros r s1 Hn1. rewrite (sa_bind_ok (r2e_fire_add_noobs s1 _ e _ _ Hn1)).
    destruct (negb (is_nil rels)); cbn [whenM].
    + rewrite (sa_bind_ok (r2e_fire_add_noobs s1 _ e _ _ Hn1)). eexists. reflexivity.
    + eexists. reflexivity.
Qed.

Lemma r2e_op_OURemove : forall h ids, r2e_post false s (step_op debug (OURemove h ids) s).
Proof.
  intros h ids. cbn [step_op].
  apply (r2e_guarded h (fun e => w_remove e ids ;;; ret [])).
  intros e Hh Ha. apply r2e_same_post; [apply r2e_fkp_w_remove| |].
  - pose proof (r2a_remove_spec s e ids HS Hroom) as Hs. destruct (w_remove e ids s) as [u s1|er s1]; cbn [state_of].
    + destruct Hs as (A1 & _ & A3 & _ & _ & _ & A7 & _ & _ & A10 & _). split; [exact A1|]. intros x.
      destruct (ent_eqb x e) eqn:Ex.
      * apply sa_ent_eqb_eq in Ex. subst x. rewrite A7, A3. reflexivity.
      * assert (Hne : x <> e) by (intros ->; rewrite sa_ent_eqb_refl in Ex; discriminate). apply (A10 x Hne).
    + destruct Hs as ((R1 & R2 & _) & _). split; [exact R1|]. intros x. apply R2.
  - intros u s1 _. eexists. reflexivity.
Qed.

Lemma r2e_op_OUExchange : forall h add rem hrels, registered s add ->
  r2e_post false s (step_op debug (OUExchange h add rem hrels) s).
Proof.
  intros h add rem hrels Hreg. cbn [step_op].
  apply (r2e_guarded h (fun e => rels <- resolveR hrels ;; r <- w_exchange e add rem rels ;;
      whenM (negb (is_nil add)) (
        fire_add_if_has EvAddComponents e (fst r) (snd r) ;;;
        whenM (negb (is_nil rels)) (fire_add_if_has EvAddRelations e (fst r) (snd r))) ;;;
      ret [])).
  intros e Hh Ha. apply (r2e_resolved_r s n HI). intros rels HR.
  apply r2e_same_post; [apply r2e_fkp_w_exchange| |].
  - apply (r2e_exchange_any s e add rem rels HS Hroom Hno Hreg). apply (r2e_rels_hyp hrels rels HR).
  - intros r s1 Hn1. destruct (negb (is_nil add)); cbn [whenM]; [|eexists; reflexivity].
    rewrite r2c_bind_assoc. rewrite (sa_bind_ok (r2e_fire_add_noobs s1 _ e _ _ Hn1)).
    destruct (negb (is_nil rels)); cbn [whenM].
    + rewrite (sa_bind_ok (r2e_fire_add_noobs s1 _ e _ _ Hn1)). eexists. reflexivity.
    + eexists. reflexivity.
Qed.
End r2e_ops3.

(* ================================================================================================ *)
(** * Part 6: one step of the operation language, all histories *)

(** The covered class: creation (with and without components and relation targets), copy, Add / Remove /
    Exchange (with relation targets), writes, SetRelations, RemoveEntity, Shrink, and all read probes.
    Not covered: observer management and OEmit / OMapSet (the invariant says "no observer"), filters and
    queries, the batch operations, and Reset (see the end of the file: with Reset in the class the
    statement is false, because handles issued before a Reset alias entities created after it). *)
Definition rel_core_op (o : op) : bool :=
  match o with
  | ONewEntity | OUNew _ | OUNewRel _ _ | OCopy _ | OUAdd _ _ | OUAddRel _ _ _ | OURemove _ _
  | OUExchange _ _ _ _ | OWrite _ _ _ | OUSetRel _ _ | ORemoveEntity _ | OShrink _
  | OAlive _ | OHas _ _ | OGetRel _ _ | OIDs _ | OGet _ _ | OStats => true
  | _ => false
  end.

(** Component IDs that the operation ADDS are registered (the Go API only hands out registered IDs).
    Nothing is assumed about the relation lists. *)
Definition rel_op_ids (o : op) : list nat :=
  match o with
  | OUNew ids | OUNewRel ids _ | OUAdd _ ids | OUAddRel _ ids _ => ids
  | OUExchange _ add _ _ => add
  | _ => []
  end.

Theorem r2e_op_spec : forall debug s n o, Inv2 s n -> n + 4 < Nat.pow 2 31 ->
  rel_core_op o = true -> registered s (rel_op_ids o) ->
  r2e_post (returns_entity o) s (step_op debug o s).
Proof.
  intros debug s n o HI Hn Hc Hreg. destruct o; try discriminate Hc; cbn [returns_entity rel_op_ids] in *.
  - apply (r2e_op_ONewEntity debug s n HI Hn).
  - apply (r2e_op_OUNew debug s n HI Hn); exact Hreg.
  - apply (r2e_op_OUNewRel debug s n HI Hn); exact Hreg.
  - apply (r2e_op_OCopy debug s n HI Hn).
  - apply (r2e_op_OUAdd debug s n HI Hn); exact Hreg.
  - apply (r2e_op_OUAddRel debug s n HI Hn); exact Hreg.
  - apply (r2e_op_OURemove debug s n HI Hn).
  - apply (r2e_op_OUExchange debug s n HI Hn); exact Hreg.
  - apply (r2e_op_OWrite debug s n HI).
  - apply (r2e_op_OUSetRel debug s n HI Hn).
  - apply (r2e_op_ORemoveEntity debug s n HI).
  - apply (r2e_op_OShrink debug s n HI).
  - apply (r2e_op_reading debug s n HI); reflexivity.
  - apply (r2e_op_reading debug s n HI); reflexivity.
  - apply (r2e_op_OGetRel debug s n HI).
  - apply (r2e_op_reading debug s n HI); reflexivity.
  - apply (r2e_op_OGet debug s n HI).
  - apply (r2e_op_reading debug s n HI); reflexivity.
Qed.

(** ** The post-processing of [step] *)

Lemma r2e_step_state : forall debug wd s line o, decode_op line = Some o -> rel_core_op o = true ->
  fst (step debug wd s line) = sc_issue o (step_op debug o (s <| w_log := [] |>)) <| w_log := [] |>.
Proof.
  intros debug wd s line o Hd Hc. unfold step. rewrite Hd. cbv zeta.
  assert (Hi : issues_from_log o = false) by (destruct o; try discriminate Hc; reflexivity).
  rewrite Hi. cbn [andb fst]. reflexivity.
Qed.

Lemma r2e_issue_cases : forall o s r, r2e_post (returns_entity o) s r ->
  (sc_issue o r = state_of r) \/
  (exists e s1, r = Ok (Zent e) s1 /\ sc_issue o r = s1 <| w_issued ::= fun l => l ++ [e] |> /\
                live s e = false /\ live s1 e = true /\ alive s1 e = true).
Proof.
  intros o s r (T & C). destruct (returns_entity o) eqn:R.
  - destruct r as [res s1|er s1]; [|left; reflexivity].
    destruct (C eq_refl _ _ eq_refl) as (e & -> & Hc). right. exists e, s1.
    split; [reflexivity|]. split; [|exact Hc].
    unfold sc_issue, Zent, Zn. rewrite R. cbn [state_of]. rewrite Nat2Z.id, N2Z.id. destruct e; reflexivity.
  - left. unfold sc_issue. rewrite R. destruct r as [[|i [|g rest]]|]; reflexivity.
Qed.

(** the fields the invariant does not read *)
Lemma r2e_St2_ext : forall s s',
  w_cfg s' = w_cfg s -> w_reg s' = w_reg s -> w_pool s' = w_pool s -> w_index s' = w_index s ->
  w_istarget s' = w_istarget s -> w_archs s' = w_archs s -> w_tables s' = w_tables s -> w_relarchs s' = w_relarchs s ->
  w_compindex s' = w_compindex s -> w_archcount s' = w_archcount s ->
  w_cheap s' = w_cheap s -> w_centries s' = w_centries s -> w_filters s' = w_filters s ->
  St2 s -> St2 s'.
Proof.
  intros s s' E1 E2 E3 E4 E5 E6 E7 E8 E9 E10 E11 E12 E13 (HW & (HR & HT) & HC).
  split; [apply (sa_WF_ext s s'); assumption|]. split; [split|].
  - apply (r2_RelInvG_ext s s'); assumption.
  - apply (r2c_TargetFlagsG_ext r2_none s s' HT E6 E5).
  - apply (r2_CacheInvG_ext s s'); assumption.
Qed.

Lemma r2e_Inv2_ext : forall s s',
  w_cfg s' = w_cfg s -> w_reg s' = w_reg s -> w_pool s' = w_pool s -> w_index s' = w_index s ->
  w_istarget s' = w_istarget s -> w_archs s' = w_archs s -> w_tables s' = w_tables s -> w_relarchs s' = w_relarchs s ->
  w_compindex s' = w_compindex s -> w_archcount s' = w_archcount s ->
  w_cheap s' = w_cheap s -> w_centries s' = w_centries s -> w_filters s' = w_filters s ->
  w_lock s' = w_lock s -> w_oagg s' = w_oagg s ->
  St2 s -> r2d_KeysLive s -> r2e_quiet s ->
  St2 s' /\ r2d_KeysLive s' /\ r2e_quiet s' /\ (forall x, live s' x = live s x).
Proof.
  intros s s' E1 E2 E3 E4 E5 E6 E7 E8 E9 E10 E11 E12 E13 E14 E15 HS HK (Hq1 & Hq2).
  assert (HL : forall x, live s' x = live s x) by (apply r2_live_ext; assumption).
  split; [apply (r2e_St2_ext s s'); assumption|].
  split; [apply (r2d_KeysLive_mono s s' HK E6); intros x Hx; rewrite HL; exact Hx|].
  split; [|exact HL]. split.
  - intros ev. rewrite (sb1_has_obs_eq s s' ev E15). apply Hq1.
  - unfold is_locked. rewrite E14. exact Hq2.
Qed.

Lemma r2e_issued_ok_ext : forall s s' n, w_pool s' = w_pool s -> (forall x, live s' x = live s x) ->
  (forall x, In x (w_issued s') -> In x (w_issued s) \/ (2 <= fst x < length (pe (w_pool s)) /\ live s x = true)) ->
  issued_ok s n -> issued_ok s' n.
Proof.
  intros s s' n Ep HL Hin (I1 & I2 & I3). unfold issued_ok. rewrite Ep. split; [|split; assumption].
  intros x Hx. rewrite HL. destruct (Hin x Hx) as [H|(H1 & H2)]; [apply (I1 x H)|]. split; [exact H1|left; exact H2].
Qed.

Lemma r2e_Inv2_log : forall s n l, Inv2 s n -> Inv2 (s <| w_log := l |>) n.
Proof.
  intros s n l (H1 & H2 & H3 & H4). set (s' := s <| w_log := l |>).
  destruct (r2e_Inv2_ext s s') as (A & B & C & D); try reflexivity; try assumption.
  split; [exact A|]. split; [exact B|]. split; [exact C|].
  apply (r2e_issued_ok_ext s s' n eq_refl D); [|exact H4]. intros x Hx. left. exact Hx.
Qed.

Lemma r2e_finish_plain : forall s1 m, St2 s1 -> r2d_KeysLive s1 -> r2e_quiet s1 -> issued_ok s1 m -> Inv2 (s1 <| w_log := [] |>) m.
Proof. intros s1 m A B C D. apply r2e_Inv2_log. repeat (split; [assumption|]). assumption. Qed.

Lemma r2e_finish_issue : forall s1 m e, St2 s1 -> r2d_KeysLive s1 -> r2e_quiet s1 -> issued_ok s1 m ->
  live s1 e = true -> alive s1 e = true ->
  Inv2 (s1 <| w_issued ::= fun l => l ++ [e] |> <| w_log := [] |>) m.
Proof.
  intros s1 m e HS HK HQ HI Hl Ha. set (s' := s1 <| w_issued ::= fun l => l ++ [e] |> <| w_log := [] |>).
  destruct (r2e_Inv2_ext s1 s') as (A & B & C & D); try reflexivity; try assumption.
  split; [exact A|]. split; [exact B|]. split; [exact C|].
  apply (r2e_issued_ok_ext s1 s' m eq_refl D); [|exact HI].
  intros x Hx. change (In x (w_issued s1 ++ [e])) in Hx. apply in_app_or in Hx. destruct Hx as [Hx|[<-|[]]]; [left; exact Hx|right].
  destruct (live_alive s1 e (proj1 HS) Hl) as (_ & H2). destruct (sc_alive_slot s1 e Ha) as (l & E).
  apply sa_nth_error_lt in E. split; [split; assumption|exact Hl].
Qed.

(** One step of the operation language preserves the invariant, in both outcomes (the state at a
    recovered panic satisfies it too); at most one handle is issued. *)
Theorem step_inv2 : forall debug wd s n line o,
  Inv2 s n -> n + 4 < Nat.pow 2 31 -> decode_op line = Some o -> rel_core_op o = true ->
  (forall c, In c (rel_op_ids o) -> c < length (w_reg s)) ->
  let s' := fst (step debug wd s line) in
  Inv2 s' (S n) /\ w_reg s' = w_reg s /\
  (w_issued s' = w_issued s \/ exists e, w_issued s' = w_issued s ++ [e] /\ live s' e = true /\ live s e = false).
Proof.
  intros debug wd s n line o HI Hn Hd Hc Hreg. cbv zeta.
  rewrite (r2e_step_state debug wd s line o Hd Hc).
  pose proof (r2e_Inv2_log s n [] HI) as HI0.
  set (s0 := s <| w_log := [] |>) in *.
  pose proof (r2e_op_spec debug s0 n o HI0 Hn Hc Hreg) as HP.
  pose proof HP as (T & _).
  pose proof (r2e_trans_issued s0 _ n (proj1 (proj1 HI0)) (proj2 (proj2 (proj2 HI0))) Hn T) as HIs.
  destruct T as (T1 & T2 & T3 & T4 & T5 & T6).
  destruct (r2e_issue_cases o s0 _ HP) as [E|(e & s1 & Er & E & Hl0 & Hl & Ha)]; rewrite E.
  - split; [apply r2e_finish_plain; assumption|]. split; [exact T4|]. left. exact T5.
  - rewrite Er in *. cbn [state_of] in *. split; [apply r2e_finish_issue; assumption|]. split; [exact T4|].
    right. exists e. split; [cbn; rewrite T5; reflexivity|]. split; [exact Hl|exact Hl0].
Qed.

(** C02 in relation worlds: a handle issued by a step differs from every handle issued before (whether
    still alive or removed, whether or not its id is being reused). *)
Theorem creation_fresh2 : forall debug wd s n line o e,
  Inv2 s n -> n + 4 < Nat.pow 2 31 -> decode_op line = Some o -> rel_core_op o = true ->
  (forall c, In c (rel_op_ids o) -> c < length (w_reg s)) ->
  w_issued (fst (step debug wd s line)) = w_issued s ++ [e] ->
  ~ In e (w_issued s) /\ live (fst (step debug wd s line)) e = true /\ alive (fst (step debug wd s line)) e = true.
Proof.
  intros debug wd s n line o e HI Hn Hd Hc Hreg.
  rewrite (r2e_step_state debug wd s line o Hd Hc).
  pose proof (r2e_Inv2_log s n [] HI) as HI0.
  set (s0 := s <| w_log := [] |>) in *.
  pose proof (r2e_op_spec debug s0 n o HI0 Hn Hc Hreg) as HP.
  pose proof HP as ((T1 & T2 & T3 & T4 & T5 & T6) & _).
  destruct (r2e_issue_cases o s0 _ HP) as [E|(e' & s1 & Er & E & Hl0 & Hl & Ha)]; rewrite E.
  - intros Hiss. exfalso. change (w_issued (state_of (step_op debug o s0)) = w_issued s ++ [e]) in Hiss.
    rewrite T5 in Hiss. change (w_issued s0) with (w_issued s) in Hiss.
    apply (f_equal (@length ent)) in Hiss. rewrite app_length in Hiss. simpl in Hiss. lia.
  - intros Hiss. change (w_issued s1 ++ [e'] = w_issued s ++ [e]) in Hiss.
    rewrite Er in *. cbn [state_of] in *. rewrite T5 in Hiss. change (w_issued s0) with (w_issued s) in Hiss.
    apply app_inj_tail in Hiss. destruct Hiss as (_ & <-).
    split; [|split; [exact Hl|exact Ha]].
    intros Hin. destruct HI as (HS & _ & _ & (I1 & I2 & _)). destruct (I1 e' Hin) as (R & [L|(l & g & Es & Hg)]).
    + change (live s0 e') with (live s e') in Hl0. congruence.
    + change (w_pool s0) with (w_pool s) in T6.
      destruct (sc_alive_slot s1 e' Ha) as (l2 & E2).
      destruct T6 as [((G1 & _) & _)|(e0 & P & Le0 & _)].
      * destruct (G1 _ _ _ Es) as (l' & E1). rewrite E1 in E2. inversion E2; subst. lia.
      * destruct (sc_recycle_shape _ _ _ P) as (l0 & g0 & E0 & Epe). rewrite Epe in E2.
        destruct (Nat.eq_dec (fst e0) (fst e')) as [Eq|Ne].
        -- rewrite Eq in E0, E2. rewrite Es in E0. injection E0 as <- <-.
           rewrite (sa_nth_error_upd_eq _ (pe (w_pool s)) (fst e') _ (sa_nth_error_lt _ _ _ _ Es)) in E2. injection E2 as _ E2.
           assert (Hge : (g <= N.of_nat n)%N) by (apply (I2 (fst e') l g Es); lia).
           pose proof (sc_pow_bound n Hn) as Hb. rewrite N.mod_small in E2 by lia. lia.
        -- rewrite sa_nth_error_upd_ne in E2 by exact Ne. pose proof (eq_trans (eq_sym Es) E2) as Q. inversion Q; subst. lia.
Qed.

(** ** The initial world *)

Definition cfg_ok2 (c : script_cfg) : Prop :=
  1 <= sc_cap c /\ 1 <= sc_caprel c /\ length (sc_kinds c) <= sc_bits c.

Lemma r2e_WF_init : forall c, cfg_ok2 c -> WF (init_world c).
Proof.
  intros c (C1 & C2 & C3).
  constructor; unfold init_world; cbn [w_tables w_archs w_reg w_cfg w_compindex w_archcount w_index w_pool w_istarget w_centries w_cheap w_filters].
  + constructor; [|constructor]. apply new_table_ok. reflexivity.
  + intros [|tid] t H; [|destruct tid; discriminate]. inversion H; subst t. cbn.
    eexists. split; [reflexivity|]. cbn. auto.
  + intros [|aid] a H; [|destruct aid; discriminate]. inversion H; subst a. cbn.
    rewrite sa_mk_to_list_0. repeat split; auto. intros j Hj. discriminate.
  + intros [|i] [|j] a b Hi Hj; auto; try (destruct j; discriminate); destruct i; discriminate.
  + intros [|aid] a tid H; [|destruct aid; discriminate]. inversion H; subst a. cbn.
    intros [[<-|[]]|[[]|[(i & m & k & l & Hn & _)|(k & l & Hn & _)]]].
    * eexists. split; reflexivity.
    * destruct i; discriminate.
    * discriminate.
  + intros [|aid] a H; [|destruct aid; discriminate]. inversion H; subst a. cbn. lia.
  + eexists. split; [reflexivity|]. split; [reflexivity|]. eexists. split; reflexivity.
  + rewrite !repeat_length. cbn. auto.
  + cbn. auto.
  + intros [|tid] t r H; [|destruct tid; discriminate]. inversion H; subst t. cbn. lia.
  + intros [|[|id]] tid r H; cbn in H; try discriminate. destruct id; discriminate.
  + exists []. split; [|split].
    * unfold pool_ok, pool_new. cbn. repeat split; auto; try constructor; try (intros ? []); try lia.
    * intros i [].
    * cbn. intros i Hi. lia.
  + cbn. repeat split; eauto.
  + exact sa_small_2.
  + intros addr [].
Qed.

Lemma r2e_nth1 : forall A (x : A) i y, nth_error [x] i = Some y -> i = 0 /\ y = x.
Proof. intros A x [|[|i]] y H; cbn in H; try discriminate. injection H as <-. split; reflexivity. Qed.

Lemma r2e_RelInv_init : forall c, RelInv (init_world c).
Proof.
  intros c. split.
  - constructor; unfold init_world; cbn [w_tables w_archs w_relarchs].
    + intros aid a H. apply r2e_nth1 in H. destruct H as (_ & ->). cbn. split; [repeat constructor; intros []|constructor].
    + intros aid a tid t H _ Ht. apply r2e_nth1 in Ht. destruct Ht as (_ & ->). reflexivity.
    + intros aid a tid t H Hin. apply r2e_nth1 in H. destruct H as (_ & ->). destruct Hin.
    + intros tid t Ht. apply r2e_nth1 in Ht. destruct Ht as (-> & ->). eexists. split; [reflexivity|]. cbn. left. reflexivity.
    + intros aid a H _. apply r2e_nth1 in H. destruct H as (_ & ->). cbn. repeat split. constructor.
    + intros tid t a Ht Ha. apply r2e_nth1 in Ht. destruct Ht as (-> & ->). cbn in Ha. injection Ha as <-. cbn.
      split; [constructor|]. split; [|split; [|reflexivity]].
      * intros c0 x. split; [intros []|]. intros (i & Hi & _). destruct i; discriminate.
      * intros i Hi. destruct i; discriminate.
    + intros tid1 tid2 t1 t2 H1 H2 _ _ _ _. apply r2e_nth1 in H1, H2. destruct H1 as (-> & _), H2 as (-> & _). reflexivity.
    + intros aid a i m k l H Hm. apply r2e_nth1 in H. destruct H as (_ & ->). destruct i; discriminate.
    + intros tid t a i x Ht _ Ha Hr. apply r2e_nth1 in Ht. destruct Ht as (-> & ->). cbn in Ha. injection Ha as <-.
      unfold r2_relcol in Hr. destruct i; discriminate.
    + intros aid a k l H Hk. apply r2e_nth1 in H. destruct H as (_ & ->). discriminate.
    + intros tid t a i x Ht _ Ha Hr. apply r2e_nth1 in Ht. destruct Ht as (-> & ->). cbn in Ha. injection Ha as <-.
      unfold r2_relcol in Hr. destruct i; discriminate.
    + intros aid a i m k l H Hm. apply r2e_nth1 in H. destruct H as (_ & ->). destruct i; discriminate.
    + split; [constructor|]. intros aid. split; [intros []|]. intros (a & H & Hn). apply r2e_nth1 in H. destruct H as (_ & ->). cbn in Hn. lia.
    + intros tid t r Ht _ Hin. apply r2e_nth1 in Ht. destruct Ht as (_ & ->). destruct Hin.
  - intros aid a k l H Hk. unfold init_world in H. cbn [w_archs] in H. apply r2e_nth1 in H. destruct H as (_ & ->). discriminate.
Qed.

Lemma r2e_St2_init : forall c, cfg_ok2 c -> St2 (init_world c).
Proof.
  intros c Hc. split; [apply r2e_WF_init; exact Hc|]. split; [apply r2e_RelInv_init|].
  constructor; unfold init_world; cbn [w_centries]; [constructor|]. intros addr e f [].
Qed.

Theorem r2e_init : forall c, cfg_ok2 c -> Inv2 (init_world c) 0.
Proof.
  intros c Hc. split; [apply r2e_St2_init; exact Hc|]. split; [|split].
  - intros aid a k l H Hk. unfold init_world in H. cbn [w_archs] in H. apply r2e_nth1 in H. destruct H as (_ & ->). discriminate.
  - split; [intros ev; reflexivity|reflexivity].
  - unfold issued_ok, init_world. cbn [w_issued w_pool pool_new pe]. split; [|split].
    + intros e [].
    + intros [|[|i]] l g E Hi; try lia. destruct i; discriminate.
    + simpl. lia.
Qed.

(** ** Every reachable state of every covered history satisfies the invariant *)

Definition rel_core_line (nreg : nat) (line : list Z) : Prop :=
  exists o, decode_op line = Some o /\ rel_core_op o = true /\ forall c, In c (rel_op_ids o) -> c < nreg.

Lemma r2e_run_inv : forall c, cfg_ok2 c -> forall lines,
  Forall (rel_core_line (length (sc_kinds c))) lines -> length lines + 4 < Nat.pow 2 31 ->
  Inv2 (Properties.Common.exec c lines) (length lines) /\ w_reg (Properties.Common.exec c lines) = sc_kinds c.
Proof.
  intros c Hc lines. induction lines as [|l lines IH] using rev_ind; intros HF Hb.
  - split; [apply r2e_init; exact Hc|reflexivity].
  - apply Forall_app in HF. destruct HF as (HF & Hl). inversion Hl as [|? ? (o & Hd & Hco & Hids) _]; subst.
    rewrite app_length in *. cbn [length] in *. rewrite Nat.add_1_r in *.
    destruct IH as (IH1 & IH2); [exact HF|lia|].
    unfold Properties.Common.exec in *. rewrite fold_left_app. cbn [fold_left].
    destruct (step_inv2 (sc_debug c) false _ (length lines) l o IH1) as (S1 & S2 & _); auto; try lia.
    { rewrite IH2. exact Hids. }
    split; [exact S1|congruence].
Qed.

Theorem reachable_inv2 : forall c lines,
  cfg_ok2 c -> Forall (rel_core_line (length (sc_kinds c))) lines -> length lines + 4 < Nat.pow 2 31 ->
  Inv2 (Properties.Common.exec c lines) (length lines).
Proof. intros c lines Hc Hl Hb. apply (r2e_run_inv c Hc lines Hl Hb). Qed.

(* ================================================================================================ *)
(** * Part 7: property C04 over histories *)

(** "An entity's relation target is always the zero entity or an alive entity": in every state
    reachable by a covered history, for every stored entity and every relation component. *)
Theorem targets_always_zero_or_alive : forall c lines e cmp x,
  cfg_ok2 c -> Forall (rel_core_line (length (sc_kinds c))) lines -> length lines + 4 < Nat.pow 2 31 ->
  tgt (Properties.Common.exec c lines) e cmp = Some x ->
  x = zero_ent \/ live (Properties.Common.exec c lines) x = true.
Proof.
  intros c lines e cmp x Hc Hl Hb H. destruct (reachable_inv2 c lines Hc Hl Hb) as (HS & _).
  apply (r2_St2_targets _ e cmp x HS H).
Qed.

(** "... until that target is removed from the world, at which point it becomes the zero entity while
    the entity keeps all its components and values": removing a stored entity [x] through one of its
    handles never fails; afterwards [x] is gone, every entity that pointed to [x] points to the zero
    entity, and nothing else changed. *)
Theorem remove_target_detaches_step : forall debug s n h x,
  Inv2 s n -> handle s h = Some x -> live s x = true ->
  exists s', step_op debug (ORemoveEntity h) s = Ok [] s' /\ St2 s' /\ r2d_KeysLive s' /\
    live s' x = false /\ alive s' x = false /\
    forall e, e <> x -> live s' e = live s e /\ (forall c, val s' e c = val s e c) /\
      (forall c, tgt s' e c = r2c_detached x (tgt s e c)).
Proof.
  intros debug s n h x (HS & HK & (Hno & Hlk) & _) Hh Hl. cbn [step_op].
  unfold bind at 1. rewrite sc_resolveH, Hh. rewrite (sa_bind_ok (sb1_check_locked_ok s Hlk)).
  pose proof (r2e_remove_entity_spec s x HS HK Hno) as Hs.
  unfold bind. destruct (storage_remove_entity x s) as [u s1|er s1].
  - destruct Hs as (R1 & R2 & _ & R4 & R5 & R6 & _). exists s1. unfold ret. repeat (split; [first [reflexivity|assumption]|]). exact R6.
  - destruct Hs as (_ & Hc). congruence.
Qed.

Theorem remove_target_detaches : forall c lines h x,
  cfg_ok2 c -> Forall (rel_core_line (length (sc_kinds c))) lines -> length lines + 4 < Nat.pow 2 31 ->
  let s := Properties.Common.exec c lines in
  handle s h = Some x -> live s x = true ->
  exists s', step_op (sc_debug c) (ORemoveEntity h) s = Ok [] s' /\ St2 s' /\ live s' x = false /\
    forall e, e <> x -> live s' e = live s e /\ (forall cmp, val s' e cmp = val s e cmp) /\
      (forall cmp, tgt s' e cmp = r2c_detached x (tgt s e cmp)).
Proof.
  intros c lines h x Hc Hl Hb s Hh Hlx.
  destruct (remove_target_detaches_step (sc_debug c) s (length lines) h x (reachable_inv2 c lines Hc Hl Hb) Hh Hlx)
    as (s' & E & P1 & _ & P3 & _ & P5).
  exists s'. repeat (split; [assumption|]). exact P5.
Qed.

(** "... it is the target last assigned" *)

Lemma r2e_resolved_in : forall s hrels rels c hx, r2e_resolved s hrels rels -> In (c, hx) hrels ->
  exists x, In (c, x) rels /\ handle s hx = Some x.
Proof.
  intros s hrels rels c hx HR. induction HR as [|hr r hrest rrest (Hf & Hh) _ IH]; intros Hin; [destruct Hin|].
  destruct Hin as [->|Hin].
  - exists (snd r). cbn [fst snd] in *. split; [left; destruct r; cbn in *; subst; reflexivity|exact Hh].
  - destruct (IH Hin) as (x & Hx & Hhx). exists x. split; [right; exact Hx|exact Hhx].
Qed.

Lemma r2e_resolved_fst : forall s hrels rels, r2e_resolved s hrels rels -> map fst rels = map fst hrels.
Proof. intros s hrels rels HR. induction HR as [|hr r hrest rrest (Hf & _) _ IH]; [reflexivity|]. cbn. rewrite Hf, IH. reflexivity. Qed.

Lemma r2e_resolved_rev : forall s hrels rels r, r2e_resolved s hrels rels -> In r rels ->
  exists hr, In hr hrels /\ fst hr = fst r /\ handle s (snd hr) = Some (snd r).
Proof.
  intros s hrels rels r HR. induction HR as [|hr r0 hrest rrest (Hf & Hh) _ IH]; intros Hin; [destruct Hin|].
  destruct Hin as [<-|Hin].
  - exists hr. split; [left; reflexivity|]. split; [symmetry; exact Hf|exact Hh].
  - destruct (IH Hin) as (hr' & H1 & H2). exists hr'. split; [right; exact H1|exact H2].
Qed.

(** SetRelations: whenever the call returns, every named component shows the assigned target (which is
    the zero entity or a stored entity); no assumption on the list. *)
Theorem target_is_last_assigned_setrel : forall debug s n h hrels res s' e,
  Inv2 s n -> n + 4 < Nat.pow 2 31 -> handle s h = Some e ->
  step_op debug (OUSetRel h hrels) s = Ok res s' ->
  forall c hx x, In (c, hx) hrels -> handle s hx = Some x ->
    tgt s' e c = Some x /\ (x = zero_ent \/ live s x = true).
Proof.
  intros debug s n h hrels res s' e HI Hn Hh Hrun c hx x Hin Hhx.
  pose proof HI as (HS & HK & (Hno & Hlk) & Hiss). pose proof HS as (HW & _).
  cbn [step_op] in Hrun. unfold bind at 1 in Hrun. rewrite sc_resolveH, Hh in Hrun.
  destruct (r2e_resolveR hrels s) as [(rels & E & HR)|(er & E)]; [|rewrite (sa_bind_err E) in Hrun; discriminate].
  rewrite (sa_bind_ok E) in Hrun.
  pose proof (r2b_set_relations_spec_noobs s e rels HS (r2e_room s n HI Hn) (Hno EvRemoveRelations) (Hno EvAddRelations)
                (fun r Hr => proj1 (r2e_resolved_ok s n hrels rels HW Hiss HR r Hr))) as Hs.
  unfold bind in Hrun. destruct (w_set_relations e rels s) as [u s1|er s1]; [|discriminate].
  unfold ret in Hrun. injection Hrun as _ <-.
  destruct Hs as (_ & _ & _ & _ & Hnd & Hall & _ & _ & Htgt & _).
  destruct (r2e_resolved_in s hrels rels c hx HR Hin) as (x' & Hx' & Hhx'). rewrite Hhx in Hhx'. injection Hhx' as <-.
  split; [rewrite Htgt, (r2b_assigned_in rels c x Hnd Hx'); reflexivity|].
  apply (Hall (c, x) Hx').
Qed.

(** A valid relation list of a creation / Add: each relation component named once, only relation
    components among the added ones, targets zero or stored. *)
Definition r2e_hrels_ok (s : W) (ids : list nat) (hrels : list hrel) : Prop :=
  NoDup (map fst hrels) /\
  forall hr, In hr hrels -> In (fst hr) ids /\ is_rel_comp s (fst hr) = true /\
    exists x, handle s (snd hr) = Some x /\ (x = zero_ent \/ live s x = true).

Lemma r2e_rels_ok_of : forall s ids hrels rels, r2e_hrels_ok s ids hrels -> r2e_resolved s hrels rels -> r2a_rels_ok s ids rels.
Proof.
  intros s ids hrels rels (Hnd & Hall) HR. split; [rewrite (r2e_resolved_fst s hrels rels HR); exact Hnd|]. split.
  - intros r Hr. destruct (r2e_resolved_rev s hrels rels r HR Hr) as (hr & H1 & H2 & _). destruct (Hall hr H1) as (A & B & _).
    rewrite <- H2. split; assumption.
  - intros r Hr. destruct (r2e_resolved_rev s hrels rels r HR Hr) as (hr & H1 & _ & H3). destruct (Hall hr H1) as (_ & _ & x & Hx & Hok).
    rewrite H3 in Hx. injection Hx as <-. exact Hok.
Qed.

(** Creation with relation targets (valid list): if the call returns, the new entity shows the assigned targets. *)
Theorem target_is_last_assigned_new : forall debug s n ids hrels res s',
  Inv2 s n -> n + 4 < Nat.pow 2 31 -> registered s ids -> r2e_hrels_ok s ids hrels ->
  step_op debug (OUNewRel ids hrels) s = Ok res s' ->
  exists e, res = Zent e /\ live s' e = true /\
    forall c hx x, In (c, hx) hrels -> handle s hx = Some x -> tgt s' e c = Some x.
Proof.
  intros debug s n ids hrels res s' HI Hn Hreg Hok Hrun.
  pose proof HI as (HS & HK & (Hno & Hlk) & Hiss). pose proof HS as (HW & _).
  cbn [step_op] in Hrun.
  destruct (r2e_resolveR hrels s) as [(rels & E & HR)|(er & E)]; [|rewrite (sa_bind_err E) in Hrun; discriminate].
  rewrite (sa_bind_ok E) in Hrun.
  pose proof (r2e_rels_ok_of s ids hrels rels Hok HR) as Hrok.
  pose proof (r2a_new_entity_spec s ids rels HS (r2e_room s n HI Hn) Hreg Hrok) as Hs.
  unfold bind at 1 in Hrun. destruct (new_entity ids rels s) as [[e m] s1|er s1]; [|discriminate].
  destruct Hs as (_ & _ & _ & _ & _ & _ & L1 & _ & _ & T1 & _ & SD & _).
  pose proof (r2e_noobs_side s s1 SD Hno) as Hno1.
  rewrite (sa_bind_ok (sb1_fire_create_noobs s1 e m (Hno1 EvCreateEntity))) in Hrun.
  assert (Ew : whenM (negb (is_nil rels)) (fire_create_entity_rel_if_has e m) s1 = Ok tt s1).
  { destruct (negb (is_nil rels)); cbn [whenM]; [apply (r2d_fire_create_rel_noobs s1 e m (Hno1 EvAddRelations))|reflexivity]. }
  rewrite (sa_bind_ok Ew) in Hrun. unfold ret in Hrun. injection Hrun as <- <-.
  exists e. split; [reflexivity|]. split; [exact L1|].
  intros c hx x Hin Hhx. destruct (r2e_resolved_in s hrels rels c hx HR Hin) as (x' & Hx' & Hhx'). rewrite Hhx in Hhx'. injection Hhx' as <-.
  rewrite T1. destruct Hrok as (R1 & R2 & _). destruct (R2 (c, x) Hx') as (Hcin & _). cbn [fst] in Hcin.
  apply sa_memb_in in Hcin. rewrite Hcin. unfold r2a_new_target. rewrite (r2a_assigned_in rels c x R1 Hx'). reflexivity.
Qed.

(** Add with relation targets (valid list). *)
Theorem target_is_last_assigned_add : forall debug s n h ids hrels res s' e,
  Inv2 s n -> n + 4 < Nat.pow 2 31 -> registered s ids -> r2e_hrels_ok s ids hrels -> handle s h = Some e ->
  step_op debug (OUAddRel h ids hrels) s = Ok res s' ->
  live s' e = true /\ forall c hx x, In (c, hx) hrels -> handle s hx = Some x -> tgt s' e c = Some x.
Proof.
  intros debug s n h ids hrels res s' e HI Hn Hreg Hok Hh Hrun.
  pose proof HI as (HS & HK & (Hno & Hlk) & Hiss). pose proof HS as (HW & _).
  cbn [step_op] in Hrun. unfold bind at 1 in Hrun. rewrite sc_resolveH, Hh in Hrun.
  rewrite sb2_bind_get in Hrun. destruct (alive s e); [|rewrite sb2_bind_guard_false in Hrun; discriminate].
  rewrite sb2_bind_guard_true in Hrun.
  destruct (r2e_resolveR hrels s) as [(rels & E & HR)|(er & E)]; [|rewrite (sa_bind_err E) in Hrun; discriminate].
  rewrite (sa_bind_ok E) in Hrun.
  pose proof (r2e_rels_ok_of s ids hrels rels Hok HR) as Hrok.
  pose proof (r2a_add_spec s e ids rels HS (r2e_room s n HI Hn) Hreg Hrok) as Hs.
  unfold bind at 1 in Hrun. destruct (w_add e ids rels s) as [[om nm] s1|er s1]; [|discriminate].
  destruct Hs as (_ & _ & _ & _ & _ & _ & _ & L1 & _ & T1 & _ & _ & _ & _ & SD & _).
  pose proof (r2e_noobs_side s s1 SD Hno) as Hno1. cbn [fst snd] in Hrun.
  rewrite (sa_bind_ok (r2e_fire_add_noobs s1 _ e _ _ Hno1)) in Hrun.
  assert (Ew : whenM (negb (is_nil rels)) (fire_add_if_has EvAddRelations e om nm) s1 = Ok tt s1).
  { destruct (negb (is_nil rels)); cbn [whenM]; [apply (r2e_fire_add_noobs s1 _ e _ _ Hno1)|reflexivity]. }
  rewrite (sa_bind_ok Ew) in Hrun. unfold ret in Hrun. injection Hrun as _ <-.
  split; [exact L1|].
  intros c hx x Hin Hhx. destruct (r2e_resolved_in s hrels rels c hx HR Hin) as (x' & Hx' & Hhx'). rewrite Hhx in Hhx'. injection Hhx' as <-.
  rewrite T1. destruct Hrok as (R1 & R2 & _). destruct (R2 (c, x) Hx') as (Hcin & _). cbn [fst] in Hcin.
  apply sa_memb_in in Hcin. rewrite Hcin. unfold r2a_new_target. rewrite (r2a_assigned_in rels c x R1 Hx'). reflexivity.
Qed.

(* ================================================================================================ *)
(** * Part 8: stale handles, Reset, non-vacuity *)

(** C10 in relation worlds: in a state satisfying the invariant, using a handle that was issued and
    has been removed since (or the zero entity) in a checked single-entity operation fails and
    leaves the entire state unchanged (after [stale_handle_rejected] of StorageC). *)
Theorem stale_handle_rejected2 : forall debug s n o h e,
  Inv2 s n -> uses_handle o h -> handle s h = Some e -> live s e = false ->
  exists er, step_op debug o s = Err er s.
Proof.
  intros debug s n o h e (HS & _ & _ & Hiss) Hu Hh Hl. pose proof HS as (HW & _).
  assert (Ha : alive s e = false).
  { destruct (alive s e) eqn:Ha; [|reflexivity]. rewrite (r2e_handle_alive_live s n h e HW Hiss Hh Ha) in Hl. discriminate. }
  destruct (dead_rejected s e Ha) as (D1 & D2 & D3 & D4 & D5 & D6 & D7).
  assert (G : forall (k : unit -> MW (list Z)), exists er,
            (s0 <- get ;; guard (alive s0 e) EDead ;;; k tt) s = Err er s).
  { intros k. exists EDead. apply (sb1_guard_alive_err _ s e k Ha). }
  assert (R : forall (k : ent -> MW (list Z)), bind (resolveH h) k s = k e s).
  { intros k. unfold bind. rewrite sc_resolveH, Hh. reflexivity. }
  destruct o; cbn [uses_handle] in Hu; try contradiction; subst; cbn [step_op]; rewrite R.
  - destruct D5 as (er & E). exists er. apply sa_bind_err. exact E.
  - apply (G (fun _ => _)).
  - apply (G (fun _ => _)).
  - apply (G (fun _ => _)).
  - apply (G (fun _ => _)).
  - destruct (D7 debug c) as (er & E). exists er. apply sa_bind_err. exact E.
  - destruct (sc_ro_cases _ (resolveR rels) (readonly_resolveR rels) s) as [(rl & E)|(er & E)].
    + erewrite sa_bind_ok by exact E. destruct (D6 rl) as (er & E'). exists er. apply sa_bind_err. exact E'.
    + exists er. apply sa_bind_err. exact E.
  - destruct (is_locked s) eqn:El.
    + exists ELocked. apply sa_bind_err. apply sb1_check_locked_err. exact El.
    + erewrite sa_bind_ok by (apply sb1_check_locked_ok; exact El). destruct D4 as (er & E). exists er.
      apply sa_bind_err. exact E.
  - destruct (D7 debug c) as (er & E). exists er. apply sa_bind_err. exact E.
  - apply (G (fun _ => _)).
  - destruct (D7 debug c) as (er & E). exists er. apply sa_bind_err. exact E.
  - apply (G (fun _ => _)).
  - destruct (D7 debug c) as (er & E). exists er. apply sa_bind_err. exact E.
Qed.

(** ** Reset

    (refuted) [step_inv2] / [reachable_inv2] with [OReset] in the class:

    1. Reset hands out the ids and generations again from the start, so a handle issued BEFORE a Reset can
       pass the generation check later without denoting a stored entity ([issued_ok] does not survive a
       Reset, whatever bound one chooses): [r2e_reset_refuted_handles] below; after the last step a table
       has a target that is not stored ([r2_c_targets_ok], check 29, fails; one step later also the flags,
       check 28). This is the documented contract of World.Reset (all handles become invalid), not a defect.
    2. (REPAIRED; formerly a second, independent reason.) Reset needs every archetype WITHOUT relation
       components to have its table ([D_reset_spec] of Rel2Maint, [reset_fails_without_table]). Before the
       repair of createArchetype a creation / Add / Exchange whose relation list was rejected by createTable
       (e.g. it named a non-relation component) AFTER the archetype had been created left such an archetype
       behind; a later Reset panicked half-way, after the entity index and the pool were cleared, and rows of
       later archetypes survived; the same archetype made unregistered-filter queries panic. This defect of
       the Go code was found by the proof attempt and repaired in /repo: createArchetype creates the table of
       an archetype without relation components together with the archetype. [r2e_reset_refuted_table] is
       kept as a regression example (every check holds after every step of the former counterexample), and
       the clause "every archetype without relation components has its table" ([archs_tabled_norel]) is now
       proved for every state of a covered history: Part 9, [step_tabled2] / [reachable_inv2T]; hence Reset
       SUCCEEDS in every such state ([r2e_reset_step], [reachable_reset_succeeds]).

    What is true: [step_inv2] / [reachable_inv2] (and [step_inv2T] / [reachable_inv2T]) for the class without
    Reset; the single-step theorem [r2e_reset_step_partial] for any state satisfying [Inv2] in which every
    archetype without relation components has its table, and [r2e_reset_step] for the states of covered
    histories, where that hypothesis is part of the invariant. *)
(* [r2e_tabled] is [archs_tabled_norel] of WF.v (kept under its old name). *)
Definition r2e_tabled (s : W) : Prop :=
  forall aid a, nth_error (w_archs s) aid = Some a -> a_numrel a = 0 -> a_tables a <> [].

Theorem r2e_reset_step_partial : forall debug s n, Inv2 s n -> r2e_tabled s ->
  exists s', step_op debug OReset s = Ok [] s' /\ St2 s' /\ r2d_KeysLive s' /\ is_locked s' = false /\
    (forall e, live s' e = false) /\ w_reg s' = w_reg s.
Proof.
  intros debug s n (HS & _ & (_ & Hlk) & _) HA.
  destruct (D_reset_spec s HS Hlk HA) as (s' & E & P1 & P2 & P3 & _ & _ & _ & P7 & _ & _ & P10 & _).
  exists s'. cbn [step_op]. rewrite (sa_bind_ok E). unfold ret. repeat (split; [first [reflexivity|assumption]|]). exact P10.
Qed.

Local Open Scope Z_scope.

Example r2e_reset_refuted_handles :
  Rel2Check.r2_trace Rel2Check.r2_cfg (init_world Rel2Check.r2_cfg)
    [[0]; [0]; [11;0]; [0]; [13]; [0]; [0]; [11;3]; [11;4]; [2; 1;3; 1; 3;2]; [0]] =
  [(0, []); (0, []); (0, []); (0, []); (0, []); (0, []); (0, []); (0, []); (0, []); (0, [29%nat]); (0, [28%nat])].
Proof. vm_compute. reflexivity. Qed.

(** REGRESSION example (the name is kept; before the repair this was a refutation). The script is the one with
    which the proof attempt found the defect: a creation that names the plain component 0 as a relation, in the
    world where archetype {0} does not exist yet; then an entity in another archetype; Reset; a creation. Before
    the repair of createArchetype the trace was [(1, []); (0, []); (1, [9]); (0, [9])]: the first call panicked
    (ENotRelation from createTable) and left archetype {0} without table, Reset panicked half-way and the rows
    clause of the invariant (check 9) failed from then on. The defect was repaired in /repo (createArchetype
    creates the table of an archetype without relation components together with the archetype); now the first
    call is accepted silently (GetTable ignores relation arguments for such an archetype, as it always did when
    the table existed, see [r2a_plan_refuted_nonrelation]), Reset succeeds and every check holds after every
    step. *)
Example r2e_reset_refuted_table :
  Rel2Check.r2_trace Rel2Check.r2_cfg (init_world Rel2Check.r2_cfg) [[2; 1;0; 1; 0;-1]; [1; 1;1]; [13]; [0]] =
  [(0, []); (0, []); (0, []); (0, [])].
Proof. vm_compute. reflexivity. Qed.

(** ** The theorems are not vacuous: a history with well-formed and malformed relation lists *)

Definition rel_core_line_b (nreg : nat) (line : list Z) : bool :=
  match decode_op line with
  | Some o => (rel_core_op o && forallb (fun c => Nat.ltb c nreg) (rel_op_ids o))%bool
  | None => false
  end.

Lemma rel_core_line_b_sound : forall nreg lines, forallb (rel_core_line_b nreg) lines = true -> Forall (rel_core_line nreg) lines.
Proof.
  intros nreg lines H. apply Forall_forall. intros l Hl. rewrite forallb_forall in H. specialize (H l Hl).
  unfold rel_core_line_b in H. destruct (decode_op l) as [o|] eqn:E; [|discriminate].
  apply andb_true_iff in H. destruct H as (H1 & H2). exists o. split; [exact E|]. split; [exact H1|].
  intros c Hc. rewrite forallb_forall in H2. apply Nat.ltb_lt. apply H2. exact Hc.
Qed.

(** components of [r2_cfg]: 0,1,2 plain; 3,4 relation components; 5 pointer-bearing; 6 zero-size; 7 zero-size relation *)
Definition r2e_script : list (list Z) :=
  [[0]; [0]; [1; 1;0];
   [2; 2;0;3; 1; 3;0];            (* child of handle 0 *)
   [2; 1;0; 1; 0;1];              (* malformed: names the plain component 0; the table exists: accepted *)
   [2; 1;3; 2; 3;0; 3;1];         (* malformed: component named twice: rejected *)
   [2; 1;3; 1; 4;0];              (* malformed: names a component that is not added: rejected *)
   [2; 1;1; 1; 1;0];              (* malformed, the archetype is new: accepted as well since createArchetype creates the
                                     table of a relation-free archetype itself (before the repair: rejected by createTable,
                                     and the archetype was left behind without table) *)
   [6; 0; 1;4; 1; 4;1];           (* Add relation 4 -> handle 1 to handle 0 *)
   [6; 1; 1;3; 1; 3;9];           (* unknown handle *)
   [10; 3; 1; 3;1];               (* SetRelations of the child *)
   [10; 3; 2; 3;1; 3;0];          (* malformed SetRelations *)
   [35; 3; 3]; [4; 3];
   [8; 3; 1;4; 1;0; 1; 4;0];      (* Exchange: +4 (-> handle 0), -0 *)
   [11; 1];                       (* the target of the child dies *)
   [35; 3; 3];
   [2; 1;3; 1; 3;1];              (* dead target: rejected *)
   [11; 0]; [14; 0]; [0]; [7; 3; 1;3]; [9; 3; 4; 5]; [38]; [33; 1]; [36; 3]; [34; 3; 4]; [37; 3; 4]].

Example r2e_script_covered : forallb (rel_core_line_b 8) r2e_script = true.
Proof. vm_compute. reflexivity. Qed.

Example r2e_script_runs :
  Rel2Check.r2_flags Rel2Check.r2_cfg (init_world Rel2Check.r2_cfg) r2e_script =
  [0;0;0; 0; 0; 1; 1; 0; 0; 1; 0; 1; 0;0; 0; 0; 0; 1; 0;0;0;0;0;0;0;0;0;0].
Proof. vm_compute. reflexivity. Qed.

Example r2e_script_inv : Inv2 (Properties.Common.exec Rel2Check.r2_cfg r2e_script) (length r2e_script).
Proof.
  apply reachable_inv2.
  - unfold cfg_ok2. cbn. lia.
  - apply rel_core_line_b_sound. exact r2e_script_covered.
  - apply r2_N_small. vm_compute. reflexivity.
Qed.

(* ================================================================================================ *)
(** * Part 9: every archetype without relation components has its table, over histories *)
Local Close Scope Z_scope.

(** [archs_tabled_norel] read through the tables: archetype [aid] is the archetype of some table. Under
    the invariant this is the same as "its table list is not empty" ([r2e_tabled_iff]); in this form the
    clause is monotone under everything but the creation of an archetype, because no table is ever
    deleted or moved to another archetype. *)
Definition r2e_has_table (s : W) (aid : nat) : Prop :=
  exists tid t, nth_error (w_tables s) tid = Some t /\ t_arch t = aid.

Definition r2e_H (s : W) : Prop :=
  forall aid a, nth_error (w_archs s) aid = Some a -> a_numrel a = 0 -> r2e_has_table s aid.

Definition r2e_tmono (s s' : W) : Prop :=
  forall tid t, nth_error (w_tables s) tid = Some t -> exists t', nth_error (w_tables s') tid = Some t' /\ t_arch t' = t_arch t.

(** The frame: tables keep their archetype number; an archetype without relation components of the
    new state was one before, or it has a table. *)
Definition r2e_hk (s s' : W) : Prop :=
  r2e_tmono s s' /\
  (forall aid a', nth_error (w_archs s') aid = Some a' -> a_numrel a' = 0 ->
     (exists a, nth_error (w_archs s) aid = Some a /\ a_numrel a = 0) \/ r2e_has_table s' aid).

Lemma r2e_tmono_refl : forall s, r2e_tmono s s.
Proof. intros s tid t H. exists t. auto. Qed.
Lemma r2e_tmono_trans : forall s1 s2 s3, r2e_tmono s1 s2 -> r2e_tmono s2 s3 -> r2e_tmono s1 s3.
Proof.
  intros s1 s2 s3 H1 H2 tid t Ht. destruct (H1 tid t Ht) as (t2 & Ht2 & E2). destruct (H2 tid t2 Ht2) as (t3 & Ht3 & E3).
  exists t3. split; [exact Ht3|congruence].
Qed.
Lemma r2e_has_table_mono : forall s s' aid, r2e_tmono s s' -> r2e_has_table s aid -> r2e_has_table s' aid.
Proof. intros s s' aid HM (tid & t & Ht & Ea). destruct (HM tid t Ht) as (t' & Ht' & E). exists tid, t'. split; [exact Ht'|congruence]. Qed.

Lemma r2e_hk_refl : forall s, r2e_hk s s.
Proof. intros s. split; [apply r2e_tmono_refl|]. intros aid a Ha Hn. left. exists a. auto. Qed.
Lemma r2e_hk_trans : forall s1 s2 s3, r2e_hk s1 s2 -> r2e_hk s2 s3 -> r2e_hk s1 s3.
Proof.
  intros s1 s2 s3 (M1 & A1) (M2 & A2). split; [eapply r2e_tmono_trans; eassumption|].
  intros aid a3 Ha3 Hn3. destruct (A2 aid a3 Ha3 Hn3) as [(a2 & Ha2 & Hn2)|HT]; [|right; exact HT].
  destruct (A1 aid a2 Ha2 Hn2) as [H|HT]; [left; exact H|right; apply (r2e_has_table_mono s2 s3 aid M2 HT)].
Qed.

Lemma r2e_hk_H : forall s s', r2e_hk s s' -> r2e_H s -> r2e_H s'.
Proof.
  intros s s' (M & A) H aid a' Ha' Hn'. destruct (A aid a' Ha' Hn') as [(a & Ha & Hn)|HT]; [|exact HT].
  apply (r2e_has_table_mono s s' aid M). exact (H aid a Ha Hn).
Qed.

Lemma r2e_hk_same : forall s s', w_archs s' = w_archs s -> w_tables s' = w_tables s -> r2e_hk s s'.
Proof.
  intros s s' EA ET. split.
  - intros tid t Ht. exists t. rewrite ET. auto.
  - intros aid a Ha Hn. left. exists a. rewrite <- EA. auto.
Qed.

Definition r2e_hkp {A} (m : MW A) : Prop := r2e_pres r2e_hk m.

Lemma r2e_hkp_ro : forall A (m : MW A), readonly m -> r2e_hkp m.
Proof. intros A m H. apply (r2e_pres_ro r2e_hk r2e_hk_refl). exact H. Qed.
Lemma r2e_hkp_bind : forall A B (m : MW A) (k : A -> MW B), r2e_hkp m -> (forall a, r2e_hkp (k a)) -> r2e_hkp (bind m k).
Proof. intros A B m k. apply (r2e_pres_bind r2e_hk r2e_hk_trans). Qed.
Lemma r2e_hkp_forM : forall A (l : list A) (f : A -> MW unit), (forall a, r2e_hkp (f a)) -> r2e_hkp (forM_ l f).
Proof. intros A l f. apply (r2e_pres_forM r2e_hk r2e_hk_refl r2e_hk_trans). Qed.
Lemma r2e_hkp_whenM : forall b m, r2e_hkp m -> r2e_hkp (whenM b m).
Proof. intros b m. apply (r2e_pres_whenM r2e_hk r2e_hk_refl). Qed.
Lemma r2e_hkp_getbind : forall A (k : W -> MW A), (forall s, r2e_hk s (state_of (k s s))) -> r2e_hkp (bind get k).
Proof. intros A k. apply (r2e_pres_getbind r2e_hk). Qed.

(** callbacks, event dispatch, lock: the storage is untouched *)
Lemma r2e_hkp_sp : forall A (m : MW A), sa_sp m -> r2e_hkp m.
Proof.
  intros A m H s. destruct (H s) as (_ & _ & _ & _ & _ & E6 & E7 & _). apply r2e_hk_same; assumption.
Qed.

(** a [modify] that touches neither archetypes nor tables *)
Lemma r2e_hkp_modify_same : forall f : W -> W, (forall s, w_archs (f s) = w_archs s /\ w_tables (f s) = w_tables s) ->
  r2e_hkp (modify f).
Proof. intros f H s. unfold modify. cbn [state_of]. destruct (H s) as (E1 & E2). apply r2e_hk_same; assumption. Qed.

Lemma r2e_hk_tables_updf : forall s i (f : table -> table), (forall t, t_arch (f t) = t_arch t) ->
  r2e_tmono s (s <| w_tables ::= updf i f |>).
Proof.
  intros s i f Hf tid t Ht. cbn. rewrite nth_error_updf. destruct (Nat.eqb_spec i tid) as [<-|Hne].
  - rewrite Ht. cbn. eexists. split; [reflexivity|apply Hf].
  - exists t. auto.
Qed.

Lemma r2e_hkp_modT : forall i f, (forall t, t_arch (f t) = t_arch t) -> r2e_hkp (modT i f).
Proof.
  intros i f Hf s. unfold modT, modify. cbn [state_of]. split; [apply r2e_hk_tables_updf; exact Hf|].
  intros aid a Ha Hn. left. exists a. auto.
Qed.

Lemma r2e_hkp_modA : forall aid g, (forall a, a_numrel (g a) = a_numrel a) -> r2e_hkp (modA aid g).
Proof.
  intros aid g Hg s. unfold modA, modify. cbn [state_of]. split; [intros tid t Ht; exists t; auto|].
  intros i a' Ha Hn. left. cbn in Ha. rewrite nth_error_updf in Ha. destruct (Nat.eqb_spec aid i) as [<-|Hne].
  - destruct (nth_error (w_archs s) aid) as [a|] eqn:Ea; [|discriminate]. cbn in Ha. injection Ha as <-.
    exists a. split; [reflexivity|]. rewrite <- Hg. exact Hn.
  - exists a'. auto.
Qed.

(** [getT tid] followed by [setT tid t'] with a table derived from the one read *)
Lemma r2e_hk_setT : forall s tid t t', nth_error (w_tables s) tid = Some t -> t_arch t' = t_arch t ->
  r2e_hk s (state_of (setT tid t' s)).
Proof.
  intros s tid t t' Ht E. unfold setT, modT, modify. cbn [state_of]. split.
  - intros i x Hx. cbn. rewrite nth_error_updf. destruct (Nat.eqb_spec tid i) as [<-|Hne].
    + rewrite Hx. cbn. eexists. split; [reflexivity|]. congruence.
    + exists x. auto.
  - intros aid a Ha Hn. left. exists a. auto.
Qed.

Lemma r2e_hkp_getT_k : forall A tid (k : table -> MW A),
  (forall t s, nth_error (w_tables s) tid = Some t -> r2e_hk s (state_of (k t s))) -> r2e_hkp (t <- getT tid ;; k t).
Proof.
  intros A tid k H s. unfold bind at 1. unfold getT, bind, get, of_opt.
  destruct (nth_error (w_tables s) tid) as [t|] eqn:Et; cbn [state_of]; [apply H; exact Et|apply r2e_hk_refl].
Qed.

Lemma r2e_hk_bind_s : forall A B (m : MW A) (k : A -> MW B) s, r2e_hk s (state_of (m s)) -> (forall a, r2e_hkp (k a)) ->
  r2e_hk s (state_of (bind m k s)).
Proof.
  intros A B m k s Hm Hk. unfold bind. destruct (m s) as [a s1|er s1]; cbn [state_of] in *; [|exact Hm].
  apply (r2e_hk_trans s s1 _ Hm). apply Hk.
Qed.

(** the table primitives keep the archetype number *)
Lemma r2e_arch_extend : forall t n, t_arch (tbl_extend t n) = t_arch t.
Proof. intros. unfold tbl_extend. destruct (Nat.leb _ _); reflexivity. Qed.
Lemma r2e_arch_alloc : forall t n, t_arch (tbl_alloc t n) = t_arch t.
Proof. intros. unfold tbl_alloc. cbn. apply r2e_arch_extend. Qed.
Lemma r2e_arch_add : forall t e, t_arch (snd (tbl_add t e)) = t_arch t.
Proof. intros. unfold tbl_add. cbn. apply r2e_arch_alloc. Qed.
Lemma r2e_arch_remove : forall t i, t_arch (snd (tbl_remove t i)) = t_arch t.
Proof. intros. reflexivity. Qed.
Lemma r2e_arch_reset : forall t, t_arch (tbl_reset t) = t_arch t.
Proof. intros. reflexivity. Qed.
Lemma r2e_arch_add_all : forall d s n, t_arch (tbl_add_all d s n) = t_arch d.
Proof. intros. unfold tbl_add_all. cbn. apply r2e_arch_alloc. Qed.
Lemma r2e_arch_adjust : forall t c, t_arch (tbl_adjust t c) = t_arch t.
Proof. intros. reflexivity. Qed.

Ltac r2e_hk_step :=
  match goal with
  | |- r2e_hkp (ret _) => apply r2e_hkp_ro, readonly_ret
  | |- r2e_hkp (fail _) => apply r2e_hkp_ro, readonly_fail
  | |- r2e_hkp get => apply r2e_hkp_ro, readonly_get
  | |- r2e_hkp (guard _ _) => apply r2e_hkp_ro, readonly_guard
  | |- r2e_hkp (of_opt _ _) => apply r2e_hkp_ro, readonly_of_opt
  | |- r2e_hkp (getT _) => apply r2e_hkp_ro, readonly_getT
  | |- r2e_hkp (getA _) => apply r2e_hkp_ro, r2e_ro_getA
  | |- r2e_hkp (get_index _) => apply r2e_hkp_ro, readonly_get_index
  | |- r2e_hkp check_locked => apply r2e_hkp_ro, sc_ro_check_locked
  | |- r2e_hkp (arch_mask_of_table _) => apply r2e_hkp_ro, sc_ro_arch_mask
  | |- r2e_hkp (whenM _ _) => apply r2e_hkp_whenM
  | |- r2e_hkp (forM_ _ _) => apply r2e_hkp_forM; intros ?
  | |- r2e_hkp (bind _ _) => apply r2e_hkp_bind; [|intros ?]
  | |- r2e_hkp (let '(_, _) := ?x in _) => destruct x
  | |- r2e_hkp (match ?x with _ => _ end) => destruct x
  | |- r2e_hkp (if ?x then _ else _) => destruct x
  end.
Ltac r2e_hk_tac := repeat r2e_hk_step.
Ltac r2e_hk_same_mod := apply r2e_hkp_modify_same; intros ?; split; reflexivity.

Lemma r2e_hkp_tbl_addM : forall tid e, r2e_hkp (tbl_addM tid e).
Proof.
  intros tid e. unfold tbl_addM. apply r2e_hkp_getT_k. intros t s Ht.
  pose proof (r2e_arch_add t e) as E. destruct (tbl_add t e) as [idx t']. cbn [snd] in E.
  apply r2e_hk_bind_s; [apply (r2e_hk_setT s tid t t' Ht E)|]. intros _. r2e_hk_tac.
Qed.

Lemma r2e_hkp_remove_row : forall tid row, r2e_hkp (remove_row tid row).
Proof.
  intros tid row. unfold remove_row. apply r2e_hkp_getT_k. intros t s Ht.
  pose proof (r2e_arch_remove t row) as E. destruct (tbl_remove t row) as [sw t']. cbn [snd] in E.
  apply r2e_hk_bind_s; [apply (r2e_hk_setT s tid t t' Ht E)|]. intros _. r2e_hk_tac. r2e_hk_same_mod.
Qed.

Lemma r2e_hkp_copy_row : forall old new m row nidx, r2e_hkp (copy_row old new m row nidx).
Proof. intros. unfold copy_row. r2e_hk_tac. apply r2e_hkp_modT. intros; reflexivity. Qed.

Lemma r2e_hkp_copy_all : forall src dst row nidx, r2e_hkp (copy_all src dst row nidx).
Proof. intros. unfold copy_all. r2e_hk_tac. apply r2e_hkp_modT. intros; reflexivity. Qed.

Lemma r2e_hkp_move_entities : forall src dst n, r2e_hkp (move_entities src dst n).
Proof.
  intros src dst n. unfold move_entities. apply r2e_hkp_bind; [apply r2e_hkp_ro, readonly_getT|]. intros st.
  apply r2e_hkp_getT_k. intros dt s Ht.
  apply r2e_hk_bind_s; [apply (r2e_hk_setT s dst dt _ Ht (r2e_arch_add_all dt st n))|]. intros _.
  r2e_hk_tac; [r2e_hk_same_mod|apply r2e_hkp_modT; intros; reflexivity].
Qed.

Lemma r2e_hkp_set_index : forall id v, r2e_hkp (set_index id v).
Proof.
  intros id v. unfold set_index. apply r2e_hkp_modify_same. intros s. destruct (Nat.eqb id (length (w_index s))); split; reflexivity.
Qed.
Lemma r2e_hkp_set_index_direct : forall e tid row, r2e_hkp (set_index_direct e tid row).
Proof. intros. unfold set_index_direct. r2e_hk_same_mod. Qed.
Lemma r2e_hkp_pool_getM : r2e_hkp pool_getM.
Proof.
  intros s. unfold pool_getM, bind, get, put, ret. destruct (pool_get (w_pool s)) as [e p']. cbn [state_of].
  apply r2e_hk_same; reflexivity.
Qed.
Lemma r2e_hkp_pool_recycleM : forall e, r2e_hkp (pool_recycleM e).
Proof.
  intros e s. unfold pool_recycleM, bind, get, put, fail. destruct (pool_recycle (w_pool s) e); cbn [state_of];
    apply r2e_hk_same; reflexivity.
Qed.
Lemma r2e_hkp_register_targets : forall rels, r2e_hkp (register_targets rels).
Proof. intros. unfold register_targets. r2e_hk_tac. r2e_hk_same_mod. Qed.
Lemma r2e_hkp_cache_add_table : forall tid t am, r2e_hkp (cache_add_table tid t am).
Proof. intros. unfold cache_add_table. r2e_hk_tac. r2e_hk_same_mod. Qed.
Lemma r2e_hkp_cache_remove_table : forall tid, r2e_hkp (cache_remove_table tid).
Proof. intros. unfold cache_remove_table. r2e_hk_tac. r2e_hk_same_mod. Qed.

(** archetype-level updates keep the number of relation components *)
Lemma r2e_numrel_add_table : forall a tid t, a_numrel (arch_add_table a tid t) = a_numrel a.
Proof.
  intros. unfold arch_add_table. destruct (negb (arch_has_rels a)); [reflexivity|].
  destruct (r2_atc_fields tid (t_kinds t) (t_targets t) 0 (a <| a_tables ::= fun l => l ++ [tid] |>)) as (_ & _ & _ & _ & _ & E & _).
  exact E.
Qed.

Lemma r2e_hkp_create_table : forall aid rels, r2e_hkp (create_table aid rels).
Proof.
  intros aid rels. unfold create_table. r2e_hk_tac.
  all: try apply r2e_hkp_register_targets; try apply r2e_hkp_cache_add_table.
  all: try solve [apply r2e_hkp_ro; unfold check_rel; ro].
  all: try (apply r2e_hkp_modA; intros ?; first [reflexivity|apply r2e_numrel_add_table]).
  all: try (apply r2e_hkp_modT; intros ?; reflexivity).
  (* the fresh table is appended *)
  intros s0. unfold modify. cbn [state_of]. split.
  - intros tid t Ht. exists t. cbn. split; [apply sa_nth_error_snoc_old; exact Ht|reflexivity].
  - intros i b Hb Hn. left. exists b. auto.
Qed.

(** createArchetype (as repaired): the new archetype either has relation components, or its table was
    appended to the table list before anything could fail. *)
Lemma r2e_hkp_create_archetype : forall m, r2e_hkp (create_archetype m).
Proof.
  intros m s. unfold create_archetype.
  set (comps := mk_to_list m (length (w_reg s))).
  set (isrel := map (fun c => ck_rel (kind_of s c)) comps).
  set (numrel := length (filter (fun b : bool => b) isrel)).
  set (a0 := {| a_mask := m; a_comps := comps; a_isrel := isrel; a_tables := []; a_free := [];
                a_reltabs := map (fun _ => []) comps; a_tgttabs := []; a_numrel := numrel |}).
  set (aid := length (w_archs s)).
  set (s1 := s <| w_archs ::= fun l => l ++ [a0] |>
               <| w_compindex ::= fun ci => fold_left (fun ci c => updf c (fun l => l ++ [aid]) ci) comps ci |>
               <| w_archcount ::= fun ac => fold_left (fun ac c => updf c S ac) comps ac |>
               <| w_version ::= fun v => N.modulo (v + N.of_nat (length comps)) 4294967296 |>
               <| w_relarchs ::= fun l => if Nat.eqb numrel 0 then l else l ++ [aid] |>).
  assert (E1 : create_archetype_bare m s = Ok aid s1) by reflexivity.
  assert (Ha0 : nth_error (w_archs s1) aid = Some a0) by (unfold s1, aid; cbn; apply sa_nth_error_snoc_new).
  rewrite (sa_bind_ok E1), (sa_bind_ok (sa_getA_eq _ _ _ Ha0)).
  (* the frame of the archetype step alone, for a new archetype that has a table or relation components *)
  assert (Hbase : forall s', r2e_tmono s1 s' ->
            (forall i b, nth_error (w_archs s') i = Some b -> a_numrel b = 0 ->
               (exists b0, nth_error (w_archs s1) i = Some b0 /\ a_numrel b0 = 0) \/ r2e_has_table s' i) ->
            (numrel = 0 -> r2e_has_table s' aid) -> r2e_hk s s').
  { intros s' HM HA HT. split.
    - intros tid t Ht. apply HM. exact Ht.
    - intros i b Hb Hn. destruct (HA i b Hb Hn) as [(b0 & Hb0 & Hn0)|Htab]; [|right; exact Htab].
      unfold s1 in Hb0. cbn in Hb0. apply sa_nth_error_snoc in Hb0. destruct Hb0 as [[_ Hb0]|[Ei Eb]].
      + left. exists b0. auto.
      + right. subst i b0. apply HT. exact Hn0. }
  change (a_numrel a0) with numrel. destruct (Nat.eqb_spec numrel 0) as [Hz|Hnz].
  - (* the table is created *)
    assert (E2 : state_of (((_ <- create_table aid [] ;; ret tt) ;;; ret aid) s1) = state_of (create_table aid [] s1)).
    { unfold bind. destruct (create_table aid [] s1); reflexivity. }
    rewrite E2. rewrite r2_create_table_unfold.
    rewrite (sa_bind_ok (sa_getA_eq _ _ _ Ha0)). change (a_numrel a0) with numrel. rewrite Hz.
    cbn [length Nat.ltb Nat.leb negb guard]. rewrite (sa_bind_ok (m := ret tt) (s := s1) eq_refl).
    cbn [rels_distinct guard]. rewrite (sa_bind_ok (m := ret tt) (s := s1) eq_refl).
    cbn [place_targets of_opt]. rewrite (sa_bind_ok (m := ret _) (s := s1) eq_refl).
    cbn [forM_]. rewrite (sa_bind_ok (m := ret tt) (s := s1) eq_refl).
    unfold register_targets; cbn [forM_]. rewrite (sa_bind_ok (m := ret tt) (s := s1) eq_refl).
    unfold r2_create_tail. rewrite (sa_bind_ok (m := get) (s := s1) eq_refl).
    change (a_free a0) with (@nil nat). cbn [rev].
    set (t := new_table aid a0 (map (kind_of s1) (a_comps a0)) (if arch_has_rels a0 then cf_caprel (w_cfg s1) else cf_cap (w_cfg s1))
                (repeat zero_ent (length (a_comps a0))) []).
    set (tid := length (w_tables s1)).
    set (s2 := s1 <| w_tables ::= fun l => l ++ [t] |>).
    assert (E3 : (modify (fun s0 : wstate => s0 <| w_tables ::= fun l => l ++ [t] |>) ;;; ret tid) s1 = Ok tid s2) by reflexivity.
    rewrite (sa_bind_ok E3).
    assert (T2 : nth_error (w_tables s2) tid = Some t) by (unfold s2, tid; cbn; apply sa_nth_error_snoc_new).
    rewrite (sa_bind_ok (sa_getT_eq _ _ _ T2)).
    (* from here on: archetype lists keep their relation counts, tables their archetype *)
    assert (Htail : r2e_hkp (modA aid (fun a => arch_add_table a tid t) ;;; cache_add_table tid t (a_mask a0) ;;; ret tid)).
    { r2e_hk_tac; [apply r2e_hkp_modA; intros ?; apply r2e_numrel_add_table|apply r2e_hkp_cache_add_table]. }
    destruct (Htail s2) as (HM & HA).
    apply Hbase.
    + intros j x Hx. apply HM. unfold s2. cbn. apply sa_nth_error_snoc_old. exact Hx.
    + intros i b Hb Hn. destruct (HA i b Hb Hn) as [H|H]; [left; exact H|right; exact H].
    + intros _. destruct (HM tid t T2) as (t' & Ht' & Et'). exists tid, t'. split; [exact Ht'|]. rewrite Et'. reflexivity.
  - (* relation components: nothing else happens *)
    rewrite (sa_bind_ok (m := ret tt) (s := s1) eq_refl). unfold ret. cbn [state_of].
    apply Hbase.
    + apply r2e_tmono_refl.
    + intros i b Hb Hn. left. exists b. auto.
    + intros Hz. contradiction.
Qed.

Lemma r2e_hkp_find_or_create_arch : forall m, r2e_hkp (find_or_create_arch m).
Proof.
  intros m. unfold find_or_create_arch. apply r2e_hkp_getbind. intros s.
  destruct (find_arch s m); [apply r2e_hk_refl|apply r2e_hkp_create_archetype].
Qed.

Lemma r2e_hkp_goc : forall aid rels, r2e_hkp (get_or_create_table aid rels).
Proof.
  intros. unfold get_or_create_table. r2e_hk_tac; [apply r2e_hkp_ro, r2e_ro_arch_get_table|apply r2e_hkp_create_table].
Qed.

Lemma r2e_hkp_find_add : forall old add rels m0, r2e_hkp (find_or_create_table_add old add rels m0).
Proof.
  intros. unfold find_or_create_table_add. r2e_hk_tac; try apply r2e_hkp_goc; try apply r2e_hkp_find_or_create_arch.
  all: apply r2e_hkp_ro, r2e_ro_gf_add.
Qed.
Lemma r2e_hkp_find_remove : forall old rem m0, r2e_hkp (find_or_create_table_remove old rem m0).
Proof.
  intros. unfold find_or_create_table_remove. r2e_hk_tac; try apply r2e_hkp_goc; try apply r2e_hkp_find_or_create_arch.
  all: apply r2e_hkp_ro, r2e_ro_gf_remove.
Qed.
Lemma r2e_hkp_find_exchange : forall old add rem rels m0, r2e_hkp (find_or_create_table old add rem rels m0).
Proof.
  intros. unfold find_or_create_table. r2e_hk_tac; try apply r2e_hkp_goc; try apply r2e_hkp_find_or_create_arch.
  all: first [apply r2e_hkp_ro, r2e_ro_gf_add|apply r2e_hkp_ro, r2e_ro_gf_remove].
Qed.

(** event dispatch *)
Lemma r2e_hkp_fire : forall evt early pred e eo, r2e_hkp (fire evt early pred e eo).
Proof. intros. apply r2e_hkp_sp, sa_sp_fire. Qed.
Lemma r2e_hkp_fire_create : forall e m, r2e_hkp (fire_create_entity_if_has e m).
Proof. intros e m. apply r2e_hkp_sp. intros s. apply fire_create_entity_if_has_storage. Qed.
Lemma r2e_hkp_fire_create_rel : forall e m, r2e_hkp (fire_create_entity_rel_if_has e m).
Proof.
  intros e m. apply r2e_hkp_sp. unfold fire_create_entity_rel_if_has, fire_create_entity_rel. sa_sp_tac; apply sa_sp_fire.
Qed.
Lemma r2e_hkp_fire_add : forall evt e o n, r2e_hkp (fire_add_if_has evt e o n).
Proof. intros evt e o n. apply r2e_hkp_sp. intros s. apply fire_add_if_has_storage. Qed.
Lemma r2e_hkp_fire_remove_events : forall e o n rr, r2e_hkp (fire_remove_events e o n rr).
Proof. intros e o n rr. apply r2e_hkp_sp. intros s. apply fire_remove_events_storage. Qed.

(** the entity operations *)
Lemma r2e_hkp_new_entity : forall ids rels, r2e_hkp (new_entity ids rels).
Proof.
  intros. unfold new_entity. r2e_hk_tac.
  all: first [apply r2e_hkp_find_add|apply r2e_hkp_pool_getM|apply r2e_hkp_tbl_addM|apply r2e_hkp_set_index|apply r2e_hkp_register_targets].
Qed.

Lemma r2e_hkp_create_entity : forall tid, r2e_hkp (create_entity tid).
Proof.
  intros. unfold create_entity. r2e_hk_tac.
  all: first [apply r2e_hkp_pool_getM|apply r2e_hkp_tbl_addM|apply r2e_hkp_set_index|r2e_hk_same_mod].
Qed.

Lemma r2e_hkp_copy_entity : forall e, r2e_hkp (w_copy_entity e).
Proof.
  intros. unfold w_copy_entity. r2e_hk_tac.
  all: first [apply r2e_hkp_pool_getM|apply r2e_hkp_tbl_addM|apply r2e_hkp_set_index|apply r2e_hkp_copy_all
             |apply r2e_hkp_fire_create|apply r2e_hkp_fire_create_rel].
Qed.

Lemma r2e_hkp_w_add : forall e add rels, r2e_hkp (w_add e add rels).
Proof.
  intros. unfold w_add. r2e_hk_tac.
  all: first [apply r2e_hkp_find_add|apply r2e_hkp_tbl_addM|apply r2e_hkp_copy_row|apply r2e_hkp_remove_row
             |apply r2e_hkp_set_index_direct|apply r2e_hkp_register_targets].
Qed.

Lemma r2e_hkp_w_remove : forall e rem, r2e_hkp (w_remove e rem).
Proof.
  intros. unfold w_remove. r2e_hk_tac.
  all: first [apply r2e_hkp_find_remove|apply r2e_hkp_tbl_addM|apply r2e_hkp_copy_row|apply r2e_hkp_remove_row
             |apply r2e_hkp_set_index_direct|apply r2e_hkp_fire_remove_events].
Qed.

Lemma r2e_hkp_w_exchange : forall e add rem rels, r2e_hkp (w_exchange e add rem rels).
Proof.
  intros. unfold w_exchange. r2e_hk_tac.
  all: first [apply r2e_hkp_find_exchange|apply r2e_hkp_tbl_addM|apply r2e_hkp_copy_row|apply r2e_hkp_remove_row
             |apply r2e_hkp_set_index_direct|apply r2e_hkp_register_targets|apply r2e_hkp_fire_remove_events].
Qed.

Lemma r2e_hkp_w_set_relations : forall e rels, r2e_hkp (w_set_relations e rels).
Proof.
  intros e rels. unfold w_set_relations, fire_set. r2e_hk_tac.
  all: first [apply r2e_hkp_ro, r2e_ro_exchange_targets|apply r2e_hkp_goc|apply r2e_hkp_tbl_addM|apply r2e_hkp_copy_all
             |apply r2e_hkp_remove_row|apply r2e_hkp_set_index_direct|apply r2e_hkp_register_targets|apply r2e_hkp_fire
             |apply r2e_hkp_sp, sa_sp_lockM|apply r2e_hkp_sp, sa_sp_unlockM].
Qed.

(** RemoveEntity with its cleanup; Shrink *)
Lemma r2e_numrel_free_table : forall a tid, a_numrel (arch_free_table a tid) = a_numrel a.
Proof. intros. apply (r2_aft_fields a tid). Qed.
Lemma r2e_numrel_rft : forall tid kinds i targets a, a_numrel (remove_from_targets_cols tid i kinds targets a) = a_numrel a.
Proof.
  intros tid kinds. induction kinds as [|k ks IH]; intros i targets a; [reflexivity|].
  destruct targets as [|tg tgs]; [reflexivity|]. cbn [remove_from_targets_cols]. rewrite IH. destruct (ck_rel k); reflexivity.
Qed.

Lemma r2e_hkp_free_table : forall aid tid, r2e_hkp (free_table aid tid).
Proof.
  intros. unfold free_table. r2e_hk_tac; [apply r2e_hkp_modA; intros; apply r2e_numrel_free_table|apply r2e_hkp_modT; intros; reflexivity].
Qed.

Lemma r2e_ro_etu : forall t rels, readonly (exchange_targets_unchecked t rels).
Proof.
  intros t rels. unfold exchange_targets_unchecked. apply readonly_bind; [|intros; apply readonly_ret].
  generalize (t_targets t). induction rels as [|[c x] rest IH]; intros tg; [apply readonly_ret|].
  destruct (tbl_colidx t c); [apply IH|apply readonly_fail].
Qed.

Lemma r2e_hkp_cleanup : forall e, r2e_hkp (cleanup_archetypes e).
Proof.
  intros e. unfold cleanup_archetypes. r2e_hk_tac.
  all: first [apply r2e_hkp_ro, r2e_ro_etu|apply r2e_hkp_goc|apply r2e_hkp_move_entities|apply r2e_hkp_free_table
             |apply r2e_hkp_cache_remove_table|apply r2e_hkp_modA; intros; reflexivity].
Qed.

Lemma r2e_hkp_remove_entity : forall e, r2e_hkp (storage_remove_entity e).
Proof.
  intros e. unfold storage_remove_entity, fire_remove_entity, fire_remove_entity_rel.
  apply r2e_hkp_bind; [apply r2e_hkp_ro, readonly_get|]. intros s0.
  apply r2e_hkp_bind; [apply r2e_hkp_ro, readonly_guard|]. intros _.
  apply r2e_hkp_bind; [apply r2e_hkp_ro, readonly_get_index|]. intros [tid row].
  apply r2e_hkp_bind; [apply r2e_hkp_ro, readonly_getT|]. intros t0.
  apply r2e_hkp_bind; [apply r2e_hkp_ro, sc_ro_arch_mask|]. intros m.
  apply r2e_hkp_bind.
  { r2e_hk_tac. all: first [apply r2e_hkp_sp, sa_sp_lockM|apply r2e_hkp_sp, sa_sp_unlockM|apply r2e_hkp_fire]. }
  intros _. apply r2e_hkp_getT_k. intros t s Ht.
  pose proof (r2e_arch_remove t row) as E. destruct (tbl_remove t row) as [sw t']. cbn [snd] in E.
  apply r2e_hk_bind_s; [apply (r2e_hk_setT s tid t t' Ht E)|]. intros _. r2e_hk_tac.
  all: first [apply r2e_hkp_pool_recycleM|apply r2e_hkp_cleanup|r2e_hk_same_mod].
Qed.

Lemma r2e_hkp_any1 : forall idx any t s0, r2e_hkp (ResetShrinkProofs.r_any1 idx any t s0).
Proof.
  intros. unfold ResetShrinkProofs.r_any1. r2e_hk_tac.
  all: first [apply r2e_hkp_modT; intros; reflexivity|apply r2e_hkp_free_table|apply r2e_hkp_cache_remove_table
             |apply r2e_hkp_modA; intros; apply r2e_numrel_rft].
Qed.

Lemma r2e_hkp_go_clock : forall clock fuel idx any, r2e_hkp (ResetShrinkProofs.r_go_clock clock fuel idx any).
Proof.
  intros clock fuel. induction fuel as [|f IH]; intros idx any; cbn [ResetShrinkProofs.r_go_clock]; [apply r2e_hkp_ro, readonly_ret|].
  apply r2e_hkp_bind; [apply r2e_hkp_ro, readonly_getT|]. intros t.
  apply r2e_hkp_getbind. intros s.
  assert (X : r2e_hkp (any1 <- ResetShrinkProofs.r_any1 idx any t s;;
    (if (any1 && clock idx)%bool then ret (idx, any1) else match f with 0 => ret (idx, any1) | S _ => ResetShrinkProofs.r_go_clock clock f (S idx) any1 end))).
  { apply r2e_hkp_bind; [apply r2e_hkp_any1|]. intros any1.
    destruct (any1 && clock idx)%bool; [apply r2e_hkp_ro, readonly_ret|]. destruct f; [apply r2e_hkp_ro, readonly_ret|apply IH]. }
  apply X.
Qed.

Lemma r2e_hkp_go : forall stop0 fuel idx any, r2e_hkp (ResetShrinkProofs.r_go stop0 fuel idx any).
Proof. intros stop0 fuel idx any. exact (r2e_hkp_go_clock (fun _ => stop0) fuel idx any). Qed.

(** Shrink under every clock (every time budget) keeps the frame. *)
Lemma r2e_hkp_shrink_clock : forall clock, r2e_hkp (w_shrink_clock clock).
Proof.
  intros clock s. rewrite ResetShrinkProofs.r_shrink_eq_clock. pose proof (r2e_hkp_go_clock clock (length (w_tables s)) 0 false s) as H.
  destruct (ResetShrinkProofs.r_go_clock clock (length (w_tables s)) 0 false s); exact H.
Qed.

Lemma r2e_hkp_shrink_core : forall stop0, r2e_hkp (w_shrink_core stop0).
Proof. intros stop0. exact (r2e_hkp_shrink_clock (fun _ => stop0)). Qed.

Lemma r2e_hkp_shrink_timed : forall clock, r2e_hkp (w_shrink_timed clock).
Proof.
  intros clock. unfold w_shrink_timed. apply r2e_hkp_bind; [apply r2e_hkp_ro, sc_ro_check_locked|]. intros _. apply r2e_hkp_shrink_clock.
Qed.

Lemma r2e_hkp_shrink : forall stop0, r2e_hkp (w_shrink stop0).
Proof. intros stop0. exact (r2e_hkp_shrink_timed (fun _ => stop0)). Qed.

Lemma r2e_hkp_write_cell : forall tid ci row v, r2e_hkp (write_cell tid ci row v).
Proof. intros. unfold write_cell. r2e_hk_tac. apply r2e_hkp_modT. intros; reflexivity. Qed.

(** One covered operation keeps the frame, whatever its outcome. *)
Theorem r2e_hkp_step_op : forall debug o, rel_core_op o = true -> r2e_hkp (step_op debug o).
Proof.
  intros debug o Hc. destruct o; cbn [rel_core_op] in Hc; try discriminate Hc; cbn [step_op]; r2e_hk_tac.
  all: first [apply r2e_hkp_ro, readonly_resolveH|apply r2e_hkp_ro, readonly_resolveR|apply r2e_hkp_ro, sc_ro_cell_of
             |apply r2e_hkp_create_entity|apply r2e_hkp_new_entity|apply r2e_hkp_copy_entity
             |apply r2e_hkp_w_add|apply r2e_hkp_w_remove|apply r2e_hkp_w_exchange|apply r2e_hkp_w_set_relations
             |apply r2e_hkp_remove_entity|apply r2e_hkp_shrink|apply r2e_hkp_write_cell
             |apply r2e_hkp_fire_create|apply r2e_hkp_fire_create_rel|apply r2e_hkp_fire_add|idtac].
Qed.

(** Under the invariant the two readings of the clause agree. *)
Lemma r2e_tabled_iff : forall s, St2 s -> (r2e_H s <-> archs_tabled_norel s).
Proof.
  intros s (HW & (HR & _) & _). split.
  - intros H aid a Ha Hn. destruct (H aid a Ha Hn) as (tid & t & Ht & Et).
    destruct (ri_listed _ _ HR tid t Ht) as (b & Hb & Hin). rewrite Et, Ha in Hb. injection Hb as <-.
    destruct (ri_norel _ _ HR aid a Ha Hn) as (Hf & _). rewrite Hf in Hin.
    destruct (t_free t); [destruct Hin|]. intros E. rewrite E in Hin. destruct Hin.
  - intros H aid a Ha Hn. pose proof (H aid a Ha Hn) as Hne.
    destruct (a_tables a) as [|tid tl] eqn:Et; [congruence|].
    destruct (wf_arch_tables _ HW aid a tid Ha) as (t & Ht & Ea); [left; rewrite Et; left; reflexivity|].
    exists tid, t. auto.
Qed.

Lemma r2e_hk_ext : forall s s1 s1', r2e_hk s s1 -> w_archs s1' = w_archs s1 -> w_tables s1' = w_tables s1 -> r2e_hk s s1'.
Proof. intros s s1 s1' H EA ET. apply (r2e_hk_trans s s1 s1' H). apply r2e_hk_same; assumption. Qed.

(** The invariant of the covered histories together with the clause. *)
Definition Inv2T (s : W) (n : nat) : Prop := Inv2 s n /\ archs_tabled_norel s.

Theorem step_tabled2 : forall debug wd s n line o,
  Inv2 s n -> n + 4 < Nat.pow 2 31 -> decode_op line = Some o -> rel_core_op o = true ->
  (forall c, In c (rel_op_ids o) -> c < length (w_reg s)) ->
  archs_tabled_norel s -> archs_tabled_norel (fst (step debug wd s line)).
Proof.
  intros debug wd s n line o HI Hn Hd Hc Hreg HT.
  destruct (step_inv2 debug wd s n line o HI Hn Hd Hc Hreg) as ((HS' & _) & _).
  apply (r2e_tabled_iff _ HS'). apply (r2e_tabled_iff s (proj1 HI)) in HT.
  refine (r2e_hk_H s _ _ HT).
  rewrite (r2e_step_state debug wd s line o Hd Hc).
  set (s0 := s <| w_log := [] |>).
  assert (H0 : r2e_hk s s0) by (apply r2e_hk_same; reflexivity).
  apply (r2e_hk_trans s s0 _ H0).
  pose proof (r2e_hkp_step_op debug o Hc s0) as H1.
  apply (r2e_hk_ext s0 _ _ H1); [|].
  - unfold sc_issue. destruct (step_op debug o s0) as [[|i [|g rest]] s1|er s1]; try reflexivity. destruct (returns_entity o); reflexivity.
  - unfold sc_issue. destruct (step_op debug o s0) as [[|i [|g rest]] s1|er s1]; try reflexivity. destruct (returns_entity o); reflexivity.
Qed.

Theorem step_inv2T : forall debug wd s n line o,
  Inv2T s n -> n + 4 < Nat.pow 2 31 -> decode_op line = Some o -> rel_core_op o = true ->
  (forall c, In c (rel_op_ids o) -> c < length (w_reg s)) ->
  let s' := fst (step debug wd s line) in
  Inv2T s' (S n) /\ w_reg s' = w_reg s.
Proof.
  intros debug wd s n line o (HI & HT) Hn Hd Hc Hreg. cbv zeta.
  destruct (step_inv2 debug wd s n line o HI Hn Hd Hc Hreg) as (H1 & H2 & _).
  split; [|exact H2]. split; [exact H1|]. apply (step_tabled2 debug wd s n line o HI Hn Hd Hc Hreg HT).
Qed.

Lemma r2e_tabled_init : forall c, archs_tabled_norel (init_world c).
Proof. exact archs_tabled_init. Qed.

Theorem reachable_inv2T : forall c lines,
  cfg_ok2 c -> Forall (rel_core_line (length (sc_kinds c))) lines -> length lines + 4 < Nat.pow 2 31 ->
  Inv2T (Properties.Common.exec c lines) (length lines).
Proof.
  intros c lines Hc. induction lines as [|l lines IH] using rev_ind; intros HF Hb.
  - split; [apply r2e_init; exact Hc|apply archs_tabled_init].
  - pose proof (reachable_inv2 c (lines ++ [l]) Hc HF Hb) as HI'. split; [exact HI'|].
    apply Forall_app in HF. destruct HF as (HF & Hl). inversion Hl as [|? ? (o & Hd & Hco & Hids) _]; subst.
    rewrite app_length in Hb. cbn [length] in Hb.
    destruct IH as (IH1 & IH2); [exact HF|lia|].
    destruct (r2e_run_inv c Hc lines HF) as (_ & Hregs); [lia|].
    unfold Properties.Common.exec in *. rewrite fold_left_app. cbn [fold_left].
    apply (step_tabled2 (sc_debug c) false _ (length lines) l o IH1); auto; try lia.
    rewrite Hregs. exact Hids.
Qed.

(** Reset in a reachable state of a covered history: hypothesis (A) of [D_reset_spec] ("every archetype
    without relation components has its table") is part of the invariant, so Reset succeeds. The class itself
    still does not contain OReset: handles issued before a Reset may alias later entities
    ([r2e_reset_refuted_handles]), so [issued_ok] does not survive it. *)
Theorem r2e_reset_step : forall debug s n, Inv2T s n ->
  exists s', step_op debug OReset s = Ok [] s' /\ St2 s' /\ r2d_KeysLive s' /\ is_locked s' = false /\
    (forall e, live s' e = false) /\ w_reg s' = w_reg s.
Proof. intros debug s n (HI & HT). exact (r2e_reset_step_partial debug s n HI HT). Qed.

Theorem reachable_reset_succeeds : forall c lines,
  cfg_ok2 c -> Forall (rel_core_line (length (sc_kinds c))) lines -> length lines + 4 < Nat.pow 2 31 ->
  exists s', step_op (sc_debug c) OReset (Properties.Common.exec c lines) = Ok [] s' /\ St2 s' /\ r2d_KeysLive s' /\
    is_locked s' = false /\ (forall e, live s' e = false) /\ w_reg s' = w_reg (Properties.Common.exec c lines).
Proof. intros c lines Hc Hl Hb. exact (r2e_reset_step (sc_debug c) _ _ (reachable_inv2T c lines Hc Hl Hb)). Qed.

(** ** Assumption audit *)
Definition r2e_all :=
  (r2e_init, r2e_op_spec, step_inv2, creation_fresh2, reachable_inv2,
   targets_always_zero_or_alive, remove_target_detaches_step, remove_target_detaches,
   target_is_last_assigned_setrel, target_is_last_assigned_new, target_is_last_assigned_add,
   stale_handle_rejected2, r2e_reset_step_partial,
   r2e_remove_entity_spec, r2e_cleanup_spec, r2e_goc_any, r2e_add_any, r2e_exchange_any, r2e_new_entity_any,
   r2e_KeysLive_E, r2e_script_inv, r2e_reset_refuted_handles, r2e_reset_refuted_table,
   r2e_hkp_step_op, r2e_tabled_iff, step_tabled2, step_inv2T, reachable_inv2T, r2e_reset_step, reachable_reset_succeeds).
Print Assumptions r2e_all.
