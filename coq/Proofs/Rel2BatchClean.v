(** * Rel2BatchClean: [cleanup_archetypes] for a SET of dying entities (relation tier).

    Rel2Remove / Rel2Hist prove the cleanup of relation targets for ONE dying id ([St2G (eq k)]). The batch
    operation RemoveEntities first removes the rows of all selected entities and only then runs
    [cleanup_archetypes e] for every removed entity [e] that was flagged as a relation target. While the
    cleanup for [e] runs, active tables may still name OTHER removed entities. This is the situation the
    repaired cleanup ("every dead target of the table is detached") was written for; here it is proved.

    [Dy : ent -> Prop] is the set of dying entities (removed from their rows, recycled in the pool, their
    cleanup not yet done), [r2g_D Dy] the set of their ids. Invariant of the cleanup loop: [r2g_I Dy s].
    Main results (helper prefix [r2g_]):
    - [r2g_goc_nostale]: GetTable-or-create never produces a stale lookup entry (a freed table listed in a lookup);
    - [r2g_detached_rels], [r2g_phaseA], [r2g_phaseBC], [r2g_step_spec], [r2g_inner_loop], [r2g_arch_spec],
      [r2g_outer_loop]: the analogues of the [r2c_] / [r2e_] lemmas for a set of dying ids, with the lookup keys
      and the "no stale entry" clause carried along;
    - [r2g_cleanup_spec]: [cleanup_archetypes e] for [Dy e] succeeds, keeps [r2g_I Dy], leaves no lookup key
      [fst e], detaches exactly targets with dying ids ([r2g_frame]);
    - [r2g_cleanup_one]: together with clearing the flag: [r2g_I] for the set without [e];
    - [r2g_cleanup_list]: the second phase of RemoveEntities, [bo_rm_cleanup cl], from [r2g_I (In cl)] to
      [St2 /\ r2d_KeysLive]. *)
From Ark Require Import Model.Base Model.Mask Model.Pool Model.Util Model.World Model.Run.
From Ark Require Import Proofs.TableProofs Proofs.MaskProofs Proofs.Hoare Proofs.WF Proofs.StorageA Proofs.StorageBDefs
  Proofs.StorageB_sb1 Proofs.StorageB_sb2 Proofs.StorageB_sb3 Proofs.LockWorld Proofs.StorageC Proofs.RelProofs Proofs.BatchProofs
  Proofs.Rel2Defs Proofs.Rel2Struct Proofs.Rel2Remove Proofs.Rel2SetRel Proofs.Rel2Ops Proofs.Rel2Maint Proofs.Rel2Hist.
From RecordUpdate Require Import RecordSet.
Import RecordSetNotations.
From Coq Require Import Lia.

(* ================================================================================================ *)
(** * Part 0: GetTable-or-create keeps "no freed table is listed in a lookup" *)

Definition r2g_same_at (s s' : W) : Prop := w_archs s' = w_archs s /\ w_tables s' = w_tables s.

Lemma r2g_same_at_refl : forall s, r2g_same_at s s.
Proof. intros s. split; reflexivity. Qed.
Lemma r2g_same_at_trans : forall s1 s2 s3, r2g_same_at s1 s2 -> r2g_same_at s2 s3 -> r2g_same_at s1 s3.
Proof. intros s1 s2 s3 (A1 & A2) (B1 & B2). split; congruence. Qed.

Lemma r2g_cache_add_same : forall tid t am, r2e_pres r2g_same_at (cache_add_table tid t am).
Proof.
  intros tid t am. unfold cache_add_table.
  apply (r2e_pres_getbind r2g_same_at). intros s0.
  apply (r2e_pres_forM r2g_same_at r2g_same_at_refl r2g_same_at_trans). intros addr.
  apply (r2e_pres_getbind r2g_same_at). intros s1.
  destruct (nth_error (w_cheap s1) addr) as [e|]; [|apply r2g_same_at_refl].
  destruct (nth_error (w_filters s1) (ce_filter e)) as [f|]; [|apply r2g_same_at_refl].
  destruct (negb (filter_matches f am)); [apply r2g_same_at_refl|].
  apply (r2e_pres_bind r2g_same_at r2g_same_at_trans).
  - destruct (tbl_has_rels t); [apply (r2e_pres_ro r2g_same_at r2g_same_at_refl), readonly_of_opt
                               |apply (r2e_pres_ro r2g_same_at r2g_same_at_refl), readonly_ret].
  - intros mt. destruct mt; cbn [whenM]; [|apply (r2e_pres_ro r2g_same_at r2g_same_at_refl), readonly_ret].
    intros s2. unfold modify. cbn [state_of]. split; reflexivity.
Qed.

(** membership in the lists of a lookup after AddTable: the new table or an old member *)
Lemma r2g_look_in : forall k (m : list (nat * list nat)) x, In x (r2_look k m) -> exists l, afind k m = Some l /\ In x l.
Proof. intros k m x H. unfold r2_look in H. destruct (afind k m) as [l|]; [exists l; split; [reflexivity|exact H]|destruct H]. Qed.

(** the archetype after [arch_add_table] has no stale entry if it had none and [tid] is not free *)
Lemma r2g_add_table_nostale : forall a tid t,
  (forall j kd, nth_error (t_kinds t) j = Some kd -> nth_error (a_isrel a) j = Some (ck_rel kd)) ->
  length (t_kinds t) = length (a_isrel a) ->
  (a_numrel a = 0 -> forall j, ~ r2_relcol a j) ->
  (forall k l, afind k (a_tgttabs a) = Some l -> ~ In tid l) ->
  r2_nostale a -> ~ In tid (a_free a) -> r2_nostale (arch_add_table a tid t).
Proof.
  intros a tid t HK HKL H0 Hno Hst Hnf.
  destruct (r2_arch_add_table_spec a tid t HK HKL H0 Hno) as (_ & _ & _ & _ & _ & G6 & _ & GLR & GLT).
  intros x Hx. rewrite G6 in Hx. destruct (Hst x Hx) as (S1 & S2).
  assert (Hne : x <> tid) by (intros ->; contradiction).
  split.
  - intros k l Hk Hin. destruct (GLT k) as (T1 & T2).
    destruct (r2_has_target_b a t k) eqn:Eb.
    + apply r2_has_target_b_iff in Eb. apply r2_anyhit_iff in Eb. rewrite (T1 Eb) in Hk. injection Hk as <-.
      apply in_app_iff in Hin. destruct Hin as [Hin|[Hin|[]]]; [|congruence].
      destruct (r2g_look_in _ _ _ Hin) as (l0 & Hl0 & Hin0). apply (S1 k l0 Hl0 Hin0).
    + assert (Hn : ~ r2_anyhit a (t_targets t) k).
      { intros Hc. apply r2_anyhit_iff in Hc. apply r2_has_target_b_iff in Hc. congruence. }
      rewrite (T2 Hn) in Hk. apply (S1 k l Hk Hin).
  - intros i m' k l Hm' Hk Hin. destruct (GLR i m' Hm') as (m & Hm & Hf). rewrite Hf in Hk.
    destruct (r2_hitb a (t_targets t) i k).
    + injection Hk as <-. apply in_app_iff in Hin. destruct Hin as [Hin|[Hin|[]]]; [|congruence].
      destruct (r2g_look_in _ _ _ Hin) as (l0 & Hl0 & Hin0). apply (S2 i m k l0 Hm Hl0 Hin0).
    + apply (S2 i m k l Hm Hk Hin).
Qed.

Lemma r2g_NoDup_last : forall (fr : list nat) f, NoDup (fr ++ [f]) -> ~ In f fr.
Proof.
  intros fr f H Hin. apply NoDup_remove_2 in H. apply H. rewrite app_nil_r. exact Hin.
Qed.

Lemma r2g_create_tail_nostale : forall D P X s aid a rels tg tid s',
  St2G D P X s -> nth_error (w_archs s) aid = Some a -> r2_nostale a ->
  r2_create_tail aid a rels tg s = Ok tid s' ->
  (forall i, i <> aid -> nth_error (w_archs s') i = nth_error (w_archs s) i) /\
  exists a', nth_error (w_archs s') aid = Some a' /\ r2_nostale a'.
Proof.
  intros D P X s aid a rels tg tid s' (HW & HR & HT & HC) Ha Hst Hrun.
  destruct (r2_kinds_isrel s aid a HW Ha) as (HK & HKL).
  pose proof (r2_norel_cols s aid a HW Ha) as Hnc.
  unfold r2_create_tail in Hrun. rewrite (sa_bind_ok (m := get) (s := s) eq_refl) in Hrun.
  set (kinds := map (kind_of s) (a_comps a)) in *.
  destruct (rev (a_free a)) as [|f tl] eqn:Erev.
  - assert (Efree : a_free a = []) by (rewrite <- (rev_involutive (a_free a)), Erev; reflexivity).
    set (cap := if arch_has_rels a then cf_caprel (w_cfg s) else cf_cap (w_cfg s)) in *.
    set (t' := new_table aid a kinds cap tg rels) in *. set (tid0 := length (w_tables s)) in *.
    set (s1 := s <| w_tables ::= fun l => l ++ [t'] |>).
    assert (Ev1 : (modify (fun s0 : wstate => s0 <| w_tables ::= fun l => l ++ [t'] |>) ;;; ret tid0) s = Ok tid0 s1) by reflexivity.
    rewrite (sa_bind_ok Ev1) in Hrun.
    assert (T1 : nth_error (w_tables s1) tid0 = Some t') by (unfold s1; cbn; apply sa_nth_error_snoc_new).
    rewrite (sa_bind_ok (sa_getT_eq _ _ _ T1)) in Hrun.
    set (a2 := arch_add_table a tid0 t').
    set (s2 := s1 <| w_archs ::= updf aid (fun a0 => arch_add_table a0 tid0 t') |>).
    assert (Ev2 : modA aid (fun a0 => arch_add_table a0 tid0 t') s1 = Ok tt s2) by reflexivity.
    rewrite (sa_bind_ok Ev2) in Hrun.
    assert (EA2 : w_archs s2 = upd aid a2 (w_archs s)).
    { unfold s2, s1, a2. cbn. apply (r2_updf_some _ _ _ (fun a0 => arch_add_table a0 tid0 t') _ Ha). }
    pose proof (r2g_cache_add_same tid0 t' (a_mask a) s2) as Hc.
    destruct (cache_add_table tid0 t' (a_mask a) s2) as [[] s3|er s3] eqn:E3; [|rewrite (sa_bind_err E3) in Hrun; discriminate].
    rewrite (sa_bind_ok E3) in Hrun. unfold ret in Hrun. injection Hrun as _ <-. cbn [state_of] in Hc. destruct Hc as (EA3 & _).
    split.
    { intros i Hi. rewrite EA3, EA2. apply r2_upd_other. exact Hi. }
    exists a2. split; [rewrite EA3, EA2; apply (r2_upd_same _ _ _ _ _ Ha)|].
    apply r2g_add_table_nostale; try assumption.
    + intros k l Hk Hin. destruct (wf_arch_tables _ HW aid a tid0 Ha) as (t0 & Ht0 & _); [right; right; right; exists k, l; split; assumption|].
      apply sa_nth_error_lt in Ht0. unfold tid0 in Ht0. lia.
    + rewrite Efree. intros [].
  - destruct (r2_rev_last _ (a_free a) f tl Erev) as (Efree & Epop).
    assert (Hfin : In f (a_free a)) by (rewrite Efree; apply in_app_iff; right; left; reflexivity).
    destruct (wf_arch_tables _ HW aid a f Ha (or_intror (or_introl Hfin))) as (t0 & Ht0 & Earch0).
    destruct (wf_layout _ HW f t0 Ht0) as (a0 & Ha0 & Lids & Lkinds & Ltg). rewrite Earch0, Ha in Ha0. injection Ha0 as <-.
    set (pop := fun a0 : arch => a0 <| a_free ::= fun l => firstn (length l - 1) l |>).
    set (relab := fun t : table => t <| t_rels := rels |> <| t_targets := tg |> <| t_free := false |>).
    set (t' := relab t0). set (a1 := pop a).
    set (s1 := s <| w_archs ::= updf aid pop |> <| w_tables ::= updf f relab |>).
    assert (Ev1 : (modA aid pop ;;; modT f relab ;;; ret f) s = Ok f s1) by reflexivity.
    rewrite (sa_bind_ok Ev1) in Hrun.
    assert (T1 : nth_error (w_tables s1) f = Some t').
    { unfold s1. cbn. rewrite (r2_updf_some _ _ _ relab _ Ht0). apply (r2_upd_same _ _ _ _ _ Ht0). }
    rewrite (sa_bind_ok (sa_getT_eq _ _ _ T1)) in Hrun.
    set (a2 := arch_add_table a1 f t').
    set (s2 := s1 <| w_archs ::= updf aid (fun a0 => arch_add_table a0 f t') |>).
    assert (Ev2 : modA aid (fun a0 => arch_add_table a0 f t') s1 = Ok tt s2) by reflexivity.
    rewrite (sa_bind_ok Ev2) in Hrun.
    assert (EA2 : w_archs s2 = upd aid a2 (w_archs s)).
    { unfold s2, s1, a2, a1. cbn. apply (r2_updf_updf _ _ _ (fun a0 => arch_add_table a0 f t') pop _ Ha). }
    pose proof (r2g_cache_add_same f t' (a_mask a) s2) as Hc.
    destruct (cache_add_table f t' (a_mask a) s2) as [[] s3|er s3] eqn:E3; [|rewrite (sa_bind_err E3) in Hrun; discriminate].
    rewrite (sa_bind_ok E3) in Hrun. unfold ret in Hrun. injection Hrun as _ <-. cbn [state_of] in Hc. destruct Hc as (EA3 & _).
    split.
    { intros i Hi. rewrite EA3, EA2. apply r2_upd_other. exact Hi. }
    exists a2. split; [rewrite EA3, EA2; apply (r2_upd_same _ _ _ _ _ Ha)|].
    destruct (Hst f Hfin) as (NLt & NLr).
    assert (Tk : t_kinds t' = kinds) by (unfold kinds; rewrite <- Lids; exact Lkinds).
    assert (Hst1 : r2_nostale a1).
    { intros x Hx. apply Hst. change (a_free a1) with (firstn (length (a_free a) - 1) (a_free a)) in Hx.
      rewrite Epop in Hx. rewrite Efree. apply in_app_iff. left. exact Hx. }
    apply r2g_add_table_nostale.
    + rewrite Tk. exact HK.
    + rewrite Tk. exact HKL.
    + exact Hnc.
    + exact NLt.
    + exact Hst1.
    + change (a_free a1) with (firstn (length (a_free a) - 1) (a_free a)). rewrite Epop.
      destruct (ri_nodup _ _ HR aid a Ha) as (_ & NDf). rewrite Efree in NDf.
      apply r2g_NoDup_last. exact NDf.
Qed.

Lemma r2g_ro_check_rels : forall rels, readonly (forM_ rels check_rel).
Proof. intros rels. apply readonly_forM. intros r. unfold check_rel. ro. Qed.

Lemma r2g_create_table_nostale : forall D P X s aid a rels tid s',
  St2G D P X s -> nth_error (w_archs s) aid = Some a -> r2_nostale a ->
  create_table aid rels s = Ok tid s' ->
  (forall i, i <> aid -> nth_error (w_archs s') i = nth_error (w_archs s) i) /\
  exists a', nth_error (w_archs s') aid = Some a' /\ r2_nostale a'.
Proof.
  intros D P X s aid a rels tid s' HS Ha Hst Hrun.
  rewrite r2_create_table_unfold in Hrun. rewrite (sa_bind_ok (sa_getA_eq _ _ _ Ha)) in Hrun.
  destruct (negb (Nat.ltb (length rels) (a_numrel a))); cbn [guard] in Hrun; [|discriminate].
  rewrite (sa_bind_ok (m := ret tt) (s := s) eq_refl) in Hrun.
  destruct (rels_distinct rels); cbn [guard] in Hrun; [|discriminate].
  rewrite (sa_bind_ok (m := ret tt) (s := s) eq_refl) in Hrun.
  destruct (place_targets a rels (repeat zero_ent (length (a_comps a)))) as [tg|]; cbn [of_opt] in Hrun; [|discriminate].
  rewrite (sa_bind_ok (m := ret tg) (s := s) eq_refl) in Hrun.
  pose proof (r2g_ro_check_rels rels s) as Hro.
  destruct (forM_ rels check_rel s) as [[] s1|er s1] eqn:E1; [|rewrite (sa_bind_err E1) in Hrun; discriminate].
  cbn [state_of] in Hro. subst s1. rewrite (sa_bind_ok E1) in Hrun.
  pose proof (r2_register_targets_spec D P X rels s HS) as Hreg.
  destruct (register_targets rels s) as [[] s2|er s2] eqn:E2; [|rewrite (sa_bind_err E2) in Hrun; discriminate].
  rewrite (sa_bind_ok E2) in Hrun. destruct Hreg as (HS2 & l' & ->).
  apply (r2g_create_tail_nostale D _ X _ aid a rels tg tid s' HS2 Ha Hst Hrun).
Qed.

Lemma r2g_goc_nostale : forall D P X s aid a rels tid s',
  St2G D P X s -> nth_error (w_archs s) aid = Some a -> r2_nostale a ->
  get_or_create_table aid rels s = Ok tid s' ->
  (forall i, i <> aid -> nth_error (w_archs s') i = nth_error (w_archs s) i) /\
  exists a', nth_error (w_archs s') aid = Some a' /\ r2_nostale a'.
Proof.
  intros D P X s aid a rels tid s' HS Ha Hst Hrun.
  unfold get_or_create_table in Hrun. rewrite (sa_bind_ok (sa_getA_eq _ _ _ Ha)) in Hrun.
  pose proof (r2e_ro_arch_get_table a rels s) as Hro.
  destruct (arch_get_table a rels s) as [ot s1|er s1] eqn:E1; [|rewrite (sa_bind_err E1) in Hrun; discriminate].
  cbn [state_of] in Hro. subst s1. rewrite (sa_bind_ok E1) in Hrun.
  destruct ot as [t|].
  - unfold ret in Hrun. injection Hrun as _ <-. split; [reflexivity|]. exists a. split; assumption.
  - apply (r2g_create_table_nostale D P X s aid a rels tid s' HS Ha Hst Hrun).
Qed.

(* ================================================================================================ *)
(** * Part 1: vocabulary; the relation list the cleanup builds when several targets are dying *)

Definition r2g_D (Dy : ent -> Prop) : nat -> Prop := fun k => exists g, Dy (k, g).

(** what the cleanup for id [k] makes of a target [y]: dead targets (and [k]) become the zero entity *)
Definition r2g_det (s : W) (k : nat) (y : ent) : ent :=
  if (Nat.eqb (fst y) k || negb (alive s y))%bool then zero_ent else y.

Lemma r2g_zero_dead : forall s, WF s -> alive s zero_ent = false.
Proof.
  intros s HW. destruct (wf_reserved _ HW) as (_ & _ & E0 & _). unfold alive, pool_alive, zero_ent. cbn [fst snd]. rewrite E0. reflexivity.
Qed.

Lemma r2g_det_pool : forall s s' k y, w_pool s' = w_pool s -> r2g_det s' k y = r2g_det s k y.
Proof. intros s s' k y E. unfold r2g_det, alive. rewrite E. reflexivity. Qed.

Definition r2g_tgt_step (D : nat -> Prop) (s s' : W) : Prop :=
  forall e c, tgt s' e c = tgt s e c \/ (exists x, tgt s e c = Some x /\ D (fst x) /\ tgt s' e c = Some zero_ent).

Definition r2g_frame (D : nat -> Prop) (s s' : W) : Prop :=
  (forall e, live s' e = live s e) /\ (forall e c, val s' e c = val s e c) /\ r2g_tgt_step D s s' /\
  r2c_arch_static s s' /\ w_pool s' = w_pool s /\ side_same s s' /\ frame_user s s'.

Lemma r2g_tgt_step_refl : forall D s, r2g_tgt_step D s s.
Proof. intros D s e c. left. reflexivity. Qed.

Lemma r2g_tgt_step_eq : forall D s s', (forall e c, tgt s' e c = tgt s e c) -> r2g_tgt_step D s s'.
Proof. intros D s s' H e c. left. apply H. Qed.

Lemma r2g_tgt_step_trans : forall D s1 s2 s3, r2g_tgt_step D s1 s2 -> r2g_tgt_step D s2 s3 -> r2g_tgt_step D s1 s3.
Proof.
  intros D s1 s2 s3 H1 H2 e c. destruct (H1 e c) as [E1|(x & A & B & C)]; destruct (H2 e c) as [E2|(y & A' & B' & C')].
  - left. congruence.
  - right. exists y. rewrite <- E1. repeat split; assumption.
  - right. exists x. split; [exact A|]. split; [exact B|]. congruence.
  - right. exists x. repeat split; assumption.
Qed.

Lemma r2g_frame_refl : forall D s, r2g_frame D s s.
Proof.
  intros D s. split; [reflexivity|]. split; [reflexivity|]. split; [apply r2g_tgt_step_refl|]. split; [apply r2c_arch_static_refl|].
  split; [reflexivity|]. split; [apply sa_side_same_refl|apply sa_frame_user_refl].
Qed.

Lemma r2g_frame_trans : forall D s1 s2 s3, r2g_frame D s1 s2 -> r2g_frame D s2 s3 -> r2g_frame D s1 s3.
Proof.
  intros D s1 s2 s3 (A1 & A2 & A3 & A4 & A5 & A6 & A7) (B1 & B2 & B3 & B4 & B5 & B6 & B7).
  split; [intros e; rewrite B1; apply A1|]. split; [intros e c; rewrite B2; apply A2|].
  split; [apply (r2g_tgt_step_trans D s1 s2 s3 A3 B3)|]. split; [apply (r2c_arch_static_trans s1 s2 s3 A4 B4)|].
  split; [congruence|]. split; [apply (sa_side_same_trans s1 s2 s3 A6 B6)|apply (sa_frame_user_trans s1 s2 s3 A7 B7)].
Qed.

Section r2g.
Variable Dy : ent -> Prop.
Hypothesis Dy_uniq : forall x y, Dy x -> Dy y -> fst x = fst y -> x = y.
Local Notation D := (r2g_D Dy).

(** no stored entity has a dying id *)
Definition r2g_dead (s : W) : Prop := forall x, D (fst x) -> live s x = false.
(** a target with a dying id that an active table names is the dying entity itself *)
Definition r2g_only (s : W) : Prop :=
  forall tid t r, nth_error (w_tables s) tid = Some t -> t_free t = false -> In r (t_rels t) -> D (fst (snd r)) -> Dy (snd r).
(** the dying entities have been recycled *)
Definition r2g_gone (s : W) : Prop := forall x, Dy x -> alive s x = false /\ 2 <= fst x.
(** the lookup keys: zero, dying, or ids of stored entities *)
Definition r2g_KL (s : W) : Prop :=
  forall aid a k l, nth_error (w_archs s) aid = Some a -> afind k (a_tgttabs a) = Some l ->
    k = 0 \/ D k \/ exists g, live s (k, g) = true.

Definition r2g_I (s : W) : Prop :=
  St2G D r2_none r2_none s /\ r2g_dead s /\ r2g_only s /\ r2g_gone s /\ r2e_noobs s /\ r2g_KL s.

Lemma r2g_D_ge2 : forall s k, r2g_gone s -> D k -> 2 <= k.
Proof. intros s k Hg (g & Hd). apply (Hg _ Hd). Qed.

Lemma r2g_gone_pool : forall s s', w_pool s' = w_pool s -> r2g_gone s -> r2g_gone s'.
Proof. intros s s' E H x Hx. unfold alive. rewrite E. apply (H x Hx). Qed.

(** the two cases of [r2g_det] for a target named by an active table *)
Lemma r2g_det_cases : forall s k tid t c y, WF s -> RelInvG D s -> r2g_dead s -> r2g_only s -> r2g_gone s -> D k ->
  nth_error (w_tables s) tid = Some t -> t_free t = false -> In (c, y) (t_rels t) ->
  (r2g_det s k y = zero_ent /\ (y = zero_ent \/ D (fst y))) \/
  (r2g_det s k y = y /\ live s y = true /\ ~ D (fst y) /\ fst y <> k).
Proof.
  intros s k tid t c y HW HR Hdead Honly Hgone Hk Ht Hf Hin.
  pose proof (ri_targets_ok _ _ HR tid t (c, y) Ht Hf Hin) as Hok. cbn [snd] in Hok.
  unfold r2g_det. destruct (Nat.eqb_spec (fst y) k) as [Ey|Hne]; cbn [orb].
  - left. split; [reflexivity|]. right. rewrite Ey. exact Hk.
  - destruct (alive s y) eqn:Hal; cbn [negb].
    + right. destruct Hok as [Hz|[Hl|Hd]].
      * subst y. rewrite (r2g_zero_dead s HW) in Hal. discriminate.
      * split; [reflexivity|]. split; [exact Hl|]. split; [|exact Hne]. intros Hd. rewrite (Hdead y Hd) in Hl. discriminate.
      * exfalso. pose proof (Honly tid t (c, y) Ht Hf Hin Hd) as Hdy. cbn [snd] in Hdy. destruct (Hgone y Hdy) as (Ha & _). congruence.
    + left. split; [reflexivity|]. destruct Hok as [Hz|[Hl|Hd]]; [left; exact Hz| |right; exact Hd].
      destruct (live_alive s y HW Hl) as (Ha & _). congruence.
Qed.

Lemma r2g_detached_rels : forall k s tid t a, St2G D r2_none r2_none s ->
  nth_error (w_tables s) tid = Some t -> t_free t = false -> nth_error (w_archs s) (t_arch t) = Some a ->
  r2g_dead s -> r2g_only s -> r2g_gone s -> D k ->
  exists all, exchange_targets_unchecked t (r2c_newrels k s t) s = Ok all s /\ r2_rels_valid s a all /\
    (forall c x, In (c, x) all <->
       exists i y, nth_error (a_comps a) i = Some c /\ r2_relcol a i /\ nth_error (t_targets t) i = Some y /\ x = r2g_det s k y).
Proof.
  intros k s tid t a (HW & HR & HT & HC) Ht Hf Ha Hdead Honly Hgone Hk.
  destruct (wf_layout _ HW tid t Ht) as (a0 & Ha0 & Lids & Lk & Ltg). rewrite Ha in Ha0. injection Ha0 as <-.
  pose proof (r2_comps_nodup s _ a HW Ha) as NDc.
  destruct (ri_shape _ _ HR tid t a Ht Ha) as (S1 & S2 & S3 & S4).
  destruct (r2_kinds_isrel s _ a HW Ha) as (HK & HKL).
  destruct (r2_isrel_len s _ a HW Ha) as (LI & LRl).
  set (P := fun r : rel => (Nat.eqb (fst (snd r)) k || negb (alive s (snd r)))%bool).
  set (newrels := r2c_newrels k s t).
  assert (Hnr : forall r, In r newrels -> snd r = zero_ent /\ exists y, In (fst r, y) (t_rels t) /\ P (fst r, y) = true).
  { intros r Hr. unfold newrels, r2c_newrels in Hr. apply in_map_iff in Hr. destruct Hr as ([c y] & <- & Hin).
    apply filter_In in Hin. destruct Hin as (Hin & HP). split; [reflexivity|]. exists y. split; [exact Hin|exact HP]. }
  assert (Hcol : forall c y, In (c, y) (t_rels t) -> exists i, tbl_colidx t c = Some i /\ r2_relcol a i /\ nth_error (t_targets t) i = Some y).
  { intros c y Hin. apply S2 in Hin. destruct Hin as (i & Hi & Hr & Hy). exists i. split; [|split; assumption].
    unfold tbl_colidx. rewrite Lids. apply r2_index_of_nth; assumption. }
  assert (Hdef : forall r, In r newrels -> tbl_colidx t (fst r) <> None).
  { intros r Hr. destruct (Hnr r Hr) as (_ & y & Hin & _). destruct (Hcol _ _ Hin) as (i & Ei & _). rewrite Ei. discriminate. }
  set (tg' := r2c_place t newrels (t_targets t)).
  exists (map (fun p : nat * ckind * ent => (fst (fst p), snd p))
              (filter (fun p : nat * ckind * ent => ck_rel (snd (fst p))) (combine (combine (t_ids t) (t_kinds t)) tg'))).
  split.
  { rewrite r2c_xu_unfold. rewrite (sa_bind_ok (r2c_ugo_ok t newrels (t_targets t) s Hdef)). reflexivity. }
  (* the new target of a relation column *)
  assert (Hnew : forall i c y, nth_error (a_comps a) i = Some c -> r2_relcol a i -> nth_error (t_targets t) i = Some y ->
            nth_error tg' i = Some (r2g_det s k y) /\ In (c, y) (t_rels t)).
  { intros i c y Hi Hr Hy.
    assert (Hin : In (c, y) (t_rels t)) by (apply S2; exists i; repeat split; assumption).
    split; [|exact Hin].
    unfold tg'. rewrite (r2c_place_zero t newrels (t_targets t) i y (fun r Hr0 => proj1 (Hnr r Hr0)) Hdef Hy). f_equal.
    unfold r2g_det. change ((Nat.eqb (fst y) k || negb (alive s y))%bool) with (P (c, y)).
    destruct (r2c_hit t newrels i) eqn:Eh.
    - apply r2c_hit_true in Eh. destruct Eh as (r & Hr0 & Ei). destruct (Hnr r Hr0) as (_ & y' & Hin' & HP).
      destruct (Hcol _ _ Hin') as (i' & Ei' & _ & Hy'). rewrite Ei in Ei'. injection Ei' as <-. rewrite Hy in Hy'. injection Hy' as <-.
      change (P (fst r, y)) with (P (c, y)) in HP. rewrite HP. reflexivity.
    - destruct (P (c, y)) eqn:EP; [|reflexivity]. exfalso.
      assert (Hc : r2c_hit t newrels i = true).
      { apply r2c_hit_true. exists (c, zero_ent). split.
        - unfold newrels, r2c_newrels. apply in_map_iff. exists (c, y). split; [reflexivity|]. apply filter_In. split; [exact Hin|exact EP].
        - cbn [fst]. unfold tbl_colidx. rewrite Lids. apply r2_index_of_nth; assumption. }
      congruence. }
  assert (Hchar : forall c x, In (c, x) (map (fun p : nat * ckind * ent => (fst (fst p), snd p))
              (filter (fun p : nat * ckind * ent => ck_rel (snd (fst p))) (combine (combine (t_ids t) (t_kinds t)) tg'))) <->
            exists i y, nth_error (a_comps a) i = Some c /\ r2_relcol a i /\ nth_error (t_targets t) i = Some y /\ x = r2g_det s k y).
  { intros c x. rewrite rl_newrels_in. rewrite Lids. split.
    - intros (i & kd & H1 & H2 & H3 & H4).
      assert (Hr : r2_relcol a i).
      { unfold r2_relcol. rewrite Lk, Lids in H2. rewrite (HK i kd H2), H3. reflexivity. }
      assert (Hlt : i < length (t_targets t)) by (rewrite Ltg, Lids; eapply sa_nth_error_lt; exact H1).
      destruct (nth_error (t_targets t) i) as [y|] eqn:Ey; [|apply nth_error_None in Ey; lia].
      exists i, y. split; [exact H1|]. split; [exact Hr|]. split; [exact Ey|].
      destruct (Hnew i c y H1 Hr Ey) as (Hn & _). rewrite Hn in H4. injection H4 as <-. reflexivity.
    - intros (i & y & H1 & Hr & Hy & ->). exists i, (kind_of s c). split; [exact H1|].
      assert (Hkd : nth_error (t_kinds t) i = Some (kind_of s c)) by (rewrite Lk, Lids, nth_error_map, H1; reflexivity).
      split; [exact Hkd|]. split.
      + rewrite Lk, Lids in Hkd. pose proof (HK i _ Hkd) as Hb. unfold r2_relcol in Hr. rewrite Hr in Hb. injection Hb as Hb. symmetry. exact Hb.
      + apply (Hnew i c y H1 Hr Hy). }
  split; [|exact Hchar].
  assert (V3 : forall c, In c (map fst (map (fun p : nat * ckind * ent => (fst (fst p), snd p))
              (filter (fun p : nat * ckind * ent => ck_rel (snd (fst p))) (combine (combine (t_ids t) (t_kinds t)) tg')))) <->
            exists i, nth_error (a_comps a) i = Some c /\ r2_relcol a i).
  { intros c. split.
    - intros Hin. apply in_map_iff in Hin. destruct Hin as ([c' x] & Ec & Hin). cbn [fst] in Ec. subst c'.
      apply Hchar in Hin. destruct Hin as (i & y & H1 & H2 & _). exists i. split; assumption.
    - intros (i & H1 & Hr).
      assert (Hlt : i < length (t_targets t)) by (rewrite Ltg, Lids; eapply sa_nth_error_lt; exact H1).
      destruct (nth_error (t_targets t) i) as [y|] eqn:Ey; [|apply nth_error_None in Ey; lia].
      apply in_map_iff. exists (c, r2g_det s k y). split; [reflexivity|]. apply Hchar. exists i, y. repeat split; assumption. }
  assert (ND : NoDup (map fst (map (fun p : nat * ckind * ent => (fst (fst p), snd p))
              (filter (fun p : nat * ckind * ent => ck_rel (snd (fst p))) (combine (combine (t_ids t) (t_kinds t)) tg'))))).
  { apply r2c_newrels_nodup. rewrite Lids. exact NDc. }
  split; [exact ND|]. split; [|split; [exact V3|]].
  - rewrite <- S4.
    match goal with |- length ?l = _ => transitivity (length (map fst l)); [symmetry; apply map_length|] end.
    transitivity (length (map fst (t_rels t))); [|apply map_length].
    apply r2c_nodup_same_length; [exact ND|exact S1|]. intros c. rewrite V3. split.
    + intros (i & H1 & Hr).
      assert (Hlt : i < length (t_targets t)) by (rewrite Ltg, Lids; eapply sa_nth_error_lt; exact H1).
      destruct (nth_error (t_targets t) i) as [y|] eqn:Ey; [|apply nth_error_None in Ey; lia].
      apply in_map_iff. exists (c, y). split; [reflexivity|]. apply S2. exists i. repeat split; assumption.
    + intros Hin. apply in_map_iff in Hin. destruct Hin as ([c' y] & Ec & Hin). cbn [fst] in Ec. subst c'.
      apply S2 in Hin. destruct Hin as (i & H1 & Hr & _). exists i. split; assumption.
  - intros [c x] Hin. apply Hchar in Hin. destruct Hin as (i & y & H1 & Hr & Hy & ->). cbn [snd].
    destruct (Hnew i c y H1 Hr Hy) as (_ & Hin).
    destruct (r2g_det_cases s k tid t c y HW HR Hdead Honly Hgone Hk Ht Hf Hin) as [(E & _)|(E & Hl & _)].
    + left. exact E.
    + right. rewrite E. exact Hl.
Qed.

(* ================================================================================================ *)
(** * Part 2: one table of the cleanup *)

(** a key with a non-empty list names a stored entity (or zero, or a dying id) *)
Lemma r2g_key_nonempty : forall s aid a k' tid l, St2G D r2_none r2_none s ->
  nth_error (w_archs s) aid = Some a -> afind k' (a_tgttabs a) = Some (tid :: l) ->
  k' = 0 \/ D k' \/ exists g, live s (k', g) = true.
Proof.
  intros s aid a k' tid l (HW & HR & _) Ha Hk.
  destruct (ri_tgttabs _ _ HR aid a k' _ Ha Hk) as (_ & Hall).
  destruct (Hall tid (or_introl eq_refl)) as (t & Ht & (i & g & Hrc & Hg) & Hfr).
  destruct (t_free t) eqn:Hf; [right; left; apply (Hfr eq_refl)|].
  destruct (wf_arch_tables _ HW aid a tid Ha) as (t' & Ht' & Earch).
  { right. right. right. exists k', (tid :: l). split; [exact Hk|left; reflexivity]. }
  rewrite Ht in Ht'. injection Ht' as <-.
  pose proof Ha as Hat. rewrite <- Earch in Hat.
  destruct (r2_isrel_len s aid a HW Ha) as (LI & _).
  assert (Hci : exists c, nth_error (a_comps a) i = Some c).
  { destruct (nth_error (a_comps a) i) as [c|] eqn:E; [exists c; reflexivity|].
    apply nth_error_None in E. pose proof (sa_nth_error_lt _ _ _ _ Hrc). lia. }
  destruct Hci as (c & Hci).
  destruct (ri_shape _ _ HR tid t a Ht Hat) as (_ & S2 & _).
  assert (Hin : In (c, (k', g)) (t_rels t)) by (apply S2; exists i; repeat split; assumption).
  destruct (ri_targets_ok _ _ HR tid t (c, (k', g)) Ht Hf Hin) as [Hz|[Hl|Hd]].
  - left. cbn [snd] in Hz. injection Hz as -> _. reflexivity.
  - right. right. exists g. exact Hl.
  - right. left. exact Hd.
Qed.

Lemma r2g_det_self : forall s k g, r2g_det s k (k, g) = zero_ent.
Proof. intros s k g. unfold r2g_det. cbn [fst]. rewrite Nat.eqb_refl. reflexivity. Qed.

(** ** Phase A: the rows of a table naming the dying target move to the table with all dead targets replaced by zero *)
Lemma r2g_phaseA : forall k s aid a tid t,
  St2G D r2_none r2_none s -> r2g_dead s -> r2g_only s -> r2g_gone s -> D k ->
  nth_error (w_archs s) aid = Some a -> nth_error (w_tables s) tid = Some t -> t_arch t = aid -> t_free t = false ->
  r2_has_target a t k -> r2_nostale a ->
  exists s3 ntid,
    (all <- exchange_targets_unchecked t (r2c_newrels k s t) ;;
     ntid <- get_or_create_table aid all ;;
     move_entities tid ntid (t_len t)) s = Ok tt s3 /\
    St2G D r2_none r2_none s3 /\ ntid <> tid /\
    (exists t3, nth_error (w_tables s3) tid = Some t3 /\ t_len t3 = 0 /\ sb2_meta t t3) /\
    (exists tn, nth_error (w_tables s3) ntid = Some tn /\ t_arch tn = aid /\ t_free tn = false /\
                (forall r, In r (t_rels tn) -> ~ D (fst (snd r)))) /\
    ~ r2c_Tk k s aid ntid /\
    (forall x, x <> tid -> x <> ntid -> nth_error (w_tables s3) x = nth_error (w_tables s) x) /\
    (forall i, i <> aid -> nth_error (w_archs s3) i = nth_error (w_archs s) i) /\
    r2g_frame D s s3 /\
    (exists a3, nth_error (w_archs s3) aid = Some a3 /\ r2_nostale a3) /\
    (r2e_noobs s -> r2g_KL s -> r2g_KL s3).
Proof.
  intros k s aid a tid t HS Hdead Honly Hgone HDk Ha Ht Earch Hf Htk Hstale. pose proof HS as (HW & HR & HT & HC).
  pose proof (r2g_D_ge2 s k Hgone HDk) as Hk.
  pose proof Ha as Ha'. rewrite <- Earch in Ha'.
  destruct (r2g_detached_rels k s tid t a HS Ht Hf Ha' Hdead Honly Hgone HDk) as (all & Ex & HV & Hchar).
  destruct (r2_get_or_create_table_spec D r2_none r2_none s aid a all HS Ha HV Hstale)
    as (ntid & s2 & t2 & E2 & HS2 & R & Hnt & Earch2 & Hf2 & Hm & Hcase & Hfl & I2 & I3 & I4 & I5).
  { intros x _ []. }
  pose proof HS2 as (HW2 & HR2 & HT2 & HC2).
  destruct (wf_layout _ HW tid t Ht) as (a0 & Ha0 & Lids & Lk & Ltg). rewrite Ha' in Ha0. injection Ha0 as <-.
  pose proof (r2_comps_nodup s aid a HW Ha) as NDc.
  destruct (r2_isrel_len s aid a HW Ha) as (LI & _).
  destruct (rl_archs _ _ R aid a Ha) as (a2 & Ha2 & _ & A2 & A3 & A4 & _).
  destruct (wf_layout _ HW2 ntid t2 Hnt) as (a0 & Ha0 & Lids2 & Lk2 & Ltg2). rewrite Earch2, Ha2 in Ha0. injection Ha0 as <-.
  rewrite A2 in Lids2.
  destruct (ri_shape _ _ HR tid t a Ht Ha') as (_ & St2 & St3 & _).
  (* the column that names k *)
  destruct Htk as (i0 & g & Hr0 & Hg).
  assert (Hc0 : exists c0, nth_error (a_comps a) i0 = Some c0).
  { destruct (nth_error (a_comps a) i0) as [c0|] eqn:E; [exists c0; reflexivity|].
    apply nth_error_None in E. pose proof (sa_nth_error_lt _ _ _ _ Hr0). lia. }
  destruct Hc0 as (c0 & Hc0).
  (* the new targets of a relation column of the destination *)
  assert (Hcol2 : forall i c y, nth_error (a_comps a) i = Some c -> r2_relcol a i -> nth_error (t_targets t) i = Some y ->
            nth_error (t_targets t2) i = Some (r2g_det s k y)).
  { intros i c y Hi Hr Hy.
    assert (Hin : In (c, r2g_det s k y) all) by (apply Hchar; exists i, y; repeat split; assumption).
    pose proof (Hm _ Hin) as Hmc. cbn [fst snd] in Hmc. unfold tbl_target, tbl_colidx in Hmc.
    rewrite Lids2, (r2_index_of_nth _ _ _ NDc Hi) in Hmc. exact Hmc. }
  assert (Hcases : forall i c y, nth_error (a_comps a) i = Some c -> r2_relcol a i -> nth_error (t_targets t) i = Some y ->
            (r2g_det s k y = zero_ent /\ (y = zero_ent \/ D (fst y))) \/
            (r2g_det s k y = y /\ live s y = true /\ ~ D (fst y) /\ fst y <> k)).
  { intros i c y Hi Hr Hy. apply (r2g_det_cases s k tid t c y HW HR Hdead Honly Hgone HDk Ht Hf).
    apply St2. exists i. repeat split; assumption. }
  assert (T2k : forall r, In r (t_rels t2) -> ~ D (fst (snd r))).
  { intros [c x] Hin. cbn [snd]. pose proof Ha2 as Ha2'. rewrite <- Earch2 in Ha2'.
    destruct (ri_shape _ _ HR2 ntid t2 a2 Hnt Ha2') as (_ & S2 & _). apply S2 in Hin. destruct Hin as (i & Hi & Hr & Hx).
    rewrite A2 in Hi. unfold r2_relcol in Hr. rewrite A3 in Hr.
    assert (Hlt : i < length (t_targets t)) by (rewrite Ltg, Lids; eapply sa_nth_error_lt; exact Hi).
    destruct (nth_error (t_targets t) i) as [y|] eqn:Ey; [|apply nth_error_None in Ey; lia].
    rewrite (Hcol2 i c y Hi Hr Ey) in Hx. injection Hx as <-.
    destruct (Hcases i c y Hi Hr Ey) as [(E & _)|(E & _ & Hnd & _)].
    - rewrite E. intros Hd. pose proof (r2g_D_ge2 s _ Hgone Hd) as H2. cbn in H2. lia.
    - rewrite E. exact Hnd. }
  assert (A3' : ntid <> tid /\ nth_error (w_tables s2) tid = Some t).
  { destruct Hcase as [->|([Hnone|(t0 & Ht0 & Hf0)] & _ & _ & Hoth & _)].
    - split; [|exact Ht]. intros ->. rewrite Ht in Hnt. injection Hnt as <-.
      pose proof (Hcol2 i0 c0 (k, g) Hc0 Hr0 Hg) as Hc. rewrite Hg, r2g_det_self in Hc. injection Hc as Hc _. lia.
    - assert (Hn : ntid <> tid) by (intros ->; rewrite Ht in Hnone; discriminate). split; [exact Hn|].
      rewrite (Hoth tid); [exact Ht|]. intros ->. apply Hn. reflexivity.
    - assert (Hn : ntid <> tid) by (intros ->; rewrite Ht in Ht0; injection Ht0 as <-; congruence). split; [exact Hn|].
      rewrite (Hoth tid); [exact Ht|]. intros ->. apply Hn. reflexivity. }
  destruct A3' as (Hne & Htid2).
  assert (Hne' : tid <> ntid) by (intros ->; apply Hne; reflexivity).
  assert (Ear : t_arch t = t_arch t2) by congruence.
  destruct (r2c_move_spec D s2 tid ntid t t2 HS2 Hne' Htid2 Hnt Ear Hf Hf2)
    as (s3 & E3 & HS3 & (t3 & Ht3 & Hl3 & Mt3) & (tn & Htn & Mtn) & Moth & Mlen & Marchs & Mist & Mrel & Mpool & Mlive & Mval & Mmoved & Mother & Mside & Muser).
  (* observables between s and s2 *)
  assert (Obs2 : forall e, live s2 e = live s e /\ (forall c, val s2 e c = val s e c) /\ (forall c, tgt s2 e c = tgt s e c)).
  { destruct Hcase as [->|(Hold & Hl2 & _ & Hoth & _)]; [intros e; repeat split|].
    apply (r2c_obs_one_empty s s2 ntid I2 Hoth).
    - intros t0 Ht0. destruct Hold as [Hnone|(t0' & Ht0' & Hf0)]; [congruence|]. rewrite Ht0 in Ht0'. injection Ht0' as <-.
      apply (r2c_free_len0 _ s ntid t0 HR Ht0 Hf0).
    - intros t2' Ht2'. rewrite Hnt in Ht2'. injection Ht2' as <-. exact Hl2. }
  assert (E23 : (ntid0 <- get_or_create_table aid all ;; move_entities tid ntid0 (t_len t)) s = Ok tt s3).
  { rewrite (sa_bind_ok E2). exact E3. }
  exists s3, ntid. split.
  { rewrite (sa_bind_ok Ex). exact E23. }
  split; [exact HS3|]. split; [exact Hne|]. split; [exists t3; split; [exact Ht3|split; [exact Hl3|exact Mt3]]|]. split.
  { exists tn. pose proof Mtn as (M1 & M2 & M3 & M4 & M5 & M6). split; [exact Htn|]. split; [congruence|]. split; [congruence|].
    rewrite M5. exact T2k. }
  split.
  { intros (tx & ax & Hx & Ax & Fx & Hax & Htx). rewrite Ha in Hax. injection Hax as <-.
    destruct Hcase as [->|([Hnone|(t0 & Ht0 & Hf0)] & _)]; [|congruence|rewrite Hx in Ht0; injection Ht0 as <-; congruence].
    rewrite Hnt in Hx. injection Hx as <-. destruct Htx as (i & g' & Hr & Hg').
    assert (Hci : exists c, nth_error (a_comps a) i = Some c).
    { destruct (nth_error (a_comps a) i) as [c|] eqn:E; [exists c; reflexivity|].
      apply nth_error_None in E. pose proof (sa_nth_error_lt _ _ _ _ Hr). lia. }
    destruct Hci as (c & Hci). pose proof Ha as Hat. rewrite <- Earch2 in Hat.
    destruct (ri_shape _ _ HR ntid t2 a Hnt Hat) as (_ & S2 & _).
    assert (Hin : In (c, (k, g')) (t_rels t2)) by (apply S2; exists i; repeat split; assumption).
    apply (T2k _ Hin). exact HDk. }
  split.
  { intros x H1 H2. rewrite (Moth x H1 H2). destruct Hcase as [->|(_ & _ & _ & Hoth & _)]; [reflexivity|apply (Hoth x H2)]. }
  split.
  { intros i Hi. rewrite Marchs. destruct Hcase as [->|(_ & _ & _ & _ & Haoth)]; [reflexivity|apply (Haoth i Hi)]. }
  split.
  { (* the frame *)
    split; [intros e; rewrite Mlive; apply Obs2|]. split; [intros e c; rewrite Mval; apply Obs2|]. split.
    { intros e c. destruct (Obs2 e) as (O1 & _ & O3).
      destruct (live s e) eqn:Hl.
      - destruct (sb2_live_elim _ _ Hl) as (tid' & r & t' & L0 & T0 & R0 & E0).
        assert (L2 : loc s2 e = Some (tid', r)) by (rewrite (sa_loc_ext s s2 I2); exact L0).
        destruct (Nat.eq_dec tid' tid) as [->|Hn].
        + assert (Hl2 : live s2 e = true) by congruence.
          destruct (Mmoved e r Hl2 L2 c) as (T3 & T2). rewrite T3, <- (O3 c), T2.
          unfold tbl_target, tbl_colidx. rewrite Lids, Lids2.
          destruct (index_of c (a_comps a)) as [i|] eqn:Ei; [|left; reflexivity].
          pose proof (rl_index_of_some _ _ _ Ei) as Hi.
          assert (Hlt : i < length (t_targets t)) by (rewrite Ltg, Lids; eapply sa_nth_error_lt; exact Hi).
          destruct (nth_error (t_targets t) i) as [y|] eqn:Ey; [|apply nth_error_None in Ey; lia].
          destruct (nth_error (a_isrel a) i) as [[|]|] eqn:Eb.
          * rewrite (Hcol2 i c y Hi Eb Ey).
            destruct (Hcases i c y Hi Eb Ey) as [(E & [Hz|Hd])|(E & _)]; rewrite E.
            -- left. rewrite Hz. reflexivity.
            -- right. exists y. repeat split. exact Hd.
            -- left. reflexivity.
          * left. pose proof Ha2 as Ha2'. rewrite <- Earch2 in Ha2'.
            destruct (ri_shape _ _ HR2 ntid t2 a2 Hnt Ha2') as (_ & _ & S3 & _). rewrite A3 in S3. rewrite (S3 i Eb).
            rewrite (St3 i Eb) in Ey. congruence.
          * apply nth_error_None in Eb. apply sa_nth_error_lt in Hi. lia.
        + left. rewrite <- (O3 c). apply Mother. right. intros r' Hc. rewrite L2 in Hc. congruence.
      - left. rewrite <- (O3 c). apply Mother. left. congruence. }
    split.
    { apply (r2c_arch_static_trans s s2 s3); [apply r2c_arch_static_relabel; exact R|apply r2c_arch_static_same; exact Marchs]. }
    split; [congruence|]. split; [apply (sa_side_same_trans s s2 s3 I4 Mside)|apply (sa_frame_user_trans s s2 s3 I5 Muser)]. }
  split.
  { destruct (r2g_goc_nostale D r2_none r2_none s aid a all ntid s2 HS Ha Hstale E2) as (_ & a3 & Ha3 & Hst3).
    exists a3. split; [rewrite Marchs; exact Ha3|exact Hst3]. }
  (* the keys *)
  intros Hno HKL.
  destruct (r2e_fkp_goc aid all s Hno) as (_ & _ & HE & _). rewrite E2 in HE. cbn [state_of] in HE.
  intros aid0 a0 k' l Ha0 Hk0. rewrite Marchs in Ha0.
  assert (H2 : k' = 0 \/ D k' \/ exists g0, live s (k', g0) = true).
  { destruct l as [|x l0].
    - destruct (HE aid0 a0 k' Ha0 Hk0) as (a1 & Ha1 & Hk1). apply (HKL aid0 a1 k' [] Ha1 Hk1).
    - destruct (r2g_key_nonempty s2 aid0 a0 k' x l0 HS2 Ha0 Hk0) as [H0|[H1|(g0 & Hg0)]]; [left; exact H0|right; left; exact H1|].
      right. right. exists g0. rewrite <- (proj1 (Obs2 (k', g0))). exact Hg0. }
  destruct H2 as [H0|[H1|(g0 & Hg0)]]; [left; exact H0|right; left; exact H1|].
  right. right. exists g0. rewrite Mlive, (proj1 (Obs2 (k', g0))). exact Hg0.
Qed.


(** ** Phase B/C: the emptied table is freed and dropped from the cache *)
Lemma r2g_phaseBC : forall k s aid a tid t,
  St2G D r2_none r2_none s -> D k ->
  nth_error (w_archs s) aid = Some a -> nth_error (w_tables s) tid = Some t -> t_arch t = aid -> t_free t = false ->
  t_len t = 0 -> r2_has_target a t k ->
  exists s', (free_table aid tid ;;; cache_remove_table tid) s = Ok tt s' /\
    St2G D r2_none r2_none s' /\
    (exists t', nth_error (w_tables s') tid = Some t' /\ t_free t' = true) /\
    (forall x, x <> tid -> nth_error (w_tables s') x = nth_error (w_tables s) x) /\
    (forall i, i <> aid -> nth_error (w_archs s') i = nth_error (w_archs s) i) /\
    r2g_frame D s s' /\
    nth_error (w_archs s') aid = Some (arch_free_table a tid) /\
    r2e_Ksub s s'.
Proof.
  intros k s aid a tid t HS HDk Ha Ht Earch Hf Hlen (i0 & g & Hr0 & Hg). pose proof HS as (HW & HR & HT & HC).
  assert (Hnr : 0 < a_numrel a).
  { destruct (a_numrel a) eqn:En; [|lia]. exfalso. apply (r2_norel_cols s aid a HW Ha En i0 Hr0). }
  assert (HD : a_numrel a <= 1 -> forall i x, r2_relcol a i -> nth_error (t_targets t) i = Some x -> D (fst x)).
  { intros Hle i x Hr Hx. rewrite (r2c_relcol_unique s aid a i i0 HW Ha Hle Hr Hr0) in Hx. rewrite Hg in Hx. injection Hx as <-. exact HDk. }
  destruct (r2_free_table_spec D r2_none r2_none s aid a tid t HS Ha Ht Earch Hf Hlen Hnr HD) as (E4 & HS4).
  set (s4 := s <| w_archs := upd aid (arch_free_table a tid) (w_archs s) |>
               <| w_tables := upd tid (t <| t_free := true |>) (w_tables s) |>) in *.
  assert (Ht4 : nth_error (w_tables s4) tid = Some (t <| t_free := true |>)) by (unfold s4; cbn; apply (r2_upd_same _ _ _ _ _ Ht)).
  destruct (r2_cache_remove_table_spec D r2_none r2_none s4 tid _ HS4 Ht4 eq_refl) as (l' & E5 & HS5).
  set (s5 := s4 <| w_cheap := l' |>) in *.
  assert (Erun : (free_table aid tid ;;; cache_remove_table tid) s = Ok tt s5) by (rewrite (sa_bind_ok E4); exact E5).
  exists s5. split; [exact Erun|]. split; [exact HS5|].
  split; [exists (t <| t_free := true |>); split; [exact Ht4|reflexivity]|].
  assert (To : forall x, x <> tid -> nth_error (w_tables s5) x = nth_error (w_tables s) x).
  { intros x Hx. unfold s5, s4. cbn. apply r2_upd_other. exact Hx. }
  split; [exact To|]. split.
  { intros i Hi. unfold s5, s4. cbn. apply r2_upd_other. exact Hi. }
  assert (Obs : forall e, live s5 e = live s e /\ (forall c, val s5 e c = val s e c) /\ (forall c, tgt s5 e c = tgt s e c)).
  { apply (r2c_obs_one_empty s s5 tid); [reflexivity|exact To| |].
    - intros t0 Ht0. rewrite Ht in Ht0. injection Ht0 as <-. exact Hlen.
    - intros t2 Ht2. change (w_tables s5) with (w_tables s4) in Ht2. rewrite Ht4 in Ht2. injection Ht2 as <-. exact Hlen. }
  split.
  { split; [intros e; apply Obs|]. split; [intros e c; apply Obs|]. split; [apply r2g_tgt_step_eq; intros e c; apply Obs|].
    split.
    { split; [unfold s5, s4; cbn; apply upd_length|]. intros i b Hb. unfold s5, s4. cbn.
      destruct (Nat.eq_dec i aid) as [->|Hne].
      - rewrite Ha in Hb. injection Hb as <-. rewrite (r2_upd_same _ _ _ _ _ Ha). exists (arch_free_table a tid).
        destruct (r2_aft_fields a tid) as (_ & F2 & F3 & F4 & _). repeat split; assumption.
      - rewrite (r2_upd_other _ _ _ _ _ Hne). exists b. repeat split; assumption. }
    split; [reflexivity|]. split; [unfold side_same; cbn; repeat split|unfold frame_user; cbn; repeat split]. }
  split; [unfold s5, s4; cbn; apply (r2_upd_same _ _ _ _ _ Ha)|].
  assert (KS : r2e_ksp (free_table aid tid ;;; cache_remove_table tid)).
  { apply r2e_ksp_bind; [apply r2e_ksp_free_table|intros _; apply r2e_ksp_cache_remove_table]. }
  specialize (KS s). rewrite Erun in KS. exact KS.
Qed.

(** ** Stale lookup entries (a freed table still listed): only under the key being cleaned *)
Definition r2g_so (k : nat) (a : arch) : Prop :=
  forall x, In x (a_free a) ->
    (forall k' l, afind k' (a_tgttabs a) = Some l -> In x l -> k' = k) /\
    (forall i m k' l, nth_error (a_reltabs a) i = Some m -> afind k' m = Some l -> In x l -> k' = k).

Lemma r2g_so_nostale : forall k a, r2_nostale a -> r2g_so k a.
Proof.
  intros k a H x Hx. destruct (H x Hx) as (S1 & S2). split.
  - intros k' l Hk Hin. exfalso. apply (S1 k' l Hk Hin).
  - intros i m k' l Hm Hk Hin. exfalso. apply (S2 i m k' l Hm Hk Hin).
Qed.

Lemma r2g_so_free : forall k s aid a tid t i0 g, WF s -> RelInvG D s ->
  nth_error (w_archs s) aid = Some a -> nth_error (w_tables s) tid = Some t ->
  r2_relcol a i0 -> nth_error (t_targets t) i0 = Some (k, g) -> r2_nostale a ->
  r2g_so k (arch_free_table a tid).
Proof.
  intros k s aid a tid t i0 g HW HR Ha Ht Hr0 Hg Hst x Hx.
  destruct (r2_aft_fields a tid) as (_ & _ & _ & _ & _ & F6 & _ & _). rewrite F6 in Hx.
  apply in_app_iff in Hx. destruct Hx as [Hx|[<-|[]]].
  - destruct (Hst x Hx) as (S1 & S2). split.
    + intros k' l Hk' Hin. exfalso. rewrite r2_aft_tgttabs in Hk'. destruct (Nat.leb (a_numrel a) 1); [apply (S1 k' l Hk' Hin)|].
      destruct (afind k' (a_tgttabs a)) as [l0|] eqn:E0; [|discriminate]. cbn in Hk'. injection Hk' as <-.
      destruct (ri_tgttabs _ _ HR aid a k' l0 Ha E0) as (ND & _).
      apply (tids_remove_spec tid l0 ND) in Hin. apply (S1 k' l0 E0). apply Hin.
    + intros i m' k' l' Hm' Hk' Hin. exfalso.
      destruct (r2_aft_reltabs a tid i m' k' l' Hm' Hk') as (m & l0 & Hm & Hl0 & [(_ & ->)|(_ & ->)]); [apply (S2 i m k' l0 Hm Hl0 Hin)|].
      destruct (ri_reltabs _ _ HR aid a i m k' l0 Ha Hm Hl0) as (ND & _).
      apply (tids_remove_spec tid l0 ND) in Hin. apply (S2 i m k' l0 Hm Hl0). apply Hin.
  - split.
    + intros k' l Hk' Hin. rewrite r2_aft_tgttabs in Hk'. destruct (Nat.leb_spec (a_numrel a) 1) as [Hle|Hgt].
      * destruct (ri_tgttabs _ _ HR aid a k' l Ha Hk') as (_ & Hall). destruct (Hall tid Hin) as (t' & Ht' & (i & g' & Hr & Hg') & _).
        rewrite Ht in Ht'. injection Ht' as <-.
        rewrite (r2c_relcol_unique s aid a i i0 HW Ha Hle Hr Hr0) in Hg'. rewrite Hg in Hg'. injection Hg' as -> _. reflexivity.
      * exfalso. destruct (afind k' (a_tgttabs a)) as [l0|] eqn:E0; [|discriminate]. cbn in Hk'. injection Hk' as <-.
        destruct (ri_tgttabs _ _ HR aid a k' l0 Ha E0) as (ND & _).
        apply (tids_remove_spec tid l0 ND) in Hin. destruct Hin as (_ & Hc). apply Hc. reflexivity.
    + intros i m' k' l' Hm' Hk' Hin.
      destruct (r2_aft_reltabs a tid i m' k' l' Hm' Hk') as (m & l0 & Hm & Hl0 & [(Hle & ->)|(_ & ->)]).
      * destruct (ri_reltabs _ _ HR aid a i m k' l0 Ha Hm Hl0) as (_ & Hr & Hall). destruct (Hall tid Hin) as (t' & Ht' & (g' & Hg') & _).
        rewrite Ht in Ht'. injection Ht' as <-.
        rewrite (r2c_relcol_unique s aid a i i0 HW Ha Hle Hr Hr0) in Hg'. rewrite Hg in Hg'. injection Hg' as -> _. reflexivity.
      * exfalso. destruct (ri_reltabs _ _ HR aid a i m k' l0 Ha Hm Hl0) as (ND & _).
        apply (tids_remove_spec tid l0 ND) in Hin. destruct Hin as (_ & Hc). apply Hc. reflexivity.
Qed.

Lemma r2g_so_remove : forall k a, r2g_so k a ->
  (forall i m k' l, nth_error (a_reltabs a) i = Some m -> afind k' m = Some l -> r2_relcol a i) ->
  r2_nostale (arch_remove_target a k).
Proof.
  intros k a Hso Hrc x Hx. destruct (r2_art_fields a k) as (_ & _ & _ & _ & F5 & _ & F7 & _). rewrite F5 in Hx.
  destruct (Hso x Hx) as (S1 & S2). split.
  - intros k' l Hk' Hin. rewrite F7, rl_afind_adel in Hk'. destruct (Nat.eqb_spec k' k) as [->|Hne]; [discriminate|].
    apply Hne. apply (S1 k' l Hk' Hin).
  - intros i m' k' l Hm' Hk' Hin. destruct (r2_art_reltabs a k i m' Hm') as (r & m & Hir & Hm & ->).
    destruct r.
    + rewrite rl_afind_adel in Hk'. destruct (Nat.eqb_spec k' k) as [->|Hne]; [discriminate|].
      apply Hne. apply (S2 i m k' l Hm Hk' Hin).
    + pose proof (Hrc i m k' l Hm Hk') as Hr. unfold r2_relcol in Hr. congruence.
Qed.

(** ** One table of the cleanup (the body of the inner loop of [cleanup_archetypes]) *)
Lemma r2g_step_spec : forall e s aid a tid t,
  r2g_I s -> Dy e ->
  nth_error (w_archs s) aid = Some a -> nth_error (w_tables s) tid = Some t -> t_arch t = aid -> t_free t = false ->
  r2_has_target a t (fst e) -> r2_nostale a ->
  exists s', r2c_step (fst e) aid tid t s = Ok tt s' /\
    r2g_I s' /\ r2g_frame D s s' /\
    (forall i, i <> aid -> nth_error (w_archs s') i = nth_error (w_archs s) i) /\
    (forall x, r2c_Tk (fst e) s' aid x <-> r2c_Tk (fst e) s aid x /\ x <> tid) /\
    (exists a5, nth_error (w_archs s') aid = Some a5 /\ r2g_so (fst e) a5).
Proof.
  intros e s aid a tid t (HS & Hdead & Honly & Hgone & Hno & HKL) HDe Ha Ht Earch Hf Htk Hstale. set (k := fst e) in *.
  assert (HDk : D k) by (exists (snd e); destruct e; exact HDe).
  (* the state before FreeTable; [on]: the table that received the rows, if any *)
  assert (Mid : exists s3 (on : option nat),
            whenM (Nat.ltb 0 (t_len t)) (
              all <- exchange_targets_unchecked t (r2c_newrels k s t) ;;
              ntid <- get_or_create_table aid all ;;
              move_entities tid ntid (t_len t)) s = Ok tt s3 /\
            St2G D r2_none r2_none s3 /\
            (exists t3, nth_error (w_tables s3) tid = Some t3 /\ t_len t3 = 0 /\ sb2_meta t t3) /\
            (forall x, on = Some x -> x <> tid /\ ~ r2c_Tk k s aid x /\
               exists tn, nth_error (w_tables s3) x = Some tn /\ t_arch tn = aid /\ t_free tn = false /\
                          (forall r, In r (t_rels tn) -> ~ D (fst (snd r)))) /\
            (forall x, x <> tid -> on <> Some x -> nth_error (w_tables s3) x = nth_error (w_tables s) x) /\
            (forall i, i <> aid -> nth_error (w_archs s3) i = nth_error (w_archs s) i) /\
            r2g_frame D s s3 /\
            (exists a3, nth_error (w_archs s3) aid = Some a3 /\ r2_nostale a3) /\ r2g_KL s3).
  { destruct (Nat.ltb 0 (t_len t)) eqn:El; cbn [whenM].
    - destruct (r2g_phaseA k s aid a tid t HS Hdead Honly Hgone HDk Ha Ht Earch Hf Htk Hstale)
        as (s3 & ntid & E3 & HS3 & Hne & H3 & Hn & HnTk & Hoth & Haoth & Fr & Hns & HK3).
      exists s3, (Some ntid). split; [exact E3|]. split; [exact HS3|]. split; [exact H3|]. split.
      { intros x Hx. injection Hx as <-. split; [exact Hne|]. split; [exact HnTk|exact Hn]. }
      split; [|split; [exact Haoth|split; [exact Fr|split; [exact Hns|apply (HK3 Hno HKL)]]]].
      intros x H1 H2. apply Hoth; [exact H1|]. intros ->. apply H2. reflexivity.
    - exists s, None. split; [reflexivity|]. split; [exact HS|]. split.
      { exists t. split; [exact Ht|]. split; [apply Nat.ltb_ge in El; lia|apply sb2_meta_refl]. }
      split; [intros x Hx; discriminate|]. split; [reflexivity|]. split; [reflexivity|]. split; [apply r2g_frame_refl|].
      split; [exists a; split; assumption|exact HKL]. }
  destruct Mid as (s3 & on & E3 & HS3 & (t3 & Ht3 & Hl3 & Mt3) & HN & Hoth3 & Haoth3 & Fr3 & (a3 & Ha3 & Hst3) & HKL3).
  pose proof Fr3 as (Flive3 & _ & _ & AS3 & _).
  destruct (proj2 AS3 aid a Ha) as (a3' & Ha3' & _ & A3i & _). rewrite Ha3 in Ha3'. injection Ha3' as <-.
  pose proof Mt3 as (M1 & M2 & M3 & M4 & M5 & M6).
  assert (Htk3 : r2_has_target a3 t3 k).
  { apply (r2c_has_target_isrel a a3 t3 k A3i). apply (r2c_has_target_meta a t t3 k Mt3). exact Htk. }
  destruct (r2g_phaseBC k s3 aid a3 tid t3 HS3 HDk Ha3 Ht3 (eq_trans M1 Earch) (eq_trans M6 Hf) Hl3 Htk3)
    as (s5 & E5 & HS5 & (t5 & Ht5 & Hf5) & Hoth5 & Haoth5 & Fr5 & Ha5 & KS5).
  pose proof (r2g_frame_trans D s s3 s5 Fr3 Fr5) as Fr.
  pose proof Fr as (Flive & _ & _ & AS & Fpool & Fside & _).
  pose proof HS5 as (HW5 & HR5 & _).
  destruct (proj2 AS aid a Ha) as (a5 & Ha5' & _ & A5i & A5c).
  exists s5. split.
  { unfold r2c_step. rewrite (sa_bind_ok (m := get) (s := s) eq_refl). rewrite (sa_bind_ok E3). exact E5. }
  (* tables of the final state *)
  assert (TN : forall x, on = Some x -> x <> tid /\ ~ r2c_Tk k s aid x /\
                 exists tn, nth_error (w_tables s5) x = Some tn /\ t_arch tn = aid /\ t_free tn = false /\
                            (forall r, In r (t_rels tn) -> ~ D (fst (snd r)))).
  { intros x Hx. destruct (HN x Hx) as (Hne & HnTk & tn & Htn & P). split; [exact Hne|]. split; [exact HnTk|].
    exists tn. rewrite (Hoth5 x Hne). split; [exact Htn|exact P]. }
  assert (TO : forall x, x <> tid -> on <> Some x -> nth_error (w_tables s5) x = nth_error (w_tables s) x).
  { intros x H1 H2. rewrite (Hoth5 x H1). apply (Hoth3 x H1 H2). }
  assert (Dec : forall x, on = Some x \/ on <> Some x).
  { intros x. destruct on as [n|]; [|right; discriminate]. destruct (Nat.eq_dec n x) as [->|Hne]; [left; reflexivity|right; congruence]. }
  split.
  { split; [exact HS5|]. split; [intros x Hx; rewrite Flive; apply Hdead; exact Hx|]. split.
    { intros x tx r Hx Hfx Hin Hd. destruct (Nat.eq_dec x tid) as [->|Hne]; [rewrite Ht5 in Hx; injection Hx as <-; congruence|].
      destruct (Dec x) as [Hon|Hon].
      - destruct (TN x Hon) as (_ & _ & tn & Htn & _ & _ & Pn). rewrite Hx in Htn. injection Htn as <-.
        exfalso. apply (Pn r Hin). exact Hd.
      - rewrite (TO x Hne Hon) in Hx. apply (Honly x tx r Hx Hfx Hin Hd). }
    split; [apply (r2g_gone_pool s s5 Fpool Hgone)|]. split; [apply (r2e_noobs_side s s5 Fside Hno)|].
    intros aid0 a0 k' l Ha0 Hk0. destruct (KS5 aid0 a0 k' l Ha0 Hk0) as (a1 & l1 & Ha1 & Hk1).
    destruct (HKL3 aid0 a1 k' l1 Ha1 Hk1) as [H0|[H1|(g0 & Hg0)]]; [left; exact H0|right; left; exact H1|].
    right. right. exists g0. destruct Fr5 as (L5 & _). rewrite L5. exact Hg0. }
  split; [exact Fr|]. split.
  { intros i Hi. rewrite (Haoth5 i Hi). apply (Haoth3 i Hi). }
  split.
  { intros x. split.
    - intros (tx & ax & Hx & Ax & Fx & Hax & Htx). rewrite Ha5' in Hax. injection Hax as <-.
      assert (Hne : x <> tid) by (intros ->; rewrite Ht5 in Hx; injection Hx as <-; congruence).
      split; [|exact Hne]. destruct (Dec x) as [Hon|Hon].
      + exfalso. destruct (TN x Hon) as (_ & _ & tn & Htn & _ & _ & Pn). rewrite Hx in Htn. injection Htn as <-.
        destruct Htx as (i & g & Hr & Hg).
        assert (Hci : exists c, nth_error (a_comps a5) i = Some c).
        { destruct (r2_isrel_len s5 aid a5 HW5 Ha5') as (LI & _).
          destruct (nth_error (a_comps a5) i) as [c|] eqn:E; [exists c; reflexivity|].
          apply nth_error_None in E. pose proof (sa_nth_error_lt _ _ _ _ Hr). lia. }
        destruct Hci as (c & Hci). pose proof Ha5' as Hat. rewrite <- Ax in Hat.
        destruct (ri_shape _ _ HR5 x tx a5 Hx Hat) as (_ & S2 & _).
        assert (Hin : In (c, (k, g)) (t_rels tx)) by (apply S2; exists i; repeat split; assumption).
        apply (Pn _ Hin). exact HDk.
      + rewrite (TO x Hne Hon) in Hx. exists tx, a. repeat split; try assumption.
        apply (r2c_has_target_isrel a a5 tx k A5i). exact Htx.
    - intros ((tx & ax & Hx & Ax & Fx & Hax & Htx) & Hne). rewrite Ha in Hax. injection Hax as <-.
      destruct (Dec x) as [Hon|Hon].
      + exfalso. destruct (TN x Hon) as (_ & HnTk & _). apply HnTk. exists tx, a. repeat split; assumption.
      + exists tx, a5. rewrite (TO x Hne Hon). repeat split; try assumption.
        apply (r2c_has_target_isrel a a5 tx k A5i). exact Htx. }
  exists (arch_free_table a3 tid). split; [exact Ha5|].
  destruct Htk3 as (i0 & g & Hr0 & Hg). pose proof HS3 as (HW3 & HR3 & _).
  apply (r2g_so_free k s3 aid a3 tid t3 i0 g HW3 HR3 Ha3 Ht3 Hr0 Hg Hst3).
Qed.


(* ================================================================================================ *)
(** * Part 3: the loops of [cleanup_archetypes] *)

(** with one relation component at most one active table of the archetype names the dying target *)
Lemma r2g_Tk_unique : forall e s aid a x y, r2g_I s -> Dy e -> nth_error (w_archs s) aid = Some a -> a_numrel a <= 1 ->
  r2c_Tk (fst e) s aid x -> r2c_Tk (fst e) s aid y -> x = y.
Proof.
  intros e s aid a x y ((HW & HR & _) & _ & Honly & _) HDe Ha Hle (tx & ax & Hx & Ax & Fx & Hax & Htx) (ty & ay & Hy & Ay & Fy & Hay & Hty).
  rewrite Ha in Hax, Hay. injection Hax as <-. injection Hay as <-.
  assert (HDk : D (fst e)) by (exists (snd e); destruct e; exact HDe).
  apply (ri_unique _ _ HR x y tx ty Hx Hy Fx Fy); [congruence|].
  pose proof Ha as Hatx. rewrite <- Ax in Hatx. pose proof Ha as Haty. rewrite <- Ay in Haty.
  destruct (wf_layout _ HW x tx Hx) as (a0 & Ha0 & Lx & _ & Ltx). rewrite Hatx in Ha0. injection Ha0 as <-.
  destruct (wf_layout _ HW y ty Hy) as (a0 & Ha0 & Ly & _ & Lty). rewrite Haty in Ha0. injection Ha0 as <-.
  destruct (ri_shape _ _ HR x tx a Hx Hatx) as (_ & Sx2 & Sx3 & _).
  destruct (ri_shape _ _ HR y ty a Hy Haty) as (_ & Sy2 & Sy3 & _).
  destruct (r2_isrel_len s aid a HW Ha) as (LI & _).
  destruct Htx as (i1 & g1 & Hr1 & Hg1). destruct Hty as (i2 & g2 & Hr2 & Hg2).
  assert (Ei : i2 = i1) by (apply (r2c_relcol_unique s aid a i2 i1 HW Ha Hle Hr2 Hr1)). subst i2.
  assert (Hc : exists c, nth_error (a_comps a) i1 = Some c).
  { destruct (nth_error (a_comps a) i1) as [c|] eqn:E; [exists c; reflexivity|].
    apply nth_error_None in E. pose proof (sa_nth_error_lt _ _ _ _ Hr1). lia. }
  destruct Hc as (c & Hc).
  assert (E1 : (fst e, g1) = e).
  { apply Dy_uniq; [|exact HDe|reflexivity].
    apply (Honly x tx (c, (fst e, g1)) Hx Fx); [apply Sx2; exists i1; repeat split; assumption|exact HDk]. }
  assert (E2 : (fst e, g2) = e).
  { apply Dy_uniq; [|exact HDe|reflexivity].
    apply (Honly y ty (c, (fst e, g2)) Hy Fy); [apply Sy2; exists i1; repeat split; assumption|exact HDk]. }
  apply r2c_nth_error_ext. intros i. destruct (nth_error (a_isrel a) i) as [[|]|] eqn:Eb.
  - rewrite (r2c_relcol_unique s aid a i i1 HW Ha Hle Eb Hr1). rewrite Hg1, Hg2, E1, E2. reflexivity.
  - rewrite (Sx3 i Eb), (Sy3 i Eb). reflexivity.
  - apply nth_error_None in Eb.
    rewrite (proj2 (nth_error_None (t_targets tx) i)) by (rewrite Ltx, Lx; lia).
    rewrite (proj2 (nth_error_None (t_targets ty) i)) by (rewrite Lty, Ly; lia). reflexivity.
Qed.

(** if no free table of the archetype is listed, the list under the key is exactly the set of those tables *)
Lemma r2g_list_Tk : forall k s aid a l, St2G D r2_none r2_none s -> nth_error (w_archs s) aid = Some a ->
  r2_nostale a -> afind k (a_tgttabs a) = Some l ->
  NoDup l /\ forall x, In x l <-> r2c_Tk k s aid x.
Proof.
  intros k s aid a l (HW & HR & _) Ha Hst Hl. destruct (ri_tgttabs _ _ HR aid a k l Ha Hl) as (ND & Hall).
  split; [exact ND|]. intros x. split.
  - intros Hin. destruct (Hall x Hin) as (tx & Hx & Htx & _).
    destruct (wf_arch_tables _ HW aid a x Ha) as (tx' & Hx' & Ax); [right; right; right; exists k, l; split; assumption|].
    rewrite Hx in Hx'. injection Hx' as <-.
    exists tx, a. split; [exact Hx|]. split; [exact Ax|]. split; [|split; [exact Ha|exact Htx]].
    destruct (t_free tx) eqn:Ef; [|reflexivity]. exfalso.
    destruct (ri_listed _ _ HR x tx Hx) as (a' & Ha' & Hlst). rewrite Ax, Ha in Ha'. injection Ha' as <-. rewrite Ef in Hlst.
    apply (proj1 (Hst x Hlst) k l Hl Hin).
  - intros (tx & ax & Hx & Ax & Fx & Hax & (i & g & Hr & Hg)). rewrite Ha in Hax. injection Hax as <-.
    pose proof Ha as Hat. rewrite <- Ax in Hat.
    destruct (ri_tgttabs_complete _ _ HR x tx a i (k, g) Hx Fx Hat Hr Hg) as (l' & Hl' & Hin). cbn [fst] in Hl'.
    rewrite Hl in Hl'. injection Hl' as <-. exact Hin.
Qed.

(** ** The inner loop: all tables of one archetype under the key *)
Lemma r2g_inner_loop : forall e aid n s L, r2g_I s -> Dy e ->
  NoDup L -> length L = n -> (forall x, r2c_Tk (fst e) s aid x <-> In x L) ->
  (0 < n -> forall a, nth_error (w_archs s) aid = Some a -> r2_nostale a) ->
  exists s', forM_ (rev (seq 0 n)) (r2c_inner e aid) s = Ok tt s' /\ r2g_I s' /\ r2g_frame D s s' /\
    (forall i, i <> aid -> nth_error (w_archs s') i = nth_error (w_archs s) i) /\
    (forall x, ~ r2c_Tk (fst e) s' aid x) /\
    (forall a, nth_error (w_archs s) aid = Some a -> a_numrel a <= 1 -> r2g_so (fst e) a ->
       exists a1, nth_error (w_archs s') aid = Some a1 /\ r2g_so (fst e) a1).
Proof.
  intros e aid n. induction n as [|m IH]; intros s L HI HDe ND HL HTk Hst.
  - exists s. split; [reflexivity|]. split; [exact HI|]. split; [apply r2g_frame_refl|]. split; [reflexivity|]. split.
    + intros x Hx. apply HTk in Hx. destruct L; [destruct Hx|discriminate].
    + intros a Ha _ Hso. exists a. split; assumption.
  - set (k := fst e) in *. pose proof HI as (HS & Hdead & Honly & Hgone & Hno & HKL). pose proof HS as (HW & HR & _).
    destruct L as [|x0 L0] eqn:EL; [discriminate|]. rewrite <- EL in *.
    assert (Hx0 : r2c_Tk k s aid x0) by (apply HTk; rewrite EL; left; reflexivity).
    destruct Hx0 as (tx0 & a & Hx0 & Ax0 & Fx0 & Ha & (i0 & g0 & Hr0 & Hg0)).
    pose proof (Hst (Nat.lt_0_succ m) a Ha) as Hsta.
    pose proof Ha as Hat0. rewrite <- Ax0 in Hat0.
    destruct (ri_tgttabs_complete _ _ HR x0 tx0 a i0 (k, g0) Hx0 Fx0 Hat0 Hr0 Hg0) as (l & Hl & _). cbn [fst] in Hl.
    destruct (r2g_list_Tk k s aid a l HS Ha Hsta Hl) as (NDl & Hmem).
    assert (Hlen : length l = S m).
    { rewrite <- HL. apply r2c_nodup_same_length; [exact NDl|exact ND|]. intros x. rewrite Hmem. apply HTk. }
    assert (Htid : exists tid, nth_error l m = Some tid).
    { destruct (nth_error l m) as [tid|] eqn:E; [exists tid; reflexivity|]. apply nth_error_None in E. lia. }
    destruct Htid as (tid & Htid).
    assert (HtidTk : r2c_Tk k s aid tid) by (apply Hmem; eapply nth_error_In; exact Htid).
    destruct HtidTk as (t & a' & Ht & At & Ft & Ha'' & Htk). rewrite Ha in Ha''. injection Ha'' as <-.
    destruct (r2g_step_spec e s aid a tid t HI HDe Ha Ht At Ft Htk Hsta)
      as (s1 & E1 & HI1 & Fr1 & Hoth1 & HTk1 & (a5 & Ha5 & Hso5)).
    fold k in E1, HTk1, Hso5.
    remember (filter (fun x => negb (Nat.eqb x tid)) L) as L' eqn:EL'def.
    assert (HL' : forall x, In x L' <-> In x L /\ x <> tid).
    { intros x. rewrite EL'def, filter_In. split; intros (H1 & H2); (split; [exact H1|]).
      - intros ->. rewrite Nat.eqb_refl in H2. discriminate.
      - apply negb_true_iff. apply Nat.eqb_neq. exact H2. }
    assert (ND' : NoDup L') by (rewrite EL'def; apply NoDup_filter; exact ND).
    assert (Hin_tid : In tid L) by (apply HTk; exists t, a; repeat split; assumption).
    assert (Hlen' : length L' = m).
    { assert (E : length L = length (tid :: L')).
      { apply r2c_nodup_same_length; [exact ND|constructor; [intros Hc; apply HL' in Hc; destruct Hc as (_ & Hc); apply Hc; reflexivity|exact ND']|].
        intros x. cbn [In]. rewrite HL'. destruct (Nat.eq_dec x tid) as [->|Hne]; [tauto|]. split; [intros H; right; split; assumption|].
        intros [H|(H & _)]; [congruence|exact H]. }
      cbn [length] in E. lia. }
    assert (HTk' : forall x, r2c_Tk k s1 aid x <-> In x L').
    { intros x. rewrite HTk1, HL', HTk. tauto. }
    pose proof Fr1 as (_ & _ & _ & AS1 & _).
    destruct (IH s1 L' HI1 HDe ND' Hlen' HTk') as (s2 & E2 & HI2 & Fr2 & Hoth2 & HnTk2 & Hso2).
    { intros Hm a1 Ha1. destruct (r2c_arch_static_rev s s1 aid a1 AS1 Ha1) as (a0 & Ha0 & An & _). rewrite Ha in Ha0. injection Ha0 as <-.
      destruct (Nat.leb_spec 2 (a_numrel a1)) as [Hge|Hlt].
      - destruct HI1 as ((_ & HR1 & _) & _). apply (r2c_nostale D s1 aid a1 HR1 Ha1). left. exact Hge.
      - exfalso.
        destruct L' as [|y L1]; [cbn in Hlen'; lia|].
        assert (Hy : In y L /\ y <> tid) by (apply HL'; left; reflexivity). destruct Hy as (Hy & Hne).
        apply Hne. apply (r2g_Tk_unique e s aid a y tid HI HDe Ha); [lia|apply HTk; exact Hy|exists t, a; repeat split; assumption]. }
    exists s2. split.
    { rewrite r2c_rev_seq_S. cbn [forM_].
      assert (Ein : r2c_inner e aid m s = Ok tt s1).
      { unfold r2c_inner. rewrite (sa_bind_ok (sa_getA_eq _ _ _ Ha)). fold k. rewrite Hl. cbn [of_opt].
        rewrite (sa_bind_ok (m := ret l) (s := s) eq_refl). rewrite Htid. cbn [of_opt].
        rewrite (sa_bind_ok (m := ret tid) (s := s) eq_refl). rewrite (sa_bind_ok (sa_getT_eq _ _ _ Ht)). exact E1. }
      rewrite (sa_bind_ok Ein). exact E2. }
    split; [exact HI2|]. split; [apply (r2g_frame_trans D s s1 s2 Fr1 Fr2)|]. split.
    { intros i Hi. rewrite (Hoth2 i Hi). apply (Hoth1 i Hi). }
    split; [exact HnTk2|].
    intros a0 Ha0 Hle _. rewrite Ha in Ha0. injection Ha0 as <-.
    apply (Hso2 a5 Ha5); [|exact Hso5].
    destruct (r2c_arch_static_rev s s1 aid a5 AS1 Ha5) as (a0 & Ha0 & An & _). rewrite Ha in Ha0. injection Ha0 as <-. lia.
Qed.

Lemma r2g_norel_nostale : forall s aid a, RelInvG D s -> nth_error (w_archs s) aid = Some a -> a_numrel a = 0 -> r2_nostale a.
Proof. intros s aid a HR Ha Hn x Hx. destruct (ri_norel _ _ HR aid a Ha Hn) as (E & _). rewrite E in Hx. destruct Hx. Qed.

(** ** One archetype: all its tables under the key, then the key itself *)
Lemma r2g_arch_spec : forall e aid s a, r2g_I s -> Dy e ->
  nth_error (w_archs s) aid = Some a -> r2_nostale a ->
  exists s', r2c_arch e aid s = Ok tt s' /\ r2g_I s' /\ r2g_frame D s s' /\
    (forall i, i <> aid -> nth_error (w_archs s') i = nth_error (w_archs s) i) /\
    (exists a', nth_error (w_archs s') aid = Some a' /\ afind (fst e) (a_tgttabs a') = None /\ r2_nostale a').
Proof.
  intros e aid s a HI HDe Ha Hst. set (k := fst e) in *. pose proof HI as (HS & Hdead & Honly & Hgone & Hno & HKL).
  unfold r2c_arch. rewrite (sa_bind_ok (sa_getA_eq _ _ _ Ha)). fold k.
  destruct (afind k (a_tgttabs a)) as [tabs|] eqn:Hl.
  2:{ exists s. split; [reflexivity|]. split; [exact HI|]. split; [apply r2g_frame_refl|]. split; [reflexivity|].
      exists a. split; [exact Ha|]. split; [exact Hl|exact Hst]. }
  destruct (r2g_list_Tk k s aid a tabs HS Ha Hst Hl) as (ND & Hmem).
  destruct (r2g_inner_loop e aid (length tabs) s tabs HI HDe ND eq_refl) as (s1 & E1 & HI1 & Fr1 & Hoth1 & HnTk1 & Hso1).
  { intros x. symmetry. apply Hmem. }
  { intros _ a0 Ha0. rewrite Ha in Ha0. injection Ha0 as <-. exact Hst. }
  fold k in HnTk1, Hso1. pose proof HI1 as (HS1 & Hdead1 & Honly1 & Hgone1 & Hno1 & HKL1). pose proof HS1 as (HW1 & HR1 & _).
  pose proof Fr1 as (_ & _ & _ & AS1 & _).
  destruct (proj2 AS1 aid a Ha) as (a1 & Ha1 & An1 & _ & _).
  destruct (r2_arch_remove_target_spec D r2_none r2_none s1 aid a1 k HS1 Ha1) as (E2 & HS2).
  { intros l x tx Hl1 Hin Hx. destruct (t_free tx) eqn:Ef; [reflexivity|]. exfalso. apply (HnTk1 x).
    destruct (ri_tgttabs _ _ HR1 aid a1 k l Ha1 Hl1) as (_ & Hall). destruct (Hall x Hin) as (tx' & Hx' & Htx & _).
    rewrite Hx in Hx'. injection Hx' as <-.
    destruct (wf_arch_tables _ HW1 aid a1 x Ha1) as (tx' & Hx' & Ax); [right; right; right; exists k, l; split; assumption|].
    rewrite Hx in Hx'. injection Hx' as <-. exists tx, a1. repeat split; assumption. }
  set (s2 := s1 <| w_archs := upd aid (arch_remove_target a1 k) (w_archs s1) |>) in *.
  assert (Obs : forall x, live s2 x = live s1 x /\ (forall c, val s2 x c = val s1 x c) /\ (forall c, tgt s2 x c = tgt s1 x c)).
  { apply (r2c_obs_one_empty s1 s2 (length (w_tables s1))); [reflexivity|reflexivity| |].
    - intros t0 Ht0. apply sa_nth_error_lt in Ht0. lia.
    - intros t0 Ht0. change (w_tables s2) with (w_tables s1) in Ht0. apply sa_nth_error_lt in Ht0. lia. }
  assert (Fr2 : r2g_frame D s1 s2).
  { split; [intros x; apply Obs|]. split; [intros x c; apply Obs|]. split; [apply r2g_tgt_step_eq; intros x c; apply Obs|]. split.
    - split; [unfold s2; cbn; apply upd_length|]. intros i b Hb. unfold s2. cbn. destruct (Nat.eq_dec i aid) as [->|Hne].
      + rewrite Ha1 in Hb. injection Hb as <-. rewrite (r2_upd_same _ _ _ _ _ Ha1). exists (arch_remove_target a1 k).
        destruct (r2_art_fields a1 k) as (_ & F2 & F3 & _ & _ & F6 & _). repeat split; assumption.
      + rewrite (r2_upd_other _ _ _ _ _ Hne). exists b. repeat split; assumption.
    - split; [reflexivity|]. split; [unfold side_same; cbn; repeat split|unfold frame_user; cbn; repeat split]. }
  assert (Ha2 : nth_error (w_archs s2) aid = Some (arch_remove_target a1 k)) by (unfold s2; cbn; apply (r2_upd_same _ _ _ _ _ Ha1)).
  exists s2. split.
  { rewrite (sa_bind_ok E1). exact E2. }
  split.
  { split; [exact HS2|]. split.
    { intros x Hx. rewrite (proj1 (Obs x)). apply Hdead1. exact Hx. }
    split.
    { intros tid t r Ht. change (w_tables s2) with (w_tables s1) in Ht. apply (Honly1 tid t r Ht). }
    split; [exact Hgone1|]. split; [exact Hno1|].
    intros i b k' l Hb Hk'. unfold s2 in Hb. cbn in Hb.
    assert (Hold : exists b1 l1, nth_error (w_archs s1) i = Some b1 /\ afind k' (a_tgttabs b1) = Some l1).
    { destruct (Nat.eq_dec i aid) as [->|Hne].
      - rewrite (r2_upd_same _ _ _ _ _ Ha1) in Hb. injection Hb as <-.
        destruct (r2_art_fields a1 k) as (_ & _ & _ & _ & _ & _ & F7 & _). rewrite F7, rl_afind_adel in Hk'.
        destruct (Nat.eqb k' k); [discriminate|]. exists a1, l. split; assumption.
      - rewrite (r2_upd_other _ _ _ _ _ Hne) in Hb. exists b, l. split; assumption. }
    destruct Hold as (b1 & l1 & Hb1 & Hl1). destruct (HKL1 i b1 k' l1 Hb1 Hl1) as [H0|[H1|(g & Hg)]]; [left; exact H0|right; left; exact H1|].
    right. right. exists g. rewrite (proj1 (Obs (k', g))). exact Hg. }
  split; [apply (r2g_frame_trans D s s1 s2 Fr1 Fr2)|]. split.
  { intros i Hi. unfold s2. cbn. rewrite (r2_upd_other _ _ _ _ _ Hi). apply (Hoth1 i Hi). }
  exists (arch_remove_target a1 k). split; [exact Ha2|]. split.
  { destruct (r2_art_fields a1 k) as (_ & _ & _ & _ & _ & _ & F7 & _). rewrite F7, rl_afind_adel, Nat.eqb_refl. reflexivity. }
  destruct (Nat.leb_spec 2 (a_numrel a1)) as [Hge|Hlt].
  - destruct HS2 as (_ & HR2 & _). apply (r2c_nostale D s2 aid _ HR2 Ha2). left.
    destruct (r2_art_fields a1 k) as (_ & _ & _ & _ & _ & F6 & _). rewrite F6. exact Hge.
  - destruct (Hso1 a Ha) as (a1' & Ha1' & Hso); [lia|apply r2g_so_nostale; exact Hst|]. rewrite Ha1 in Ha1'. injection Ha1' as <-.
    apply (r2g_so_remove k a1 Hso). intros i m k' l Hm Hk'. apply (ri_reltabs _ _ HR1 aid a1 i m k' l Ha1 Hm Hk').
Qed.

(** ** The outer loop: all archetypes with relation components *)
Lemma r2g_outer_loop : forall e l s, r2g_I s -> Dy e -> NoDup l ->
  (forall aid, In aid l -> exists a, nth_error (w_archs s) aid = Some a /\ r2_nostale a) ->
  exists s', forM_ l (r2c_arch e) s = Ok tt s' /\ r2g_I s' /\ r2g_frame D s s' /\
    (forall i, ~ In i l -> nth_error (w_archs s') i = nth_error (w_archs s) i) /\
    (forall aid, In aid l -> exists a', nth_error (w_archs s') aid = Some a' /\ afind (fst e) (a_tgttabs a') = None /\ r2_nostale a').
Proof.
  intros e l. induction l as [|aid rest IH]; intros s HI HDe ND Hst.
  - exists s. split; [reflexivity|]. split; [exact HI|]. split; [apply r2g_frame_refl|]. split; [reflexivity|intros aid []].
  - inversion ND as [|? ? Hnin ND']; subst.
    destruct (Hst aid (or_introl eq_refl)) as (a & Ha & Hsta).
    destruct (r2g_arch_spec e aid s a HI HDe Ha Hsta) as (s1 & E1 & HI1 & Fr1 & Hoth1 & (a1 & Ha1 & Hn1 & Hs1)).
    destruct (IH s1 HI1 HDe ND') as (s2 & E2 & HI2 & Fr2 & Hoth2 & Hn2).
    { intros i Hi. assert (Hne : i <> aid) by (intros ->; contradiction). rewrite (Hoth1 i Hne). apply Hst. right. exact Hi. }
    exists s2. split; [cbn [forM_]; rewrite (sa_bind_ok E1); exact E2|]. split; [exact HI2|].
    split; [apply (r2g_frame_trans D s s1 s2 Fr1 Fr2)|]. split.
    + intros i Hi. rewrite (Hoth2 i); [|intros Hc; apply Hi; right; exact Hc]. apply Hoth1. intros ->. apply Hi. left. reflexivity.
    + intros i [<-|Hi]; [|apply Hn2; exact Hi]. exists a1. rewrite (Hoth2 aid Hnin). split; [exact Ha1|]. split; [exact Hn1|exact Hs1].
Qed.

(** ** cleanup_archetypes for one of several dying entities *)
Definition r2g_NS (s : W) : Prop := forall aid a, nth_error (w_archs s) aid = Some a -> r2_nostale a.

Theorem r2g_cleanup_spec : forall e s, r2g_I s -> Dy e -> r2g_NS s ->
  exists s', cleanup_archetypes e s = Ok tt s' /\ r2g_I s' /\ r2g_frame D s s' /\
    (forall aid a, nth_error (w_archs s') aid = Some a -> afind (fst e) (a_tgttabs a) = None) /\ r2g_NS s'.
Proof.
  intros e s HI HDe Hst. pose proof HI as ((HW & HR & _) & _).
  destruct (ri_relarchs _ _ HR) as (ND & Hrel).
  destruct (r2g_outer_loop e (w_relarchs s) s HI HDe ND) as (s' & E & HI' & Fr & Hoth & Hnone).
  { intros aid Hin. apply Hrel in Hin. destruct Hin as (a & Ha & _). exists a. split; [exact Ha|apply (Hst aid a Ha)]. }
  exists s'. split; [rewrite r2c_cleanup_unfold; rewrite (sa_bind_ok (m := get) (s := s) eq_refl); exact E|].
  split; [exact HI'|]. split; [exact Fr|].
  pose proof HI' as ((_ & HR' & _) & _). pose proof Fr as (_ & _ & _ & AS & _).
  split.
  - intros aid a' Ha'. destruct (r2c_arch_static_rev s s' aid a' AS Ha') as (a & Ha & An & _).
    destruct (a_numrel a') eqn:En.
    + destruct (ri_norel _ _ HR' aid a' Ha' En) as (_ & G & _). rewrite G. reflexivity.
    + assert (Hin : In aid (w_relarchs s)) by (apply Hrel; exists a; split; [exact Ha|lia]).
      destruct (Hnone aid Hin) as (a'' & Ha'' & Hn & _). rewrite Ha' in Ha''. injection Ha'' as <-. exact Hn.
  - intros aid a' Ha'. destruct (r2c_arch_static_rev s s' aid a' AS Ha') as (a & Ha & An & _).
    destruct (a_numrel a') eqn:En.
    + apply (r2g_norel_nostale s' aid a' HR' Ha' En).
    + assert (Hin : In aid (w_relarchs s)) by (apply Hrel; exists a; split; [exact Ha|lia]).
      destruct (Hnone aid Hin) as (a'' & Ha'' & _ & Hs). rewrite Ha' in Ha''. injection Ha'' as <-. exact Hs.
Qed.

(* END-OF-SECTION *)
End r2g.

(* ================================================================================================ *)
(** * Part 4: the second phase of RemoveEntities: the cleanup for every flagged removed entity *)

Lemma r2g_tgt_step_mono : forall (D D' : nat -> Prop) s s', (forall k, D k -> D' k) -> r2g_tgt_step D s s' -> r2g_tgt_step D' s s'.
Proof.
  intros D D' s s' H Hs e c. destruct (Hs e c) as [E|(x & A & B & C)]; [left; exact E|].
  right. exists x. split; [exact A|]. split; [apply H; exact B|exact C].
Qed.

Lemma r2g_frame_mono : forall (D D' : nat -> Prop) s s', (forall k, D k -> D' k) -> r2g_frame D s s' -> r2g_frame D' s s'.
Proof.
  intros D D' s s' H (A1 & A2 & A3 & A4). split; [exact A1|]. split; [exact A2|]. split; [apply (r2g_tgt_step_mono D D' s s' H A3)|exact A4].
Qed.

Lemma r2g_I_ext : forall (Dy Dy' : ent -> Prop) s, (forall x, Dy x <-> Dy' x) -> r2g_I Dy s -> r2g_I Dy' s.
Proof.
  intros Dy Dy' s H ((HW & HR & HT & HC) & Hdead & Honly & Hgone & Hno & HKL).
  assert (HD : forall k, r2g_D Dy k <-> r2g_D Dy' k).
  { intros k. unfold r2g_D. split; intros (g & Hg); exists g; apply H; exact Hg. }
  split.
  { split; [exact HW|]. split; [|split; assumption]. apply (r2_RelInvG_mono s (r2g_D Dy)); [|exact HR]. intros k Hk. apply HD. exact Hk. }
  split; [intros x Hx; apply Hdead; apply HD; exact Hx|]. split.
  { intros tid t r Ht Hf Hin Hd. apply H. apply (Honly tid t r Ht Hf Hin). apply HD. exact Hd. }
  split; [intros x Hx; apply Hgone; apply H; exact Hx|]. split; [exact Hno|].
  intros aid a k l Ha Hk. destruct (HKL aid a k l Ha Hk) as [H0|[H1|H2]]; [left; exact H0|right; left; apply HD; exact H1|right; right; exact H2].
Qed.

(** the cleanup for [e] and the clearing of its flag: [e] leaves the set of dying entities *)
Theorem r2g_cleanup_one : forall (Dy : ent -> Prop), (forall x y, Dy x -> Dy y -> fst x = fst y -> x = y) ->
  forall e s, r2g_I Dy s -> Dy e -> r2g_NS s ->
  exists s', (cleanup_archetypes e ;;; modify (fun s0 => s0 <| w_istarget ::= upd (fst e) false |>)) s = Ok tt s' /\
    r2g_I (fun x => Dy x /\ x <> e) s' /\ r2g_NS s' /\ r2g_frame (r2g_D Dy) s s' /\
    (forall aid a, nth_error (w_archs s') aid = Some a -> afind (fst e) (a_tgttabs a) = None).
Proof.
  intros Dy Huq e s HI HDe HNS. set (k := fst e).
  destruct (r2g_cleanup_spec Dy Huq e s HI HDe HNS) as (s1 & E1 & HI1 & Fr1 & Hnokey & HNS1). fold k in Hnokey.
  set (s2 := s1 <| w_istarget := upd k false (w_istarget s1) |>).
  assert (E2 : modify (fun s0 : wstate => s0 <| w_istarget ::= upd k false |>) s1 = Ok tt s2) by reflexivity.
  exists s2. split; [rewrite (sa_bind_ok E1); exact E2|].
  destruct HI1 as (HS1 & Hdead1 & Honly1 & Hgone1 & Hno1 & HKL1).
  assert (HDsub : forall k0, r2g_D (fun x => Dy x /\ x <> e) k0 -> r2g_D Dy k0).
  { intros k0 (g & Hg & _). exists g. exact Hg. }
  assert (HDnot : ~ r2g_D (fun x => Dy x /\ x <> e) k).
  { intros (g & Hg & Hne). apply Hne. apply Huq; [exact Hg|exact HDe|reflexivity]. }
  assert (HS2 : St2G (r2g_D (fun x => Dy x /\ x <> e)) r2_none r2_none s2).
  { assert (HSa : St2G (r2g_D Dy) r2_none r2_none s2).
    { apply (r2_St2G_flags (r2g_D Dy) r2_none r2_none r2_none s1 (upd k false (w_istarget s1)) HS1).
      - apply upd_length.
      - intros aid a k0 l Ha0 Hk0. destruct HS1 as (_ & _ & T1 & _).
        destruct (T1 aid a k0 l Ha0 Hk0) as [H0|[H1|[]]]; [left; exact H0|right; left].
        rewrite nth_upd_neq; [exact H1|]. intros ->. rewrite (Hnokey aid a Ha0) in Hk0. discriminate. }
    destruct HSa as (W2 & R2 & T2 & C2). split; [exact W2|]. split; [|split; assumption].
    apply (r2_RelInvG_drop s2 (r2g_D Dy) _ R2). intros k0 (g & Hg).
    destruct (Nat.eq_dec k0 k) as [->|Hne]; [right; exact Hnokey|].
    left. exists g. split; [exact Hg|]. intros Heq. apply Hne. unfold k. rewrite <- Heq. reflexivity. }
  split.
  { split; [exact HS2|]. split.
    { intros x Hx. change (live s2 x) with (live s1 x). apply Hdead1. apply HDsub. exact Hx. }
    split.
    { intros tid t r Ht Hf Hin Hd. change (w_tables s2) with (w_tables s1) in Ht.
      pose proof (Honly1 tid t r Ht Hf Hin (HDsub _ Hd)) as Hdy. split; [exact Hdy|].
      intros Heq. apply HDnot. rewrite Heq in Hd. exact Hd. }
    split; [intros x (Hx & _); apply (Hgone1 x Hx)|]. split; [exact Hno1|].
    intros aid a k0 l Ha0 Hk0. change (w_archs s2) with (w_archs s1) in Ha0.
    destruct (HKL1 aid a k0 l Ha0 Hk0) as [H0|[(g & Hg)|H2]]; [left; exact H0| |right; right; exact H2].
    right. left. exists g. split; [exact Hg|]. intros Heq. assert (Ek : k0 = k) by (unfold k; rewrite <- Heq; reflexivity).
    subst k0. rewrite (Hnokey aid a Ha0) in Hk0. discriminate. }
  split; [intros aid a Ha; apply (HNS1 aid a Ha)|]. split.
  { apply (r2g_frame_trans _ s s1 s2 Fr1). split; [reflexivity|]. split; [reflexivity|]. split; [apply r2g_tgt_step_eq; intros; reflexivity|].
    split; [apply r2c_arch_static_same; reflexivity|]. split; [reflexivity|]. split; [unfold side_same; cbn; repeat split|unfold frame_user; cbn; repeat split]. }
  exact Hnokey.
Qed.

Lemma r2g_ids_D : forall (cl : list ent) k, r2g_D (fun x => In x cl) k <-> In k (map fst cl).
Proof.
  intros cl k. unfold r2g_D. split.
  - intros (g & Hg). apply in_map_iff. exists (k, g). split; [reflexivity|exact Hg].
  - intros Hin. apply in_map_iff in Hin. destruct Hin as ([k' g] & Ek & Hin). cbn [fst] in Ek. subst k'. exists g. exact Hin.
Qed.

Lemma r2g_uniq_nodup : forall (cl : list ent), NoDup (map fst cl) -> forall x y, In x cl -> In y cl -> fst x = fst y -> x = y.
Proof.
  induction cl as [|e rest IH]; intros ND x y Hx Hy Hf; [destruct Hx|].
  cbn [map] in ND. inversion ND as [|? ? Hnin ND']; subst.
  destruct Hx as [<-|Hx]; destruct Hy as [<-|Hy].
  - reflexivity.
  - exfalso. apply Hnin. rewrite Hf. apply in_map. exact Hy.
  - exfalso. apply Hnin. rewrite <- Hf. apply in_map. exact Hx.
  - apply (IH ND' x y Hx Hy Hf).
Qed.

(** The second phase of RemoveEntities: from the invariant for the set [cl] of dying entities back to the
    invariant of operation boundaries. Relation targets are detached (only those with a dying id), nothing
    else is observable. *)
Theorem r2g_cleanup_list : forall (cl : list ent) s, NoDup (map fst cl) -> r2g_I (fun x => In x cl) s -> r2g_NS s ->
  exists s', forM_ cl (fun e => cleanup_archetypes e ;;; modify (fun s0 => s0 <| w_istarget ::= upd (fst e) false |>)) s = Ok tt s' /\
    St2 s' /\ r2d_KeysLive s' /\ r2e_noobs s' /\ r2g_frame (fun k => In k (map fst cl)) s s' /\
    (forall aid a k, In k (map fst cl) -> nth_error (w_archs s') aid = Some a -> afind k (a_tgttabs a) = None).
Proof.
  induction cl as [|e rest IH]; intros s ND HI HNS.
  - exists s. split; [reflexivity|]. destruct HI as ((HW & HR & HT & HC) & _ & _ & _ & Hno & HKL).
    assert (Hnone : forall k, ~ r2g_D (fun x : ent => In x []) k) by (intros k (g & []) ).
    split.
    { split; [exact HW|]. split; [split; [|exact HT]|exact HC].
      apply (r2_RelInvG_mono s (r2g_D (fun x : ent => In x []))); [|exact HR]. intros k Hk. exfalso. apply (Hnone k Hk). }
    split.
    { intros aid a k l Ha Hk. destruct (HKL aid a k l Ha Hk) as [H0|[H1|H2]]; [left; exact H0|exfalso; apply (Hnone k H1)|right; exact H2]. }
    split; [exact Hno|]. split; [apply r2g_frame_refl|]. intros aid a k [].
  - pose proof (r2g_uniq_nodup (e :: rest) ND) as Huq.
    cbn [map] in ND. inversion ND as [|? ? Hnin ND']; subst.
    destruct (r2g_cleanup_one (fun x => In x (e :: rest)) Huq e s HI (or_introl eq_refl) HNS) as (s1 & E1 & HI1 & HNS1 & Fr1 & Hnk1).
    assert (HI1' : r2g_I (fun x => In x rest) s1).
    { apply (r2g_I_ext (fun x => In x (e :: rest) /\ x <> e)); [|exact HI1]. intros x. split.
      - intros ([<-|Hx] & Hne); [exfalso; apply Hne; reflexivity|exact Hx].
      - intros Hx. split; [right; exact Hx|]. intros ->. apply Hnin. apply in_map. exact Hx. }
    destruct (IH s1 ND' HI1' HNS1) as (s2 & E2 & HS2 & HK2 & Hno2 & Fr2 & Hnk2).
    exists s2. split; [cbn [forM_]; rewrite (sa_bind_ok E1); exact E2|].
    split; [exact HS2|]. split; [exact HK2|]. split; [exact Hno2|]. split.
    { apply (r2g_frame_trans _ s s1 s2).
      - apply (r2g_frame_mono (r2g_D (fun x => In x (e :: rest)))); [|exact Fr1]. intros k Hk. apply r2g_ids_D in Hk. exact Hk.
      - apply (r2g_frame_mono (fun k => In k (map fst rest))); [|exact Fr2]. intros k Hk. right. exact Hk. }
    intros aid a k [<-|Hk] Ha; [|apply (Hnk2 aid a k Hk Ha)].
    (* the key of [e] stays absent: the rest of the loop only removes keys or adds keys of stored entities *)
    destruct (afind (fst e) (a_tgttabs a)) as [l|] eqn:Hl; [|reflexivity]. exfalso.
    destruct (HK2 aid a (fst e) l Ha Hl) as [H0|(g & Hg)].
    + destruct HI as (_ & _ & _ & Hgone & _). destruct (Hgone e (or_introl eq_refl)) as (_ & H2). lia.
    + destruct Fr2 as (L2 & _). rewrite L2 in Hg. destruct HI1 as (_ & Hdead1 & _).
      destruct Fr1 as (L1 & _).
      destruct HI as (_ & Hdead & _). rewrite L1 in Hg. rewrite (Hdead (fst e, g)) in Hg; [discriminate|].
      exists (snd e). cbn [fst]. destruct e; left; reflexivity.
Qed.

Definition r2g_all :=
  (r2g_goc_nostale, r2g_detached_rels, r2g_phaseA, r2g_phaseBC, r2g_step_spec, r2g_inner_loop, r2g_arch_spec, r2g_outer_loop,
   r2g_cleanup_spec, r2g_cleanup_one, r2g_cleanup_list).
Print Assumptions r2g_all.
