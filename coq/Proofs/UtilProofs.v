(** * UtilProofs: capPow2 (util.go). Property C15 (capacity bound after Shrink), C01 (growth). *)
From Ark Require Import Model.Base Model.Util.
From Coq Require Import Lia ZifyN ZifyNat ZifyBool.

(** ** The nat function *)

(** Invariant of the doubling loop started at [2^k] with [2^k < 2n]. *)
Lemma pow2_ge_spec : forall fuel k n,
  1 <= n -> n <= Nat.pow 2 (k + fuel) -> Nat.pow 2 k < 2 * n ->
  n <= pow2_ge fuel (Nat.pow 2 k) n /\
  (exists j, pow2_ge fuel (Nat.pow 2 k) n = Nat.pow 2 j) /\
  pow2_ge fuel (Nat.pow 2 k) n < 2 * n.
Proof.
  induction fuel as [|f IH]; intros k n Hn Hub Hlt.
  - cbn [pow2_ge]. rewrite Nat.add_0_r in Hub.
    split; [exact Hub|]. split; [exists k; reflexivity|exact Hlt].
  - cbn [pow2_ge].
    destruct (Nat.leb_spec n (Nat.pow 2 k)) as [Hle|Hgt].
    + split; [exact Hle|]. split; [exists k; reflexivity|exact Hlt].
    + change (2 * Nat.pow 2 k) with (Nat.pow 2 (S k)).
      apply IH.
      * exact Hn.
      * replace (S k + f) with (k + S f) by lia. exact Hub.
      * change (Nat.pow 2 (S k)) with (2 * Nat.pow 2 k). lia.
Qed.

Lemma pow2_31_le_32 : Nat.pow 2 31 <= Nat.pow 2 32.
Proof. apply Nat.pow_le_mono_r; [discriminate|]. repeat constructor. Qed.

Lemma cap_pow2_spec : forall n, 1 <= n -> n <= Nat.pow 2 31 ->
  n <= cap_pow2 n /\ (exists j, cap_pow2 n = Nat.pow 2 j) /\ cap_pow2 n < 2 * n.
Proof.
  intros n Hn Hub. unfold cap_pow2.
  change 1 with (Nat.pow 2 0) at 2 3 4.
  apply pow2_ge_spec.
  - exact Hn.
  - change (0 + 32) with 32. pose proof pow2_31_le_32. lia.
  - change (Nat.pow 2 0) with 1. lia.
Qed.

(** The nat function used by the table model: least power of two >= n. *)
Theorem cap_pow2_ge : forall n, n <= Nat.pow 2 31 -> n <= cap_pow2 n.
Proof.
  intros n Hub. destruct n as [|n].
  - apply Nat.le_0_l.
  - apply cap_pow2_spec; [apply le_n_S, Nat.le_0_l|exact Hub].
Qed.

Theorem cap_pow2_pow : forall n, n <= Nat.pow 2 31 -> exists k, cap_pow2 n = Nat.pow 2 k.
Proof.
  intros n Hub. destruct n as [|n].
  - exists 0. reflexivity.
  - apply cap_pow2_spec; [apply le_n_S, Nat.le_0_l|exact Hub].
Qed.

Theorem cap_pow2_tight : forall n, 1 <= n -> n <= Nat.pow 2 31 -> cap_pow2 n < 2 * n.
Proof.
  intros n Hn Hub. apply cap_pow2_spec; assumption.
Qed.

Theorem cap_pow2_zero : cap_pow2 0 = 1.
Proof. reflexivity. Qed.

(** ** The uint32 bit smearing *)

Local Open Scope N_scope.

(** [Run w x l]: no bit above [l] is set and the [w] bits [l-w+1 .. l] are all set. *)
Definition Run (w x l : N) : Prop :=
  (forall i, l < i -> N.testbit x i = false) /\
  (forall i, i <= l -> l < i + w -> N.testbit x i = true).

Lemma Run_step : forall w x l, Run w x l -> Run (w + w) (N.lor x (N.shiftr x w)) l.
Proof.
  intros w x l [Hhi Hlo]. split; intros i.
  - intros Hi. rewrite N.lor_spec, N.shiftr_spec'.
    rewrite Hhi by exact Hi. rewrite Hhi by lia. reflexivity.
  - intros Hi1 Hi2. rewrite N.lor_spec, N.shiftr_spec'.
    destruct (N.lt_ge_cases l (i + w)) as [H|H].
    + rewrite Hlo by assumption. reflexivity.
    + rewrite (Hlo (i + w)) by lia. apply orb_true_r.
Qed.

Lemma Run_init : forall r, r <> 0 -> Run 1 r (N.log2 r).
Proof.
  intros r Hr. split; intros i.
  - intros Hi. apply N.bits_above_log2. exact Hi.
  - intros H1 H2. replace i with (N.log2 r) by lia. apply N.bit_log2. exact Hr.
Qed.

Lemma Run_full : forall w x l, l < w -> Run w x l -> x = N.ones (N.succ l).
Proof.
  intros w x l Hl [Hhi Hlo]. apply N.bits_inj. intros i.
  destruct (N.lt_ge_cases l i) as [H|H].
  - rewrite Hhi by exact H. rewrite N.ones_spec_high by lia. reflexivity.
  - rewrite Hlo by lia. rewrite N.ones_spec_low by lia. reflexivity.
Qed.

Definition smear (r : N) : N :=
  let r := N.lor r (N.shiftr r 1) in
  let r := N.lor r (N.shiftr r 2) in
  let r := N.lor r (N.shiftr r 4) in
  let r := N.lor r (N.shiftr r 8) in
  let r := N.lor r (N.shiftr r 16) in
  r.

Lemma smear_spec : forall r, r <> 0 -> N.log2 r < 32 -> smear r = N.ones (N.succ (N.log2 r)).
Proof.
  intros r Hr Hl. unfold smear. cbv zeta.
  apply (Run_full 32); [exact Hl|].
  apply (Run_step 16).
  apply (Run_step 8).
  apply (Run_step 4).
  apply (Run_step 2).
  apply (Run_step 1).
  apply Run_init. exact Hr.
Qed.

Lemma capPow2N_unfold : forall n, n <> 0 -> capPow2N n = u32 (smear (u32 (n - 1)) + 1).
Proof.
  intros n Hn. unfold capPow2N, smear.
  destruct (N.eqb_spec n 0) as [E|_]; [contradiction|]. reflexivity.
Qed.

(** For [2 <= n <= 2^31] the result is the power of two [p] with [n <= p < 2n]. *)
Lemma capPow2N_spec : forall n, 2 <= n -> n <= 2 ^ 31 ->
  exists j, capPow2N n = 2 ^ j /\ n <= 2 ^ j /\ 2 ^ j < 2 * n.
Proof.
  intros n Hn Hub.
  assert (H31 : 2 ^ 31 = 2147483648) by reflexivity.
  rewrite capPow2N_unfold by lia.
  remember (n - 1) as r eqn:Er.
  assert (Hr0 : r <> 0) by lia.
  assert (Hr : r < 2 ^ 31) by lia.
  assert (Hlog : N.log2 r < 31) by (apply N.log2_lt_pow2; [lia|exact Hr]).
  assert (Hu : u32 r = r).
  { unfold u32. apply N.mod_small. lia. }
  rewrite Hu, smear_spec by (try exact Hr0; lia).
  rewrite N.ones_equiv.
  assert (Hpos : 2 ^ N.succ (N.log2 r) <> 0) by (apply N.pow_nonzero; discriminate).
  replace (N.pred (2 ^ N.succ (N.log2 r)) + 1) with (2 ^ N.succ (N.log2 r)) by lia.
  destruct (N.log2_spec r) as [Hlo Hhi]; [lia|].
  assert (Hle : 2 ^ N.succ (N.log2 r) <= 2 ^ 31).
  { apply N.pow_le_mono_r; [discriminate|lia]. }
  exists (N.succ (N.log2 r)). split; [|split].
  - unfold u32. apply N.mod_small. lia.
  - lia.
  - rewrite N.pow_succ_r'. lia.
Qed.

Lemma pow2_unique : forall a b n, n <= 2 ^ a -> 2 ^ a < 2 * n -> n <= 2 ^ b -> 2 ^ b < 2 * n -> 2 ^ a = 2 ^ b.
Proof.
  assert (Haux : forall a b n, a < b -> n <= 2 ^ a -> 2 ^ b < 2 * n -> False).
  { intros a b n Hab H1 H2.
    assert (2 ^ N.succ a <= 2 ^ b) by (apply N.pow_le_mono_r; [discriminate|lia]).
    rewrite N.pow_succ_r' in H. lia. }
  intros a b n Ha1 Ha2 Hb1 Hb2.
  destruct (N.lt_trichotomy a b) as [H|[H|H]].
  - exfalso. eapply (Haux a b n); eassumption.
  - subst. reflexivity.
  - exfalso. eapply (Haux b a n); eassumption.
Qed.

Local Close Scope N_scope.

(** The uint32 bit-twiddling of util.go computes the same function for every required size up to 2^31. *)
Theorem capPow2N_correct : forall n, n <= Nat.pow 2 31 -> capPow2N (N.of_nat n) = N.of_nat (cap_pow2 n).
Proof.
  intros n Hub.
  destruct n as [|[|m]]; [reflexivity|reflexivity|].
  set (n := S (S m)) in *.
  assert (Hn1 : 1 <= n) by (unfold n; lia).
  assert (Hn2 : 2 <= n) by (unfold n; lia).
  destruct (cap_pow2_spec n Hn1 Hub) as (Hge & (j & Hj) & Htight).
  assert (HubN : (N.of_nat n <= 2 ^ 31)%N).
  { change 31%N with (N.of_nat 31). change 2%N with (N.of_nat 2).
    rewrite <- Nat2N.inj_pow. lia. }
  destruct (capPow2N_spec (N.of_nat n)) as (j' & Hj' & Hge' & Htight'); [lia|exact HubN|].
  assert (HjN : N.of_nat (Nat.pow 2 j) = (2 ^ N.of_nat j)%N).
  { rewrite Nat2N.inj_pow. reflexivity. }
  rewrite Hj in Hge, Htight.
  rewrite Hj', Hj, HjN.
  apply (pow2_unique j' (N.of_nat j) (N.of_nat n)); try assumption.
  - rewrite <- HjN. lia.
  - rewrite <- HjN. lia.
Qed.

(** Beyond 2^31 the uint32 computation wraps to 0 (the model's tables never get there). *)
Theorem capPow2N_overflow : capPow2N (2147483649)%N = 0%N.
Proof. vm_compute. reflexivity. Qed.

