(** * UtilProofs: capPow2 (util.go). Property C15 (capacity bound after Shrink), C01 (growth). To be filled. *)
From Ark Require Import Model.Base Model.Util.

(** The nat function used by the table model: least power of two >= n. *)
Theorem cap_pow2_ge : forall n, n <= Nat.pow 2 31 -> n <= cap_pow2 n.
Admitted.
Theorem cap_pow2_pow : forall n, n <= Nat.pow 2 31 -> exists k, cap_pow2 n = Nat.pow 2 k.
Admitted.
Theorem cap_pow2_tight : forall n, 1 <= n -> n <= Nat.pow 2 31 -> cap_pow2 n < 2 * n.
Admitted.
Theorem cap_pow2_zero : cap_pow2 0 = 1.
Admitted.

(** The uint32 bit-twiddling of util.go computes the same function for every required size up to 2^31. *)
Theorem capPow2N_correct : forall n, n <= Nat.pow 2 31 -> capPow2N (N.of_nat n) = N.of_nat (cap_pow2 n).
Admitted.

(** Beyond 2^31 the uint32 computation wraps to 0 (the model's tables never get there). *)
Theorem capPow2N_overflow : capPow2N (2147483649)%N = 0%N.
Admitted.
