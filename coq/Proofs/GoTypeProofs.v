From Ark Require Import Model.Base Model.GoType.

Lemma all_fields fs :
  (fix all (l : list gotype) : bool := match l with [] => true | f :: r => (is_trivial f && all r)%bool end) fs = forallb is_trivial fs.
Proof. induction fs as [|f r IH]; [reflexivity|]. cbn [forallb]. rewrite <- IH. reflexivity. Qed.

(** Induction principle with the list case (the automatically generated one lacks it). *)
Lemma gotype_ind' (P : gotype -> Prop) :
  P TScalar -> P TPtr -> P TSlice -> P TMap -> P TChan -> P TIface -> P TString -> P TFunc -> P TUnsafePtr ->
  (forall fs, Forall P fs -> P (TStruct fs)) -> (forall n e, P e -> P (TArray n e)) -> forall t, P t.
Proof.
  intros Hs Hp Hsl Hm Hc Hi Hst Hf Hu Hstruct Harr.
  fix IH 1. intros [| | | | | | | | |fs|n e]; try assumption.
  - apply Hstruct. induction fs as [|f r IHr]; constructor; [apply IH | exact IHr].
  - apply Harr. apply IH.
Qed.

(** isTrivial is exactly "contains none of pointer, slice, map, chan, interface, string, func, unsafe pointer". *)
Theorem is_trivial_spec : forall t, is_trivial t = true <-> ~ pointerish t.
Proof.
  induction t as [| | | | | | | | |fs IH|n e IH] using gotype_ind'; cbn [is_trivial].
  all: try (split; [intros _ H; inversion H | reflexivity]).
  all: try (split; [discriminate | intros H; exfalso; apply H; constructor]).
  - rewrite all_fields, forallb_forall. split.
    + intros H Hp. inversion Hp as [| | | | | | | |fs' f Hin Hf|]; subst.
      rewrite Forall_forall in IH. apply (IH f Hin); [apply H; exact Hin | exact Hf].
    + intros H f Hin. rewrite Forall_forall in IH. apply (IH f Hin). intros Hf. apply H. econstructor; eassumption.
  - rewrite IH. split; intros H Hp; [inversion Hp; subst; auto | apply H; constructor; exact Hp].
Qed.
