(** * Proofs about the world level of DumpEntities / LoadEntities (Model/DumpLoadW.v). *)
From Ark Require Import Model.Base Model.Mask Model.Pool Model.Util Model.World Model.Run
  Model.DumpLoad Model.DumpLoadW Proofs.LockProofs Proofs.DumpLoadProofs.
From RecordUpdate Require Import RecordSet.
Import RecordSetNotations.
From Coq Require Import Lia.

(** Every ID in the dump's Alive list names a slot of the dumped pool that holds its own ID
    (true of the rows of every table under the storage invariant: a live entity's slot holds
    the entity itself; dead slots hold free-list links). *)
Definition alive_ok (s : W) : Prop :=
  Forall (fun i => exists g, @nth_error ent (pe (w_pool s)) i = Some (i, g)) (alive_ids s).

(** ** The Add loop *)
Lemma tbl_extend_len t n : t_len (tbl_extend t n) = t_len t.
Proof. unfold tbl_extend; destruct (Nat.leb _ _); reflexivity. Qed.

Lemma tbl_add_len t e : t_len (snd (tbl_add t e)) = S (t_len t).
Proof. unfold tbl_add, tbl_alloc; cbn; rewrite tbl_extend_len; lia. Qed.

Lemma tbl_add_row t e : fst (tbl_add t e) = t_len t.
Proof. reflexivity. Qed.

Lemma load_rows_ok (pes : list ent) alive :
  Forall (fun i => exists g, @nth_error ent pes i = Some (i, g)) alive ->
  forall t idx, length idx = length pes -> load_rows pes alive t idx <> None.
Proof.
  induction alive as [|i rest IH]; intros HF t idx Hl; cbn [load_rows]; [discriminate|].
  destruct (Forall_inv HF) as [g Hg]; pose proof (Forall_inv_tail HF) as HF'.
  rewrite Hg; cbn [fst].
  assert (Hi : i < length pes) by (apply nth_error_Some; rewrite Hg; discriminate).
  replace (Nat.ltb i (length idx)) with true by (symmetry; apply Nat.ltb_lt; lia).
  apply IH; [exact HF'|rewrite length_upd; exact Hl].
Qed.

Lemma load_rows_len pes alive : forall t idx t' idx',
  load_rows pes alive t idx = Some (t', idx') ->
  t_len t' = t_len t + length alive /\ length idx' = length idx.
Proof.
  induction alive as [|i rest IH]; intros t idx t' idx'; cbn [load_rows].
  - intros E; injection E as <- <-; cbn; lia.
  - destruct (nth_error pes i) as [e|]; [|discriminate].
    destruct (Nat.ltb (fst e) (length idx)); [|discriminate].
    pose proof (tbl_add_len t e) as Hlen.
    destruct (tbl_add t e) as [row t1]; cbn [snd] in Hlen.
    intros E; apply IH in E; rewrite length_upd in E; cbn [length]; lia.
Qed.

(** ** LoadEntities as a whole *)

(** Rejected on a locked world and on a world whose pool is not fresh/reset. *)
Lemma w_load_rejected d t :
  is_locked t = true \/ reserved < length (pe (w_pool t)) \/ 0 < pavail (w_pool t) ->
  w_load_entities d t = None.
Proof.
  destruct d as [pd alive]; unfold w_load_entities; intros [H|H].
  - rewrite H; reflexivity.
  - destruct (is_locked t); [reflexivity|].
    assert (E : pool_load (w_pool t) pd = None) by (apply load_rejected_iff; exact H).
    rewrite E; reflexivity.
Qed.

(** Accepted by every unlocked world with a fresh or reset pool (and its component-less table),
    for the dump of every state whose Alive list is well formed. *)
Lemma w_load_succeeds s t :
  alive_ok s -> has_reserved (w_pool s) ->
  is_locked t = false -> length (pe (w_pool t)) <= reserved -> pavail (w_pool t) = 0 ->
  nth_error (w_tables t) 0 <> None ->
  w_load_entities (w_dump_entities s) t <> None.
Proof.
  intros Hok Hres Hlk Hlen Hav Ht0; unfold w_load_entities, w_dump_entities.
  rewrite Hlk, (load_ok _ _ Hlen Hav Hres).
  destruct (nth_error (w_tables t) 0) as [t0|]; [|congruence].
  pose proof (load_rows_ok (pe (w_pool s)) (alive_ids s) Hok
                (tbl_extend t0 (length (alive_ids s)))
                (repeat (Some 0, 0) (length (d_ents (pool_dump (w_pool s)))))) as H.
  destruct (load_rows _ _ _ _) as [[t1 idx]|]; [discriminate|].
  exfalso; apply H; [rewrite repeat_length; reflexivity|reflexivity].
Qed.

(** What the loaded world is: the dumped pool; as many new rows in table 0 as the dump lists
    alive IDs; index and target flags of the dump's capacity; everything else untouched. *)
Lemma w_load_result s t t' :
  has_reserved (w_pool s) ->
  w_load_entities (w_dump_entities s) t = Some t' ->
  w_pool t' = w_pool s /\
  length (w_index t') = length (pe (w_pool s)) /\
  w_istarget t' = repeat false (length (pe (w_pool s))) /\
  (exists t0 t1, nth_error (w_tables t) 0 = Some t0 /\ nth_error (w_tables t') 0 = Some t1 /\
                 t_len t1 = t_len t0 + length (alive_ids s)) /\
  w_archs t' = w_archs t /\ w_reg t' = w_reg t /\ w_lock t' = w_lock t /\
  w_centries t' = w_centries t /\ w_obs t' = w_obs t /\ w_olists t' = w_olists t /\
  w_filters t' = w_filters t /\ w_res t' = w_res t /\ w_cfg t' = w_cfg t.
Proof.
  intros Hres; unfold w_load_entities, w_dump_entities.
  destruct (is_locked t); [discriminate|].
  destruct (pool_load (w_pool t) (pool_dump (w_pool s))) as [p|] eqn:Hp; [|discriminate].
  assert (Ep : p = w_pool s).
  { unfold pool_load in Hp.
    destruct (orb _ _); [discriminate|].
    replace (Nat.ltb 0 (length (d_ents (pool_dump (w_pool s))))) with true in Hp
      by (symmetry; apply Nat.ltb_lt; unfold pool_dump, has_reserved, reserved in *; cbn [d_ents]; lia).
    injection Hp as <-; destruct (w_pool s); reflexivity. }
  subst p.
  destruct (nth_error (w_tables t) 0) as [t0|] eqn:Ht0; [|discriminate].
  destruct (load_rows _ _ _ _) as [[t1 idx]|] eqn:Hr; [|discriminate].
  intros E; injection E as <-.
  apply load_rows_len in Hr; destruct Hr as [Hl1 Hl2].
  rewrite tbl_extend_len in Hl1; rewrite repeat_length in Hl2.
  cbn.
  repeat split; try reflexivity; try exact Hl2.
  exists t0, t1; repeat split; [| exact Hl1].
  destruct (w_tables t) as [|x l]; [discriminate|reflexivity].
Qed.

(** Hence Alive and all later creations agree with the source world. *)
Lemma w_load_alive s t t' h :
  has_reserved (w_pool s) -> w_load_entities (w_dump_entities s) t = Some t' ->
  alive t' h = alive s h.
Proof. intros H E; unfold alive; destruct (w_load_result s t t' H E) as [-> _]; reflexivity. Qed.

Lemma w_load_future s t t' n :
  has_reserved (w_pool s) -> w_load_entities (w_dump_entities s) t = Some t' ->
  pgets n (w_pool t') = pgets n (w_pool s).
Proof. intros H E; destruct (w_load_result s t t' H E) as [-> _]; reflexivity. Qed.

(** ** The rebuilt entity index: the j-th alive ID is indexed at table 0, row (old length + j);
    IDs the dump does not list keep the fresh entry. *)
Lemma load_rows_index (pes : list ent) alive : forall t idx t' idx',
  NoDup alive ->
  Forall (fun i => exists g, @nth_error ent pes i = Some (i, g)) alive ->
  load_rows pes alive t idx = Some (t', idx') ->
  (forall j i, nth_error alive j = Some i -> nth_error idx' i = Some (Some 0, t_len t + j)) /\
  (forall k, ~ In k alive -> nth_error idx' k = nth_error idx k).
Proof.
  induction alive as [|i rest IH]; intros t idx t' idx' Hnd HF; cbn [load_rows].
  - intros E; injection E as <- <-; split; [intros [|j] i H; discriminate | reflexivity].
  - destruct (Forall_inv HF) as [g Hg]; pose proof (Forall_inv_tail HF) as HF'.
    rewrite Hg; cbn [fst].
    destruct (Nat.ltb_spec i (length idx)) as [Hi|Hi]; [|discriminate].
    pose proof (tbl_add_len t (i, g)) as Hlen; pose proof (tbl_add_row t (i, g)) as Hrow.
    destruct (tbl_add t (i, g)) as [row t1]; cbn [fst snd] in Hlen, Hrow; subst row.
    intros E.
    assert (Hnd' : NoDup rest) by (apply NoDup_cons_iff in Hnd; tauto).
    destruct (IH t1 _ t' idx' Hnd' HF' E) as [A B].
    split.
    + intros [|j] k Hk; cbn [nth_error] in Hk.
      * injection Hk as <-.
        rewrite B by (apply NoDup_cons_iff in Hnd; tauto).
        rewrite nth_error_upd_eq by exact Hi; f_equal; f_equal; lia.
      * rewrite (A j k Hk); f_equal; f_equal; lia.
    + intros k Hk; rewrite B by (intros Hin; apply Hk; right; exact Hin).
      apply nth_error_upd_neq; intros ->; apply Hk; left; reflexivity.
Qed.

Lemma w_load_index s t t' :
  has_reserved (w_pool s) -> alive_ok s -> NoDup (alive_ids s) ->
  w_load_entities (w_dump_entities s) t = Some t' ->
  exists t0, nth_error (w_tables t) 0 = Some t0 /\
    (forall j i, nth_error (alive_ids s) j = Some i ->
                 nth_error (w_index t') i = Some (Some 0, t_len t0 + j)) /\
    (forall k, k < length (pe (w_pool s)) -> ~ In k (alive_ids s) ->
               nth_error (w_index t') k = Some (Some 0, 0)).
Proof.
  intros Hres Hok Hnd; unfold w_load_entities, w_dump_entities.
  destruct (is_locked t); [discriminate|].
  destruct (pool_load (w_pool t) (pool_dump (w_pool s))) as [p|] eqn:Hp; [|discriminate].
  assert (Ep : p = w_pool s).
  { unfold pool_load in Hp.
    destruct (orb _ _); [discriminate|].
    replace (Nat.ltb 0 (length (d_ents (pool_dump (w_pool s))))) with true in Hp
      by (symmetry; apply Nat.ltb_lt; unfold pool_dump, has_reserved, reserved in *; cbn [d_ents]; lia).
    injection Hp as <-; destruct (w_pool s); reflexivity. }
  subst p.
  destruct (nth_error (w_tables t) 0) as [t0|] eqn:Ht0; [|discriminate].
  destruct (load_rows _ _ _ _) as [[t1 idx]|] eqn:Hr; [|discriminate].
  intros E; injection E as <-.
  apply load_rows_index in Hr; [|exact Hnd|exact Hok].
  destruct Hr as [A B]; rewrite tbl_extend_len in A.
  exists t0; split; [reflexivity|]; cbn; split; [exact A|].
  intros k Hk Hn; rewrite (B k Hn).
  apply nth_error_repeat; unfold pool_dump; cbn [d_ents]; exact Hk.
Qed.

(** ** The entity column of the component-less table: row (old length + j) holds the j-th alive
    entity of the dump; the rows that were there stay (a new world has none). *)
From Ark Require Import Proofs.TableProofs.

Lemma load_rows_ents (pes : list ent) alive : forall t idx t' idx',
  tbl_ok t -> t_len t + length alive < Nat.pow 2 31 ->
  load_rows pes alive t idx = Some (t', idx') ->
  tbl_ok t' /\
  (forall j i, nth_error alive j = Some i ->
     exists e, @nth_error ent pes i = Some e /\ row_ent t' (t_len t + j) = e) /\
  (forall r, r < t_len t -> row_ent t' r = row_ent t r).
Proof.
  induction alive as [|i rest IH]; intros t idx t' idx' Hok Hb; cbn [load_rows].
  - intros E; injection E as <- <-; split; [exact Hok|]; split; [intros [|j] i H; discriminate|reflexivity].
  - destruct (nth_error pes i) as [e|] eqn:He; [|discriminate].
    destruct (Nat.ltb (fst e) (length idx)); [|discriminate].
    cbn [length] in Hb.
    pose proof (tbl_add_spec t e Hok ltac:(lia)) as Hs.
    pose proof (tbl_add_ok t e Hok ltac:(lia)) as Hok1.
    destruct (tbl_add t e) as [row t1]; cbn [snd] in Hok1.
    destruct Hs as (-> & Hl1 & Hrow & _ & _ & Hold & _).
    intros E.
    destruct (IH t1 _ t' idx' Hok1 ltac:(lia) E) as (Hok' & A & B).
    split; [exact Hok'|]; split.
    + intros [|j] k Hk; cbn [nth_error] in Hk.
      * injection Hk as <-; exists e; split; [exact He|].
        rewrite Nat.add_0_r, B by lia; exact Hrow.
      * destruct (A j k Hk) as [e' [H1 H2]]; exists e'; split; [exact H1|].
        rewrite <- H2; f_equal; lia.
    + intros r Hr; rewrite B by lia; apply Hold; exact Hr.
Qed.

Lemma w_load_rows s t t' t0 :
  has_reserved (w_pool s) ->
  nth_error (w_tables t) 0 = Some t0 -> tbl_ok t0 ->
  t_len t0 + length (alive_ids s) < Nat.pow 2 31 ->
  w_load_entities (w_dump_entities s) t = Some t' ->
  exists t1, nth_error (w_tables t') 0 = Some t1 /\ tbl_ok t1 /\
    t_len t1 = t_len t0 + length (alive_ids s) /\
    (forall j i, nth_error (alive_ids s) j = Some i ->
       exists e, nth_error (pe (w_pool s)) i = Some e /\ row_ent t1 (t_len t0 + j) = e) /\
    (forall r, r < t_len t0 -> row_ent t1 r = row_ent t0 r).
Proof.
  intros Hres Ht0 Hok0 Hb; unfold w_load_entities, w_dump_entities.
  destruct (is_locked t); [discriminate|].
  destruct (pool_load (w_pool t) (pool_dump (w_pool s))) as [p|] eqn:Hp; [|discriminate].
  assert (Ep : p = w_pool s).
  { unfold pool_load in Hp.
    destruct (orb _ _); [discriminate|].
    replace (Nat.ltb 0 (length (d_ents (pool_dump (w_pool s))))) with true in Hp
      by (symmetry; apply Nat.ltb_lt; unfold pool_dump, has_reserved, reserved in *; cbn [d_ents]; lia).
    injection Hp as <-; destruct (w_pool s); reflexivity. }
  subst p; rewrite Ht0.
  destruct (load_rows _ _ _ _) as [[t1 idx]|] eqn:Hr; [|discriminate].
  intros E; injection E as <-.
  assert (Hb' : t_len (tbl_extend t0 (length (alive_ids s))) + length (alive_ids s) < Nat.pow 2 31)
    by (rewrite tbl_extend_len; exact Hb).
  destruct (tbl_extend_facts t0 (length (alive_ids s)) Hok0 ltac:(lia)) as (Hok1 & _ & _ & _ & Hrows & _).
  pose proof (load_rows_len _ _ _ _ _ _ Hr) as [Hl _].
  destruct (load_rows_ents _ _ _ _ _ _ Hok1 Hb' Hr) as (Hok' & A & B).
  rewrite tbl_extend_len in *.
  exists t1; split; [cbn; destruct (w_tables t); [discriminate|reflexivity]|].
  split; [exact Hok'|]; split; [exact Hl|]; split; [exact A|].
  intros r Hr'; rewrite B by exact Hr'; apply Hrows; exact Hr'.
Qed.

(** ** Soundness of the executable hypotheses check *)
Lemma nodupb_sound l : nodupb l = true -> NoDup l.
Proof.
  induction l as [|x r IH]; cbn [nodupb]; intros H; [constructor|].
  apply andb_prop in H; destruct H as [H1 H2]; constructor; [|apply IH; exact H2].
  intros Hin; apply Bool.negb_true_iff in H1.
  assert (E : existsb (Nat.eqb x) r = true) by (apply existsb_exists; exists x; split; [exact Hin|apply Nat.eqb_refl]).
  congruence.
Qed.

Lemma alive_okb_sound s : alive_okb s = true -> alive_ok s /\ NoDup (alive_ids s).
Proof.
  unfold alive_okb, alive_ok; intros H; apply andb_prop in H; destruct H as [H1 H2].
  split; [|apply nodupb_sound; exact H2].
  apply Forall_forall; intros i Hi.
  pose proof (proj1 (forallb_forall _ _) H1 i Hi) as Hx; cbv beta in Hx.
  destruct (nth_error (pe (w_pool s)) i) as [[a g]|]; [|discriminate].
  apply Nat.eqb_eq in Hx; cbn [fst] in Hx; subst a; exists g; reflexivity.
Qed.
