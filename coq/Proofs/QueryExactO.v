(** * QueryExactO: the end-to-end query theorem (QueryExact.v) for histories WITH OBSERVERS (class of Rel2HistO:
    entity operations, relations, filters, registration, queries AND observer creation / registration /
    unregistration / Emit, any callback kind). Helper prefix [qxo_].

    The three additional clauses (component index exact, filters built from ids, filter cache linked) are storage
    and user-side facts that no callback and no observer operation touches: the frame [qx_ckp] of QueryExactIdx.v was
    proved for EVERY state (it never assumed "no observers": a callback satisfies [sa_sp]), and the observer
    operations satisfy [sa_sp] ([oe_sp_obs_op]). So [Inv2OF s n := Inv2O s n /\ r2k_cidx_ok s /\ qx_FL s] is an
    invariant ([step_inv2OF], [reachable_inv2OF]), and the query theorems hold in every state of such a history
    ([reachable_query_exact_O], [reachable_query_exact_typed_O], [reachable_query_exact_ok_O]). *)
From Ark Require Import Model.Base Model.Mask Model.Pool Model.Util Model.World Model.Run.
From Ark Require Import Proofs.TableProofs Proofs.MaskProofs Proofs.Hoare Proofs.WF Proofs.StorageA Proofs.StorageC
  Proofs.LockWorld Proofs.QueryProofs Proofs.Rel2Defs Proofs.Rel2Struct Proofs.Rel2Hist Proofs.Rel2Cache Proofs.Rel2HistQ
  Proofs.ObsErase Proofs.Rel2HistO Proofs.QueryExactIdx Proofs.QueryExact.
From Ark Require Properties.Common Proofs.Rel2Check Proofs.StorageD.
From RecordUpdate Require Import RecordSet.
Import RecordSetNotations.
From Coq Require Import Lia Permutation.
Close Scope Z_scope.

Definition Inv2OF (s : W) (n : nat) : Prop := Inv2O s n /\ r2k_cidx_ok s /\ qx_FL s.

Lemma qxo_class_cases : forall o, rel_o_op o = true ->
  rel_q_op o = true \/ (oe_obs_op o = true /\ issues_from_log o = false /\ returns_entity o = false).
Proof. intros o H. destruct o; try discriminate H; auto. Qed.

(** The two clauses across one step of a decoded line of the class with observers (both outcomes). *)
Lemma qxo_step_keep : forall debug wd s line o, decode_op line = Some o -> rel_o_op o = true -> qx_walk_ok s ->
  qx_keep s (fst (step debug wd s line)).
Proof.
  intros debug wd s line o Hd Hop Hwalk. destruct (qxo_class_cases o Hop) as [Hq|(Ho & Hil & Hre)].
  - apply (qx_step_keep debug wd s line o Hd Hq Hwalk).
  - set (s0 := s <| w_log := [] |>).
    assert (H0 : qx_keep s s0) by (apply qx_keep_of_ck, qx_ck_same; reflexivity).
    apply (qx_keep_trans s s0 _ H0). rewrite (StorageD.sd_step_state_plain debug wd s line o Hd Hil Hre). fold s0.
    pose proof (qx_keep_of_ck _ _ (qx_ckp_sp _ _ (oe_sp_obs_op debug o Ho) s0)) as H1.
    apply (qx_keep_ext s0 _ _ H1); reflexivity.
Qed.

Theorem step_inv2OF : forall debug wd s n line o,
  Inv2OF s n -> n + 4 < Nat.pow 2 31 -> decode_op line = Some o -> rel_o_op o = true ->
  (forall c, In c (rel_op_ids o) -> c < length (w_reg s)) -> rel_q_flt_ok (w_reg s) o ->
  let s' := fst (step debug wd s line) in
  Inv2OF s' (S n) /\ w_reg s' = w_reg s /\
  (w_issued s' = w_issued s \/ exists e, w_issued s' = w_issued s ++ [e] /\ live s' e = true /\ live s e = false).
Proof.
  intros debug wd s n line o (HI & HC & HF) Hn Hd Hop Hreg Hflt. cbv zeta.
  destruct (step_inv2O debug wd s n line o HI Hn Hd Hop Hreg Hflt) as (S1 & S2 & S3).
  split; [|split; assumption]. split; [exact S1|].
  pose proof S1 as ((HW' & _) & _). pose proof HI as (HS & _ & _ & HT & HFo). pose proof HS as (HW & _).
  destruct (qxo_step_keep debug wd s line o Hd Hop (qx_walk_ok_inv s HS HT HFo)) as (K1 & K2).
  split; [apply (qx_ok_of_CIw _ HW'), K1, (qx_CIw_of_ok s HW HC)|apply K2; exact HF].
Qed.

Theorem qxo_init : forall c, cfg_ok2 c -> Inv2OF (init_world c) 0.
Proof. intros c Hc. split; [apply r2o_init; exact Hc|]. split; [apply r2k_cidx_init|apply qx_FL_init]. Qed.

Lemma qxo_run_inv : forall c, cfg_ok2 c -> forall lines,
  Forall (rel_o_line (sc_kinds c)) lines -> length lines + 4 < Nat.pow 2 31 ->
  Inv2OF (Properties.Common.exec c lines) (length lines) /\ w_reg (Properties.Common.exec c lines) = sc_kinds c.
Proof.
  intros c Hc lines. induction lines as [|l lines IH] using rev_ind; intros HF Hb.
  - split; [apply qxo_init; exact Hc|reflexivity].
  - apply Forall_app in HF. destruct HF as (HF & Hl). inversion Hl as [|? ? (o & Hd & Hco & Hids & Hflt) _]; subst.
    rewrite app_length in *. cbn [length] in *. rewrite Nat.add_1_r in *.
    destruct IH as (IH1 & IH2); [exact HF|lia|].
    unfold Properties.Common.exec in *. rewrite fold_left_app. cbn [fold_left].
    destruct (step_inv2OF (sc_debug c) false _ (length lines) l o IH1) as (S1 & S2 & _); auto; try lia.
    { rewrite IH2. exact Hids. }
    { rewrite IH2. exact Hflt. }
    split; [exact S1|congruence].
Qed.

Theorem reachable_inv2OF : forall c lines,
  cfg_ok2 c -> Forall (rel_o_line (sc_kinds c)) lines -> length lines + 4 < Nat.pow 2 31 ->
  Inv2OF (Properties.Common.exec c lines) (length lines).
Proof. intros c lines Hc Hl Hb. apply (qxo_run_inv c Hc lines Hl Hb). Qed.

(** ** The query theorems in every state of a history with observers *)
Section qxo_reach.
Variable c : script_cfg.
Variable lines : list (list Z).
Hypothesis Hc : cfg_ok2 c.
Hypothesis Hl : Forall (rel_o_line (sc_kinds c)) lines.
Hypothesis Hb : length lines + 4 < Nat.pow 2 31.
Let s := Properties.Common.exec c lines.

Theorem reachable_query_exact_O : forall fi f rels qi s1,
  nth_error (w_filters s) fi = Some f -> query_open fi rels s = Ok qi s1 ->
  let hd := match f_cache f with None => true | Some _ => false end in
  exists vis, qx_query_is s1 qi vis /\ NoDup vis /\
    (forall e, In e vis <-> qx_model hd s f (f_rels f ++ rels) e) /\
    Permutation vis (filter (qx_model_b hd s f (f_rels f ++ rels)) (qx_all_rows s)).
Proof.
  intros fi f rels qi s1 Hf Ho.
  destruct (reachable_inv2OF c lines Hc Hl Hb) as ((HS & _ & _ & HT & _) & Hci & HFL).
  exact (qx_query_exact s fi f rels qi s1 HS HT Hci HFL Hf Ho).
Qed.

Theorem reachable_query_exact_typed_O : forall fi f rels qi s1,
  nth_error (w_filters s) fi = Some f -> f_unsafe f = false -> query_open fi rels s = Ok qi s1 ->
  exists vis, qx_query_is s1 qi vis /\ NoDup vis /\
    (forall e, In e vis <-> matches_spec s f (f_rels f ++ rels) e) /\
    Permutation vis (filter (matches_spec_b s f (f_rels f ++ rels)) (qx_all_rows s)).
Proof.
  intros fi f rels qi s1 Hf Hun Ho.
  destruct (reachable_inv2OF c lines Hc Hl Hb) as ((HS & _ & _ & HT & HFo) & Hci & HFL).
  exact (qx_query_exact_typed s fi f rels qi s1 HS HT Hci HFL HFo Hf Hun Ho).
Qed.

Theorem reachable_query_exact_ok_O : forall fi f rels qi s1,
  nth_error (w_filters s) fi = Some f -> r2k_rels_ok s (f_mask f) rels -> query_open fi rels s = Ok qi s1 ->
  exists vis, qx_query_is s1 qi vis /\ NoDup vis /\ (forall e, In e vis <-> matches_spec s f (f_rels f ++ rels) e).
Proof.
  intros fi f rels qi s1 Hf Hok Ho.
  destruct (reachable_inv2OF c lines Hc Hl Hb) as ((HS & _ & _ & HT & HFo) & Hci & HFL).
  exact (qx_query_exact_ok s fi f rels qi s1 HS HT Hci HFL HFo Hf Hok Ho).
Qed.
End qxo_reach.

(** Non-vacuity: the script of Rel2HistO (observers of every callback kind, a locked window, registered filters). *)
Example qxo_script_inv : Inv2OF (Properties.Common.exec Rel2Check.r2_cfg r2o_script) (length r2o_script).
Proof.
  apply reachable_inv2OF; [exact r2q_cfg_ok|exact r2o_script_lines|].
  apply r2_N_small. vm_compute. reflexivity.
Qed.

Definition qxo_all := (step_inv2OF, qxo_init, reachable_inv2OF, reachable_query_exact_O, reachable_query_exact_typed_O,
  reachable_query_exact_ok_O, qxo_script_inv).
Print Assumptions qxo_all.
