(** * StorageB (part sb3): see StorageBDefs.v for the statements' vocabulary. *)
From Ark Require Import Model.Base Model.Mask Model.Pool Model.Util Model.World Model.Run.
From Ark Require Import Proofs.TableProofs Proofs.MaskProofs Proofs.Hoare Proofs.WF Proofs.StorageA Proofs.StorageBDefs.
From RecordUpdate Require Import RecordSet.
Import RecordSetNotations.
From Coq Require Import Lia.


(** World.NewEntity (storage part): a fresh handle with no components. *)

(** Unsafe.NewEntity(ids...) (storage part, no relation targets). *)


(** remove: the entity loses exactly the components, keeps the values of the rest. Removal
    callbacks run before the change (they see the old content) and cannot touch the storage. *)


(** ** sb3: helpers for [write_spec] and [remove_entity_spec] *)

Lemma sb3_ent_eqb_true : forall a b : ent, ent_eqb a b = true <-> a = b.
Proof.
  intros [a1 a2] [b1 b2]. unfold ent_eqb. simpl. rewrite Bool.andb_true_iff, Nat.eqb_eq, N.eqb_eq.
  split; [intros [-> ->]; reflexivity | intros H; inversion H; auto].
Qed.

Lemma sb3_ent_eqb_refl : forall a : ent, ent_eqb a a = true.
Proof. intros. apply sb3_ent_eqb_true. reflexivity. Qed.

Lemma sb3_ent_eqb_false : forall a b : ent, a <> b -> ent_eqb a b = false.
Proof.
  intros a b H. destruct (ent_eqb a b) eqn:E; auto. apply sb3_ent_eqb_true in E. contradiction.
Qed.

Lemma sb3_index_of_nth : forall x l i, index_of x l = Some i -> nth_error l i = Some x.
Proof.
  induction l; simpl; intros i H; [discriminate|].
  destruct (Nat.eqb_spec a x).
  - inversion H; subst. reflexivity.
  - destruct (index_of x l); [|discriminate]. inversion H; subst. simpl. auto.
Qed.

Lemma sb3_gen_bump : forall g : N, ((g + 1) mod 4294967296 <> g)%N.
Proof.
  intros g H. destruct (N.lt_ge_cases (g + 1) 4294967296) as [Hl|Hl].
  - rewrite N.mod_small in H by assumption. lia.
  - assert (Hm : ((g + 1) mod 4294967296 < 4294967296)%N) by (apply N.mod_lt; lia).
    destruct (N.eq_dec (g + 1) 4294967296) as [E|E].
    + rewrite E, N.mod_same in H by lia. lia.
    + rewrite H in Hm. lia.
Qed.

(** The row of an entity: table and row the index points to. *)
Definition sb3_row_of (s : W) (e : ent) : option (table * nat) :=
  match nth_error (w_index s) (fst e) with
  | Some (Some tid, r) => match nth_error (w_tables s) tid with Some t => Some (t, r) | None => None end
  | _ => None
  end.

Lemma sb3_live_row : forall s e,
  live s e = match sb3_row_of s e with
             | Some (t, r) => (Nat.ltb r (t_len t) && ent_eqb (row_ent t r) e)%bool
             | None => false
             end.
Proof.
  intros. unfold live, loc, sb3_row_of.
  destruct (nth_error (w_index s) (fst e)) as [[[tid|] r]|]; auto.
  destruct (nth_error (w_tables s) tid); auto.
Qed.

Lemma sb3_val_row : forall s e c,
  val s e c = match sb3_row_of s e with
              | Some (t, r) =>
                  if (Nat.ltb r (t_len t) && ent_eqb (row_ent t r) e)%bool
                  then match tbl_colidx t c with Some ci => Some (cell t ci r) | None => None end
                  else None
              | None => None
              end.
Proof.
  intros. unfold val. rewrite sb3_live_row. unfold value_of, loc, sb3_row_of.
  destruct (nth_error (w_index s) (fst e)) as [[[tid|] r]|]; auto.
  destruct (nth_error (w_tables s) tid); auto.
Qed.

Lemma sb3_same_none : forall s s' e, sb3_row_of s e = None -> sb3_row_of s' e = None ->
  live s' e = live s e /\ forall c, val s' e c = val s e c.
Proof.
  intros s s' e H H'. split; [|intros c]; rewrite ?sb3_live_row, ?sb3_val_row, H, H'; reflexivity.
Qed.

Lemma sb3_same_some : forall s s' e t r t' r',
  sb3_row_of s e = Some (t, r) -> sb3_row_of s' e = Some (t', r') ->
  r < t_len t -> r' < t_len t' -> row_ent t' r' = row_ent t r -> t_ids t' = t_ids t ->
  (forall ci, cell t' ci r' = cell t ci r) ->
  live s' e = live s e /\ forall c, val s' e c = val s e c.
Proof.
  intros s s' e t r t' r' H H' Hr Hr' He Hi Hc.
  apply Nat.ltb_lt in Hr. apply Nat.ltb_lt in Hr'.
  split; [|intros c]; rewrite ?sb3_live_row, ?sb3_val_row, H, H', Hr, Hr', He; auto.
  unfold tbl_colidx. rewrite Hi. destruct (_ && _); auto. destruct (index_of c (t_ids t)); auto.
  rewrite Hc. reflexivity.
Qed.

Lemma sb3_row_of_wf : forall s e t r, WF s -> sb3_row_of s e = Some (t, r) ->
  exists tid, nth_error (w_index s) (fst e) = Some (Some tid, r) /\ nth_error (w_tables s) tid = Some t /\
              r < t_len t /\ fst (row_ent t r) = fst e.
Proof.
  intros s e t r H E. unfold sb3_row_of in E.
  destruct (nth_error (w_index s) (fst e)) as [[[tid|] r0]|] eqn:Ei; try discriminate.
  destruct (nth_error (w_tables s) tid) as [t0|] eqn:Et; [|discriminate]. inversion E; subst.
  destruct (wf_index _ H _ _ _ Ei) as (t1 & Et1 & Hr & Hf). rewrite Et in Et1. inversion Et1; subst.
  exists tid. auto.
Qed.

(** An alive handle with a valid index entry is the entity stored in that row. *)
Lemma sb3_alive_index_live : forall s e tid row, WF s -> alive s e = true ->
  nth_error (w_index s) (fst e) = Some (Some tid, row) ->
  exists t, nth_error (w_tables s) tid = Some t /\ row < t_len t /\ row_ent t row = e.
Proof.
  intros s e tid row H Ha Hi. destruct (wf_index _ H _ _ _ Hi) as (t & Ht & Hr & Hf).
  exists t. repeat split; auto.
  destruct (wf_rows _ H _ _ _ Ht Hr) as (_ & Hp). unfold alive, pool_alive in Ha.
  rewrite <- Hf in Ha. rewrite Hp in Ha.
  destruct (row_ent t row) as [i g]. destruct e as [i' g']. simpl in *.
  apply N.eqb_eq in Ha. subst. reflexivity.
Qed.

Lemma sb3_live_of_row : forall s e tid row t,
  nth_error (w_index s) (fst e) = Some (Some tid, row) -> nth_error (w_tables s) tid = Some t ->
  row < t_len t -> row_ent t row = e -> live s e = true.
Proof.
  intros s e tid row t Hi Ht Hr He. rewrite sb3_live_row. unfold sb3_row_of. rewrite Hi, Ht, He.
  apply Nat.ltb_lt in Hr. rewrite Hr, sb3_ent_eqb_refl. reflexivity.
Qed.

(** Rows of distinct positions hold distinct IDs. *)
Lemma sb3_rows_inj : forall s tid t r tid' t' r', WF s ->
  nth_error (w_tables s) tid = Some t -> r < t_len t ->
  nth_error (w_tables s) tid' = Some t' -> r' < t_len t' ->
  fst (row_ent t r) = fst (row_ent t' r') -> tid = tid' /\ r = r'.
Proof.
  intros s tid t r tid' t' r' H Ht Hr Ht' Hr' Hf.
  destruct (wf_rows _ H _ _ _ Ht Hr) as (L & _). destruct (wf_rows _ H _ _ _ Ht' Hr') as (L' & _).
  unfold loc in L, L'. rewrite Hf in L. rewrite L in L'. inversion L'. auto.
Qed.

(** Re-establishing the invariant when only tables (pointwise, same layout), pool, index and
    target flags changed: the structural clauses carry over, the entity clauses are obligations. *)
Definition sb3_tabs_rel (T T' : list table) : Prop :=
  length T' = length T /\
  forall tid t, nth_error T tid = Some t ->
    exists t', nth_error T' tid = Some t' /\ tbl_ok t' /\ t_arch t' = t_arch t /\ t_ids t' = t_ids t /\
               t_kinds t' = t_kinds t /\ t_targets t' = t_targets t /\ t_rels t' = t_rels t /\
               t_free t' = t_free t.

Definition sb3_struct_same (s s' : W) : Prop :=
  w_cfg s' = w_cfg s /\ w_reg s' = w_reg s /\ w_archs s' = w_archs s /\ w_relarchs s' = w_relarchs s /\
  w_compindex s' = w_compindex s /\ w_archcount s' = w_archcount s /\ w_cheap s' = w_cheap s /\
  w_centries s' = w_centries s /\ w_filters s' = w_filters s /\ w_queries s' = w_queries s /\
  w_res s' = w_res s /\ w_issued s' = w_issued s.

Lemma sb3_tabs_rel_inv : forall T T' tid t', sb3_tabs_rel T T' -> nth_error T' tid = Some t' ->
  exists t, nth_error T tid = Some t /\ tbl_ok t' /\ t_arch t' = t_arch t /\ t_ids t' = t_ids t /\
            t_kinds t' = t_kinds t /\ t_targets t' = t_targets t /\ t_rels t' = t_rels t /\
            t_free t' = t_free t.
Proof.
  intros T T' tid t' (L & R) E.
  assert (Hlt : tid < length T) by (rewrite <- L; apply nth_error_Some; congruence).
  destruct (nth_error T tid) as [t|] eqn:Et; [|apply nth_error_None in Et; lia].
  destruct (R _ _ Et) as (t'' & E'' & F). rewrite E in E''. inversion E''; subst t''.
  exists t. auto.
Qed.

Lemma sb3_St_intro : forall s s', St s -> sb3_struct_same s s' ->
  sb3_tabs_rel (w_tables s) (w_tables s') ->
  (length (w_index s') = length (pe (w_pool s')) /\ length (w_istarget s') = length (w_index s')) ->
  (forall tid t r, nth_error (w_tables s') tid = Some t -> r < t_len t ->
      loc s' (row_ent t r) = Some (tid, r) /\
      nth_error (pe (w_pool s')) (fst (row_ent t r)) = Some (row_ent t r)) ->
  (forall id tid r, nth_error (w_index s') id = Some (Some tid, r) ->
      exists t, nth_error (w_tables s') tid = Some t /\ r < t_len t /\ fst (row_ent t r) = id) ->
  (exists fl, pool_ok (w_pool s') fl /\
      (forall i, In i fl -> exists r, nth_error (w_index s') i = Some (None, r)) /\
      (forall i, 2 <= i < length (pe (w_pool s')) -> ~ In i fl ->
                 exists tid r, nth_error (w_index s') i = Some (Some tid, r))) ->
  ((exists r0, nth_error (w_index s') 0 = Some (None, r0)) /\
   (exists r1, nth_error (w_index s') 1 = Some (None, r1)) /\
   nth_error (pe (w_pool s')) 0 = Some (0, max_u32) /\ nth_error (pe (w_pool s')) 1 = Some (1, max_u32)) ->
  length (pe (w_pool s')) < Nat.pow 2 31 ->
  St s'.
Proof.
  intros s s' (H & NR) (Ecfg & Ereg & Earch & Erela & Eci & Eac & Ech & Ece & Efi & _ & _ & _) TR
         Hil Hrows Hidx Hpool Hres Hsmall.
  assert (Hk : forall c, kind_of s' c = kind_of s c) by (intros c; unfold kind_of; rewrite Ereg; reflexivity).
  split.
  - constructor; auto.
    + apply Forall_nth_error. intros i x E. destruct (sb3_tabs_rel_inv _ _ _ _ TR E) as (t & _ & O & _). exact O.
    + intros tid t' E. destruct (sb3_tabs_rel_inv _ _ _ _ TR E) as (t & Et & _ & Fa & Fi & Fk & Ft & _).
      destruct (wf_layout _ H _ _ Et) as (a & Ea & L1 & L2 & L3). exists a.
      rewrite Earch, Fa, Fi, Fk, Ft. repeat split; auto.
      rewrite L2. apply map_ext. intros; symmetry; apply Hk.
    + intros aid a Ea. rewrite Earch in Ea. destruct (wf_arch_comps _ H _ _ Ea) as (A1 & A2 & A3 & A4 & A5).
      rewrite Ereg. repeat split; auto. rewrite A3. apply map_ext. intros; rewrite Hk; reflexivity.
    + rewrite Earch. apply (wf_arch_unique _ H).
    + intros aid a tid Ea Hin. rewrite Earch in Ea.
      destruct (wf_arch_tables _ H _ _ _ Ea Hin) as (t & Et & Fa).
      destruct (proj2 TR _ _ Et) as (t' & Et' & _ & Fa' & _). exists t'. split; auto. congruence.
    + rewrite Earch. apply (wf_arch_norel_table _ H).
    + destruct (wf_arch0 _ H) as (a0 & Ea0 & M0 & t0 & Et0 & Fa0). exists a0. rewrite Earch.
      repeat split; auto. destruct (proj2 TR _ _ Et0) as (t' & Et' & _ & Fa' & _). exists t'. split; auto. congruence.
    + rewrite Eci, Eac, Ereg, Ecfg. apply (wf_index_lists _ H).
    + rewrite Ece, Ech, Efi. apply (wf_cache _ H).
  - destruct NR as (N1 & N2 & N3 & N4). split; [|split; [|split]].
    + intros c. rewrite Hk. apply N1.
    + intros tid t' E. destruct (sb3_tabs_rel_inv _ _ _ _ TR E) as (t & Et & _ & _ & _ & _ & _ & Fr & Ff).
      rewrite Fr, Ff. apply (N2 _ _ Et).
    + rewrite Earch. exact N3.
    + rewrite Erela. exact N4.
Qed.

(** *** write *)
Lemma sb3_cell_of_cases : forall debug e c s,
  (exists er, cell_of debug e c s = Err er s) \/
  (exists tid ci row t, cell_of debug e c s = Ok (tid, ci, row) s /\ alive s e = true /\
     nth_error (w_index s) (fst e) = Some (Some tid, row) /\ nth_error (w_tables s) tid = Some t /\
     tbl_colidx t c = Some ci).
Proof.
  intros. unfold cell_of, get_index, getT, bind, get.
  destruct (alive s e) eqn:Ha; simpl; [|left; eauto].
  destruct (nth_error (w_index s) (fst e)) as [[[tid|] row]|] eqn:Ei; simpl; [|left; eauto|left; eauto].
  destruct (nth_error (w_tables s) tid) as [t|] eqn:Et; simpl; [|left; eauto].
  destruct (tbl_colidx t c) as [ci|] eqn:Ec; simpl; [|left; eauto].
  right. exists tid, ci, row, t. auto.
Qed.

Lemma sb3_write_cell_cases : forall tid ci row v s,
  (exists er, write_cell tid ci row v s = Err er s) \/
  (exists t k, nth_error (w_tables s) tid = Some t /\ nth_error (t_kinds t) ci = Some k /\
     write_cell tid ci row v s =
     Ok tt (if ck_zs k then s else s <| w_tables ::= updf tid (fun t => t <| t_cols ::= updf ci (upd row v) |>) |>)).
Proof.
  intros. unfold write_cell, getT, bind, get.
  destruct (nth_error (w_tables s) tid) as [t|] eqn:Et; simpl; [|left; eauto].
  destruct (nth_error (t_kinds t) ci) as [k|] eqn:Ek; simpl; [|left; eauto].
  right. exists t, k. repeat split; auto. destruct (ck_zs k); reflexivity.
Qed.

Lemma sb3_cell_write : forall t ci row v col, nth_error (t_cols t) ci = Some col -> row < length col ->
  forall ci' r', cell (t <| t_cols ::= updf ci (upd row v) |>) ci' r' =
                 if ((ci =? ci') && (row =? r'))%bool then v else cell t ci' r'.
Proof.
  intros t ci row v col Ec Hr ci' r'.
  assert (E : nth_error (t_cols (t <| t_cols ::= updf ci (upd row v) |>)) ci' =
              if ci =? ci' then option_map (upd row v) (nth_error (t_cols t) ci') else nth_error (t_cols t) ci').
  { cbn. apply nth_error_updf. }
  destruct (Nat.eqb_spec ci ci') as [<-|Hne]; simpl.
  - rewrite Ec in E. rewrite (cell_some _ _ _ _ E), (cell_some _ _ _ _ Ec). simpl option_map. cbv beta.
    rewrite nth_upd. apply Nat.ltb_lt in Hr. rewrite Hr, Bool.andb_true_r. reflexivity.
  - destruct (nth_error (t_cols t) ci') as [col'|] eqn:Ec'.
    + rewrite (cell_some _ _ _ _ E), (cell_some _ _ _ _ Ec'). reflexivity.
    + rewrite (cell_none _ _ _ E), (cell_none _ _ _ Ec'). reflexivity.
Qed.

Lemma sb3_write_post : forall s e c v tid row t ci, St s ->
  nth_error (w_index s) (fst e) = Some (Some tid, row) -> nth_error (w_tables s) tid = Some t ->
  row < t_len t -> row_ent t row = e -> tbl_colidx t c = Some ci -> ck_zs (kind_of s c) = false ->
  let s' := s <| w_tables ::= updf tid (fun t => t <| t_cols ::= updf ci (upd row v) |>) |> in
  St s' /\ live s' e = true /\
  (forall c', val s' e c' = if Nat.eqb c' c then Some v else val s e c') /\ others_same s s' e.
Proof.
  intros s e c v tid row t ci HSt Hi Ht Hr He Hc Hz s'.
  pose proof HSt as (H & NR).
  set (f := fun t : table => t <| t_cols ::= updf ci (upd row v) |>) in *.
  assert (Etab : forall j, nth_error (w_tables s') j =
                           if tid =? j then option_map f (nth_error (w_tables s) j) else nth_error (w_tables s) j).
  { intros j. subst s'. cbn. apply nth_error_updf. }
  assert (Hci : nth_error (t_ids t) ci = Some c) by (apply sb3_index_of_nth; exact Hc).
  assert (Hk : nth_error (t_kinds t) ci = Some (kind_of s c)).
  { destruct (wf_layout _ H _ _ Ht) as (a & _ & _ & L & _). rewrite L. apply map_nth_error. exact Hci. }
  pose proof (Forall_nth_error _ tbl_ok (w_tables s)) as HF. destruct HF as (HF & _).
  pose proof (HF (wf_tables _ H) _ _ Ht) as Ok_t.
  destruct (tbl_ok_elim _ Ok_t) as (O1 & O2 & O3 & O4 & O5).
  assert (Hcol : exists col, nth_error (t_cols t) ci = Some col /\ row < length col).
  { destruct (nth_error (t_cols t) ci) as [col|] eqn:Ecol.
    - exists col. split; auto. destruct (O5 _ _ Ecol) as (L & _). lia.
    - apply nth_error_None in Ecol. assert (ci < length (t_ids t)) by (apply nth_error_Some; congruence). lia. }
  destruct Hcol as (col & Ecol & Hrow).
  assert (Hcell : forall ci' r', cell (f t) ci' r' = if ((ci =? ci') && (row =? r'))%bool then v else cell t ci' r')
    by (exact (sb3_cell_write t ci row v col Ecol Hrow)).
  (* every table of s' is the image of the table of s at the same index: same rows *)
  assert (Hfwd : forall j t0, nth_error (w_tables s) j = Some t0 ->
            exists t0', nth_error (w_tables s') j = Some t0' /\ (t0' = t0 \/ (j = tid /\ t0 = t /\ t0' = f t)) ).
  { intros j t0 E. rewrite Etab. destruct (Nat.eqb_spec tid j) as [<-|Hne].
    - rewrite E. simpl. exists (f t0). split; auto. right. rewrite Ht in E. inversion E; subst. auto.
    - exists t0. auto. }
  assert (Hbwd : forall j t0', nth_error (w_tables s') j = Some t0' ->
            exists t0, nth_error (w_tables s) j = Some t0 /\ t_len t0' = t_len t0 /\ t_ents t0' = t_ents t0).
  { intros j t0' E. rewrite Etab in E. destruct (Nat.eqb_spec tid j) as [<-|Hne].
    - rewrite Ht in E. simpl in E. inversion E; subst. exists t. auto.
    - exists t0'. auto. }
  assert (HSt' : St s').
  { apply (sb3_St_intro s s' HSt).
    - subst s'. repeat split; reflexivity.
    - split.
      + subst s'. cbn. apply updf_length.
      + intros j t0 E. destruct (Hfwd _ _ E) as (t0' & E' & [->|(-> & -> & ->)]).
        * exists t0. split; [exact E'|]. split; [apply (HF (wf_tables _ H) _ _ E)|]. repeat split.
        * exists (f t). split; [exact E'|]. split; [apply (col_write_ok t ci row v _ Ok_t Hr Hk Hz)|]. repeat split.
    - exact (wf_index_len _ H).
    - intros j t0' r E Hlt. destruct (Hbwd _ _ E) as (t0 & E0 & L & En).
      unfold row_ent. rewrite En. rewrite L in Hlt. exact (wf_rows _ H _ _ _ E0 Hlt).
    - intros id j r E. destruct (wf_index _ H _ _ _ E) as (t0 & E0 & Hlt & Hf).
      destruct (Hfwd _ _ E0) as (t0' & E' & [->|(-> & -> & ->)]); eauto.
    - exact (wf_pool _ H).
    - exact (wf_reserved _ H).
    - exact (wf_small _ H). }
  assert (Hrow_e : sb3_row_of s e = Some (t, row)) by (unfold sb3_row_of; rewrite Hi, Ht; reflexivity).
  assert (Hrow_e' : sb3_row_of s' e = Some (f t, row)).
  { unfold sb3_row_of. change (w_index s') with (w_index s). rewrite Hi, Etab, Nat.eqb_refl, Ht. reflexivity. }
  split; [exact HSt'|]. split; [|split].
  - rewrite sb3_live_row, Hrow_e'. change (t_len (f t)) with (t_len t). change (row_ent (f t) row) with (row_ent t row).
    apply Nat.ltb_lt in Hr. rewrite Hr, He, sb3_ent_eqb_refl. reflexivity.
  - intros c'. rewrite !sb3_val_row, Hrow_e, Hrow_e'.
    change (t_len (f t)) with (t_len t). change (row_ent (f t) row) with (row_ent t row).
    change (tbl_colidx (f t) c') with (tbl_colidx t c').
    apply Nat.ltb_lt in Hr. rewrite Hr, He, sb3_ent_eqb_refl. simpl.
    destruct (Nat.eqb_spec c' c) as [->|Hne].
    + rewrite Hc, Hcell, !Nat.eqb_refl. reflexivity.
    + destruct (tbl_colidx t c') as [ci'|] eqn:Ec'; auto. rewrite Hcell.
      destruct (Nat.eqb_spec ci ci') as [<-|]; simpl; auto.
      apply sb3_index_of_nth in Ec'. congruence.
  - intros e' Hne. destruct (sb3_row_of s e') as [[t0 r0]|] eqn:E0.
    + destruct (sb3_row_of_wf _ _ _ _ H E0) as (j & Ei0 & Et0 & Hlt0 & Hf0).
      assert (E0' : exists t0', sb3_row_of s' e' = Some (t0', r0) /\ (t0' = t0 \/ (j = tid /\ t0 = t /\ t0' = f t))).
      { destruct (Hfwd _ _ Et0) as (t0' & E' & D). exists t0'. split; auto.
        unfold sb3_row_of. change (w_index s') with (w_index s). rewrite Ei0, E'. reflexivity. }
      destruct E0' as (t0' & E0' & [->|(-> & -> & ->)]).
      * split; [|intros c0]; rewrite ?sb3_live_row, ?sb3_val_row, E0, E0'; reflexivity.
      * destruct (Nat.eq_dec r0 row) as [->|Hr0].
        -- (* same row as e but a different handle: not live in either state *)
           assert (Hf : ent_eqb (row_ent t row) e' = false) by (apply sb3_ent_eqb_false; congruence).
           split; [|intros c0]; rewrite ?sb3_live_row, ?sb3_val_row, E0, E0';
             change (row_ent (f t) row) with (row_ent t row); rewrite Hf, !Bool.andb_false_r; reflexivity.
        -- apply (sb3_same_some s s' e' t r0 (f t) r0 E0 E0'); auto.
           intros ci0. rewrite Hcell. destruct (Nat.eqb_spec row r0); [congruence|].
           rewrite Bool.andb_false_r. reflexivity.
    + apply sb3_same_none; auto. unfold sb3_row_of in *. change (w_index s') with (w_index s).
      destruct (nth_error (w_index s) (fst e')) as [[[j|] r0]|]; auto.
      rewrite Etab. destruct (nth_error (w_tables s) j); [discriminate|].
      destruct (tid =? j); reflexivity.
Qed.

(** Writing through the pointer returned by Get (OWrite) *)
Lemma write_spec : forall s debug e c v, St s ->
  match (a <- cell_of debug e c ;; let '(tid, ci, row) := a in write_cell tid ci row v) s with
  | Ok _ s' =>
      St s' /\ live s e = true /\ val s e c <> None /\ live s' e = true /\
      (forall c', val s' e c' = if Nat.eqb c' c then (if ck_zs (kind_of s c) then val s e c else Some v) else val s e c') /\
      others_same s s' e /\ w_pool s' = w_pool s /\ side_same s s' /\ frame_user s s'
  | Err _ s' => s' = s
  end.
Proof.
  intros s debug e c v HSt. pose proof HSt as (H & NR).
  unfold bind at 1.
  destruct (sb3_cell_of_cases debug e c s) as [(er & E)|(tid & ci & row & t & E & Ha & Hi & Ht & Hc)];
    rewrite E; [reflexivity|]. cbv beta iota.
  destruct (sb3_write_cell_cases tid ci row v s) as [(er & E2)|(t2 & k & Ht2 & Hk & E2)];
    rewrite E2; [reflexivity|].
  rewrite Ht in Ht2. inversion Ht2; subst t2. clear Ht2.
  destruct (sb3_alive_index_live _ _ _ _ H Ha Hi) as (t3 & Ht3 & Hr & He).
  rewrite Ht in Ht3. inversion Ht3; subst t3. clear Ht3.
  assert (Hkk : k = kind_of s c).
  { destruct (wf_layout _ H _ _ Ht) as (a & _ & _ & L & _). rewrite L in Hk.
    rewrite (map_nth_error (kind_of s) _ _ (sb3_index_of_nth _ _ _ Hc)) in Hk. congruence. }
  subst k.
  assert (Hlive : live s e = true) by (eapply sb3_live_of_row; eauto).
  assert (Hval : val s e c <> None).
  { rewrite sb3_val_row. unfold sb3_row_of. rewrite Hi, Ht, He, sb3_ent_eqb_refl.
    apply Nat.ltb_lt in Hr. rewrite Hr, Hc. discriminate. }
  destruct (ck_zs (kind_of s c)) eqn:Hz.
  - split; [exact HSt|]. split; [exact Hlive|]. split; [exact Hval|]. split; [exact Hlive|].
    split; [intros c'; destruct (Nat.eqb_spec c' c); subst; reflexivity|].
    split; [intros e' _; auto|]. split; [reflexivity|].
    split; [repeat split|repeat split].
  - destruct (sb3_write_post s e c v tid row t ci HSt Hi Ht Hr He Hc Hz) as (P1 & P2 & P3 & P4).
    split; [exact P1|]. split; [exact Hlive|]. split; [exact Hval|]. split; [exact P2|].
    split; [exact P3|]. split; [exact P4|]. split; [reflexivity|].
    split; [repeat split|repeat split].
Qed.

(** *** remove entity *)
Lemma sb3_storage_same_refl : forall s, storage_same s s.
Proof. intros. repeat split. Qed.

Lemma sb3_storage_same_trans : forall s1 s2 s3, storage_same s1 s2 -> storage_same s2 s3 -> storage_same s1 s3.
Proof.
  intros s1 s2 s3 H1 H2. unfold storage_same in *.
  repeat match goal with H : _ /\ _ |- _ => destruct H end.
  repeat split; congruence.
Qed.

Definition sb3_pres {A} (m : MW A) : Prop := forall s, storage_same s (state_of (m s)).

Lemma sb3_pres_bind : forall A B (m : MW A) (k : A -> MW B),
  sb3_pres m -> (forall a, sb3_pres (k a)) -> sb3_pres (bind m k).
Proof.
  intros A B m k Hm Hk s. unfold bind. specialize (Hm s). destruct (m s) as [a s1|er s1]; simpl in *; auto.
  eapply sb3_storage_same_trans; [exact Hm|apply Hk].
Qed.

Lemma sb3_pres_ret : forall A (a : A), sb3_pres (ret a).
Proof. intros A a s. apply sb3_storage_same_refl. Qed.

Lemma sb3_pres_lockM : sb3_pres lockM.
Proof.
  intros s. unfold lockM, bind, get, put. destruct (lock_lock (w_lock s)) as [[b l']|]; simpl; repeat split.
Qed.

Lemma sb3_pres_unlockM : forall b, sb3_pres (unlockM b).
Proof.
  intros b s. unfold unlockM, bind, get, put. destruct (lock_unlock (w_lock s) b) as [l'|]; simpl; repeat split.
Qed.

Lemma sb3_pres_events : forall (b1 b2 : bool) e m,
  sb3_pres (whenM (b1 || b2)%bool (
    l <- lockM ;;
    (if b1 then (_ <- fire_remove_entity e m true ;; ret tt) else ret tt) ;;;
    (if b2 then (_ <- fire_remove_entity_rel e m true ;; ret tt) else ret tt) ;;;
    unlockM l)).
Proof.
  intros. unfold whenM. destruct (b1 || b2)%bool; [|apply sb3_pres_ret].
  apply sb3_pres_bind; [apply sb3_pres_lockM|]. intros l.
  apply sb3_pres_bind.
  { destruct b1; [|apply sb3_pres_ret]. apply sb3_pres_bind; [|intros; apply sb3_pres_ret].
    intros s. unfold fire_remove_entity. apply fire_storage. }
  intros _. apply sb3_pres_bind.
  { destruct b2; [|apply sb3_pres_ret]. apply sb3_pres_bind; [|intros; apply sb3_pres_ret].
    intros s. unfold fire_remove_entity_rel. apply fire_storage. }
  intros _. apply sb3_pres_unlockM.
Qed.

Lemma sb3_storage_same_content : forall s s', storage_same s s' -> content_same s s'.
Proof.
  intros s s' (_ & _ & _ & Ei & _ & _ & Et & _) e.
  assert (R : sb3_row_of s' e = sb3_row_of s e) by (unfold sb3_row_of; rewrite Ei, Et; reflexivity).
  split; [|intros c]; rewrite ?sb3_live_row, ?sb3_val_row, R; reflexivity.
Qed.

Lemma sb3_storage_same_frame : forall s s', storage_same s s' -> frame_user s s'.
Proof.
  intros s s' H. unfold storage_same in H. repeat match goal with H : _ /\ _ |- _ => destruct H end.
  repeat split; assumption.
Qed.

Lemma sb3_storage_same_rejected : forall s s', St s -> storage_same s s' -> rejected s s'.
Proof.
  intros s s' HSt H. split; [eapply storage_same_St; eauto|].
  split; [apply sb3_storage_same_content; auto|].
  split; [apply H|apply sb3_storage_same_frame; auto].
Qed.

Lemma sb3_valid_id_ge2 : forall s i j r, WF s -> nth_error (w_index s) i = Some (Some j, r) -> 2 <= i.
Proof.
  intros s i j r H E. destruct (wf_reserved _ H) as ((r0 & E0) & (r1 & E1) & _).
  destruct i as [|[|i]]; [rewrite E0 in E; discriminate|rewrite E1 in E; discriminate|lia].
Qed.

(** The state after the storage part of RemoveEntity, described field by field. *)
Lemma sb3_rm_post : forall s s' e tid row t sw t1, St s ->
  nth_error (w_index s) (fst e) = Some (Some tid, row) -> nth_error (w_tables s) tid = Some t ->
  row < t_len t -> row_ent t row = e ->
  tbl_remove t row = (sw, t1) ->
  sb3_struct_same s s' ->
  w_tables s' = updf tid (fun _ => t1) (w_tables s) ->
  pool_recycle (w_pool s) e = Some (w_pool s') ->
  w_index s' = updf (fst e) (fun ix => (None, snd ix))
                 (if sw then updf (fst (row_ent t1 row)) (fun ix => (fst ix, row)) (w_index s) else w_index s) ->
  length (w_istarget s') = length (w_istarget s) ->
  St s' /\ live s' e = false /\ alive s' e = false /\ (forall c, val s' e c = None) /\
  others_same s s' e /\ length (pe (w_pool s')) = length (pe (w_pool s)).
Proof.
  intros s s' e tid row t sw t1 HSt Hi Ht Hr He Hrm SS Etabs Epool Eidx Eist.
  pose proof HSt as (H & NR).
  pose proof (proj1 (Forall_nth_error _ tbl_ok (w_tables s)) (wf_tables _ H)) as HF.
  pose proof (HF _ _ Ht) as Ok_t.
  pose proof (tbl_remove_spec t row Ok_t Hr) as SP. rewrite Hrm in SP.
  destruct SP as (Esw & EL & Sc0 & Se0 & Sc & Se & Fids & Fk & Fa & Fr & Ft & Ff & Fcap).
  pose proof (tbl_remove_ok t row Ok_t Hr) as Ok_t1. rewrite Hrm in Ok_t1. simpl in Ok_t1.
  set (L := t_len t) in *. set (le := row_ent t (L - 1)) in *.
  assert (Hlast : L - 1 < L) by lia.
  destruct (wf_rows _ H _ _ _ Ht Hlast) as (Lle & Ple). fold le in Lle, Ple.
  destruct (wf_rows _ H _ _ _ Ht Hr) as (Le_ & Pe). rewrite He in Le_, Pe.
  assert (Ile : nth_error (w_index s) (fst le) = Some (Some tid, L - 1)).
  { unfold loc in Lle. destruct (nth_error (w_index s) (fst le)) as [[[j|] r]|]; inversion Lle; subst; reflexivity. }
  assert (Hsw : sw = true -> row < L - 1 /\ row_ent t1 row = le /\ fst le <> fst e).
  { intros ->. symmetry in Esw. apply Bool.negb_true_iff in Esw. apply Nat.eqb_neq in Esw.
    assert (row < L - 1) by lia. split; auto. split; [apply Se0; lia|].
    intro Hf. rewrite Hf, Hi in Ile. inversion Ile. lia. }
  assert (Hnsw : sw = false -> row = L - 1).
  { intros ->. symmetry in Esw. apply Bool.negb_false_iff in Esw. apply Nat.eqb_eq in Esw. exact Esw. }
  (* the new index *)
  assert (Ie : nth_error (w_index s') (fst e) = Some (None, row)).
  { rewrite Eidx, nth_error_updf, Nat.eqb_refl. destruct sw.
    - destruct (Hsw eq_refl) as (_ & -> & Hne). rewrite nth_error_updf.
      destruct (Nat.eqb_spec (fst le) (fst e)); [contradiction|]. rewrite Hi. reflexivity.
    - rewrite Hi. reflexivity. }
  assert (Ile' : sw = true -> nth_error (w_index s') (fst le) = Some (Some tid, row)).
  { intros ->. destruct (Hsw eq_refl) as (_ & Er & Hne). rewrite Eidx, nth_error_updf.
    destruct (Nat.eqb_spec (fst e) (fst le)); [congruence|].
    rewrite Er, nth_error_updf, Nat.eqb_refl, Ile. reflexivity. }
  assert (Io : forall i, i <> fst e -> (sw = true -> i <> fst le) ->
                         nth_error (w_index s') i = nth_error (w_index s) i).
  { intros i N1 N2. rewrite Eidx, nth_error_updf. destruct (Nat.eqb_spec (fst e) i); [congruence|].
    destruct sw; auto. destruct (Hsw eq_refl) as (_ & -> & _). rewrite nth_error_updf.
    destruct (Nat.eqb_spec (fst le) i); auto. exfalso. apply N2; auto. }
  assert (Ilen : length (w_index s') = length (w_index s)).
  { rewrite Eidx, updf_length. destruct sw; auto. apply updf_length. }
  assert (Hcase : forall i, i = fst e \/ (sw = true /\ i = fst le) \/ (i <> fst e /\ (sw = true -> i <> fst le))).
  { intros i. destruct (Nat.eq_dec i (fst e)); auto. destruct sw; [|right; right; split; auto; discriminate].
    destruct (Nat.eq_dec i (fst le)); auto. }
  (* the new tables *)
  assert (Etab : forall j, nth_error (w_tables s') j = if tid =? j then Some t1 else nth_error (w_tables s) j).
  { intros j. rewrite Etabs, nth_error_updf. destruct (Nat.eqb_spec tid j); auto. subst. rewrite Ht. reflexivity. }
  (* the new pool *)
  destruct (wf_pool _ H) as (fl & PO & F1 & F2).
  assert (Hge : 2 <= fst e) by (eapply sb3_valid_id_ge2; eauto).
  assert (Hgle : 2 <= fst le) by (eapply sb3_valid_id_ge2; eauto).
  assert (Hnin : ~ In (fst e) fl).
  { intros Hin. destruct (F1 _ Hin) as (r & Er). rewrite Hi in Er. discriminate. }
  destruct (pool_recycle_spec _ _ _ PO Hge Pe Hnin) as (p' & Ep' & PO' & PL & Pother & (l & Pslot)).
  rewrite Epool in Ep'. inversion Ep'; subst p'. clear Ep'.
  (* distinct rows, distinct ids *)
  assert (Hinj_e : forall j t0 r, nth_error (w_tables s) j = Some t0 -> r < t_len t0 ->
                                  (j = tid -> r <> row) -> fst (row_ent t0 r) <> fst e).
  { intros j t0 r E Hlt Hd Hf. rewrite <- He in Hf.
    destruct (sb3_rows_inj s j t0 r tid t row H E Hlt Ht Hr Hf) as (A & B). exact (Hd A B). }
  assert (Hinj_le : forall j t0 r, nth_error (w_tables s) j = Some t0 -> r < t_len t0 ->
                                   (j = tid -> r <> L - 1) -> fst (row_ent t0 r) <> fst le).
  { intros j t0 r E Hlt Hd Hf.
    destruct (sb3_rows_inj s j t0 r tid t (L - 1) H E Hlt Ht Hlast Hf) as (A & B). exact (Hd A B). }
  assert (Hnot_last : forall r, r < L -> r <> row -> (sw = true -> fst (row_ent t r) <> fst le) -> r < L - 1).
  { intros r Hlt Hne Hf. destruct sw.
    - destruct (Nat.eq_dec r (L - 1)) as [->|]; [exfalso; apply Hf; reflexivity|lia].
    - specialize (Hnsw eq_refl). lia. }
  assert (HSt' : St s').
  { apply (sb3_St_intro s s' HSt SS).
    - split; [rewrite Etabs; apply updf_length|].
      intros j t0 E. rewrite Etab. destruct (Nat.eqb_spec tid j) as [<-|Hne].
      + rewrite Ht in E. inversion E; subst t0. exists t1. split; [reflexivity|]. split; [exact Ok_t1|].
        repeat split; assumption.
      + exists t0. split; [exact E|]. split; [apply (HF _ _ E)|]. repeat split.
    - destruct (wf_index_len _ H) as (A & B). split; [rewrite Ilen, PL; exact A|rewrite Eist, Ilen; exact B].
    - intros j t0 r E Hlt. rewrite Etab in E. destruct (Nat.eqb_spec tid j) as [<-|Hne].
      + inversion E; subst t0. rewrite EL in Hlt. destruct (Nat.eq_dec r row) as [->|Hrr].
        * assert (Hs : sw = true) by (destruct sw; auto; specialize (Hnsw eq_refl); lia).
          destruct (Hsw Hs) as (_ & Er & Hne). rewrite Er. split.
          -- unfold loc. rewrite (Ile' Hs). reflexivity.
          -- rewrite Pother by auto. exact Ple.
        * rewrite (Se r) by lia. assert (Hlt' : r < L) by lia.
          destruct (wf_rows _ H _ _ _ Ht Hlt') as (Lx & Px).
          pose proof (Hinj_e _ _ _ Ht Hlt' (fun _ => Hrr)) as N1.
          assert (N2 : fst (row_ent t r) <> fst le) by (apply (Hinj_le _ _ _ Ht Hlt'); lia).
          split; [|rewrite Pother by auto; exact Px].
          unfold loc in *. rewrite Io by auto. exact Lx.
      + destruct (wf_rows _ H _ _ _ E Hlt) as (Lx & Px).
        assert (N1 : fst (row_ent t0 r) <> fst e) by (apply (Hinj_e _ _ _ E Hlt); congruence).
        assert (N2 : fst (row_ent t0 r) <> fst le) by (apply (Hinj_le _ _ _ E Hlt); congruence).
        split; [|rewrite Pother by auto; exact Px].
        unfold loc in *. rewrite Io by auto. exact Lx.
    - intros id j r E. destruct (Hcase id) as [->|[(Hs & ->)|(N1 & N2)]].
      + rewrite Ie in E. discriminate.
      + rewrite (Ile' Hs) in E. inversion E; subst j r. destruct (Hsw Hs) as (Hlt & Er & _).
        exists t1. rewrite Etab, Nat.eqb_refl, EL, Er. auto.
      + rewrite Io in E by auto. destruct (wf_index _ H _ _ _ E) as (t0 & E0 & Hlt & Hf).
        destruct (Nat.eq_dec j tid) as [->|Hne].
        * rewrite Ht in E0. inversion E0; subst t0.
          assert (Hrr : r <> row) by (intros ->; apply N1; rewrite <- Hf, He; reflexivity).
          assert (Hlt' : r < L - 1) by (apply Hnot_last; auto; intros Hs; rewrite Hf; auto).
          exists t1. rewrite Etab, Nat.eqb_refl, EL, (Se r) by lia. auto.
        * exists t0. rewrite Etab. destruct (Nat.eqb_spec tid j); [congruence|]. auto.
    - exists (fst e :: fl). split; [exact PO'|]. split.
      + intros i [<-|Hin]; [exists row; exact Ie|]. destruct (F1 _ Hin) as (r & Er).
        destruct (Hcase i) as [->|[(Hs & ->)|(N1 & N2)]].
        * exists row. exact Ie.
        * rewrite Ile in Er. discriminate.
        * exists r. rewrite Io by auto. exact Er.
      + intros i Hi2 Hn. rewrite PL in Hi2.
        assert (N1 : i <> fst e) by (intros ->; apply Hn; left; reflexivity).
        assert (Hn' : ~ In i fl) by (intros Hin; apply Hn; right; exact Hin).
        destruct (F2 i Hi2 Hn') as (j & r & Er).
        destruct (Hcase i) as [->|[(Hs & ->)|(_ & N2)]]; [congruence| |].
        * exists tid, row. apply Ile'; auto.
        * exists j, r. rewrite Io by auto. exact Er.
    - destruct (wf_reserved _ H) as ((r0 & E0) & (r1 & E1) & P0 & P1).
      split; [exists r0; rewrite Io by lia; exact E0|].
      split; [exists r1; rewrite Io by lia; exact E1|].
      split; [rewrite Pother by lia; exact P0|rewrite Pother by lia; exact P1].
    - rewrite PL. exact (wf_small _ H). }
  assert (Rn : sb3_row_of s' e = None) by (unfold sb3_row_of; rewrite Ie; reflexivity).
  split; [exact HSt'|]. split; [rewrite sb3_live_row, Rn; reflexivity|].
  split.
  { unfold alive, pool_alive. rewrite Pslot. apply N.eqb_neq. apply sb3_gen_bump. }
  split; [intros c; rewrite sb3_val_row, Rn; reflexivity|].
  split; [|exact PL].
  intros e' Hne'. destruct (Hcase (fst e')) as [Hf|[(Hs & Hf)|(N1 & N2)]].
  - (* a stale handle of the same ID *)
    assert (R' : sb3_row_of s' e' = None) by (unfold sb3_row_of; rewrite Hf, Ie; reflexivity).
    assert (R : sb3_row_of s e' = Some (t, row)) by (unfold sb3_row_of; rewrite Hf, Hi, Ht; reflexivity).
    assert (Hb : ent_eqb (row_ent t row) e' = false) by (apply sb3_ent_eqb_false; congruence).
    split; [|intros c]; rewrite ?sb3_live_row, ?sb3_val_row, R, R', Hb, Bool.andb_false_r; reflexivity.
  - (* the entity swapped into the vacated row *)
    destruct (Hsw Hs) as (Hlt & Er & _).
    assert (R' : sb3_row_of s' e' = Some (t1, row)).
    { unfold sb3_row_of. rewrite Hf, (Ile' Hs), Etab, Nat.eqb_refl. reflexivity. }
    assert (R : sb3_row_of s e' = Some (t, L - 1)) by (unfold sb3_row_of; rewrite Hf, Ile, Ht; reflexivity).
    apply (sb3_same_some s s' e' t (L - 1) t1 row R R'); auto; try lia.
    intros ci. apply Sc0. lia.
  - destruct (sb3_row_of s e') as [[t0 r0]|] eqn:R.
    + destruct (sb3_row_of_wf _ _ _ _ H R) as (j & Ei0 & Et0 & Hlt0 & Hf0).
      destruct (Nat.eq_dec j tid) as [->|Hnj].
      * rewrite Ht in Et0. inversion Et0; subst t0.
        assert (Hrr : r0 <> row) by (intros ->; apply N1; rewrite <- Hf0, He; reflexivity).
        assert (Hlt' : r0 < L - 1) by (apply Hnot_last; auto; intros Hs; rewrite Hf0; auto).
        assert (R' : sb3_row_of s' e' = Some (t1, r0)).
        { unfold sb3_row_of. rewrite Io, Ei0, Etab, Nat.eqb_refl by auto. reflexivity. }
        apply (sb3_same_some s s' e' t r0 t1 r0 R R'); auto; try lia.
        -- apply Se; lia.
        -- intros ci. apply Sc; lia.
      * assert (R' : sb3_row_of s' e' = Some (t0, r0)).
        { unfold sb3_row_of. rewrite Io, Ei0, Etab by auto.
          destruct (Nat.eqb_spec tid j); [congruence|]. rewrite Et0. reflexivity. }
        split; [|intros c]; rewrite ?sb3_live_row, ?sb3_val_row, R, R'; reflexivity.
    + apply sb3_same_none; auto. unfold sb3_row_of in *. rewrite Io by auto.
      destruct (nth_error (w_index s) (fst e')) as [[[j|] r0]|]; auto.
      rewrite Etab. destruct (Nat.eqb_spec tid j) as [<-|]; [rewrite Ht in R; discriminate|].
      destruct (nth_error (w_tables s) j); [discriminate|reflexivity].
Qed.

(** The part of [storage_remove_entity] after the callbacks. *)
Definition sb3_rm_core (e : ent) (tid row : nat) : MW unit :=
  t <- getT tid ;;
  let '(swapped, t') := tbl_remove t row in
  setT tid t' ;;;
  pool_recycleM e ;;;
  whenM swapped (
    match nth_error (t_ents t') row with
    | Some se => modify (fun s => s <| w_index ::= updf (fst se) (fun ix => (fst ix, row)) |>)
    | None => fail EIndex
    end) ;;;
  modify (fun s => s <| w_index ::= updf (fst e) (fun ix => (None, snd ix)) |>) ;;;
  s <- get ;;
  whenM (nth (fst e) (w_istarget s) false) (
    cleanup_archetypes e ;;;
    modify (fun s => s <| w_istarget ::= upd (fst e) false |>)).

Lemma sb3_rm_core_spec : forall s e tid row, St s -> alive s e = true ->
  nth_error (w_index s) (fst e) = Some (Some tid, row) ->
  exists s', sb3_rm_core e tid row s = Ok tt s' /\
    St s' /\ live s e = true /\ live s' e = false /\ alive s' e = false /\
    (forall c, val s' e c = None) /\ others_same s s' e /\ frame_user s s' /\
    length (pe (w_pool s')) = length (pe (w_pool s)).
Proof.
  intros s e tid row HSt Ha Hi. pose proof HSt as (H & NR).
  destruct (sb3_alive_index_live _ _ _ _ H Ha Hi) as (t & Ht & Hr & He).
  pose proof (proj1 (Forall_nth_error _ tbl_ok (w_tables s)) (wf_tables _ H) _ _ Ht) as Ok_t.
  assert (Hlive : live s e = true) by (eapply sb3_live_of_row; eauto).
  assert (Hp : exists p', pool_recycle (w_pool s) e = Some p').
  { destruct (wf_pool _ H) as (fl & PO & F1 & F2).
    assert (Hge : 2 <= fst e) by (eapply sb3_valid_id_ge2; eauto).
    assert (Hnin : ~ In (fst e) fl).
    { intros Hin. destruct (F1 _ Hin) as (r & Er). rewrite Hi in Er. discriminate. }
    destruct (wf_rows _ H _ _ _ Ht Hr) as (_ & Pe). rewrite He in Pe.
    destruct (pool_recycle_spec _ _ _ PO Hge Pe Hnin) as (p' & Ep' & _). eauto. }
  destruct Hp as (p' & Ep).
  destruct (tbl_remove t row) as [sw t1] eqn:Hrm.
  assert (Hse : sw = true -> nth_error (t_ents t1) row = Some (row_ent t1 row)).
  { intros ->. pose proof (tbl_remove_spec t row Ok_t Hr) as SP. rewrite Hrm in SP.
    destruct SP as (Esw & EL & _).
    pose proof (tbl_remove_ok t row Ok_t Hr) as Ok_t1. rewrite Hrm in Ok_t1. simpl in Ok_t1.
    destruct (tbl_ok_elim _ Ok_t1) as (O1 & O2 & _).
    symmetry in Esw. apply Bool.negb_true_iff in Esw. apply Nat.eqb_neq in Esw.
    unfold row_ent. apply nth_error_nth'. lia. }
  destruct NR as (N1 & N2 & N3 & N4).
  unfold sb3_rm_core.
  cbv [bind get put modify setT modT getT pool_recycleM whenM ret of_opt].
  rewrite Ht, Hrm. cbn. rewrite Ep. cbn.
  destruct sw.
  - rewrite (Hse eq_refl). cbn.
    destruct (nth (fst e) (w_istarget s) false); cbn; rewrite ?N4; cbn; eexists; (split; [reflexivity|]);
    match goal with |- St ?s' /\ _ =>
      destruct (sb3_rm_post s s' e tid row t _ t1 HSt Hi Ht Hr He Hrm) as (P1 & P2 & P3 & P4 & P5 & P6);
        [repeat split; reflexivity|reflexivity|exact Ep|reflexivity|cbn; rewrite ?upd_length; reflexivity|]
    end; (repeat (split; [assumption|])); (split; [repeat split; reflexivity|assumption]).
  - cbn.
    destruct (nth (fst e) (w_istarget s) false); cbn; rewrite ?N4; cbn; eexists; (split; [reflexivity|]);
    match goal with |- St ?s' /\ _ =>
      destruct (sb3_rm_post s s' e tid row t _ t1 HSt Hi Ht Hr He Hrm) as (P1 & P2 & P3 & P4 & P5 & P6);
        [repeat split; reflexivity|reflexivity|exact Ep|reflexivity|cbn; rewrite ?upd_length; reflexivity|]
    end; (repeat (split; [assumption|])); (split; [repeat split; reflexivity|assumption]).
Qed.




Lemma sb3_rm_unfold : forall e s,
  storage_remove_entity e s =
  if alive s e then
    match nth_error (w_index s) (fst e) with
    | Some (Some tid, row) =>
        match nth_error (w_tables s) tid with
        | Some t =>
            match nth_error (w_archs s) (t_arch t) with
            | Some a =>
                bind (whenM (has_obs s EvRemoveEntity || (tbl_has_rels t && has_obs s EvRemoveRelations))%bool (
                        l <- lockM ;;
                        (if has_obs s EvRemoveEntity
                         then (_ <- fire_remove_entity e (a_mask a) true ;; ret tt) else ret tt) ;;;
                        (if (tbl_has_rels t && has_obs s EvRemoveRelations)%bool
                         then (_ <- fire_remove_entity_rel e (a_mask a) true ;; ret tt) else ret tt) ;;;
                        unlockM l))
                     (fun _ => sb3_rm_core e tid row) s
            | None => Err EIndex s
            end
        | None => Err EIndex s
        end
    | _ => Err EIndex s
    end
  else Err EDead s.
Proof.
  intros. unfold storage_remove_entity, get_index, arch_mask_of_table, getT, getA, guard, of_opt, bind, get, ret, fail.
  destruct (alive s e); [|reflexivity]. cbv beta iota.
  destruct (nth_error (w_index s) (fst e)) as [[[tid|] row]|]; try reflexivity. cbv beta iota.
  destruct (nth_error (w_tables s) tid) as [t|] eqn:Et; try reflexivity. cbv beta iota.
  rewrite Et. cbv beta iota.
  destruct (nth_error (w_archs s) (t_arch t)); reflexivity.
Qed.

Lemma sb3_bind_pres_case : forall A B (m : MW A) (k : A -> MW B) s, sb3_pres m ->
  (exists a s1, storage_same s s1 /\ bind m k s = k a s1) \/
  (exists er s1, storage_same s s1 /\ bind m k s = Err er s1).
Proof.
  intros A B m k s Hm. specialize (Hm s). unfold bind. destruct (m s) as [a s1|er s1]; simpl in Hm.
  - left. exists a, s1. auto.
  - right. exists er, s1. auto.
Qed.

(** RemoveEntity: the handle is dead afterwards (and stays distinguishable: its slot's generation
    is bumped), nobody else changes. *)
Lemma remove_entity_spec : forall s e, St s ->
  match storage_remove_entity e s with
  | Ok _ s' =>
      St s' /\ live s e = true /\ live s' e = false /\ alive s' e = false /\
      (forall c, val s' e c = None) /\ others_same s s' e /\ frame_user s s' /\
      length (pe (w_pool s')) = length (pe (w_pool s))
  | Err _ s' => rejected s s'
  end.
Proof.
  intros s e HSt. pose proof HSt as (H & NR).
  assert (Rj : rejected s s) by (apply sb3_storage_same_rejected; auto; apply sb3_storage_same_refl).
  rewrite sb3_rm_unfold.
  destruct (alive s e) eqn:Ha; [|exact Rj].
  destruct (nth_error (w_index s) (fst e)) as [[[tid|] row]|] eqn:Hi; try exact Rj.
  destruct (sb3_alive_index_live _ _ _ _ H Ha Hi) as (t & Ht & Hr & He). rewrite Ht.
  destruct (wf_layout _ H _ _ Ht) as (a & Ea & _). rewrite Ea.
  match goal with |- match bind ?m ?k s with _ => _ end =>
    destruct (sb3_bind_pres_case _ _ m k s (sb3_pres_events _ _ _ _)) as [(u & s1 & SS & E)|(er & s1 & SS & E)];
      rewrite E; clear E
  end.
  2:{ apply sb3_storage_same_rejected; auto. }
  assert (HSt1 : St s1) by (eapply storage_same_St; eauto).
  pose proof (sb3_storage_same_content _ _ SS) as CS.
  pose proof (sb3_storage_same_frame _ _ SS) as FU.
  destruct SS as (_ & _ & Epool & Eidx & _).
  assert (Ha1 : alive s1 e = true) by (unfold alive; rewrite Epool; exact Ha).
  assert (Hi1 : nth_error (w_index s1) (fst e) = Some (Some tid, row)) by (rewrite Eidx; exact Hi).
  destruct (sb3_rm_core_spec s1 e tid row HSt1 Ha1 Hi1) as (s' & E & P1 & P2 & P3 & P4 & P5 & P6 & P7 & P8).
  rewrite E.
  split; [exact P1|]. split; [rewrite <- (proj1 (CS e)); exact P2|]. split; [exact P3|].
  split; [exact P4|]. split; [exact P5|]. split; [|split].
  - intros e' Hne. destruct (P6 e' Hne) as (Q1 & Q2). destruct (CS e') as (C1 & C2).
    split; [congruence|]. intros c. rewrite Q2. apply C2.
  - unfold frame_user in *. repeat match goal with H : _ /\ _ |- _ => destruct H end.
    repeat split; congruence.
  - rewrite P8, Epool. reflexivity.
Qed.


(** Stale handles are rejected before anything happens (C10): a handle that is not alive makes
    every checked single-entity operation fail with the state exactly unchanged. *)
