(** * ObsDoc: the per-observer predicates of the model, read as the documented conditions on
    component sets (docs/content/events, Observer.For / With / Without / Exclusive). *)
From Ark Require Import Model.Base Model.Mask Model.Pool Model.World Proofs.MaskProofs.

Definition subset (a b : mask) : Prop := forall j, mk_get a j = true -> mk_get b j = true.
Definition disjoint (a b : mask) : Prop := forall j, ~ (mk_get a j = true /\ mk_get b j = true).

Lemma contains_subset a b : mk_contains a b = true <-> subset b a.
Proof. apply mk_contains_spec. Qed.

Lemma contains_any_disjoint a b : mk_contains_any a b = false <-> disjoint a b.
Proof.
  split.
  - intros H j [Ha Hb]. assert (mk_contains_any a b = true) by (apply mk_contains_any_spec; exists j; split; assumption). congruence.
  - intros H. destruct (mk_contains_any a b) eqn:E; [|reflexivity].
    apply mk_contains_any_spec in E. destruct E as [j [Ha Hb]]. exfalso. apply (H j). split; assumption.
Qed.

(** with / without / exclusive against the mask [m] *)
Definition doc_with (m : mask) (o : oobj) : Prop :=
  (o_haswith o = true -> subset (o_with o) m) /\ (o_haswithout o = true -> disjoint m (o_without o)).

Lemma p_with_doc m o : p_with m o = true <-> doc_with m o.
Proof.
  unfold p_with, doc_with. rewrite Bool.andb_true_iff, !Bool.negb_true_iff, !Bool.andb_false_iff, !Bool.negb_false_iff.
  rewrite contains_subset, contains_any_disjoint.
  split; intros [H1 H2]; split.
  - intros Hw. destruct H1 as [H1|H1]; [congruence | exact H1].
  - intros Hw. destruct H2 as [H2|H2]; [congruence | exact H2].
  - destruct (o_haswith o); [right; apply H1; reflexivity | left; reflexivity].
  - destruct (o_haswithout o); [right; apply H2; reflexivity | left; reflexivity].
Qed.

(** add events: all observed components are new (in [new], none in [old]); with/without on [old] *)
Theorem p_add_doc old new o :
  p_add old new o = true <->
  (o_hascomps o = true -> subset (o_comps o) new /\ disjoint old (o_comps o)) /\ doc_with old o.
Proof.
  unfold p_add. rewrite Bool.andb_true_iff, p_with_doc, Bool.negb_true_iff, Bool.andb_false_iff, Bool.orb_false_iff,
    Bool.negb_false_iff, contains_subset, contains_any_disjoint.
  split; intros [H1 H2]; split; try exact H2.
  - intros Hc. destruct H1 as [H1|H1]; [congruence | exact H1].
  - destruct (o_hascomps o); [right; apply H1; reflexivity | left; reflexivity].
Qed.

(** remove events: all observed components are removed together (in [old], none in [new]) *)
Theorem p_remove_doc old new o :
  p_remove old new o = true <->
  (o_hascomps o = true -> subset (o_comps o) old /\ disjoint new (o_comps o)) /\ doc_with old o.
Proof.
  unfold p_remove. rewrite Bool.andb_true_iff, p_with_doc, Bool.negb_true_iff, Bool.andb_false_iff, Bool.orb_false_iff,
    Bool.negb_false_iff, contains_subset, contains_any_disjoint.
  split; intros [H1 H2]; split; try exact H2.
  - intros Hc. destruct H1 as [H1|H1]; [congruence | exact H1].
  - destruct (o_hascomps o); [right; apply H1; reflexivity | left; reflexivity].
Qed.

(** set / relation change / custom events: observed components among the changed ones; with/without on the entity mask *)
Theorem p_set_doc cm em o :
  p_set cm em o = true <-> (o_hascomps o = true -> subset (o_comps o) cm) /\ doc_with em o.
Proof.
  unfold p_set. rewrite Bool.andb_true_iff, p_with_doc, Bool.negb_true_iff, Bool.andb_false_iff,
    Bool.negb_false_iff, contains_subset.
  split; intros [H1 H2]; split; try exact H2.
  - intros Hc. destruct H1 as [H1|H1]; [congruence | exact H1].
  - destruct (o_hascomps o); [right; apply H1; reflexivity | left; reflexivity].
Qed.

(** entity creation / removal with relations *)
Theorem p_entity_rel_doc m o :
  p_entity_rel m o = true <-> (o_hascomps o = true -> subset (o_comps o) m) /\ doc_with m o.
Proof.
  unfold p_entity_rel. rewrite Bool.andb_true_iff, p_with_doc, Bool.negb_true_iff, Bool.andb_false_iff,
    Bool.negb_false_iff, contains_subset.
  split; intros [H1 H2]; split; try exact H2.
  - intros Hc. destruct H1 as [H1|H1]; [congruence | exact H1].
  - destruct (o_hascomps o); [right; apply H1; reflexivity | left; reflexivity].
Qed.
