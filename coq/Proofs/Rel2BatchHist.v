(** * Rel2BatchHist: the batch operations in the history class of the relation tier (package B, item 5).

    [Inv2 s n = St2 s /\ r2d_KeysLive s /\ r2e_quiet s /\ issued_ok s n] (Rel2Hist.v) is the invariant of the histories of
    single-entity operations ([step_inv2]). Here: one step of a BATCH operation of the operation language
    (ONewEntities, ONewBatch, ORemoveEntities, OExchangeBatch, OSetRelBatch; [r2h_batch_op]) with ARBITRARY arguments
    (stale / unknown handles, arbitrary relation lists, values, filter indices).

    - [step_inv2B_storage]: every such step keeps [St2 /\ r2d_KeysLive /\ r2e_noobs /\ issued_ok] in BOTH outcomes, keeps the
      registry, and issues only handles of entities that were not stored before and are stored now (the entities reported
      by the batch callbacks of ONewEntities / ONewBatch);
    - the step also leaves the world unlocked ([step_inv2B]: the full [Inv2] is kept), EXCEPT in two failure cases in
      which the model (like the Go code, which has no deferred unlock there) leaves the lock bit taken:
      (a) ORemoveEntities WITH a callback whose table selection panics ([r2h_leak_remove]; only possible if a registered
          filter has lost its cache entry or a matching relation-free archetype has no table, which no history of the covered
          class produces), (b) ONewBatch WITH a callback that panics because [vals] names a component outside [ids]
          ([r2h_leak_newbatch]). [step_inv2B] therefore carries the hypothesis [r2h_noleak]; the two refutations of the
          unconditional statement are the closed examples [step_inv2B_remove_refuted] and [step_inv2B_newbatch_refuted].
    The index of [issued_ok] advances by [S (number of created entities)].
    Helper prefix [r2h_]. *)
From Ark Require Import Model.Base Model.Mask Model.Pool Model.Util Model.World Model.Run.
From Ark Require Import Proofs.TableProofs Proofs.MaskProofs Proofs.Hoare Proofs.WF Proofs.StorageA Proofs.StorageBDefs
  Proofs.StorageB_sb1 Proofs.StorageB_sb2 Proofs.StorageB_sb3 Proofs.LockWorld Proofs.StorageC Proofs.ViewProofs Proofs.RelProofs
  Proofs.CacheProofs Proofs.BatchProofs Proofs.BatchOps
  Proofs.Rel2Defs Proofs.Rel2Struct Proofs.Rel2Remove Proofs.Rel2SetRel Proofs.Rel2Ops Proofs.Rel2Maint Proofs.Rel2Hist Proofs.Rel2Cache
  Proofs.Rel2BatchClean Proofs.Rel2BatchRows Proofs.Rel2Batch Proofs.Rel2BatchExchange Proofs.Rel2BatchNew Proofs.Rel2BatchSetRel.
From Ark Require Properties.Common Proofs.Rel2Check.
From RecordUpdate Require Import RecordSet.
Import RecordSetNotations.
From Coq Require Import Lia.
Close Scope Z_scope.

(* ================================================================================================ *)
(** * Part 1: the accounting of issued handles across a batch step *)

(** what a batch step may do to the pool: a slot keeps its generation or moves to the next one (recycled once),
    new slots start at generation 0, at most [m] slots are added *)
Definition r2h_pool_step (m : nat) (p p' : pool) : Prop :=
  (forall i l g, nth_error (pe p) i = Some (l, g) ->
     exists l' g', nth_error (pe p') i = Some (l', g') /\ (g' = g \/ g' = N.modulo (g + 1) 4294967296)) /\
  sc_new_zero p p' /\ length (pe p') <= length (pe p) + m.

Lemma r2h_pool_step_refl : forall p, r2h_pool_step 0 p p.
Proof.
  intros p. split; [|split].
  - intros i l g H. exists l, g. split; [exact H|left; reflexivity].
  - intros i l g H1 H2. apply sa_nth_error_lt in H2. sc_lia.
  - sc_lia.
Qed.

Lemma r2h_pool_step_eq : forall p p', p' = p -> r2h_pool_step 0 p p'.
Proof. intros p p' ->. apply r2h_pool_step_refl. Qed.

Lemma r2h_issued_step : forall s s' n m, issued_ok s n -> n + m + 4 < Nat.pow 2 31 ->
  r2h_pool_step m (w_pool s) (w_pool s') -> w_issued s' = w_issued s ->
  (forall x, In x (w_issued s) -> live s x = true ->
     live s' x = true \/ exists l g, nth_error (pe (w_pool s')) (fst x) = Some (l, g) /\ (snd x < g)%N) ->
  issued_ok s' (n + S m).
Proof.
  intros s s' n m (I1 & I2 & I3) Hn (P1 & P2 & P3) Ei HL.
  pose proof (sc_pow_bound n ltac:(lia)) as Hb.
  split; [|split].
  - intros x Hx. rewrite Ei in Hx. destruct (I1 x Hx) as (R & D).
    assert (Hslot : exists l g, nth_error (pe (w_pool s)) (fst x) = Some (l, g)).
    { destruct (nth_error (pe (w_pool s)) (fst x)) as [[l g]|] eqn:E; [exists l, g; reflexivity|]. apply nth_error_None in E. sc_lia. }
    destruct Hslot as (l0 & g0 & E0). destruct (P1 _ _ _ E0) as (l' & g' & E' & Hg').
    split; [split; [sc_lia|apply sa_nth_error_lt in E'; exact E']|].
    destruct D as [D|(l & g & E & Hg)]; [apply (HL x Hx D)|].
    right. rewrite E0 in E. injection E as -> ->. exists l', g'. split; [exact E'|].
    assert (Hg0 : (g <= N.of_nat n)%N) by (apply (I2 _ _ _ E0); sc_lia).
    destruct Hg' as [->| ->]; [exact Hg|]. rewrite N.mod_small by lia. lia.
  - intros i l g' E' Hi. destruct (nth_error (pe (w_pool s)) i) as [[l0 g0]|] eqn:E0.
    + destruct (P1 _ _ _ E0) as (l1 & g1 & E1 & Hg1). rewrite E' in E1. injection E1 as <- <-.
      pose proof (I2 _ _ _ E0 Hi) as Hg0. destruct Hg1 as [->| ->]; [lia|]. rewrite N.mod_small by lia. lia.
    + apply nth_error_None in E0. rewrite (P2 _ _ _ E0 E'). lia.
  - sc_lia.
Qed.

(** handing out handles of stored entities *)
Lemma r2h_issued_add : forall s n (es : list ent), WF s -> issued_ok s n -> (forall e, In e es -> live s e = true) ->
  issued_ok (s <| w_issued ::= fun l => l ++ es |>) n.
Proof.
  intros s n es HW HI Hes. set (s' := s <| w_issued ::= fun l => l ++ es |>).
  apply (r2e_issued_ok_ext s s' n eq_refl); [intros x; reflexivity| |exact HI].
  intros x Hx. change (In x (w_issued s ++ es)) in Hx. apply in_app_or in Hx. destruct Hx as [Hx|Hx]; [left; exact Hx|right].
  pose proof (Hes x Hx) as Hl. destruct (live_alive s x HW Hl) as (Ha & H2). destruct (sc_alive_slot s x Ha) as (l & E).
  apply sa_nth_error_lt in E. split; [split; assumption|exact Hl].
Qed.

(** ** What one batch step may do, as far as the invariant is concerned *)

(** the invariant without the lock *)
Definition Inv2L (s : W) (n : nat) : Prop := St2 s /\ r2d_KeysLive s /\ r2e_noobs s /\ issued_ok s n.

Lemma Inv2_Inv2L : forall s n, Inv2 s n <-> (Inv2L s n /\ is_locked s = false).
Proof. intros s n. unfold Inv2, Inv2L, r2e_quiet. tauto. Qed.

Definition r2h_trans (m : nat) (s s' : W) : Prop :=
  St2 s' /\ r2d_KeysLive s' /\ r2e_noobs s' /\ w_reg s' = w_reg s /\ w_issued s' = w_issued s /\
  r2h_pool_step m (w_pool s) (w_pool s') /\
  (forall x, live s x = true ->
     live s' x = true \/ exists l, nth_error (pe (w_pool s')) (fst x) = Some (l, N.modulo (snd x + 1) 4294967296)).

Lemma r2h_trans_issued : forall s s' n m, Inv2 s n -> n + m + 4 < Nat.pow 2 31 -> r2h_trans m s s' -> issued_ok s' (n + S m).
Proof.
  intros s s' n m (HS & _ & _ & HI) Hn (_ & _ & _ & _ & Ei & HP & HL).
  apply (r2h_issued_step s s' n m HI Hn HP Ei). intros x Hx Hl.
  destruct (HL x Hl) as [H|(l & E)]; [left; exact H|right].
  exists l, (N.modulo (snd x + 1) 4294967296). split; [exact E|].
  destruct HI as (_ & I2 & _). destruct (live_alive s x (proj1 HS) Hl) as (Ha & H2). destruct (sc_alive_slot s x Ha) as (l0 & E0).
  pose proof (I2 _ _ _ E0 H2) as Hg. pose proof (sc_pow_bound n ltac:(lia)) as Hb. rewrite N.mod_small by lia. lia.
Qed.

Lemma r2h_trans_same : forall s s' n, Inv2 s n -> St2 s' -> r2d_KeysLive s' -> r2e_noobs s' ->
  w_reg s' = w_reg s -> w_issued s' = w_issued s -> w_pool s' = w_pool s -> (forall x, live s x = true -> live s' x = true) ->
  r2h_trans 0 s s'.
Proof.
  intros s s' n HI A B C D E F G. split; [exact A|]. split; [exact B|]. split; [exact C|]. split; [exact D|]. split; [exact E|].
  split; [apply r2h_pool_step_eq; exact F|]. intros x Hx. left. apply G. exact Hx.
Qed.

Lemma r2h_trans_refl : forall s n, Inv2 s n -> r2h_trans 0 s s.
Proof. intros s n HI. pose proof HI as (A & B & (C & _) & _). apply (r2h_trans_same s s n HI A B C); auto. Qed.

Lemma r2h_trans_storage_same : forall s s' n, Inv2 s n -> storage_same s s' -> w_oagg s' = w_oagg s -> r2h_trans 0 s s'.
Proof.
  intros s s' n HI SS Eo. pose proof HI as (A & B & (C & _) & _).
  pose proof (sb3_storage_same_content s s' SS) as CS.
  pose proof SS as (E1 & E2 & E3 & E4 & E5 & E6 & E7 & E8 & E9 & E10 & E11 & E12 & E13 & E14 & E15 & E16 & E17 & E18).
  apply (r2h_trans_same s s' n HI); try assumption.
  - apply (r2c_storage_same_St2 s s' SS A).
  - apply (r2B_storage_same_KeysLive s s' SS B).
  - apply (r2B_noobs_oagg s s' Eo C).
  - intros x Hx. rewrite (proj1 (CS x)). exact Hx.
Qed.

(* ================================================================================================ *)
(** * Part 1b: a frame for the pool through the creating batch operations (in a world without observers) *)

Definition r2h_pc (k : nat) (p p' : pool) : Prop :=
  sc_gens_kept p p' /\ sc_new_zero p p' /\ length (pe p') <= length (pe p) + k.

Lemma r2h_pc_refl : forall p, r2h_pc 0 p p.
Proof.
  intros p. split; [|split].
  - intros i l g H. exists l. exact H.
  - intros i l g H1 H2. apply sa_nth_error_lt in H2. sc_lia.
  - sc_lia.
Qed.

Lemma r2h_pc_trans : forall k1 k2 p1 p2 p3, r2h_pc k1 p1 p2 -> r2h_pc k2 p2 p3 -> r2h_pc (k1 + k2) p1 p3.
Proof.
  intros k1 k2 p1 p2 p3 (A1 & A2 & A3) (B1 & B2 & B3). split; [|split].
  - intros i l g H. destruct (A1 i l g H) as (l' & H'). apply (B1 i l' g H').
  - intros i l g H1 H3. destruct (nth_error (pe p2) i) as [[l2 g2]|] eqn:E2.
    + pose proof (A2 i l2 g2 H1 E2) as ->. destruct (B1 i l2 0%N E2) as (l3 & E3). rewrite H3 in E3. injection E3 as _ ->. reflexivity.
    + apply nth_error_None in E2. apply (B2 i l g E2 H3).
  - sc_lia.
Qed.

Lemma r2h_pc_weaken : forall k k' p p', k <= k' -> r2h_pc k p p' -> r2h_pc k' p p'.
Proof. intros k k' p p' H (A & B & C). split; [exact A|]. split; [exact B|]. sc_lia. Qed.

Lemma r2h_pc_of_pcreate : forall p p', sc_pcreate p p' -> r2h_pc 1 p p'.
Proof. intros p p' (A & B & C). split; [exact A|]. split; [exact B|]. sc_lia. Qed.

Lemma r2h_pc_step : forall k p p', r2h_pc k p p' -> r2h_pool_step k p p'.
Proof.
  intros k p p' (A & B & C). split; [|split; [exact B|exact C]].
  intros i l g H. destruct (A i l g H) as (l' & H'). exists l', g. split; [exact H'|left; reflexivity].
Qed.

(** the relation: observers stay absent, the pool only grows by at most [k] fresh slots *)
Definition r2h_fn (k : nat) (s s' : W) : Prop :=
  r2e_noobs s -> w_oagg s' = w_oagg s /\ r2h_pc k (w_pool s) (w_pool s').

Definition r2h_fnp {A} (k : nat) (m : MW A) : Prop := forall s, r2h_fn k s (state_of (m s)).

Lemma r2h_fn_refl : forall s, r2h_fn 0 s s.
Proof. intros s _. split; [reflexivity|apply r2h_pc_refl]. Qed.

Lemma r2h_fn_trans : forall k1 k2 s1 s2 s3, r2h_fn k1 s1 s2 -> r2h_fn k2 s2 s3 -> r2h_fn (k1 + k2) s1 s3.
Proof.
  intros k1 k2 s1 s2 s3 H1 H2 Hn. destruct (H1 Hn) as (A1 & A2).
  destruct (H2 (r2B_noobs_oagg s1 s2 A1 Hn)) as (B1 & B2). split; [congruence|apply (r2h_pc_trans k1 k2 _ _ _ A2 B2)].
Qed.

Lemma r2h_fn_weaken : forall k k' s s', k <= k' -> r2h_fn k s s' -> r2h_fn k' s s'.
Proof. intros k k' s s' H H1 Hn. destruct (H1 Hn) as (A & B). split; [exact A|apply (r2h_pc_weaken k k' _ _ H B)]. Qed.

Lemma r2h_fnp_ro : forall A (m : MW A), readonly m -> r2h_fnp 0 m.
Proof. intros A m H s. rewrite (H s). apply r2h_fn_refl. Qed.

Lemma r2h_fnp_fk : forall A (m : MW A), r2e_fkp m -> r2h_fnp 0 m.
Proof.
  intros A m H s Hn. destruct (H s Hn) as ((_ & _ & _ & _ & Eo & _) & _ & _ & Ep).
  split; [exact Eo|rewrite Ep; apply r2h_pc_refl].
Qed.

Lemma r2h_fnp_bind : forall A B k1 k2 k (m : MW A) (f : A -> MW B), r2h_fnp k1 m -> (forall a, r2h_fnp k2 (f a)) -> k1 + k2 <= k ->
  r2h_fnp k (bind m f).
Proof.
  intros A B k1 k2 k m f Hm Hf Hk s. unfold bind. specialize (Hm s). destruct (m s) as [a s1|er s1]; cbn [state_of] in Hm.
  - apply (r2h_fn_weaken (k1 + k2) k _ _ Hk). apply (r2h_fn_trans k1 k2 s s1 _ Hm). apply Hf.
  - apply (r2h_fn_weaken k1 k _ _ ltac:(lia)). exact Hm.
Qed.

Lemma r2h_fnp_bind0 : forall A B k (m : MW A) (f : A -> MW B), r2h_fnp 0 m -> (forall a, r2h_fnp k (f a)) -> r2h_fnp k (bind m f).
Proof. intros A B k m f Hm Hf. apply (r2h_fnp_bind A B 0 k k m f Hm Hf). lia. Qed.

Lemma r2h_fnp_bindk : forall A B k (m : MW A) (f : A -> MW B), r2h_fnp k m -> (forall a, r2h_fnp 0 (f a)) -> r2h_fnp k (bind m f).
Proof. intros A B k m f Hm Hf. apply (r2h_fnp_bind A B k 0 k m f Hm Hf). lia. Qed.

Lemma r2h_fnp_getbind : forall A k (f : W -> MW A), (forall s, r2h_fn k s (state_of (f s s))) -> r2h_fnp k (bind get f).
Proof. intros A k f H s. unfold bind, get. apply H. Qed.

Lemma r2h_fnp_modify : forall f : W -> W, (forall s, w_oagg (f s) = w_oagg s /\ w_pool (f s) = w_pool s) -> r2h_fnp 0 (modify f).
Proof. intros f H s _. unfold modify. cbn [state_of]. destruct (H s) as (A & B). split; [exact A|rewrite B; apply r2h_pc_refl]. Qed.

Lemma r2h_fnp_forM0 : forall A (l : list A) (f : A -> MW unit), (forall a, r2h_fnp 0 (f a)) -> r2h_fnp 0 (forM_ l f).
Proof.
  intros A l f H. induction l as [|x l IH]; cbn [forM_]; [apply r2h_fnp_ro, readonly_ret|].
  apply r2h_fnp_bind0; [apply H|intros _; exact IH].
Qed.

Lemma r2h_fnp_forM1 : forall A (l : list A) (f : A -> MW unit), (forall a, r2h_fnp 1 (f a)) -> r2h_fnp (length l) (forM_ l f).
Proof.
  intros A l f H. induction l as [|x l IH]; cbn [forM_ length]; [apply r2h_fnp_ro, readonly_ret|].
  apply (r2h_fnp_bind _ _ 1 (length l) (S (length l))); [apply H|intros _; exact IH|lia].
Qed.

Lemma r2h_fnp_whenM : forall k b (m : MW unit), r2h_fnp k m -> r2h_fnp k (whenM b m).
Proof. intros k b m H. destruct b; [exact H|]. intros s. apply (r2h_fn_weaken 0 k); [lia|apply r2h_fn_refl]. Qed.

Lemma r2h_fnp_weaken : forall A k k' (m : MW A), k <= k' -> r2h_fnp k m -> r2h_fnp k' m.
Proof. intros A k k' m H Hm s. apply (r2h_fn_weaken k k' _ _ H (Hm s)). Qed.

Lemma r2h_fnp_lockM : r2h_fnp 0 lockM.
Proof.
  intros s _. unfold lockM, bind, get. destruct (lock_lock (w_lock s)) as [[b l']|]; cbn [state_of put ret fail].
  - split; [reflexivity|apply r2h_pc_refl].
  - split; [reflexivity|apply r2h_pc_refl].
Qed.

Lemma r2h_fnp_unlockM : forall b, r2h_fnp 0 (unlockM b).
Proof.
  intros b s _. unfold unlockM, bind, get. destruct (lock_unlock (w_lock s) b) as [l'|]; cbn [state_of put fail].
  - split; [reflexivity|apply r2h_pc_refl].
  - split; [reflexivity|apply r2h_pc_refl].
Qed.

Lemma r2h_fnp_pool_getM : r2h_fnp 1 pool_getM.
Proof.
  intros s _. unfold pool_getM, bind, get, put, ret.
  pose proof (sc_pcreate_get (w_pool s)) as Hp. destruct (pool_get (w_pool s)) as [e p']. cbn [snd state_of] in *.
  split; [reflexivity|apply r2h_pc_of_pcreate; exact Hp].
Qed.

Lemma r2h_fnp_batch_callback : forall tid vals row, r2h_fnp 0 (batch_callback tid vals row).
Proof.
  intros tid vals row. unfold batch_callback.
  apply r2h_fnp_bind0; [apply r2h_fnp_ro, readonly_getT|]. intros t.
  apply r2h_fnp_bind0; [apply r2h_fnp_ro, readonly_of_opt|]. intros e.
  apply r2h_fnp_bind0; [unfold log; apply r2h_fnp_modify; intros s; split; reflexivity|]. intros _.
  apply r2h_fnp_forM0. intros cv.
  apply r2h_fnp_bind0; [apply r2h_fnp_ro, readonly_getT|]. intros t1.
  destruct (tbl_colidx t1 (fst cv)) as [ci|]; [|apply r2h_fnp_ro, readonly_fail].
  apply r2h_fnp_bind0; [apply r2h_fnp_ro, readonly_of_opt|]. intros k.
  apply r2h_fnp_whenM. apply r2h_fnp_fk, r2e_fkp_modT.
Qed.

Lemma r2h_fnp_create_entities : forall tid count, r2h_fnp count (create_entities tid count).
Proof.
  intros tid count. unfold create_entities.
  apply r2h_fnp_bind0; [apply r2h_fnp_ro, readonly_getT|]. intros t.
  apply r2h_fnp_bind0; [apply r2h_fnp_fk, r2e_fkp_modT|]. intros _.
  rewrite <- (seq_length count (t_len t)) at 1. apply r2h_fnp_forM1. intros index.
  apply r2h_fnp_bindk; [apply r2h_fnp_pool_getM|]. intros e.
  apply r2h_fnp_bind0; [apply r2h_fnp_fk, r2e_fkp_modT|]. intros _.
  apply r2h_fnp_bind0; [apply r2h_fnp_fk, r2e_fkp_set_index|]. intros _.
  apply r2h_fnp_modify. intros s. split; reflexivity.
Qed.

Lemma r2h_fnp_new_entities : forall count ids rels, r2h_fnp count (new_entities count ids rels).
Proof.
  intros count ids rels. unfold new_entities.
  apply r2h_fnp_bind0; [apply r2h_fnp_fk, r2e_fkp_find_add|]. intros [[tid aid] m].
  apply r2h_fnp_bind0; [apply r2h_fnp_ro, readonly_getT|]. intros t.
  apply r2h_fnp_bindk; [apply r2h_fnp_create_entities|]. intros _.
  apply r2h_fnp_bind0; [apply r2h_fnp_fk, r2e_fkp_register_targets|]. intros _. apply r2h_fnp_ro, readonly_ret.
Qed.

Lemma r2h_ro_rows_of : forall tid start n, readonly (rows_of tid start n).
Proof. intros. unfold rows_of. ro; try apply readonly_getT. Qed.

(** event dispatch of the creating batches is skipped in a world without observers *)
Lemma r2h_fnp_w_new_entities : forall count fn, r2h_fnp count (w_new_entities count fn).
Proof.
  intros count fn. unfold w_new_entities.
  apply r2h_fnp_bind0; [apply r2h_fnp_ro, sc_ro_check_locked|]. intros _.
  apply r2h_fnp_bindk; [apply r2h_fnp_new_entities|]. intros [tid start].
  apply r2h_fnp_getbind. intros s0 Hn. rewrite (Hn EvCreateEntity). cbn [orb].
  revert Hn. change (r2h_fn 0 s0 (state_of ((l <- (if fn then lockM else ret 0) ;;
     whenM fn (forM_ (seq start count) (fun i => batch_callback tid [] i)) ;;; whenM false
       (m <- arch_mask_of_table tid ;; es <- rows_of tid start count ;; fire_rows (fun e eo => fire_create_entity e m eo) es true) ;;;
     whenM fn (unlockM l)) s0))).
  revert s0. change (r2h_fnp 0 (l <- (if fn then lockM else ret 0) ;;
     whenM fn (forM_ (seq start count) (fun i => batch_callback tid [] i)) ;;; whenM false
       (m <- arch_mask_of_table tid ;; es <- rows_of tid start count ;; fire_rows (fun e eo => fire_create_entity e m eo) es true) ;;;
     whenM fn (unlockM l))).
  apply r2h_fnp_bind0; [destruct fn; [apply r2h_fnp_lockM|apply r2h_fnp_ro, readonly_ret]|]. intros l.
  apply r2h_fnp_bind0; [apply r2h_fnp_whenM, r2h_fnp_forM0; intros i; apply r2h_fnp_batch_callback|]. intros _.
  apply r2h_fnp_bind0; [cbn [whenM]; apply r2h_fnp_ro, readonly_ret|]. intros _.
  apply r2h_fnp_whenM, r2h_fnp_unlockM.
Qed.

Lemma r2h_fnp_w_new_batch : forall count ids rels vals fn, r2h_fnp count (w_new_batch count ids rels vals fn).
Proof.
  intros count ids rels vals fn. unfold w_new_batch.
  apply r2h_fnp_bind0; [apply r2h_fnp_ro, sc_ro_check_locked|]. intros _.
  apply r2h_fnp_bind0; [apply r2h_fnp_ro, readonly_to_relations|]. intros _.
  apply r2h_fnp_bindk; [apply r2h_fnp_new_entities|]. intros [tid start].
  apply r2h_fnp_getbind. intros s0 Hn. rewrite (Hn EvCreateEntity), (Hn EvAddRelations), andb_false_r. cbn [orb].
  revert Hn. change (r2h_fn 0 s0 (state_of ((l <- (if fn then lockM else ret 0) ;;
     whenM fn (forM_ (seq start count) (fun i => batch_callback tid vals i)) ;;;
     es <- rows_of tid start count ;;
     whenM false (fire_rows (fun e eo => fire_create_entity e (mk_of_list ids) eo) es true) ;;;
     whenM false (fire_rows (fun e eo => fire_create_entity_rel e (mk_of_list ids) eo) es true) ;;;
     whenM fn (unlockM l)) s0))).
  revert s0. change (r2h_fnp 0 (l <- (if fn then lockM else ret 0) ;;
     whenM fn (forM_ (seq start count) (fun i => batch_callback tid vals i)) ;;;
     es <- rows_of tid start count ;;
     whenM false (fire_rows (fun e eo => fire_create_entity e (mk_of_list ids) eo) es true) ;;;
     whenM false (fire_rows (fun e eo => fire_create_entity_rel e (mk_of_list ids) eo) es true) ;;;
     whenM fn (unlockM l))).
  apply r2h_fnp_bind0; [destruct fn; [apply r2h_fnp_lockM|apply r2h_fnp_ro, readonly_ret]|]. intros l.
  apply r2h_fnp_bind0; [apply r2h_fnp_whenM, r2h_fnp_forM0; intros i; apply r2h_fnp_batch_callback|]. intros _.
  apply r2h_fnp_bind0; [apply r2h_fnp_ro, r2h_ro_rows_of|]. intros es.
  apply r2h_fnp_bind0; [cbn [whenM]; apply r2h_fnp_ro, readonly_ret|]. intros _.
  apply r2h_fnp_bind0; [cbn [whenM]; apply r2h_fnp_ro, readonly_ret|]. intros _.
  apply r2h_fnp_whenM, r2h_fnp_unlockM.
Qed.

(* ================================================================================================ *)
(** * Part 2: the operations *)

Definition r2h_batch_op (o : op) : bool :=
  match o with
  | ONewEntities _ _ | ONewBatch _ _ _ _ _ | ORemoveEntities _ _ _ | OExchangeBatch _ _ _ _ _ _ | OSetRelBatch _ _ _ _ => true
  | _ => false
  end.

(** the number of entities the operation may create *)
Definition r2h_created (o : op) : nat :=
  match o with ONewEntities n _ | ONewBatch n _ _ _ _ => n | _ => 0 end.

(** component ids the operation adds (must be registered, as in [rel_op_ids]) *)
Definition r2h_op_ids (o : op) : list nat :=
  match o with ONewBatch _ ids _ _ _ => ids | OExchangeBatch _ _ add _ _ _ => add | _ => [] end.

(** what a step guarantees: the transition, and the lock afterwards unless [leak] *)
Definition r2h_post (m : nat) (leak : Prop) (s : W) (r : res W (list Z)) : Prop :=
  r2h_trans m s (state_of r) /\ (is_locked (state_of r) = false \/ (is_err r = true /\ leak)).

Lemma r2h_post_refl : forall m leak s n er, Inv2 s n -> r2h_post m leak s (Err er s).
Proof.
  intros m leak s n er HI. split.
  - destruct (r2h_trans_refl s n HI) as (A & B & C & D & E & (P1 & P2 & P3) & G).
    split; [exact A|]. split; [exact B|]. split; [exact C|]. split; [exact D|]. split; [exact E|]. split; [|exact G].
    split; [exact P1|]. split; [exact P2|]. cbn [state_of]. lia.
  - left. apply HI.
Qed.

Section r2h_ops.
Variables (debug : bool) (s : W) (n : nat).
Hypothesis HI : Inv2 s n.
Let HS : St2 s := proj1 HI.
Let HW : WF s := proj1 HS.
Let HK : r2d_KeysLive s := proj1 (proj2 HI).
Let HQ : r2e_quiet s := proj1 (proj2 (proj2 HI)).
Let Hno : r2e_noobs s := proj1 HQ.
Let Hlk : is_locked s = false := proj2 HQ.
Let Hiss : issued_ok s n := proj2 (proj2 (proj2 HI)).

(** resolving a relation list: read-only; the targets are proper handles *)
Lemma r2h_resolved : forall m leak hrels (k : list rel -> MW (list Z)),
  (forall rels, r2e_resolved s hrels rels -> r2h_post m leak s (k rels s)) ->
  r2h_post m leak s (bind (resolveR hrels) k s).
Proof.
  intros m leak hrels k H. destruct (r2e_resolveR hrels s) as [(rels & E & HR)|(er & E)].
  - rewrite (sa_bind_ok E). apply H. exact HR.
  - rewrite (sa_bind_err E). apply (r2h_post_refl m leak s n er HI).
Qed.

Lemma r2h_batch_rels : forall m leak f brels (k : list rel -> MW (list Z)),
  (forall br, r2h_post m leak s (k br s)) -> r2h_post m leak s (bind (batch_rels f brels) k s).
Proof.
  intros m leak f brels k H. pose proof (readonly_batch_rels f brels s) as Hro.
  destruct (batch_rels f brels s) as [br s1|er s1] eqn:E; cbn [state_of] in Hro; subst s1.
  - rewrite (sa_bind_ok E). apply H.
  - rewrite (sa_bind_err E). apply (r2h_post_refl m leak s n er HI).
Qed.

(** ** ORemoveEntities *)

(** the leak: RemoveEntities WITH a callback whose table selection panics keeps the lock bit *)
Definition r2h_leak_remove (f : nat) (hbrels : list hrel) (nofn : bool) : Prop :=
  nofn = false /\ exists brels br er, resolveR hbrels s = Ok brels s /\ batch_rels f brels s = Ok br s /\
                                    get_batch_tables f br s = Err er s.

Lemma r2h_op_ORemoveEntities : forall f hbrels nofn,
  r2h_post 0 (r2h_leak_remove f hbrels nofn) s (step_op debug (ORemoveEntities f hbrels nofn) s).
Proof.
  intros f hbrels nofn. cbn [step_op].
  destruct (r2e_resolveR hbrels s) as [(brels & E1 & HR)|(er & E1)]; [|rewrite (sa_bind_err E1); apply (r2h_post_refl 0 _ s n er HI)].
  rewrite (sa_bind_ok E1).
  pose proof (readonly_batch_rels f brels s) as Hro.
  destruct (batch_rels f brels s) as [br s1|er s1] eqn:E2; cbn [state_of] in Hro; subst s1;
    [|rewrite (sa_bind_err E2); apply (r2h_post_refl 0 _ s n er HI)].
  rewrite (sa_bind_ok E2).
  pose proof (r2B_remove_entities_outcomes s f br (negb nofn) HS HK Hno Hlk) as Ho.
  unfold bind. destruct (w_remove_entities f br (negb nofn) s) as [u s'|er s'] eqn:E3.
  - destruct Ho as (tabs & Hg & (A & B & C & D & Hrm & Hkp & _ & FU & PL & (Q1 & Q2))). unfold r2h_post, ret. cbn [state_of is_err].
    split; [|left; exact D].
    pose proof FU as (F1 & _ & _ & _ & F5 & _).
    split; [exact A|]. split; [exact B|]. split; [exact C|]. split; [exact F1|]. split; [exact F5|]. split.
    + split; [|split].
      * intros i l g E. destruct (r2B_doomed s tabs (i, g)) eqn:Ed.
        -- destruct (Q2 (i, g) Ed) as (l' & E'). cbn [fst snd] in E'. exists l', (N.modulo (g + 1) 4294967296). split; [exact E'|right; reflexivity].
        -- exists l, g. split; [|left; reflexivity]. rewrite Q1; [exact E|]. intros e Hd Ee.
           pose proof Hd as Hd'. apply r2B_doomed_iff in Hd'. destruct Hd' as (Hl & _). destruct (live_alive s e HW Hl) as (Ha & _).
           destruct (sc_alive_slot s e Ha) as (l0 & E0). rewrite Ee, E in E0. injection E0 as _ Eg.
           assert (Ee' : e = (i, g)) by (destruct e as [ei eg]; cbn [fst snd] in *; subst; reflexivity). subst e. congruence.
      * intros i l g H1 H2. apply sa_nth_error_lt in H2. sc_lia.
      * sc_lia.
    + intros x Hx. destruct (r2B_doomed s tabs x) eqn:Ed.
      * right. apply (Q2 x Ed).
      * left. rewrite (proj1 (Hkp x Ed)). exact Hx.
  - destruct Ho as (SS & SD & Hcase). unfold r2h_post. cbn [state_of is_err].
    split.
    { destruct SD as (_ & _ & _ & _ & Eo & _).
      destruct (r2h_trans_storage_same s s' n HI SS Eo) as (A & B & C & D & E & (P1 & P2 & P3) & G).
      split; [exact A|]. split; [exact B|]. split; [exact C|]. split; [exact D|]. split; [exact E|]. split; [|exact G].
      split; [exact P1|]. split; [exact P2|]. lia. }
    destruct Hcase as [(_ & _ & _ & ->)|(Hg & Hs)]; [left; exact Hlk|].
    destruct nofn.
    + left. rewrite (Hs eq_refl). exact Hlk.
    + right. split; [reflexivity|]. split; [reflexivity|]. exists brels, br, er. repeat split; assumption.
Qed.

(** ** OExchangeBatch (deferred unlock: never leaks) *)
Lemma r2h_op_OExchangeBatch : forall f hbrels add rem hrels vals, registered s add ->
  r2h_post 0 False s (step_op debug (OExchangeBatch f hbrels add rem hrels vals) s).
Proof.
  intros f hbrels add rem hrels vals Hreg. cbn [step_op].
  apply r2h_resolved. intros brels _. apply r2h_resolved. intros rels HR. apply r2h_batch_rels. intros br.
  pose proof (readonly_to_relations (mk_of_list add) rels s) as Hro.
  destruct (to_relations (mk_of_list add) rels s) as [[] s1|er s1] eqn:E; cbn [state_of] in Hro; subst s1;
    [|rewrite (sa_bind_err E); apply (r2h_post_refl 0 False s n er HI)].
  rewrite (sa_bind_ok E).
  assert (Hargs : r2x_args s add rels).
  { split; [exact Hreg|]. apply (r2e_resolved_ok s n hrels rels HW Hiss HR). }
  destruct (r2x_exchange_batch_inv s f br add rem rels vals HS HK Hno Hlk Hargs) as (A & B & C & D & FU & EP & HL).
  assert (Est : forall (k : MW (list Z)), (forall s0, state_of (k s0) = s0) -> state_of ((w_exchange_batch f br add rem rels vals ;;; k) s) = state_of (w_exchange_batch f br add rem rels vals s)).
  { intros k Hk. unfold bind. destruct (w_exchange_batch f br add rem rels vals s); [apply Hk|reflexivity]. }
  unfold r2h_post. rewrite Est by (intros s0; reflexivity). split; [|left; exact D].
  pose proof FU as (F1 & _ & _ & _ & F5 & _).
  apply (r2h_trans_same s _ n HI A B C F1 F5 EP). intros x Hx. rewrite HL. exact Hx.
Qed.

(** ** OSetRelBatch (deferred unlock: never leaks) *)
Lemma r2h_op_OSetRelBatch : forall f hbrels mids hrels,
  r2h_post 0 False s (step_op debug (OSetRelBatch f hbrels mids hrels) s).
Proof.
  intros f hbrels mids hrels. cbn [step_op].
  apply r2h_resolved. intros brels _. apply r2h_resolved. intros rels HR. apply r2h_batch_rels. intros br.
  pose proof (readonly_to_relations (mk_of_list mids) rels s) as Hro.
  destruct (to_relations (mk_of_list mids) rels s) as [[] s1|er s1] eqn:E; cbn [state_of] in Hro; subst s1;
    [|rewrite (sa_bind_err E); apply (r2h_post_refl 0 False s n er HI)].
  rewrite (sa_bind_ok E).
  assert (Hhok : forall r, In r rels -> r2b_handle_ok s (snd r)).
  { intros r Hr. apply (r2e_resolved_ok s n hrels rels HW Hiss HR r Hr). }
  pose proof (r2s_set_relations_batch_post s f br rels HS HK Hno Hlk Hhok) as Hp'.
  assert (Est : forall (k : MW (list Z)), (forall s0, state_of (k s0) = s0) ->
            state_of ((w_set_relations_batch f br rels ;;; k) s) = state_of (w_set_relations_batch f br rels s)).
  { intros k Hk. unfold bind. destruct (w_set_relations_batch f br rels s); [apply Hk|reflexivity]. }
  unfold r2h_post. rewrite Est by (intros s0; reflexivity).
  destruct Hp' as (A & B & C & D & HL & _ & EP & FU). split; [|left; exact D].
  pose proof FU as (F1 & _ & _ & _ & F5 & _).
  apply (r2h_trans_same s _ n HI A B C F1 F5 EP). intros x Hx. rewrite HL. exact Hx.
Qed.

(** ** The creating operations *)

Lemma r2h_room : forall m, n + m + 4 < Nat.pow 2 31 -> room_n s m.
Proof. intros m Hm. destruct Hiss as (_ & _ & I3). unfold room_n. sc_lia. Qed.

Lemma r2h_fresh_keeps : forall s' m es, r2n_fresh s s' m es -> r2n_others s s' es -> forall x, live s x = true -> live s' x = true.
Proof.
  intros s' m es (_ & _ & Hf) Ho x Hx.
  assert (Hnin : ~ In x es) by (intros Hin; destruct (Hf x Hin) as (Hc & _); congruence).
  rewrite (proj1 (Ho x Hnin)). exact Hx.
Qed.

(** the entities a creating batch reports through its callback are fresh and stored *)
Definition r2h_logged_fresh (r : res W (list Z)) : Prop :=
  forall res s1, r = Ok res s1 -> w_log s = [] ->
    forall e, In e (logged_entities (w_log s1)) -> live s1 e = true /\ live s e = false.

Lemma r2h_logged_entries : forall es : list ent, logged_entities (map b_entry es) = es.
Proof.
  induction es as [|e es IH]; [reflexivity|]. cbn [map]. unfold logged_entities in *. cbn [flat_map]. rewrite IH.
  unfold b_entry at 1. cbn [app]. unfold Zn. rewrite Nat2Z.id, N2Z.id. destruct e; reflexivity.
Qed.

Lemma r2h_op_ONewEntities : forall m nofn, n + m + 4 < Nat.pow 2 31 ->
  r2h_post m False s (step_op debug (ONewEntities m nofn) s) /\ r2h_logged_fresh (step_op debug (ONewEntities m nofn) s).
Proof.
  intros m nofn Hm. cbn [step_op].
  pose proof (r2n_new_entities_spec s m (negb nofn) HS HK Hno Hlk (r2h_room m Hm)) as Hsp.
  destruct (r2h_fnp_w_new_entities m (negb nofn) s Hno) as (_ & Hpc).
  unfold bind. destruct (w_new_entities m (negb nofn) s) as [u s'|er s'] eqn:E; cbn [state_of] in Hpc.
  - destruct Hsp as (A & B & C & D & FU & _ & es & Hfr & _ & Hoth & Hlog).
    pose proof FU as (F1 & _ & _ & _ & F5 & _). split.
    + unfold r2h_post, ret. cbn [state_of is_err]. split; [|left; exact D].
      split; [exact A|]. split; [exact B|]. split; [exact C|]. split; [exact F1|]. split; [exact F5|].
      split; [apply r2h_pc_step; exact Hpc|]. intros x Hx. left. apply (r2h_fresh_keeps s' m es Hfr Hoth x Hx).
    + intros res s1 Er Hl0 e He. unfold ret in Er. injection Er as _ <-. rewrite Hlog, Hl0 in He. cbn [app] in He.
      destruct (negb nofn); [|destruct He]. rewrite r2h_logged_entries in He.
      destruct Hfr as (_ & _ & Hf). destruct (Hf e He) as (L0 & L1 & _). split; assumption.
  - destruct Hsp as (_ & _ & _ & A & B & C & D & FU & _ & es & Hfr & _ & Hoth).
    pose proof FU as (F1 & _ & _ & _ & F5 & _). split.
    + unfold r2h_post. cbn [state_of is_err]. split; [|left; exact D].
      split; [exact A|]. split; [exact B|]. split; [exact C|]. split; [exact F1|]. split; [exact F5|].
      split; [apply r2h_pc_step; exact Hpc|]. intros x Hx. left. apply (r2h_fresh_keeps s' m es Hfr Hoth x Hx).
    + intros res s1 Er. discriminate.
Qed.

(** the leak: NewBatch WITH a callback that panics ([vals] names a component outside [ids]) keeps the lock bit *)
Definition r2h_leak_newbatch (m : nat) (ids : list nat) (vals : list (nat * Z)) (nofn : bool) : Prop :=
  nofn = false /\ 0 < m /\ ~ r2n_vals_ok ids vals.

Lemma r2h_op_ONewBatch : forall m ids hrels vals nofn, n + m + 4 < Nat.pow 2 31 -> registered s ids ->
  r2h_post m (r2h_leak_newbatch m ids vals nofn) s (step_op debug (ONewBatch m ids hrels vals nofn) s) /\
  r2h_logged_fresh (step_op debug (ONewBatch m ids hrels vals nofn) s).
Proof.
  intros m ids hrels vals nofn Hm Hreg. cbn [step_op].
  destruct (r2e_resolveR hrels s) as [(rels & E1 & HR)|(er & E1)].
  2:{ rewrite (sa_bind_err E1). split; [|intros res s1 Er; discriminate].
      destruct (r2h_post_refl 0 (r2h_leak_newbatch m ids vals nofn) s n er HI) as ((A & B & C & D & E & (P1 & P2 & P3) & G) & L).
      split; [|exact L]. split; [exact A|]. split; [exact B|]. split; [exact C|]. split; [exact D|]. split; [exact E|]. split; [|exact G].
      split; [exact P1|]. split; [exact P2|]. cbn [state_of] in *. lia. }
  rewrite (sa_bind_ok E1).
  assert (Hh : r2n_handles s rels).
  { intros r Hr. apply (r2e_resolved_ok s n hrels rels HW Hiss HR r Hr). }
  pose proof (r2n_new_batch_spec s m ids rels vals (negb nofn) HS HK Hno Hlk (r2h_room m Hm) Hreg Hh) as Hsp.
  destruct (r2h_fnp_w_new_batch m ids rels vals (negb nofn) s Hno) as (_ & Hpc).
  unfold bind. destruct (w_new_batch m ids rels vals (negb nofn) s) as [u s'|er s'] eqn:E; cbn [state_of] in Hpc.
  - destruct Hsp as ((A & B & C) & D & FU & _ & _ & _ & es & (Hfr & _ & Hoth) & Hlog).
    pose proof FU as (F1 & _ & _ & _ & F5 & _). split.
    + unfold r2h_post, ret. cbn [state_of is_err]. split; [|left; exact D].
      split; [exact A|]. split; [exact B|]. split; [exact C|]. split; [exact F1|]. split; [exact F5|].
      split; [apply r2h_pc_step; exact Hpc|]. intros x Hx. left. apply (r2h_fresh_keeps s' m es Hfr Hoth x Hx).
    + intros res s1 Er Hl0 e He. unfold ret in Er. injection Er as _ <-. rewrite Hlog, Hl0 in He. cbn [app] in He.
      destruct (negb nofn); [|destruct He]. rewrite r2h_logged_entries in He.
      destruct Hfr as (_ & _ & Hf). destruct (Hf e He) as (L0 & L1 & _). split; assumption.
  - destruct Hsp as ((A & B & C) & FU & Hcase). pose proof FU as (F1 & _ & _ & _ & F5 & _).
    split; [|intros res s1 Er; discriminate].
    unfold r2h_post. cbn [state_of is_err].
    assert (Hkeep : forall x, live s x = true -> live s' x = true).
    { destruct Hcase as [(-> & _)|[(_ & _ & _ & Hnb & _)|[(_ & _ & _ & _ & _ & _ & _ & es & Hfr & _ & Hoth)|(_ & _ & _ & _ & _ & _ & _ & _ & e0 & rest & Hfr & Hoth & _)]]].
      - intros x Hx. exact Hx.
      - intros x Hx. rewrite (proj1 (Hnb x)). exact Hx.
      - apply (r2h_fresh_keeps s' m es Hfr Hoth).
      - apply (r2h_fresh_keeps s' m (e0 :: rest) Hfr Hoth). }
    split.
    { split; [exact A|]. split; [exact B|]. split; [exact C|]. split; [exact F1|]. split; [exact F5|].
      split; [apply r2h_pc_step; exact Hpc|]. intros x Hx. left. apply (Hkeep x Hx). }
    destruct Hcase as [(-> & _)|[(_ & _ & _ & _ & Hl)|[(_ & _ & _ & _ & _ & Hl & _)|(_ & Hfn & Hpos & Hbad & _)]]].
    + left. exact Hlk.
    + left. exact Hl.
    + left. exact Hl.
    + right. split; [reflexivity|]. split; [destruct nofn; [discriminate Hfn|reflexivity]|]. split; assumption.
Qed.

(* END-OPS *)
End r2h_ops.

(* ================================================================================================ *)
(** * Part 3: one batch step of the operation language *)

(** the two failure cases in which the lock bit stays taken *)
Definition r2h_leak (s : W) (o : op) : Prop :=
  match o with
  | ORemoveEntities f hbrels nofn => r2h_leak_remove s f hbrels nofn
  | ONewBatch m ids _ vals nofn => r2h_leak_newbatch m ids vals nofn
  | _ => False
  end.

Theorem r2h_op_spec : forall debug s n o, Inv2 s n -> n + r2h_created o + 4 < Nat.pow 2 31 ->
  r2h_batch_op o = true -> registered s (r2h_op_ids o) ->
  r2h_post (r2h_created o) (r2h_leak s o) s (step_op debug o s) /\
  (issues_from_log o = true -> r2h_logged_fresh s (step_op debug o s)).
Proof.
  intros debug s n o HI Hn Hc Hreg. destruct o; try discriminate Hc; cbn [r2h_created r2h_op_ids r2h_leak issues_from_log] in *.
  - destruct (r2h_op_ONewEntities debug s n HI n0 nofn Hn) as (A & B). split; [exact A|intros _; exact B].
  - split; [apply (r2h_op_ORemoveEntities debug s n HI)|discriminate].
  - destruct (r2h_op_ONewBatch debug s n HI n0 ids rels vals nofn Hn Hreg) as (A & B). split; [exact A|intros _; exact B].
  - split; [apply (r2h_op_OExchangeBatch debug s n HI); exact Hreg|discriminate].
  - split; [apply (r2h_op_OSetRelBatch debug s n HI)|discriminate].
Qed.

Lemma r2h_step_state : forall debug wd s line o, decode_op line = Some o -> r2h_batch_op o = true ->
  fst (step debug wd s line) =
  (let r := step_op debug o (s <| w_log := [] |>) in
   (if (issues_from_log o && negb (is_err r))%bool
    then state_of r <| w_issued ::= fun l => l ++ logged_entities (w_log (state_of r)) |> else state_of r) <| w_log := [] |>).
Proof.
  intros debug wd s line o Hd Hc. unfold step. rewrite Hd. cbv zeta.
  assert (Hr : returns_entity o = false) by (destruct o; try discriminate Hc; reflexivity).
  rewrite Hr. cbn [fst]. destruct (step_op debug o (s <| w_log := [] |>)) as [[|i [|g rest]]|]; reflexivity.
Qed.

Lemma r2h_issued_nil : forall s1 : W, s1 <| w_log := [] |> = s1 <| w_issued ::= fun l => l ++ [] |> <| w_log := [] |>.
Proof. intros s1. apply b_W_ext; try reflexivity. cbn. symmetry. apply app_nil_r. Qed.

(** the fields the storage invariant does not read: handles issued, log *)
Lemma r2h_finish : forall s1 m (es : list ent), St2 s1 -> r2d_KeysLive s1 -> r2e_noobs s1 -> issued_ok s1 m ->
  (forall e, In e es -> live s1 e = true) ->
  let s' := s1 <| w_issued ::= fun l => l ++ es |> <| w_log := [] |> in
  Inv2L s' m /\ is_locked s' = is_locked s1 /\ w_reg s' = w_reg s1 /\ (forall x, live s' x = live s1 x).
Proof.
  intros s1 m es HS HK Hno HI Hes s'.
  assert (HL : forall x, live s' x = live s1 x) by (intros x; reflexivity).
  split; [|split; [reflexivity|split; [reflexivity|exact HL]]].
  split; [apply (r2e_St2_ext s1 s'); try reflexivity; exact HS|].
  split; [apply (r2d_KeysLive_mono s1 s' HK eq_refl); intros x Hx; exact Hx|].
  split; [apply (r2B_noobs_oagg s1 s' eq_refl Hno)|].
  pose proof (r2h_issued_add s1 m es (proj1 HS) HI Hes) as HI2.
  set (s2 := s1 <| w_issued ::= fun l => l ++ es |>) in *.
  apply (r2e_issued_ok_ext s2 s' m eq_refl); [intros x; reflexivity| |exact HI2]. intros x Hx. left. exact Hx.
Qed.

(** One step of a batch operation keeps the storage part of the invariant in both outcomes; the world is unlocked
    afterwards unless the step is one of the two documented lock leaks. *)
Theorem step_inv2B_storage : forall debug wd s n line o,
  Inv2 s n -> n + r2h_created o + 4 < Nat.pow 2 31 -> decode_op line = Some o -> r2h_batch_op o = true ->
  (forall c, In c (r2h_op_ids o) -> c < length (w_reg s)) ->
  let s' := fst (step debug wd s line) in
  Inv2L s' (n + S (r2h_created o)) /\ w_reg s' = w_reg s /\
  (exists es, w_issued s' = w_issued s ++ es /\ forall e, In e es -> live s' e = true /\ live s e = false) /\
  (is_locked s' = false \/ (is_err (step_op debug o (s <| w_log := [] |>)) = true /\ r2h_leak (s <| w_log := [] |>) o)).
Proof.
  intros debug wd s n line o HI Hn Hd Hc Hreg. cbv zeta.
  rewrite (r2h_step_state debug wd s line o Hd Hc). cbv zeta.
  pose proof (r2e_Inv2_log s n [] HI) as HI0.
  set (s0 := s <| w_log := [] |>) in *.
  destruct (r2h_op_spec debug s0 n o HI0 Hn Hc Hreg) as ((T & Hlock) & Hlg).
  pose proof (r2h_trans_issued s0 _ n (r2h_created o) HI0 Hn T) as HIs.
  destruct T as (T1 & T2 & T3 & T4 & T5 & T6 & T7).
  set (r := step_op debug o s0) in *. set (s1 := state_of r) in *.
  assert (Hes : exists es, (if (issues_from_log o && negb (is_err r))%bool
                            then s1 <| w_issued ::= fun l => l ++ logged_entities (w_log s1) |> else s1) <| w_log := [] |>
                           = s1 <| w_issued ::= fun l => l ++ es |> <| w_log := [] |> /\
                           forall e, In e es -> live s1 e = true /\ live s0 e = false).
  { destruct (issues_from_log o) eqn:Ei; cbn [andb].
    - destruct r as [res s1'|er s1'] eqn:Er; cbn [is_err negb].
      + exists (logged_entities (w_log s1)). split; [reflexivity|]. intros e He. apply (Hlg eq_refl res s1' eq_refl eq_refl e He).
      + exists []. split; [apply r2h_issued_nil|intros e []].
    - exists []. split; [apply r2h_issued_nil|intros e []]. }
  destruct Hes as (es & -> & Hesl).
  destruct (r2h_finish s1 (n + S (r2h_created o)) es T1 T2 T3 HIs (fun e He => proj1 (Hesl e He))) as (A & B & C & D).
  split; [exact A|]. split; [rewrite C; exact T4|]. split.
  { exists es. split; [cbn; rewrite T5; reflexivity|]. intros e He. split; [rewrite D; apply (Hesl e He)|apply (Hesl e He)]. }
  rewrite B. exact Hlock.
Qed.

(** The full invariant [Inv2] is kept by every batch step that is not one of the two lock leaks. *)
Theorem step_inv2B : forall debug wd s n line o,
  Inv2 s n -> n + r2h_created o + 4 < Nat.pow 2 31 -> decode_op line = Some o -> r2h_batch_op o = true ->
  (forall c, In c (r2h_op_ids o) -> c < length (w_reg s)) ->
  ~ r2h_leak (s <| w_log := [] |>) o ->
  let s' := fst (step debug wd s line) in
  Inv2 s' (n + S (r2h_created o)) /\ w_reg s' = w_reg s /\
  (exists es, w_issued s' = w_issued s ++ es /\ forall e, In e es -> live s' e = true /\ live s e = false).
Proof.
  intros debug wd s n line o HI Hn Hd Hc Hreg Hnl. cbv zeta.
  destruct (step_inv2B_storage debug wd s n line o HI Hn Hd Hc Hreg) as (A & B & C & D).
  split; [|split; [exact B|exact C]]. apply Inv2_Inv2L. split; [exact A|].
  destruct D as [D|(_ & D)]; [exact D|contradiction].
Qed.

(* ================================================================================================ *)
(** * Part 4: the two lock leaks are real (refutations of the unconditional statement), non-vacuity *)

Lemma r2h_Inv2_empty : forall w, st2_b w = true -> r2d_keys_live_b w = true -> w_oagg w = [] -> is_locked w = false ->
  w_issued w = [] -> pe (w_pool w) = [(0, max_u32); (1, max_u32)] -> Inv2 w 0.
Proof.
  intros w H1 H2 H3 H4 H5 H6. pose proof (st2_b_sound w H1) as HS.
  split; [exact HS|]. split; [apply (r2d_keys_live_b_sound w (proj1 HS) H2)|]. split.
  - split; [|exact H4]. intros ev. unfold has_obs, get_agg. rewrite H3. reflexivity.
  - split; [|split].
    + intros e He. rewrite H5 in He. destruct He.
    + intros i l g E Hi. rewrite H6 in E. destruct i as [|[|i]]; [lia|lia|]. destruct i; discriminate.
    + rewrite H6. cbn. lia.
Qed.

(** (a) RemoveEntities with a callback through a filter whose cache entry is missing: the selection panics after the
    lock was taken; the step leaves the world locked, so [Inv2] is lost (the storage part [Inv2L] is kept). *)
Definition r2h_bad_filter : fobj :=
  {| f_ids := []; f_mask := 0%N; f_without := 0%N; f_haswithout := false; f_cache := Some 7; f_rels := []; f_unsafe := false |}.
Definition r2h_world_a : W := (Properties.Common.exec Rel2Check.r2_cfg []) <| w_filters := [r2h_bad_filter] |>.

Example step_inv2B_remove_refuted :
  Inv2 r2h_world_a 0 /\ decode_op [12; 0; 0]%Z = Some (ORemoveEntities 0 [] false) /\
  r2h_leak (r2h_world_a <| w_log := [] |>) (ORemoveEntities 0 [] false) /\
  is_locked (fst (step false false r2h_world_a [12; 0; 0]%Z)) = true /\
  (forall m, ~ Inv2 (fst (step false false r2h_world_a [12; 0; 0]%Z)) m) /\
  Inv2L (fst (step false false r2h_world_a [12; 0; 0]%Z)) 1.
Proof.
  assert (HI : Inv2 r2h_world_a 0) by (apply r2h_Inv2_empty; vm_compute; reflexivity).
  assert (Hd : decode_op [12; 0; 0]%Z = Some (ORemoveEntities 0 [] false)) by (vm_compute; reflexivity).
  assert (Hl : is_locked (fst (step false false r2h_world_a [12; 0; 0]%Z)) = true) by (vm_compute; reflexivity).
  split; [exact HI|]. split; [exact Hd|]. split.
  { split; [reflexivity|]. exists [], [], EIndex. split; [vm_compute; reflexivity|]. split; vm_compute; reflexivity. }
  split; [exact Hl|]. split.
  { intros m (_ & _ & (_ & Hu) & _). rewrite Hl in Hu. discriminate. }
  assert (Hn : 0 + r2h_created (ORemoveEntities 0 [] false) + 4 < Nat.pow 2 31).
  { cbn [r2h_created]. apply Nat.lt_trans with (m := Nat.pow 2 3); [cbn; lia|apply Nat.pow_lt_mono_r; lia]. }
  assert (Hreg : forall c, In c (r2h_op_ids (ORemoveEntities 0 [] false)) -> c < length (w_reg r2h_world_a)) by (intros c []).
  destruct (step_inv2B_storage false false r2h_world_a 0 [12; 0; 0]%Z (ORemoveEntities 0 [] false) HI Hn Hd eq_refl Hreg) as (A & _).
  exact A.
Qed.

(** (b) NewBatch with a callback and a value for a component outside [ids]: the callback of the first new entity panics
    (nil pointer); NewBatchFn has no deferred unlock: the step leaves the world locked. *)
Definition r2h_world_b : W := Properties.Common.exec Rel2Check.r2_cfg [].

Example step_inv2B_newbatch_refuted :
  Inv2 r2h_world_b 0 /\ decode_op [30; 1; 1;0; 0; 1; 1;5]%Z = Some (ONewBatch 1 [0] [] [(1, 5%Z)] false) /\
  r2h_leak (r2h_world_b <| w_log := [] |>) (ONewBatch 1 [0] [] [(1, 5%Z)] false) /\
  is_locked (fst (step false false r2h_world_b [30; 1; 1;0; 0; 1; 1;5]%Z)) = true /\
  (forall m, ~ Inv2 (fst (step false false r2h_world_b [30; 1; 1;0; 0; 1; 1;5]%Z)) m) /\
  Inv2L (fst (step false false r2h_world_b [30; 1; 1;0; 0; 1; 1;5]%Z)) 2.
Proof.
  assert (HI : Inv2 r2h_world_b 0) by (apply r2h_Inv2_empty; vm_compute; reflexivity).
  assert (Hd : decode_op [30; 1; 1;0; 0; 1; 1;5]%Z = Some (ONewBatch 1 [0] [] [(1, 5%Z)] false)) by (vm_compute; reflexivity).
  assert (Hl : is_locked (fst (step false false r2h_world_b [30; 1; 1;0; 0; 1; 1;5]%Z)) = true) by (vm_compute; reflexivity).
  split; [exact HI|]. split; [exact Hd|]. split.
  { split; [reflexivity|]. split; [lia|]. intros Hv. specialize (Hv (1, 5%Z) (or_introl eq_refl)). cbn in Hv. destruct Hv as [E|[]]; discriminate E. }
  split; [exact Hl|]. split.
  { intros m (_ & _ & (_ & Hu) & _). rewrite Hl in Hu. discriminate. }
  assert (Hn : 0 + r2h_created (ONewBatch 1 [0] [] [(1, 5%Z)] false) + 4 < Nat.pow 2 31).
  { cbn [r2h_created]. apply Nat.lt_trans with (m := Nat.pow 2 3); [cbn; lia|apply Nat.pow_lt_mono_r; lia]. }
  assert (Er : length (w_reg r2h_world_b) = 8) by (vm_compute; reflexivity).
  assert (Hreg : forall c, In c (r2h_op_ids (ONewBatch 1 [0] [] [(1, 5%Z)] false)) -> c < length (w_reg r2h_world_b)).
  { intros c [<-|[]]. rewrite Er. lia. }
  destruct (step_inv2B_storage false false r2h_world_b 0 [30; 1; 1;0; 0; 1; 1;5]%Z (ONewBatch 1 [0] [] [(1, 5%Z)] false) HI Hn Hd eq_refl Hreg) as (A & _).
  exact A.
Qed.

(** Non-vacuity of [step_inv2B]: a history that creates two parents, three children pointing to them and a filter,
    then removes the parents in one batch (with callback): the theorem applies (no leak: the selection succeeds). *)
Example step_inv2B_nonvacuous :
  exists n, Inv2 r2B_ex_world n /\ n + 4 < Nat.pow 2 31 /\
    decode_op [12; 0; 0]%Z = Some (ORemoveEntities 0 [] false) /\
    ~ r2h_leak (r2B_ex_world <| w_log := [] |>) (ORemoveEntities 0 [] false) /\
    Inv2 (fst (step false false r2B_ex_world [12; 0; 0]%Z)) (S n).
Proof.
  destruct r2B_ex_hyps as (HS & HK & Hno & Hunl & Hlock & Hg).
  exists 5.
  assert (HI : Inv2 r2B_ex_world 5).
  { split; [exact HS|]. split; [exact HK|]. split; [split; [exact Hno|exact Hunl]|].
    assert (Ei : w_issued r2B_ex_world = [(2, 0%N); (3, 0%N); (4, 0%N); (5, 0%N); (6, 0%N)]) by (vm_compute; reflexivity).
    assert (Ep : pe (w_pool r2B_ex_world) = [(0, max_u32); (1, max_u32); (2, 0%N); (3, 0%N); (4, 0%N); (5, 0%N); (6, 0%N)]) by (vm_compute; reflexivity).
    split; [|split].
    - intros e He. rewrite Ei in He. rewrite Ep.
      destruct He as [<-|[<-|[<-|[<-|[<-|[]]]]]]; (split; [cbn; lia|left; vm_compute; reflexivity]).
    - intros i l g E Hi. rewrite Ep in E.
      do 7 (destruct i as [|i]; [try lia; cbn in E; injection E as _ <-; lia|]). destruct i; discriminate.
    - rewrite Ep. cbn. lia. }
  assert (Hn : 5 + 4 < Nat.pow 2 31) by (apply Nat.lt_trans with (m := Nat.pow 2 4); [cbn; lia|apply Nat.pow_lt_mono_r; lia]).
  assert (Hd : decode_op [12; 0; 0]%Z = Some (ORemoveEntities 0 [] false)) by (vm_compute; reflexivity).
  assert (Hnl : ~ r2h_leak (r2B_ex_world <| w_log := [] |>) (ORemoveEntities 0 [] false)).
  { intros (_ & brels & br & er & E1 & E2 & E3).
    assert (Eb : brels = []) by (vm_compute in E1; injection E1 as <-; reflexivity). subst brels.
    assert (Ebr : br = []) by (vm_compute in E2; injection E2 as <-; reflexivity). subst br.
    vm_compute in E3. discriminate E3. }
  split; [exact HI|]. split; [exact Hn|]. split; [exact Hd|]. split; [exact Hnl|].
  assert (Hreg : forall c, In c (r2h_op_ids (ORemoveEntities 0 [] false)) -> c < length (w_reg r2B_ex_world)) by (intros c []).
  destruct (step_inv2B false false r2B_ex_world 5 [12; 0; 0]%Z (ORemoveEntities 0 [] false) HI Hn Hd eq_refl Hreg Hnl) as (A & _).
  exact A.
Qed.

(* ================================================================================================ *)
(** * Part 5: histories of single-entity and batch operations *)

Lemma r2h_issued_ok_mono : forall s n m, n <= m -> issued_ok s n -> issued_ok s m.
Proof.
  intros s n m H (I1 & I2 & I3). split; [exact I1|]. split; [|lia].
  intros i l g E Hi. pose proof (I2 i l g E Hi). lia.
Qed.

Lemma r2h_Inv2_mono : forall s n m, n <= m -> Inv2 s n -> Inv2 s m.
Proof. intros s n m H (A & B & C & D). split; [exact A|]. split; [exact B|]. split; [exact C|apply (r2h_issued_ok_mono s n m H D)]. Qed.

(** batch steps that cannot leak the lock, whatever the state: no callback for RemoveEntities; no callback, no entity
    or values within [ids] for NewBatch *)
Definition r2h_safe (o : op) : Prop :=
  match o with
  | ORemoveEntities _ _ nofn => nofn = true
  | ONewBatch m ids _ vals nofn => nofn = true \/ m = 0 \/ r2n_vals_ok ids vals
  | _ => True
  end.

Lemma r2h_safe_noleak : forall s o, r2h_safe o -> ~ r2h_leak s o.
Proof.
  intros s o Hs Hl. destruct o; cbn [r2h_safe r2h_leak] in *; try exact Hl.
  - destruct Hl as (E & _). congruence.
  - destruct Hl as (E & Hp & Hb). destruct Hs as [Hs|[Hs|Hs]]; [congruence|lia|contradiction].
Qed.

Definition r2h_line (nreg : nat) (line : list Z) : Prop :=
  rel_core_line nreg line \/
  exists o, decode_op line = Some o /\ r2h_batch_op o = true /\ (forall c, In c (r2h_op_ids o) -> c < nreg) /\ r2h_safe o.

(** the index of [issued_ok] a line costs *)
Definition r2h_cost (line : list Z) : nat :=
  match decode_op line with Some o => S (r2h_created o) | None => 1 end.
Definition r2h_total (lines : list (list Z)) : nat := list_sum (map r2h_cost lines).

Lemma r2h_total_app : forall l1 l2, r2h_total (l1 ++ l2) = r2h_total l1 + r2h_total l2.
Proof. intros l1 l2. unfold r2h_total. rewrite map_app, list_sum_app. reflexivity. Qed.

Lemma r2h_run_inv : forall c, cfg_ok2 c -> forall lines,
  Forall (r2h_line (length (sc_kinds c))) lines -> r2h_total lines + 4 < Nat.pow 2 31 ->
  Inv2 (Properties.Common.exec c lines) (r2h_total lines) /\ w_reg (Properties.Common.exec c lines) = sc_kinds c.
Proof.
  intros c Hc lines. induction lines as [|l lines IH] using rev_ind; intros HF Hb.
  - split; [apply r2e_init; exact Hc|reflexivity].
  - apply Forall_app in HF. destruct HF as (HF & Hl). inversion Hl as [|? ? Hline _]; subst.
    assert (Et : r2h_total (lines ++ [l]) = r2h_total lines + r2h_cost l) by (rewrite r2h_total_app; unfold r2h_total at 2; cbn [map list_sum fold_right]; lia).
    rewrite Et in *.
    destruct IH as (IH1 & IH2); [exact HF|lia|].
    unfold Properties.Common.exec in *. rewrite fold_left_app. cbn [fold_left].
    set (s := fold_left (fun s0 l0 => fst (step (sc_debug c) false s0 l0)) lines (init_world c)) in *.
    destruct Hline as [(o & Hd & Hco & Hids)|(o & Hd & Hbo & Hids & Hsafe)].
    + assert (Hcost : r2h_cost l = S (r2h_created o)) by (unfold r2h_cost; rewrite Hd; reflexivity).
      assert (Hcr : r2h_created o = 0) by (destruct o; try discriminate Hco; reflexivity).
      destruct (step_inv2 (sc_debug c) false s (r2h_total lines) l o IH1) as (S1 & S2 & _); auto; try lia.
      { rewrite IH2. exact Hids. }
      split; [|congruence]. apply (r2h_Inv2_mono _ (S (r2h_total lines))); [lia|exact S1].
    + assert (Hcost : r2h_cost l = S (r2h_created o)) by (unfold r2h_cost; rewrite Hd; reflexivity).
      destruct (step_inv2B (sc_debug c) false s (r2h_total lines) l o IH1) as (S1 & S2 & _); auto; try lia.
      { rewrite IH2. exact Hids. }
      { apply r2h_safe_noleak. exact Hsafe. }
      split; [|congruence]. rewrite Hcost. exact S1.
Qed.

(** Every state of every history made of covered single-entity operations ([rel_core_op]) and leak-free batch
    operations satisfies the invariant. *)
Theorem reachable_inv2B : forall c lines,
  cfg_ok2 c -> Forall (r2h_line (length (sc_kinds c))) lines -> r2h_total lines + 4 < Nat.pow 2 31 ->
  Inv2 (Properties.Common.exec c lines) (r2h_total lines).
Proof. intros c lines Hc Hl Hb. apply (r2h_run_inv c Hc lines Hl Hb). Qed.

(** ** Non-vacuity of [reachable_inv2B]: a boolean checker for the class and a history with batch creation *)
Definition r2h_safe_b (o : op) : bool :=
  match o with
  | ORemoveEntities _ _ nofn => nofn
  | ONewBatch m ids _ vals nofn => (nofn || Nat.eqb m 0 || forallb (fun cv : nat * Z => memb (fst cv) ids) vals)%bool
  | _ => true
  end.

Definition r2h_line_b (nreg : nat) (line : list Z) : bool :=
  (rel_core_line_b nreg line ||
   match decode_op line with
   | Some o => (r2h_batch_op o && forallb (fun c => Nat.ltb c nreg) (r2h_op_ids o) && r2h_safe_b o)%bool
   | None => false
   end)%bool.

Lemma r2h_safe_b_sound : forall o, r2h_safe_b o = true -> r2h_safe o.
Proof.
  intros o H. destruct o; cbn [r2h_safe_b r2h_safe] in *; try exact I; [exact H|].
  apply orb_true_iff in H. destruct H as [H|H]; [apply orb_true_iff in H; destruct H as [H|H]|].
  - left. exact H.
  - right. left. apply Nat.eqb_eq. exact H.
  - right. right. intros cv Hcv. rewrite forallb_forall in H. apply sa_memb_in. apply H. exact Hcv.
Qed.

Lemma r2h_line_b_sound : forall nreg lines, forallb (r2h_line_b nreg) lines = true -> Forall (r2h_line nreg) lines.
Proof.
  intros nreg lines H. apply Forall_forall. intros l Hl. rewrite forallb_forall in H. specialize (H l Hl).
  unfold r2h_line_b in H. apply orb_true_iff in H. destruct H as [H|H].
  - left. assert (HF : Forall (rel_core_line nreg) [l]) by (apply rel_core_line_b_sound; cbn [forallb]; rewrite H; reflexivity).
    inversion HF; assumption.
  - right. destruct (decode_op l) as [o|] eqn:E; [|discriminate].
    apply andb_true_iff in H. destruct H as (H12 & H3). apply andb_true_iff in H12. destruct H12 as (H1 & H2).
    exists o. split; [reflexivity|]. split; [exact H1|]. split; [|apply r2h_safe_b_sound; exact H3].
    intros c Hc. rewrite forallb_forall in H2. apply Nat.ltb_lt. apply H2. exact Hc.
Qed.

Open Scope Z_scope.
Definition r2h_script : list (list Z) :=
  [[0];                                   (* a parent *)
   [3; 3; 1];                             (* NewEntities 3, no callback *)
   [3; 2];                                (* NewEntities 2 with callback: handles issued from the log *)
   [30; 2; 2;0;3; 1; 3;0; 1; 0;7];        (* NewBatch 2, components {0,3}, relation 3 -> handle 0, value 7, with callback *)
   [30; 1; 1;3; 0; 0; 1];                 (* NewBatch without the relation target: rejected by the table finder *)
   [12; 0; 0; 1];                         (* RemoveEntities through a filter that does not exist, no callback: rejected *)
   [31; 0; 0; 1;1; 0; 0; 0];              (* ExchangeBatch, unknown filter: rejected *)
   [32; 0; 0; 1;3; 1; 3;0];               (* SetRelationsBatch, unknown filter: rejected *)
   [11; 0];                               (* the parent dies: the children of the batch are detached *)
   [35; 3; 3]].
Close Scope Z_scope.

Example r2h_script_covered : forallb (r2h_line_b 8) r2h_script = true.
Proof. vm_compute. reflexivity. Qed.

Example r2h_script_inv : Inv2 (Properties.Common.exec Rel2Check.r2_cfg r2h_script) (r2h_total r2h_script).
Proof.
  apply reachable_inv2B.
  - unfold cfg_ok2. cbn. lia.
  - apply r2h_line_b_sound. exact r2h_script_covered.
  - apply r2_N_small. vm_compute. reflexivity.
Qed.

(** what the history did: 1 + 3 + 2 + 2 entities were created, the two created with a callback in line 3 and the two of
    the NewBatch were handed out as handles 1..4; after the parent died the batch children point to the zero entity *)
Example r2h_script_runs :
  w_issued (Properties.Common.exec Rel2Check.r2_cfg r2h_script) = [(2, 0%N); (6, 0%N); (7, 0%N); (8, 0%N); (9, 0%N)] /\
  tgt (Properties.Common.exec Rel2Check.r2_cfg r2h_script) (8, 0%N) 3 = Some zero_ent /\
  val (Properties.Common.exec Rel2Check.r2_cfg r2h_script) (9, 0%N) 0 = Some 7%Z /\
  live (Properties.Common.exec Rel2Check.r2_cfg r2h_script) (2, 0%N) = false.
Proof. vm_compute. repeat split. Qed.

Definition r2h_all :=
  (r2h_issued_step, r2h_op_spec, step_inv2B_storage, step_inv2B, step_inv2B_remove_refuted, step_inv2B_newbatch_refuted, step_inv2B_nonvacuous,
   reachable_inv2B, r2h_script_inv, r2h_script_runs).
Print Assumptions r2h_all.
