(** * ObsSpec: statements about the observer manager (events.go). Property C08.

    Documented matching predicate per event family (docs/content/events, Observer.For/With/Without/
    Exclusive): an observer fires iff its event type matches and
      - entity events (create/remove entity): with ⊆ mask, mask ∩ without = ∅;
      - add events: comps ⊆ new, comps ∩ old = ∅, with/without against the old mask;
      - remove events: comps ⊆ old, comps ∩ new = ∅ ("all must be removed together"), with/without old;
      - set / relation-change / custom events: comps ⊆ changed, with/without against the entity mask.
    These are exactly [p_with], [p_entity_rel], [p_add], [p_remove], [p_set] of World.v; the content
    of C08 is that the *aggregate early-out* never suppresses an observer whose predicate holds and
    that dispatch calls exactly the matching observers, whatever else is registered. *)
From Ark Require Import Model.Base Model.Mask Model.Pool Model.World.

(** Observer-manager histories: register / unregister observer objects (by index) and Reset. *)
Inductive oop := ORegister (oi : nat) | OUnregister (oi : nat) | OResetObs.

Definition ostep (s : W) (o : oop) : W :=
  match o with
  | ORegister oi => state_of (add_observer oi s)
  | OUnregister oi => state_of (remove_observer oi s)
  | OResetObs => state_of (reset_observers s)
  end.

(** The observers matching [pred] among those registered for [evt], in list order. *)
Definition fired (s : W) (evt : nat) (pred : oobj -> bool) : list nat :=
  filter (fun oi => match nth_error (w_obs s) oi with Some o => pred o | None => false end) (olist s evt).

(** What dispatch must do: call the callback of exactly the matching observers, once each. *)
Definition dispatch_spec (cb : nat -> ent -> MW unit) (s : W) (evt : nat) (pred : oobj -> bool) (e : ent) : res W bool :=
  (forM_ (fired s evt pred) (fun oi => cb oi e) ;;; ret (negb (is_nil (fired s evt pred)))) s.

(** A callback that does not touch the observer manager (and does not fail). *)
Definition cb_stable (cb : nat -> ent -> MW unit) : Prop :=
  forall oi e s, exists s', cb oi e s = Ok tt s' /\ w_obs s' = w_obs s /\ w_olists s' = w_olists s /\ w_oagg s' = w_oagg s.

(** Initial manager state: no observer registered (arbitrary observer objects, all unregistered,
    masks not yet computed), empty lists and aggregates. *)
Definition obs_init (s : W) : Prop :=
  w_olists s = [] /\ w_oagg s = [] /\ w_ototal s = 0 /\ w_omax s = 0 /\ w_opool s = ipool_new /\
  (forall o, In o (w_obs s) -> o_id o = None /\ o_comps o = 0%N /\ o_with o = 0%N /\ o_without o = 0%N /\
                               o_event o < 256 /\
                               (forall c, In c (o_for o ++ o_withl o ++ o_withoutl o) -> c < length (w_reg s)) /\
                               (is_relation_event (o_event o) = true -> forall c, In c (o_for o) -> is_rel_comp s c = true)).
