(** * Rel2HistAllOR2: package U2: the merged class with observers AND Reset, batch lines WITH registered observers.
    Helper prefix [r2w_].

    Rel2HistAllOR proves the epoch-relative invariant [InvAllOR] over the class with observers, Reset, queries, filters and
    the batch operations, with the restriction [r2u_batch_quiet] on batch lines. As in Rel2HistAllO2 the restriction is
    removed with the simulation [oeb_step_all] of ObsEraseBatch: [step_inv_allOR_batch], [step_inv_allOR],
    [reachable_inv_allOR] (no [_partial], no [r2u_batch_quiet]; the side conditions left are those of Rel2HistAllR:
    registered ids, filter relations, foreign handles in relation-target position proper).
    The cut states are handled from state-level facts ([r2w_cut_trans]: every cut state of the erased run is an
    [r2h_trans] successor of the erased world), so the handle accounting relative to the epoch ([r2u_trans_issued_from]) applies. *)
From Ark Require Import Model.Base Model.Mask Model.Pool Model.Util Model.World Model.Run.
From Ark Require Import Proofs.TableProofs Proofs.MaskProofs Proofs.Hoare Proofs.WF Proofs.StorageA Proofs.StorageBDefs
  Proofs.StorageB_sb1 Proofs.StorageB_sb2 Proofs.StorageB_sb3 Proofs.LockWorld Proofs.StorageC Proofs.RelProofs
  Proofs.CacheProofs Proofs.QueryProofs Proofs.ResetShrinkProofs Proofs.BatchProofs Proofs.BatchOps
  Proofs.Rel2Defs Proofs.Rel2Struct Proofs.Rel2Remove Proofs.Rel2SetRel Proofs.Rel2Ops Proofs.Rel2Maint Proofs.Rel2Hist
  Proofs.Rel2Cache Proofs.Rel2BatchExchange Proofs.Rel2BatchSetRel Proofs.Rel2BatchHist Proofs.Rel2HistQ Proofs.Rel2HistAll
  Proofs.ObsErase Proofs.Rel2HistO Proofs.Rel2HistAllO Proofs.Rel2HistR Proofs.Rel2HistAllR Proofs.Rel2HistAllOR
  Proofs.ObsEraseBatch Proofs.Rel2HistAllO2.
From Ark Require Properties.Common Proofs.Rel2Check Proofs.StorageD.
From RecordUpdate Require Import RecordSet.
Import RecordSetNotations.
From Coq Require Import Lia.
Close Scope Z_scope.

(* ================================================================================================ *)
(** * Part 1: the cut states are transition successors of the erased world (state-level facts only) *)

Lemma r2w_trans_refl : forall t, St2 t -> r2d_KeysLive t -> r2e_noobs t -> r2h_trans 0 t t.
Proof. intros t HS HK HN. apply (r2u_trans_same t t HS HK HN eq_refl eq_refl eq_refl). intros x Hx. exact Hx. Qed.

Lemma r2w_trans_keepS : forall t t1 x, w_reg t1 = w_reg t -> w_issued t1 = w_issued t -> w_pool t1 = w_pool t ->
  (forall y, live t1 y = live t y) -> r2s_keep t1 x -> r2h_trans 0 t x.
Proof.
  intros t t1 x Er Ei Ep El (A & B & C & _ & HL & _ & EP & (F1 & _ & _ & _ & F5 & _)).
  apply (r2u_trans_same t x A B C); [congruence|congruence|congruence|]. intros y Hy. rewrite HL, El. exact Hy.
Qed.

Lemma r2w_trans_keepA : forall t t1 x, w_reg t1 = w_reg t -> w_issued t1 = w_issued t -> w_pool t1 = w_pool t ->
  (forall y, live t1 y = live t y) -> St2 t1 -> r2x_Q x -> r2a_keeps t1 x -> r2h_trans 0 t x.
Proof.
  intros t t1 x Er Ei Ep El HS1 (A & B & C) K. pose proof HS1 as HS'. apply St2_St2G in HS'. destruct HS' as (HW & HR & _ & _).
  destruct (r2a_keeps_obs r2_none t1 x HW HR K) as (CS & _).
  pose proof K as (_ & EP & _ & _ & _ & (F1 & _ & _ & _ & F5 & _)).
  apply (r2u_trans_same t x A B C); [congruence|congruence|congruence|]. intros y Hy. rewrite (proj1 (CS y)), El. exact Hy.
Qed.

Lemma r2w_cut_trans : forall o t v, St2 t -> r2d_KeysLive t -> r2e_noobs t -> is_locked t = false -> r2r_ids2 t ->
  room_n t (r2h_created o) -> registered t (r2h_op_ids o) -> r2u_handles_ok t o -> oeb_cut o t v ->
  exists x, v = oe_E x /\ r2h_trans (r2h_created o) t x.
Proof.
  intros o t v HS HK HN Hl Hids Hroom Hreg Hok Hc.
  destruct o; cbn [oeb_cut r2h_created r2h_op_ids] in *; try contradiction.
  - eexists. split; [exact Hc|].
    destruct (r2u_batch_spec false t (ONewEntities n true) HS HK HN Hl Hids Hroom eq_refl Hreg Hok) as ((T & _) & _).
    cbn [step_op negb r2h_created] in T. rewrite r2v_state_ret, (oeb_new_entities_quiet n t Hl HN) in T. exact T.
  - exists t. split; [exact Hc|]. apply (r2w_trans_refl t HS HK HN).
  - destruct Hc as (rels0 & E1 & Hc). eexists. split; [exact Hc|].
    destruct (r2u_batch_spec false t (ONewBatch n ids rels vals true) HS HK HN Hl Hids Hroom eq_refl Hreg Hok) as ((T & _) & _).
    cbn [step_op negb r2h_created] in T. rewrite (sa_bind_ok E1), r2v_state_ret, (oeb_new_batch_quiet n ids rels0 vals t Hl HN) in T. exact T.
  - destruct Hc as (brels0 & rels0 & br & E1 & E2 & E3 & E4 & [->|(L & ->)]).
    { exists t. split; [reflexivity|]. apply (r2w_trans_refl t HS HK HN). }
    set (t1 := t <| w_lock := L |>).
    destruct (r2x_Q_lock t L (conj HS (conj HK HN))) as (HS1 & HK1 & HN1). fold t1 in HS1, HK1, HN1.
    destruct Hok as (Hp & Hrange). cbn [rel_u_handles rel_u_ranged] in Hp, Hrange.
    pose proof (r2v_resolved _ _ _ E2) as HR.
    assert (Hargs : r2x_args t1 add rels0).
    { split; [exact Hreg|]. intros r Hr. split; [exact (r2u_targets_ok t HS Hids rels rels0 HR (r2u_hp_rels t rels Hp) r Hr)|].
      destruct (r2e_resolved_rev t rels rels0 r HR Hr) as (hr & Hin & _ & Hh).
      exact (Hrange (snd hr) (in_map snd _ _ Hin) (snd r) Hh). }
    eexists. split; [reflexivity|]. unfold oeb_xpre.
    pose proof (r2s_gbt_facts t1 f br HS1) as G. destruct (get_batch_tables f br t1) as [tabs t1'|er t1'] eqn:EG.
    2:{ subst t1'. rewrite (sa_bind_err EG). cbn [state_of].
        apply (r2u_trans_same t t1 HS1 HK1 HN1 eq_refl eq_refl eq_refl). intros x Hx. exact Hx. }
    destruct G as (-> & _). rewrite (sa_bind_ok EG).
    pose proof (r2x_collect False add rem rels0 tabs t1 [] false (conj HS1 (conj HK1 HN1)) Hargs (fun F => match F with end)) as PC.
    destruct (bo_collect add rem rels0 tabs [] false t1) as [[bs' rr'] x|er x] eqn:EC.
    + rewrite (sa_bind_ok EC). cbn [state_of ret]. destruct PC as (bs & _ & Qx & K & _).
      apply (r2w_trans_keepA t t1 x eq_refl eq_refl eq_refl (fun y => eq_refl) HS1 Qx K).
    + rewrite (sa_bind_err EC). cbn [state_of]. destruct PC as (Qx & K & _).
      apply (r2w_trans_keepA t t1 x eq_refl eq_refl eq_refl (fun y => eq_refl) HS1 Qx K).
  - destruct Hc as (brels0 & rels0 & br & E1 & E2 & E3 & E4 & [->|(L & Hv)]).
    { exists t. split; [reflexivity|]. apply (r2w_trans_refl t HS HK HN). }
    set (t1 := t <| w_lock := L |>) in *.
    destruct (r2x_Q_lock t L (conj HS (conj HK HN))) as (HS1 & HK1 & HN1). fold t1 in HS1, HK1, HN1.
    destruct Hok as (Hp & _). cbn [rel_u_handles] in Hp.
    pose proof (r2v_resolved _ _ _ E2) as HR.
    assert (Hhok : forall r, In r rels0 -> r2b_handle_ok t1 (snd r)).
    { intros r Hr. exact (r2u_targets_ok t HS Hids rels rels0 HR (r2u_hp_rels t rels Hp) r Hr). }
    assert (T1 : r2h_trans 0 t t1).
    { apply (r2u_trans_same t t1 HS1 HK1 HN1 eq_refl eq_refl eq_refl). intros x Hx. exact Hx. }
    pose proof (r2s_gbt_facts t1 f br HS1) as G.
    assert (Both : r2h_trans 0 t (state_of (oeb_spre1 f br rels0 t1)) /\ r2h_trans 0 t (state_of (oeb_spre2 f br rels0 t1))).
    { unfold oeb_spre1, oeb_spre2. destruct (get_batch_tables f br t1) as [tabs t1'|er t1'] eqn:EG.
      2:{ subst t1'. rewrite !(sa_bind_err EG). split; exact T1. }
      destruct G as (-> & Hnd & Hval). rewrite !(sa_bind_ok EG).
      pose proof (r2s_plan_loop False rels0 tabs t1 HS1 HK1 HN1 Hhok Hnd Hval (fun F => match F with end)) as PL.
      destruct (mapM tabs (fun tid => set_relations_plan tid rels0) t1) as [ps x1|er x1] eqn:EP.
      2:{ rewrite !(sa_bind_err EP). cbn [state_of]. destruct PL as ((K1 & _) & _).
          split; apply (r2w_trans_keepS t t1 x1 eq_refl eq_refl eq_refl (fun y => eq_refl) K1). }
      rewrite !(sa_bind_ok EP). destruct PL as ((K1 & _) & PO & _).
      split; [cbn [state_of ret]; apply (r2w_trans_keepS t t1 x1 eq_refl eq_refl eq_refl (fun y => eq_refl) K1)|].
      pose proof K1 as (HSx & HKx & HNx & _).
      destruct (r2s_move_loop rels0 (opt_list ps) x1 HSx HKx HNx PO) as (mv & x2 & EM & K2 & _).
      rewrite (sa_bind_ok EM). cbn [state_of ret].
      apply (r2w_trans_keepS t t1 x2 eq_refl eq_refl eq_refl (fun y => eq_refl) (r2s_keep_trans t1 x1 x2 K1 K2)). }
    destruct Hv as [-> | ->]; eexists; (split; [reflexivity|]); [exact (proj1 Both)|exact (proj2 Both)].
Qed.

(* ================================================================================================ *)
(** * Part 2: a batch step under the epoch-relative invariant, with observers *)

(** the invariant with fewer handles issued *)
Lemma r2w_RO_sub : forall s' sr es n k, oe_E s' = oe_E sr ->
  Inv2RO (sr <| w_issued ::= fun l => l ++ es |> <| w_log := [] |>) n k -> Inv2RO s' n k.
Proof.
  intros s' sr es n k E (H1 & H2 & H3 & H4 & H5 & H6).
  destruct (r2o_fields_ext sr s' E) as (E1 & E2 & E3 & E4 & E5 & E6 & E7 & E8 & E9 & E10 & E11 & E12 & E13 & E14).
  set (t' := sr <| w_issued ::= fun l => l ++ es |> <| w_log := [] |>) in *.
  assert (HL : forall x, live s' x = live t' x) by (apply r2_live_ext; [exact E4|exact E7]).
  split; [apply (r2e_St2_ext t' s'); try assumption|].
  split; [apply (r2d_KeysLive_mono t' s' H2 E6); intros x Hx; rewrite HL; exact Hx|].
  split; [apply (r2r_issued_ext k t' s' n E3 HL); [|exact H3]|].
  { intros x Hx. left. rewrite E14 in Hx. change (In x (skipn k (w_issued sr ++ es))). rewrite skipn_app. apply in_or_app. left. exact Hx. }
  split; [apply (r2q_tabled_ext t' s' E6 H4)|]. split; [apply (r2q_filters_ok_ext t' s' E2 E13 H5)|].
  intros x Hx. rewrite E14 in Hx. apply H6. change (In x (w_issued sr ++ es)). apply in_or_app. left. exact Hx.
Qed.

Theorem step_inv_allOR_batch : forall debug wd s n k line o,
  InvAllOR s n k -> n + r2h_created o + 4 < Nat.pow 2 31 -> decode_op line = Some o -> r2h_batch_op o = true ->
  (forall c, In c (r2h_op_ids o) -> c < length (w_reg s)) ->
  (is_locked s = false -> r2u_foreign_ok k s o) ->
  let s' := fst (step debug wd s line) in
  InvAllOR s' (n + S (r2h_created o)) k /\ w_reg s' = w_reg s.
Proof.
  intros debug wd s n k line o HI Hn Hd Hb Hreg Hfor. cbv zeta. unfold InvAllOR in *.
  destruct (is_locked s) eqn:Hl.
  - rewrite (r2u_batch_locked debug wd s line o Hd Hb Hl).
    split; [apply (r2u_RO_mono _ n); [lia|apply r2u_RO_log; exact HI]|reflexivity].
  - pose proof (proj1 (r2u_RO_iff s n k) HI) as HR.
    assert (Hfor' : is_locked (oe_E s) = false -> r2u_foreign_ok k (oe_E s) o) by (intros _; exact (Hfor eq_refl)).
    destruct (step_inv_allR_batch debug wd (oe_E s) n k line o HR Hn Hd Hb Hreg Hfor') as (T1 & T2 & _). cbv zeta in T1, T2.
    pose proof (r2u_RO_of_R _ _ _ T1) as T1'.
    destruct (oeb_step_all debug wd s line o Hd Hb Hl) as [E|[E|E]]; cbv zeta in E.
    + split; [apply (r2u_RO_ext _ _ _ _ E T1')|].
      destruct (r2o_fields_ext _ _ E) as (_ & Er & _). rewrite Er. exact T2.
    + rewrite (r2h_step_state debug wd (oe_E s) line o Hd Hb) in T1', T2. cbv zeta in T1', T2.
      set (r := step_op debug o (oe_E s <| w_log := [] |>)) in *.
      destruct (issues_from_log o && negb (is_err r))%bool.
      * split; [apply (r2w_RO_sub _ (state_of r) _ _ _ E T1')|].
        destruct (r2o_fields_ext _ _ E) as (_ & Er & _). rewrite Er. exact T2.
      * assert (E' : oe_E (fst (step debug wd s line)) = oe_E (state_of r <| w_log := [] |>)) by (rewrite E; reflexivity).
        split; [apply (r2u_RO_ext _ _ _ _ E' T1')|].
        destruct (r2o_fields_ext _ _ E') as (_ & Er & _). rewrite Er. exact T2.
    + set (s' := fst (step debug wd s line)) in *.
      pose proof (r2r_Inv2R_log (oe_E s) n k [] HR) as HR0. set (t0 := oe_E s <| w_log := [] |>) in *.
      destruct HR0 as (HS0 & HK0 & HN0 & Hiss0 & _ & _ & Hids0).
      assert (Hroom0 : room_n t0 (r2h_created o)) by (destruct Hiss0 as (_ & _ & I3); unfold room_n; sc_lia).
      assert (Hok0 : r2u_handles_ok t0 o).
      { apply r2u_handles_ok_log. apply (r2u_current_ok (oe_E s) n k o); [apply HR|apply HR|exact (Hfor eq_refl)]. }
      destruct (r2w_cut_trans o t0 (oe_E s') HS0 HK0 HN0 eq_refl Hids0 Hroom0 Hreg Hok0 E) as (x & Ex & T).
      pose proof (r2u_trans_issued_from k t0 x n (r2h_created o) (proj1 HS0) Hiss0 Hn T) as HIs.
      destruct T as (X1 & X2 & _ & X4 & X5 & _).
      assert (Hidsx : r2r_ids2 x) by (intros y Hy; rewrite X5 in Hy; apply (Hids0 y Hy)).
      destruct (r2u_core_ext_R x s' _ k Ex X1 X2 HIs Hidsx) as (A1 & A2 & A3 & A4 & A5 & _).
      assert (Er : w_reg s' = w_reg s) by (rewrite A5, X4; reflexivity).
      pose proof (r2u_fr_step debug wd s line o Hd Hb) as Hfr. fold s' in Hfr.
      pose proof HI as (HS & _ & _ & HT & HF & _).
      split; [|exact Er].
      split; [exact A1|]. split; [exact A2|]. split; [exact A3|].
      split; [apply (r2u_fr_H s s' Hfr HS A1 HT)|].
      split; [destruct Hfr as (_ & (Ef & _)); apply (r2q_filters_ok_ext s s' Er Ef HF)|exact A4].
Qed.

Theorem step_inv_allOR : forall debug wd s n k line o,
  InvAllOR s n k -> n + r2h_created o + 4 < Nat.pow 2 31 -> decode_op line = Some o -> rel_allOR_op o = true ->
  (forall c, In c (rel_all_ids o) -> c < length (w_reg s)) -> rel_q_flt_ok (w_reg s) o ->
  (is_locked s = false -> r2r_foreign_ok k s o /\ r2u_foreign_ok k s o) ->
  let s' := fst (step debug wd s line) in
  InvAllOR s' (n + S (r2h_created o)) (r2r_epoch k s o) /\ w_reg s' = w_reg s.
Proof.
  intros debug wd s n k line o HI Hn Hd Hop Hreg Hflt Hfor. cbv zeta.
  destruct (r2h_batch_op o) eqn:Hb.
  - assert (Hk : r2r_epoch k s o = k) by (destruct o; try discriminate Hb; reflexivity). rewrite Hk.
    apply (step_inv_allOR_batch debug wd s n k line o HI Hn Hd Hb).
    + intros c Hin. apply Hreg. unfold rel_all_ids. apply in_or_app. right. exact Hin.
    + intros Hl. apply (Hfor Hl).
  - destruct (step_inv_allOR_partial debug wd s n k line o HI Hn Hd Hop Hreg Hflt Hfor) as (S1 & S2 & _).
    { intros Hb'. congruence. }
    split; assumption.
Qed.

(* ================================================================================================ *)
(** * Part 3: histories *)

Definition rel_allOR_line2 (reg : list ckind) (sk : W * nat) (line : list Z) : Prop :=
  exists o, decode_op line = Some o /\ rel_allOR_op o = true /\ (forall c, In c (rel_all_ids o) -> c < length reg) /\
            rel_q_flt_ok reg o /\
            (is_locked (fst sk) = false -> r2r_foreign_ok (snd sk) (fst sk) o /\ r2u_foreign_ok (snd sk) (fst sk) o).

Fixpoint rel_allOR_hist2 (debug : bool) (reg : list ckind) (sk : W * nat) (lines : list (list Z)) : Prop :=
  match lines with
  | [] => True
  | l :: rest => rel_allOR_line2 reg sk l /\ rel_allOR_hist2 debug reg (r2r_step debug sk l) rest
  end.

Theorem r2w_run_inv_OR : forall debug reg lines s n k,
  InvAllOR s n k -> w_reg s = reg -> rel_allOR_hist2 debug reg (s, k) lines -> n + r2h_total lines + 4 < Nat.pow 2 31 ->
  InvAllOR (fst (r2r_run_from debug (s, k) lines)) (n + r2h_total lines) (snd (r2r_run_from debug (s, k) lines)) /\
  w_reg (fst (r2r_run_from debug (s, k) lines)) = reg.
Proof.
  intros debug reg lines. induction lines as [|l lines IH]; intros s n k HI Hr HH Hb.
  - cbn. rewrite Nat.add_0_r. split; assumption.
  - cbn [rel_allOR_hist2] in HH. destruct HH as ((o & Hd & Hop & Hids & Hflt & Hfor) & HH).
    assert (Et : r2h_total (l :: lines) = r2h_cost l + r2h_total lines) by reflexivity.
    assert (Hcost : r2h_cost l = S (r2h_created o)) by (unfold r2h_cost; rewrite Hd; reflexivity).
    rewrite Et, Hcost in *.
    unfold r2r_run_from in *. cbn [fold_left]. cbn [fst snd] in Hfor.
    destruct (step_inv_allOR debug false s n k l o HI) as (S1 & S2); auto; try lia.
    { rewrite Hr. exact Hids. }
    { rewrite Hr. exact Hflt. }
    unfold r2r_step in *. cbn [fst snd] in *. rewrite Hd in *.
    destruct (IH _ (n + S (r2h_created o)) _ S1) as (A & B); [congruence|exact HH|lia|].
    replace (n + (S (r2h_created o) + r2h_total lines)) with (n + S (r2h_created o) + r2h_total lines) by lia.
    split; assumption.
Qed.

Theorem reachable_inv_allOR : forall c lines,
  cfg_ok2 c -> rel_allOR_hist2 (sc_debug c) (sc_kinds c) (init_world c, 0) lines -> r2h_total lines + 4 < Nat.pow 2 31 ->
  InvAllOR (Properties.Common.exec c lines) (r2h_total lines) (r2r_epoch_of c lines).
Proof.
  intros c lines Hc HH Hb. rewrite <- r2r_run_exec. unfold r2r_epoch_of, r2r_run.
  destruct (r2w_run_inv_OR (sc_debug c) (sc_kinds c) lines (init_world c) 0 0) as (A & _); auto.
  apply r2u_RO_of_R. apply r2r_Inv2R_of_Q. apply r2q_init. exact Hc.
Qed.

(** the histories of Rel2HistAllOR are covered (the side condition on batch lines is dropped) *)
Lemma rel_allOR_hist_hist2 : forall debug reg lines sk, rel_allOR_hist debug reg sk lines -> rel_allOR_hist2 debug reg sk lines.
Proof.
  intros debug reg lines. induction lines as [|l lines IH]; intros sk H; [exact I|].
  cbn [rel_allOR_hist] in H. destruct H as ((o & Hd & Hop & Hids & Hflt & Hfor & _) & HH). split; [|apply IH; exact HH].
  exists o. repeat (split; [assumption|]). exact Hfor.
Qed.

(** C04 over the class *)
Theorem targets_always_zero_or_alive_allOR : forall c lines e cmp x,
  cfg_ok2 c -> rel_allOR_hist2 (sc_debug c) (sc_kinds c) (init_world c, 0) lines -> r2h_total lines + 4 < Nat.pow 2 31 ->
  tgt (Properties.Common.exec c lines) e cmp = Some x ->
  x = zero_ent \/ live (Properties.Common.exec c lines) x = true.
Proof.
  intros c lines e cmp x Hc Hl Hb H. destruct (reachable_inv_allOR c lines Hc Hl Hb) as (HS & _).
  apply (r2_St2_targets _ e cmp x HS H).
Qed.

(** Reset succeeds in every unlocked reachable state, with or without observers; the erased result is a fresh world. *)
Theorem reachable_unlocked_reset_succeeds_allOR : forall c lines wd line,
  cfg_ok2 c -> rel_allOR_hist2 (sc_debug c) (sc_kinds c) (init_world c, 0) lines -> r2h_total lines + 4 < Nat.pow 2 31 ->
  decode_op line = Some OReset -> is_locked (Properties.Common.exec c lines) = false ->
  let s := Properties.Common.exec c lines in
  is_err (step_op (sc_debug c) OReset (s <| w_log := [] |>)) = false /\ r2r_fresh (oe_E (fst (step (sc_debug c) wd s line))).
Proof.
  intros c lines wd line Hc Hl Hb Hd Hlk s.
  destruct (r2u_reset_step_OR (sc_debug c) wd s _ _ line (reachable_inv_allOR c lines Hc Hl Hb) Hd) as (_ & _ & _ & A & _).
  destruct (A Hlk) as (A1 & A2). split; assumption.
Qed.

(* ================================================================================================ *)
(** * Part 4: a checker for histories, non-vacuity *)

Definition rel_allOR_line2_b (reg : list ckind) (sk : W * nat) (line : list Z) : bool :=
  match decode_op line with
  | Some o => (rel_allOR_op o && forallb (fun c => Nat.ltb c (length reg)) (rel_all_ids o) && rel_q_flt_okb reg o &&
               r2r_foreign_okb (fst sk) o && r2u_foreign_okb (fst sk) o)%bool
  | None => false
  end.

Fixpoint rel_allOR_hist2_b (debug : bool) (reg : list ckind) (sk : W * nat) (lines : list (list Z)) : bool :=
  match lines with
  | [] => true
  | l :: rest => (rel_allOR_line2_b reg sk l && rel_allOR_hist2_b debug reg (r2r_step debug sk l) rest)%bool
  end.

Lemma rel_allOR_hist2_b_sound : forall debug reg lines sk, rel_allOR_hist2_b debug reg sk lines = true -> rel_allOR_hist2 debug reg sk lines.
Proof.
  intros debug reg lines. induction lines as [|l lines IH]; intros sk H; [exact I|].
  cbn [rel_allOR_hist2_b] in H. apply andb_true_iff in H. destruct H as (H1 & H2). split; [|apply IH; exact H2].
  unfold rel_allOR_line2_b in H1. destruct (decode_op l) as [o|] eqn:E; [|discriminate].
  apply andb_true_iff in H1. destruct H1 as (H1234 & H5).
  apply andb_true_iff in H1234. destruct H1234 as (H123 & H4). apply andb_true_iff in H123. destruct H123 as (H12 & H3).
  apply andb_true_iff in H12. destruct H12 as (H1 & H2').
  exists o. split; [exact E|]. split; [exact H1|]. split; [|split; [apply rel_q_flt_okb_sound; exact H3|]].
  - intros c Hc. rewrite forallb_forall in H2'. apply Nat.ltb_lt. apply H2'. exact Hc.
  - intros _. split; [apply r2r_foreign_okb_sound; exact H4|apply r2u_foreign_okb_sound; exact H5].
Qed.

Local Open Scope Z_scope.

(** observer 0 = OnAddRelations for component 3, unregisters itself in its callback; observer 1 = OnCreateEntity, passive;
    observer 2 = OnRemoveRelations, passive; observer 3 = OnRemoveEntity, its callback unregisters observer 1 *)
Definition r2w_scriptOR : list (list Z) :=
  [[0]; [0];                              (* handles 0 = (2,0), 1 = (3,0) *)
   [25; 254; 1;3; 0; 0; 0; 1];            (* observer 0 *)
   [25; 249; 0; 0; 0; 0; 0];              (* observer 1 *)
   [25; 255; 0; 0; 0; 0; 0];              (* observer 2 *)
   [25; 250; 0; 0; 0; 0; 3];              (* observer 3 *)
   [26; 0]; [26; 1]; [26; 2]; [26; 3];
   [30; 2; 2;0;3; 1; 3;0; 1; 0;7; 0];     (* NewBatch WITH observers registered: handles 2, 3; create pass + relation pass *)
   [15; 0; 1;0; 0; 0; 0];                 (* filter 0: component 0 *)
   [13];                                  (* RESET with observers registered: the observers are gone; epoch 4 *)
   [0];                                   (* handle 4 = (2,0): the foreign handle 0 aliases it *)
   [26; 1]; [26; 0]; [26; 2]; [26; 3];    (* the observers registered again (the objects survive Reset) *)
   [30; 2; 2;0;3; 1; 3;0; 1; 0;7; 0];     (* NewBatch, relation target = FOREIGN handle 0, observers registered: handles 5, 6 *)
   [26; 0];
   [32; 0; 0; 1;3; 1; 3;5];               (* SetRelationsBatch through filter 0 with observers registered *)
   [31; 0; 0; 1;1; 0; 0; 0];              (* ExchangeBatch with observers registered *)
   [12; 0; 0; 0];                         (* RemoveEntities with observers registered *)
   [13]; [38]].

Example r2w_scriptOR_covered :
  rel_allOR_hist2_b false (sc_kinds Rel2Check.r2_cfg) (init_world Rel2Check.r2_cfg, 0%nat) r2w_scriptOR = true.
Proof. vm_compute. reflexivity. Qed.

(** the script is not in the class of Rel2HistAllOR *)
Example r2w_scriptOR_new :
  rel_allOR_hist_b false (sc_kinds Rel2Check.r2_cfg) (init_world Rel2Check.r2_cfg, 0%nat) r2w_scriptOR = false.
Proof. vm_compute. reflexivity. Qed.

Example r2w_scriptOR_inv :
  InvAllOR (Properties.Common.exec Rel2Check.r2_cfg r2w_scriptOR) (r2h_total r2w_scriptOR) (r2r_epoch_of Rel2Check.r2_cfg r2w_scriptOR).
Proof.
  apply reachable_inv_allOR; [exact r2q_cfg_ok|apply rel_allOR_hist2_b_sound; exact r2w_scriptOR_covered|].
  apply r2_N_small. vm_compute. reflexivity.
Qed.

Local Close Scope Z_scope.

(** no line fails; callback / batch log entries per line; the final epoch *)
Example r2w_scriptOR_runs :
  Rel2Check.r2_flags Rel2Check.r2_cfg (init_world Rel2Check.r2_cfg) r2w_scriptOR = repeat 0%Z 25 /\
  r2o_logs false (init_world Rel2Check.r2_cfg) r2w_scriptOR = [0;0; 0;0;0;0; 0;0;0;0; 5; 0; 0; 0; 0;0;0;0; 5; 0; 5; 2; 6; 0; 0] /\
  r2r_epoch_of Rel2Check.r2_cfg r2w_scriptOR = 7.
Proof. vm_compute. repeat split; reflexivity. Qed.

Definition r2w_all :=
  (r2w_cut_trans, step_inv_allOR_batch, step_inv_allOR, r2w_run_inv_OR, reachable_inv_allOR, rel_allOR_hist_hist2,
   targets_always_zero_or_alive_allOR, reachable_unlocked_reset_succeeds_allOR, rel_allOR_hist2_b_sound, r2w_scriptOR_inv, r2w_scriptOR_new, r2w_scriptOR_runs).
Print Assumptions r2w_all.
