(** * QueryExact: C03 end to end for worlds WITH relation components - a query visits exactly the
    entities that match its filter and its relation targets, each once; Count and EntityAt agree with
    the iteration; after every history of Rel2HistQ. Helper prefix [qx_].

    The specification is stated on the ABSTRACT world only: [live s e], [comps_of s e] (WF.v),
    [tgt s e c] (Rel2Defs.v) and the registry ([is_rel_comp]):

      [matches_spec s f rels e] :=  e is live, its component list contains every component of the filter's
        mask, contains none of the filter's Without mask (Exclusive: Without = complement of the mask), and
        for every (c, x) of [rels]: [tgt s e c = Some x] (the target is compared WITH its generation).

    What the model (and ark) does for an arbitrary relation list is slightly different, and is
    characterised exactly by [qx_model hd s f rels e]: as [matches_spec], except that
      (D1) an entity of an archetype WITHOUT relation components is visited whatever [rels] says
           (archetype.GetTables returns the single table, table.Matches answers true for a table
           without relations), and
      (D2) on the UNCACHED path ([hd = true]) the FIRST relation of the list must name a relation
           component (archetype.GetTables looks the target up in the per-column map of that component,
           which is empty for a plain component; later positions are compared against the column's
           stored target, the zero entity for a plain component).
    Both coincide with [matches_spec] as soon as the relation list names relation components of the
    filter's mask ([qx_model_natural]) - which [to_relations] checks for every typed filter, and the
    histories of Rel2HistQ guarantee for the relations FIXED in any filter. For an UnsafeFilter with
    arbitrary per-query relations the deviation is real ([qx_unsafe_natural_refuted]).

    Main results.
    - [qx_arch_sel_spec], [qx_sel_list_spec]: the uncached table selection for ARBITRARY relation lists
      (Rel2Cache's [r2k_arch_sel_spec] needs [r2k_rels_ok]); [qx_cached_spec] for the cached path.
    - [qx_model_table]: table level <-> entity level; [qx_rows_nodup]: rows of distinct tables are distinct.
    - [qx_query_exact]: in every state satisfying the invariants, for every filter object and every
      successful Query(rels...) (typed with rare-component preselection, unsafe, registered): the walk
      succeeds, the visited list is duplicate-free, contains exactly the [qx_model] entities, is a
      permutation of [filter (qx_model_b ..) (qx_all_rows s)], Count = its length, EntityAt i = its i-th
      element, Next/Entity until exhaustion yields exactly it and closes the query.
    - [qx_query_exact_typed]: for typed filters the set is [matches_spec].
    - [reachable_query_exact], [reachable_query_exact_typed]: after every history of Rel2HistQ.
    - [qx_query_all_exact]: the operation OQueryAll returns Count, the number visited and the visited list. *)
From Ark Require Import Model.Base Model.Mask Model.Pool Model.Util Model.World Model.Run.
From Ark Require Import Proofs.TableProofs Proofs.MaskProofs Proofs.ObsDoc Proofs.Hoare Proofs.WF Proofs.StorageA Proofs.StorageC
  Proofs.LockWorld Proofs.RelProofs Proofs.CacheProofs Proofs.QueryProofs
  Proofs.Rel2Defs Proofs.Rel2Struct Proofs.Rel2Hist Proofs.Rel2Cache Proofs.Rel2HistQ Proofs.QueryExactIdx.
From Ark Require Properties.Common Proofs.Rel2Check Proofs.StorageD.
From RecordUpdate Require Import RecordSet.
Import RecordSetNotations.
From Coq Require Import Lia Permutation.
Close Scope Z_scope.

(* ================================================================================================ *)
(** * Part 1: table selection for arbitrary relation lists *)

(** What archetype.GetTables adds to table.Matches on the uncached path. *)
Definition qx_head (s : W) (rels : list rel) : Prop :=
  match rels with [] => True | r :: _ => is_rel_comp s (fst r) = true end.

Definition qx_of_arch (s : W) (aid : nat) (rels : list rel) (tid : nat) : Prop :=
  exists t, nth_error (w_tables s) tid = Some t /\ t_free t = false /\ t_arch t = aid /\
            tbl_matches t rels = Some true /\ (tbl_has_rels t = true -> qx_head s rels).

Definition qx_tsel (hd : bool) (s : W) (f : fobj) (rels : list rel) (tid : nat) : Prop :=
  exists t a, nth_error (w_tables s) tid = Some t /\ t_free t = false /\
              nth_error (w_archs s) (t_arch t) = Some a /\ filter_matches f (a_mask a) = true /\
              tbl_matches t rels = Some true /\ (hd = true -> tbl_has_rels t = true -> qx_head s rels).

Lemma qx_rels_match_some : forall t rels, rels_match t rels <> None.
Proof.
  intros t rels. induction rels as [|[c tg] rest IH]; cbn [rels_match]; [discriminate|].
  destruct (tbl_target t c) as [x|]; [|discriminate]. destruct (ent_eqb tg x); [exact IH|discriminate].
Qed.

(** Since the repair of table.Matches (69d7fda) the match never dereferences a missing column. *)
Lemma qx_tbl_matches_some : forall t rels, tbl_matches t rels <> None.
Proof.
  intros t rels. rewrite r2k_tbl_matches_eq. destruct (tbl_has_rels t); [apply qx_rels_match_some|discriminate].
Qed.

Lemma qx_is_rel_kind : forall s c, ck_rel (kind_of s c) = is_rel_comp s c.
Proof. intros s c. unfold kind_of, is_rel_comp. destruct (nth_error (w_reg s) c); reflexivity. Qed.

Lemma qx_relcol_is_rel : forall s aid a c i, WF s -> nth_error (w_archs s) aid = Some a ->
  nth_error (a_comps a) i = Some c -> r2_relcol a i -> is_rel_comp s c = true.
Proof.
  intros s aid a c i HW Ha Hc Hr. destruct (wf_arch_comps s HW aid a Ha) as (_ & _ & Hisrel & _).
  unfold r2_relcol in Hr. rewrite Hisrel, nth_error_map, Hc in Hr. cbn [option_map] in Hr. injection Hr as Hr.
  rewrite qx_is_rel_kind in Hr. exact Hr.
Qed.

Lemma qx_comp_in_mask : forall s aid a c, WF s -> nth_error (w_archs s) aid = Some a ->
  (In c (a_comps a) <-> mk_get (a_mask a) c = true).
Proof.
  intros s aid a c HW Ha. destruct (wf_arch_comps s HW aid a Ha) as (Hcomps & Hlt & _). rewrite Hcomps, mk_to_list_spec.
  split; [intros (_ & H); exact H|intros H; split; [apply Hlt; exact H|exact H]].
Qed.

(** Tables of an archetype with / without relation components. *)
Lemma qx_has_rels_table : forall s tid t a, St2 s -> nth_error (w_tables s) tid = Some t ->
  nth_error (w_archs s) (t_arch t) = Some a -> tbl_has_rels t = arch_has_rels a.
Proof.
  intros s tid t a (HW & (HR & _) & _) Ht Ha. destruct (ri_shape _ _ HR tid t a Ht Ha) as (_ & _ & _ & Hn).
  rewrite r2k_has_rels_numrel, <- Hn. unfold tbl_has_rels. destruct (t_rels t); reflexivity.
Qed.

(** A relation on a component the archetype lacks, or on a plain component: no candidate table. *)
Lemma qx_get_tables_bad : forall s aid a c tg rest, St2 s -> nth_error (w_archs s) aid = Some a ->
  arch_has_rels a = true -> (is_rel_comp s c = false \/ mk_get (a_mask a) c = false) ->
  arch_get_tables a ((c, tg) :: rest) = Some [].
Proof.
  intros s aid a c tg rest (HW & (HR & _) & _) Ha Hh Hbad. unfold arch_get_tables. rewrite Hh. cbn [negb].
  destruct (index_of c (a_comps a)) as [idx|] eqn:Ei; [|reflexivity].
  pose proof (rl_index_of_some _ _ _ Ei) as Hc.
  destruct (wf_arch_comps s HW aid a Ha) as (_ & _ & _ & _ & Hlen).
  destruct (nth_error (a_reltabs a) idx) as [m|] eqn:Em.
  2:{ apply nth_error_None in Em. pose proof (sa_nth_error_lt _ _ _ _ Hc). lia. }
  destruct (afind (fst tg) m) as [l|] eqn:El; [|reflexivity]. exfalso.
  destruct (ri_reltabs _ _ HR aid a idx m (fst tg) l Ha Em El) as (_ & Hrc & _).
  pose proof (qx_relcol_is_rel s aid a c idx HW Ha Hc Hrc) as Hrel.
  destruct Hbad as [Hb|Hb]; [congruence|].
  assert (Hin : In c (a_comps a)) by (eapply nth_error_In; exact Hc).
  apply (qx_comp_in_mask s aid a c HW Ha) in Hin. congruence.
Qed.

(** What the uncached walk selects in ONE archetype, for an ARBITRARY relation list. *)
Lemma qx_arch_sel_spec : forall s f rels aid a, St2 s -> nth_error (w_archs s) aid = Some a ->
  filter_matches f (a_mask a) = true ->
  match r2k_arch_sel (w_tables s) f rels a with
  | inr ts => NoDup ts /\ forall tid, In tid ts <-> qx_of_arch s aid rels tid
  | inl e => e = EIndex /\ a_numrel a = 0 /\ a_tables a = []
  end.
Proof.
  intros s f rels aid a HS Ha Hm. pose proof HS as (HW & (HR & _) & _).
  unfold r2k_arch_sel. rewrite Hm. cbn [negb]. destruct (arch_has_rels a) eqn:Eh; cbn [negb].
  - (* archetype with relation components *)
    assert (Hhr : forall tid t, nth_error (w_tables s) tid = Some t -> t_arch t = aid -> tbl_has_rels t = true).
    { intros tid t Ht Harch. rewrite <- Harch in Ha. rewrite (qx_has_rels_table s tid t a HS Ht Ha). exact Eh. }
    assert (Hcand : forall cand, NoDup cand -> qx_head s rels ->
      (forall tid, In tid cand -> exists t, nth_error (w_tables s) tid = Some t /\ t_free t = false /\ t_arch t = aid) ->
      (forall tid t, nth_error (w_tables s) tid = Some t -> t_free t = false -> t_arch t = aid ->
         tbl_matches t rels = Some true -> In tid cand) ->
      match k_tm_pure (w_tables s) rels false cand [] with
      | inr ts => NoDup ts /\ forall tid, In tid ts <-> qx_of_arch s aid rels tid
      | inl e => e = EIndex /\ a_numrel a = 0 /\ a_tables a = []
      end).
    { intros cand Hnd Hhd Hsound Hcompl. rewrite r2k_tm_pure_filter.
      - cbn [rev app]. split; [apply NoDup_filter; exact Hnd|]. intros tid. rewrite filter_In, r2k_keep_iff. split.
        + intros (Hin & t & Ht & _ & Hmt). destruct (Hsound tid Hin) as (t' & Ht' & Hf & Harch).
          rewrite Ht in Ht'. injection Ht' as <-. exists t. repeat split; try assumption. intros _. exact Hhd.
        + intros (t & Ht & Hf & Harch & Hmt & _). split; [apply (Hcompl tid t Ht Hf Harch Hmt)|].
          exists t. split; [exact Ht|]. split; [discriminate|exact Hmt].
      - intros tid Hin. destruct (Hsound tid Hin) as (t & Ht & _). exists t. split; [exact Ht|]. intros _.
        apply qx_tbl_matches_some. }
    destruct rels as [|[c tg] rest].
    + cbn [arch_get_tables]. apply Hcand.
      * apply (ri_nodup _ _ HR aid a Ha).
      * exact I.
      * intros tid Hin. destruct (wf_arch_tables s HW aid a tid Ha (or_introl Hin)) as (t & Ht & Harch).
        exists t. split; [exact Ht|]. split; [apply (ri_active _ _ HR aid a tid t Ha Hin Ht)|exact Harch].
      * intros tid t Ht Hf Harch _. destruct (ri_listed _ _ HR tid t Ht) as (a' & Ha' & Hl).
        rewrite Harch, Ha in Ha'. injection Ha' as <-. rewrite Hf in Hl. exact Hl.
    + destruct (is_rel_comp s c) eqn:Ec; [destruct (mk_get (a_mask a) c) eqn:Emc|].
      * destruct (r2k_get_tables_spec s aid a c tg rest HS Ha Eh Ec Emc) as (cand & Ecand & Hnd & Hsound & Hcompl).
        match goal with |- context [arch_get_tables a ?l] =>
          replace (arch_get_tables a l) with (Some cand) by (symmetry; exact Ecand) end.
        apply Hcand; assumption.
      * (* the archetype lacks the component: no table matches *)
        match goal with |- context [arch_get_tables a ?l] =>
          replace (arch_get_tables a l) with (Some (@nil nat))
            by (symmetry; exact (qx_get_tables_bad s aid a c tg rest HS Ha Eh (or_intror Emc))) end.
        cbn [k_tm_pure rev].
        split; [constructor|]. intros tid. split; [intros []|]. intros (t & Ht & _ & Harch & Hmt & _). exfalso.
        rewrite r2k_tbl_matches_eq, (Hhr tid t Ht Harch) in Hmt. cbn [rels_match] in Hmt.
        rewrite <- Harch in Ha. destruct (wf_layout s HW tid t Ht) as (a' & Ha' & Hids & _). rewrite Ha in Ha'. injection Ha' as <-.
        unfold tbl_target, tbl_colidx in Hmt. rewrite Hids in Hmt.
        destruct (index_of c (a_comps a)) as [i|] eqn:Ei; [|discriminate].
        assert (Hin : In c (a_comps a)) by (eapply nth_error_In; apply rl_index_of_some; exact Ei).
        apply (qx_comp_in_mask s _ a c HW Ha) in Hin. congruence.
      * (* a plain component in first position: the per-column lookup is empty *)
        match goal with |- context [arch_get_tables a ?l] =>
          replace (arch_get_tables a l) with (Some (@nil nat))
            by (symmetry; exact (qx_get_tables_bad s aid a c tg rest HS Ha Eh (or_introl Ec))) end.
        cbn [k_tm_pure rev].
        split; [constructor|]. intros tid. split; [intros []|]. intros (t & Ht & _ & Harch & _ & Hhd). exfalso.
        specialize (Hhd (Hhr tid t Ht Harch)). cbn [qx_head fst] in Hhd. congruence.
  - (* archetype without relation components: its one table *)
    assert (Hn : a_numrel a = 0).
    { rewrite r2k_has_rels_numrel in Eh. apply negb_false_iff, Nat.eqb_eq in Eh. exact Eh. }
    destruct (a_tables a) as [|t0 rest] eqn:Et; [repeat split; assumption|].
    pose proof (wf_arch_norel_table s HW aid a Ha Hn) as Hlen. rewrite Et in Hlen. cbn [length] in Hlen.
    destruct rest; [|cbn [length] in Hlen; lia].
    split; [constructor; [intros []|constructor]|]. intros tid. split.
    + intros [<-|[]]. assert (Hin : In t0 (a_tables a)) by (rewrite Et; left; reflexivity).
      destruct (wf_arch_tables s HW aid a t0 Ha (or_introl Hin)) as (t & Ht & Harch).
      assert (Hnr : tbl_has_rels t = false).
      { rewrite <- Harch in Ha. rewrite (qx_has_rels_table s t0 t a HS Ht Ha). exact Eh. }
      exists t. split; [exact Ht|]. split; [apply (ri_active _ _ HR aid a t0 t Ha Hin Ht)|]. split; [exact Harch|].
      split; [rewrite r2k_tbl_matches_eq, Hnr; reflexivity|]. intros H. congruence.
    + intros (t & Ht & Hf & Harch & _). destruct (ri_listed _ _ HR tid t Ht) as (a' & Ha' & Hl).
      rewrite Harch, Ha in Ha'. injection Ha' as <-. rewrite Hf, Et in Hl. destruct Hl as [<-|[]]. left. reflexivity.
Qed.

(** The uncached selection over a duplicate-free list of archetype ids, arbitrary relation list. *)
Definition qx_in_archs (s : W) (f : fobj) (rels : list rel) (L : list nat) (tid : nat) : Prop :=
  exists aid a, In aid L /\ nth_error (w_archs s) aid = Some a /\ filter_matches f (a_mask a) = true /\
                qx_of_arch s aid rels tid.

Lemma qx_sel_list_spec : forall s f rels, St2 s ->
  forall L, NoDup L -> (forall aid, In aid L -> aid < length (w_archs s)) ->
  match r2k_sel_list (w_tables s) (w_archs s) f rels L with
  | inr l => NoDup l /\ forall tid, In tid l <-> qx_in_archs s f rels L tid
  | inl e => e = EIndex /\ ~ r2k_tabled s f
  end.
Proof.
  intros s f rels HS L. induction L as [|aid rest IH]; intros Hnd Hlt.
  - cbn [r2k_sel_list]. split; [constructor|]. intros tid. split; [intros []|intros (aid & a & [] & _)].
  - inversion Hnd as [|? ? Hnin Hnd']; subst. cbn [r2k_sel_list].
    destruct (nth_error (w_archs s) aid) as [a|] eqn:Ea.
    2:{ apply nth_error_None in Ea. specialize (Hlt aid (or_introl eq_refl)). lia. }
    assert (Hlt' : forall aid0, In aid0 rest -> aid0 < length (w_archs s)) by (intros aid0 H0; apply Hlt; right; exact H0).
    specialize (IH Hnd' Hlt').
    destruct (filter_matches f (a_mask a)) eqn:Em.
    + pose proof (qx_arch_sel_spec s f rels aid a HS Ea Em) as Hs.
      destruct (r2k_arch_sel (w_tables s) f rels a) as [e|ts].
      * destruct Hs as (-> & Hn & Ht). split; [reflexivity|]. intros Htab. apply (Htab aid a Ea Em Hn Ht).
      * destruct Hs as (Hnts & Hts).
        destruct (r2k_sel_list (w_tables s) (w_archs s) f rels rest) as [e|l]; [exact IH|].
        destruct IH as (Hnl & Hl). split.
        -- apply r2k_nodup_app; [exact Hnts|exact Hnl|]. intros tid H1 H2. apply Hts in H1. apply Hl in H2.
           destruct H1 as (t & Ht & _ & Harch & _). destruct H2 as (aid' & a' & Hin' & _ & _ & (t' & Ht' & _ & Harch' & _)).
           rewrite Ht in Ht'. injection Ht' as <-. apply Hnin. rewrite <- Harch, Harch'. exact Hin'.
        -- intros tid. rewrite in_app_iff, Hts, Hl. split.
           ++ intros [H|(aid' & a' & Hin' & R)].
              ** exists aid, a. split; [left; reflexivity|]. split; [exact Ea|]. split; [exact Em|exact H].
              ** exists aid', a'. split; [right; exact Hin'|exact R].
           ++ intros (aid' & a' & [<-|Hin'] & Ha' & Hm' & Ho); [left; exact Ho|].
              right. exists aid', a'. repeat split; assumption.
    + assert (Es : r2k_arch_sel (w_tables s) f rels a = inr []) by (unfold r2k_arch_sel; rewrite Em; reflexivity).
      rewrite Es. destruct (r2k_sel_list (w_tables s) (w_archs s) f rels rest) as [e|l]; [exact IH|].
      destruct IH as (Hnl & Hl). cbn [app]. split; [exact Hnl|]. intros tid. rewrite Hl. split.
      * intros (aid' & a' & Hin' & R). exists aid', a'. split; [right; exact Hin'|exact R].
      * intros (aid' & a' & [<-|Hin'] & Ha' & Hm' & Ho); [rewrite Ea in Ha'; injection Ha' as <-; congruence|].
        exists aid', a'. repeat split; assumption.
Qed.

Lemma qx_in_archs_tsel : forall s f rels L tid,
  (forall aid a, nth_error (w_archs s) aid = Some a -> filter_matches f (a_mask a) = true -> In aid L) ->
  (qx_in_archs s f rels L tid <-> qx_tsel true s f rels tid).
Proof.
  intros s f rels L tid Hc. split.
  - intros (aid & a & _ & Ha & Hm & (t & Ht & Hf & Harch & Hmt & Hhd)). exists t, a. rewrite Harch.
    repeat split; try assumption. intros _. exact Hhd.
  - intros (t & a & Ht & Hf & Ha & Hm & Hmt & Hhd). exists (t_arch t), a. split; [apply (Hc _ a Ha Hm)|].
    split; [exact Ha|]. split; [exact Hm|]. exists t. repeat split; try assumption. apply Hhd. reflexivity.
Qed.

(** The walk of Count / EntityAt / the cursor of an UNCACHED query, any relation list. *)
Lemma qx_walk_uncached : forall s qi q f, St2 s -> archs_tabled_norel s -> r2k_cidx_ok s ->
  nth_error (w_queries s) qi = Some q -> q_cache q = None -> nth_error (w_filters s) (q_filter q) = Some f ->
  (q_rare q = None \/ exists c, q_rare q = Some c /\ mk_get (f_mask f) c = true) ->
  exists l, query_walk qi s = Ok (r2k_pairs s l) s /\ NoDup l /\ forall tid, In tid l <-> qx_tsel true s f (q_rels q) tid.
Proof.
  intros s qi q f HS HT Hci Hq Hc Hf Hrare. pose proof HS as (HW & _).
  rewrite (r2k_walk_uncached s qi q f HW Hq Hc Hf).
  destruct (r2k_query_archs s f q HW Hci Hrare) as (HLnd & HLlt & HLc).
  pose proof (qx_sel_list_spec s f (q_rels q) HS _ HLnd HLlt) as Hsl.
  destruct (r2k_sel_list (w_tables s) (w_archs s) f (q_rels q) (query_archetypes s q)) as [x|l].
  - exfalso. destruct Hsl as (_ & Hnt). apply Hnt. intros aid a Ha _ Hn. apply (HT aid a Ha Hn).
  - destruct Hsl as (Hnd & Hl). exists l. split; [reflexivity|]. split; [exact Hnd|].
    intros tid. rewrite Hl. apply qx_in_archs_tsel. exact HLc.
Qed.

(** The cached path: the entry's tables, re-checked against the per-query relations only. *)
Lemma qx_cached_spec : forall s addr e f rels b, St2 s -> In addr (w_centries s) ->
  nth_error (w_cheap s) addr = Some e -> nth_error (w_filters s) (ce_filter e) = Some f ->
  exists lc, tables_matching s (ce_tables e) rels b = Ok lc s /\ NoDup lc /\
    forall tid, In tid lc <-> (qx_tsel false s f (ce_rels e ++ rels) tid /\ (b = true -> r2k_nonempty s tid)).
Proof.
  intros s addr e f rels b (HW & _ & HC) Hin He Hf.
  destruct (ci_entry _ _ HC addr e f Hin He Hf) as (Hnd & _ & Hlt & Hmem).
  exists (filter (r2k_keep (w_tables s) rels b) (ce_tables e)). split; [|split; [apply NoDup_filter; exact Hnd|]].
  - rewrite k_tables_matching_pure, r2k_tm_pure_filter; [reflexivity|].
    intros tid Ht. apply Hlt in Ht. destruct (nth_error (w_tables s) tid) as [t|] eqn:Et; [|apply nth_error_None in Et; lia].
    exists t. split; [reflexivity|]. intros _. apply qx_tbl_matches_some.
  - intros tid. rewrite filter_In, (Hmem tid (fun x => x)), r2k_keep_iff. split.
    + intros ((t & a & Ht & Hfr & Ha & Hm & Hfix) & t' & Ht' & Hb & Hmt). rewrite Ht in Ht'. injection Ht' as <-. split.
      * exists t, a. repeat split; try assumption; [|discriminate].
        rewrite r2k_tbl_matches_app. split; [|exact Hmt].
        rewrite r2k_tbl_matches_eq. rewrite r2k_tbl_matches_eq in Hfix. unfold tbl_has_rels in *.
        destruct (t_rels t); [reflexivity|apply Hfix; discriminate].
      * intros Eb. exists t. split; [exact Ht|apply Hb; exact Eb].
    + intros ((t & a & Ht & Hfr & Ha & Hm & Hmt & _) & Hne). apply r2k_tbl_matches_app in Hmt. destruct Hmt as (Hm1 & Hm2). split.
      * exists t, a. repeat split; try assumption. intros _. exact Hm1.
      * exists t. split; [exact Ht|]. split; [|exact Hm2].
        intros Eb. destruct (Hne Eb) as (t' & Ht' & Hl). rewrite Ht in Ht'. injection Ht' as <-. exact Hl.
Qed.

Lemma qx_walk_cached : forall s qi q addr e f, St2 s -> nth_error (w_queries s) qi = Some q -> q_cache q = Some addr ->
  In addr (w_centries s) -> nth_error (w_cheap s) addr = Some e -> nth_error (w_filters s) (ce_filter e) = Some f ->
  exists l, query_walk qi s = Ok (r2k_pairs s l) s /\ NoDup l /\
    forall tid, In tid l <-> (qx_tsel false s f (ce_rels e ++ q_rels q) tid /\ r2k_nonempty s tid).
Proof.
  intros s qi q addr e f HS Hq Hc Hin He Hf.
  destruct (qx_cached_spec s addr e f (q_rels q) true HS Hin He Hf) as (lc & Hlc & Hnd & Hmem).
  exists lc. split; [|split; [exact Hnd|]].
  - rewrite (r2k_walk_cached s qi q addr e Hq Hc He). apply r2k_count_tables. exact Hlc.
  - intros tid. rewrite Hmem. split; [intros (H1 & H2); split; [exact H1|apply H2; reflexivity]|].
    intros (H1 & H2). split; [exact H1|intros _; exact H2].
Qed.

(* ================================================================================================ *)
(** * Part 2: from tables to entities *)

(** ** The specification, on the abstract world *)

Definition qx_incl (f : fobj) (ids : list nat) : Prop := forall c, mk_get (f_mask f) c = true -> In c ids.
Definition qx_excl (f : fobj) (ids : list nat) : Prop :=
  f_haswithout f = true -> forall c, In c ids -> mk_get (f_without f) c = false.
Definition qx_tgts (s : W) (rels : list rel) (e : ent) : Prop := forall c x, In (c, x) rels -> tgt s e c = Some x.
Definition qx_relfree (s : W) (ids : list nat) : Prop := forall c, In c ids -> is_rel_comp s c = false.

(** THE SPECIFICATION: [e] is live, has every component of the filter, none of the excluded ones, and
    every listed relation component of [e] points to the listed target (same id AND generation). *)
Definition matches_spec (s : W) (f : fobj) (rels : list rel) (e : ent) : Prop :=
  live s e = true /\ exists ids, comps_of s e = Some ids /\ qx_incl f ids /\ qx_excl f ids /\ qx_tgts s rels e.

(** What the implementation does for an arbitrary list: (D1) entities without any relation component
    are not filtered by [rels]; (D2) on the uncached path the first relation must name a relation component. *)
Definition qx_model (hd : bool) (s : W) (f : fobj) (rels : list rel) (e : ent) : Prop :=
  live s e = true /\ exists ids, comps_of s e = Some ids /\ qx_incl f ids /\ qx_excl f ids /\
    (qx_relfree s ids \/ (qx_tgts s rels e /\ (hd = true -> qx_head s rels))).

(** For relation lists naming relation components of the filter's mask (every typed query; the fixed
    relations of every filter of the histories) the implementation meets the specification. *)
Theorem qx_model_natural : forall hd s f rels e, r2k_rels_ok s (f_mask f) rels ->
  (qx_model hd s f rels e <-> matches_spec s f rels e).
Proof.
  intros hd s f rels e Hok. split.
  - intros (Hl & ids & Hc & Hi & Hx & [Hfree|(Ht & _)]); (split; [exact Hl|]); exists ids; repeat split; try assumption.
    intros c x Hin. exfalso. destruct (Hok (c, x) Hin) as (Hr & Hm). cbn [fst] in Hr, Hm.
    rewrite (Hfree c (Hi c Hm)) in Hr. discriminate.
  - intros (Hl & ids & Hc & Hi & Hx & Ht). split; [exact Hl|]. exists ids. repeat split; try assumption.
    right. split; [exact Ht|]. intros _. destruct rels as [|r rest]; [exact I|]. apply (Hok r). left. reflexivity.
Qed.

(** ** Lists of rows *)

Lemma qx_nth_firstn : forall (l : list ent) n i, i < n -> nth i (firstn n l) zero_ent = nth i l zero_ent.
Proof.
  intros l. induction l as [|x l IH]; intros n i H; [rewrite firstn_nil; reflexivity|].
  destruct n as [|n]; [lia|]. destruct i as [|i]; [reflexivity|]. cbn. apply IH. lia.
Qed.

Lemma qx_in_firstn : forall (l : list ent) n e, n <= length l ->
  (In e (firstn n l) <-> exists r, r < n /\ nth r l zero_ent = e).
Proof.
  intros l n e Hn. split.
  - intros H. apply (In_nth _ _ zero_ent) in H. destruct H as (r & Hr & E). rewrite firstn_length_le in Hr by exact Hn.
    exists r. split; [exact Hr|]. rewrite <- E. symmetry. apply qx_nth_firstn. exact Hr.
  - intros (r & Hr & E). rewrite <- E, <- (qx_nth_firstn l n r Hr). apply nth_In. rewrite firstn_length_le by exact Hn. exact Hr.
Qed.

Lemma qx_table_len : forall s tid t, WF s -> nth_error (w_tables s) tid = Some t -> t_len t <= length (t_ents t).
Proof.
  intros s tid t HW Ht. pose proof (wf_tables s HW) as HF. rewrite Forall_forall in HF.
  apply nth_error_In in Ht. apply HF in Ht. destruct Ht as ((T1 & T2 & _) & _). lia.
Qed.

Lemma qx_rows_in : forall s l e, WF s ->
  (In e (q_rows_of (w_tables s) l) <->
   exists tid t r, In tid l /\ nth_error (w_tables s) tid = Some t /\ r < t_len t /\ row_ent t r = e).
Proof.
  intros s l e HW. unfold q_rows_of. rewrite in_flat_map. split.
  - intros (tid & Hin & He). destruct (nth_error (w_tables s) tid) as [t|] eqn:Et; [|destruct He].
    apply (qx_in_firstn _ _ _ (qx_table_len s tid t HW Et)) in He. destruct He as (r & Hr & E).
    exists tid, t, r. repeat split; assumption.
  - intros (tid & t & r & Hin & Et & Hr & E). exists tid. split; [exact Hin|]. rewrite Et.
    apply (qx_in_firstn _ _ _ (qx_table_len s tid t HW Et)). exists r. split; [exact Hr|exact E].
Qed.

(** Rows of duplicate-free table lists are duplicate-free: an entity sits in one row of one table. *)
Lemma qx_rows_nodup : forall s l, WF s -> NoDup l -> NoDup (q_rows_of (w_tables s) l).
Proof.
  intros s l HW. induction l as [|tid l IH]; intros Hnd; [constructor|].
  inversion Hnd as [|? ? Hnin Hnd']; subst.
  change (q_rows_of (w_tables s) (tid :: l)) with
    (match nth_error (w_tables s) tid with Some t => firstn (t_len t) (t_ents t) | None => [] end ++ q_rows_of (w_tables s) l).
  apply r2k_nodup_app; [|apply IH; exact Hnd'|].
  - destruct (nth_error (w_tables s) tid) as [t|] eqn:Et; [|constructor].
    pose proof (qx_table_len s tid t HW Et) as Hlen. apply (NoDup_nth _ zero_ent). rewrite firstn_length_le by exact Hlen.
    intros i j Hi Hj E. rewrite !qx_nth_firstn in E by assumption.
    destruct (wf_rows s HW tid t i Et Hi) as (Li & _). destruct (wf_rows s HW tid t j Et Hj) as (Lj & _).
    unfold row_ent in Li, Lj. rewrite E in Li. rewrite Li in Lj. injection Lj as ->. reflexivity.
  - intros e H1 H2. destruct (nth_error (w_tables s) tid) as [t|] eqn:Et; [|destruct H1].
    apply (qx_in_firstn _ _ _ (qx_table_len s tid t HW Et)) in H1. destruct H1 as (r & Hr & E).
    apply (qx_rows_in s l e HW) in H2. destruct H2 as (tid' & t' & r' & Hin' & Et' & Hr' & E').
    destruct (wf_rows s HW tid t r Et Hr) as (L1 & _). destruct (wf_rows s HW tid' t' r' Et' Hr') as (L2 & _).
    unfold row_ent in L1. rewrite E in L1. rewrite E' in L2. rewrite L1 in L2. injection L2 as -> _. contradiction.
Qed.

(** All stored entities: the rows of all tables. *)
Definition qx_all_rows (s : W) : list ent := q_rows_of (w_tables s) (seq 0 (length (w_tables s))).

Lemma qx_all_rows_spec : forall s, WF s -> NoDup (qx_all_rows s) /\ forall e, In e (qx_all_rows s) <-> live s e = true.
Proof.
  intros s HW. split; [apply qx_rows_nodup; [exact HW|apply seq_NoDup]|]. intros e. unfold qx_all_rows.
  rewrite (qx_rows_in s _ e HW), live_present. split.
  - intros (tid & t & r & _ & Et & Hr & E). exists tid, r, t. destruct (wf_rows s HW tid t r Et Hr) as (L & _).
    rewrite E in L. repeat split; assumption.
  - intros (tid & r & t & L & Et & Hr & E). exists tid, t, r. split; [|repeat split; assumption].
    apply in_seq. pose proof (sa_nth_error_lt _ _ _ _ Et). lia.
Qed.

(** ** One table, one entity *)

Lemma qx_rels_match_iff : forall t rels,
  rels_match t rels = Some true <-> forall c x, In (c, x) rels -> tbl_target t c = Some x.
Proof.
  intros t rels. induction rels as [|[c tg] rest IH]; cbn [rels_match].
  - split; [intros _ c x []|reflexivity].
  - destruct (tbl_target t c) as [y|] eqn:Ey.
    + destruct (ent_eqb tg y) eqn:Ee.
      * apply sa_ent_eqb_eq in Ee. subst y. rewrite IH. split.
        -- intros H c' x [E|Hin]; [injection E as <- <-; exact Ey|apply H; exact Hin].
        -- intros H c' x Hin. apply H. right. exact Hin.
      * split; [discriminate|]. intros H. specialize (H c tg (or_introl eq_refl)). rewrite Ey in H. injection H as <-.
        rewrite sa_ent_eqb_refl in Ee. discriminate.
    + split; [discriminate|]. intros H. specialize (H c tg (or_introl eq_refl)). rewrite Ey in H. discriminate.
Qed.

Lemma qx_mask_of_comps : forall s aid a, WF s -> nth_error (w_archs s) aid = Some a -> a_mask a = mk_of_list (a_comps a).
Proof.
  intros s aid a HW Ha. apply mk_eq_ext. intros j.
  pose proof (qx_comp_in_mask s aid a j HW Ha) as H1. pose proof (mk_get_of_list (a_comps a) j) as H2.
  destruct (mk_get (a_mask a) j), (mk_get (mk_of_list (a_comps a)) j); try reflexivity.
  - symmetry. apply H2, H1. reflexivity.
  - apply H1, H2. reflexivity.
Qed.

Lemma qx_filter_ids : forall f ids, filter_matches f (mk_of_list ids) = true <-> qx_incl f ids /\ qx_excl f ids.
Proof.
  intros f ids. rewrite filter_matches_spec. unfold subset, disjoint, qx_incl, qx_excl. split.
  - intros (H1 & H2). split.
    + intros c Hc. apply mk_get_of_list. apply H1. exact Hc.
    + intros Hw c Hin. destruct (mk_get (f_without f) c) eqn:E; [|reflexivity]. exfalso.
      apply (H2 Hw c). split; [apply mk_get_of_list; exact Hin|exact E].
  - intros (H1 & H2). split.
    + intros c Hc. apply mk_get_of_list. apply H1. exact Hc.
    + intros Hw c (Hc1 & Hc2). apply mk_get_of_list in Hc1. rewrite (H2 Hw c Hc1) in Hc2. discriminate.
Qed.

Lemma qx_count_true : forall A (g : A -> bool) l,
  length (filter (fun b : bool => b) (map g l)) = 0 <-> forall x, In x l -> g x = false.
Proof.
  intros A g l. induction l as [|x l IH]; cbn [map filter].
  - split; [intros _ x []|reflexivity].
  - destruct (g x) eqn:E; cbn [length].
    + split; [discriminate|]. intros H. specialize (H x (or_introl eq_refl)). congruence.
    + rewrite IH. split; [intros H y [<-|Hy]; [exact E|apply H; exact Hy]|intros H y Hy; apply H; right; exact Hy].
Qed.

Lemma qx_relfree_arch : forall s aid a, WF s -> nth_error (w_archs s) aid = Some a ->
  (qx_relfree s (a_comps a) <-> arch_has_rels a = false).
Proof.
  intros s aid a HW Ha. destruct (wf_arch_comps s HW aid a Ha) as (_ & _ & Hisrel & Hnum & _).
  rewrite r2k_has_rels_numrel, negb_false_iff, Nat.eqb_eq, Hnum, Hisrel, qx_count_true. unfold qx_relfree.
  split; intros H c Hc; [rewrite qx_is_rel_kind|rewrite <- qx_is_rel_kind]; apply H; exact Hc.
Qed.

(** THE BRIDGE: an entity satisfies the (implementation-exact) predicate iff it sits in a row of a
    selected table. *)
Theorem qx_model_table : forall hd s f rels e, St2 s ->
  (qx_model hd s f rels e <->
   exists tid t r, qx_tsel hd s f rels tid /\ nth_error (w_tables s) tid = Some t /\ r < t_len t /\ row_ent t r = e).
Proof.
  intros hd s f rels e HS. pose proof HS as (HW & (HR & _) & _).
  assert (Hent : forall tid t r a, nth_error (w_tables s) tid = Some t -> r < t_len t -> row_ent t r = e ->
            nth_error (w_archs s) (t_arch t) = Some a ->
            live s e = true /\ comps_of s e = Some (a_comps a) /\ t_ids t = a_comps a /\ t_free t = false /\
            (forall c, tgt s e c = tbl_target t c)).
  { intros tid t r a Ht Hr E Ha. destruct (wf_rows s HW tid t r Ht Hr) as (L & _). rewrite E in L.
    destruct (wf_layout s HW tid t Ht) as (a' & Ha' & Hids & _). rewrite Ha in Ha'. injection Ha' as <-.
    assert (Hl : live s e = true) by (apply live_present; exists tid, r, t; repeat split; assumption).
    split; [exact Hl|]. split; [unfold comps_of; rewrite L, Ht; cbn [option_map]; rewrite Hids; reflexivity|].
    split; [exact Hids|]. split.
    - destruct (t_free t) eqn:Ef; [|reflexivity]. exfalso. destruct (ri_listed _ _ HR tid t Ht) as (a' & Ha' & Hin).
      rewrite Ef in Hin. destruct (ri_freed _ _ HR _ a' tid t Ha' Hin Ht) as (_ & H0). lia.
    - intros c. unfold tgt. rewrite Hl. unfold target_of. rewrite L, Ht. reflexivity. }
  split.
  - intros (Hl & ids & Hc & Hi & Hx & Hd). apply live_present in Hl. destruct Hl as (tid & r & t & L & Ht & Hr & E).
    destruct (wf_layout s HW tid t Ht) as (a & Ha & _).
    destruct (Hent tid t r a Ht Hr E Ha) as (Hl & Hc' & Hids & Hfr & Htg). rewrite Hc in Hc'. injection Hc' as ->.
    exists tid, t, r. split; [|repeat split; assumption]. exists t, a.
    split; [exact Ht|]. split; [exact Hfr|]. split; [exact Ha|].
    split; [rewrite (qx_mask_of_comps s _ a HW Ha); apply qx_filter_ids; split; assumption|].
    pose proof (qx_has_rels_table s tid t a HS Ht Ha) as Hhr. pose proof (qx_relfree_arch s _ a HW Ha) as Hrf.
    rewrite r2k_tbl_matches_eq. destruct (tbl_has_rels t) eqn:Eh.
    + destruct Hd as [Hfree|(Ht' & Hh)]; [apply Hrf in Hfree; congruence|]. split.
      * apply qx_rels_match_iff. intros c x Hin. rewrite <- Htg. apply Ht'. exact Hin.
      * intros Ehd _. apply Hh. exact Ehd.
    + split; [reflexivity|]. intros _ H. discriminate.
  - intros (tid & t & r & (t' & a & Ht' & Hfr & Ha & Hm & Hmt & Hhd) & Ht & Hr & E). rewrite Ht in Ht'. injection Ht' as <-.
    destruct (Hent tid t r a Ht Hr E Ha) as (Hl & Hc & Hids & _ & Htg).
    split; [exact Hl|]. exists (a_comps a). split; [exact Hc|].
    rewrite (qx_mask_of_comps s _ a HW Ha) in Hm. apply qx_filter_ids in Hm. destruct Hm as (Hi & Hx).
    split; [exact Hi|]. split; [exact Hx|].
    pose proof (qx_has_rels_table s tid t a HS Ht Ha) as Hhr. pose proof (qx_relfree_arch s _ a HW Ha) as Hrf.
    rewrite r2k_tbl_matches_eq in Hmt. destruct (tbl_has_rels t) eqn:Eh.
    + right. split.
      * intros c x Hin. rewrite Htg. apply (proj1 (qx_rels_match_iff t rels) Hmt). exact Hin.
      * intros Ehd. apply Hhd; [exact Ehd|reflexivity].
    + left. apply Hrf. congruence.
Qed.

(** The rows of a duplicate-free list of exactly the selected (non-empty) tables. *)
Theorem qx_rows_spec : forall hd ne s f rels l, St2 s -> NoDup l ->
  (forall tid, In tid l <-> (qx_tsel hd s f rels tid /\ (ne = true -> r2k_nonempty s tid))) ->
  NoDup (q_rows_of (w_tables s) l) /\ forall e, In e (q_rows_of (w_tables s) l) <-> qx_model hd s f rels e.
Proof.
  intros hd ne s f rels l HS Hnd Hl. pose proof HS as (HW & _). split; [apply qx_rows_nodup; assumption|].
  intros e. rewrite (qx_rows_in s l e HW), (qx_model_table hd s f rels e HS). split.
  - intros (tid & t & r & Hin & Ht & Hr & E). exists tid, t, r. apply Hl in Hin. destruct Hin as (Hs & _). repeat split; assumption.
  - intros (tid & t & r & Hs & Ht & Hr & E). exists tid, t, r. split; [|repeat split; assumption].
    apply Hl. split; [exact Hs|]. intros _. exists t. split; [exact Ht|lia].
Qed.

(** ** Executable forms of the two predicates *)

Definition qx_tgts_b (s : W) (rels : list rel) (e : ent) : bool :=
  forallb (fun r : rel => match tgt s e (fst r) with Some x => ent_eqb x (snd r) | None => false end) rels.
Definition qx_head_b (s : W) (rels : list rel) : bool :=
  match rels with [] => true | r :: _ => is_rel_comp s (fst r) end.
Definition qx_model_b (hd : bool) (s : W) (f : fobj) (rels : list rel) (e : ent) : bool :=
  (live s e &&
   match comps_of s e with
   | Some ids => filter_matches f (mk_of_list ids) &&
                 (forallb (fun c => negb (is_rel_comp s c)) ids || (qx_tgts_b s rels e && (negb hd || qx_head_b s rels)))
   | None => false
   end)%bool.
Definition matches_spec_b (s : W) (f : fobj) (rels : list rel) (e : ent) : bool :=
  (live s e &&
   match comps_of s e with
   | Some ids => filter_matches f (mk_of_list ids) && qx_tgts_b s rels e
   | None => false
   end)%bool.

Lemma qx_tgts_b_spec : forall s rels e, qx_tgts_b s rels e = true <-> qx_tgts s rels e.
Proof.
  intros s rels e. unfold qx_tgts_b, qx_tgts. rewrite forallb_forall. split.
  - intros H c x Hin. specialize (H (c, x) Hin). cbn [fst snd] in H. destruct (tgt s e c) as [y|]; [|discriminate].
    apply sa_ent_eqb_eq in H. subst y. reflexivity.
  - intros H [c x] Hin. cbn [fst snd]. rewrite (H c x Hin). apply sa_ent_eqb_refl.
Qed.

Lemma qx_head_b_spec : forall s rels, qx_head_b s rels = true <-> qx_head s rels.
Proof. intros s [|r rest]; cbn; [split; intros; [exact I|reflexivity]|tauto]. Qed.

Lemma qx_relfree_b_spec : forall s ids, forallb (fun c => negb (is_rel_comp s c)) ids = true <-> qx_relfree s ids.
Proof.
  intros s ids. unfold qx_relfree. rewrite forallb_forall. split; intros H c Hc; specialize (H c Hc).
  - apply negb_true_iff in H. exact H.
  - rewrite H. reflexivity.
Qed.

Theorem qx_model_b_spec : forall hd s f rels e, qx_model_b hd s f rels e = true <-> qx_model hd s f rels e.
Proof.
  intros hd s f rels e. unfold qx_model_b, qx_model. rewrite andb_true_iff. split.
  - intros (Hl & H). split; [exact Hl|]. destruct (comps_of s e) as [ids|]; [|discriminate]. exists ids. split; [reflexivity|].
    apply andb_true_iff in H. destruct H as (Hm & Hd). apply qx_filter_ids in Hm. destruct Hm as (Hi & Hx).
    split; [exact Hi|]. split; [exact Hx|]. apply orb_true_iff in Hd. destruct Hd as [Hd|Hd].
    + left. apply qx_relfree_b_spec. exact Hd.
    + right. apply andb_true_iff in Hd. destruct Hd as (Ht & Hh). split; [apply qx_tgts_b_spec; exact Ht|].
      intros ->. cbn [negb orb] in Hh. apply qx_head_b_spec. exact Hh.
  - intros (Hl & ids & Hc & Hi & Hx & Hd). split; [exact Hl|]. rewrite Hc. apply andb_true_iff. split; [apply qx_filter_ids; split; assumption|].
    apply orb_true_iff. destruct Hd as [Hd|(Ht & Hh)]; [left; apply qx_relfree_b_spec; exact Hd|right].
    apply andb_true_iff. split; [apply qx_tgts_b_spec; exact Ht|]. destruct hd; [|reflexivity]. cbn [negb orb].
    apply qx_head_b_spec. apply Hh. reflexivity.
Qed.

Theorem matches_spec_b_spec : forall s f rels e, matches_spec_b s f rels e = true <-> matches_spec s f rels e.
Proof.
  intros s f rels e. unfold matches_spec_b, matches_spec. rewrite andb_true_iff. split.
  - intros (Hl & H). split; [exact Hl|]. destruct (comps_of s e) as [ids|]; [|discriminate]. exists ids. split; [reflexivity|].
    apply andb_true_iff in H. destruct H as (Hm & Ht). apply qx_filter_ids in Hm. destruct Hm as (Hi & Hx).
    split; [exact Hi|]. split; [exact Hx|]. apply qx_tgts_b_spec. exact Ht.
  - intros (Hl & ids & Hc & Hi & Hx & Ht). split; [exact Hl|]. rewrite Hc. apply andb_true_iff.
    split; [apply qx_filter_ids; split; assumption|apply qx_tgts_b_spec; exact Ht].
Qed.

(** Exclusive filters (Without = the complement of the mask within the mask width): the entity has EXACTLY the
    filter's components. (In a state satisfying [WF] every component of an entity is below the mask width.) *)
Theorem qx_exclusive_exact : forall f bits ids, f_haswithout f = true -> f_without f = mk_not bits (f_mask f) ->
  (forall c, In c ids -> c < bits) -> qx_incl f ids -> qx_excl f ids ->
  forall c, In c ids <-> mk_get (f_mask f) c = true.
Proof.
  intros f bits ids Hw He Hlt Hi Hx c. split; [|apply Hi]. intros Hin.
  pose proof (Hx Hw c Hin) as H. rewrite He, mk_get_not in H by (apply Hlt; exact Hin).
  apply negb_false_iff in H. exact H.
Qed.

(** A duplicate-free list with the right members is a permutation of the filtered list of all rows. *)
Lemma qx_perm_filter : forall s (p : ent -> bool) vis, WF s -> NoDup vis ->
  (forall e, In e vis <-> (live s e = true /\ p e = true)) -> Permutation vis (filter p (qx_all_rows s)).
Proof.
  intros s p vis HW Hnd Hin. destruct (qx_all_rows_spec s HW) as (Hnd' & Hall).
  apply NoDup_Permutation; [exact Hnd|apply NoDup_filter; exact Hnd'|].
  intros e. rewrite Hin, filter_In, Hall. tauto.
Qed.

(* ================================================================================================ *)
(** * Part 3: a freshly opened query *)

(** What it means that query [qi] of state [s1] visits exactly the list [vis]: the walk succeeds and its
    rows are [vis]; Count is the length; EntityAt is the position; calling Next/Entity until Next
    answers false yields [vis], leaves the query closed and its lock bit released, and writes nothing
    but the query objects and the lock. *)
Definition qx_query_is (s1 : W) (qi : nat) (vis : list ent) : Prop :=
  (exists w, query_walk qi s1 = Ok w s1 /\ walk_rows s1 w = vis) /\
  query_count qi s1 = Ok (length vis) s1 /\
  (forall i, match query_entity_at qi i s1 with
             | Ok x s' => s' = s1 /\ nth_error vis i = Some x
             | Err _ s' => s' = s1 /\ length vis <= i
             end) /\
  (forall d fuel, length vis < fuel ->
     exists s2, drain d fuel qi s1 = Ok vis s2 /\ query_frame s1 s2 /\
       (exists q', nth_error (w_queries s2) qi = Some q' /\ q_tab q' = 0) /\
       (forall q, nth_error (w_queries s1) qi = Some q -> mk_get (lk_mask (w_lock s2)) (q_lock q) = false)).

Lemma qx_sum_len : forall s l acc, WF s -> (forall tid, In tid l -> nth_error (w_tables s) tid <> None) ->
  fold_left (fun a (p : nat * nat) => a + snd p) (r2k_pairs s l) acc = acc + length (q_rows_of (w_tables s) l).
Proof.
  intros s l. induction l as [|tid l IH]; intros acc HW Hex; [cbn; lia|].
  change (r2k_pairs s (tid :: l)) with
    ((tid, match nth_error (w_tables s) tid with Some t => t_len t | None => 0 end) :: r2k_pairs s l).
  change (q_rows_of (w_tables s) (tid :: l)) with
    (match nth_error (w_tables s) tid with Some t => firstn (t_len t) (t_ents t) | None => [] end ++ q_rows_of (w_tables s) l).
  cbn [fold_left snd]. rewrite IH; [|exact HW|intros x Hx; apply Hex; right; exact Hx]. rewrite app_length.
  destruct (nth_error (w_tables s) tid) as [t|] eqn:Et; [|exfalso; apply (Hex tid (or_introl eq_refl) Et)].
  rewrite firstn_length_le by (apply (qx_table_len s tid t HW Et)). lia.
Qed.

Lemma qx_fresh_query : forall s qi q l, WF s -> nth_error (w_queries s) qi = Some q ->
  q_arch q = 1 -> q_tab q = 1 -> q_max q = None -> q_index q = 0 -> q_table q = None -> q_tables q = [] ->
  mk_get (lk_mask (w_lock s)) (q_lock q) = true ->
  query_walk qi s = Ok (r2k_pairs s l) s -> (forall tid, In tid l -> nth_error (w_tables s) tid <> None) ->
  qx_query_is s qi (q_rows_of (w_tables s) l).
Proof.
  intros s qi q l HW Hq F1 F2 F3 F4 F5 F6 Hlk Hw Hex.
  assert (Hrows : walk_rows s (r2k_pairs s l) = q_rows_of (w_tables s) l) by apply q_walk_rows_map.
  pose proof (r2k_pairs_shape s s l HW eq_refl Hex) as Hp.
  split; [exists (r2k_pairs s l); split; [exact Hw|exact Hrows]|]. split; [|split].
  - rewrite (query_count_is_walk_sum qi s _ s Hw), (qx_sum_len s l 0 HW Hex). reflexivity.
  - intros i. pose proof (query_entity_at_spec qi s _ i Hw Hp) as H. rewrite Hrows in H. exact H.
  - intros d fuel Hfuel. rewrite <- Hrows in Hfuel.
    pose proof (drain_is_walk d qi s q _ HW Hq F1 F2 F3 F4 F5 F6 Hlk Hw fuel Hfuel) as H.
    destruct (drain d fuel qi s) as [es s2|er s2]; [|destruct H]. destruct H as (-> & Hfr & Hcl & Hbit).
    exists s2. rewrite Hrows. split; [reflexivity|]. split; [exact Hfr|]. split; [exact Hcl|].
    intros q0 Hq0. rewrite Hq in Hq0. injection Hq0 as <-. exact Hbit.
Qed.

(** The predicates depend on the storage only. *)
Lemma qx_model_ext : forall hd s s' f rels e, w_index s' = w_index s -> w_tables s' = w_tables s -> w_reg s' = w_reg s ->
  (qx_model hd s' f rels e <-> qx_model hd s f rels e).
Proof.
  intros hd s s' f rels e Ei Et Er. unfold qx_model, qx_tgts, qx_relfree, qx_head, tgt, target_of, comps_of, is_rel_comp.
  rewrite (r2_live_ext s s' Ei Et e), (sa_loc_ext s s' Ei), Et, Er. tauto.
Qed.

Lemma qx_open_entry : forall fi rels s qi s1 f cid, nth_error (w_filters s) fi = Some f -> f_cache f = Some cid ->
  query_open fi rels s = Ok qi s1 ->
  exists addr e, entry_addr s cid = Some addr /\ In addr (w_centries s) /\ nth_error (w_cheap s) addr = Some e /\ ce_id e = cid.
Proof.
  intros fi rels s qi s1 f cid Hf Hc H. unfold query_open in H. rewrite (q_bind_getF _ s fi f _ Hf) in H.
  unfold bind at 1 in H.
  destruct (whenM (negb (f_unsafe f)) (to_relations (f_mask f) rels) s) as [[] s0|] eqn:Ew; [|discriminate].
  assert (Hs0 : s0 = s).
  { destruct (f_unsafe f); cbn [negb whenM] in Ew; [inversion Ew; reflexivity|].
    pose proof (readonly_to_relations (f_mask f) rels s) as Hro. rewrite Ew in Hro. exact Hro. }
  subst s0. rewrite q_bind_get, Hc in H. unfold bind at 1 in H. unfold bind at 1 in H.
  destruct (entry_addr s cid) as [addr|] eqn:Ea; [|discriminate]. clear H.
  unfold entry_addr in Ea. apply find_some in Ea. destruct Ea as (Hin & Hp).
  destruct (nth_error (w_cheap s) addr) as [e|] eqn:Ee; [|discriminate]. apply Nat.eqb_eq in Hp.
  exists addr, e. repeat split; assumption.
Qed.

(** THE THEOREM, for one state: every successful Query(rels...) on any filter object of a state that
    satisfies the invariants visits exactly the entities characterised by [qx_model], each once. *)
Theorem qx_query_exact : forall s fi f rels qi s1,
  St2 s -> archs_tabled_norel s -> r2k_cidx_ok s -> qx_FL s ->
  nth_error (w_filters s) fi = Some f -> query_open fi rels s = Ok qi s1 ->
  let hd := match f_cache f with None => true | Some _ => false end in
  exists vis, qx_query_is s1 qi vis /\ NoDup vis /\
    (forall e, In e vis <-> qx_model hd s f (f_rels f ++ rels) e) /\
    Permutation vis (filter (qx_model_b hd s f (f_rels f ++ rels)) (qx_all_rows s)).
Proof.
  intros s fi f rels qi s1 HS HT Hci HFL Hf Ho hd.
  destruct (r2k_query_open_inv fi rels s qi s1 f Hf Ho) as (_ & Hfr & q & Hq & Hqf & Hqr & Hqc & Hrare & F1 & F2 & F3 & F4 & F5 & F6 & Hlk).
  pose proof (r2k_St2_frame s s1 HS Hfr) as HS1. pose proof HS1 as (HW1 & _). pose proof HS as (HW & _).
  pose proof Hfr as (_ & Fr & _ & Fi & _ & Fa & Ft & _ & Fc & _ & _ & Fh & Fe & _ & Ff & _).
  assert (HT1 : archs_tabled_norel s1) by (apply (r2q_tabled_ext s s1 Fa HT)).
  assert (Hci1 : r2k_cidx_ok s1) by (apply (r2k_cidx_ok_ext s s1 Fc Fa Hci)).
  assert (Hf1 : nth_error (w_filters s1) (q_filter q) = Some f) by (rewrite Ff, Hqf; exact Hf).
  (* the table list of the walk *)
  assert (Hwalk : exists l ne, query_walk qi s1 = Ok (r2k_pairs s1 l) s1 /\ NoDup l /\
            forall tid, In tid l <-> (qx_tsel hd s1 f (f_rels f ++ rels) tid /\ (ne = true -> r2k_nonempty s1 tid))).
  { unfold hd. destruct (f_cache f) as [cid|] eqn:Ec.
    - destruct (qx_open_entry fi rels s qi s1 f cid Hf Ec Ho) as (addr & e & Ea & Hin & He & Hid).
      rewrite Ea in Hqc. subst cid.
      destruct (fl_link s (proj1 HFL) addr e fi f Hin He Hf Ec) as (Efi & Erels).
      assert (Hin1 : In addr (w_centries s1)) by (rewrite Fe; exact Hin).
      assert (He1 : nth_error (w_cheap s1) addr = Some e) by (rewrite Fh; exact He).
      assert (Hfe : nth_error (w_filters s1) (ce_filter e) = Some f) by (rewrite Ff, Efi; exact Hf).
      destruct (qx_walk_cached s1 qi q addr e f HS1 Hq Hqc Hin1 He1 Hfe) as (l & Hw & Hnd & Hl).
      exists l, true. split; [exact Hw|]. split; [exact Hnd|]. intros tid. rewrite Hl, Hqr, Erels.
      split; [intros (H1 & H2); split; [exact H1|intros _; exact H2]|intros (H1 & H2); split; [exact H1|apply H2; reflexivity]].
    - assert (Hrc : q_rare q = None \/ exists c, q_rare q = Some c /\ mk_get (f_mask f) c = true).
      { rewrite Hrare. destruct (f_unsafe f || is_nil (f_ids f))%bool eqn:Eb; [left; reflexivity|].
        right. eexists. split; [reflexivity|]. rewrite (fl_built s (proj1 HFL) fi f Hf). apply mk_get_of_list. apply r2k_rare_in.
        apply orb_false_iff in Eb. destruct Eb as [_ Eb]. destruct (f_ids f); discriminate. }
      destruct (qx_walk_uncached s1 qi q f HS1 HT1 Hci1 Hq Hqc Hf1 Hrc) as (l & Hw & Hnd & Hl).
      exists l, false. split; [exact Hw|]. split; [exact Hnd|]. intros tid. rewrite Hl, Hqr.
      split; [intros H1; split; [exact H1|discriminate]|intros (H1 & _); exact H1]. }
  destruct Hwalk as (l & ne & Hw & Hnd & Hl).
  destruct (qx_rows_spec hd ne s1 f (f_rels f ++ rels) l HS1 Hnd Hl) as (Hndv & Hvis).
  exists (q_rows_of (w_tables s1) l). split; [|split; [exact Hndv|]].
  - apply (qx_fresh_query s1 qi q l HW1 Hq F1 F2 F3 F4 F5 F6 Hlk Hw).
    intros tid Hin. apply Hl in Hin. destruct Hin as ((t & _ & Ht & _) & _). congruence.
  - assert (Hin : forall e, In e (q_rows_of (w_tables s1) l) <-> qx_model hd s f (f_rels f ++ rels) e).
    { intros e. rewrite Hvis. apply (qx_model_ext hd s s1 f _ e Fi Ft Fr). }
    split; [exact Hin|]. apply (qx_perm_filter s _ _ HW Hndv). intros e. rewrite Hin, qx_model_b_spec.
    split; [intros H; split; [apply H|exact H]|intros (_ & H); exact H].
Qed.

(** For a TYPED filter (FilterN) whose fixed relations are admissible - and in the histories they always
    are - the visited entities are exactly those of the specification. *)
Theorem qx_query_exact_typed : forall s fi f rels qi s1,
  St2 s -> archs_tabled_norel s -> r2k_cidx_ok s -> qx_FL s -> r2q_filters_ok s ->
  nth_error (w_filters s) fi = Some f -> f_unsafe f = false -> query_open fi rels s = Ok qi s1 ->
  exists vis, qx_query_is s1 qi vis /\ NoDup vis /\
    (forall e, In e vis <-> matches_spec s f (f_rels f ++ rels) e) /\
    Permutation vis (filter (matches_spec_b s f (f_rels f ++ rels)) (qx_all_rows s)).
Proof.
  intros s fi f rels qi s1 HS HT Hci HFL HFo Hf Hun Ho.
  destruct (r2k_query_open_inv fi rels s qi s1 f Hf Ho) as (Hok & _). specialize (Hok Hun).
  assert (Hall : r2k_rels_ok s (f_mask f) (f_rels f ++ rels)).
  { intros r Hr. apply in_app_iff in Hr. destruct Hr as [Hr|Hr]; [apply (HFo fi f Hf r Hr)|apply (Hok r Hr)]. }
  destruct (qx_query_exact s fi f rels qi s1 HS HT Hci HFL Hf Ho) as (vis & Hq & Hnd & Hin & _).
  exists vis. split; [exact Hq|]. split; [exact Hnd|].
  assert (Hin' : forall e, In e vis <-> matches_spec s f (f_rels f ++ rels) e).
  { intros e. rewrite Hin. apply qx_model_natural. exact Hall. }
  split; [exact Hin'|]. destruct HS as (HW & _). apply (qx_perm_filter s _ _ HW Hnd). intros e.
  rewrite Hin', matches_spec_b_spec. split; [intros H; split; [apply H|exact H]|intros (_ & H); exact H].
Qed.

(** The same for ANY filter object (UnsafeFilter included) when also the per-query relations name relation
    components of the mask. *)
Theorem qx_query_exact_ok : forall s fi f rels qi s1,
  St2 s -> archs_tabled_norel s -> r2k_cidx_ok s -> qx_FL s -> r2q_filters_ok s ->
  nth_error (w_filters s) fi = Some f -> r2k_rels_ok s (f_mask f) rels -> query_open fi rels s = Ok qi s1 ->
  exists vis, qx_query_is s1 qi vis /\ NoDup vis /\
    (forall e, In e vis <-> matches_spec s f (f_rels f ++ rels) e).
Proof.
  intros s fi f rels qi s1 HS HT Hci HFL HFo Hf Hok Ho.
  assert (Hall : r2k_rels_ok s (f_mask f) (f_rels f ++ rels)).
  { intros r Hr. apply in_app_iff in Hr. destruct Hr as [Hr|Hr]; [apply (HFo fi f Hf r Hr)|apply (Hok r Hr)]. }
  destruct (qx_query_exact s fi f rels qi s1 HS HT Hci HFL Hf Ho) as (vis & Hq & Hnd & Hin & _).
  exists vis. split; [exact Hq|]. split; [exact Hnd|]. intros e. rewrite Hin. apply qx_model_natural. exact Hall.
Qed.

(* ================================================================================================ *)
(** * Part 4: after every history *)

Section qx_reach.
Variable c : script_cfg.
Variable lines : list (list Z).
Hypothesis Hc : cfg_ok2 c.
Hypothesis Hl : Forall (rel_q_line (sc_kinds c)) lines.
Hypothesis Hb : length lines + 4 < Nat.pow 2 31.
Let s := Properties.Common.exec c lines.

Theorem reachable_query_exact : forall fi f rels qi s1,
  nth_error (w_filters s) fi = Some f -> query_open fi rels s = Ok qi s1 ->
  let hd := match f_cache f with None => true | Some _ => false end in
  exists vis, qx_query_is s1 qi vis /\ NoDup vis /\
    (forall e, In e vis <-> qx_model hd s f (f_rels f ++ rels) e) /\
    Permutation vis (filter (qx_model_b hd s f (f_rels f ++ rels)) (qx_all_rows s)).
Proof.
  intros fi f rels qi s1 Hf Ho.
  destruct (reachable_inv2QF c lines Hc Hl Hb) as (((HS & _ & _ & _ & HT & _) & Hci) & HFL).
  exact (qx_query_exact s fi f rels qi s1 HS HT Hci HFL Hf Ho).
Qed.

Theorem reachable_query_exact_typed : forall fi f rels qi s1,
  nth_error (w_filters s) fi = Some f -> f_unsafe f = false -> query_open fi rels s = Ok qi s1 ->
  exists vis, qx_query_is s1 qi vis /\ NoDup vis /\
    (forall e, In e vis <-> matches_spec s f (f_rels f ++ rels) e) /\
    Permutation vis (filter (matches_spec_b s f (f_rels f ++ rels)) (qx_all_rows s)).
Proof.
  intros fi f rels qi s1 Hf Hun Ho.
  destruct (reachable_inv2QF c lines Hc Hl Hb) as (((HS & _ & _ & _ & HT & HFo) & Hci) & HFL).
  exact (qx_query_exact_typed s fi f rels qi s1 HS HT Hci HFL HFo Hf Hun Ho).
Qed.

Theorem reachable_query_exact_ok : forall fi f rels qi s1,
  nth_error (w_filters s) fi = Some f -> r2k_rels_ok s (f_mask f) rels -> query_open fi rels s = Ok qi s1 ->
  exists vis, qx_query_is s1 qi vis /\ NoDup vis /\ (forall e, In e vis <-> matches_spec s f (f_rels f ++ rels) e).
Proof.
  intros fi f rels qi s1 Hf Hok Ho.
  destruct (reachable_inv2QF c lines Hc Hl Hb) as (((HS & _ & _ & _ & HT & HFo) & Hci) & HFL).
  exact (qx_query_exact_ok s fi f rels qi s1 HS HT Hci HFL HFo Hf Hok Ho).
Qed.
End qx_reach.

(* ================================================================================================ *)
(** * Part 5: the operation OQueryAll (Query, Count, Next/Get until exhausted, Close) *)

Lemma qx_drain_go : forall d qi fuel acc s es s', drain d fuel qi s = Ok es s' ->
  StorageD.sd_drain_go d qi fuel acc s = Ok (acc ++ es) s'.
Proof.
  intros d qi fuel. induction fuel as [|fu IH]; intros acc s es s' H.
  - cbn in H. injection H as <- <-. cbn. rewrite app_nil_r. reflexivity.
  - cbn [drain] in H. cbn [StorageD.sd_drain_go]. unfold bind at 1.
    destruct (query_next d qi s) as [[|] s1|er s1]; [| |discriminate].
    + unfold bind at 1. destruct (query_entity d qi s1) as [x s2|er s2]; [|discriminate].
      destruct (drain d fu qi s2) as [xs s3|er s3] eqn:Ed; [|discriminate]. injection H as <- <-.
      rewrite (IH (acc ++ [x]) s2 xs s3 Ed), <- app_assoc. reflexivity.
    + injection H as <- <-. cbn. rewrite app_nil_r. reflexivity.
Qed.

(** OQueryAll on a state satisfying the invariants, for relations that resolve and a Query call that is
    accepted: the operation succeeds, reports Count = number of entities visited = |vis| and the
    visited entities [vis], which are exactly the [qx_model] entities, each once; it leaves the query
    closed and changes nothing but the query objects and the lock. *)
Theorem qx_query_all_exact : forall d s fi f hrels rels0 rels qi s1,
  St2 s -> archs_tabled_norel s -> r2k_cidx_ok s -> qx_FL s ->
  nth_error (w_filters s) fi = Some f ->
  resolveR hrels s = Ok rels0 s -> resolve_relidx fi rels0 s = Ok rels s -> check_unsafe_rels fi rels s = Ok tt s ->
  query_open fi rels s = Ok qi s1 ->
  let hd := match f_cache f with None => true | Some _ => false end in
  exists vis s2,
    step_op d (OQueryAll fi hrels) s = Ok (Zn (length vis) :: Zn (length vis) :: flat_map Zent vis) s2 /\
    query_frame s s2 /\ NoDup vis /\
    (forall e, In e vis <-> qx_model hd s f (f_rels f ++ rels) e) /\
    Permutation vis (filter (qx_model_b hd s f (f_rels f ++ rels)) (qx_all_rows s)).
Proof.
  intros d s fi f hrels rels0 rels qi s1 HS HT Hci HFL Hf Hr0 Hr Hcu Ho hd.
  destruct (qx_query_exact s fi f rels qi s1 HS HT Hci HFL Hf Ho) as (vis & (_ & Hcnt & _ & Hdr) & Hnd & Hin & Hperm).
  destruct (Hdr d (S (length vis)) (Nat.lt_succ_diag_r _)) as (s2 & Hd & Hfr2 & (q' & Hq' & Htab) & _).
  exists vis, s2. split; [|split; [|split; [exact Hnd|split; [exact Hin|exact Hperm]]]].
  - rewrite StorageD.sd_step_op_QueryAll.
    rewrite (sa_bind_ok Hr0), (sa_bind_ok Hr), (sa_bind_ok Hcu), (sa_bind_ok Ho), (sa_bind_ok Hcnt).
    rewrite (sa_bind_ok (qx_drain_go d qi _ [] s1 vis s2 Hd)). cbn [app].
    assert (Hcl : query_close qi s2 = Ok tt s2).
    { unfold query_close. rewrite (q_bind_getQ _ s2 qi q' _ Hq'), Htab. reflexivity. }
    rewrite (sa_bind_ok Hcl). reflexivity.
  - pose proof (query_open_frame fi rels s) as Hfr1. rewrite Ho in Hfr1. cbn [state_of] in Hfr1.
    apply (q_frame_trans s s1 s2 Hfr1 Hfr2).
Qed.

(** ** Operation level: every query the operation language accepts obeys the NATURAL specification.
    UnsafeFilter.Query validates its relation arguments ([check_unsafe_rels] in Run.v, mirroring the repaired
    Go code), typed filters validate theirs in [to_relations]: in both cases the per-query relations name
    relation components of the filter mask, so the deviations (D1), (D2) of [qx_model] from [matches_spec]
    - which exist for [query_open] called with arbitrary lists - cannot be reached through the operations. *)
Lemma qx_check_unsafe_ok : forall s fi f rels,
  nth_error (w_filters s) fi = Some f -> f_unsafe f = true ->
  check_unsafe_rels fi rels s = Ok tt s -> r2k_rels_ok s (f_mask f) rels.
Proof.
  intros s fi f rels Hf Hu H. unfold check_unsafe_rels in H.
  destruct rels as [|r0 rest]; [intros r []|]. cbn [is_nil] in H.
  rewrite (q_bind_getF _ s fi f _ Hf) in H. rewrite Hu in H. cbn [whenM] in H.
  remember (r0 :: rest) as l eqn:El. clear El r0 rest.
  induction l as [|r l IH]; [intros x []|].
  cbn [forM_] in H. unfold bind at 1 in H.
  destruct ((s0 <- get ;; guard (is_rel_comp s0 (fst r)) ENotRelation ;;; guard (mk_get (f_mask f) (fst r)) ERelNotInMask) s)
    as [u s'|er s'] eqn:E; [|discriminate H].
  unfold bind, get, guard in E.
  destruct (is_rel_comp s (fst r)) eqn:E1; [|discriminate E].
  destruct (mk_get (f_mask f) (fst r)) eqn:E2; [|discriminate E].
  inversion E; subst s'. intros x [<-|Hx]; [split; assumption|apply (IH H x Hx)].
Qed.

Theorem qx_query_all_natural : forall d s fi f hrels out s2,
  St2 s -> archs_tabled_norel s -> r2k_cidx_ok s -> qx_FL s -> r2q_filters_ok s ->
  nth_error (w_filters s) fi = Some f ->
  step_op d (OQueryAll fi hrels) s = Ok out s2 ->
  exists rels vis,
    out = Zn (length vis) :: Zn (length vis) :: flat_map Zent vis /\ NoDup vis /\
    (forall e, In e vis <-> matches_spec s f (f_rels f ++ rels) e).
Proof.
  intros d s fi f hrels out s2 HS HT Hci HFL HFo Hf H.
  rewrite StorageD.sd_step_op_QueryAll in H.
  unfold bind at 1 in H. pose proof (readonly_resolveR hrels s) as R0.
  destruct (resolveR hrels s) as [rels0 s0|er s0] eqn:E0; [|discriminate H]. cbn [state_of] in R0. subst s0.
  unfold bind at 1 in H. pose proof (readonly_resolve_relidx fi rels0 s) as R1.
  destruct (resolve_relidx fi rels0 s) as [rels s0|er s0] eqn:E1; [|discriminate H]. cbn [state_of] in R1. subst s0.
  unfold bind at 1 in H. pose proof (readonly_check_unsafe_rels fi rels s) as R2.
  destruct (check_unsafe_rels fi rels s) as [[] s0|er s0] eqn:E2; [|discriminate H]. cbn [state_of] in R2. subst s0.
  destruct (query_open fi rels s) as [qi s1|er s1] eqn:Eo; [|rewrite (sa_bind_err Eo) in H; discriminate H].
  assert (Hok : r2k_rels_ok s (f_mask f) rels).
  { destruct (f_unsafe f) eqn:Hu; [apply (qx_check_unsafe_ok s fi f rels Hf Hu E2)|].
    destruct (r2k_query_open_inv fi rels s qi s1 f Hf Eo) as (Hk & _). apply (Hk Hu). }
  destruct (qx_query_all_exact d s fi f hrels rels0 rels qi s1 HS HT Hci HFL Hf E0 E1 E2 Eo) as (vis & s2' & Hst & _ & Hnd & Hin & _).
  rewrite StorageD.sd_step_op_QueryAll in Hst.
  unfold bind at 1 in Hst. rewrite E0 in Hst. unfold bind at 1 in Hst. rewrite E1 in Hst. unfold bind at 1 in Hst. rewrite E2 in Hst.
  rewrite Hst in H. inversion H; subst out s2'.
  exists rels, vis. split; [reflexivity|]. split; [exact Hnd|]. intros e. rewrite Hin. apply qx_model_natural.
  intros r Hr. apply in_app_iff in Hr. destruct Hr as [Hr|Hr]; [apply (HFo fi f Hf r Hr)|apply (Hok r Hr)].
Qed.

(* ================================================================================================ *)
(** * Part 6: a relation world with two targets, a recycled target id, a registered filter, typed and
    unsafe queries (components of [r2_cfg]: 0,1,2 plain; 3,4 relation components) *)

Local Open Scope Z_scope.
Definition qx_ex_script : list (list Z) :=
  [[0]; [0];                        (* handles 0, 1: the two targets, entities (2,0) and (3,0) *)
   [2; 2;0;3; 1; 3;0];              (* handle 2 = (4,0): components 0, 3; relation 3 -> handle 0 *)
   [2; 2;0;3; 1; 3;1];              (* handle 3 = (5,0): relation 3 -> handle 1 *)
   [2; 2;0;3; 1; 3;0];              (* handle 4 = (6,0): relation 3 -> handle 0 *)
   [1; 1;0];                        (* handle 5 = (7,0): component 0 only (an archetype without relations) *)
   [11; 1];                         (* the second target dies: handle 3 is detached (target zero) *)
   [0];                             (* handle 6 = (3,1): the id of the dead target is RECYCLED *)
   [10; 3; 1; 3;6];                 (* handle 3: relation 3 -> the new incarnation (3,1) *)
   [15; 0; 2;0;3; 0; 0; 0];         (* filter 0: typed, components 0, 3 *)
   [15; 0; 2;0;3; 0; 0; 1; 3;0];    (* filter 1: typed, fixed relation 3 -> handle 0 *)
   [16; 1];                         (* ... registered *)
   [15; 1; 1;0; 0; 0; 0];           (* filter 2: UnsafeFilter over component 0 *)
   [18; 0; 1; 3;6];                 (* complete iterations through the operation language *)
   [18; 1; 0]].
Local Close Scope Z_scope.

Definition qx_ex_world : W := Properties.Common.exec Rel2Check.r2_cfg qx_ex_script.

Lemma qx_ex_lines : Forall (rel_q_line (sc_kinds Rel2Check.r2_cfg)) qx_ex_script.
Proof. apply rel_q_line_b_sound. vm_compute. reflexivity. Qed.
Lemma qx_ex_short : length qx_ex_script + 4 < Nat.pow 2 31.
Proof. apply r2_N_small. vm_compute. reflexivity. Qed.

Example qx_ex_inv : Inv2QF qx_ex_world (length qx_ex_script).
Proof. apply reachable_inv2QF; [exact r2q_cfg_ok|exact qx_ex_lines|exact qx_ex_short]. Qed.

Example qx_ex_shape :
  w_issued qx_ex_world = [(2, 0%N); (3, 0%N); (4, 0%N); (5, 0%N); (6, 0%N); (7, 0%N); (3, 1%N)] /\
  qx_all_rows qx_ex_world = [(2, 0%N); (3, 1%N); (4, 0%N); (6, 0%N); (5, 0%N); (7, 0%N)] /\
  map (fun f => (f_ids f, f_cache f, f_rels f, f_unsafe f)) (w_filters qx_ex_world) =
    [([0; 3], None, [], false); ([0; 3], Some 0, [(3, (2, 0%N))], false); ([0], None, [], true)] /\
  Rel2Check.r2_flags Rel2Check.r2_cfg (init_world Rel2Check.r2_cfg) qx_ex_script = repeat 0%Z 15.
Proof. vm_compute. repeat split; reflexivity. Qed.

Definition qx_ex_dflt : fobj :=
  {| f_ids := []; f_mask := 0%N; f_without := 0%N; f_haswithout := false; f_cache := None; f_rels := []; f_unsafe := false |}.
Definition qx_ex_f (i : nat) : fobj := nth i (w_filters qx_ex_world) qx_ex_dflt.
Definition qx_ex_qi (fi : nat) (rels : list rel) : nat :=
  match query_open fi rels qx_ex_world with Ok qi _ => qi | Err _ _ => 0 end.
Definition qx_ex_s1 (fi : nat) (rels : list rel) : W := state_of (query_open fi rels qx_ex_world).

Lemma qx_open_ok : forall fi rels s, is_err (query_open fi rels s) = false ->
  query_open fi rels s = Ok (match query_open fi rels s with Ok qi _ => qi | Err _ _ => 0 end) (state_of (query_open fi rels s)).
Proof. intros fi rels s H. destruct (query_open fi rels s); [reflexivity|discriminate]. Qed.

(** The list a theorem speaks about IS the list the cursor computes. *)
Lemma qx_vis_computed : forall s1 qi vis fuel, qx_query_is s1 qi vis ->
  match query_count qi s1 with Ok n _ => n | Err _ _ => fuel end < fuel ->
  vis = match drain false fuel qi s1 with Ok es _ => es | Err _ _ => [] end.
Proof.
  intros s1 qi vis fuel (_ & Hc & _ & Hd) Hlt. rewrite Hc in Hlt. destruct (Hd false fuel Hlt) as (s2 & E & _). rewrite E. reflexivity.
Qed.

Ltac qx_ex_by_theorem T fi rels :=
  let Ho := fresh "Ho" in
  assert (Ho : query_open fi rels qx_ex_world = Ok (qx_ex_qi fi rels) (qx_ex_s1 fi rels))
    by (apply qx_open_ok; vm_compute; reflexivity);
  let Hf := fresh "Hf" in
  assert (Hf : nth_error (w_filters qx_ex_world) fi = Some (qx_ex_f fi)) by (vm_compute; reflexivity).

(** Typed filter 0 with a per-query relation on the RECYCLED target: only the entity that points to the new
    incarnation (the rare-component preselection walks the archetypes of component 3 only). *)
Example qx_ex_typed_recycled : forall e,
  In e [(5, 0%N)] <-> matches_spec qx_ex_world (qx_ex_f 0) [(3, (3, 1%N))] e.
Proof.
  qx_ex_by_theorem tt 0 [(3, (3, 1%N))].
  destruct (reachable_query_exact_typed Rel2Check.r2_cfg qx_ex_script r2q_cfg_ok qx_ex_lines qx_ex_short
              0 (qx_ex_f 0) [(3, (3, 1%N))] _ _ Hf eq_refl Ho) as (vis & His & _ & Hin & _).
  assert (E : vis = [(5, 0%N)]).
  { rewrite (qx_vis_computed _ _ vis 10 His); [vm_compute; reflexivity|vm_compute; repeat constructor]. }
  subst vis. exact Hin.
Qed.

(** ... on the first target: its two children. *)
Example qx_ex_typed_first : forall e,
  In e [(4, 0%N); (6, 0%N)] <-> matches_spec qx_ex_world (qx_ex_f 0) [(3, (2, 0%N))] e.
Proof.
  qx_ex_by_theorem tt 0 [(3, (2, 0%N))].
  destruct (reachable_query_exact_typed Rel2Check.r2_cfg qx_ex_script r2q_cfg_ok qx_ex_lines qx_ex_short
              0 (qx_ex_f 0) [(3, (2, 0%N))] _ _ Hf eq_refl Ho) as (vis & His & _ & Hin & _).
  assert (E : vis = [(4, 0%N); (6, 0%N)]).
  { rewrite (qx_vis_computed _ _ vis 10 His); [vm_compute; reflexivity|vm_compute; repeat constructor]. }
  subst vis. exact Hin.
Qed.

(** The typed path rejects the STALE handle of the dead target ([to_relations]: EDeadTarget). *)
Example qx_ex_typed_stale_rejected : exists s', query_open 0 [(3, (3, 0%N))] qx_ex_world = Err EDeadTarget s'.
Proof. eexists. vm_compute. reflexivity. Qed.

(** The REGISTERED filter 1 (fixed relation 3 -> first target), no per-query relation: the cached walk. *)
Example qx_ex_registered : forall e,
  In e [(4, 0%N); (6, 0%N)] <-> matches_spec qx_ex_world (qx_ex_f 1) [(3, (2, 0%N))] e.
Proof.
  qx_ex_by_theorem tt 1 (@nil rel).
  destruct (reachable_query_exact_typed Rel2Check.r2_cfg qx_ex_script r2q_cfg_ok qx_ex_lines qx_ex_short
              1 (qx_ex_f 1) [] _ _ Hf eq_refl Ho) as (vis & His & _ & Hin & _).
  assert (E : vis = [(4, 0%N); (6, 0%N)]).
  { rewrite (qx_vis_computed _ _ vis 10 His); [vm_compute; reflexivity|vm_compute; repeat constructor]. }
  subst vis. exact Hin.
Qed.

(** The UnsafeFilter 2 (component 0) with the recycled target: the entity pointing to it, AND the entity of the
    archetype without relation components (D1) - by the general theorem. *)
Example qx_ex_unsafe_model : forall e,
  In e [(5, 0%N); (7, 0%N)] <-> qx_model true qx_ex_world (qx_ex_f 2) [(3, (3, 1%N))] e.
Proof.
  qx_ex_by_theorem tt 2 [(3, (3, 1%N))].
  destruct (reachable_query_exact Rel2Check.r2_cfg qx_ex_script r2q_cfg_ok qx_ex_lines qx_ex_short
              2 (qx_ex_f 2) [(3, (3, 1%N))] _ _ Hf Ho) as (vis & His & _ & Hin & _).
  assert (E : vis = [(5, 0%N); (7, 0%N)]).
  { rewrite (qx_vis_computed _ _ vis 10 His); [vm_compute; reflexivity|vm_compute; repeat constructor]. }
  subst vis. exact Hin.
Qed.

(** (refuted) "an UnsafeFilter query with arbitrary per-query relations visits exactly the [matches_spec]
    entities": with the STALE handle (3,0) of the dead target no entity satisfies the specification - the
    generation is compared, so the entity pointing to (3,1) is correctly NOT visited - but the query visits
    (7,0), the entity WITHOUT relation components (D1). And with a relation naming the PLAIN component 0 in
    first position (D2) the specification holds of all four entities that have component 0 (the column of a
    plain component stores the zero target), the query visits (7,0) only; in second position it is compared.
    The missing hypothesis is [r2k_rels_ok] ([qx_query_exact_ok]); without it the visited set is [qx_model]. *)
Definition qx_ex_visits (fi : nat) (rels : list rel) : option (list ent) :=
  match query_open fi rels qx_ex_world with
  | Ok qi s1 => match drain false 20 qi s1 with Ok es _ => Some es | Err _ _ => None end
  | Err _ _ => None
  end.

Example qx_unsafe_natural_refuted :
  qx_ex_visits 2 [(3, (3, 0%N))] = Some [(7, 0%N)] /\
  filter (matches_spec_b qx_ex_world (qx_ex_f 2) [(3, (3, 0%N))]) (qx_all_rows qx_ex_world) = [] /\
  filter (qx_model_b true qx_ex_world (qx_ex_f 2) [(3, (3, 0%N))]) (qx_all_rows qx_ex_world) = [(7, 0%N)] /\
  qx_ex_visits 2 [(0, zero_ent)] = Some [(7, 0%N)] /\
  filter (matches_spec_b qx_ex_world (qx_ex_f 2) [(0, zero_ent)]) (qx_all_rows qx_ex_world) = [(4, 0%N); (6, 0%N); (5, 0%N); (7, 0%N)] /\
  filter (qx_model_b true qx_ex_world (qx_ex_f 2) [(0, zero_ent)]) (qx_all_rows qx_ex_world) = [(7, 0%N)] /\
  qx_ex_visits 2 [(3, (2, 0%N)); (0, zero_ent)] = Some [(4, 0%N); (6, 0%N); (7, 0%N)].
Proof. vm_compute. repeat split; reflexivity. Qed.

Corollary qx_unsafe_natural_refuted_prop :
  ~ (forall e, In e [(7, 0%N)] <-> matches_spec qx_ex_world (qx_ex_f 2) [(3, (3, 0%N))] e).
Proof.
  intros H. specialize (H (7, 0%N)). destruct H as (H & _). specialize (H (or_introl eq_refl)).
  apply matches_spec_b_spec in H. vm_compute in H. discriminate.
Qed.

(** The operation OQueryAll on the example world (typed filter 0, relation on the recycled target, handle 6). *)
Example qx_ex_query_all : exists s2,
  step_op false (OQueryAll 0 [(3, 6%Z)]) qx_ex_world = Ok [1; 1; 5; 0]%Z s2 /\ query_frame qx_ex_world s2.
Proof.
  qx_ex_by_theorem tt 0 [(3, (3, 1%N))].
  destruct qx_ex_inv as (((HS & _ & _ & _ & HT & _) & Hci) & HFL).
  destruct (qx_query_all_exact false qx_ex_world 0 (qx_ex_f 0) [(3, 6%Z)] [(3, (3, 1%N))] [(3, (3, 1%N))]
              (qx_ex_qi 0 [(3, (3, 1%N))]) (qx_ex_s1 0 [(3, (3, 1%N))])
              HS HT Hci HFL Hf) as (vis & s2 & Hop & Hfr & _ & _ & Hperm); [vm_compute; reflexivity|vm_compute; reflexivity|vm_compute; reflexivity|exact Ho|].
  assert (E : vis = [(5, 0%N)]).
  { assert (Hp : Permutation vis [(5, 0%N)]) by (rewrite Hperm; vm_compute; reflexivity).
    apply Permutation_sym, Permutation_length_1_inv in Hp. exact Hp. }
  subst vis. exists s2. split; [exact Hop|exact Hfr].
Qed.

(** ** Assumption audit *)
Definition qx_all := (qx_exclusive_exact, qx_arch_sel_spec, qx_sel_list_spec, qx_cached_spec, qx_model_natural, qx_rows_nodup, qx_all_rows_spec,
  qx_model_table, qx_rows_spec, qx_model_b_spec, matches_spec_b_spec, qx_query_exact, qx_query_exact_typed, qx_query_exact_ok,
  reachable_query_exact, reachable_query_exact_typed, reachable_query_exact_ok, qx_query_all_exact, qx_check_unsafe_ok, qx_query_all_natural,
  qx_ex_inv, qx_ex_shape, qx_ex_typed_recycled, qx_ex_typed_first, qx_ex_typed_stale_rejected, qx_ex_registered,
  qx_ex_unsafe_model, qx_unsafe_natural_refuted, qx_unsafe_natural_refuted_prop, qx_ex_query_all).
Print Assumptions qx_all.
