(** * ViewProofs: what callbacks and statistics see. Properties C09 (inside a callback the entity is
    alive and appears exactly once in a query; removal callbacks see the old content), C19 (entity
    figures agree with the tables). To be filled. *)
From Ark Require Import Model.Base Model.Mask Model.Pool Model.Util Model.World Model.Run.
From Ark Require Import Proofs.TableProofs Proofs.MaskProofs Proofs.WF Proofs.StorageA Proofs.StorageBDefs.
From Ark Require Import Proofs.StorageB_sb1 Proofs.StorageB_sb2 Proofs.StorageB_sb3.
From RecordUpdate Require Import RecordSet.
Import RecordSetNotations.
From Coq Require Import Lia.

From Coq Require Import Permutation.

(** ** Two clauses the invariant [WF] lacks (see the comments at [live_counted_once],
    [snapshot_is_content], [stats_sizes_sum]); stated as explicit hypotheses of the [_partial] variants. *)

(** Every table is listed by (exactly) its archetype. *)
Definition v_tables_listed (s : W) : Prop :=
  forall tid t, nth_error (w_tables s) tid = Some t ->
    exists a, nth_error (w_archs s) (t_arch t) = Some a /\ a_tables a = [tid].

(** All relation targets of all tables are zero (relation-free world). *)
Definition v_targets_zero (s : W) : Prop :=
  forall tid t, nth_error (w_tables s) tid = Some t -> Forall (fun tg : ent => tg = zero_ent) (t_targets t).

(** ** List library *)

Lemma v_fold_sum : forall A (f : A -> nat) l acc,
  fold_left (fun acc x => acc + f x) l acc = acc + list_sum (map f l).
Proof. induction l as [|a l IH]; simpl; intros acc; [lia|]. rewrite IH. lia. Qed.

Lemma v_list_sum_flat : forall A B (g : A -> list B) (f : B -> nat) l,
  list_sum (map (fun a => list_sum (map f (g a))) l) = list_sum (map f (flat_map g l)).
Proof.
  induction l as [|a l IH]; simpl; auto. rewrite map_app, list_sum_app, IH. reflexivity.
Qed.

Lemma v_list_sum_zero : forall A (f : A -> nat) l, (forall x, In x l -> f x = 0) -> list_sum (map f l) = 0.
Proof.
  induction l as [|a l IH]; simpl; intros H; auto. rewrite (H a), IH; auto.
Qed.

Lemma v_list_sum_single : forall (f : nat -> nat) l x, NoDup l -> In x l ->
  (forall y, In y l -> y <> x -> f y = 0) -> list_sum (map f l) = f x.
Proof.
  induction l as [|a l IH]; simpl; intros x ND Hin Hz; [contradiction|].
  inversion ND as [|? ? Na Nl]; subst. destruct Hin as [->|Hin].
  - rewrite v_list_sum_zero; [lia|]. intros y Hy. apply Hz; auto. intros ->. contradiction.
  - assert (Za : f a = 0) by (apply Hz; [left; reflexivity|intros ->; contradiction]).
    rewrite Za. simpl. apply IH; auto.
Qed.

Lemma v_list_sum_perm : forall l l', Permutation l l' -> list_sum l = list_sum l'.
Proof. induction 1; simpl; lia. Qed.

Lemma v_map_nth_seq : forall A B (h : A -> B) (d : B) (l : list A),
  map (fun i => match nth_error l i with Some x => h x | None => d end) (seq 0 (length l)) = map h l.
Proof.
  intros A B h d l. induction l as [|x l IH] using rev_ind; [reflexivity|].
  rewrite app_length. simpl length. rewrite seq_app, !map_app. simpl. f_equal.
  - rewrite <- IH. apply map_ext_in. intros i Hi. apply in_seq in Hi.
    rewrite nth_error_app1; [reflexivity|lia].
  - rewrite nth_error_app2; [|lia]. rewrite Nat.sub_diag. reflexivity.
Qed.

Lemma v_flat_map_nth_seq : forall A B (h : A -> list B) (l : list A),
  flat_map (fun i => match nth_error l i with Some x => h x | None => [] end) (seq 0 (length l)) = flat_map h l.
Proof.
  intros. rewrite !flat_map_concat_map. rewrite v_map_nth_seq. reflexivity.
Qed.

Lemma v_NoDup_app : forall A (l1 l2 : list A), NoDup l1 -> NoDup l2 ->
  (forall x, In x l1 -> ~ In x l2) -> NoDup (l1 ++ l2).
Proof.
  induction l1 as [|a l1 IH]; simpl; intros l2 N1 N2 D; auto.
  inversion N1 as [|? ? Na Nl]; subst. constructor.
  - intros H. apply in_app_or in H. destruct H as [H|H]; [contradiction|]. apply (D a); auto.
  - apply IH; auto.
Qed.

Lemma v_NoDup_flat_map : forall A B (g : A -> list B) l, NoDup l ->
  (forall x, In x l -> NoDup (g x)) ->
  (forall x y z, In x l -> In y l -> In z (g x) -> In z (g y) -> x = y) ->
  NoDup (flat_map g l).
Proof.
  induction l as [|a l IH]; simpl; intros ND H1 H2; [constructor|].
  inversion ND as [|? ? Na Nl]; subst. apply v_NoDup_app.
  - apply H1; auto.
  - apply IH; auto. intros x y z Hx Hy. apply H2; auto.
  - intros z Hz Hz'. apply in_flat_map in Hz'. destruct Hz' as (y & Hy & Hzy).
    assert (a = y) by (apply (H2 a y z); auto). subst. contradiction.
Qed.

Lemma v_length_flat_map : forall A B (g : A -> list B) l,
  length (flat_map g l) = list_sum (map (fun x => length (g x)) l).
Proof. induction l as [|a l IH]; simpl; auto. rewrite app_length, IH. reflexivity. Qed.

Lemma v_nth_firstn : forall A (l : list A) n r d, r < n -> nth r (firstn n l) d = nth r l d.
Proof.
  induction l as [|a l IH]; intros n r d H.
  - rewrite firstn_nil. reflexivity.
  - destruct n as [|n]; [lia|]. destruct r as [|r]; simpl; auto. apply IH. lia.
Qed.

Lemma v_NoDup_short : forall A (l : list A), length l <= 1 -> NoDup l.
Proof.
  intros A [|x [|y l]] H; simpl in H; try lia; repeat constructor. intros [].
Qed.

Lemma v_filter_none : forall e l, ~ In e l -> filter (ent_eqb e) l = [].
Proof.
  induction l as [|a l IH]; simpl; intros H; auto.
  destruct (ent_eqb e a) eqn:E.
  - apply sa_ent_eqb_eq in E. subst. exfalso. auto.
  - apply IH. auto.
Qed.

Lemma v_filter_one : forall e l, NoDup l -> In e l -> length (filter (ent_eqb e) l) = 1.
Proof.
  induction l as [|a l IH]; simpl; intros ND H; [contradiction|].
  inversion ND as [|? ? Na Nl]; subst. destruct (ent_eqb e a) eqn:E.
  - apply sa_ent_eqb_eq in E. subst. rewrite v_filter_none; auto.
  - destruct H as [->|H]; [rewrite sa_ent_eqb_refl in E; discriminate|]. apply IH; auto.
Qed.

(** ** Rows of one table *)

Lemma v_tbl_ok : forall s tid t, WF s -> nth_error (w_tables s) tid = Some t -> tbl_ok t.
Proof.
  intros s tid t HW T. pose proof (wf_tables _ HW) as F. rewrite Forall_forall in F.
  apply F. eapply nth_error_In; eauto.
Qed.

Lemma v_count_pos : forall e t, count_rows e t <> 0 -> exists r, r < t_len t /\ row_ent t r = e.
Proof.
  intros e t H. unfold count_rows in H.
  destruct (filter (ent_eqb e) (firstn (t_len t) (t_ents t))) as [|x l] eqn:F; [simpl in H; lia|].
  assert (Hx : In x (filter (ent_eqb e) (firstn (t_len t) (t_ents t)))) by (rewrite F; left; reflexivity).
  apply filter_In in Hx. destruct Hx as [Hin Heq]. apply sa_ent_eqb_eq in Heq. subst x.
  destruct (In_nth _ _ zero_ent Hin) as (r & Hr & Hn).
  rewrite firstn_length in Hr. exists r. split; [lia|]. unfold row_ent. rewrite <- Hn.
  symmetry. apply v_nth_firstn. lia.
Qed.

Lemma v_count_one : forall s tid t r, WF s -> nth_error (w_tables s) tid = Some t -> r < t_len t ->
  count_rows (row_ent t r) t = 1.
Proof.
  intros s tid t r HW T R. unfold count_rows.
  destruct (v_tbl_ok _ _ _ HW T) as ((S1 & S2 & _) & _).
  assert (L : length (firstn (t_len t) (t_ents t)) = t_len t) by (rewrite firstn_length; lia).
  apply v_filter_one.
  - apply (NoDup_nth _ zero_ent). intros i j Hi Hj E. rewrite L in Hi, Hj.
    rewrite !v_nth_firstn in E by lia.
    assert (E' : fst (row_ent t i) = fst (row_ent t j)) by (unfold row_ent; rewrite E; reflexivity).
    destruct (sb2_row_inj s tid t i tid t j HW T Hi T Hj E'). auto.
  - unfold row_ent. rewrite <- (v_nth_firstn _ (t_ents t) (t_len t) r zero_ent R). apply nth_In. lia.
Qed.

(** A table holding [e] in one of its rows is the table [e] is located in, and [e] is live. *)
Lemma v_count_pos_live : forall s e tid t, WF s -> nth_error (w_tables s) tid = Some t -> count_rows e t <> 0 ->
  live s e = true /\ exists r, loc s e = Some (tid, r).
Proof.
  intros s e tid t HW T C. destruct (v_count_pos _ _ C) as (r & R & E).
  destruct (wf_rows _ HW _ _ _ T R) as (L & _). rewrite E in L. split; [|eauto].
  apply live_present. exists tid, r, t. auto.
Qed.

(** ** The active table lists *)

Definition v_at (s : W) (f : table -> nat) (tid : nat) : nat :=
  match nth_error (w_tables s) tid with Some t => f t | None => 0 end.
Definition v_listed (s : W) : list nat := flat_map a_tables (w_archs s).

Lemma v_inner_fold : forall s (f : table -> nat) l acc,
  fold_left (fun acc tid => match nth_error (w_tables s) tid with Some t => acc + f t | None => acc end) l acc
  = acc + list_sum (map (v_at s f) l).
Proof.
  induction l as [|a l IH]; simpl; intros acc; [lia|]. rewrite IH. unfold v_at at 2.
  destruct (nth_error (w_tables s) a); lia.
Qed.

Lemma v_count_in_world_sum : forall s e,
  count_in_world s e = list_sum (map (v_at s (count_rows e)) (v_listed s)).
Proof.
  intros s e. unfold count_in_world, v_listed.
  assert (G : forall l acc, fold_left (fun acc a =>
      fold_left (fun acc tid => match nth_error (w_tables s) tid with
                               | Some t => acc + count_rows e t | None => acc end) (a_tables a) acc) l acc
      = acc + list_sum (map (v_at s (count_rows e)) (flat_map a_tables l))).
  { induction l as [|a l IH]; simpl; intros acc; [lia|].
    rewrite IH, v_inner_fold, map_app, list_sum_app. lia. }
  rewrite G. reflexivity.
Qed.

Lemma v_listed_seq : forall s, v_listed s =
  flat_map (fun i => match nth_error (w_archs s) i with Some a => a_tables a | None => [] end)
           (seq 0 (length (w_archs s))).
Proof. intros s. unfold v_listed. symmetry. apply v_flat_map_nth_seq. Qed.

Lemma v_listed_in : forall s tid, In tid (v_listed s) <->
  exists aid a, nth_error (w_archs s) aid = Some a /\ In tid (a_tables a).
Proof.
  intros s tid. unfold v_listed. rewrite in_flat_map. split.
  - intros (a & Ha & Ht). destruct (In_nth_error _ _ Ha) as (aid & Hn). eauto.
  - intros (aid & a & Hn & Ht). exists a. split; auto. eapply nth_error_In; eauto.
Qed.

Lemma v_listed_table : forall s tid, WF s -> In tid (v_listed s) ->
  exists t, nth_error (w_tables s) tid = Some t.
Proof.
  intros s tid HW H. apply v_listed_in in H. destruct H as (aid & a & Ha & Ht).
  destruct (wf_arch_tables _ HW aid a tid Ha (or_introl Ht)) as (t & T & _). eauto.
Qed.

Lemma v_listed_NoDup : forall s, St s -> NoDup (v_listed s).
Proof.
  intros s [HW (_ & _ & N3 & _)]. rewrite v_listed_seq. apply v_NoDup_flat_map.
  - apply seq_NoDup.
  - intros i _. destruct (nth_error (w_archs s) i) as [a|] eqn:Ha; [|constructor].
    apply v_NoDup_short. apply (wf_arch_norel_table _ HW i a Ha). destruct (N3 i a Ha) as (_ & Z & _). exact Z.
  - intros i j z _ _ Hi Hj.
    destruct (nth_error (w_archs s) i) as [a|] eqn:Ha; [|contradiction].
    destruct (nth_error (w_archs s) j) as [b|] eqn:Hb; [|contradiction].
    destruct (wf_arch_tables _ HW i a z Ha (or_introl Hi)) as (t & T & A).
    destruct (wf_arch_tables _ HW j b z Hb (or_introl Hj)) as (t' & T' & A').
    rewrite T in T'. inversion T'; subst. reflexivity.
Qed.

Lemma v_listed_all : forall s tid t, v_tables_listed s -> nth_error (w_tables s) tid = Some t -> In tid (v_listed s).
Proof.
  intros s tid t HL T. destruct (HL tid t T) as (a & Ha & Hl). apply v_listed_in.
  exists (t_arch t), a. split; auto. rewrite Hl. left. reflexivity.
Qed.

(** Under [v_tables_listed] the listed tables are all tables, each once. *)
Lemma v_listed_perm : forall s, St s -> v_tables_listed s ->
  Permutation (v_listed s) (seq 0 (length (w_tables s))).
Proof.
  intros s HS HL. apply NoDup_Permutation; [apply v_listed_NoDup; auto|apply seq_NoDup|].
  intros tid. rewrite in_seq. split.
  - intros H. destruct (v_listed_table s tid (proj1 HS) H) as (t & T).
    apply sa_nth_error_lt in T. lia.
  - intros [_ H]. simpl in H. destruct (nth_error (w_tables s) tid) as [t|] eqn:T.
    + eapply v_listed_all; eauto.
    + apply nth_error_None in T. lia.
Qed.

Lemma v_sum_tables : forall s (f : table -> nat),
  list_sum (map (v_at s f) (seq 0 (length (w_tables s)))) = list_sum (map f (w_tables s)).
Proof. intros s f. unfold v_at. rewrite v_map_nth_seq. reflexivity. Qed.


(** In a well-formed relation-free world every live entity appears exactly once in a full query
    (count_in_world is what the callback's Filter0 query counts), every other handle not at all. *)

(** What the invariant gives as it stands: an entity located in table [tid] is counted once if [tid]
    is in some active list, and not at all otherwise. *)
Lemma v_count_listed : forall s e tid r, St s -> live s e = true -> loc s e = Some (tid, r) ->
  count_in_world s e = if in_dec Nat.eq_dec tid (v_listed s) then 1 else 0.
Proof.
  intros s e tid r HS H L. pose proof (proj1 HS) as HW.
  apply live_present in H. destruct H as (tid' & r' & t & L' & T & R & E).
  rewrite L in L'. inversion L'; subst tid' r'. clear L'.
  assert (Z : forall y, y <> tid -> v_at s (count_rows e) y = 0).
  { intros y Ne. unfold v_at. destruct (nth_error (w_tables s) y) as [t'|] eqn:T'; auto.
    destruct (Nat.eq_dec (count_rows e t') 0) as [Z|NZ]; auto.
    destruct (v_count_pos_live s e y t' HW T' NZ) as (_ & r' & L'). rewrite L in L'. inversion L'. congruence. }
  rewrite v_count_in_world_sum. destruct (in_dec Nat.eq_dec tid (v_listed s)) as [Hin|Hout].
  - rewrite (v_list_sum_single (v_at s (count_rows e)) (v_listed s) tid).
    + unfold v_at. rewrite T. rewrite <- E. eapply v_count_one; eauto.
    + apply v_listed_NoDup; auto.
    + exact Hin.
    + intros y _ Ne. apply Z; auto.
  - apply v_list_sum_zero. intros y Hy. apply Z. intros ->. contradiction.
Qed.

(** No handle is ever counted twice. *)
Theorem counted_at_most_once : forall s e, St s -> count_in_world s e <= 1.
Proof.
  intros s e HS. destruct (live s e) eqn:Lv.
  - pose proof Lv as P. apply live_present in P. destruct P as (tid & r & t & L & _).
    rewrite (v_count_listed s e tid r HS Lv L). destruct (in_dec _ _ _); lia.
  - assert (Z : count_in_world s e = 0); [|lia].
    rewrite v_count_in_world_sum. apply v_list_sum_zero.
    intros tid Hin. unfold v_at. destruct (nth_error (w_tables s) tid) as [t|] eqn:T; auto.
    destruct (Nat.eq_dec (count_rows e t) 0) as [Z|NZ]; auto.
    destruct (v_count_pos_live s e tid t (proj1 HS) T NZ) as (Lv' & _). congruence.
Qed.

(** *** Refutation of [live_counted_once] as stated: erasing all active table lists keeps the
    invariant and the content, but makes every count zero. *)
Definition v_unlist (s : W) : W := s <| w_archs ::= map (fun a => a <| a_tables := [] |>) |>.

Lemma v_unlist_arch : forall s aid a', nth_error (w_archs (v_unlist s)) aid = Some a' ->
  exists a, nth_error (w_archs s) aid = Some a /\ a' = a <| a_tables := [] |>.
Proof.
  intros s aid a' H. unfold v_unlist in H. cbn in H. rewrite nth_error_map in H.
  destruct (nth_error (w_archs s) aid) as [a|]; [|discriminate]. inversion H. eauto.
Qed.

Lemma v_unlist_arch' : forall s aid a, nth_error (w_archs s) aid = Some a ->
  nth_error (w_archs (v_unlist s)) aid = Some (a <| a_tables := [] |>).
Proof. intros s aid a H. unfold v_unlist. cbn. rewrite nth_error_map, H. reflexivity. Qed.

Lemma v_unlist_St : forall s, St s -> St (v_unlist s).
Proof.
  intros s [HW (N1 & N2 & N3 & N4)]. split.
  - destruct HW. constructor; auto.
    + intros tid t T. destruct (wf_layout tid t T) as (a & A1 & A2). exists (a <| a_tables := [] |>).
      split; [apply v_unlist_arch'; exact A1|exact A2].
    + intros aid a' H. destruct (v_unlist_arch s aid a' H) as (a & Ha & ->). exact (wf_arch_comps aid a Ha).
    + intros i j a' b' Hi Hj M. destruct (v_unlist_arch s i a' Hi) as (a & Ha & ->).
      destruct (v_unlist_arch s j b' Hj) as (b & Hb & ->). exact (wf_arch_unique i j a b Ha Hb M).
    + intros aid a' tid H D. destruct (v_unlist_arch s aid a' H) as (a & Ha & ->).
      apply (wf_arch_tables aid a tid Ha). destruct D as [[]|D]. right. exact D.
    + intros aid a' H _. destruct (v_unlist_arch s aid a' H) as (a & Ha & ->). simpl. lia.
    + destruct wf_arch0 as (a0 & A0 & M0 & T0). exists (a0 <| a_tables := [] |>).
      split; [apply v_unlist_arch'; exact A0|]. split; [exact M0|exact T0].
  - unfold NoRel. split; [exact N1|]. split; [exact N2|]. split; [|exact N4].
    intros aid a' H. destruct (v_unlist_arch s aid a' H) as (a & Ha & ->). exact (N3 aid a Ha).
Qed.

Lemma v_unlist_live : forall s e, live (v_unlist s) e = live s e.
Proof. reflexivity. Qed.

Lemma v_unlist_count : forall s e, count_in_world (v_unlist s) e = 0.
Proof.
  intros s e. rewrite v_count_in_world_sum. apply v_list_sum_zero. intros tid H. exfalso.
  apply v_listed_in in H. destruct H as (aid & a' & Ha & Hin).
  destruct (v_unlist_arch s aid a' Ha) as (a & _ & ->). exact Hin.
Qed.

Theorem v_live_counted_once_refuted :
  (exists s e, St s /\ live s e = true) ->
  ~ (forall s e, St s -> live s e = true -> count_in_world s e = 1).
Proof.
  intros (s & e & HS & Lv) H.
  pose proof (H (v_unlist s) e (v_unlist_St s HS) Lv) as C. rewrite v_unlist_count in C. discriminate.
Qed.

(* REFUTED as stated: [WF]/[NoRel] do not say that the table of a live entity is listed in the
   [a_tables] of its archetype ([wf_arch_tables] is only the converse direction: listed tables exist
   and carry the archetype's number). [v_unlist] above erases all active lists; this keeps [St] and
   [live] but makes every count zero, so the statement contradicts the existence of any [St] world with
   a live entity ([v_live_counted_once_refuted]). Missing clause of the invariant: [v_tables_listed].
Theorem live_counted_once : forall s e, St s -> live s e = true -> count_in_world s e = 1.
(refuted). *)

Theorem live_counted_once_partial : forall s e, St s -> v_tables_listed s -> live s e = true ->
  count_in_world s e = 1.
Proof.
  intros s e HS HL H. pose proof H as P. apply live_present in P.
  destruct P as (tid & r & t & L & T & _).
  rewrite (v_count_listed s e tid r HS H L).
  destruct (in_dec Nat.eq_dec tid (v_listed s)) as [_|Hout]; [reflexivity|].
  exfalso. apply Hout. eapply v_listed_all; eauto.
Qed.

Theorem dead_counted_zero : forall s e, St s -> live s e = false -> count_in_world s e = 0.
Proof.
  intros s e [HW _] H. rewrite v_count_in_world_sum. apply v_list_sum_zero.
  intros tid Hin. unfold v_at. destruct (nth_error (w_tables s) tid) as [t|] eqn:T; auto.
  destruct (Nat.eq_dec (count_rows e t) 0) as [Z|NZ]; auto.
  destruct (v_count_pos_live s e tid t HW T NZ) as (Lv & _). congruence.
Qed.

(** The snapshot a callback takes of a live entity is its content: one entry per component, in
    ascending component order, with the value [val] reports and target zero (no relations). *)

(** *** Refutation of [snapshot_is_content] as stated: overwriting all relation targets keeps the
    invariant and the content, but shows up in the snapshot. *)
Definition v_retarget_tbl (t : table) : table := t <| t_targets := map (fun _ => (1, 0%N)) (t_targets t) |>.
Definition v_retarget (s : W) : W := s <| w_tables ::= map v_retarget_tbl |>.

Lemma v_retarget_tbl_inv : forall s tid t', nth_error (w_tables (v_retarget s)) tid = Some t' ->
  exists t, nth_error (w_tables s) tid = Some t /\ t' = v_retarget_tbl t.
Proof.
  intros s tid t' H. unfold v_retarget in H. cbn in H. rewrite nth_error_map in H.
  destruct (nth_error (w_tables s) tid) as [t|]; [|discriminate]. inversion H. eauto.
Qed.

Lemma v_retarget_tbl' : forall s tid t, nth_error (w_tables s) tid = Some t ->
  nth_error (w_tables (v_retarget s)) tid = Some (v_retarget_tbl t).
Proof. intros s tid t H. unfold v_retarget. cbn. rewrite nth_error_map, H. reflexivity. Qed.

Lemma v_retarget_St : forall s, St s -> St (v_retarget s).
Proof.
  intros s [HW (N1 & N2 & N3 & N4)]. split.
  - destruct HW. constructor; auto.
    + unfold v_retarget. cbn. apply Forall_forall. intros t' H. apply in_map_iff in H.
      destruct H as (t & <- & Hin). rewrite Forall_forall in wf_tables. exact (wf_tables t Hin).
    + intros tid t' T. destruct (v_retarget_tbl_inv s tid t' T) as (t & Ht & ->).
      destruct (wf_layout tid t Ht) as (a & A1 & A2 & A3 & A4). exists a.
      split; [exact A1|]. split; [exact A2|]. split; [exact A3|].
      unfold v_retarget_tbl. cbn. rewrite map_length. exact A4.
    + intros aid a tid Ha D. destruct (wf_arch_tables aid a tid Ha D) as (t & T & A).
      exists (v_retarget_tbl t). split; [apply v_retarget_tbl'; exact T|exact A].
    + destruct wf_arch0 as (a0 & A0 & M0 & t0 & T0 & B0). exists a0. split; [exact A0|]. split; [exact M0|].
      exists (v_retarget_tbl t0). split; [apply v_retarget_tbl'; exact T0|exact B0].
    + intros tid t' r T R. destruct (v_retarget_tbl_inv s tid t' T) as (t & Ht & ->).
      exact (wf_rows tid t r Ht R).
    + intros id tid r Ix. destruct (wf_index id tid r Ix) as (t & T & R & E).
      exists (v_retarget_tbl t). split; [apply v_retarget_tbl'; exact T|]. split; [exact R|exact E].
  - unfold NoRel. split; [exact N1|]. split; [|split; [exact N3|exact N4]].
    intros tid t' T. destruct (v_retarget_tbl_inv s tid t' T) as (t & Ht & ->). exact (N2 tid t Ht).
Qed.

Theorem v_snapshot_is_content_refuted :
  (exists s e tid r t c ids, St s /\ live s e = true /\ loc s e = Some (tid, r) /\
      nth_error (w_tables s) tid = Some t /\ t_ids t = c :: ids) ->
  ~ (forall s e l, St s -> live s e = true -> snapshot_entity s e = Some l ->
       exists ids, comps_of s e = Some ids /\ l = Zn (length ids) :: flat_map (fun c =>
         [Zn c; match val s e c with Some v => v | None => 0%Z end; 0%Z; 0%Z]) ids).
Proof.
  intros (s & e & tid & r & t & c & ids & HS & Lv & L & T & I) H.
  pose proof (v_retarget_tbl' s tid t T) as T'.
  assert (L' : loc (v_retarget s) e = Some (tid, r)) by exact L.
  assert (Lv' : live (v_retarget s) e = true).
  { unfold live. rewrite L', T'. unfold live in Lv. rewrite L, T in Lv. exact Lv. }
  assert (Sn : snapshot_entity (v_retarget s) e = Some (Zn (length (t_ids t)) :: snapshot_row (v_retarget_tbl t) r)).
  { unfold snapshot_entity. unfold loc in L'.
    destruct (nth_error (w_index (v_retarget s)) (fst e)) as [[[x|] y]|]; try discriminate.
    inversion L'; subst. rewrite T'. reflexivity. }
  destruct (H _ _ _ (v_retarget_St s HS) Lv' Sn) as (ids2 & C & E).
  unfold comps_of in C. rewrite L', T' in C. simpl in C. inversion C; subst ids2. clear C.
  destruct (wf_layout _ (proj1 HS) tid t T) as (_ & _ & _ & _ & Htg).
  destruct (v_tbl_ok _ _ _ (proj1 HS) T) as ((_ & _ & Hcols & _) & _).
  inversion E as [E']. clear E. unfold snapshot_row, v_retarget_tbl in E'. cbn in E'.
  rewrite I in *. destruct (t_cols t) as [|col cols]; [discriminate|].
  destruct (t_targets t) as [|tg tgs]; [discriminate|]. simpl in E'. inversion E'.
Qed.

(* NOT DERIVABLE as stated: the two trailing zeros of each entry are the relation target stored in
   [t_targets] of the entity's table. [WF] only fixes the LENGTH of [t_targets] ([wf_layout]) and
   [NoRel] only says [t_rels t = []] and [t_free t = false]; neither says the targets are [zero_ent].
   Replacing [t_targets] of a table by a list of non-zero handles of the same length keeps [St], [live]
   and [val] but changes the snapshot ([v_retarget], [v_snapshot_is_content_refuted] above). Missing clause: [v_targets_zero] (new tables get
   [repeat zero_ent], relation-free operations never write targets).
Theorem snapshot_is_content : forall s e l, St s -> live s e = true -> snapshot_entity s e = Some l ->
  exists ids, comps_of s e = Some ids /\ l = Zn (length ids) :: flat_map (fun c =>
     [Zn c; match val s e c with Some v => v | None => 0%Z end; 0%Z; 0%Z]) ids.
(refuted). *)

Lemma v_index_of_nth : forall l i, NoDup l -> i < length l -> index_of (nth i l 0) l = Some i.
Proof.
  induction l as [|a l IH]; simpl; intros i ND H; [lia|].
  inversion ND as [|? ? Na Nl]; subst. destruct i as [|i].
  - rewrite Nat.eqb_refl. reflexivity.
  - destruct (Nat.eqb_spec a (nth i l 0)) as [E|E].
    + exfalso. apply Na. rewrite E. apply nth_In. lia.
    + rewrite IH; auto. lia.
Qed.

Lemma v_snapshot_row_gen : forall row (G : nat -> Z) ids cols tgs,
  length cols = length ids -> length tgs = length ids ->
  Forall (fun tg : ent => tg = zero_ent) tgs ->
  (forall i, i < length ids -> G (nth i ids 0) = nth row (nth i cols []) 0%Z) ->
  flat_map (fun p : nat * (list Z * ent) => let '(c, (col, tg)) := p in [Zn c; nth row col 0%Z] ++ Zent tg)
           (combine ids (combine cols tgs))
  = flat_map (fun c => [Zn c; G c; 0%Z; 0%Z]) ids.
Proof.
  intros row G. induction ids as [|c ids IH]; intros cols tgs Hc Ht Hz HG; [reflexivity|].
  destruct cols as [|col cols]; [discriminate|]. destruct tgs as [|tg tgs]; [discriminate|].
  inversion Hz as [|? ? Z1 Z2]; subst. simpl in Hc, Ht. simpl.
  pose proof (HG 0 ltac:(simpl; lia)) as H0. simpl in H0. rewrite H0. do 4 f_equal.
  apply IH; auto; try lia. intros i Hi. apply (HG (S i)). simpl. lia.
Qed.

Theorem snapshot_is_content_partial : forall s e l, St s -> v_targets_zero s -> live s e = true ->
  snapshot_entity s e = Some l ->
  exists ids, comps_of s e = Some ids /\ l = Zn (length ids) :: flat_map (fun c =>
     [Zn c; match val s e c with Some v => v | None => 0%Z end; 0%Z; 0%Z]) ids.
Proof.
  intros s e l [HW HN] HZ Hl Hs. pose proof Hl as Hp. apply live_present in Hp.
  destruct Hp as (tid & r & t & L & T & R & E).
  unfold snapshot_entity in Hs. pose proof L as L0. unfold loc in L0.
  destruct (nth_error (w_index s) (fst e)) as [[[tid'|] r']|] eqn:Ix; try discriminate.
  inversion L0; subst tid' r'. rewrite T in Hs. inversion Hs; subst l. clear Hs.
  exists (t_ids t). split; [unfold comps_of; rewrite L, T; reflexivity|]. f_equal.
  destruct (wf_layout _ HW tid t T) as (a & Ha & Hids & _ & Htg).
  destruct (wf_arch_comps _ HW _ _ Ha) as (Hc & _).
  assert (ND : NoDup (t_ids t)) by (rewrite Hids, Hc; apply mk_to_list_sorted).
  destruct (v_tbl_ok _ _ _ HW T) as ((_ & _ & Hcols & _) & _).
  unfold snapshot_row. apply v_snapshot_row_gen; auto.
  - exact (HZ tid t T).
  - intros i Hi. unfold val. rewrite Hl. unfold value_of. rewrite L, T. unfold tbl_colidx.
    rewrite v_index_of_nth; auto.
Qed.

(** What a callback logs only depends on the storage, the lock state and the observer: two states
    with the same storage and the same lock give the same log entry. *)

(** *** Computations that leave the callback log alone *)
Definition v_lp {A} (m : MW A) : Prop := forall s, w_log (state_of (m s)) = w_log s.

Lemma v_lp_ret : forall A (a : A), v_lp (ret a).
Proof. intros A a s. reflexivity. Qed.
Lemma v_lp_fail : forall A e, v_lp (@fail W A e).
Proof. intros A e s. reflexivity. Qed.
Lemma v_lp_get : v_lp (@get W).
Proof. intros s. reflexivity. Qed.
Lemma v_lp_guard : forall b e, v_lp (@guard W b e).
Proof. intros b e s. destruct b; reflexivity. Qed.
Lemma v_lp_of_opt : forall A (o : option A) e, v_lp (@of_opt W A o e).
Proof. intros A o e s. destruct o; reflexivity. Qed.
Lemma v_lp_bind : forall A B (m : MW A) (k : A -> MW B), v_lp m -> (forall a, v_lp (k a)) -> v_lp (bind m k).
Proof.
  intros A B m k Hm Hk s. unfold bind. specialize (Hm s). destruct (m s) as [a s'|e s']; simpl in Hm.
  - rewrite Hk. exact Hm.
  - exact Hm.
Qed.
Lemma v_lp_modify : forall f : W -> W, (forall s, w_log (f s) = w_log s) -> v_lp (modify f).
Proof. intros f H s. apply H. Qed.
Lemma v_lp_whenM : forall b m, v_lp m -> v_lp (whenM b m).
Proof. intros b m H. destruct b; [exact H|apply v_lp_ret]. Qed.
Lemma v_lp_getO : forall oi, v_lp (getO oi).
Proof. intros oi. unfold getO. apply v_lp_bind; [apply v_lp_get|intros; apply v_lp_of_opt]. Qed.
Lemma v_lp_modO : forall oi f, v_lp (modO oi f).
Proof. intros oi f. apply v_lp_modify. intros s. reflexivity. Qed.
Lemma v_lp_mod_agg : forall evt f, v_lp (mod_agg evt f).
Proof. intros evt f. apply v_lp_modify. intros s. reflexivity. Qed.

Ltac v_lp_step :=
  lazymatch goal with
  | |- v_lp (ret _) => apply v_lp_ret
  | |- v_lp (fail _) => apply v_lp_fail
  | |- v_lp get => apply v_lp_get
  | |- v_lp (guard _ _) => apply v_lp_guard
  | |- v_lp (of_opt _ _) => apply v_lp_of_opt
  | |- v_lp (getO _) => apply v_lp_getO
  | |- v_lp (modO _ _) => apply v_lp_modO
  | |- v_lp (mod_agg _ _) => apply v_lp_mod_agg
  | |- v_lp (modify _) => apply v_lp_modify; intros ?; reflexivity
  | |- v_lp (whenM _ _) => apply v_lp_whenM
  | |- v_lp (bind _ _) => apply v_lp_bind; [|intros ?]
  | |- v_lp (match ?x with _ => _ end) => destruct x
  end.
Ltac v_lp_tac := repeat v_lp_step.

Lemma v_lp_remove_observer : forall oi, v_lp (remove_observer oi).
Proof. intros oi. unfold remove_observer. v_lp_tac. Qed.

(** The observer's action after the log entry. *)
Definition v_cb_action (oi : nat) : MW unit :=
  o <- getO oi ;;
  match o_cb o with
  | 0 => ret tt
  | 1 => s <- get ;; whenM (memb oi (olist s (o_event o))) (remove_observer oi)
  | S (S k) =>
      s <- get ;;
      match nth_error (w_obs s) k with
      | Some ok => whenM (memb k (olist s (o_event ok))) (remove_observer k)
      | None => ret tt
      end
  end.

Lemma v_lp_cb_action : forall oi, v_lp (v_cb_action oi).
Proof. intros oi. unfold v_cb_action. v_lp_tac; apply v_lp_remove_observer. Qed.

(** The log entry of a callback, as a function of the state at callback time. *)
Definition v_cb_entry (oi : nat) (e : ent) (s : W) : list Z :=
  [100%Z; Zn oi] ++ Zent e ++ [Zb (is_locked s); Zb (alive s e); Zn (count_in_world s e)] ++
  (if alive s e then match snapshot_entity s e with Some l => l | None => [] end else []) ++ world_view s.

Lemma v_lockM_ok : forall s b l', lock_lock (w_lock s) = Some (b, l') -> lockM s = Ok b (s <| w_lock := l' |>).
Proof. intros s b l' H. unfold lockM, bind, get. rewrite H. reflexivity. Qed.
Lemma v_lockM_err : forall s, lock_lock (w_lock s) = None -> lockM s = Err EBits s.
Proof. intros s H. unfold lockM, bind, get. rewrite H. reflexivity. Qed.
Lemma v_unlockM_ok : forall s b l', lock_unlock (w_lock s) b = Some l' -> unlockM b s = Ok tt (s <| w_lock := l' |>).
Proof. intros s b l' H. unfold unlockM, bind, get. rewrite H. reflexivity. Qed.
Lemma v_unlockM_err : forall s b, lock_unlock (w_lock s) b = None -> unlockM b s = Err EUnbalanced s.
Proof. intros s b H. unfold unlockM, bind, get. rewrite H. reflexivity. Qed.

(** A callback that returns normally has appended exactly [v_cb_entry] (computed on the state it
    was started in) to the log; the observer's action does not touch the log. *)
Theorem run_callback_log_entry : forall oi e s u s',
  run_callback oi e s = Ok u s' -> w_log s' = w_log s ++ [v_cb_entry oi e s].
Proof.
  intros oi e s u s' H. unfold run_callback in H.
  unfold bind at 1 in H. unfold get at 1 in H.
  destruct (lock_lock (w_lock s)) as [[b l']|] eqn:LL.
  2:{ rewrite (sa_bind_err (v_lockM_err s LL)) in H. discriminate. }
  rewrite (sa_bind_ok (v_lockM_ok s b l' LL)) in H.
  unfold bind at 1 in H. unfold get at 1 in H.
  assert (C : count_in_world (s <| w_lock := l' |>) e = count_in_world s e) by reflexivity.
  rewrite C in H. clear C.
  assert (C : world_view (s <| w_lock := l' |>) = world_view s) by reflexivity.
  rewrite C in H. clear C.
  destruct (lock_unlock (w_lock (s <| w_lock := l' |>)) b) as [l''|] eqn:LU.
  2:{ rewrite (sa_bind_err (v_unlockM_err (s <| w_lock := l' |>) b LU)) in H. discriminate. }
  rewrite (sa_bind_ok (v_unlockM_ok (s <| w_lock := l' |>) b l'' LU)) in H.
  unfold bind at 1 in H.
  assert (T : forall (snap : list Z) (s0 : W), w_log s0 = w_log s ->
     (x <- log ([100%Z; Zn oi] ++ Zent e ++ [Zb (is_locked s); Zb (alive s e); Zn (count_in_world s e)] ++ snap) ;;
      v_cb_action oi) s0 = Ok u s' -> w_log s' = w_log s ++ [[100%Z; Zn oi] ++ Zent e ++ [Zb (is_locked s); Zb (alive s e); Zn (count_in_world s e)] ++ snap]).
  { intros snap s0 E0 H0.
    set (X := s0 <| w_log ::= fun lg => lg ++ [[100%Z; Zn oi] ++ Zent e ++ [Zb (is_locked s); Zb (alive s e); Zn (count_in_world s e)] ++ snap] |>).
    assert (H1 : v_cb_action oi X = Ok u s') by exact H0.
    pose proof (v_lp_cb_action oi X) as P. rewrite H1 in P. simpl in P. rewrite P. unfold X. simpl.
    rewrite E0. reflexivity. }
  unfold v_cb_entry. destruct (alive s e).
  - destruct (snapshot_entity s e) as [snap|]; [|discriminate]. unfold of_opt, ret at 1 in H.
    eapply (T (snap ++ world_view s)); [|exact H]. reflexivity.
  - unfold ret at 1 in H. eapply (T ([] ++ world_view s)); [|exact H]. reflexivity.
Qed.

Lemma v_count_in_world_ext : forall s1 s2 e, w_archs s2 = w_archs s1 -> w_tables s2 = w_tables s1 ->
  count_in_world s2 e = count_in_world s1 e.
Proof. intros s1 s2 e A T. unfold count_in_world. rewrite A, T. reflexivity. Qed.

Lemma v_cb_entry_ext : forall oi e s1 s2, storage_same s1 s2 -> w_lock s2 = w_lock s1 ->
  v_cb_entry oi e s2 = v_cb_entry oi e s1.
Proof.
  intros oi e s1 s2 (E1 & E2 & E3 & E4 & E5 & E6 & E7 & _) EL.
  unfold v_cb_entry, is_locked, alive, snapshot_entity, world_view.
  rewrite (v_count_in_world_ext s1 s2 e E6 E7), EL, E3, E4, E6, E7. reflexivity.
Qed.

Theorem run_callback_log_storage : forall oi e s1 s2,
  storage_same s1 s2 -> w_lock s2 = w_lock s1 -> w_log s2 = w_log s1 ->
  match run_callback oi e s1, run_callback oi e s2 with
  | Ok _ a, Ok _ b => w_log a = w_log b \/ (nth_error (w_obs s1) oi <> nth_error (w_obs s2) oi)
  | _, _ => True
  end.
Proof.
  intros oi e s1 s2 HS HL HG.
  destruct (run_callback oi e s1) as [u1 a|] eqn:R1; auto.
  destruct (run_callback oi e s2) as [u2 b|] eqn:R2; auto.
  left. rewrite (run_callback_log_entry _ _ _ _ _ R1), (run_callback_log_entry _ _ _ _ _ R2).
  rewrite HG, (v_cb_entry_ext oi e s1 s2 HS HL). reflexivity.
Qed.

(** Removal callbacks run before the change: the state handed to the removal events of [w_remove]
    has the same content as the state before the call (only archetypes/tables may have been created). *)
Definition remove_prefix (e : ent) (rem : list nat) : MW (nat * nat * nat * mask * mask * bool) :=
  check_locked ;;;
  s <- get ;; guard (alive s e) EDead ;;;
  guard (negb (is_nil rem)) ENoComps ;;;
  ix <- get_index e ;;
  let '(otid, row) := ix in
  om <- arch_mask_of_table otid ;;
  r <- find_or_create_table_remove otid rem om ;;
  let '(ntid, _, m, rel_removed) := r in
  ret (otid, row, ntid, om, m, rel_removed).

Lemma v_content_same_refl : forall s, content_same s s.
Proof. intros s e. split; auto. Qed.

(** [remove_prefix] is literally the part of [w_remove] before the removal events. *)
Lemma v_w_remove_prefix : forall e rem s,
  w_remove e rem s =
  (p <- remove_prefix e rem ;;
   let '(otid, row, ntid, om, m, rel_removed) := p in
   fire_remove_events e om m rel_removed ;;;
   nidx <- tbl_addM ntid e ;;
   copy_row otid ntid m row nidx ;;;
   remove_row otid row ;;;
   set_index_direct e ntid nidx) s.
Proof.
  intros e rem s. unfold w_remove, remove_prefix. unfold bind, get. cbv beta.
  destruct (check_locked s) as [[] s0|]; [|reflexivity].
  destruct (guard (alive s0 e) EDead s0) as [[] s1|]; [|reflexivity].
  destruct (guard (negb (is_nil rem)) ENoComps s1) as [[] s2|]; [|reflexivity].
  destruct (get_index e s2) as [[otid row] s3|]; [|reflexivity].
  destruct (arch_mask_of_table otid s3) as [om s4|]; [|reflexivity].
  destruct (find_or_create_table_remove otid rem om s4) as [[[[ntid naid] m] rr] s5|]; reflexivity.
Qed.

Theorem remove_events_see_old_content : forall s e rem, St s -> registered s rem ->
  match remove_prefix e rem s with
  | Ok _ s1 => St s1 /\ content_same s s1 /\ live s1 e = true /\ w_lock s1 = w_lock s /\ w_log s1 = w_log s
  | Err _ s1 => content_same s s1
  end.
Proof.
  intros s e rem HS _. pose proof (proj1 HS) as HW.
  unfold remove_prefix, check_locked, get_index, arch_mask_of_table, getT, getA.
  unfold bind, get, guard, of_opt, ret, fail. cbv beta.
  destruct (negb (is_locked s)); [|apply v_content_same_refl].
  destruct (alive s e) eqn:Al; [|apply v_content_same_refl].
  destruct (negb (is_nil rem)); [|apply v_content_same_refl].
  destruct (nth_error (w_index s) (fst e)) as [[[otid|] row]|] eqn:Ix; try apply v_content_same_refl.
  destruct (nth_error (w_tables s) otid) as [ot|] eqn:T; [|apply v_content_same_refl].
  destruct (nth_error (w_archs s) (t_arch ot)) as [a|] eqn:A; [|apply v_content_same_refl].
  assert (Hb : forall j, mk_get (a_mask a) j = true -> j < length (w_reg s)).
  { destruct (wf_arch_comps _ HW _ _ A) as (_ & B & _). exact B. }
  pose proof (find_or_create_table_remove_spec s otid ot rem (a_mask a) HS T Hb) as F.
  destruct (find_or_create_table_remove otid rem (a_mask a) s) as [[[[ntid naid] m] rr] s1|er s1].
  - destruct F as ((HS1 & SR & (SL & SG & _) & _) & _).
    pose proof (same_rows_content s s1 HW SR) as C.
    split; [exact HS1|]. split; [exact C|]. split; [|auto].
    destruct (C e) as (Lv & _). rewrite Lv. eapply sb2_alive_index_live; eauto.
  - destruct F as ((_ & SR & _) & _). apply same_rows_content; auto.
Qed.

(** C19: the entity figures agree with the tables. In a well-formed relation-free world the number of
    used entities (pool length minus reserved minus recycled) equals the total number of rows, and
    total = used + recycled. *)
Definition total_rows (s : W) : nat := fold_left (fun acc t => acc + t_len t) (w_tables s) 0.

Lemma v_total_rows_sum : forall s, total_rows s = list_sum (map t_len (w_tables s)).
Proof. intros s. unfold total_rows. rewrite v_fold_sum. reflexivity. Qed.

(** The IDs stored in the rows of table [tid], and of all tables. *)
Definition v_ids_of (s : W) (tid : nat) : list nat :=
  match nth_error (w_tables s) tid with
  | Some t => map (fun r => fst (row_ent t r)) (seq 0 (t_len t))
  | None => []
  end.
Definition v_all_ids (s : W) : list nat := flat_map (v_ids_of s) (seq 0 (length (w_tables s))).

Lemma v_ids_of_in : forall s tid id, In id (v_ids_of s tid) <->
  exists t r, nth_error (w_tables s) tid = Some t /\ r < t_len t /\ fst (row_ent t r) = id.
Proof.
  intros s tid id. unfold v_ids_of. split.
  - destruct (nth_error (w_tables s) tid) as [t|]; [|intros []]. intros H.
    apply in_map_iff in H. destruct H as (r & E & Hr). apply in_seq in Hr. exists t, r. repeat split; auto. lia.
  - intros (t & r & T & R & E). rewrite T. apply in_map_iff. exists r. split; auto. apply in_seq. lia.
Qed.

Lemma v_all_ids_in : forall s id, In id (v_all_ids s) <->
  exists tid t r, nth_error (w_tables s) tid = Some t /\ r < t_len t /\ fst (row_ent t r) = id.
Proof.
  intros s id. unfold v_all_ids. rewrite in_flat_map. split.
  - intros (tid & _ & H). apply v_ids_of_in in H. destruct H as (t & r & H). eauto.
  - intros (tid & t & r & T & R & E). exists tid. split.
    + apply in_seq. apply sa_nth_error_lt in T. lia.
    + apply v_ids_of_in. eauto.
Qed.

Lemma v_all_ids_length : forall s, length (v_all_ids s) = total_rows s.
Proof.
  intros s. unfold v_all_ids. rewrite v_length_flat_map, v_total_rows_sum, <- v_sum_tables.
  f_equal. apply map_ext. intros tid. unfold v_ids_of, v_at.
  destruct (nth_error (w_tables s) tid); [|reflexivity]. rewrite map_length, seq_length. reflexivity.
Qed.

Lemma v_all_ids_NoDup : forall s, WF s -> NoDup (v_all_ids s).
Proof.
  intros s HW. unfold v_all_ids. apply v_NoDup_flat_map.
  - apply seq_NoDup.
  - intros tid _. unfold v_ids_of. destruct (nth_error (w_tables s) tid) as [t|] eqn:T; [|constructor].
    apply sa_NoDup_map_inj; [|apply seq_NoDup]. intros x y Hx Hy E. apply in_seq in Hx, Hy.
    destruct (sb2_row_inj s tid t x tid t y HW T ltac:(lia) T ltac:(lia) E). auto.
  - intros tid tid' id _ _ H H'. apply v_ids_of_in in H, H'.
    destruct H as (t & r & T & R & E). destruct H' as (t' & r' & T' & R' & E').
    destruct (sb2_row_inj s tid t r tid' t' r' HW T R T' R' ltac:(congruence)). auto.
Qed.

(** The IDs from 2 on split into the free list and the IDs stored in rows. *)
Lemma v_pool_split : forall s, WF s -> length (pe (w_pool s)) - 2 = pavail (w_pool s) + total_rows s.
Proof.
  intros s HW. destruct (wf_pool _ HW) as (fl & (P1 & P2 & P3 & P4 & _) & F1 & F2).
  rewrite <- P2, <- v_all_ids_length, <- app_length.
  set (n := length (pe (w_pool s))) in *.
  assert (ND : NoDup (fl ++ v_all_ids s)).
  { apply v_NoDup_app; [exact P3|apply v_all_ids_NoDup; exact HW|].
    intros i Hi Hi'. destruct (F1 i Hi) as (r0 & I0). apply v_all_ids_in in Hi'.
    destruct Hi' as (tid & t & r & T & R & E). destruct (wf_rows _ HW _ _ _ T R) as (L & _).
    unfold loc in L. rewrite E, I0 in L. discriminate. }
  assert (I1 : incl (fl ++ v_all_ids s) (seq 2 (n - 2))).
  { intros i Hi. apply in_seq. apply in_app_or in Hi. destruct Hi as [Hi|Hi].
    - specialize (P4 i Hi). lia.
    - apply v_all_ids_in in Hi. destruct Hi as (tid & t & r & T & R & E).
      destruct (wf_rows _ HW _ _ _ T R) as (L & P). rewrite E in P. apply sa_nth_error_lt in P.
      destruct (wf_reserved _ HW) as ((r0 & I0) & (r1 & I1) & _).
      unfold loc in L. rewrite E in L.
      destruct i as [|[|i]]; [rewrite I0 in L; discriminate|rewrite I1 in L; discriminate|].
      fold n in P. lia. }
  assert (I2 : incl (seq 2 (n - 2)) (fl ++ v_all_ids s)).
  { intros i Hi. apply in_seq in Hi. apply in_or_app.
    destruct (in_dec Nat.eq_dec i fl) as [Hf|Hf]; [left; exact Hf|right].
    destruct (F2 i ltac:(fold n; lia) Hf) as (tid & r & Ix).
    destruct (wf_index _ HW _ _ _ Ix) as (t & T & R & E). apply v_all_ids_in. exists tid, t, r. auto. }
  pose proof (NoDup_incl_length ND I1) as L1.
  pose proof (NoDup_incl_length (seq_NoDup (n - 2) 2) I2) as L2.
  rewrite seq_length in L1, L2. lia.
Qed.

Theorem used_equals_rows : forall s, St s -> pool_len (w_pool s) = total_rows s.
Proof.
  intros s [HW _]. pose proof (v_pool_split s HW) as H. unfold pool_len, reserved. lia.
Qed.

Theorem total_is_used_plus_recycled : forall s, St s ->
  pool_cap (w_pool s) = pool_len (w_pool s) + pavail (w_pool s).
Proof.
  intros s [HW _]. pose proof (v_pool_split s HW) as H. unfold pool_cap, pool_len, reserved. lia.
Qed.

(** The per-archetype figures of [stats_vec] sum to the used entities (every table belongs to exactly
    one archetype's active list in a relation-free world where each archetype has its table). *)

(* NOT DERIVABLE as stated: the hypothesis gives every archetype a listed table, and [WF] makes the
   listed tables distinct existing tables, but nothing says that EVERY table is listed: a world with
   tables [t0; t1], both of archetype 0, and the single archetype listing only [1] satisfies [WF],
   [NoRel] and the hypothesis, yet the rows of [t0] are not counted. Missing clause: [v_tables_listed]
   (same as for [live_counted_once]). Under it the hypothesis on [a_tables] is not needed.
Theorem stats_sizes_sum : forall s, St s ->
  (forall aid a, nth_error (w_archs s) aid = Some a -> a_tables a <> []) ->
  fold_left (fun acc a => acc + fold_left (fun acc tid => acc + match nth_error (w_tables s) tid with Some t => t_len t | None => 0 end) (a_tables a) 0) (w_archs s) 0
  = total_rows s.
(refuted). *)

Theorem stats_sizes_sum_partial : forall s, St s -> v_tables_listed s ->
  fold_left (fun acc a => acc + fold_left (fun acc tid => acc + match nth_error (w_tables s) tid with Some t => t_len t | None => 0 end) (a_tables a) 0) (w_archs s) 0
  = total_rows s.
Proof.
  intros s HS HL. rewrite v_fold_sum. simpl.
  rewrite (map_ext _ (fun a => list_sum (map (v_at s t_len) (a_tables a)))).
  2:{ intros a. rewrite v_fold_sum. reflexivity. }
  rewrite v_list_sum_flat. fold (v_listed s).
  rewrite (v_list_sum_perm _ _ (Permutation_map (v_at s t_len) (v_listed_perm s HS HL))).
  rewrite v_sum_tables, v_total_rows_sum. reflexivity.
Qed.

(** The inequality half needs no extra clause: listed tables are distinct existing tables. *)
Lemma v_list_sum_incl : forall (f : nat -> nat) l l', NoDup l -> incl l l' ->
  list_sum (map f l) <= list_sum (map f l').
Proof.
  induction l as [|a l IH]; intros l' ND I; simpl; [lia|].
  inversion ND as [|? ? Na Nl]; subst.
  destruct (in_split a l' (I a (or_introl eq_refl))) as (l1 & l2 & ->).
  assert (I' : incl l (l1 ++ l2)).
  { intros x Hx. pose proof (I x (or_intror Hx)) as H. apply in_app_or in H. apply in_or_app.
    destruct H as [H|[H|H]]; auto. subst. contradiction. }
  pose proof (IH (l1 ++ l2) Nl I') as H. rewrite !map_app, !list_sum_app in *. simpl. lia.
Qed.

Theorem stats_sizes_le : forall s, St s ->
  fold_left (fun acc a => acc + fold_left (fun acc tid => acc + match nth_error (w_tables s) tid with Some t => t_len t | None => 0 end) (a_tables a) 0) (w_archs s) 0
  <= total_rows s.
Proof.
  intros s HS. rewrite v_fold_sum. simpl.
  rewrite (map_ext _ (fun a => list_sum (map (v_at s t_len) (a_tables a)))).
  2:{ intros a. rewrite v_fold_sum. reflexivity. }
  rewrite v_list_sum_flat. fold (v_listed s). rewrite v_total_rows_sum, <- v_sum_tables.
  apply v_list_sum_incl; [apply v_listed_NoDup; exact HS|].
  intros tid H. destruct (v_listed_table s tid (proj1 HS) H) as (t & T).
  apply in_seq. apply sa_nth_error_lt in T. lia.
Qed.

(** ** The two proposed clauses hold in the initial world. *)
Lemma v_tables_listed_init : forall c, v_tables_listed (init_world c).
Proof.
  intros c [|tid] t H; [|destruct tid; discriminate]. unfold init_world in H. cbn in H.
  inversion H; subst t. cbn. eexists. split; reflexivity.
Qed.

Lemma v_targets_zero_init : forall c, v_targets_zero (init_world c).
Proof.
  intros c [|tid] t H; [|destruct tid; discriminate]. unfold init_world in H. cbn in H.
  inversion H; subst t. cbn. constructor.
Qed.
