(** * ViewProofs: what callbacks and statistics see. Properties C09 (inside a callback the entity is
    alive and appears exactly once in a query; removal callbacks see the old content), C19 (entity
    figures agree with the tables). To be filled. *)
From Ark Require Import Model.Base Model.Mask Model.Pool Model.Util Model.World Model.Run.
From Ark Require Import Proofs.TableProofs Proofs.MaskProofs Proofs.WF Proofs.StorageA Proofs.StorageBDefs.
From Ark Require Import Proofs.StorageB_sb1 Proofs.StorageB_sb2 Proofs.StorageB_sb3.
From RecordUpdate Require Import RecordSet.
Import RecordSetNotations.
From Coq Require Import Lia.

(** In a well-formed relation-free world every live entity appears exactly once in a full query
    (count_in_world is what the callback's Filter0 query counts), every other handle not at all. *)
Theorem live_counted_once : forall s e, St s -> live s e = true -> count_in_world s e = 1.
Admitted.
Theorem dead_counted_zero : forall s e, St s -> live s e = false -> count_in_world s e = 0.
Admitted.

(** The snapshot a callback takes of a live entity is its content: one entry per component, in
    ascending component order, with the value [val] reports and target zero (no relations). *)
Theorem snapshot_is_content : forall s e l, St s -> live s e = true -> snapshot_entity s e = Some l ->
  exists ids, comps_of s e = Some ids /\ l = Zn (length ids) :: flat_map (fun c =>
     [Zn c; match val s e c with Some v => v | None => 0%Z end; 0%Z; 0%Z]) ids.
Admitted.

(** What a callback logs only depends on the storage, the lock state and the observer: two states
    with the same storage and the same lock give the same log entry. *)
Theorem run_callback_log_storage : forall oi e s1 s2,
  storage_same s1 s2 -> w_lock s2 = w_lock s1 -> w_log s2 = w_log s1 ->
  match run_callback oi e s1, run_callback oi e s2 with
  | Ok _ a, Ok _ b => w_log a = w_log b \/ (nth_error (w_obs s1) oi <> nth_error (w_obs s2) oi)
  | _, _ => True
  end.
Admitted.

(** Removal callbacks run before the change: the state handed to the removal events of [w_remove]
    has the same content as the state before the call (only archetypes/tables may have been created). *)
Definition remove_prefix (e : ent) (rem : list nat) : MW (nat * nat * nat * mask * mask * bool) :=
  check_locked ;;;
  s <- get ;; guard (alive s e) EDead ;;;
  guard (negb (is_nil rem)) ENoComps ;;;
  ix <- get_index e ;;
  let '(otid, row) := ix in
  om <- arch_mask_of_table otid ;;
  r <- find_or_create_table_remove otid rem om ;;
  let '(ntid, _, m, rel_removed) := r in
  ret (otid, row, ntid, om, m, rel_removed).

Theorem remove_events_see_old_content : forall s e rem, St s -> registered s rem ->
  match remove_prefix e rem s with
  | Ok _ s1 => St s1 /\ content_same s s1 /\ live s1 e = true /\ w_lock s1 = w_lock s /\ w_log s1 = w_log s
  | Err _ s1 => content_same s s1
  end.
Admitted.

(** C19: the entity figures agree with the tables. In a well-formed relation-free world the number of
    used entities (pool length minus reserved minus recycled) equals the total number of rows, and
    total = used + recycled. *)
Definition total_rows (s : W) : nat := fold_left (fun acc t => acc + t_len t) (w_tables s) 0.

Theorem used_equals_rows : forall s, St s -> pool_len (w_pool s) = total_rows s.
Admitted.

Theorem total_is_used_plus_recycled : forall s, St s ->
  pool_cap (w_pool s) = pool_len (w_pool s) + pavail (w_pool s).
Admitted.

(** The per-archetype figures of [stats_vec] sum to the used entities (every table belongs to exactly
    one archetype's active list in a relation-free world where each archetype has its table). *)
Theorem stats_sizes_sum : forall s, St s ->
  (forall aid a, nth_error (w_archs s) aid = Some a -> a_tables a <> []) ->
  fold_left (fun acc a => acc + fold_left (fun acc tid => acc + match nth_error (w_tables s) tid with Some t => t_len t | None => 0 end) (a_tables a) 0) (w_archs s) 0
  = total_rows s.
Admitted.
