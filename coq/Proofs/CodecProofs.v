(** * CodecProofs: entity handle encodings (entity.go). Property C17 (codec half). *)
From Ark Require Import Model.Base Model.Codec.
From Coq Require Import Lia ZifyN ZifyNat ZifyBool.

Definition u32_bound : N := 4294967296%N.

(** ** Arithmetic reading of the byte operations *)

Local Open Scope N_scope.

Lemma land_255 : forall x, N.land x 255 = x mod 256.
Proof.
  intros x. change 255 with (N.ones 8). rewrite N.land_ones. reflexivity.
Qed.

Lemma byte_of_spec : forall x k, byte_of x k = (x / 2 ^ (8 * k)) mod 256.
Proof.
  intros x k. unfold byte_of. rewrite land_255, N.shiftr_div_pow2. reflexivity.
Qed.

Lemma byte_of_lt : forall x k, byte_of x k < 256.
Proof.
  intros x k. rewrite byte_of_spec. apply N.mod_lt. discriminate.
Qed.

Lemma testbit_small : forall b k n, b < 2 ^ k -> k <= n -> N.testbit b n = false.
Proof.
  intros b k n Hb Hn.
  destruct (N.eq_dec b 0) as [->|Hz].
  - apply N.bits_0.
  - apply N.bits_above_log2.
    apply N.lt_le_trans with k; [|exact Hn].
    apply N.log2_lt_pow2; [|exact Hb].
    destruct b; [congruence|reflexivity].
Qed.

Lemma lor_shiftl_add : forall a b k, b < 2 ^ k -> N.lor (N.shiftl a k) b = a * 2 ^ k + b.
Proof.
  intros a b k Hb.
  assert (Hl : N.land (N.shiftl a k) b = 0).
  { apply N.bits_inj. intros n. rewrite N.land_spec, N.bits_0.
    destruct (N.lt_ge_cases n k) as [Hn|Hn].
    - rewrite N.shiftl_spec_low by exact Hn. reflexivity.
    - rewrite (testbit_small b k n Hb Hn). apply andb_false_r. }
  rewrite <- N.lxor_lor by exact Hl.
  rewrite <- N.add_nocarry_lxor by exact Hl.
  rewrite N.shiftl_mul_pow2. reflexivity.
Qed.

Local Ltac Zify.zify_post_hook ::= Z.div_mod_to_equations.

Lemma get_u32_spec : forall b3 b2 b1 b0, b2 < 256 -> b1 < 256 -> b0 < 256 ->
  get_u32 b3 b2 b1 b0 = b3 * 16777216 + b2 * 65536 + b1 * 256 + b0.
Proof.
  intros b3 b2 b1 b0 H2 H1 H0. unfold get_u32.
  rewrite (lor_shiftl_add b1 b0 8) by (change (2 ^ 8) with 256; exact H0).
  change (2 ^ 8) with 256.
  rewrite (lor_shiftl_add b2 _ 16) by (change (2 ^ 16) with 65536; lia).
  change (2 ^ 16) with 65536.
  rewrite (lor_shiftl_add b3 _ 24) by (change (2 ^ 24) with 16777216; lia).
  change (2 ^ 24) with 16777216.
  lia.
Qed.

Lemma byte_of_0 : forall x, byte_of x 0 = x mod 256.
Proof. intros. rewrite byte_of_spec. change (2 ^ (8 * 0)) with 1. rewrite N.div_1_r. reflexivity. Qed.
Lemma byte_of_1 : forall x, byte_of x 1 = (x / 256) mod 256.
Proof. intros. rewrite byte_of_spec. reflexivity. Qed.
Lemma byte_of_2 : forall x, byte_of x 2 = (x / 65536) mod 256.
Proof. intros. rewrite byte_of_spec. reflexivity. Qed.
Lemma byte_of_3 : forall x, byte_of x 3 = (x / 16777216) mod 256.
Proof. intros. rewrite byte_of_spec. reflexivity. Qed.

Lemma get_put_u32 : forall x, x < 4294967296 ->
  get_u32 (byte_of x 3) (byte_of x 2) (byte_of x 1) (byte_of x 0) = x.
Proof.
  intros x Hx.
  rewrite get_u32_spec by apply byte_of_lt.
  rewrite byte_of_0, byte_of_1, byte_of_2, byte_of_3.
  lia.
Qed.

Lemma get_u32_lt : forall b3 b2 b1 b0, b3 < 256 -> b2 < 256 -> b1 < 256 -> b0 < 256 ->
  get_u32 b3 b2 b1 b0 < 4294967296.
Proof.
  intros. rewrite get_u32_spec by assumption. lia.
Qed.

Lemma put_get_u32 : forall b3 b2 b1 b0, b3 < 256 -> b2 < 256 -> b1 < 256 -> b0 < 256 ->
  put_u32 (get_u32 b3 b2 b1 b0) = [b3; b2; b1; b0].
Proof.
  intros b3 b2 b1 b0 H3 H2 H1 H0. unfold put_u32.
  rewrite byte_of_0, byte_of_1, byte_of_2, byte_of_3.
  rewrite get_u32_spec by assumption.
  repeat f_equal; lia.
Qed.

Local Close Scope N_scope.

(** ** Binary codec *)

Theorem bin_roundtrip :
  forall id gen, (id < u32_bound)%N -> (gen < u32_bound)%N ->
  unmarshal_bin (marshal_bin id gen) = Some (id, gen).
Proof.
  intros id gen Hid Hgen. unfold u32_bound in *.
  unfold marshal_bin, put_u32. cbn [app unmarshal_bin].
  rewrite (get_put_u32 id Hid), (get_put_u32 gen Hgen). reflexivity.
Qed.

Theorem bin_length : forall id gen, length (marshal_bin id gen) = 8.
Proof. intros. reflexivity. Qed.

Theorem bin_bytes : forall id gen, Forall (fun b => (b < 256)%N) (marshal_bin id gen).
Proof.
  intros. unfold marshal_bin, put_u32. cbn [app].
  repeat (apply Forall_cons; [apply byte_of_lt|]). apply Forall_nil.
Qed.

(** Malformed input (any length other than 8) is rejected. *)
Theorem bin_reject : forall data, length data <> 8 -> unmarshal_bin data = None.
Proof.
  intros data H.
  do 8 (destruct data as [|? data]; [reflexivity|]).
  destruct data; [exfalso; apply H; reflexivity | reflexivity].
Qed.

(** Every 8-byte string decodes, to the handle whose encoding it is (the codec is a bijection). *)
Theorem bin_decode_total :
  forall data, length data = 8 -> Forall (fun b => (b < 256)%N) data ->
  exists id gen, (id < u32_bound)%N /\ (gen < u32_bound)%N /\
                 unmarshal_bin data = Some (id, gen) /\ marshal_bin id gen = data.
Proof.
  intros data Hlen Hall.
  do 8 (destruct data as [|? data]; [discriminate Hlen|]).
  destruct data; [|discriminate Hlen].
  repeat match goal with
         | H : Forall _ (_ :: _) |- _ =>
             let Hh := fresh "Hb" in
             pose proof (Forall_inv H) as Hh; apply Forall_inv_tail in H
         end.
  cbv beta in *.
  eexists. eexists. unfold u32_bound. cbn [unmarshal_bin].
  split; [|split; [|split; [reflexivity|]]].
  - apply get_u32_lt; assumption.
  - apply get_u32_lt; assumption.
  - unfold marshal_bin. rewrite !put_get_u32 by assumption. reflexivity.
Qed.

Theorem bin_append : forall buf id gen, append_bin buf id gen = buf ++ marshal_bin id gen.
Proof. intros. reflexivity. Qed.

(** ** JSON codec *)

Local Open Scope N_scope.

Definition is_digit (c : N) : bool := (N.leb 48 c && N.leb c 57)%bool.

Definition value_of (ds : list N) (a : N) : N :=
  fold_left (fun a c => a * 10 + (c - 48)) ds a.

Definition nondigit_head (l : list N) : Prop :=
  match l with
  | [] => True
  | c :: _ => is_digit c = false
  end.

Lemma parse_num_cons : forall c t acc,
  parse_num (c :: t) acc =
  if is_digit c
  then parse_num t (Some (match acc with Some a => a * 10 + (c - 48) | None => c - 48 end))
  else (acc, c :: t).
Proof. intros. reflexivity. Qed.

Lemma parse_num_digits_some : forall ds rest a,
  Forall (fun c => is_digit c = true) ds -> nondigit_head rest ->
  parse_num (ds ++ rest) (Some a) = (Some (value_of ds a), rest).
Proof.
  induction ds as [|d ds IH]; intros rest a Hds Hrest.
  - cbn [app value_of fold_left].
    destruct rest as [|c t]; [reflexivity|].
    rewrite parse_num_cons. unfold nondigit_head in Hrest. rewrite Hrest. reflexivity.
  - cbn [app]. rewrite parse_num_cons.
    rewrite (Forall_inv Hds).
    rewrite IH by (try apply (Forall_inv_tail Hds); assumption).
    reflexivity.
Qed.

Lemma parse_num_digits_none : forall ds rest,
  ds <> [] ->
  Forall (fun c => is_digit c = true) ds -> nondigit_head rest ->
  parse_num (ds ++ rest) None = (Some (value_of ds 0), rest).
Proof.
  intros [|d ds] rest Hne Hds Hrest; [congruence|].
  cbn [app]. rewrite parse_num_cons. rewrite (Forall_inv Hds).
  rewrite parse_num_digits_some by (try apply (Forall_inv_tail Hds); assumption).
  unfold value_of. cbn [fold_left]. rewrite N.mul_0_l, N.add_0_l. reflexivity.
Qed.

Lemma value_of_snoc : forall ds d a, value_of (ds ++ [d]) a = value_of ds a * 10 + (d - 48).
Proof.
  intros. unfold value_of. rewrite fold_left_app. reflexivity.
Qed.

Lemma is_digit_mod10 : forall x, is_digit (48 + x mod 10) = true.
Proof.
  intros x. unfold is_digit.
  assert (x mod 10 < 10) by (apply N.mod_lt; discriminate).
  apply andb_true_intro. split; apply N.leb_le; lia.
Qed.

Lemma dec_digits_spec : forall fuel x acc,
  x < 10 ^ N.of_nat fuel -> (0 < fuel)%nat ->
  exists ds, dec_digits fuel x acc = ds ++ acc /\ ds <> [] /\
             Forall (fun c => is_digit c = true) ds /\ value_of ds 0 = x.
Proof.
  induction fuel as [|f IH]; intros x acc Hx Hf; [inversion Hf|].
  cbn [dec_digits].
  destruct (N.ltb_spec x 10) as [Hlt|Hge].
  - exists [48 + x mod 10]. split; [reflexivity|]. split; [discriminate|]. split.
    + constructor; [apply is_digit_mod10|constructor].
    + unfold value_of. cbn [fold_left]. lia.
  - assert (Hf' : (0 < f)%nat).
    { destruct f; [|lia]. change (10 ^ N.of_nat 1) with 10 in Hx. lia. }
    assert (Hx' : x / 10 < 10 ^ N.of_nat f).
    { rewrite Nat2N.inj_succ, N.pow_succ_r' in Hx.
      apply N.div_lt_upper_bound; [discriminate|exact Hx]. }
    destruct (IH (x / 10) ((48 + x mod 10) :: acc) Hx' Hf') as (ds & Heq & Hne & Hall & Hval).
    exists (ds ++ [48 + x mod 10]). split; [|split; [|split]].
    + rewrite Heq, <- app_assoc. reflexivity.
    + intros E. apply app_eq_nil in E. destruct E; discriminate.
    + apply Forall_app. split; [exact Hall|].
      constructor; [apply is_digit_mod10|constructor].
    + rewrite value_of_snoc, Hval. lia.
Qed.

Lemma parse_dec : forall x rest, x < 4294967296 -> nondigit_head rest ->
  parse_num (dec x ++ rest) None = (Some x, rest).
Proof.
  intros x rest Hx Hrest. unfold dec.
  destruct (dec_digits_spec 12 x []) as (ds & Heq & Hne & Hall & Hval).
  - change (10 ^ N.of_nat 12) with 1000000000000. lia.
  - lia.
  - rewrite Heq, app_nil_r.
    rewrite parse_num_digits_none by assumption. rewrite Hval. reflexivity.
Qed.

Local Close Scope N_scope.

Theorem json_roundtrip :
  forall id gen, (id < u32_bound)%N -> (gen < u32_bound)%N ->
  unmarshal_json (marshal_json id gen) = Some (id, gen).
Proof.
  intros id gen Hid Hgen. unfold u32_bound in *.
  unfold marshal_json.
  change ([91%N] ++ dec id ++ [44%N] ++ dec gen ++ [93%N])
    with (91%N :: (dec id ++ 44%N :: (dec gen ++ [93%N]))).
  unfold unmarshal_json.
  rewrite (parse_dec id (44%N :: dec gen ++ [93%N]) Hid) by reflexivity.
  rewrite (parse_dec gen [93%N] Hgen) by reflexivity.
  apply N.ltb_lt in Hid, Hgen. rewrite Hid, Hgen. reflexivity.
Qed.

