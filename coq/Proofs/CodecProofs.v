(** * CodecProofs: entity handle encodings (entity.go). Property C17 (codec half). To be filled. *)
From Ark Require Import Model.Base Model.Codec.

Definition u32_bound : N := 4294967296%N.

Theorem bin_roundtrip :
  forall id gen, (id < u32_bound)%N -> (gen < u32_bound)%N ->
  unmarshal_bin (marshal_bin id gen) = Some (id, gen).
Admitted.

Theorem bin_length : forall id gen, length (marshal_bin id gen) = 8.
Admitted.

Theorem bin_bytes : forall id gen, Forall (fun b => (b < 256)%N) (marshal_bin id gen).
Admitted.

(** Malformed input (any length other than 8) is rejected. *)
Theorem bin_reject : forall data, length data <> 8 -> unmarshal_bin data = None.
Admitted.

(** Every 8-byte string decodes, to the handle whose encoding it is (the codec is a bijection). *)
Theorem bin_decode_total :
  forall data, length data = 8 -> Forall (fun b => (b < 256)%N) data ->
  exists id gen, (id < u32_bound)%N /\ (gen < u32_bound)%N /\
                 unmarshal_bin data = Some (id, gen) /\ marshal_bin id gen = data.
Admitted.

Theorem bin_append : forall buf id gen, append_bin buf id gen = buf ++ marshal_bin id gen.
Admitted.

Theorem json_roundtrip :
  forall id gen, (id < u32_bound)%N -> (gen < u32_bound)%N ->
  unmarshal_json (marshal_json id gen) = Some (id, gen).
Admitted.
